/-
C13 — arithmetic follows Python numerics on the declared value types: property theorems.

Every theorem is universally quantified over the abstract double `N : Num` (no law assumed), over all
operand texts / slots / values, and — the compositional ones — over expression trees of any depth.
`evalPy true` is the reference ("what Python computes", with the property's clause "`**` is a real power");
`evalPy false` is CPython to the letter (`int ** non-negative int` is an `int`).

Where the code violates the statement there is a `_counterexample` on a literal, the `_partial` theorems carry
the matching decidable exclusion (`Expr.noFloatMod`, `Expr.noNegBool`, `condIntegral`), and
known_findings.jsonl lists the concrete failing input.
-/
import FaxVerif.C13.Proofs
set_option linter.unusedSimpArgs false
set_option linter.unusedVariables false
namespace FaxVerif.C13
open FaxVerif.Generated.C13Tables
variable {N : Num}

/-! ## the generated tables -/

/-- The operator tables read from the source on this run are exactly Python's operator ↦ the C++ operator of the
same meaning (rows sorted by name); `**` is *not* in the binary table (it takes the `std::pow` path), `~` not in the unary one. -/
theorem operator_tables :
    binaryOps = [("Add", "+"), ("Div", "/"), ("Mod", "%"), ("Mult", "*"), ("Sub", "-")] ∧
    unaryOps = [("Not", "!"), ("UAdd", "+"), ("USub", "-")] ∧
    compareOps = [("Eq", "=="), ("Gt", ">"), ("GtE", ">="), ("Lt", "<"), ("LtE", "<="), ("NotEq", "!=")] := by
  decide

/-- `_type_priority` as read from the source orders the types by width (int < float < double) and does not
know `bool`. -/
theorem priority_table (t : CT) (p : Nat) : prio t = some p ↔ (t ≠ .bool ∧ p = t.rank) := by
  cases t <;> simp [prio_int, prio_float, prio_double, prio_bool, CT.rank] <;> omega

/-- **widest-type selection.** `most_accurate_type` returns a member of its argument that is at least as wide
as every member (so: the widest), for lists of any length; no member is `bool`. -/
theorem widest (ts : List CT) (t : CT) (h : mostAccurate ts = .ok t) :
    t ∈ ts ∧ ∀ x ∈ ts, x ≠ .bool ∧ x.rank ≤ t.rank := by
  obtain ⟨hm, pt, hpt, hall⟩ := mostAccurate_spec ts t h
  refine ⟨hm, fun x hx => ?_⟩
  obtain ⟨px, hpx, hle⟩ := hall x hx
  obtain ⟨h1, h2⟩ := prio_is_rank x px hpx
  obtain ⟨_, h4⟩ := prio_is_rank t pt hpt
  exact ⟨h1, by omega⟩

/-- `most_accurate_type` refuses (AssertionError) exactly the empty list and lists containing `bool`. -/
theorem widest_refuses (ts : List CT) (e : Refusal) (h : mostAccurate ts = .error e) :
    e = .assertion ∧ (ts = [] ∨ .bool ∈ ts) := by
  obtain ⟨h1, h2⟩ := mostAccurate_error ts e h
  refine ⟨h1, h2.imp id ?_⟩
  rintro ⟨x, hx, hp⟩
  cases x <;> first | exact hx | (simp [prio_int, prio_float, prio_double] at hp)

example : mostAccurate [.int, .float, .double, .float] = .ok .double := by rfl
example : (mostAccurate [.int, .bool]).toOption = none := by decide

/-! ## the compositional theorems (expression trees of any depth) -/

/-- **Value of an expression.** For every source expression `e` the translator accepts, outside the exclusion
A (`%` on a real operand), on every sample on which every `%` has
non-negative operands and on which Python's evaluation is defined: the emitted C++ expression is well-formed,
and evaluates — under the usual arithmetic conversions, bool promotion, int/int truncation — to exactly the
Python value (an `int` to the same `int`, a `float` to the same double, a `bool` to the same `bool`).
Missing for the unrestricted statement: the exclusion (false there, see `mod_float_counterexample`).  (`not` on
a real operand used to be a second exclusion; since `not x` is typed `bool` it is covered: `not_real_then_div`.) -/
theorem expr_correct_partial (e : Expr) (r : Rep) (h : translate e = .ok r)
    (hA : e.noFloatMod = true)
    (env : Env N) (hm : e.modNonneg env = true) (pv : PV N) (hpv : evalPy true env e = some pv) :
    ∃ cv, evalC env r.ce = some cv ∧ cv.toPy = pv := by
  obtain ⟨cv, h1, h2, _⟩ := (translate_sound e r h hA).2 env hm pv hpv
  exact ⟨cv, h1, h2⟩

/-- **integer-valued results remain integers.** The declared type of the result is a
floating type exactly when Python's result is a `float` (with `**` real); so `int`/`bool`-valued results are
declared `int`/`bool`. -/
theorem int_stays_int (e : Expr) (r : Rep) (h : translate e = .ok r)
    (hA : e.noFloatMod = true) :
    r.ty.isFloating = decide (e.pyKind true = .float) := by
  have := (translate_sound (N := unitNum) e r h hA).1
  simpa [Expr.isFloatKind] using this

/-- **mixed operands promote to the wider type** (no exclusion needed): the declared type is at least as wide
as every operand that flows into the value. -/
theorem result_wide_enough (e : Expr) (r : Rep) (h : translate e = .ok r) : e.width ≤ r.ty.rank :=
  translate_width e r h

/-- **The column.** Outside the two expression-level exclusions (A, and B: unary minus on a bool), the
value stored in a column of the declared type satisfies the column clause of the property: it is numerically
what Python computes, integer-valued results are stored in an integer type, real-valued ones in a floating type
at least as wide as every operand. -/
theorem column_correct_partial (e : Expr) (r : Rep) (h : translate e = .ok r) (hd : e.noDefect = true)
    (env : Env N) (hm : e.modNonneg env = true) (pv : PV N) (hpv : evalPy true env e = some pv) :
    ∃ cv, evalC env r.ce = some cv ∧ ColOk r.ty (e.pyKind true) e.width (convert r.ty cv) pv := by
  simp only [Expr.noDefect, Bool.and_eq_true] at hd
  obtain ⟨hA, hB⟩ := hd
  obtain ⟨hk, hv⟩ := translate_sound e r h hA
  obtain ⟨cv, h1, h2, h3⟩ := hv env hm pv hpv
  refine ⟨cv, h1, convert_ctype _ _, ?_, ?_⟩
  · rw [← h2]
    refine store_numEq r.ty cv h3 (fun hb => ?_)
    have := (translate_boolInv (N := N) e r h hb).2 hB env cv h1
    exact this (by rw [h3, hb]; rfl)
  · have hw := translate_width e r h
    simp only [kindOk]
    by_cases hf : e.pyKind true = .float
    · have : r.ty.isFloating = true := by rw [hk]; simp [Expr.isFloatKind, hf]
      simp [hf, this, hw]
    · have : r.ty.isFloating = false := by rw [hk]; simp [Expr.isFloatKind, hf]
      simp [hf, this]

/-- **Acceptance.** Every expression built from the property's operators in which no `+ - * / %` has a boolean
operand is translated (no refusal). -/
theorem accepts_in_scope (e : Expr) (h : e.mustAccept = true) : ∃ r, translate e = .ok r :=
  translate_accepts e h

/-! ## the operator × operand-kind table (depth one), for every operator of the generated tables -/

/-- **binop_table.** For every operator in the generated binary table, and `**`, and every pair of non-boolean
operand kinds — `%` only on the integer kinds and non-negative operands (the quantifier of the property) —: the
translation succeeds, the emitted expression evaluates to Python's value, and the column clause holds. -/
theorem binop_table (op : PyBin) (hop : (lookup binaryOps op.astName).isSome = true ∨ op = .pow)
    (k₁ k₂ : Kind) (hk : k₁ ≠ .bool ∧ k₂ ≠ .bool) (hmod : op = .mod → k₁.isReal = false ∧ k₂.isReal = false)
    (n₁ n₂ : Int) (s₁ s₂ : String) (i₁ i₂ : Nat) (env : Env N) (pv : PV N)
    (hm : (Expr.bin op (k₁.operand n₁ s₁ i₁) (k₂.operand n₂ s₂ i₂)).modNonneg env = true)
    (hpv : evalPy true env (.bin op (k₁.operand n₁ s₁ i₁) (k₂.operand n₂ s₂ i₂)) = some pv) :
    ∃ r cv, translate (.bin op (k₁.operand n₁ s₁ i₁) (k₂.operand n₂ s₂ i₂)) = .ok r ∧
      evalC env r.ce = some cv ∧ cv.toPy = pv ∧
      ColOk r.ty ((Expr.bin op (k₁.operand n₁ s₁ i₁) (k₂.operand n₂ s₂ i₂)).pyKind true)
        (Expr.bin op (k₁.operand n₁ s₁ i₁) (k₂.operand n₂ s₂ i₂)).width (convert r.ty cv) pv := by
  have hops : op = .add ∨ op = .sub ∨ op = .mult ∨ op = .div ∨ op = .mod ∨ op = .pow := by
    cases op <;> simp [lookup, binaryOps, PyBin.astName] at hop <;> simp
  have hacc : (Expr.bin op (k₁.operand n₁ s₁ i₁) (k₂.operand n₂ s₂ i₂)).mustAccept = true := by
    obtain ⟨h1, h2⟩ := hk
    rcases hops with h | h | h | h | h | h <;> subst h <;> cases k₁ <;> cases k₂ <;>
      simp_all [Expr.mustAccept, Expr.opsInScope, Expr.noBoolArith, Expr.boolish, Kind.operand, Expr.pyKind, CT.pk]
  have hdef : (Expr.bin op (k₁.operand n₁ s₁ i₁) (k₂.operand n₂ s₂ i₂)).noDefect = true := by
    obtain ⟨h1, h2⟩ := hk
    rcases hops with h | h | h | h | h | h <;> subst h <;> cases k₁ <;> cases k₂ <;>
      simp_all [Expr.noDefect, Expr.noFloatMod, Expr.noNegBool, Kind.operand, Expr.isFloatKind,
        Expr.pyKind, CT.pk, Kind.isReal]
  obtain ⟨r, hr⟩ := accepts_in_scope _ hacc
  simp only [Expr.noDefect, Bool.and_eq_true] at hdef
  obtain ⟨cv, h1, h2⟩ := expr_correct_partial _ r hr hdef.1 env hm pv hpv
  obtain ⟨cv', h1', h3⟩ := column_correct_partial _ r hr (by simp [Expr.noDefect, hdef]) env hm pv hpv
  rw [h1] at h1'; cases h1'
  exact ⟨r, cv, hr, h1, h2, h3⟩

/-- non-vacuity: `Count()/2` on 7 jets — the translation is `(static_cast<double>(cnt)/2)`, declared `double` -/
example : (translate (.bin .div (Kind.intCount.operand 0 "cnt" 1) (Kind.intLit.operand 2 "" 0))).toOption
    = some ⟨.double, .bin "/" (.cast .double (.leaf .int "cnt" 1)) (.ilit 2)⟩ := by decide

/-- **'/' is real division even between integers** (the repaired defect `c100516`, kept as a theorem so that a
regression breaks the build): for two integer operands the emitted expression is `(static_cast<double>(a)/b)`
and its value is the real quotient. -/
theorem intdiv_real (a b : Int) (hb : b ≠ 0) (s : String) (i : Nat) (env : Env N) (hi : (env i).i = a) :
    ∃ r, translate (.bin .div (.leaf .int s i) (.int b)) = .ok r ∧
      r.ce = .bin "/" (.cast .double (.leaf .int s i)) (.ilit b) ∧ r.ty = .double ∧
      evalC env r.ce = some (.dbl (N.div (N.ofInt a) (N.ofInt b))) := by
  refine ⟨⟨.double, .bin "/" (.cast .double (.leaf .int s i)) (.ilit b)⟩, ?_, ?_, rfl, ?_⟩
  · simp [translate, binHandled, lookup_div, emitBin, emitKnownBin, mostAccurate_pair, CT.rank]
  · rfl
  · simp [evalC, leafVal, convert, cBin, CV.isFloating, CV.ctype, CT.isFloating, CV.toD, mkF, wider, hi]

/-- what the cast repairs: the same text without it truncates (`7/2 = 3`) -/
theorem intdiv_without_cast_truncates :
    evalC (N := N) (fun _ => ⟨7, N.ofInt 0, false⟩) (.bin "/" (.leaf .int "cnt" 1) (.ilit 2)) = some (.int 3) := by
  simp [evalC, leafVal, cBin, CV.isFloating, CV.ctype, CT.isFloating, CV.toI]

example : (CE.bin "/" (.cast .double (.leaf .int "aggResult2" 1)) (.ilit 2)).render = "(static_cast<double>(aggResult2)/2)" := by
  decide

/-- **'**' is a real power**: for all operand kinds (booleans included) the emitted text is `std::pow(a, b)`,
declared `double`, and its value is the real power of the operands converted to double. -/
theorem pow_real (k₁ k₂ : Kind) (n₁ n₂ : Int) (s₁ s₂ : String) (i₁ i₂ : Nat) (env : Env N) :
    ∃ (r : Rep) (a b : CE) (ca cb : CV N),
      translate (.bin .pow (k₁.operand n₁ s₁ i₁) (k₂.operand n₂ s₂ i₂)) = .ok r ∧ r.ty = .double ∧
      r.ce = .pow a b ∧ evalC env a = some ca ∧ evalC env b = some cb ∧
      (evalC env r.ce).map CV.toPy = some (.float (N.pow ca.toD cb.toD)) := by
  have h1 : ∃ lr, translate (k₁.operand n₁ s₁ i₁) = .ok lr ∧ ∃ c, evalC env lr.ce = some c := by
    cases k₁ <;> exact ⟨_, rfl, _, rfl⟩
  have h2 : ∃ rr, translate (k₂.operand n₂ s₂ i₂) = .ok rr ∧ ∃ c, evalC env rr.ce = some c := by
    cases k₂ <;> exact ⟨_, rfl, _, rfl⟩
  obtain ⟨lr, hl, cl, hcl⟩ := h1
  obtain ⟨rr, hr, cr, hcr⟩ := h2
  refine ⟨⟨.double, .pow lr.ce rr.ce⟩, lr.ce, rr.ce, cl, cr, ?_, rfl, rfl, hcl, hcr, ?_⟩
  · have hb : binHandled .pow = true := by decide
    simp only [translate, hb, if_true, hl, hr, emitBin_pow_ok]
  · simp only [evalC, hcl, hcr, Option.map, (pow_sound cl cr).1]

/-- CPython gives an `int` for `int ** non-negative int`; the generated `double` is numerically that integer
whenever the library power is exact on the operands (explicit hypothesis; nothing about IEEE is assumed). The
property asks for a *real* power, so the `double` column is what it demands. -/
theorem pow_int_exact_partial (a : Int) (n : Nat) (hex : N.pow (N.ofInt a) (N.ofInt n) = N.ofInt (a ^ n)) :
    pyBin (N := N) false .pow (.int a) (.int n) = some (.int (a ^ n)) ∧
    numEq (cPow (N := N) (.int a) (.int n)) (.int (a ^ n)) := by
  constructor
  · simp [pyBin, PV.isFloat, PV.toI]
  · simp [numEq, cPow, CV.isFloating, CV.ctype, CT.isFloating, CV.toD, hex]

/-- **unary.** For every operator of the generated unary table and every operand kind: the translation succeeds
and the emitted `(op(x))` evaluates to Python's value (`+True` is 1, `-True` is −1, `not 2.5` is `False`). -/
theorem unary (op : PyUn) (hop : (lookup unaryOps op.astName).isSome = true) (k : Kind)
    (n : Int) (s : String) (i : Nat) (env : Env N) :
    ∃ r cv pv, translate (.un op (k.operand n s i)) = .ok r ∧ evalC env r.ce = some cv ∧
      evalPy true env (.un op (k.operand n s i)) = some pv ∧ cv.toPy = pv := by
  have hops : op = .uadd ∨ op = .usub ∨ op = .not := by
    cases op <;> simp [lookup, unaryOps, PyUn.astName] at hop <;> simp
  rcases hops with h | h | h <;> subst h <;> cases k <;>
    simp [translate, unHandled, lookup_uadd, lookup_usub, lookup_not, emitUn, Kind.operand, evalC, evalPy, leafVal,
      cUn, pyUn, CV.toPy, CV.truthy, PV.truthy]

/-- the declared type of a unary result (`visit_UnaryOp`): `bool` for `not`, the operand's for `+` and `-` -/
theorem unary_type (op : PyUn) (e : Expr) (r : Rep) (h : translate (.un op e) = .ok r) :
    ∃ er, translate e = .ok er ∧ r.ty = if op = .not then .bool else er.ty := by
  simp only [translate] at h
  split at h
  · cases he : translate e with
    | error x => simp [he] at h
    | ok er =>
      simp only [he] at h
      refine ⟨er, rfl, ?_⟩
      cases op <;> simp [emitUn, lookup_uadd, lookup_usub, lookup_not, lookup_invert] at h <;> (subst h; rfl)
  · simp at h

/-- **compare.** For each of the six comparisons of the generated table and every pair of operand kinds
(booleans included): the translation succeeds, is declared `bool`, and evaluates to Python's truth value. -/
theorem compare (op : PyCmp) (hop : (lookup compareOps op.astName).isSome = true) (k₁ k₂ : Kind)
    (n₁ n₂ : Int) (s₁ s₂ : String) (i₁ i₂ : Nat) (env : Env N) :
    ∃ r cv pv, translate (.cmp op (k₁.operand n₁ s₁ i₁) (k₂.operand n₂ s₂ i₂)) = .ok r ∧ r.ty = .bool ∧
      evalC env r.ce = some cv ∧
      evalPy true env (.cmp op (k₁.operand n₁ s₁ i₁) (k₂.operand n₂ s₂ i₂)) = some pv ∧ cv.toPy = pv := by
  have hacc : (Expr.cmp op (k₁.operand n₁ s₁ i₁) (k₂.operand n₂ s₂ i₂)).mustAccept = true := by
    cases op <;> simp [lookup, compareOps, PyCmp.astName] at hop <;> cases k₁ <;> cases k₂ <;>
      simp [Expr.mustAccept, Expr.opsInScope, Expr.noBoolArith, Kind.operand]
  obtain ⟨r, hr⟩ := accepts_in_scope _ hacc
  have hty : r.ty = .bool := by
    simp only [translate] at hr
    cases hl : translate (k₁.operand n₁ s₁ i₁) with
    | error x => simp [hl] at hr
    | ok lr =>
      cases hr' : translate (k₂.operand n₂ s₂ i₂) with
      | error x => simp [hl, hr'] at hr
      | ok rr =>
        simp only [hl, hr', emitCmp] at hr
        split at hr
        · simp at hr; rw [← hr]
        · simp at hr
  have hpy : ∃ pv, evalPy true env (.cmp op (k₁.operand n₁ s₁ i₁) (k₂.operand n₂ s₂ i₂)) = some pv := by
    cases op <;> simp [lookup, compareOps, PyCmp.astName] at hop <;> cases k₁ <;> cases k₂ <;>
      simp [evalPy, Kind.operand, pyCmp, leafVal, CV.toPy, PV.isFloat]
  obtain ⟨pv, hpv⟩ := hpy
  have hnd : ∀ k : Kind, ∀ n s i, (k.operand n s i).noFloatMod = true ∧
      (k.operand n s i).modNonneg env = true := by
    intro k n s i; cases k <;> simp [Kind.operand, Expr.noFloatMod, Expr.modNonneg]
  obtain ⟨cv, h1, h2⟩ := expr_correct_partial _ r hr
    (by simp [Expr.noFloatMod, (hnd k₁ n₁ s₁ i₁).1, (hnd k₂ n₂ s₂ i₂).1])
    env (by simp [Expr.modNonneg, (hnd k₁ n₁ s₁ i₁).2, (hnd k₂ n₂ s₂ i₂).2]) pv hpv
  exact ⟨r, cv, pv, hr, hty, h1, hpv, h2⟩

/-! ## refusals -/

/-- **bool_refused.** `+ - * / %` with a boolean-typed operand is *refused* — `most_accurate_type` raises
AssertionError, nothing is emitted — and with two non-boolean operands it is accepted.  (The property's "computes
what Python computes" is about generated jobs; a refusal generates none.  The exception class is C09's business.) -/
theorem bool_refused (op : PyBin) (hop : (lookup binaryOps op.astName).isSome = true) (l r : Rep) :
    (l.ty = .bool ∨ r.ty = .bool → emitBin op l r = .error .assertion) ∧
    (l.ty ≠ .bool → r.ty ≠ .bool → ∃ res, emitBin op l r = .ok res) := by
  have hops : op = .add ∨ op = .sub ∨ op = .mult ∨ op = .div ∨ op = .mod := by
    cases op <;> simp [lookup, binaryOps, PyBin.astName] at hop <;> simp
  obtain ⟨lt, lc⟩ := l; obtain ⟨rt, rc⟩ := r
  constructor
  · intro h
    rcases hops with h' | h' | h' | h' | h' <;> subst h' <;> cases lt <;> cases rt <;> simp at h <;>
      simp [emitBin, lookup_add, lookup_sub, lookup_mult, lookup_div, lookup_mod, emitKnownBin, mostAccurate_pair]
  · intro h1 h2
    exact emitBin_ok op (by rcases hops with h | h | h | h | h <;> simp [h]) _ _ h1 h2

/-- every other Python operator (`//`, `@`, `<<`, `>>`, `|`, `^`, `&`, `~`, `is`, `in`, …) is refused -/
theorem other_operators_refused :
    (∀ op l r, (lookup binaryOps op.astName).isSome = false → op ≠ .pow → translate (.bin op l r) = .error .runtime) ∧
    (∀ op e, (lookup unaryOps op.astName).isSome = false → translate (.un op e) = .error .runtime) ∧
    (∀ op (l r : Rep), (lookup compareOps op.astName).isSome = false → emitCmp op l r = .error .keyError) := by
  refine ⟨?_, ?_, ?_⟩
  · intro op l r h hp
    have : binHandled op = false := by simp [binHandled, h, hp]
    simp [translate, this]
  · intro op e h
    have : unHandled op = false := by simp [unHandled, h]
    simp [translate, this]
  · intro op l r h
    unfold emitCmp
    cases hl : lookup compareOps op.astName with
    | none => rfl
    | some t => simp [hl] at h

/-! ## constants, assignments, the conditional, aggregates -/

/-- **const_typing.** `visit_Constant`: an `int` constant is typed `int` and written `str(n)` — in parentheses when
negative (`a--5` would be lexed as a decrement) —, a `float`
constant is typed `double` and written with the text it was given, `True`/`False` are `bool` `true`/`false`. -/
theorem const_typing (n : Int) (s : String) (i : Nat) (b : Bool) :
    (translate (.int n)).toOption.map (fun r => (r.ty, r.ce.render)) = some (.int, if n < 0 then "(" ++ toString n ++ ")" else toString n) ∧
    (translate (.flt s i)).toOption.map (fun r => (r.ty, r.ce.render)) = some (.double, s) ∧
    (translate (.bool b)).toOption.map (fun r => (r.ty, r.ce.render)) = some (.bool, if b then "true" else "false") := by
  refine ⟨rfl, rfl, rfl⟩

/-- The legacy `guess_type_from_number` (reached only through `visit_Num`, dead on Python ≥ 3.8) would type the
float constant `2.0` as `int`; `visit_Constant` does not. Recorded, not a finding: the path is unreachable. -/
theorem guess_type_legacy : guessTypeFromNumber true = .int ∧ guessTypeFromNumber false = .double := ⟨rfl, rfl⟩

/-- **set_var_cast.** After `T x; x = <rhs>;` with the right-hand side `set_var` emits, `x` holds the value
converted to `T` — whether or not the `static_cast` was written —, and the cast is written exactly when the
declared types differ. -/
theorem set_var_cast (t : CT) (v : Rep) (env : Env N) (c : CV N) (h : evalC env v.ce = some c) :
    (evalC env (setVarRhs t v)).map (convert t) = some (convert t c) ∧
    (setVarRhs t v).render = (if t ≠ v.ty then "static_cast<" ++ t.name ++ ">(" ++ v.ce.render ++ ")" else v.ce.render) := by
  refine ⟨setVar_value t v env c h, ?_⟩
  unfold setVarRhs
  split <;> simp_all [CE.render]

/-- **acc_wide_enough.** The accumulator's final type is the seed's or the update's, and is at least as wide as
both — so `acc = update` never narrows. -/
theorem acc_wide_enough (seed upd t : CT) (h : accType seed upd = .ok t) :
    (t = seed ∨ t = upd) ∧ seed.rank ≤ t.rank ∧ upd.rank ≤ t.rank := by
  unfold accType at h
  split at h
  · obtain ⟨hm, hall⟩ := widest _ _ h
    simp only [List.mem_cons, List.not_mem_nil, or_false] at hm
    exact ⟨hm, (hall seed (by simp)).2, (hall upd (by simp)).2⟩
  · rename_i hne
    simp only [ne_eq, Decidable.not_not] at hne
    simp only [Except.ok.injEq] at h
    subst h; subst hne
    exact ⟨Or.inl rfl, Nat.le_refl _, Nat.le_refl _⟩

/-- the `Aggregate` path refuses a boolean seed (ValueError) and a boolean update of another type (assertion) -/
theorem agg_refusals (nm : String) (ifs : Nat) (seed : Rep) (u : Upd) :
    (seed.ty = .bool → emitAgg nm ifs seed u = .error .valueError) ∧
    (∀ o, emitAgg nm ifs seed u = .ok o → o.accTy ≠ .bool) := by
  constructor
  · intro h; simp [emitAgg, accTypeOk, h]
  · intro o h
    unfold emitAgg at h
    split at h
    · rename_i hok
      cases hu : translateUpd nm ifs u with
      | error e => simp [hu] at h
      | ok cu =>
        obtain ⟨c, upd⟩ := cu
        simp only [hu] at h
        cases ha : accType seed.ty upd.ty with
        | error e => simp [ha] at h
        | ok t =>
          simp only [ha, Except.ok.injEq] at h
          subst h
          simp only
          rcases (acc_wide_enough _ _ _ ha).1 with h1 | h1
          · rw [h1]; intro hb; simp [accTypeOk, hb] at hok
          · unfold accType at ha
            split at ha
            · have := (widest _ _ ha).2 t (by rw [h1]; simp)
              exact this.1
            · simp at ha; rw [← ha]; intro hb; simp [accTypeOk, hb] at hok
    · simp at h

/-- **Count().** The generated loop counts: declared `int`, value = number of elements = Python's. -/
theorem count_correct (nm : String) (ifs : Nat) (elems : List (Env N)) :
    ∃ o, emitAgg nm ifs seed0 countUpd = .ok o ∧ o.accTy = .int ∧
      runAggC ifs o (.int 0) elems = some (.int elems.length) ∧
      runAggPy true countUpd (.int 0) elems = some (.int elems.length) := by
  have := count_run (N := N) ifs elems 0
  exact ⟨countOut, emitAgg_count nm ifs, rfl, by simpa using this.1, by simpa using this.2⟩

/-- **Sum().** Over values of declared type `k ∈ {int, float, double}`: the accumulator is declared `k` (seeded
with the int 0 and widened), and the generated loop computes, for every list of elements, a value numerically
equal to Python's `0 + v₁ + v₂ + …` — an `int` for `int`s. -/
theorem sum_correct (nm : String) (ifs : Nat) (k : CT) (hk : k ≠ .bool) (s : String) (slot : Nat)
    (hs : slot ≠ accSlot) (elems : List (Env N)) :
    ∃ o c p, emitAgg nm ifs seed0 (sumUpd k s slot) = .ok o ∧ o.accTy = k ∧
      runAggC ifs o (convert k (.int 0)) elems = some c ∧
      runAggPy true (sumUpd k s slot) (.int 0) elems = some p ∧ c.ctype = k ∧ numEq c p := by
  obtain ⟨c, p, h1, h2, h3, h4⟩ := sum_run (N := N) ifs k hk s slot hs elems (convert k (.int 0)) (.int 0)
    (convert_ctype _ _)
    (by cases k <;> simp at hk <;> simp [numEq, convert, CV.isFloating, CV.ctype, CT.isFloating, CV.toI, CV.toD])
    trivial
  exact ⟨sumOut k s slot, c, p, emitAgg_sum nm ifs k hk s slot hs, rfl, h1, h2, h3, h4⟩

/-- **Max() / Min()** over `float`/`double` values: the accumulator is declared `double` (the conditional's
type), and the loop computes a value numerically equal to Python's fold of `acc if acc > v else v` from 0.
(Seeding with 0 is func_adl's definition and C01's concern, not a numeric one.) Partial: integer values are
exclusion E — see `max_int_counterexample`. -/
theorem maxmin_correct_partial (gt : Bool) (nm : String) (ifs : Nat) (hi : ifs ≠ accSlot) (k : CT)
    (hk : k = .float ∨ k = .double) (s : String) (slot : Nat) (hs : slot ≠ accSlot) (elems : List (Env N)) :
    ∃ o c p, emitAgg nm ifs seed0 (mmUpd gt k s slot) = .ok o ∧ o.accTy = .double ∧
      runAggC ifs o (.dbl (N.ofInt 0)) elems = some c ∧
      runAggPy true (mmUpd gt k s slot) (.int 0) elems = some p ∧ c.ctype = .double ∧ numEq c p := by
  obtain ⟨c, p, h1, h2, h3, h4⟩ := mm_run (N := N) gt nm ifs hi k hk s slot hs elems (.dbl (N.ofInt 0)) (.int 0) rfl
    (by simp [numEq, CV.isFloating, CV.ctype, CT.isFloating, CV.toD]) trivial
  have hkb : k ≠ .bool := by rcases hk with h | h <;> simp [h]
  refine ⟨mmOut gt nm ifs k s slot, c, p, ?_, rfl, h1, h2, h3, h4⟩
  cases gt
  · simpa [mmUpd] using emitAgg_min nm ifs hi k hkb s slot hs
  · simpa [mmUpd] using emitAgg_max nm ifs hi k hkb s slot hs

/-- **A conditional yields its arm's value.** For any test and arms the translator accepts (outside A): the generated `if (t) r = a; else r = b;` leaves in the `double` result variable a value numerically equal
to the value of the arm Python selects. -/
theorem cond_arm (nm : String) (slot : Nat) (t a b : Expr) (tr ar br : Rep)
    (ht : translate t = .ok tr) (ha : translate a = .ok ar) (hb : translate b = .ok br)
    (hd : t.noFloatMod = true ∧ a.noFloatMod = true ∧ b.noFloatMod = true)
    (env : Env N) (hm : t.modNonneg env = true ∧ a.modNonneg env = true ∧ b.modNonneg env = true)
    (pt pa pb : PV N) (hpt : evalPy true env t = some pt) (hpa : evalPy true env a = some pa)
    (hpb : evalPy true env b = some pb) :
    ∃ cv pv, evalCondC env (emitCond nm slot tr ar br) = some cv ∧ evalCondPy true env t a b = some pv ∧
      cv.ctype = .double ∧ numEq cv pv := by
  obtain ⟨ct, h1, h2⟩ := expr_correct_partial t tr ht hd.1 env hm.1 pt hpt
  obtain ⟨ca, h3, h4⟩ := expr_correct_partial a ar ha hd.2.1 env hm.2.1 pa hpa
  obtain ⟨cb, h5, h6⟩ := expr_correct_partial b br hb hd.2.2 env hm.2.2 pb hpb
  refine ⟨_, if pt.truthy then pa else pb, cond_value env nm slot tr ar br ct ca cb h1 h3 h5, ?_, convert_ctype _ _, ?_⟩
  · simp only [evalCondPy, hpt]; split <;> assumption
  · rw [← h2, toPy_truthy]
    split
    · rw [← h4]; exact numEq_toDouble ca
    · rw [← h6]; exact numEq_toDouble cb

/-- the conditional's result is declared `double` whatever the arms are, and each arm is assigned through the
`set_var` rule -/
theorem cond_shape (nm : String) (slot : Nat) (tr ar br : Rep) :
    (emitCond nm slot tr ar br).result.ty = .double ∧
    condLines nm (emitCond nm slot tr ar br) =
      ["double " ++ nm ++ ";", "if (" ++ tr.ce.render ++ ")", nm ++ " = " ++ (setVarRhs .double ar).render ++ ";",
       "else", nm ++ " = " ++ (setVarRhs .double br).render ++ ";"] := ⟨rfl, rfl⟩

/-- **A conditional over the accumulator inside an `Aggregate` lambda, next to a real term** — `Aggregate(0, lambda
acc, j: (acc if acc > 0 else 0) + j.k())` with `k` float/double: the conditional is translated while the accumulator is
still an `int`, the accumulator is widened to `double` afterwards, and the emitted loop (result variable `double`, no
narrowing cast) computes for every list of elements exactly Python's fold.  The only fact about doubles used is
`¬ (0.0 < 0.0)`, an explicit hypothesis. -/
theorem clamp_sum_correct (nm : String) (ifs : Nat) (hi : ifs ≠ accSlot) (k : CT) (hk : k = .float ∨ k = .double)
    (s : String) (slot : Nat) (hs : slot ≠ accSlot) (hsi : slot ≠ ifs) (h0 : N.lt (N.ofInt 0) (N.ofInt 0) = false)
    (elems : List (Env N)) :
    ∃ o c p, emitAgg nm ifs seed0 (clampUpd nm ifs k s slot) = .ok o ∧ o.accTy = .double ∧
      (o.cond.map (·.result.ty)) = some .double ∧
      runAggC ifs o (.dbl (N.ofInt 0)) elems = some c ∧
      runAggPy true (clampUpd nm ifs k s slot) (.int 0) elems = some p ∧ numEq c p := by
  have key : ∀ (elems : List (Env N)) (x : N.D) (ap : PV N), clampInv x ap →
      ∃ y p, runAggC ifs (clampOut nm ifs k s slot) (.dbl x) elems = some (.dbl y) ∧
        runAggPy true (clampUpd nm ifs k s slot) ap elems = some p ∧ clampInv y p := by
    intro elems
    induction elems with
    | nil => intro x ap h; exact ⟨x, ap, rfl, rfl, h⟩
    | cons env rest ih =>
      intro x ap h
      obtain ⟨y, p, h1, h2, h3⟩ := ih _ (.float _) (Or.inl rfl)
      refine ⟨y, p, ?_, ?_, h3⟩
      · simp only [runAggC, clamp_stepC nm ifs hi k hk s slot hs hsi env x]; exact h1
      · simp only [runAggPy, clamp_stepPy nm ifs hi k hk s slot hs hsi env x ap h0 h]; exact h2
  obtain ⟨y, p, h1, h2, h3⟩ := key elems (N.ofInt 0) (.int 0) (Or.inr ⟨rfl, rfl⟩)
  refine ⟨_, _, p, emitAgg_clamp nm ifs hi k hk s slot hs hsi, rfl, rfl, h1, h2, ?_⟩
  rcases h3 with rfl | ⟨rfl, rfl⟩ <;> simp [numEq, CV.isFloating, CV.ctype, CT.isFloating, CV.toD]
/-- `visit_BoolOp` (two operands): the `bool` result variable holds the truth value of Python's `a and b` /
`a or b` (Python itself returns the deciding *operand*; the generated code its truth value — `and`/`or` are not among
the operators the property quantifies over). -/
theorem boolop_truth (isAnd : Bool) (a b : Expr) (ar br : Rep) (ha : translate a = .ok ar) (hb : translate b = .ok br)
    (hd : a.noFloatMod = true ∧ b.noFloatMod = true)
    (env : Env N) (hm : a.modNonneg env = true ∧ b.modNonneg env = true)
    (pa pb : PV N) (hpa : evalPy true env a = some pa) (hpb : evalPy true env b = some pb) :
    ∃ pv, evalBoolOpPy true isAnd env a b = some pv ∧
      evalBoolOpC isAnd env (setVarRhs .bool ar) (setVarRhs .bool br) = some pv.truthy := by
  obtain ⟨ca, h1, h2⟩ := expr_correct_partial a ar ha hd.1 env hm.1 pa hpa
  obtain ⟨cb, h3, h4⟩ := expr_correct_partial b br hb hd.2 env hm.2 pb hpb
  have s1 := setVar_value .bool ar env ca h1
  have s2 := setVar_value .bool br env cb h3
  have ta : pa.truthy = ca.truthy := by rw [← h2, toPy_truthy]
  have tb : pb.truthy = cb.truthy := by rw [← h4, toPy_truthy]
  cases e1 : evalC env (setVarRhs .bool ar) with
  | none => simp [e1] at s1
  | some v1 =>
    cases e2 : evalC env (setVarRhs .bool br) with
    | none => simp [e2] at s2
    | some v2 =>
      simp [e1] at s1; simp [e2] at s2
      have t1 : (convert CT.bool v1).truthy = ca.truthy := by rw [s1, truthy_convert_bool]
      have t2 : (convert CT.bool v2).truthy = cb.truthy := by rw [s2, truthy_convert_bool]
      simp only [evalBoolOpPy, evalBoolOpC, hpa, hpb, e1, e2, t1, t2, ta]
      cases isAnd <;> cases h : ca.truthy <;> simp [h, tb, ta]

/-! ## where the code violates the statement -/

/-- **Exclusion A.** `j.d() % 2`: accepted, emitted as `(j->d()%2)` declared `double` — not C++ (`%` needs
integral operands): the generated job does not compile. -/
theorem mod_float_counterexample :
    ∃ r, translate (.bin .mod (.leaf .double "j->d()" 1) (.int 2)) = .ok r ∧ r.ce.render = "(j->d()%2)" ∧
      r.ty = .double ∧ ∀ env : Env N, evalC env r.ce = none := by
  refine ⟨⟨.double, .bin "%" (.leaf .double "j->d()" 1) (.ilit 2)⟩, by rfl, by decide, rfl, ?_⟩
  intro env
  simp [evalC, leafVal, cBin, CV.isFloating, CV.ctype, CT.isFloating]

/-- **Exclusion B.** `-j.b()` with `b() == true`: declared `bool`; the C++ value −1 is stored as `true`, i.e. 1,
where Python gives −1. -/
theorem neg_bool_counterexample :
    ∃ r cv, translate (.un .usub (.leaf .bool "j->b()" 1)) = .ok r ∧ r.ty = .bool ∧
      evalC (N := N) (fun _ => ⟨0, N.ofInt 0, true⟩) r.ce = some cv ∧ cv.toPy = .int (-1) ∧
      convert r.ty cv = .bool true ∧ ¬ numEq (convert r.ty cv) (.int (-1) : PV N) := by
  refine ⟨⟨.bool, .un "-" (.leaf .bool "j->b()" 1)⟩, .int (-1), by rfl, rfl, ?_, rfl, ?_, ?_⟩
  · simp [evalC, leafVal, cUn, b2i]
  · simp [convert, CV.truthy]
  · simp [numEq, convert, CV.truthy, CV.isFloating, CV.ctype, CT.isFloating, CV.toI, b2i]

/-- **`not` on a real operand** (was exclusion N; repaired in the code: `visit_UnaryOp` types `not x` `bool`).
For an operand of any declared type the result is declared `bool` — the kind the property demands of a truth
value —, and `(!(x))` evaluates to Python's `not x` (`not 2.5` is `False`, `not 0.0` is `True`). -/
theorem not_real_is_bool (t : CT) (s : String) (i : Nat) (env : Env N) :
    ∃ r, translate (.un .not (.leaf t s i)) = .ok r ∧ r.ty = .bool ∧
      kindOk r.ty ((Expr.un .not (.leaf t s i)).pyKind true) (Expr.un .not (.leaf t s i)).width = true ∧
      (evalC env r.ce).map CV.toPy = evalPy true env (.un .not (.leaf t s i)) := by
  refine ⟨⟨.bool, .un "!" (.leaf t s i)⟩, ?_, rfl, ?_, ?_⟩
  · simp [translate, unHandled, lookup_not, emitUn]
  · simp [kindOk, Expr.pyKind, Expr.width, CT.isFloating]
  · cases t <;> simp [evalC, evalPy, leafVal, cUn, pyUn, CV.toPy, CV.truthy, PV.truthy]

/-- … and what used to go wrong, `(not j.d()) / 2` emitted as the bool/int division `((!(j->d()))/2)` without the
cast (0 where Python computes 0.5), cannot be emitted any more: the `bool`-typed operand of `/` is refused by
`most_accurate_type`'s assertion like every other boolean operand of `+ - * / %` (theorem `bool_refused`) — a
refusal the property tolerates (`Expr.mustAccept` is false: no job is generated). -/
theorem not_real_then_div_refused :
    translate (.bin .div (.un .not (.leaf .double "j->d()" 1)) (.int 2)) = .error .assertion ∧
    (Expr.bin .div (.un .not (.leaf .double "j->d()" 1)) (.int 2)).mustAccept = false := by
  exact ⟨by rfl, by decide⟩

/-- **Exclusion E.** `j.i() if j.d() > 1 else 2`: both arms are integers, Python's result is an `int`; the result
variable — hence the column — is declared `double`: an integer-valued result does not remain an integer. -/
theorem cond_int_counterexample (nm : String) (slot : Nat) (tr : Rep) :
    condIntegral (.leaf .int "j->i()" 1) (.int 2) = true ∧
    (emitCond nm slot tr ⟨.int, .leaf .int "j->i()" 1⟩ ⟨.int, .ilit 2⟩).result.ty = .double ∧
    kindOk .double (condKind (.leaf .int "j->i()" 1) (.int 2)) (condWidth (.leaf .int "j->i()" 1) (.int 2)) = false := by
  refine ⟨by decide, rfl, by decide⟩

/-- the same through `Max()`: over `int` values the accumulator, hence the column, is `double` -/
theorem max_int_counterexample (nm : String) (ifs : Nat) (hi : ifs ≠ accSlot) (s : String) (slot : Nat)
    (hs : slot ≠ accSlot) :
    ∃ o, emitAgg nm ifs seed0 (maxUpd .int s slot) = .ok o ∧ o.accTy = .double ∧ kindOk o.accTy .int 0 = false :=
  ⟨_, emitAgg_max nm ifs hi .int (by simp) s slot hs, rfl, by simp [mmOut, kindOk, CT.isFloating]⟩

/-- outside the property's quantifier (it says non-negative operands for `%`), recorded for completeness:
C++ `%` truncates, Python's floors — `-7 % 2` is −1 in the generated code, 1 in Python. -/
theorem mod_negative_differs :
    cBin (N := N) "%" (.int (-7)) (.int 2) = some (.int (-1)) ∧
    pyBin (N := N) true .mod (.int (-7)) (.int 2) = some (.int 1) := by
  constructor
  · simp [cBin, CV.isFloating, CV.ctype, CT.isFloating, CV.toI]
  · simp [pyBin, PV.isFloat, PV.toI]

/-! ## an operand of an unsigned C++ type in the implementation's text (`evalX`, the oracle's reading of `std::size_t`) -/

/-- **The extended reading is conservative.** On text with no unsigned operand `evalX` is `evalC`: everything proved
about the model's emitted expressions under `evalC` is what the oracle computes for them. -/
theorem evalX_conservative (env : Env N) (e : CE) :
    evalX (fun _ => false) env e = (evalC env e).map XV.cv := by
  induction e with
  | leaf t s i => simp [evalX, evalC]
  | ilit n => simp [evalX, evalC]
  | blit b => simp [evalX, evalC]
  | bin op l r ihl ihr =>
    simp only [evalX, evalC, ihl, ihr]
    cases evalC env l <;> cases evalC env r <;> simp [xBin]
  | cast t e ih =>
    simp only [evalX, evalC, ih]
    cases evalC env e <;> simp [xConvert]
  | pow l r ihl ihr =>
    simp only [evalX, evalC, ihl, ihr]
    cases evalC env l <;> cases evalC env r <;> simp [XV.asCV]
  | un op e ih =>
    simp only [evalX, evalC, ih]
    cases evalC env e <;> simp [xUn]

/-- … for the value stored in a column and for the conditional alike -/
theorem storeX_conservative (env : Env N) (ty : CT) (e : CE) :
    storeX (fun _ => false) env ty e = (evalC env e).map (convert ty) := by
  simp only [storeX, evalX_conservative]
  cases evalC env e <;> simp [xConvert]

theorem evalCondX_conservative (env : Env N) (o : CondOut) :
    evalCondX (fun _ => false) env o = evalCondC env o := by
  have store : ∀ (ty : CT) (r : Option (CV N)),
      (match r.map XV.cv with | none => none | some v => some (xConvert ty v)) =
      (match r with | none => none | some v => some (convert ty v)) := by
    intro ty r; cases r <;> rfl
  simp only [evalCondX, evalCondC, evalX_conservative]
  cases evalC env o.test.ce with
  | none => rfl
  | some t => exact store _ _

/-- **A count taken from an unsigned expression is an integer count again once it is converted to `int`.**
`static_cast<int>(c->size())` — or storing the size in an `int` variable — has the value of the model's `int`
operand for every count below 2^31: that is the form in which a size may replace a counting loop. -/
theorem size_cast_int (uns : Nat → Bool) (env : Env N) (t : CT) (s : String) (i : Nat) (hu : uns i = true)
    (h0 : 0 ≤ (env i).i) (h1 : (env i).i < 2147483648) :
    evalX uns env (.cast .int (.leaf t s i)) = some (.cv (.int (env i).i)) := by
  have hw : wrapI32 (wrapU (env i).i) = (env i).i := by
    unfold wrapI32 wrapU two64
    omega
  simp only [evalX, hu, if_true, xConvert, hw]

/-- **Left unconverted it is not.** With three elements, `n - 5` computed on the `std::size_t` is
18446744073709551614 (so `(n - 5) / 2` and `(n - 5) * 0.5` are astronomically large where Python has −1.0), and
`n > -1` is *false* (−1 is converted to 2^64 − 1) where Python's comparison is true — whatever type the operand
was declared with.  The oracle therefore types such an operand by the C++ expression it is read from. -/
theorem unsigned_count_differs (env : Env N) (t : CT) (h : (env 11).i = 3) :
    evalX (· == 11) env (.bin "-" (.leaf t "c->size()" 11) (.ilit 5)) = some (.uns 18446744073709551614) ∧
    evalX (· == 11) env (.bin ">" (.leaf t "c->size()" 11) (.un "-" (.ilit 1))) = some (.cv (.bool false)) ∧
    evalPy true env (.cmp .gt (.leaf .int "n" 11) (.un .usub (.int 1))) = some (.bool true) := by
  refine ⟨?_, ?_, ?_⟩
  · simp [evalX, h, xBin, XV.isFloating, XV.toU, uBin, wrapU, two64, CV.toI, CV.isFloating, CV.ctype, CT.isFloating]
  · simp [evalX, h, xBin, xUn, cUn, XV.isFloating, XV.toU, uBin, wrapU, two64, CV.toI, CV.isFloating, CV.ctype, CT.isFloating]
  · simp [evalPy, leafVal, CV.toPy, pyUn, pyCmp, PV.isFloat, PV.toI, h]

example : wrapI32 18446744073709551614 = -2 := by decide
example : wrapU (-1) = 18446744073709551615 := by decide

end FaxVerif.C13
