/-
C13 — model of the arithmetic part of `query_ast_visitor` (func_adl_xAOD/common/ast_to_cpp_translator.py),
of `most_accurate_type` (common/utils.py) and of the `set_var` cast rule (common/statement.py).

Three layers:
  1. `translate : Expr → Except Refusal Rep` — what `visit_BinOp` / `visit_special_BinOp` / `visit_UnaryOp` /
     `visit_Compare` / `visit_Constant` build: a *declared* type (`cpp_value.cpp_type().type`) and a C++
     expression.  The operator tables and the type priority table are the constants of
     `FaxVerif.Generated.C13Tables`, regenerated from the source on every run.
  2. `evalC` — the meaning C++ gives to that expression (usual arithmetic conversions, bool promotion,
     int/int truncation, `%` only on integral operands and truncating toward zero, `std::pow` overloads),
     over `Int` and an ABSTRACT double `Num` (no IEEE reasoning; no law is assumed).
  3. `evalPy` — what Python computes for the source expression.
Statement-producing nodes (`visit_IfExp`, the `Aggregate` path, `visit_BoolOp`) are modelled as `Form`s
whose operands are expressions.

No Mathlib/Batteries import: this file is run by the driver.
-/
import FaxVerif.Generated.C13Tables
namespace FaxVerif.C13
open FaxVerif.Generated.C13Tables

/-! ## types and tables -/

/-- the four terminal types that occur (`ctyp.terminal(...).type`) -/
inductive CT | int | float | double | bool
  deriving DecidableEq, Repr, Inhabited

def CT.name : CT → String
  | .int => "int" | .float => "float" | .double => "double" | .bool => "bool"

def CT.isFloating : CT → Bool
  | .float | .double => true
  | _ => false

def lookup {β : Type} (t : List (String × β)) (k : String) : Option β :=
  match t with
  | [] => none
  | (a, b) :: r => if a == k then some b else lookup r k

/-- `_type_priority[t.type]` (none = `t.type not in _type_priority`) -/
def prio (t : CT) : Option Nat := lookup typePriority t.name

/-- why a translation is refused (the exception class the visitor raises) -/
inductive Refusal
  | assertion   -- AssertionError of most_accurate_type: a type outside the priority table (bool)
  | runtime     -- RuntimeError: "Do not know how to translate Binary/Unary operator"
  | keyError    -- compare_operations[type(op)] for `is`, `in`, …
  | valueError  -- "Aggregate over a sequence of type … is not supported"
  deriving DecidableEq, Repr

def Refusal.name : Refusal → String
  | .assertion => "AssertionError" | .runtime => "RuntimeError" | .keyError => "KeyError" | .valueError => "ValueError"

/-- first element of maximal priority: `sorted(l, key=prio, reverse=True)[0]` (Python's sort is stable,
also with `reverse=True`) -/
def firstMax : CT × Nat → List (CT × Nat) → CT × Nat
  | best, [] => best
  | best, x :: xs => if x.2 > best.2 then firstMax x xs else firstMax best xs

def withPrio : List CT → Option (List (CT × Nat))
  | [] => some []
  | t :: ts =>
    match prio t, withPrio ts with
    | some p, some r => some ((t, p) :: r)
    | _, _ => none

/-- `most_accurate_type` -/
def mostAccurate (ts : List CT) : Except Refusal CT :=
  match withPrio ts with
  | some (x :: xs) => .ok (firstMax x xs).1
  | _ => .error .assertion

/-! ## Python side: the source expression -/

inductive PyBin | add | sub | mult | div | mod | pow | floordiv | matmult | lshift | rshift | bitor | bitxor | bitand
  deriving DecidableEq, Repr

def PyBin.astName : PyBin → String
  | .add => "Add" | .sub => "Sub" | .mult => "Mult" | .div => "Div" | .mod => "Mod" | .pow => "Pow"
  | .floordiv => "FloorDiv" | .matmult => "MatMult" | .lshift => "LShift" | .rshift => "RShift"
  | .bitor => "BitOr" | .bitxor => "BitXor" | .bitand => "BitAnd"

inductive PyUn | uadd | usub | not | invert
  deriving DecidableEq, Repr

def PyUn.astName : PyUn → String
  | .uadd => "UAdd" | .usub => "USub" | .not => "Not" | .invert => "Invert"

inductive PyCmp | lt | lte | gt | gte | eq | noteq | is | isNot | isIn | notIn
  deriving DecidableEq, Repr

def PyCmp.astName : PyCmp → String
  | .lt => "Lt" | .lte => "LtE" | .gt => "Gt" | .gte => "GtE" | .eq => "Eq" | .noteq => "NotEq"
  | .is => "Is" | .isNot => "IsNot" | .isIn => "In" | .notIn => "NotIn"

/-- A scalar Python expression.  `leaf t text id`: an operand whose representation is already known — a
method call with a declared return type, an accumulator, an `if_else_result` variable … —, `text` its C++
rendering, `id` the slot of its value in the environment. `flt text id` is a `float` constant (`text` =
`str(value)`, value in slot `id`). -/
inductive Expr
  | leaf (t : CT) (text : String) (id : Nat)
  | int (n : Int)
  | flt (text : String) (id : Nat)
  | bool (b : Bool)
  | bin (op : PyBin) (l r : Expr)
  | un (op : PyUn) (e : Expr)
  | cmp (op : PyCmp) (l r : Expr)
  deriving Repr

/-! ## C++ side: the emitted expression -/

inductive CE
  | leaf (t : CT) (text : String) (id : Nat)
  | ilit (n : Int)
  | blit (b : Bool)
  | bin (op : String) (l r : CE)      -- "(" l op r ")"
  | cast (t : CT) (e : CE)            -- "static_cast<t>(" e ")"
  | pow (l r : CE)                    -- "std::pow(" l ", " r ")"
  | un (op : String) (e : CE)         -- "(" op "(" e "))"
  deriving Repr, DecidableEq

def CE.render : CE → String
  | .leaf _ s _ => s
  | .ilit n => if n < 0 then "(" ++ toString n ++ ")" else toString n   -- `_signed_literal`
  | .blit b => if b then "true" else "false"
  | .bin op l r => "(" ++ l.render ++ op ++ r.render ++ ")"
  | .cast t e => "static_cast<" ++ t.name ++ ">(" ++ e.render ++ ")"
  | .pow l r => "std::pow(" ++ l.render ++ ", " ++ r.render ++ ")"
  | .un op e => "(" ++ op ++ "(" ++ e.render ++ "))"

/-- a `cpp_value`: declared type and expression -/
structure Rep where
  ty : CT
  ce : CE
  deriving Repr, DecidableEq

/-- `visit_BinOp` for an operator found in `_known_binary_operators` -/
def emitKnownBin (op : PyBin) (txt : String) (l r : Rep) : Except Refusal Rep :=
  match mostAccurate [l.ty, r.ty] with
  | .error e => .error e
  | .ok best =>
    if op = .div then
      -- Python's `/` is real division: C++ would truncate int/int
      .ok ⟨.double, .bin txt (if best = .int then .cast .double l.ce else l.ce) r.ce⟩
    else
      .ok ⟨best, .bin txt l.ce r.ce⟩

/-- `visit_BinOp` / `visit_special_BinOp` given the operands' representations -/
def emitBin (op : PyBin) (l r : Rep) : Except Refusal Rep :=
  match lookup binaryOps op.astName with
  | some txt => emitKnownBin op txt l r
  | none => if op = .pow then .ok ⟨.double, .pow l.ce r.ce⟩ else .error .runtime

/-- `visit_UnaryOp`: `not x` is a `bool` whatever the operand is; `+x` and `-x` keep the operand's type -/
def emitUn (op : PyUn) (e : Rep) : Except Refusal Rep :=
  match lookup unaryOps op.astName with
  | some txt => .ok ⟨if op = .not then .bool else e.ty, .un txt e.ce⟩
  | none => .error .runtime

/-- `visit_Compare` (one operator) -/
def emitCmp (op : PyCmp) (l r : Rep) : Except Refusal Rep :=
  match lookup compareOps op.astName with
  | some txt => .ok ⟨.bool, .bin txt l.ce r.ce⟩
  | none => .error .keyError

/-- is the operator handled at all (decided before the operands are visited) -/
def binHandled (op : PyBin) : Bool := (lookup binaryOps op.astName).isSome || op = .pow
def unHandled (op : PyUn) : Bool := (lookup unaryOps op.astName).isSome

def translate : Expr → Except Refusal Rep
  | .leaf t s i => .ok ⟨t, .leaf t s i⟩
  | .int n => .ok ⟨.int, .ilit n⟩                       -- visit_Constant: `type(value) is int`
  | .flt s i => .ok ⟨.double, .leaf .double s i⟩        -- visit_Constant: `type(value) is float`
  | .bool b => .ok ⟨.bool, .blit b⟩                     -- visit_Constant: `type(value) is bool`
  | .bin op l r =>
    if binHandled op then
      match translate l with
      | .error e => .error e
      | .ok lr =>
        match translate r with
        | .error e => .error e
        | .ok rr => emitBin op lr rr
    else .error .runtime
  | .un op e =>
    if unHandled op then
      match translate e with
      | .error x => .error x
      | .ok r => emitUn op r
    else .error .runtime
  | .cmp op l r =>
    match translate l with
    | .error e => .error e
    | .ok lr =>
      match translate r with
      | .error e => .error e
      | .ok rr => emitCmp op lr rr

/-- `guess_type_from_number` (only used by the legacy `visit_Num`): `int(n) == n` decides. `isIntegerValued`
is `int(n) == n` for the number at hand. -/
def guessTypeFromNumber (isIntegerValued : Bool) : CT := if isIntegerValued then .int else .double

/-! ## statements: the `set_var` / `push_back` cast rule, conditional, aggregate, bool-op -/

/-- `statement.set_var.emit` (and `push_back.emit` against the element type): the right-hand side -/
def setVarRhs (target : CT) (value : Rep) : CE :=
  if target ≠ value.ty then .cast target value.ce else value.ce

/-- `visit_IfExp`: the result variable is always declared `double` -/
structure CondOut where
  test : Rep
  thenRhs : CE
  elseRhs : CE
  result : Rep
  deriving Repr

def condResultType : CT := .double

def emitCond (name : String) (slot : Nat) (test a b : Rep) : CondOut :=
  { test := test, thenRhs := setVarRhs condResultType a, elseRhs := setVarRhs condResultType b,
    result := ⟨condResultType, .leaf condResultType name slot⟩ }

def condLines (name : String) (o : CondOut) : List String :=
  [condResultType.name ++ " " ++ name ++ ";",
   "if (" ++ o.test.ce.render ++ ")",
   name ++ " = " ++ o.thenRhs.render ++ ";",
   "else",
   name ++ " = " ++ o.elseRhs.render ++ ";"]

/-- `check_accumulator_type` -/
def accTypeOk (t : CT) : Bool := t = .float || t = .double || t = .int

/-- `visit_call_Aggregate_initial`, typing part: the accumulator starts with the seed's type and is widened
to `most_accurate_type([seed, update])` when the update expression has another type. -/
def accType (seed upd : CT) : Except Refusal CT :=
  if upd ≠ seed then mostAccurate [seed, upd] else .ok seed

/-- slot of the accumulator in the environment of an update expression -/
def accSlot : Nat := 0

/-- The accumulator is a `cpp_variable` whose type is *mutated* (`update_type`) after the update expression
has been translated: in the emitted C++ it has the widened type wherever its name occurs. -/
def CE.retype (t : CT) : CE → CE
  | .leaf t' s i => if i = accSlot then .leaf t s i else .leaf t' s i
  | .ilit n => .ilit n
  | .blit b => .blit b
  | .bin op l r => .bin op (l.retype t) (r.retype t)
  | .cast t' e => .cast t' (e.retype t)
  | .pow l r => .pow (l.retype t) (r.retype t)
  | .un op e => .un op (e.retype t)

/-- `set_var` decides its cast when the statement is *emitted*, i.e. with the accumulator's final type when the
value is the accumulator variable itself; the type of a compound expression was fixed when it was visited. -/
def finalRep (accTy : CT) (r : Rep) : Rep :=
  match r.ce with
  | .leaf _ s i => if i = accSlot then ⟨accTy, .leaf accTy s i⟩ else r
  | _ => ⟨r.ty, r.ce.retype accTy⟩

/-- the update lambda of an `Aggregate`: a scalar expression, or a conditional (what `Max`/`Min` expand to) -/
inductive Upd
  | plain (e : Expr)
  | cond (test a b : Expr)
  /-- a conditional *inside* the lambda's body: `body` refers to the conditional's value through the operand in
  slot `slot` (`(acc if acc > 0 else 0) + j.pt()`) -/
  | condIn (slot : Nat) (test a b : Expr) (body : Expr)
  deriving Repr

/-- give the operand in `slot` the type `t` -/
def Expr.retypeAt (slot : Nat) (t : CT) : Expr → Expr
  | .leaf t' s i => if i = slot then .leaf t s i else .leaf t' s i
  | .int n => .int n
  | .flt s i => .flt s i
  | .bool b => .bool b
  | .bin op l r => .bin op (l.retypeAt slot t) (r.retypeAt slot t)
  | .un op e => .un op (e.retypeAt slot t)
  | .cmp op l r => .cmp op (l.retypeAt slot t) (r.retypeAt slot t)

structure AggOut where
  accTy : CT
  seed : CE
  cond : Option CondOut     -- the conditional evaluated inside the loop, if any
  updRhs : CE               -- right-hand side of `acc = …;`
  deriving Repr

def translateUpd (ifName : String) (ifSlot : Nat) : Upd → Except Refusal (Option (Rep × Rep × Rep) × Rep)
  | .plain e =>
    match translate e with
    | .error x => .error x
    | .ok r => .ok (none, r)
  | .cond t a b =>
    match translate t with
    | .error x => .error x
    | .ok tr =>
      match translate a with
      | .error x => .error x
      | .ok ar =>
        match translate b with
        | .error x => .error x
        | .ok br => .ok (some (tr, ar, br), ⟨condResultType, .leaf condResultType ifName ifSlot⟩)
  | .condIn slot t a b body =>
    match translate t with
    | .error x => .error x
    | .ok tr =>
      match translate a with
      | .error x => .error x
      | .ok ar =>
        match translate b with
        | .error x => .error x
        | .ok br =>
          -- the body sees the conditional's result variable, which `visit_IfExp` types `double`
          match translate (body.retypeAt slot condResultType) with
          | .error x => .error x
          | .ok r => .ok (some (tr, ar, br), r)

/-- `visit_call_Aggregate_initial`: `seed` is the representation of the initial value, the update was
translated with the accumulator typed as the seed. -/
def emitAgg (ifName : String) (ifSlot : Nat) (seed : Rep) (u : Upd) : Except Refusal AggOut :=
  if accTypeOk seed.ty then
    match translateUpd ifName ifSlot u with
    | .error e => .error e
    | .ok (c, upd) =>
      match accType seed.ty upd.ty with
      | .error e => .error e
      | .ok t =>
        .ok { accTy := t, seed := seed.ce,
              cond := c.map fun (tr, ar, br) => emitCond ifName ifSlot (finalRep t tr) (finalRep t ar) (finalRep t br),
              updRhs := setVarRhs t (finalRep t upd) }
  else .error .valueError

def aggLines (accName ifName : String) (o : AggOut) : List String :=
  [o.accTy.name ++ " " ++ accName ++ " (" ++ o.seed.render ++ ");"] ++
  (match o.cond with | some c => condLines ifName c | none => []) ++
  [accName ++ " = " ++ o.updRhs.render ++ ";"]

/-- `visit_BoolOp`: `bool r; r = v₀; if (r) { r = v₁; } …` — right-hand sides of the assignments -/
def boolOpRhs (vals : List Rep) : List CE := vals.map (setVarRhs .bool)

/-! ## meaning: abstract double -/

/-- An abstract `double`.  No law is assumed: every theorem holds for every interpretation, in
particular for IEEE-754 binary64 with the C library's `pow` (what the driver runs with). -/
structure Num where
  D : Type
  add : D → D → D
  sub : D → D → D
  mul : D → D → D
  div : D → D → D
  pow : D → D → D
  /-- Python's float `%` (only ever evaluated on the Python side) -/
  pymod : D → D → D
  neg : D → D
  lt : D → D → Bool
  le : D → D → Bool
  eq : D → D → Bool
  /-- `static_cast<double>(int)` / Python's `float(int)` (assumption: |n| < 2^53, so both are exact) -/
  ofInt : Int → D
  /-- `static_cast<int>(double)`; never needed by an accepted translation (theorem `set_var_never_narrows`) -/
  toInt : D → Int

variable {N : Num}

def b2i (b : Bool) : Int := if b then 1 else 0

/-- a C++ value together with its static type (`flt`: 32-bit float, carried in the same abstract `D`) -/
inductive CV (N : Num)
  | int (n : Int)
  | flt (x : N.D)
  | dbl (x : N.D)
  | bool (b : Bool)

def CV.ctype : CV N → CT
  | .int _ => .int | .flt _ => .float | .dbl _ => .double | .bool _ => .bool

/-- a Python value -/
inductive PV (N : Num)
  | int (n : Int)
  | float (x : N.D)
  | bool (b : Bool)

/-- one slot of the environment: the value an operand has, read at the operand's declared type -/
structure Cell (N : Num) where
  i : Int
  d : N.D
  b : Bool

abbrev Env (N : Num) := Nat → Cell N

def leafVal (t : CT) (c : Cell N) : CV N :=
  match t with
  | .int => .int c.i | .float => .flt c.d | .double => .dbl c.d | .bool => .bool c.b

/-- conversion to a floating type -/
def CV.toD : CV N → N.D
  | .int n => N.ofInt n | .flt x => x | .dbl x => x | .bool b => N.ofInt (b2i b)

def CV.isFloating (v : CV N) : Bool := v.ctype.isFloating

/-- value of an integral operand after integral promotion -/
def CV.toI : CV N → Int
  | .int n => n | .bool b => b2i b | .flt x => N.toInt x | .dbl x => N.toInt x

/-- contextual conversion to bool -/
def CV.truthy : CV N → Bool
  | .int n => n != 0 | .bool b => b | .flt x => !(N.eq x (N.ofInt 0)) | .dbl x => !(N.eq x (N.ofInt 0))

/-- `static_cast<t>(v)` and implicit conversion on assignment / push_back -/
def convert (t : CT) (v : CV N) : CV N :=
  match t with
  | .int => .int v.toI
  | .float => .flt v.toD
  | .double => .dbl v.toD
  | .bool => .bool v.truthy

/-- result type of the usual arithmetic conversions on floating operands -/
def wider (a b : CT) : CT := if a = .double ∨ b = .double then .double else .float

def mkF (t : CT) (x : N.D) : CV N := if t = .double then .dbl x else .flt x

/-- C++ binary operator on two values, by operator *text* (none: ill-formed — `%` on a floating operand,
an operator text the model does not know — or undefined behaviour: integer division by zero) -/
def cBin (op : String) (a b : CV N) : Option (CV N) :=
  if a.isFloating || b.isFloating then
    let x := a.toD; let y := b.toD
    let t := wider a.ctype b.ctype
    if op == "+" then some (mkF t (N.add x y))
    else if op == "-" then some (mkF t (N.sub x y))
    else if op == "*" then some (mkF t (N.mul x y))
    else if op == "/" then some (mkF t (N.div x y))
    else if op == "<" then some (.bool (N.lt x y))
    else if op == "<=" then some (.bool (N.le x y))
    else if op == ">" then some (.bool (N.lt y x))
    else if op == ">=" then some (.bool (N.le y x))
    else if op == "==" then some (.bool (N.eq x y))
    else if op == "!=" then some (.bool (!(N.eq x y)))
    else none
  else
    let x := a.toI; let y := b.toI
    if op == "+" then some (.int (x + y))
    else if op == "-" then some (.int (x - y))
    else if op == "*" then some (.int (x * y))
    else if op == "/" then (if y = 0 then none else some (.int (Int.tdiv x y)))
    else if op == "%" then (if y = 0 then none else some (.int (Int.tmod x y)))
    else if op == "<" then some (.bool (decide (x < y)))
    else if op == "<=" then some (.bool (decide (x ≤ y)))
    else if op == ">" then some (.bool (decide (y < x)))
    else if op == ">=" then some (.bool (decide (y ≤ x)))
    else if op == "==" then some (.bool (decide (x = y)))
    else if op == "!=" then some (.bool (decide (x ≠ y)))
    else none

def cUn (op : String) (a : CV N) : Option (CV N) :=
  if op == "+" then
    some (match a with | .int n => .int n | .bool b => .int (b2i b) | .flt x => .flt x | .dbl x => .dbl x)
  else if op == "-" then
    some (match a with | .int n => .int (-n) | .bool b => .int (-(b2i b)) | .flt x => .flt (N.neg x) | .dbl x => .dbl (N.neg x))
  else if op == "!" then some (.bool (!a.truthy))
  else none

/-- `std::pow`: `float pow(float,float)`; every other combination of arithmetic arguments is promoted to
double (C++11 [c.math] additional overloads) -/
def cPow (a b : CV N) : CV N :=
  match a, b with
  | .flt x, .flt y => .flt (N.pow x y)
  | _, _ => .dbl (N.pow a.toD b.toD)

def evalC (env : Env N) : CE → Option (CV N)
  | .leaf t _ i => some (leafVal t (env i))
  | .ilit n => some (.int n)
  | .blit b => some (.bool b)
  | .bin op l r =>
    match evalC env l, evalC env r with
    | some a, some b => cBin op a b
    | _, _ => none
  | .cast t e =>
    match evalC env e with
    | some a => some (convert t a)
    | none => none
  | .pow l r =>
    match evalC env l, evalC env r with
    | some a, some b => some (cPow a b)
    | _, _ => none
  | .un op e =>
    match evalC env e with
    | some a => cUn op a
    | none => none

/-! ## meaning: Python -/

def CV.toPy : CV N → PV N
  | .int n => .int n | .flt x => .float x | .dbl x => .float x | .bool b => .bool b

def PV.isFloat : PV N → Bool
  | .float _ => true
  | _ => false

def PV.toF : PV N → N.D
  | .int n => N.ofInt n | .float x => x | .bool b => N.ofInt (b2i b)

/-- `int(v)` for `int` and `bool` -/
def PV.toI : PV N → Int
  | .int n => n | .bool b => b2i b | .float x => N.toInt x

def PV.truthy : PV N → Bool
  | .int n => n != 0 | .bool b => b | .float x => !(N.eq x (N.ofInt 0))

/-- Python binary arithmetic (none: ZeroDivisionError / TypeError / not an arithmetic operator here).
`rp = true`: the property's reading "`**` is a real power" (int ** int is the real number too);
`rp = false`: CPython, where `int ** non-negative int` is an `int`. -/
def pyBin (rp : Bool) (op : PyBin) (a b : PV N) : Option (PV N) :=
  if a.isFloat || b.isFloat then
    let x := a.toF; let y := b.toF
    match op with
    | .add => some (.float (N.add x y))
    | .sub => some (.float (N.sub x y))
    | .mult => some (.float (N.mul x y))
    | .div => if N.eq y (N.ofInt 0) then none else some (.float (N.div x y))
    | .mod => if N.eq y (N.ofInt 0) then none else some (.float (N.pymod x y))
    | .pow =>
      -- `0.0 ** negative` raises ZeroDivisionError
      if N.eq x (N.ofInt 0) && N.lt y (N.ofInt 0) then none else some (.float (N.pow x y))
    | _ => none
  else
    let x := a.toI; let y := b.toI
    match op with
    | .add => some (.int (x + y))
    | .sub => some (.int (x - y))
    | .mult => some (.int (x * y))
    | .div => if y = 0 then none else some (.float (N.div (N.ofInt x) (N.ofInt y)))
    | .mod => if y = 0 then none else some (.int (Int.fmod x y))
    | .pow =>
      -- `0 ** negative` raises ZeroDivisionError
      if x = 0 ∧ y < 0 then none
      else if rp then some (.float (N.pow (N.ofInt x) (N.ofInt y)))
      else if 0 ≤ y then some (.int (x ^ y.toNat))
      else some (.float (N.pow (N.ofInt x) (N.ofInt y)))
    | _ => none

def pyUn (op : PyUn) (a : PV N) : Option (PV N) :=
  match op with
  | .uadd => some (match a with | .int n => .int n | .bool b => .int (b2i b) | .float x => .float x)
  | .usub => some (match a with | .int n => .int (-n) | .bool b => .int (-(b2i b)) | .float x => .float (N.neg x))
  | .not => some (.bool (!a.truthy))
  | .invert => none

def pyCmp (op : PyCmp) (a b : PV N) : Option (PV N) :=
  if a.isFloat || b.isFloat then
    let x := a.toF; let y := b.toF
    match op with
    | .lt => some (.bool (N.lt x y))
    | .lte => some (.bool (N.le x y))
    | .gt => some (.bool (N.lt y x))
    | .gte => some (.bool (N.le y x))
    | .eq => some (.bool (N.eq x y))
    | .noteq => some (.bool (!(N.eq x y)))
    | _ => none
  else
    let x := a.toI; let y := b.toI
    match op with
    | .lt => some (.bool (decide (x < y)))
    | .lte => some (.bool (decide (x ≤ y)))
    | .gt => some (.bool (decide (y < x)))
    | .gte => some (.bool (decide (y ≤ x)))
    | .eq => some (.bool (decide (x = y)))
    | .noteq => some (.bool (decide (x ≠ y)))
    | _ => none

def evalPy (rp : Bool) (env : Env N) : Expr → Option (PV N)
  | .leaf t _ i => some (leafVal t (env i)).toPy
  | .int n => some (.int n)
  | .flt _ i => some (.float (env i).d)
  | .bool b => some (.bool b)
  | .bin op l r =>
    match evalPy rp env l, evalPy rp env r with
    | some a, some b => pyBin rp op a b
    | _, _ => none
  | .un op e =>
    match evalPy rp env e with
    | some a => pyUn op a
    | none => none
  | .cmp op l r =>
    match evalPy rp env l, evalPy rp env r with
    | some a, some b => pyCmp op a b
    | _, _ => none

/-! ## meaning of the statement forms -/

/-- what the generated `if (test) { r = a; } else { r = b; }` leaves in `r` (declared `condResultType`) -/
def evalCondC (env : Env N) (o : CondOut) : Option (CV N) :=
  match evalC env o.test.ce with
  | none => none
  | some t =>
    match evalC env (if t.truthy then o.thenRhs else o.elseRhs) with
    | none => none
    | some v => some (convert o.result.ty v)

/-- `a if test else b` in Python -/
def evalCondPy (rp : Bool) (env : Env N) (test a b : Expr) : Option (PV N) :=
  match evalPy rp env test with
  | none => none
  | some t => if t.truthy then evalPy rp env a else evalPy rp env b

def setAcc (env : Env N) (v : CV N) : Env N :=
  fun i => if i = accSlot then ⟨v.toI, v.toD, v.truthy⟩ else env i

/-- one pass through the generated loop body: `[double r; if (t) r = a; else r = b;] acc = rhs;` -/
def stepAggC (ifSlot : Nat) (o : AggOut) (env : Env N) (acc : CV N) : Option (CV N) :=
  let env1 := setAcc env acc
  match o.cond with
  | none =>
    match evalC env1 o.updRhs with
    | none => none
    | some v => some (convert o.accTy v)
  | some c =>
    match evalCondC env1 c with
    | none => none
    | some r =>
      let env2 : Env N := fun i => if i = ifSlot then ⟨r.toI, r.toD, r.truthy⟩ else env1 i
      match evalC env2 o.updRhs with
      | none => none
      | some v => some (convert o.accTy v)

/-- the generated loop `T acc (seed); for (…) { … acc = rhs; }` over the per-element environments -/
def runAggC (ifSlot : Nat) (o : AggOut) : CV N → List (Env N) → Option (CV N)
  | acc, [] => some acc
  | acc, env :: rest =>
    match stepAggC ifSlot o env acc with
    | none => none
    | some v => runAggC ifSlot o v rest

/-- initial value of the accumulator: `T acc (seed);` -/
def initAggC (o : AggOut) (env : Env N) : Option (CV N) :=
  match evalC env o.seed with
  | none => none
  | some v => some (convert o.accTy v)

/-- Python is dynamically typed: the accumulator has the type of the value it currently holds -/
def PV.ct : PV N → CT
  | .int _ => .int | .float _ => .double | .bool _ => .bool

def Expr.retype (t : CT) : Expr → Expr
  | .leaf t' s i => if i = accSlot then .leaf t s i else .leaf t' s i
  | .int n => .int n
  | .flt s i => .flt s i
  | .bool b => .bool b
  | .bin op l r => .bin op (l.retype t) (r.retype t)
  | .un op e => .un op (e.retype t)
  | .cmp op l r => .cmp op (l.retype t) (r.retype t)

def setAccPy (env : Env N) (v : PV N) : Env N :=
  fun i => if i = accSlot then ⟨v.toI, v.toF, v.truthy⟩ else env i

def stepAggPy (rp : Bool) (u : Upd) (env : Env N) (acc : PV N) : Option (PV N) :=
  let env1 := setAccPy env acc
  match u with
  | .plain e => evalPy rp env1 (e.retype acc.ct)
  | .cond t a b => evalCondPy rp env1 (t.retype acc.ct) (a.retype acc.ct) (b.retype acc.ct)
  | .condIn slot t a b body =>
    match evalCondPy rp env1 (t.retype acc.ct) (a.retype acc.ct) (b.retype acc.ct) with
    | none => none
    | some r =>
      let env2 : Env N := fun i => if i = slot then ⟨r.toI, r.toF, r.truthy⟩ else env1 i
      evalPy rp env2 ((body.retype acc.ct).retypeAt slot r.ct)

/-- `functools.reduce(lambda acc, v: upd, elems, seed)` -/
def runAggPy (rp : Bool) (u : Upd) : PV N → List (Env N) → Option (PV N)
  | acc, [] => some acc
  | acc, env :: rest =>
    match stepAggPy rp u env acc with
    | none => none
    | some v => runAggPy rp u v rest

/-- `visit_BoolOp` with two operands: `bool r; r = v₀; if (r) { r = v₁; }` (and) / `if (!r) { r = v₁; }` (or) -/
def evalBoolOpC (isAnd : Bool) (env : Env N) (rhs0 rhs1 : CE) : Option Bool :=
  match evalC env rhs0 with
  | none => none
  | some v0 =>
    let r := (convert CT.bool v0).truthy
    if (if isAnd then r else !r) then
      match evalC env rhs1 with
      | none => none
      | some v1 => some (convert CT.bool v1).truthy
    else some r

def evalBoolOpPy (rp : Bool) (isAnd : Bool) (env : Env N) (a b : Expr) : Option (PV N) :=
  match evalPy rp env a with
  | none => none
  | some x => if (if isAnd then x.truthy else !x.truthy) then evalPy rp env b else some x

/-! ## the aggregate shortcuts of func_adl (`aggregate_node_transformer`): all seeded with the int constant 0 -/

def accLeaf (t : CT) : Expr := .leaf t "acc" accSlot
def seed0 : Rep := ⟨.int, .ilit 0⟩
/-- `Count()`: `lambda acc,v: acc+1` -/
def countUpd : Upd := .plain (.bin .add (accLeaf .int) (.int 1))
/-- `Sum()`: `lambda acc,v: acc + v` over values of declared type `k` -/
def sumUpd (k : CT) (s : String) (slot : Nat) : Upd := .plain (.bin .add (accLeaf .int) (.leaf k s slot))
/-- `Max()`: `lambda acc,v: acc if acc > v else v` -/
def maxUpd (k : CT) (s : String) (slot : Nat) : Upd :=
  .cond (.cmp .gt (accLeaf .int) (.leaf k s slot)) (accLeaf .int) (.leaf k s slot)
/-- `Min()`: `lambda acc,v: acc if acc < v else v` -/
def minUpd (k : CT) (s : String) (slot : Nat) : Upd :=
  .cond (.cmp .lt (accLeaf .int) (.leaf k s slot)) (accLeaf .int) (.leaf k s slot)

end FaxVerif.C13
