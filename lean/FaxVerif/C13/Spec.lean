/-
C13 — the property as decidable predicates over (source expression, sample values, observed column type
and stored value).  Nothing here mentions the translator: the reference value is `evalPy true` ("what Python
computes", with the property's own clause "`**` is a real power"), the observed side is the declared
column type and the value found in the column.

The same predicates are (a) the statements proved of the model in Theorems.lean and (b) the oracle the
harness evaluates, through the driver, on what the IMPLEMENTATION emitted (parsed text in the quick tier,
values printed by the compiled job in the thorough tier).
-/
import FaxVerif.C13.Model
namespace FaxVerif.C13
variable {N : Num}

/-! ### static Python kind of an expression -/

inductive PK | int | bool | float
  deriving DecidableEq, Repr

def CT.pk : CT → PK
  | .int => .int | .bool => .bool | .float => .float | .double => .float

/-- `rp`: int ** int counts as real (the property's reading) -/
def Expr.pyKind (rp : Bool) : Expr → PK
  | .leaf t _ _ => t.pk
  | .int _ => .int
  | .flt _ _ => .float
  | .bool _ => .bool
  | .bin op l r =>
    if op = .div then .float
    else if op = .pow && rp then .float
    else if l.pyKind rp = .float || r.pyKind rp = .float then .float else .int
  | .un op e => if op = .not then .bool else if e.pyKind rp = .float then .float else .int
  | .cmp _ _ _ => .bool

/-- fixed width order of the Spec (independent of the implementation's `_type_priority`) -/
def CT.rank : CT → Nat
  | .bool => 0 | .int => 0 | .float => 1 | .double => 2

/-- the widest operand type that flows into the value ("mixed operands promote to the wider type") -/
def Expr.width : Expr → Nat
  | .leaf t _ _ => t.rank
  | .int _ => 0
  | .flt _ _ => CT.double.rank
  | .bool _ => 0
  | .bin _ l r => max l.width r.width
  | .un op e => if op = .not then 0 else e.width
  | .cmp _ _ _ => 0

/-! ### what must hold of a column -/

/-- numerically equal in Python's sense (`==` across int / bool / float); the integer ↔ double embedding is
`Num.ofInt` -/
def numEq (c : CV N) (p : PV N) : Prop :=
  match p with
  | .float x => c.isFloating = true ∧ c.toD = x
  | .int n => if c.isFloating then c.toD = N.ofInt n else c.toI = n
  | .bool b => if c.isFloating then c.toD = N.ofInt (b2i b) else c.toI = b2i b

instance [DecidableEq N.D] (c : CV N) (p : PV N) : Decidable (numEq c p) := by
  unfold numEq; cases p <;> exact inferInstance

/-- "integer-valued results remain integers in the output", and real-valued results are stored in a
floating type at least as wide as every operand -/
def kindOk (declared : CT) (k : PK) (width : Nat) : Bool :=
  if k = .float then declared.isFloating && decide (width ≤ declared.rank) else !declared.isFloating

/-- The column clause of the property for one sample: `declared` is the type of the column, `stored` the
value found in it, `ref` what Python computes. -/
def ColOk (declared : CT) (k : PK) (width : Nat) (stored : CV N) (ref : PV N) : Prop :=
  stored.ctype = declared ∧ numEq stored ref ∧ kindOk declared k width = true

instance [DecidableEq N.D] (d : CT) (k : PK) (w : Nat) (s : CV N) (r : PV N) : Decidable (ColOk d k w s r) := by
  unfold ColOk; exact inferInstance

/-! ### the part of the input space where the code is known to violate the property (defect exclusions)

Each predicate below is the hypothesis of a `_partial` theorem and comes with a `_counterexample` theorem and an
entry of known_findings.jsonl.  They are written on the *source* expression and the *declared operand types*
only (`Expr.srcTy`, the type the property's operand kinds have), never on the translator's output. -/

/-- declared type of the value an expression denotes, as the *property* sees operand kinds: literals and
declared leaves; a compound expression is floating iff Python's result is (static kind) -/
def Expr.isFloatKind (e : Expr) : Bool := e.pyKind true = .float

/-- static kind `bool`, possibly under unary `+`/`-` (which the translator keeps typed `bool`) -/
def Expr.boolish : Expr → Bool
  | .un op e => if op = .uadd || op = .usub then e.boolish else op = .not
  | e => e.pyKind true = .bool

/-- exclusion A: `%` with a real-valued operand — the emitted `(a%b)` is not C++ -/
def Expr.noFloatMod : Expr → Bool
  | .bin op l r => l.noFloatMod && r.noFloatMod && !(op = .mod && (l.isFloatKind || r.isFloatKind))
  | .un _ e => e.noFloatMod
  | .cmp _ l r => l.noFloatMod && r.noFloatMod
  | _ => true

/-- exclusion N: `not` applied to a real-valued operand — the result is declared float/double -/
def Expr.noFloatNot : Expr → Bool
  | .bin _ l r => l.noFloatNot && r.noFloatNot
  | .un op e => e.noFloatNot && !(op = .not && e.isFloatKind)
  | .cmp _ l r => l.noFloatNot && r.noFloatNot
  | _ => true

/-- exclusion B: unary `-` on a bool-typed operand — the result is declared `bool`, −1 is stored as `true` -/
def Expr.noNegBool : Expr → Bool
  | .bin _ l r => l.noNegBool && r.noNegBool
  | .un op e => e.noNegBool && !(op = .usub && e.boolish)
  | .cmp _ l r => l.noNegBool && r.noNegBool
  | _ => true

/-- every operator is one of the property's list -/
def Expr.opsInScope : Expr → Bool
  | .bin op l r => l.opsInScope && r.opsInScope && (op = .add || op = .sub || op = .mult || op = .div || op = .mod || op = .pow)
  | .un op e => e.opsInScope && (op = .uadd || op = .usub || op = .not)
  | .cmp op l r => l.opsInScope && r.opsInScope && (op = .lt || op = .lte || op = .gt || op = .gte || op = .eq || op = .noteq)
  | _ => true

/-- no binary arithmetic on a boolean operand (`+ - * / %` on one are refused with an assertion, theorem
`bool_refused`; `**` on one is accepted today, but a refusal there would be tolerated alike) -/
def Expr.noBoolArith : Expr → Bool
  | .bin _ l r => l.noBoolArith && r.noBoolArith && !(l.boolish || r.boolish)
  | .un _ e => e.noBoolArith
  | .cmp _ l r => l.noBoolArith && r.noBoolArith
  | _ => true

/-- the expressions the property obliges the translator to accept -/
def Expr.mustAccept (e : Expr) : Bool := e.opsInScope && e.noBoolArith

/-- outside every defect exclusion -/
def Expr.noDefect (e : Expr) : Bool := e.noFloatMod && e.noFloatNot && e.noNegBool

/-- `%` is only quantified over non-negative operands: at every `%` node Python's operands satisfy
`0 ≤ a ∧ 0 < b` (evaluated on the sample) -/
def Expr.modNonneg (env : Env N) : Expr → Bool
  | .bin op l r =>
    l.modNonneg env && r.modNonneg env &&
      (op != .mod ||
        match evalPy true env l, evalPy true env r with
        | some a, some b =>
          if a.isFloat || b.isFloat then N.le (N.ofInt 0) a.toF && N.lt (N.ofInt 0) b.toF
          else decide (0 ≤ a.toI) && decide (0 < b.toI)
        | _, _ => false)
  | .un _ e => e.modNonneg env
  | .cmp _ l r => l.modNonneg env && r.modNonneg env
  | _ => true

/-- exclusion E: a conditional whose arms are both integer-valued is stored in a `double` -/
def condIntegral (a b : Expr) : Bool := !a.isFloatKind && !b.isFloatKind

/-- kind and width the property demands of `a if t else b` -/
def condKind (a b : Expr) : PK := if a.isFloatKind || b.isFloatKind then .float else .int
def condWidth (a b : Expr) : Nat := max a.width b.width

/-! ### the operand kinds of the property -/

inductive Kind | intLit | intCount | float | double | bool
  deriving DecidableEq, Repr

/-- an operand of kind `k`: the literal `n`, or an operand whose C++ text is `text` and whose value is in slot `slot` -/
def Kind.operand (k : Kind) (n : Int) (text : String) (slot : Nat) : Expr :=
  match k with
  | .intLit => .int n
  | .intCount => .leaf .int text slot
  | .float => .leaf .float text slot
  | .double => .leaf .double text slot
  | .bool => .leaf .bool text slot

def Kind.isReal : Kind → Bool
  | .float | .double => true
  | _ => false

end FaxVerif.C13
