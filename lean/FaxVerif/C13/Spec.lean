/-
C13 — the property as decidable predicates over (source expression, sample values, observed column type
and stored value).  Nothing here mentions the translator: the reference value is `evalPy true` ("what Python
computes", with the property's own clause "`**` is a real power"), the observed side is the declared
column type and the value found in the column.

The same predicates are (a) the statements proved of the model in Theorems.lean and (b) the oracle the
harness evaluates, through the driver, on what the IMPLEMENTATION emitted (parsed text in the quick tier,
values printed by the compiled job in the thorough tier).
-/
import FaxVerif.C13.Model
namespace FaxVerif.C13
variable {N : Num}

/-! ### static Python kind of an expression -/

inductive PK | int | bool | float
  deriving DecidableEq, Repr

def CT.pk : CT → PK
  | .int => .int | .bool => .bool | .float => .float | .double => .float

/-- `rp`: int ** int counts as real (the property's reading) -/
def Expr.pyKind (rp : Bool) : Expr → PK
  | .leaf t _ _ => t.pk
  | .int _ => .int
  | .flt _ _ => .float
  | .bool _ => .bool
  | .bin op l r =>
    if op = .div then .float
    else if op = .pow && rp then .float
    else if l.pyKind rp = .float || r.pyKind rp = .float then .float else .int
  | .un op e => if op = .not then .bool else if e.pyKind rp = .float then .float else .int
  | .cmp _ _ _ => .bool

/-- fixed width order of the Spec (independent of the implementation's `_type_priority`) -/
def CT.rank : CT → Nat
  | .bool => 0 | .int => 0 | .float => 1 | .double => 2

/-- the widest operand type that flows into the value ("mixed operands promote to the wider type") -/
def Expr.width : Expr → Nat
  | .leaf t _ _ => t.rank
  | .int _ => 0
  | .flt _ _ => CT.double.rank
  | .bool _ => 0
  | .bin _ l r => max l.width r.width
  | .un op e => if op = .not then 0 else e.width
  | .cmp _ _ _ => 0

/-! ### what must hold of a column -/

/-- numerically equal in Python's sense (`==` across int / bool / float); the integer ↔ double embedding is
`Num.ofInt` -/
def numEq (c : CV N) (p : PV N) : Prop :=
  match p with
  | .float x => c.isFloating = true ∧ c.toD = x
  | .int n => if c.isFloating then c.toD = N.ofInt n else c.toI = n
  | .bool b => if c.isFloating then c.toD = N.ofInt (b2i b) else c.toI = b2i b

instance [DecidableEq N.D] (c : CV N) (p : PV N) : Decidable (numEq c p) := by
  unfold numEq; cases p <;> exact inferInstance

/-- "integer-valued results remain integers in the output", and real-valued results are stored in a
floating type at least as wide as every operand -/
def kindOk (declared : CT) (k : PK) (width : Nat) : Bool :=
  if k = .float then declared.isFloating && decide (width ≤ declared.rank) else !declared.isFloating

/-- The column clause of the property for one sample: `declared` is the type of the column, `stored` the
value found in it, `ref` what Python computes. -/
def ColOk (declared : CT) (k : PK) (width : Nat) (stored : CV N) (ref : PV N) : Prop :=
  stored.ctype = declared ∧ numEq stored ref ∧ kindOk declared k width = true

instance [DecidableEq N.D] (d : CT) (k : PK) (w : Nat) (s : CV N) (r : PV N) : Decidable (ColOk d k w s r) := by
  unfold ColOk; exact inferInstance

/-! ### the part of the input space where the code is known to violate the property (defect exclusions)

Each predicate below is the hypothesis of a `_partial` theorem and comes with a `_counterexample` theorem and an
entry of known_findings.jsonl.  They are written on the *source* expression and the *declared operand types*
only (`Expr.srcTy`, the type the property's operand kinds have), never on the translator's output. -/

/-- declared type of the value an expression denotes, as the *property* sees operand kinds: literals and
declared leaves; a compound expression is floating iff Python's result is (static kind) -/
def Expr.isFloatKind (e : Expr) : Bool := e.pyKind true = .float

/-- static kind `bool`, possibly under unary `+`/`-` (which the translator keeps typed `bool`) -/
def Expr.boolish : Expr → Bool
  | .un op e => if op = .uadd || op = .usub then e.boolish else op = .not
  | e => e.pyKind true = .bool

/-- exclusion A: `%` with a real-valued operand — the emitted `(a%b)` is not C++ -/
def Expr.noFloatMod : Expr → Bool
  | .bin op l r => l.noFloatMod && r.noFloatMod && !(op = .mod && (l.isFloatKind || r.isFloatKind))
  | .un _ e => e.noFloatMod
  | .cmp _ l r => l.noFloatMod && r.noFloatMod
  | _ => true

/-- exclusion B: unary `-` on a bool-typed operand — the result is declared `bool`, −1 is stored as `true` -/
def Expr.noNegBool : Expr → Bool
  | .bin _ l r => l.noNegBool && r.noNegBool
  | .un op e => e.noNegBool && !(op = .usub && e.boolish)
  | .cmp _ l r => l.noNegBool && r.noNegBool
  | _ => true

/-- every operator is one of the property's list -/
def Expr.opsInScope : Expr → Bool
  | .bin op l r => l.opsInScope && r.opsInScope && (op = .add || op = .sub || op = .mult || op = .div || op = .mod || op = .pow)
  | .un op e => e.opsInScope && (op = .uadd || op = .usub || op = .not)
  | .cmp op l r => l.opsInScope && r.opsInScope && (op = .lt || op = .lte || op = .gt || op = .gte || op = .eq || op = .noteq)
  | _ => true

/-- no binary arithmetic on a boolean operand (`+ - * / %` on one are refused with an assertion, theorem
`bool_refused`; `**` on one is accepted today, but a refusal there would be tolerated alike) -/
def Expr.noBoolArith : Expr → Bool
  | .bin _ l r => l.noBoolArith && r.noBoolArith && !(l.boolish || r.boolish)
  | .un _ e => e.noBoolArith
  | .cmp _ l r => l.noBoolArith && r.noBoolArith
  | _ => true

/-- the expressions the property obliges the translator to accept -/
def Expr.mustAccept (e : Expr) : Bool := e.opsInScope && e.noBoolArith

/-- outside every defect exclusion -/
def Expr.noDefect (e : Expr) : Bool := e.noFloatMod && e.noNegBool

/-- `%` is only quantified over non-negative operands: at every `%` node Python's operands satisfy
`0 ≤ a ∧ 0 < b` (evaluated on the sample) -/
def Expr.modNonneg (env : Env N) : Expr → Bool
  | .bin op l r =>
    l.modNonneg env && r.modNonneg env &&
      (op != .mod ||
        match evalPy true env l, evalPy true env r with
        | some a, some b =>
          if a.isFloat || b.isFloat then N.le (N.ofInt 0) a.toF && N.lt (N.ofInt 0) b.toF
          else decide (0 ≤ a.toI) && decide (0 < b.toI)
        | _, _ => false)
  | .un _ e => e.modNonneg env
  | .cmp _ l r => l.modNonneg env && r.modNonneg env
  | _ => true

/-- exclusion E: a conditional whose arms are both integer-valued is stored in a `double` -/
def condIntegral (a b : Expr) : Bool := !a.isFloatKind && !b.isFloatKind

/-- kind and width the property demands of `a if t else b` -/
def condKind (a b : Expr) : PK := if a.isFloatKind || b.isFloatKind then .float else .int
def condWidth (a b : Expr) : Nat := max a.width b.width

/-! ### C++ meaning of an operand type the translator's own tables do not have: `std::size_t`

The model only ever declares `int` / `float` / `double` / `bool`, and `evalC` gives those their C++ meaning.  The
oracle, however, reads the IMPLEMENTATION's text, and an implementation may take an integer count from an
expression whose C++ type is *unsigned* (`container->size()` is a `std::size_t`) while declaring it `int`.  The
declared type does not change what the compiler does: the usual arithmetic conversions turn every integral
operation with a `std::size_t` operand into arithmetic modulo 2^64 (`3 - 5` is 18446744073709551614, `-1` compared
with a count is 2^64 − 1), and only a conversion back to `int` brings the value into the signed range again.
`evalX` is `evalC` extended by that operand type: `uns i` says which slots hold unsigned operands.  With no
unsigned operand it *is* `evalC` (theorem `evalX_conservative`). -/

/-- a C++ value: one of the model's four types, or a `std::size_t` (64 bit, `n < 2^64`) -/
inductive XV (N : Num)
  | cv (v : CV N)
  | uns (n : Nat)

def two64 : Nat := 18446744073709551616

/-- conversion of an integer to `std::size_t`: modulo 2^64 -/
def wrapU (i : Int) : Nat := (i % (two64 : Int)).toNat

/-- conversion of a `std::size_t` to a 32 bit `int` (modular: implementation-defined before C++20, what every
supported compiler does, required since) -/
def wrapI32 (n : Nat) : Int := (((n + 2147483648) % 4294967296 : Nat) : Int) - 2147483648

def XV.isFloating : XV N → Bool
  | .cv v => v.isFloating
  | .uns _ => false

/-- the number an `XV` denotes, as a value of the model's types (an unsigned number as an integer: used where the
other operand is floating, or as argument of `std::pow`, both of which convert it to the floating type exactly as
they convert an `int` of that value) -/
def XV.asCV : XV N → CV N
  | .cv v => v
  | .uns n => .int n

/-- an integral operand converted to `std::size_t` -/
def XV.toU : XV N → Nat
  | .uns n => n
  | .cv v => wrapU v.toI

def XV.truthy : XV N → Bool
  | .cv v => v.truthy
  | .uns n => n != 0

/-- `static_cast<t>(v)` / conversion on assignment to a variable or column declared `t` -/
def xConvert (t : CT) : XV N → CV N
  | .cv v => convert t v
  | .uns n =>
    match t with
    | .int => .int (wrapI32 n)
    | _ => convert t (.int n)

/-- binary operator with at least one `std::size_t` operand and no floating one: computed in `std::size_t` -/
def uBin (op : String) (x y : Nat) : Option (XV N) :=
  if op == "+" then some (.uns ((x + y) % two64))
  else if op == "-" then some (.uns ((x + two64 - y) % two64))
  else if op == "*" then some (.uns ((x * y) % two64))
  else if op == "/" then (if y = 0 then none else some (.uns (x / y)))
  else if op == "%" then (if y = 0 then none else some (.uns (x % y)))
  else if op == "<" then some (.cv (.bool (decide (x < y))))
  else if op == "<=" then some (.cv (.bool (decide (x ≤ y))))
  else if op == ">" then some (.cv (.bool (decide (y < x))))
  else if op == ">=" then some (.cv (.bool (decide (y ≤ x))))
  else if op == "==" then some (.cv (.bool (decide (x = y))))
  else if op == "!=" then some (.cv (.bool (decide (x ≠ y))))
  else none

def xBin (op : String) (a b : XV N) : Option (XV N) :=
  match a, b with
  | .cv x, .cv y => (cBin op x y).map .cv
  | _, _ =>
    if a.isFloating || b.isFloating then (cBin op a.asCV b.asCV).map .cv
    else uBin op a.toU b.toU

def xUn (op : String) (a : XV N) : Option (XV N) :=
  match a with
  | .cv x => (cUn op x).map .cv
  | .uns n =>
    if op == "+" then some (.uns n)
    else if op == "-" then some (.uns ((two64 - n) % two64))
    else if op == "!" then some (.cv (.bool (n == 0)))
    else none

/-- `evalC` with unsigned operands: the slots `uns` hold `std::size_t` values -/
def evalX (uns : Nat → Bool) (env : Env N) : CE → Option (XV N)
  | .leaf t _ i => if uns i then some (.uns (wrapU (env i).i)) else some (.cv (leafVal t (env i)))
  | .ilit n => some (.cv (.int n))
  | .blit b => some (.cv (.bool b))
  | .bin op l r =>
    match evalX uns env l, evalX uns env r with
    | some a, some b => xBin op a b
    | _, _ => none
  | .cast t e =>
    match evalX uns env e with
    | some a => some (.cv (xConvert t a))
    | none => none
  | .pow l r =>
    match evalX uns env l, evalX uns env r with
    | some a, some b => some (.cv (cPow a.asCV b.asCV))
    | _, _ => none
  | .un op e =>
    match evalX uns env e with
    | some a => xUn op a
    | none => none

/-- what a plain column declared `ty` holds after `col = e;` -/
def storeX (uns : Nat → Bool) (env : Env N) (ty : CT) (e : CE) : Option (CV N) :=
  (evalX uns env e).map (xConvert ty)

/-- `evalCondC` with unsigned operands -/
def evalCondX (uns : Nat → Bool) (env : Env N) (o : CondOut) : Option (CV N) :=
  match evalX uns env o.test.ce with
  | none => none
  | some t =>
    match evalX uns env (if t.truthy then o.thenRhs else o.elseRhs) with
    | none => none
    | some v => some (xConvert o.result.ty v)

/-! ### the operand kinds of the property -/

inductive Kind | intLit | intCount | float | double | bool
  deriving DecidableEq, Repr

/-- an operand of kind `k`: the literal `n`, or an operand whose C++ text is `text` and whose value is in slot `slot` -/
def Kind.operand (k : Kind) (n : Int) (text : String) (slot : Nat) : Expr :=
  match k with
  | .intLit => .int n
  | .intCount => .leaf .int text slot
  | .float => .leaf .float text slot
  | .double => .leaf .double text slot
  | .bool => .leaf .bool text slot

def Kind.isReal : Kind → Bool
  | .float | .double => true
  | _ => false

end FaxVerif.C13
