/-
C13 — property theorems of the TEXT side of arithmetic.

`translate` (Model.lean) says which C++ expression TREE `visit_BinOp` / `visit_UnaryOp` / `visit_Compare` /
`visit_special_BinOp` / `visit_Constant` build; `CE.render` is the text they write for it (tied to the real
`as_cpp()` texts by text equality on every case of every run).  `expr_correct_partial` & co. (Theorems.lean) are about
the meaning `evalC` of the tree.  What connects the two is proved here: a C++ compiler that reads the TEXT —
maximal-munch tokens (`lex`), C++ operator precedence (`pExpr`) — finds exactly that tree, for every expression of
every depth.  `readCpp` is also the reader the oracle uses on the IMPLEMENTATION's texts (Driver.lean).
-/
import FaxVerif.C13.TextLex
import FaxVerif.C13.TextParse
namespace FaxVerif.C13
open FaxVerif.Generated.C13Tables

/-! ### helpers -/

theorem lookup_all {β : Type} (P : β → Bool) : ∀ (t : List (String × β)) (k : String) (v : β),
    t.all (fun p => P p.2) = true → lookup t k = some v → P v = true := by
  intro t
  induction t with
  | nil => intro k v _ h; simp [lookup] at h
  | cons a r ih =>
    intro k v hall h
    obtain ⟨a1, a2⟩ := a
    simp only [List.all_cons, Bool.and_eq_true] at hall
    simp only [lookup] at h
    split at h
    · simp only [Option.some.injEq] at h; subst h; exact hall.1
    · exact ih k v hall.2 h

/-- only the operators of an emitted expression (not its operand texts) -/
def CE.opsOk : CE → Bool
  | .leaf _ _ _ => true
  | .ilit _ => true
  | .blit _ => true
  | .bin op l r => knownBinTexts.contains op && l.opsOk && r.opsOk
  | .cast _ e => e.opsOk
  | .pow l r => l.opsOk && r.opsOk
  | .un op e => knownUnTexts.contains op && e.opsOk

theorem wf_of_opsOk (e : CE) : e.opsOk = true → (e.leaves.all fun l => atomOk l.2.1) = true → e.wf = true := by
  induction e with
  | leaf t s i => intro _ h; simpa [CE.leaves, CE.wf] using h
  | ilit n => intros; rfl
  | blit b => intros; rfl
  | bin op l r ihl ihr =>
    intro h hl
    simp only [CE.opsOk, Bool.and_eq_true] at h
    simp only [CE.leaves, List.all_append, Bool.and_eq_true] at hl
    simp only [CE.wf, Bool.and_eq_true]
    exact ⟨⟨h.1.1, ihl h.1.2 hl.1⟩, ihr h.2 hl.2⟩
  | cast t e ih => intro h hl; exact ih h hl
  | pow l r ihl ihr =>
    intro h hl
    simp only [CE.opsOk, Bool.and_eq_true] at h
    simp only [CE.leaves, List.all_append, Bool.and_eq_true] at hl
    simp only [CE.wf, Bool.and_eq_true]
    exact ⟨ihl h.1 hl.1, ihr h.2 hl.2⟩
  | un op e ih =>
    intro h hl
    simp only [CE.opsOk, Bool.and_eq_true] at h
    simp only [CE.wf, Bool.and_eq_true]
    exact ⟨h.1, ih h.2 hl⟩

/-- the operand texts of an emitted expression are usable (each starts and ends a token of its own and is a name
with member accesses / empty calls, or a non-integer number), unambiguous, and none is spelled `true` / `false` -/
def leavesOk (ls : List (CT × String × Nat)) : Bool :=
  (ls.all fun l => atomOk l.2.1) && leavesConsistent ls && noBoolNames ls

/-! ### T: the generated operator tables -/

/-- Tie T: every operator TEXT of the tables regenerated from the source (`_known_binary_operators`,
`compare_operations`, `_known_unary_operators`) is an operator the reader knows with its C++ binding strength —
re-checked on every run over the regenerated tables. -/
theorem text_tables_known :
    (binaryOps.all fun p => knownBinTexts.contains p.2) = true ∧
    (compareOps.all fun p => knownBinTexts.contains p.2) = true ∧
    (unaryOps.all fun p => knownUnTexts.contains p.2) = true := by decide

/-- whatever `translate` accepts is built from operators the reader knows -/
theorem translate_opsOk (x : Expr) : ∀ r, translate x = .ok r → r.ce.opsOk = true := by
  induction x with
  | leaf t s i => intro r h; simp only [translate, Except.ok.injEq] at h; subst h; rfl
  | int n => intro r h; simp only [translate, Except.ok.injEq] at h; subst h; rfl
  | flt s i => intro r h; simp only [translate, Except.ok.injEq] at h; subst h; rfl
  | bool b => intro r h; simp only [translate, Except.ok.injEq] at h; subst h; rfl
  | bin op l r ihl ihr =>
    intro res h
    simp only [translate] at h
    split at h
    · cases hl : translate l with
      | error x => simp [hl] at h
      | ok lr =>
        cases hr : translate r with
        | error x => simp [hl, hr] at h
        | ok rr =>
          simp only [hl, hr] at h
          have wl := ihl lr hl
          have wr := ihr rr hr
          unfold emitBin at h
          split at h
          · rename_i txt htxt
            have hk := lookup_all (fun t => knownBinTexts.contains t) binaryOps _ txt text_tables_known.1 htxt
            unfold emitKnownBin at h
            split at h
            · simp at h
            · split at h
              · simp only [Except.ok.injEq] at h; subst h
                simp only [CE.opsOk, Bool.and_eq_true]
                refine ⟨⟨hk, ?_⟩, wr⟩
                split
                · exact wl
                · exact wl
              · simp only [Except.ok.injEq] at h; subst h
                simp only [CE.opsOk, Bool.and_eq_true]
                exact ⟨⟨hk, wl⟩, wr⟩
          · split at h
            · simp only [Except.ok.injEq] at h; subst h
              simp only [CE.opsOk, Bool.and_eq_true]; exact ⟨wl, wr⟩
            · simp at h
    · simp at h
  | un op e ih =>
    intro res h
    simp only [translate] at h
    split at h
    · cases he : translate e with
      | error x => simp [he] at h
      | ok er =>
        simp only [he] at h
        have w := ih er he
        unfold emitUn at h
        split at h
        · rename_i txt htxt
          have hk := lookup_all (fun t => knownUnTexts.contains t) unaryOps _ txt text_tables_known.2.2 htxt
          simp only [Except.ok.injEq] at h; subst h
          simp only [CE.opsOk, Bool.and_eq_true]; exact ⟨hk, w⟩
        · simp at h
    · simp at h
  | cmp op l r ihl ihr =>
    intro res h
    simp only [translate] at h
    cases hl : translate l with
    | error x => simp [hl] at h
    | ok lr =>
      cases hr : translate r with
      | error x => simp [hl, hr] at h
      | ok rr =>
        simp only [hl, hr] at h
        unfold emitCmp at h
        split at h
        · rename_i txt htxt
          have hk := lookup_all (fun t => knownBinTexts.contains t) compareOps _ txt text_tables_known.2.1 htxt
          simp only [Except.ok.injEq] at h; subst h
          simp only [CE.opsOk, Bool.and_eq_true]; exact ⟨⟨hk, ihl lr hl⟩, ihr rr hr⟩
        · simp at h

/-! ### the property theorems -/

/-- **Tokens.**  The maximal-munch scanner, run over the characters of the rendering of ANY well-formed emitted
expression (every depth, every operator of the known lists, every usable operand text), yields exactly the tokens
the renderer meant: no `--`, `++`, `->`, `<=`, `1e-` … forms across any join of two pieces of text. -/
theorem text_lex (e : CE) (h : e.wf = true) : lex e.render.toList = some e.toks := lex_render e h

/-- **Precedence.**  The C++ expression grammar (postfix > unary > `* / %` > `+ -` > shifts > relational > equality >
bitwise > logical), run on those tokens, returns exactly the intended tree: the parentheses the renderer writes
are enough, no neighbouring operator captures an operand. -/
theorem text_parse (e : CE) (h : e.wf = true) : pExpr e.toks = .ok e.toPT := parse_toks e h

/-- **The emitted text denotes the emitted tree** — for every well-formed emitted expression: reading the rendered
text the way a C++ compiler does gives the expression back (up to `CE.norm`: `(-5)` and `(-(5))` are both the
constant −5, theorem `text_norm_meaning`). -/
theorem text_read (e : CE) (h : e.wf = true) (hc : leavesConsistent e.leaves = true) (hb : noBoolNames e.leaves = true) :
    readCpp e.leaves e.render = .ok e.norm := by
  have h1 := lex_render e h
  have h2 := read_toks e h hc hb
  simp only [readCpp, readChars, h1]
  exact h2

/-- the normal form means the same: `evalC` does not tell `(-5)` from `(-(5))` -/
theorem text_norm_meaning {N : Num} (env : Env N) : ∀ e : CE, evalC env e.norm = evalC env e := by
  intro e
  induction e with
  | leaf t s i => rfl
  | ilit n => rfl
  | blit b => rfl
  | bin op l r ihl ihr => simp only [CE.norm, evalC, ihl, ihr]
  | cast t e ih => simp only [CE.norm, evalC, ih]
  | pow l r ihl ihr => simp only [CE.norm, evalC, ihl, ihr]
  | un op e ih =>
    simp only [CE.norm]
    split
    · rename_i n hn
      rw [hn] at ih
      split
      · rename_i hop
        obtain ⟨rfl, _⟩ := hop
        simp only [evalC, ← ih, cUn]
        simp
      · simp only [evalC, ← ih]
    · simp only [evalC, ih]

/-- **Full statement, for every source expression the translator accepts** (any depth; all operators of the
generated tables, `**`, the int/int cast): the text the translator writes, read with maximal-munch tokenisation
and C++ precedence, is the tree it built — tokens, parse tree, and expression, whose meaning `evalC` is the one
`expr_correct_partial` relates to Python.  The only hypothesis is on the OPERAND texts the expression was given
(decidable; checked by the driver on the operand table of every case of every run). -/
theorem text_denotes (x : Expr) (r : Rep) (h : translate x = .ok r) (hl : leavesOk r.ce.leaves = true) :
    lex r.ce.render.toList = some r.ce.toks ∧ pExpr r.ce.toks = .ok r.ce.toPT ∧
    readCpp r.ce.leaves r.ce.render = .ok r.ce.norm ∧
    ∀ (N : Num) (env : Env N), evalC env r.ce.norm = evalC env r.ce := by
  simp only [leavesOk, Bool.and_eq_true] at hl
  have hw : r.ce.wf = true := wf_of_opsOk r.ce (translate_opsOk x r h) hl.1.1
  exact ⟨lex_render _ hw, parse_toks _ hw, text_read _ hw hl.1.2 hl.2, fun N env => text_norm_meaning env _⟩

/-- the hypotheses are satisfiable by a non-trivial input: `j.d() - (-(j.d() - 5)) < 2.5 ** -j.i()` -/
example :
    (match translate (.cmp .lt (.bin .sub (.leaf .double "it0->d()" 3) (.un .usub (.bin .sub (.leaf .double "it0->d()" 3) (.int 5))))
        (.bin .pow (.flt "2.5" 31) (.un .usub (.leaf .int "it0->i()" 1)))) with
     | .ok r => leavesOk r.ce.leaves && r.ce.render == "((it0->d()-(-((it0->d()-5))))<std::pow(2.5, (-(it0->i()))))"
     | .error _ => false) = true := by
  decide +kernel

/-- the statement forms write the same expression language: the `set_var` cast keeps well-formedness, so the
right-hand sides of a conditional's and an accumulator's assignments are covered by `text_read` too -/
theorem text_setVar_wf (t : CT) (v : Rep) (h : v.ce.wf = true) : (setVarRhs t v).wf = true := by
  unfold setVarRhs; split <;> simpa [CE.wf] using h

/-! ### why the parentheses are there: the same reader on texts WITHOUT them -/

def Res.isIll {α : Type} : Res α → Bool
  | .ill _ => true
  | _ => false

/-- A negative constant written without its parentheses directly after a binary minus is not the expression that
was meant: maximal munch makes `--` one token (a decrement of a call result: ill-formed C++).  `_signed_literal` and
the `(op(…))` shape of `visit_UnaryOp` are what `text_lex` rests on. -/
theorem text_minus_minus_counterexample :
    (readCpp [(.double, "it0->d()", 3), (.double, "2.5", 31)] "(it0->d()--2.5)").isIll = true := by
  decide +kernel

/-- …and a unary minus that drops its own parentheses in front of a bracketed operand: `x - -(a-b)` -/
theorem text_unary_unbracketed_counterexample :
    (readCpp [(.double, "it0->d()", 3), (.int, "it0->i2()", 5)] "(it0->d()--(it0->d()-it0->i2()))").isIll = true := by
  decide +kernel

/-- without parentheses precedence decides, not the renderer: `a-b*c` is `a-(b*c)` -/
theorem text_precedence_counterexample :
    (match readCpp [(.int, "a", 1), (.int, "b", 2), (.int, "c", 3)] "a-b*c" with
     | .ok e => e == .bin "-" (.leaf .int "a" 1) (.bin "*" (.leaf .int "b" 2) (.leaf .int "c" 3))
     | _ => false) = true := by
  decide +kernel

end FaxVerif.C13
