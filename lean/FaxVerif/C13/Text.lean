/-
C13 — the TEXT side of arithmetic: how a C++ compiler reads what the translator writes.

`CE.render` (Model.lean) is the model of the texts `visit_BinOp` / `visit_UnaryOp` / `visit_Compare` /
`visit_special_BinOp` / `visit_Constant` put into `cpp_value.as_cpp()`.  This file is the other direction:

  1. `lex`    — maximal-munch tokenisation of a character sequence (identifiers, pp-numbers with their
                `e+` / `e-` exponent rule, the C++ punctuators, longest match), written as a left-to-right scanner
                with one pending token;
  2. `pExpr`  — C++ expression grammar on tokens: postfix (`->`, `.`, calls) over unary (`+ - ! ~`) over the binary
                levels `* / %` > `+ -` > `<< >>` > `< <= > >=` > `== !=` > `&` > `^` > `|` > `&&` > `||`, all
                left-associative; parentheses only group.  `++` / `--` are recognised and are ILL-FORMED here (no
                operand of an emitted expression may be modified; on anything but a variable they do not compile);
  3. `PT.toCE` — the parse tree read back as a `CE` (operands are resolved through a table of operand parse
                trees), so that `evalC` / `evalX` give the text its value.

`readCpp` composes the three.  Answers are three-valued: `ok`, `ill` (the text is not the C++ expression somebody
meant: a token accident, a syntax error) and `unk` (outside the subset this reader knows — never a verdict).

No Mathlib/Batteries import: this file is run by the driver.
-/
import FaxVerif.C13.Model
namespace FaxVerif.C13

/-! ## characters and tokens -/

def isIdStart (c : Char) : Bool := c.isAlpha || c == '_'
def isIdChar (c : Char) : Bool := c.isAlphanum || c == '_'

inductive Tok
  | id (s : List Char)
  | num (s : List Char)
  | p (s : List Char)
  deriving DecidableEq, Repr

/-- the pending (not yet closed) token of the scanner -/
inductive Pend
  | none
  | id (acc : List Char)
  | num (acc : List Char)
  | op (acc : List Char)
  deriving DecidableEq, Repr

def Pend.flush : Pend → List Tok
  | .none => []
  | .id a => [.id a]
  | .num a => [.num a]
  | .op a => [.p a]

/-- characters that start a punctuator -/
def isPunctChar (c : Char) : Bool :=
  c == '(' || c == ')' || c == ',' || c == '+' || c == '-' || c == '*' || c == '/' || c == '%' || c == '!' || c == '~'
  || c == '<' || c == '>' || c == '=' || c == '&' || c == '|' || c == '^' || c == '.' || c == ':' || c == '?'
  || c == '[' || c == ']' || c == '{' || c == '}' || c == ';'

/-- `opExt a c`: the punctuator `a` followed by `c` is again (a prefix of) a punctuator — every prefix of a C++
punctuator of this list is a punctuator, so greedy extension is maximal munch -/
def opExt : List Char → Char → Bool
  | ['-'], '>' => true | ['-'], '-' => true | ['-'], '=' => true
  | ['+'], '+' => true | ['+'], '=' => true
  | ['<'], '<' => true | ['<'], '=' => true
  | ['>'], '>' => true | ['>'], '=' => true
  | ['='], '=' => true | ['!'], '=' => true
  | ['*'], '=' => true | ['/'], '=' => true | ['%'], '=' => true | ['^'], '=' => true
  | ['&'], '&' => true | ['&'], '=' => true
  | ['|'], '|' => true | ['|'], '=' => true
  | [':'], ':' => true
  | ['-', '>'], '*' => true
  | ['<', '<'], '=' => true | ['>', '>'], '=' => true | ['<', '='], '>' => true
  | _, _ => false

/-- last character of a pp-number is an exponent marker (`1e-05`, `0x1p-3`): a following sign belongs to the number -/
def lastIsExp : List Char → Bool
  | [] => false
  | [c] => c == 'e' || c == 'E' || c == 'p' || c == 'P'
  | _ :: r => lastIsExp r

/-- does `c` continue the pending token -/
def Pend.extend (p : Pend) (c : Char) : Option Pend :=
  match p with
  | .none => Option.none
  | .id a => if isIdChar c then some (.id (a ++ [c])) else Option.none
  | .num a =>
    if isIdChar c || c == '.' || ((c == '+' || c == '-') && lastIsExp a) then some (.num (a ++ [c])) else Option.none
  | .op a => if opExt a c then some (.op (a ++ [c])) else Option.none

/-- a new token starts with `c` (none: a character this reader does not know — string quotes, `#`, …) -/
def Pend.start (c : Char) : Option Pend :=
  if c == ' ' then some .none
  else if isIdStart c then some (.id [c])
  else if c.isDigit then some (.num [c])
  else if isPunctChar c then some (.op [c])
  else Option.none

/-- the scanner: tokens closed while reading the characters, and the token still pending afterwards -/
def scan : Pend → List Char → Option (List Tok × Pend)
  | p, [] => some ([], p)
  | p, c :: cs =>
    match p.extend c with
    | some p' => scan p' cs
    | Option.none =>
      match Pend.start c with
      | Option.none => Option.none
      | some q =>
        match scan q cs with
        | Option.none => Option.none
        | some (ts, r) => some (p.flush ++ ts, r)

/-- maximal-munch tokenisation -/
def lex (cs : List Char) : Option (List Tok) :=
  match scan .none cs with
  | some (ts, p) => some (ts ++ p.flush)
  | Option.none => Option.none

/-! ## parse trees -/

inductive PT
  | id (s : List Char)
  | num (s : List Char)
  | scoped (a b : List Char)                  -- `a::b`
  | member (e : PT) (arrow : Bool) (n : List Char)
  | call0 (f : PT)
  | call1 (f a : PT)
  | call2 (f a b : PT)
  | cast (ty : List Char) (e : PT)            -- `static_cast<ty>(e)`
  | un (op : List Char) (e : PT)
  | bin (op : List Char) (l r : PT)
  deriving DecidableEq, Repr

/-- three-valued answer of the reader -/
inductive Res (α : Type)
  | ok (a : α)
  | ill (why : String)
  | unk (why : String)
  deriving Repr

/-- binding strength of a binary operator token (larger binds tighter) -/
def binPrec (op : List Char) : Option Nat :=
  if op = ['*'] ∨ op = ['/'] ∨ op = ['%'] then some 10
  else if op = ['+'] ∨ op = ['-'] then some 9
  else if op = ['<', '<'] ∨ op = ['>', '>'] then some 8
  else if op = ['<'] ∨ op = ['<', '='] ∨ op = ['>'] ∨ op = ['>', '='] then some 7
  else if op = ['=', '='] ∨ op = ['!', '='] then some 6
  else if op = ['&'] then some 5
  else if op = ['^'] then some 4
  else if op = ['|'] then some 3
  else if op = ['&', '&'] then some 2
  else if op = ['|', '|'] then some 1
  else none

def isPrefixOp (op : List Char) : Bool := op = ['+'] || op = ['-'] || op = ['!'] || op = ['~']
def isIncDec (op : List Char) : Bool := op = ['+', '+'] || op = ['-', '-']

def staticCast : List Char := "static_cast".toList

def showToks (ts : List Tok) : String :=
  String.intercalate " " ((ts.take 6).map fun t => match t with | .id s => String.ofList s | .num s => String.ofList s | .p s => String.ofList s)

/-- what is wrong when a `)` was expected and `r` is what is there -/
def closeRes {α : Type} (r : List Tok) : Res α :=
  match r with
  | [] => .ill "')' missing at the end of the text"
  | .p s :: _ => .unk ("token '" ++ String.ofList s ++ "'")
  | _ => .ill ("operator expected before '" ++ showToks r ++ "'")

mutual
/-- primary-expression -/
def pPrimary : Nat → List Tok → Res (PT × List Tok)
  | 0, _ => .unk "expression too deep"
  | f + 1, ts =>
    match ts with
    | .num s :: r => .ok (.num s, r)
    | .id s :: r =>
      if s = staticCast then
        match r with
        | .p ['<'] :: .id ty :: .p ['>'] :: .p ['('] :: r1 =>
          match pBin f 0 r1 with
          | .ok (e, .p [')'] :: r2) => .ok (.cast ty e, r2)
          | .ok (_, r2) => closeRes r2
          | .ill w => .ill w
          | .unk w => .unk w
        | _ => .unk "static_cast of an unknown shape"
      else
        match r with
        | .p [':', ':'] :: .id b :: r1 => .ok (.scoped s b, r1)
        | _ => .ok (.id s, r)
    | .p ['('] :: r =>
      match pBin f 0 r with
      | .ok (e, .p [')'] :: r2) => .ok (e, r2)
      | .ok (_, r2) => closeRes r2
      | .ill w => .ill w
      | .unk w => .unk w
    | [] => .ill "operand expected at the end of the text"
    | .p s :: _ =>
      if s = [')'] ∨ s = [','] ∨ (binPrec s).isSome then .ill ("operand expected before '" ++ String.ofList s ++ "'")
      else .unk ("token '" ++ String.ofList s ++ "'")

/-- postfix operators applied to `e` -/
def pPostLoop : Nat → PT → List Tok → Res (PT × List Tok)
  | 0, _, _ => .unk "expression too deep"
  | f + 1, e, ts =>
    match ts with
    | .p ['-', '>'] :: .id n :: r => pPostLoop f (.member e true n) r
    | .p ['.'] :: .id n :: r => pPostLoop f (.member e false n) r
    | .p ['('] :: .p [')'] :: r => pPostLoop f (.call0 e) r
    | .p ['('] :: r =>
      match pBin f 0 r with
      | .ok (a, .p [')'] :: r2) => pPostLoop f (.call1 e a) r2
      | .ok (a, .p [','] :: r2) =>
        match pBin f 0 r2 with
        | .ok (b, .p [')'] :: r3) => pPostLoop f (.call2 e a b) r3
        | .ok (_, .p [','] :: _) => .unk "call with more than two arguments"
        | .ok (_, r3) => closeRes r3
        | .ill w => .ill w
        | .unk w => .unk w
      | .ok (_, r2) => closeRes r2
      | .ill w => .ill w
      | .unk w => .unk w
    | .p s :: r =>
      if isIncDec s then .ill ("'" ++ String.ofList s ++ "' after an operand: a decrement/increment, not two signs")
      else .ok (e, .p s :: r)
    | .id s :: _ => .ill ("operator expected before '" ++ String.ofList s ++ "'")
    | .num s :: _ => .ill ("operator expected before '" ++ String.ofList s ++ "'")
    | [] => .ok (e, [])

/-- unary-expression -/
def pUnary : Nat → List Tok → Res (PT × List Tok)
  | 0, _ => .unk "expression too deep"
  | f + 1, ts =>
    match ts with
    | .p s :: r =>
      if isPrefixOp s then
        match pUnary f r with
        | .ok (e, r1) => .ok (.un s e, r1)
        | .ill w => .ill w
        | .unk w => .unk w
      else if isIncDec s then .ill ("'" ++ String.ofList s ++ "' before an operand: a decrement/increment, not two signs")
      else if s = ['*'] ∨ s = ['&'] then .unk "unary * / &"
      else
        match pPrimary f ts with
        | .ok (e, r1) => pPostLoop f e r1
        | .ill w => .ill w
        | .unk w => .unk w
    | _ =>
      match pPrimary f ts with
      | .ok (e, r1) => pPostLoop f e r1
      | .ill w => .ill w
      | .unk w => .unk w

/-- binary operators of strength ≥ `minP` applied to `lhs` (precedence climbing, left-associative) -/
def pBinLoop : Nat → Nat → PT → List Tok → Res (PT × List Tok)
  | 0, _, _, _ => .unk "expression too deep"
  | f + 1, minP, lhs, ts =>
    match ts with
    | .p s :: r =>
      match binPrec s with
      | some k =>
        if minP ≤ k then
          match pBin f (k + 1) r with
          | .ok (rhs, r1) => pBinLoop f minP (.bin s lhs rhs) r1
          | .ill w => .ill w
          | .unk w => .unk w
        else .ok (lhs, ts)
      | none => .ok (lhs, ts)
    | _ => .ok (lhs, ts)

/-- an expression all of whose top-level binary operators have strength ≥ `minP` -/
def pBin : Nat → Nat → List Tok → Res (PT × List Tok)
  | 0, _, _ => .unk "expression too deep"
  | f + 1, minP, ts =>
    match pUnary f ts with
    | .ok (lhs, r) => pBinLoop f minP lhs r
    | .ill w => .ill w
    | .unk w => .unk w
end

/-- fuel that is enough for every token list of this length (each level of the grammar consumes one unit, each
iteration of a loop consumes a token) -/
def fuelFor (ts : List Tok) : Nat := 8 * ts.length + 16

/-- a whole token list as ONE expression -/
def pExpr (ts : List Tok) : Res PT :=
  match pBin (fuelFor ts) 0 ts with
  | .ok (e, []) => .ok e
  | .ok (_, r) =>
    (match r with
     | .p s :: _ => if s = [')'] then .ill "unbalanced ')'" else .unk ("token '" ++ String.ofList s ++ "' after the expression")
     | _ => .ill ("operator expected before '" ++ showToks r ++ "'"))
  | .ill w => .ill w
  | .unk w => .unk w

/-! ## from parse trees back to `CE` -/

/-- parse trees an OPERAND text may have: a name, member accesses and calls without argument on it; a number that
is not a plain decimal integer (`2.5`, `1e-05`) -/
def PT.isAtom : PT → Bool
  | .id _ => true
  | .member e _ _ => e.isAtom
  | .call0 e => e.isAtom
  | .num s => !(s.all Char.isDigit)
  | _ => false

def ctOfChars (s : List Char) : Option CT :=
  if s = "int".toList then some .int else if s = "float".toList then some .float
  else if s = "double".toList then some .double else if s = "bool".toList then some .bool else none

/-- value of a string of decimal digits -/
def digitsVal (s : List Char) : Nat := s.foldl (fun n c => 10 * n + (c.toNat - '0'.toNat)) 0

/-- `res`: the operand table (parse tree of an operand text ↦ the operand).  Operands first, then structure. -/
def PT.toCE (res : PT → Option (CT × String × Nat)) : PT → Res CE
  | .id s =>
    match res (.id s) with
    | some (t, x, i) => .ok (.leaf t x i)
    | none =>
      if s = "true".toList then .ok (.blit true) else if s = "false".toList then .ok (.blit false)
      else .unk ("unknown name '" ++ String.ofList s ++ "'")
  | .num s =>
    match res (.num s) with
    | some (t, x, i) => .ok (.leaf t x i)
    | none => if s.all Char.isDigit then .ok (.ilit (digitsVal s)) else .unk ("unknown number '" ++ String.ofList s ++ "'")
  | .scoped a b => .unk ("unknown name '" ++ String.ofList a ++ "::" ++ String.ofList b ++ "'")
  | .member e ar n =>
    match res (.member e ar n) with
    | some (t, x, i) => .ok (.leaf t x i)
    | none => .unk ("unknown member access '" ++ String.ofList n ++ "'")
  | .call0 f =>
    match res (.call0 f) with
    | some (t, x, i) => .ok (.leaf t x i)
    | none => .unk "unknown call"
  | .call1 _ _ => .unk "unknown call with one argument"
  | .call2 f a b =>
    if f = .scoped "std".toList "pow".toList then
      match a.toCE res, b.toCE res with
      | .ok x, .ok y => .ok (.pow x y)
      | .ill w, _ => .ill w
      | .unk w, _ => .unk w
      | _, .ill w => .ill w
      | _, .unk w => .unk w
    else .unk "unknown call with two arguments"
  | .cast ty e =>
    match ctOfChars ty with
    | some t =>
      match e.toCE res with
      | .ok x => .ok (.cast t x)
      | .ill w => .ill w
      | .unk w => .unk w
    | none => .unk ("static_cast to '" ++ String.ofList ty ++ "'")
  | .un op e =>
    match e.toCE res with
    | .ok x =>
      -- `-5`: the negative constant
      (match x with
       | .ilit n => if op = ['-'] ∧ 0 ≤ n then .ok (.ilit (-n)) else .ok (.un (String.ofList op) x)
       | _ => .ok (.un (String.ofList op) x))
    | .ill w => .ill w
    | .unk w => .unk w
  | .bin op l r =>
    match l.toCE res, r.toCE res with
    | .ok x, .ok y => .ok (.bin (String.ofList op) x y)
    | .ill w, _ => .ill w
    | .unk w, _ => .unk w
    | _, .ill w => .ill w
    | _, .unk w => .unk w

/-! ### operand texts

An operand text (`it0->d()`, `ei0->i()`, `cnt0`, `A`, `2.5`, `1e-05`) is taken as it is from elsewhere (the
representation of a method call, of a variable, `str(float)`).  What the rendering needs of it is decidable on
the text: it starts a token of its own, it ends in a token that nothing emitted after an operand can extend, and
its tokens are a name followed by member accesses / empty calls, or one number that is not a plain integer. -/

def Pend.closed : Pend → Bool
  | .none => false
  | .id _ => true
  | .num a => !lastIsExp a
  | .op a => a = [')']

def firstOk (c : Char) : Bool := isIdStart c || c.isDigit

def atomChain : List Tok → Bool
  | [] => true
  | .p ['-', '>'] :: .id _ :: r => atomChain r
  | .p ['.'] :: .id _ :: r => atomChain r
  | .p ['('] :: .p [')'] :: r => atomChain r
  | _ => false

def atomToksOk : List Tok → Bool
  | [.num s] => !(s.all Char.isDigit)
  | .id s :: r => s ≠ staticCast && atomChain r
  | _ => false

def atomToks (s : String) : List Tok :=
  match scan .none s.toList with
  | some (ts, p) => ts ++ p.flush
  | none => []

def atomOk (s : String) : Bool :=
  match s.toList, scan .none s.toList with
  | c :: _, some (ts, p) => firstOk c && p.closed && atomToksOk (ts ++ p.flush)
  | _, _ => false

/-- the parse tree of a chain of member accesses / empty calls applied to `e` -/
def chainPT : PT → List Tok → PT
  | e, .p ['-', '>'] :: .id n :: r => chainPT (.member e true n) r
  | e, .p ['.'] :: .id n :: r => chainPT (.member e false n) r
  | e, .p ['('] :: .p [')'] :: r => chainPT (.call0 e) r
  | e, _ => e

/-- the parse tree an operand's tokens are meant to have -/
def atomTreeOf : List Tok → PT
  | [.num s] => .num s
  | .id s :: r => chainPT (.id s) r
  | _ => .id []

def atomTree (s : String) : Option PT := if atomOk s then some (atomTreeOf (atomToks s)) else none

/-- the operand table made of a list of operands `(type, text, slot)` -/
def resolver (leaves : List (CT × String × Nat)) (pt : PT) : Option (CT × String × Nat) :=
  leaves.find? fun l => atomTree l.2.1 == some pt

/-- a text read the way a C++ compiler reads it -/
def readChars (res : PT → Option (CT × String × Nat)) (cs : List Char) : Res CE :=
  match lex cs with
  | none => .unk "a character outside the expression language"
  | some ts =>
    match pExpr ts with
    | .ok pt => pt.toCE res
    | .ill w => .ill w
    | .unk w => .unk w

def readCpp (leaves : List (CT × String × Nat)) (text : String) : Res CE :=
  readChars (resolver leaves) text.toList

/-! ## what the rendering of a `CE` is MEANT to be read as -/

/-- the canonical form the reader produces: a negative constant is the constant (`(-5)` and `(-(5))` are the same
expression `-5`) -/
def CE.norm : CE → CE
  | .leaf t s i => .leaf t s i
  | .ilit n => .ilit n
  | .blit b => .blit b
  | .bin op l r => .bin op l.norm r.norm
  | .cast t e => .cast t e.norm
  | .pow l r => .pow l.norm r.norm
  | .un op e =>
    match e.norm with
    | .ilit n => if op = "-" ∧ 0 ≤ n then .ilit (-n) else .un op (.ilit n)
    | x => .un op x

/-- texts of the operators the reader knows as binary / prefix operators -/
def knownBinTexts : List String := ["*", "/", "%", "+", "-", "<<", ">>", "<", "<=", ">", ">=", "==", "!=", "&", "^", "|", "&&", "||"]
def knownUnTexts : List String := ["+", "-", "!", "~"]

/-- well-formed emitted expression: operators from the known lists, operand texts usable -/
def CE.wf : CE → Bool
  | .leaf _ s _ => atomOk s
  | .ilit _ => true
  | .blit _ => true
  | .bin op l r => knownBinTexts.contains op && l.wf && r.wf
  | .cast _ e => e.wf
  | .pow l r => l.wf && r.wf
  | .un op e => knownUnTexts.contains op && e.wf

/-- the operands of an expression -/
def CE.leaves : CE → List (CT × String × Nat)
  | .leaf t s i => [(t, s, i)]
  | .ilit _ => []
  | .blit _ => []
  | .bin _ l r => l.leaves ++ r.leaves
  | .cast _ e => e.leaves
  | .pow l r => l.leaves ++ r.leaves
  | .un _ e => e.leaves

/-- operands with the same parse tree are the same operand -/
def leavesConsistent (ls : List (CT × String × Nat)) : Bool :=
  ls.all fun a => ls.all fun b => atomTree a.2.1 != atomTree b.2.1 || a == b

/-- the tokens the rendering is meant to consist of -/
def CE.toks : CE → List Tok
  | .leaf _ s _ => atomToks s
  | .ilit n =>
    if n < 0 then [.p ['('], .p ['-'], .num (Nat.toDigits 10 n.natAbs), .p [')']] else [.num (Nat.toDigits 10 n.toNat)]
  | .blit b => [.id (if b then "true" else "false").toList]
  | .bin op l r => [.p ['(']] ++ l.toks ++ [.p op.toList] ++ r.toks ++ [.p [')']]
  | .cast t e => [.id staticCast, .p ['<'], .id t.name.toList, .p ['>'], .p ['(']] ++ e.toks ++ [.p [')']]
  | .pow l r => [.id "std".toList, .p [':', ':'], .id "pow".toList, .p ['(']] ++ l.toks ++ [.p [',']] ++ r.toks ++ [.p [')']]
  | .un op e => [.p ['('], .p op.toList, .p ['(']] ++ e.toks ++ [.p [')'], .p [')']]

/-- the parse tree the rendering is meant to have (parentheses only group) -/
def CE.toPT : CE → PT
  | .leaf _ s _ => atomTreeOf (atomToks s)
  | .ilit n => if n < 0 then .un ['-'] (.num (Nat.toDigits 10 n.natAbs)) else .num (Nat.toDigits 10 n.toNat)
  | .blit b => .id (if b then "true" else "false").toList
  | .bin op l r => .bin op.toList l.toPT r.toPT
  | .cast t e => .cast t.name.toList e.toPT
  | .pow l r => .call2 (.scoped "std".toList "pow".toList) l.toPT r.toPT
  | .un op e => .un op.toList e.toPT

end FaxVerif.C13
