/-
C13 driver: one JSON request per line on stdin, one JSON answer per line on stdout.

Expr JSON: {"leaf":[ty,text,slot]} | {"int":n} | {"flt":[text,slot]} | {"bool":b} | {"bin":[op,l,r]} |
           {"un":[op,e]} | {"cmp":[op,l,r]}              (op = Python AST class name)
Form JSON: {"form":"plain","e":E} | {"form":"cond","t":E,"a":E,"b":E} |
           {"form":"agg","seed":E,"upd":{"plain":E} | {"cond":[t,a,b]}}
Env  JSON: {"<slot>":{"i":n,"d":"<bits of the double, decimal>","b":bool}, …}
           a sample is one Env (plain, cond) or [base Env, element Env, …] (agg: the seed is evaluated in `base`)

  {"op":"emit", form}                    -> {"ok":{"ty":T,"lines":[…]}} | {"err":"AssertionError"|…}
       plain: lines = [expr]; cond: the 5 lines of `condLines "R"`; agg: `aggLines "A" "R"`
  {"op":"spec", form, "impl":{"ty":T, "expr":text | "test","then","else" | "seed","accTy","upd",("test","then","else")},
        "leaves":[[text,ty,slot],…] (ty "size_t": an operand whose C++ type is unsigned, see Spec.lean `evalX`), "samples":[env…] (agg: [[env…]…]), optional "observed":[value…]}
       -> {"holds":bool|null,"why":…,"mustAccept":bool,"excluded":bool,"rows":[{"c":V,"py":V,"cpy":V,"model":V,"inq":bool}…]}
     the Spec evaluated on what the IMPLEMENTATION emitted (its text parsed here and run under `evalC`), or, when
     "observed" is given, on the values the compiled job printed.
  {"op":"spec","impl":{"err":cls}, form} -> whether the property tolerates the refusal
Run: lake env lean --run FaxVerif/C13/Driver.lean
-/
import Lean.Data.Json
import FaxVerif.C13.Spec
import FaxVerif.C13.Text
open Lean FaxVerif.C13

/-- −0.0 and +0.0 are the same number for Python's `==` (and no operator of the subset tells them apart where Python
is defined: division by either raises): one representative, so that equality of bit patterns is numeric equality -/
def normZ (b : UInt64) : UInt64 := if b == 0x8000000000000000 then 0 else b

/-- IEEE binary64 through Lean's `Float`, carried as bit patterns so that equality is decidable -/
def fbin (f : Float → Float → Float) (a b : UInt64) : UInt64 := normZ (f (Float.ofBits a) (Float.ofBits b)).toBits

def pyFloatMod (x y : Float) : Float :=
  -- CPython float_rem: fmod, then adjusted to the sign of the divisor (fmod via truncation: exact on the dyadic samples used)
  let q := x / y
  let t := if q < 0 then Float.ceil q else Float.floor q
  let m := x - t * y
  if m != 0 && ((y < 0) != (m < 0)) then m + y else m

def F : Num :=
  { D := UInt64
    add := fbin (· + ·), sub := fbin (· - ·), mul := fbin (· * ·), div := fbin (· / ·)
    pow := fbin Float.pow, pymod := fbin pyFloatMod
    neg := fun a => normZ (-(Float.ofBits a)).toBits
    lt := fun a b => Float.ofBits a < Float.ofBits b
    le := fun a b => Float.ofBits a ≤ Float.ofBits b
    eq := fun a b => Float.ofBits a == Float.ofBits b
    ofInt := fun n => normZ (Float.ofInt n).toBits
    toInt := fun a => (Float.ofBits a).toInt64.toInt }

instance : DecidableEq F.D := inferInstanceAs (DecidableEq UInt64)

/-! ### JSON in -/

def ctOf (s : String) : Except String CT :=
  match s with
  | "int" => pure .int | "float" => pure .float | "double" => pure .double | "bool" => pure .bool
  | _ => throw s!"unknown type {s}"

def binOf (s : String) : Except String PyBin :=
  match [PyBin.add, .sub, .mult, .div, .mod, .pow, .floordiv, .matmult, .lshift, .rshift, .bitor, .bitxor, .bitand].find? (·.astName == s) with
  | some o => pure o | none => throw s!"unknown binary operator {s}"
def unOf (s : String) : Except String PyUn :=
  match [PyUn.uadd, .usub, .not, .invert].find? (·.astName == s) with
  | some o => pure o | none => throw s!"unknown unary operator {s}"
def cmpOf (s : String) : Except String PyCmp :=
  match [PyCmp.lt, .lte, .gt, .gte, .eq, .noteq, .is, .isNot, .isIn, .notIn].find? (·.astName == s) with
  | some o => pure o | none => throw s!"unknown comparison {s}"

partial def exprOf (j : Json) : Except String Expr := do
  if let .ok a := j.getObjVal? "leaf" then
    let a ← a.getArr?
    return .leaf (← ctOf (← a[0]!.getStr?)) (← a[1]!.getStr?) (← a[2]!.getNat?)
  if let .ok n := j.getObjVal? "int" then return .int (← n.getInt?)
  if let .ok a := j.getObjVal? "flt" then
    let a ← a.getArr?
    return .flt (← a[0]!.getStr?) (← a[1]!.getNat?)
  if let .ok b := j.getObjVal? "bool" then return .bool (← b.getBool?)
  if let .ok a := j.getObjVal? "bin" then
    let a ← a.getArr?
    return .bin (← binOf (← a[0]!.getStr?)) (← exprOf a[1]!) (← exprOf a[2]!)
  if let .ok a := j.getObjVal? "un" then
    let a ← a.getArr?
    return .un (← unOf (← a[0]!.getStr?)) (← exprOf a[1]!)
  if let .ok a := j.getObjVal? "cmp" then
    let a ← a.getArr?
    return .cmp (← cmpOf (← a[0]!.getStr?)) (← exprOf a[1]!) (← exprOf a[2]!)
  throw s!"bad expression {j.compress}"

def updOf (j : Json) : Except String Upd := do
  if let .ok e := j.getObjVal? "plain" then return .plain (← exprOf e)
  if let .ok a := j.getObjVal? "condIn" then
    let a ← a.getArr?
    return .condIn 99 (← exprOf a[0]!) (← exprOf a[1]!) (← exprOf a[2]!) (← exprOf a[3]!)
  let a ← (← j.getObjVal? "cond").getArr?
  return .cond (← exprOf a[0]!) (← exprOf a[1]!) (← exprOf a[2]!)

def bitsOf (j : Json) : Except String UInt64 := do
  match (← j.getStr?).toNat? with
  | some n => pure (normZ n.toUInt64)
  | none => throw "bad bits"

def envOf (j : Json) : Except String (Env F) := do
  let o ← j.getObj?
  let cells ← o.toList.mapM fun (k, v) => do
    let slot ← match k.toNat? with | some n => pure n | none => throw "bad slot"
    let c : Cell F := ⟨← (← v.getObjVal? "i").getInt?, ← bitsOf (← v.getObjVal? "d"), ← (← v.getObjVal? "b").getBool?⟩
    pure (slot, c)
  pure fun i => match cells.find? (·.1 == i) with
    | some (_, c) => c
    | none => ⟨0, (0 : UInt64), false⟩

/-! ### JSON out -/

def cvJson : CV F → Json
  | .int n => Json.mkObj [("k", "int"), ("v", toString n)]
  | .flt x => Json.mkObj [("k", "float"), ("v", toString x.toNat)]
  | .dbl x => Json.mkObj [("k", "double"), ("v", toString x.toNat)]
  | .bool b => Json.mkObj [("k", "bool"), ("v", if b then "1" else "0")]

def pvJson : PV F → Json
  | .int n => Json.mkObj [("k", "int"), ("v", toString n)]
  | .float x => Json.mkObj [("k", "float"), ("v", toString x.toNat)]
  | .bool b => Json.mkObj [("k", "bool"), ("v", if b then "1" else "0")]

def optJson {α} (f : α → Json) : Option α → Json
  | some a => f a
  | none => Json.null

def cvOf (j : Json) : Except String (CV F) := do
  let k ← (← j.getObjVal? "k").getStr?
  let v ← (← j.getObjVal? "v").getStr?
  match k with
  | "int" => match v.toInt? with | some n => pure (.int n) | none => throw "bad int"
  | "float" => match v.toNat? with | some n => pure (.flt (normZ n.toUInt64)) | none => throw "bad bits"
  | "double" => match v.toNat? with | some n => pure (.dbl (normZ n.toUInt64)) | none => throw "bad bits"
  | "bool" => pure (.bool (v == "1"))
  | _ => throw s!"bad value kind {k}"

/-! ### a parser for the emitted expression language (Lean owns the meaning of the text) -/

structure LeafInfo where
  text : String
  ty : CT
  slot : Nat
  /-- the operand's C++ type is `std::size_t` (the implementation took the value from an unsigned expression);
  `ty` is then what it *declared* the value as -/
  uns : Bool := false

/-- The text is read the way a C++ compiler reads it (`readCpp`, Text.lean: maximal-munch tokens, C++ precedence).
`ill`: the text is not the expression somebody meant (a `--` token where two signs were meant, a syntax error) — it
is given a meaning without value (`evalC … = none`: ill-formed C++), the reason is kept in the operator text.
`unk`: outside the subset the reader knows — no verdict. -/
def illPrefix : String := "ill-formed: "

def parseText (leaves : List LeafInfo) (t : String) : Except String CE :=
  match readCpp (leaves.map fun l => (l.ty, l.text, l.slot)) t with
  | .ok e => pure e
  | .ill w => pure (.un (illPrefix ++ w ++ " in '" ++ t ++ "'") (.ilit 0))
  | .unk w => throw s!"cannot read '{t}': {w}"

def FaxVerif.C13.CE.illNote : CE → Option String
  | .leaf _ _ _ => none
  | .ilit _ => none
  | .blit _ => none
  | .bin _ l r => match l.illNote with | some w => some w | none => r.illNote
  | .cast _ e => e.illNote
  | .pow l r => match l.illNote with | some w => some w | none => r.illNote
  | .un op e => if op.startsWith illPrefix then some op else e.illNote

def leavesOf (j : Json) : Except String (List LeafInfo) := do
  let a ← j.getArr?
  let l ← a.toList.mapM fun x => do
    let x ← x.getArr?
    let tn ← x[1]!.getStr?
    if tn == "size_t" then
      pure ({ text := ← x[0]!.getStr?, ty := .int, slot := ← x[2]!.getNat?, uns := true } : LeafInfo)
    else
      pure ({ text := ← x[0]!.getStr?, ty := ← ctOf tn, slot := ← x[2]!.getNat? } : LeafInfo)
  pure (l.toArray.qsort (fun a b => a.text.length > b.text.length)).toList

/-! ### forms -/

inductive FormE
  | plain (e : Expr)
  | cond (t a b : Expr)
  | agg (seed : Expr) (u : Upd)
  /-- a conditional used INSIDE arithmetic: `body` refers to the value of `a if t else b` through the operand in slot `ifSlot` -/
  | condx (t a b body : Expr)

def formOf (j : Json) : Except String FormE := do
  match ← (← j.getObjVal? "form").getStr? with
  | "plain" => return .plain (← exprOf (← j.getObjVal? "e"))
  | "cond" => return .cond (← exprOf (← j.getObjVal? "t")) (← exprOf (← j.getObjVal? "a")) (← exprOf (← j.getObjVal? "b"))
  | "agg" => return .agg (← exprOf (← j.getObjVal? "seed")) (← updOf (← j.getObjVal? "upd"))
  | "condx" => return .condx (← exprOf (← j.getObjVal? "t")) (← exprOf (← j.getObjVal? "a")) (← exprOf (← j.getObjVal? "b")) (← exprOf (← j.getObjVal? "body"))
  | f => throw s!"unknown form {f}"

def ifSlot : Nat := 99
def ifName : String := "R"
def accName : String := "A"

def jstrs (l : List String) : Json := Json.arr (l.map Json.str).toArray

/-- the hypotheses of theorem `text_denotes` / `text_read`, evaluated on the operand texts at hand (`noBoolNames` is
defined beside the proofs: spelled out here) -/
def operandsUsable (es : List CE) : Bool :=
  let ls := es.flatMap CE.leaves
  (ls.all fun l => atomOk l.2.1) && leavesConsistent ls
    && (ls.all fun l => atomTree l.2.1 != some (.id "true".toList) && atomTree l.2.1 != some (.id "false".toList))

/-- the trees of a list of emitted expressions, in normal form, as text -/
def treesOf (es : List CE) : Json := jstrs (es.map fun e => e.norm.render)

def withTrees (es : List CE) (j : List (String × Json)) : Json :=
  Json.mkObj (j ++ [("trees", treesOf es), ("operandsUsable", operandsUsable es),
    -- the theorem's conclusion, re-run on the model's own text
    ("readsBack", es.all fun e => match readCpp (es.flatMap CE.leaves) e.render with | .ok c => c == e.norm | _ => false)])

def condCEs (o : CondOut) : List CE := [o.test.ce, o.thenRhs, o.elseRhs]

def emitForm (f : FormE) : Json :=
  let err (e : Refusal) := Json.mkObj [("err", e.name)]
  match f with
  | .plain e =>
    match translate e with
    | .ok r => withTrees [r.ce] [("ok", Json.mkObj [("ty", r.ty.name), ("lines", jstrs [r.ce.render])])]
    | .error x => err x
  | .cond t a b =>
    match translate t, translate a, translate b with
    | .ok tr, .ok ar, .ok br =>
      let o := emitCond ifName ifSlot tr ar br
      withTrees (condCEs o) [("ok", Json.mkObj [("ty", o.result.ty.name), ("lines", jstrs (condLines ifName o))])]
    | .error x, _, _ => err x
    | _, .error x, _ => err x
    | _, _, .error x => err x
  | .agg seed u =>
    match translate seed with
    | .error x => err x
    | .ok sr =>
      match emitAgg ifName ifSlot sr u with
      | .ok o => withTrees ([o.seed] ++ (match o.cond with | some c => condCEs c | none => []) ++ [o.updRhs])
          [("ok", Json.mkObj [("ty", o.accTy.name), ("lines", jstrs (aggLines accName ifName o))])]
      | .error x => err x
  | .condx t a b body =>
    match translate t, translate a, translate b, translate (body.retypeAt ifSlot condResultType) with
    | .ok tr, .ok ar, .ok br, .ok r =>
      let o := emitCond ifName ifSlot tr ar br
      withTrees (condCEs o ++ [r.ce]) [("ok", Json.mkObj [("ty", r.ty.name), ("lines", jstrs (condLines ifName o ++ [r.ce.render]))])]
    | .error x, _, _, _ => err x
    | _, .error x, _, _ => err x
    | _, _, .error x, _ => err x
    | _, _, _, .error x => err x

/-! ### the Spec, evaluated on the implementation's output -/

/-- static facts the Spec needs about a form: kind and width demanded, scope and exclusions -/
structure FormFacts where
  kind : PK
  width : Nat
  mustAccept : Bool
  excluded : Bool      -- inside a defect exclusion (A, B, E)

def updExprs : Upd → List Expr
  | .plain e => [e]
  | .cond t a b => [t, a, b]
  | .condIn _ t a b body => [t, a, b, body]

/-- static Python kind of the fold: iterate the kind of the update from the seed's kind to a fixed point -/
def condKindR (rp : Bool) (a b : Expr) : PK := if a.pyKind rp = .float || b.pyKind rp = .float then .float else .int

def aggKind (seed : Expr) (u : Upd) (rp : Bool := true) : PK × Nat :=
  let kindOf (acc : CT) : PK :=
    match u with
    | .plain e => (e.retype acc).pyKind rp
    | .cond _ a b => condKindR rp (a.retype acc) (b.retype acc)
    | .condIn slot _ a b body =>
      let ck := condKindR rp (a.retype acc) (b.retype acc)
      ((body.retype acc).retypeAt slot (match ck with | .float => .double | _ => .int)).pyKind rp
  -- "at least as wide as every value folded in": the accumulator itself is not one of them
  let w : Nat :=
    match u with
    | .plain e => (e.retype .int).width
    | .cond _ a b => condWidth (a.retype .int) (b.retype .int)
    | .condIn slot _ a b body =>
      let cw := condWidth (a.retype .int) (b.retype .int)
      ((body.retype .int).retypeAt slot (match cw with | 0 => .int | 1 => .float | _ => .double)).width
  let k0 := seed.pyKind rp
  let ct (k : PK) : CT := match k with | .int => .int | .bool => .bool | .float => .double
  let k1 := kindOf (ct k0)
  let j1 := if k0 = .float || k1 = .float then PK.float else PK.int
  let k2 := kindOf (ct j1)
  let j2 := if j1 = .float || k2 = .float then PK.float else PK.int
  (j2, max seed.width w)

def factsOf : FormE → FormFacts
  | .plain e => { kind := e.pyKind true, width := e.width, mustAccept := e.mustAccept, excluded := !e.noDefect }
  | .cond t a b =>
    { kind := condKind a b, width := condWidth a b,
      mustAccept := t.mustAccept && a.mustAccept && b.mustAccept,
      excluded := !(t.noFloatMod && a.noFloatMod && b.noFloatMod)
                  || condIntegral a b }
  | .agg seed u =>
    let (k, w) := aggKind seed u
    let es := updExprs u
    { kind := k, width := w,
      mustAccept := seed.mustAccept && es.all (·.mustAccept) && seed.pyKind true != .bool,
      excluded := !(seed.noDefect && es.all (fun e => (e.retype .int).noFloatMod && (e.retype .double).noFloatMod
                        && e.noNegBool))
                  || (match u with
                      | .cond _ a b => condIntegral (a.retype (if k = .float then .double else .int)) (b.retype (if k = .float then .double else .int))
                                       || (k != .float)
                      -- an integer-valued fold that goes through the always-double conditional (exclusion E)
                      | .condIn _ _ _ _ _ => k != .float
                      | .plain _ => false) }
  | .condx _ _ _ _ => { kind := .float, width := 2, mustAccept := false, excluded := true }   -- see factsOfAll

def factsOfCondx (t a b body : Expr) : FormFacts :=
  let ck := condKind a b
  let cw := condWidth a b
  { kind := (body.retypeAt ifSlot (match ck with | .float => .double | _ => .int)).pyKind true,
    width := (body.retypeAt ifSlot (match cw with | 0 => .int | 1 => .float | _ => .double)).width,
    mustAccept := t.mustAccept && a.mustAccept && b.mustAccept && (body.retypeAt ifSlot .double).mustAccept,
    -- integer-valued arms go through the always-double result variable (exclusion E)
    excluded := !(t.noDefect && a.noDefect && b.noDefect && (body.retypeAt ifSlot .double).noDefect) || condIntegral a b }

def factsOfAll : FormE → FormFacts
  | .condx t a b body => factsOfCondx t a b body
  | f => factsOf f

def modNonnegForm (f : FormE) (envs : List (Env F)) : Bool :=
  match f, envs with
  | .plain e, [env] => e.modNonneg env
  | .cond t a b, [env] => t.modNonneg env && a.modNonneg env && b.modNonneg env
  | _, _ => true

/-- reference value: what Python computes -/
def refValue (rp : Bool) (f : FormE) (envs : List (Env F)) : Option (PV F) :=
  match f, envs with
  | .plain e, [env] => evalPy rp env e
  | .cond t a b, [env] => evalCondPy rp env t a b
  | .agg seed u, base :: elems =>
    match evalPy rp base seed with
    | some s => runAggPy rp u s elems
    | none => none
  | .condx t a b body, [env] =>
    match evalCondPy rp env t a b with
    | none => none
    | some r =>
      let env2 : Env F := fun i => if i = ifSlot then ⟨r.toI, r.toF, r.truthy⟩ else env i
      evalPy rp env2 (body.retypeAt ifSlot r.ct)
  | _, _ => none

/-- the implementation's emitted code, parsed -/
inductive ImplCode
  | plain (ty : CT) (e : CE)
  | cond (ty : CT) (c : CondOut)
  | agg (o : AggOut)
  | condx (ty : CT) (c : CondOut) (body : CE)

def implOf (leaves : List LeafInfo) (f : FormE) (j : Json) : Except String ImplCode := do
  let ty ← ctOf (← (← j.getObjVal? "ty").getStr?)
  let txt (k : String) : Except String CE := do parseText leaves (← (← j.getObjVal? k).getStr?)
  let condOut : Except String CondOut := do
    let rty ← ctOf (← (← j.getObjVal? "resTy").getStr?)
    pure { test := ⟨.bool, ← txt "test"⟩, thenRhs := ← txt "then", elseRhs := ← txt "else",
           result := ⟨rty, .leaf rty ifName ifSlot⟩ }
  match f with
  | .plain _ => return .plain ty (← txt "expr")
  | .cond _ _ _ => return .cond ty (← condOut)
  | .condx _ _ _ _ => return .condx ty (← condOut) (← txt "expr")
  | .agg _ _ =>
    let accTy ← ctOf (← (← j.getObjVal? "accTy").getStr?)
    let c ← match j.getObjVal? "test" with
      | .ok _ => do pure (some (← condOut))
      | .error _ => pure none
    return .agg { accTy := accTy, seed := ← txt "seed", cond := c, updRhs := ← txt "upd" }

/-- what the emitted code leaves in the column (declared `ty`) -/
def runImpl (uns : Nat → Bool) (anyUns : Bool) (c : ImplCode) (envs : List (Env F)) : Option (CV F) :=
  match c, envs with
  | .plain ty e, [env] => storeX uns env ty e
  | .cond ty o, [env] => (evalCondX uns env o).map (convert ty)
  | .agg o, base :: elems =>
    -- the operands of an update lambda are element accessors and the accumulator: no unsigned operand is read there
    if anyUns then none else
    match initAggC o base with
    | some a => runAggC ifSlot o a elems
    | none => none
  | .condx ty o body, [env] =>
    match evalCondX uns env o with
    | none => none
    | some r =>
      let env2 : Env F := fun i => if i = ifSlot then ⟨r.toI, r.toD, r.truthy⟩ else env i
      storeX uns env2 ty body
  | _, _ => none

def ImplCode.ces : ImplCode → List CE
  | .plain _ e => [e]
  | .cond _ c => condCEs c
  | .condx _ c b => condCEs c ++ [b]
  | .agg o => [o.seed] ++ (match o.cond with | some c => condCEs c | none => []) ++ [o.updRhs]

def implTy : ImplCode → CT
  | .plain ty _ => ty | .cond ty _ => ty | .agg o => o.accTy | .condx ty _ _ => ty

def ImplCode.illNote : ImplCode → Option String
  | .plain _ e => e.illNote
  | .cond _ c => [c.test.ce, c.thenRhs, c.elseRhs].findSome? CE.illNote
  | .condx _ c b => [c.test.ce, c.thenRhs, c.elseRhs, b].findSome? CE.illNote
  | .agg o => ([o.seed, o.updRhs] ++ (match o.cond with | some c => [c.test.ce, c.thenRhs, c.elseRhs] | none => [])).findSome? CE.illNote

/-- the model's own prediction of the stored value (for the tie with the compiled job) -/
def runModel (f : FormE) (envs : List (Env F)) : Option (CV F) :=
  match f, envs with
  | .plain e, [env] =>
    match translate e with
    | .ok r => (evalC env r.ce).map (convert r.ty)
    | .error _ => none
  | .cond t a b, [env] =>
    match translate t, translate a, translate b with
    | .ok tr, .ok ar, .ok br => evalCondC env (emitCond ifName ifSlot tr ar br)
    | _, _, _ => none
  | .agg seed u, base :: elems =>
    match translate seed with
    | .ok sr =>
      match emitAgg ifName ifSlot sr u with
      | .ok o =>
        match initAggC o base with
        | some a => runAggC ifSlot o a elems
        | none => none
      | .error _ => none
    | .error _ => none
  | .condx t a b body, [env] =>
    match translate t, translate a, translate b, translate (body.retypeAt ifSlot condResultType) with
    | .ok tr, .ok ar, .ok br, .ok r =>
      match evalCondC env (emitCond ifName ifSlot tr ar br) with
      | none => none
      | some v =>
        let env2 : Env F := fun i => if i = ifSlot then ⟨v.toI, v.toD, v.truthy⟩ else env i
        (evalC env2 r.ce).map (convert r.ty)
    | _, _, _, _ => none
  | _, _ => none

def sampleEnvs (f : FormE) (j : Json) : Except String (List (Env F)) := do
  match f with
  | .agg _ _ => (← j.getArr?).toList.mapM envOf
  | _ => return [← envOf j]

def specOn (j : Json) : Except String Json := do
  let f ← formOf j
  let facts := factsOfAll f
  let impl ← j.getObjVal? "impl"
  if let .ok cls := impl.getObjVal? "err" then
    let cls ← cls.getStr?
    -- a refusal generates no job; the property tolerates it only outside the expressions it obliges to accept
    return Json.mkObj [("holds", !facts.mustAccept), ("why", if facts.mustAccept then s!"refused ({cls}) although every operator and operand kind is in the property's scope" else ""),
      ("mustAccept", facts.mustAccept), ("excluded", facts.excluded), ("rows", Json.arr #[])]
  let leaves ← leavesOf (← j.getObjVal? "leaves")
  let samples ← (← j.getObjVal? "samples").getArr?
  let observed : Option (Array Json) := match j.getObjVal? "observed" with | .ok o => o.getArr?.toOption | .error _ => none
  let code : Except String ImplCode := implOf leaves f impl
  let declared ← match code with
    | .ok c => pure (implTy c)
    | .error _ => ctOf (← (← impl.getObjVal? "ty").getStr?)
  let mut rows : Array Json := #[]
  let mut holds : Option Bool := some true
  let mut why := ""
  let kindName := match facts.kind with | .int => "int" | .bool => "bool" | .float => "float"
  let widthName := match facts.width with | 0 => "int" | 1 => "float" | _ => "double"
  let kindWhy := s!"column declared {declared.name} where Python's result is {kindName}-valued and the widest operand folded in is {widthName}"
  let kindBad := !(kindOk declared facts.kind facts.width)
  let mut valueBad := false
  if kindBad then
    holds := some false
    why := kindWhy
  -- the other reading of `**` (CPython: int ** non-negative int is an int): an implementation that keeps such a
  -- power an exact int is not reported either
  let altKind : Option PK := match f with
    | .plain e => some (e.pyKind false)
    | .cond _ a b => some (condKindR false a b)
    | .agg seed u => some (aggKind seed u false).1
    | .condx _ a b body => some ((body.retypeAt ifSlot (match condKindR false a b with | .float => .double | _ => .int)).pyKind false)
  let mut altOk : Bool := match altKind with | some k => kindOk declared k facts.width | none => false
  let mut idx := 0
  for s in samples do
    let envs ← sampleEnvs f s
    -- a sample the compiled job was not run on (null in "observed") is not judged
    let skipped : Bool := match observed with
      | some obs => match obs[idx]? with | some o => o.isNull | none => true
      | none => false
    let inq := modNonnegForm f envs && !skipped
    let py := refValue true f envs
    let cpy := refValue false f envs
    let model := runModel f envs
    let c : Option (CV F) ← match observed with
      | some obs => match obs[idx]? with
        | some o => if o.isNull then pure none else do pure (some (← cvOf o))
        | none => pure none
      | none => match code with
        | .ok c => pure (runImpl (fun i => leaves.any (fun l => l.uns && l.slot == i)) (leaves.any (·.uns)) c envs)
        | .error _ => pure none
    rows := rows.push (Json.mkObj [("c", optJson cvJson c), ("py", optJson pvJson py), ("cpy", optJson pvJson cpy),
      ("model", optJson cvJson model), ("inq", inq)])
    if inq && altOk then
      match cpy, c with
      | some p, some cv => if !(decide (numEq cv p)) || cv.ctype != declared then altOk := false
      | some _, none => altOk := false
      | none, _ => pure ()
    if inq then
      match py with
      | none => pure ()      -- Python raises (ZeroDivisionError): nothing is demanded
      | some p =>
        match c with
        | none =>
          if !valueBad then
            match code, observed with
            | .error e, none => if holds != some false then holds := none; why := s!"emitted text not interpretable: {e}"
            | _, _ =>
              valueBad := true; holds := some false
              let note := match code with | .ok cd => (match cd.illNote with | some w => " [" ++ w ++ "]" | none => "") | .error _ => ""
              why := s!"sample {idx}: the emitted code has no value (ill-formed C++ or undefined behaviour) where Python computes {(pvJson p).compress}" ++ note ++ (if kindBad then "; " ++ kindWhy else "")
        | some cv =>
          if !(decide (ColOk declared facts.kind facts.width cv p)) && !valueBad && (!(decide (numEq cv p)) || cv.ctype != declared) then
            valueBad := true; holds := some false
            why := s!"sample {idx}: column holds {(cvJson cv).compress} (declared {declared.name}), Python computes {(pvJson p).compress}" ++ (if kindBad then "; " ++ kindWhy else "")
    idx := idx + 1
  if holds == some false && altOk then
    holds := some true
    why := "accepted under CPython's reading of ** (int ** non-negative int is an int): " ++ why
  return Json.mkObj [("holds", match holds with | some b => Json.bool b | none => Json.null), ("why", why),
    ("mustAccept", facts.mustAccept), ("excluded", facts.excluded), ("rows", Json.arr rows),
    ("kind", toString (repr facts.kind)), ("width", facts.width),
    ("trees", match code with | .ok c => (match c.illNote with | none => treesOf c.ces | some _ => Json.null) | .error _ => Json.null)]

def handle (line : String) : String :=
  match Json.parse line with
  | .error e => (Json.mkObj [("bad", e)]).compress
  | .ok j =>
    let r : Except String Json := do
      let op ← (← j.getObjVal? "op").getStr?
      if op == "emit" then pure (emitForm (← formOf j))
      else if op == "spec" then specOn j
      else if op == "facts" then
        let f := factsOfAll (← formOf j)
        pure (Json.mkObj [("mustAccept", f.mustAccept), ("excluded", f.excluded), ("kind", toString (repr f.kind)), ("width", f.width)])
      else throw s!"unknown op {op}"
    match r with
    | .ok j => j.compress
    | .error e => (Json.mkObj [("bad", e)]).compress

partial def loopIO (h : IO.FS.Stream) (out : IO.FS.Stream) : IO Unit := do
  let line ← h.getLine
  if line.isEmpty then return ()
  let t := line.trimAscii.toString
  if !t.isEmpty then out.putStrLn (handle t)
  loopIO h out

def main : IO Unit := do
  let out ← IO.getStdout
  loopIO (← IO.getStdin) out
  out.flush
