/-
C13 — helper lemmas (value level).  Property theorems are in Theorems.lean.
-/
import FaxVerif.C13.Spec
set_option linter.unusedSimpArgs false
set_option linter.unusedVariables false
namespace FaxVerif.C13
open FaxVerif.Generated.C13Tables
variable {N : Num}

/-! ### the generated tables, read once -/

theorem lookup_add : lookup binaryOps PyBin.add.astName = some "+" := by decide
theorem lookup_sub : lookup binaryOps PyBin.sub.astName = some "-" := by decide
theorem lookup_mult : lookup binaryOps PyBin.mult.astName = some "*" := by decide
theorem lookup_div : lookup binaryOps PyBin.div.astName = some "/" := by decide
theorem lookup_mod : lookup binaryOps PyBin.mod.astName = some "%" := by decide
theorem lookup_pow : lookup binaryOps PyBin.pow.astName = none := by decide

theorem prio_int : prio .int = some 0 := by decide
theorem prio_float : prio .float = some 1 := by decide
theorem prio_double : prio .double = some 2 := by decide
theorem prio_bool : prio .bool = none := by decide

/-! ### C value / Python value correspondences -/

theorem toPy_isFloat (c : CV N) : c.toPy.isFloat = c.isFloating := by cases c <;> rfl
theorem toPy_toF (c : CV N) : c.toPy.toF = c.toD := by cases c <;> rfl
theorem toPy_toI (c : CV N) (h : c.isFloating = false) : c.toPy.toI = c.toI := by
  cases c <;> first | rfl | (simp [CV.isFloating, CV.ctype, CT.isFloating] at h)
theorem toPy_truthy (c : CV N) : c.toPy.truthy = c.truthy := by cases c <;> rfl
theorem toD_of_integral (c : CV N) (h : c.isFloating = false) : c.toD = N.ofInt c.toI := by
  cases c <;> first | rfl | (simp [CV.isFloating, CV.ctype, CT.isFloating] at h)

theorem mkF_toPy (t : CT) (x : N.D) : (mkF t x : CV N).toPy = .float x := by
  unfold mkF; split <;> rfl
theorem mkF_isFloating (t : CT) (x : N.D) : (mkF t x : CV N).isFloating = true := by
  unfold mkF; split <;> rfl


/-! ### operator by operator: the C++ meaning of the emitted text against Python's meaning of the source

All by case analysis on the static types of the two C++ values (4 × 4) and computation. -/

macro "bash_vals" : tactic => `(tactic|
  (simp [cBin, cUn, cPow, pyBin, pyUn, pyCmp, convert, CV.toPy, CV.isFloating, CV.ctype, CT.isFloating, PV.isFloat,
         PV.toF, PV.toI, PV.truthy, CV.truthy, CV.toD, CV.toI, mkF, wider, b2i] <;>
   (try (intro cv h; subst h; simp [CV.ctype])) <;> (try rfl) <;> (try (simp only [decide_eq_decide]))))

theorem add_sound (rp : Bool) (a b : CV N) :
    (cBin "+" a b).map CV.toPy = pyBin rp .add a.toPy b.toPy ∧
    ∀ cv, cBin "+" a b = some cv → cv.isFloating = (a.isFloating || b.isFloating) := by
  cases a <;> cases b <;> bash_vals

theorem sub_sound (rp : Bool) (a b : CV N) :
    (cBin "-" a b).map CV.toPy = pyBin rp .sub a.toPy b.toPy ∧
    ∀ cv, cBin "-" a b = some cv → cv.isFloating = (a.isFloating || b.isFloating) := by
  cases a <;> cases b <;> bash_vals

theorem mult_sound (rp : Bool) (a b : CV N) :
    (cBin "*" a b).map CV.toPy = pyBin rp .mult a.toPy b.toPy ∧
    ∀ cv, cBin "*" a b = some cv → cv.isFloating = (a.isFloating || b.isFloating) := by
  cases a <;> cases b <;> bash_vals

theorem toPy_isFloat_false (c : CV N) (h : c.isFloating = false) : c.toPy.isFloat = false := by
  rw [toPy_isFloat]; exact h

theorem pyDiv_int (rp : Bool) (a b : PV N) (ha : a.isFloat = false) (hb : b.isFloat = false) :
    pyBin rp .div a b = if b.toI = 0 then none else some (.float (N.div (N.ofInt a.toI) (N.ofInt b.toI))) := by
  simp [pyBin, ha, hb]

theorem pyDiv_float (rp : Bool) (a b : PV N) (h : (a.isFloat || b.isFloat) = true) :
    pyBin rp .div a b = if N.eq b.toF (N.ofInt 0) then none else some (.float (N.div a.toF b.toF)) := by
  simp [pyBin, h]

/-- `/` with the `static_cast<double>` on the left operand (both operands integral): real division -/
theorem div_cast_sound (rp : Bool) (a b : CV N) (ha : a.isFloating = false) (hb : b.isFloating = false)
    (pv : PV N) (h : pyBin rp .div a.toPy b.toPy = some pv) :
    ∃ cv, cBin "/" (convert .double a) b = some cv ∧ cv.toPy = pv ∧ cv.isFloating = true := by
  rw [pyDiv_int rp _ _ (toPy_isFloat_false a ha) (toPy_isFloat_false b hb)] at h
  split at h
  · simp at h
  · simp at h
    subst h
    cases a <;> cases b <;> simp [CV.isFloating, CV.ctype, CT.isFloating] at ha hb <;>
      simp [cBin, convert, CV.isFloating, CV.ctype, CT.isFloating, CV.toD, mkF, wider, CV.toPy, PV.toI, b2i]

/-- `/` without a cast when at least one operand is floating: C++ converts the other one -/
theorem div_nocast_sound (rp : Bool) (a b : CV N) (hf : (a.isFloating || b.isFloating) = true)
    (pv : PV N) (h : pyBin rp .div a.toPy b.toPy = some pv) :
    ∃ cv, cBin "/" a b = some cv ∧ cv.toPy = pv ∧ cv.isFloating = true := by
  rw [pyDiv_float rp _ _ (by rw [toPy_isFloat, toPy_isFloat]; exact hf)] at h
  split at h
  · simp at h
  · simp at h
    subst h
    cases a <;> cases b <;> simp [CV.isFloating, CV.ctype, CT.isFloating] at hf <;>
      simp [cBin, CV.isFloating, CV.ctype, CT.isFloating, CV.toD, mkF, wider, CV.toPy, PV.toF, b2i]

/-- the defect `c100516` repaired: without the cast two integral operands are divided as integers -/
theorem div_nocast_truncates (a b : Int) (hb : b ≠ 0) :
    cBin (N := N) "/" (.int a) (.int b) = some (.int (Int.tdiv a b)) := by
  simp [cBin, CV.isFloating, CV.ctype, CT.isFloating, CV.toI, hb]

/-- `%` on integral operands: C++ truncates toward zero, Python floors; equal on `0 ≤ a ∧ 0 < b` -/
theorem mod_sound (rp : Bool) (a b : CV N) (ha : a.isFloating = false) (hb : b.isFloating = false)
    (h0 : 0 ≤ a.toI) (h1 : 0 < b.toI) :
    ∃ cv, cBin "%" a b = some cv ∧ pyBin rp .mod a.toPy b.toPy = some cv.toPy ∧ cv.isFloating = false := by
  have key : ∀ x y : Int, 0 ≤ x → 0 < y → Int.tmod x y = Int.fmod x y := fun x y hx hy => by
    rw [Int.tmod_eq_emod_of_nonneg hx, Int.fmod_eq_emod_of_nonneg x (Int.le_of_lt hy)]
  have hne : b.toI ≠ 0 := by omega
  refine ⟨.int (Int.tmod a.toI b.toI), ?_, ?_, rfl⟩
  · cases a <;> cases b <;> simp [CV.isFloating, CV.ctype, CT.isFloating] at ha hb <;>
      simp [cBin, CV.isFloating, CV.ctype, CT.isFloating, hne]
  · rw [key _ _ h0 h1]
    cases a <;> cases b <;> simp [CV.isFloating, CV.ctype, CT.isFloating] at ha hb <;>
      (simp [CV.toI] at hne; simp [pyBin, CV.toPy, PV.isFloat, PV.toI, CV.toI, hne])

/-- `%` with a floating operand is not C++ -/
theorem mod_float_illformed (a b : CV N) (hf : (a.isFloating || b.isFloating) = true) :
    cBin "%" a b = none := by
  simp [cBin, hf]

/-- `std::pow` is the real power of the operands converted to a floating type -/
theorem pow_sound (a b : CV N) :
    (cPow a b).toPy = .float (N.pow a.toD b.toD) ∧ (cPow a b).isFloating = true := by
  cases a <;> cases b <;> simp [cPow, CV.toPy, CV.toD, CV.isFloating, CV.ctype, CT.isFloating]

theorem pyPow_real (a b : CV N) (pv : PV N) (h : pyBin true .pow a.toPy b.toPy = some pv) :
    pv = .float (N.pow a.toD b.toD) := by
  cases a <;> cases b <;> simp [pyBin, CV.toPy, PV.isFloat, PV.toF, PV.toI, CV.toD] at h <;>
    first
    | (obtain ⟨_, rfl⟩ := h; rfl)
    | (split at h <;> simp_all [CV.toD])

/-! ### unary operators -/

theorem uadd_sound (a : CV N) :
    (cUn "+" a).map CV.toPy = pyUn .uadd a.toPy ∧ ∀ cv, cUn "+" a = some cv → cv.isFloating = a.isFloating := by
  cases a <;> bash_vals

theorem usub_sound (a : CV N) :
    (cUn "-" a).map CV.toPy = pyUn .usub a.toPy ∧ ∀ cv, cUn "-" a = some cv → cv.isFloating = a.isFloating := by
  cases a <;> bash_vals

theorem not_sound (a : CV N) :
    (cUn "!" a).map CV.toPy = pyUn .not a.toPy ∧ ∀ cv, cUn "!" a = some cv → cv.isFloating = false := by
  cases a <;> bash_vals

/-! ### comparisons -/

theorem lt_sound (a b : CV N) : (cBin "<" a b).map CV.toPy = pyCmp .lt a.toPy b.toPy ∧
    ∀ cv, cBin "<" a b = some cv → cv.isFloating = false := by
  cases a <;> cases b <;> bash_vals
theorem lte_sound (a b : CV N) : (cBin "<=" a b).map CV.toPy = pyCmp .lte a.toPy b.toPy ∧
    ∀ cv, cBin "<=" a b = some cv → cv.isFloating = false := by
  cases a <;> cases b <;> bash_vals
theorem gt_sound (a b : CV N) : (cBin ">" a b).map CV.toPy = pyCmp .gt a.toPy b.toPy ∧
    ∀ cv, cBin ">" a b = some cv → cv.isFloating = false := by
  cases a <;> cases b <;> bash_vals
theorem gte_sound (a b : CV N) : (cBin ">=" a b).map CV.toPy = pyCmp .gte a.toPy b.toPy ∧
    ∀ cv, cBin ">=" a b = some cv → cv.isFloating = false := by
  cases a <;> cases b <;> bash_vals
theorem eq_sound (a b : CV N) : (cBin "==" a b).map CV.toPy = pyCmp .eq a.toPy b.toPy ∧
    ∀ cv, cBin "==" a b = some cv → cv.isFloating = false := by
  cases a <;> cases b <;> bash_vals
theorem noteq_sound (a b : CV N) : (cBin "!=" a b).map CV.toPy = pyCmp .noteq a.toPy b.toPy ∧
    ∀ cv, cBin "!=" a b = some cv → cv.isFloating = false := by
  cases a <;> cases b <;> bash_vals


/-! ### what the emitters produce (read off the generated tables) -/

theorem lookup_uadd : lookup unaryOps PyUn.uadd.astName = some "+" := by decide
theorem lookup_usub : lookup unaryOps PyUn.usub.astName = some "-" := by decide
theorem lookup_not : lookup unaryOps PyUn.not.astName = some "!" := by decide
theorem lookup_invert : lookup unaryOps PyUn.invert.astName = none := by decide
theorem lookup_lt : lookup compareOps PyCmp.lt.astName = some "<" := by decide
theorem lookup_lte : lookup compareOps PyCmp.lte.astName = some "<=" := by decide
theorem lookup_gt : lookup compareOps PyCmp.gt.astName = some ">" := by decide
theorem lookup_gte : lookup compareOps PyCmp.gte.astName = some ">=" := by decide
theorem lookup_eq : lookup compareOps PyCmp.eq.astName = some "==" := by decide
theorem lookup_noteq : lookup compareOps PyCmp.noteq.astName = some "!=" := by decide

theorem mostAccurate_pair (a b : CT) :
    mostAccurate [a, b] =
      (if a = .bool ∨ b = .bool then .error .assertion else .ok (if a.rank < b.rank then b else a)) := by
  cases a <;> cases b <;> rfl

theorem emitBin_add (lr rr r : Rep) (h : emitBin .add lr rr = .ok r) :
    lr.ty ≠ .bool ∧ rr.ty ≠ .bool ∧ r.ce = .bin "+" lr.ce rr.ce ∧
      r.ty.isFloating = (lr.ty.isFloating || rr.ty.isFloating) := by
  obtain ⟨lt, lc⟩ := lr; obtain ⟨rt, rc⟩ := rr
  cases lt <;> cases rt <;>
    simp [emitBin, lookup_add, emitKnownBin, mostAccurate_pair, CT.rank] at h <;>
    (subst h; simp [CT.isFloating])

theorem emitBin_sub (lr rr r : Rep) (h : emitBin .sub lr rr = .ok r) :
    lr.ty ≠ .bool ∧ rr.ty ≠ .bool ∧ r.ce = .bin "-" lr.ce rr.ce ∧
      r.ty.isFloating = (lr.ty.isFloating || rr.ty.isFloating) := by
  obtain ⟨lt, lc⟩ := lr; obtain ⟨rt, rc⟩ := rr
  cases lt <;> cases rt <;>
    simp [emitBin, lookup_sub, emitKnownBin, mostAccurate_pair, CT.rank] at h <;>
    (subst h; simp [CT.isFloating])

theorem emitBin_mult (lr rr r : Rep) (h : emitBin .mult lr rr = .ok r) :
    lr.ty ≠ .bool ∧ rr.ty ≠ .bool ∧ r.ce = .bin "*" lr.ce rr.ce ∧
      r.ty.isFloating = (lr.ty.isFloating || rr.ty.isFloating) := by
  obtain ⟨lt, lc⟩ := lr; obtain ⟨rt, rc⟩ := rr
  cases lt <;> cases rt <;>
    simp [emitBin, lookup_mult, emitKnownBin, mostAccurate_pair, CT.rank] at h <;>
    (subst h; simp [CT.isFloating])

theorem emitBin_mod (lr rr r : Rep) (h : emitBin .mod lr rr = .ok r) :
    lr.ty ≠ .bool ∧ rr.ty ≠ .bool ∧ r.ce = .bin "%" lr.ce rr.ce ∧
      r.ty.isFloating = (lr.ty.isFloating || rr.ty.isFloating) := by
  obtain ⟨lt, lc⟩ := lr; obtain ⟨rt, rc⟩ := rr
  cases lt <;> cases rt <;>
    simp [emitBin, lookup_mod, emitKnownBin, mostAccurate_pair, CT.rank] at h <;>
    (subst h; simp [CT.isFloating])

theorem emitBin_div (lr rr r : Rep) (h : emitBin .div lr rr = .ok r) :
    lr.ty ≠ .bool ∧ rr.ty ≠ .bool ∧ r.ty = .double ∧
      r.ce = .bin "/" (if lr.ty.isFloating || rr.ty.isFloating then lr.ce else .cast .double lr.ce) rr.ce := by
  obtain ⟨lt, lc⟩ := lr; obtain ⟨rt, rc⟩ := rr
  cases lt <;> cases rt <;>
    simp [emitBin, lookup_div, emitKnownBin, mostAccurate_pair, CT.rank] at h <;>
    (subst h; simp [CT.isFloating])

theorem emitBin_pow (lr rr r : Rep) (h : emitBin .pow lr rr = .ok r) :
    r = ⟨.double, .pow lr.ce rr.ce⟩ := by
  simp [emitBin, lookup_pow] at h
  exact h.symm

theorem isFloating_of_ne_bool_false (t : CT) (h : t.isFloating = false) (hb : t ≠ .bool) : t = .int := by
  cases t <;> simp_all [CT.isFloating]


/-! ### the compositional argument -/

/-- the statement proved by induction -/
def Sound (N : Num) (e : Expr) (r : Rep) : Prop :=
  r.ty.isFloating = e.isFloatKind ∧
  ∀ env : Env N, e.modNonneg env = true → ∀ pv, evalPy true env e = some pv →
    ∃ cv, evalC env r.ce = some cv ∧ cv.toPy = pv ∧ cv.isFloating = r.ty.isFloating

theorem isFloatKind_bin (op : PyBin) (l r : Expr) :
    (Expr.bin op l r).isFloatKind = (op = .div || op = .pow || l.isFloatKind || r.isFloatKind) := by
  simp only [Expr.isFloatKind, Expr.pyKind]
  cases op <;> simp <;> split <;> simp_all

theorem sound_arith (op : PyBin) (txt : String) (l r : Expr) (lr rr res : Rep)
    (hop : op = .add ∨ op = .sub ∨ op = .mult)
    (hc : ∀ a b : CV N, (cBin txt a b).map CV.toPy = pyBin true op a.toPy b.toPy ∧
        ∀ cv, cBin txt a b = some cv → cv.isFloating = (a.isFloating || b.isFloating))
    (he : res.ce = .bin txt lr.ce rr.ce ∧ res.ty.isFloating = (lr.ty.isFloating || rr.ty.isFloating))
    (hl : Sound N l lr) (hr : Sound N r rr) : Sound N (.bin op l r) res := by
  obtain ⟨hce, hty⟩ := he
  refine ⟨?_, ?_⟩
  · rw [hty, hl.1, hr.1, isFloatKind_bin]
    rcases hop with h | h | h <;> subst h <;> simp
  · intro env hm pv hpv
    have hm' : l.modNonneg env = true ∧ r.modNonneg env = true := by
      simp only [Expr.modNonneg, Bool.and_eq_true] at hm; exact hm.1
    simp only [evalPy] at hpv
    cases hpl : evalPy true env l with
    | none => simp [hpl] at hpv
    | some pl =>
      cases hpr : evalPy true env r with
      | none => simp [hpl, hpr] at hpv
      | some pr =>
        simp only [hpl, hpr] at hpv
        obtain ⟨cl, hcl, hcl2, hcl3⟩ := hl.2 env hm'.1 pl hpl
        obtain ⟨cr, hcr, hcr2, hcr3⟩ := hr.2 env hm'.2 pr hpr
        subst hcl2 hcr2
        have := hc cl cr
        rw [hpv] at this
        cases hcb : cBin txt cl cr with
        | none => simp [hcb] at this
        | some cv =>
          simp [hcb] at this
          refine ⟨cv, ?_, this.1, ?_⟩
          · simp only [hce, evalC, hcl, hcr, hcb]
          · rw [this.2, hty, hcl3, hcr3]

theorem modNonneg_bin {op : PyBin} {l r : Expr} {env : Env N} (hm : (Expr.bin op l r).modNonneg env = true) :
    l.modNonneg env = true ∧ r.modNonneg env = true := by
  simp only [Expr.modNonneg, Bool.and_eq_true] at hm; exact hm.1

/-- two sub-results, evaluated -/
theorem eval_two {l r : Expr} {lr rr : Rep} (hl : Sound N l lr) (hr : Sound N r rr) (env : Env N)
    (hml : l.modNonneg env = true) (hmr : r.modNonneg env = true) (f : PV N → PV N → Option (PV N)) (pv : PV N)
    (hpv : (match evalPy true env l, evalPy true env r with
            | some a, some b => f a b
            | _, _ => none) = some pv) :
    ∃ cl cr : CV N, evalC env lr.ce = some cl ∧ evalC env rr.ce = some cr ∧ f cl.toPy cr.toPy = some pv ∧
      cl.isFloating = lr.ty.isFloating ∧ cr.isFloating = rr.ty.isFloating ∧
      evalPy true env l = some cl.toPy ∧ evalPy true env r = some cr.toPy := by
  cases hpl : evalPy true env l with
  | none => simp [hpl] at hpv
  | some pl =>
    cases hpr : evalPy true env r with
    | none => simp [hpl, hpr] at hpv
    | some pr =>
      simp only [hpl, hpr] at hpv
      obtain ⟨cl, hcl, hcl2, hcl3⟩ := hl.2 env hml pl hpl
      obtain ⟨cr, hcr, hcr2, hcr3⟩ := hr.2 env hmr pr hpr
      subst hcl2 hcr2
      exact ⟨cl, cr, hcl, hcr, hpv, hcl3, hcr3, rfl, rfl⟩

theorem sound_div (l r : Expr) (lr rr res : Rep)
    (he : lr.ty ≠ .bool ∧ rr.ty ≠ .bool ∧ res.ty = .double ∧
      res.ce = .bin "/" (if lr.ty.isFloating || rr.ty.isFloating then lr.ce else .cast .double lr.ce) rr.ce)
    (hl : Sound N l lr) (hr : Sound N r rr) : Sound N (.bin .div l r) res := by
  obtain ⟨_, _, hty, hce⟩ := he
  refine ⟨by rw [hty, isFloatKind_bin]; simp [CT.isFloating], ?_⟩
  intro env hm pv hpv
  simp only [evalPy] at hpv
  obtain ⟨cl, cr, hcl, hcr, hf, hcl3, hcr3, _, _⟩ :=
    eval_two hl hr env (modNonneg_bin hm).1 (modNonneg_bin hm).2 _ pv hpv
  by_cases hfl : (lr.ty.isFloating || rr.ty.isFloating) = true
  · obtain ⟨cv, h1, h2, h3⟩ := div_nocast_sound true cl cr (by rw [hcl3, hcr3]; exact hfl) pv hf
    refine ⟨cv, ?_, h2, by rw [h3, hty]; rfl⟩
    simp only [hce, hfl, if_true, evalC, hcl, hcr, h1]
  · have hfl' : (lr.ty.isFloating || rr.ty.isFloating) = false := by simpa using hfl
    have h2 : lr.ty.isFloating = false ∧ rr.ty.isFloating = false := by simpa using hfl'
    obtain ⟨cv, h1, h2', h3⟩ := div_cast_sound true cl cr (by rw [hcl3]; exact h2.1) (by rw [hcr3]; exact h2.2) pv hf
    refine ⟨cv, ?_, h2', by rw [h3, hty]; rfl⟩
    simp [hce, hfl', evalC, hcl, hcr, h1]

theorem sound_pow (l r : Expr) (lr rr : Rep)
    (hl : Sound N l lr) (hr : Sound N r rr) : Sound N (.bin .pow l r) ⟨.double, .pow lr.ce rr.ce⟩ := by
  refine ⟨by rw [isFloatKind_bin]; simp [CT.isFloating], ?_⟩
  intro env hm pv hpv
  simp only [evalPy] at hpv
  obtain ⟨cl, cr, hcl, hcr, hf, _, _, _, _⟩ :=
    eval_two hl hr env (modNonneg_bin hm).1 (modNonneg_bin hm).2 _ pv hpv
  have hf' := pyPow_real cl cr pv hf
  subst hf'
  exact ⟨cPow cl cr, by simp only [evalC, hcl, hcr], (pow_sound cl cr).1, by rw [(pow_sound cl cr).2]; rfl⟩

theorem sound_mod (l r : Expr) (lr rr res : Rep)
    (he : lr.ty ≠ .bool ∧ rr.ty ≠ .bool ∧ res.ce = .bin "%" lr.ce rr.ce ∧
      res.ty.isFloating = (lr.ty.isFloating || rr.ty.isFloating))
    (hnf : (l.isFloatKind || r.isFloatKind) = false)
    (hl : Sound N l lr) (hr : Sound N r rr) : Sound N (.bin .mod l r) res := by
  obtain ⟨_, _, hce, hty⟩ := he
  have hfl : lr.ty.isFloating = false ∧ rr.ty.isFloating = false := by
    rw [hl.1, hr.1]; simpa using hnf
  refine ⟨by rw [hty, hl.1, hr.1, isFloatKind_bin]; simp, ?_⟩
  intro env hm pv hpv
  have hm2 := hm
  simp only [Expr.modNonneg, Bool.and_eq_true] at hm2
  simp only [evalPy] at hpv
  obtain ⟨cl, cr, hcl, hcr, hf, hcl3, hcr3, hel, her⟩ :=
    eval_two hl hr env (modNonneg_bin hm).1 (modNonneg_bin hm).2 _ pv hpv
  have hm3 := hm2.2
  simp only [hel, her] at hm3
  have hcf : cl.isFloating = false ∧ cr.isFloating = false := by rw [hcl3, hcr3]; exact hfl
  simp [toPy_isFloat, hcf.1, hcf.2, toPy_toI] at hm3
  obtain ⟨cv, h1, h2, h3⟩ := mod_sound true cl cr hcf.1 hcf.2 hm3.1 hm3.2
  rw [h2] at hf
  simp at hf
  refine ⟨cv, by simp only [hce, evalC, hcl, hcr, h1], hf, ?_⟩
  rw [h3, hty, hfl.1, hfl.2]; rfl

theorem sound_un_keep (op : PyUn) (txt : String) (e : Expr) (er : Rep)
    (hop : op = .uadd ∨ op = .usub)
    (hc : ∀ a : CV N, (cUn txt a).map CV.toPy = pyUn op a.toPy ∧ ∀ cv, cUn txt a = some cv → cv.isFloating = a.isFloating)
    (he : Sound N e er) : Sound N (.un op e) ⟨er.ty, .un txt er.ce⟩ := by
  refine ⟨?_, ?_⟩
  · show er.ty.isFloating = _
    rw [he.1]
    simp only [Expr.isFloatKind, Expr.pyKind]
    rcases hop with h | h <;> subst h <;> simp <;> split <;> simp_all
  · intro env hm pv hpv
    simp only [Expr.modNonneg] at hm
    simp only [evalPy] at hpv
    cases hpe : evalPy true env e with
    | none => simp [hpe] at hpv
    | some pe =>
      simp only [hpe] at hpv
      obtain ⟨ce, h1, h2, h3⟩ := he.2 env hm pe hpe
      subst h2
      have := hc ce
      rw [hpv] at this
      cases hcu : cUn txt ce with
      | none => simp [hcu] at this
      | some cv =>
        simp [hcu] at this
        exact ⟨cv, by simp only [evalC, h1, hcu], this.1, by rw [this.2, h3]⟩

theorem sound_not (e : Expr) (er : Rep)
    (he : Sound N e er) : Sound N (.un .not e) ⟨.bool, .un "!" er.ce⟩ := by
  refine ⟨?_, ?_⟩
  · simp [Expr.isFloatKind, Expr.pyKind, CT.isFloating]
  · intro env hm pv hpv
    simp only [Expr.modNonneg] at hm
    simp only [evalPy] at hpv
    cases hpe : evalPy true env e with
    | none => simp [hpe] at hpv
    | some pe =>
      simp only [hpe] at hpv
      obtain ⟨ce, h1, h2, h3⟩ := he.2 env hm pe hpe
      subst h2
      have := not_sound ce
      rw [hpv] at this
      cases hcu : cUn "!" ce with
      | none => simp [hcu] at this
      | some cv =>
        simp [hcu] at this
        exact ⟨cv, by simp only [evalC, h1, hcu], this.1, by rw [this.2]; rfl⟩

theorem sound_cmp (op : PyCmp) (txt : String) (l r : Expr) (lr rr : Rep)
    (hc : ∀ a b : CV N, (cBin txt a b).map CV.toPy = pyCmp op a.toPy b.toPy ∧
        ∀ cv, cBin txt a b = some cv → cv.isFloating = false)
    (hl : Sound N l lr) (hr : Sound N r rr) : Sound N (.cmp op l r) ⟨.bool, .bin txt lr.ce rr.ce⟩ := by
  refine ⟨by simp [Expr.isFloatKind, Expr.pyKind, CT.isFloating], ?_⟩
  intro env hm pv hpv
  simp only [Expr.modNonneg, Bool.and_eq_true] at hm
  simp only [evalPy] at hpv
  obtain ⟨cl, cr, hcl, hcr, hf, _, _, _, _⟩ := eval_two hl hr env hm.1 hm.2 _ pv hpv
  have := hc cl cr
  rw [hf] at this
  cases hcb : cBin txt cl cr with
  | none => simp [hcb] at this
  | some cv =>
    simp [hcb] at this
    exact ⟨cv, by simp only [evalC, hcl, hcr, hcb], this.1, by rw [this.2]; rfl⟩

theorem sound_leaf (t : CT) (s : String) (i : Nat) : Sound N (.leaf t s i) ⟨t, .leaf t s i⟩ := by
  refine ⟨by cases t <;> rfl, ?_⟩
  intro env _ pv hpv
  simp only [evalPy, Option.some.injEq] at hpv
  exact ⟨leafVal t (env i), rfl, hpv, by cases t <;> rfl⟩

theorem sound_int (n : Int) : Sound N (.int n) ⟨.int, .ilit n⟩ := by
  refine ⟨rfl, ?_⟩
  intro env _ pv hpv
  simp only [evalPy, Option.some.injEq] at hpv
  exact ⟨.int n, rfl, hpv, rfl⟩

theorem sound_flt (s : String) (i : Nat) : Sound N (.flt s i) ⟨.double, .leaf .double s i⟩ := by
  refine ⟨rfl, ?_⟩
  intro env _ pv hpv
  simp only [evalPy, Option.some.injEq] at hpv
  exact ⟨.dbl (env i).d, rfl, hpv, rfl⟩

theorem sound_bool (b : Bool) : Sound N (.bool b) ⟨.bool, .blit b⟩ := by
  refine ⟨rfl, ?_⟩
  intro env _ pv hpv
  simp only [evalPy, Option.some.injEq] at hpv
  exact ⟨.bool b, rfl, hpv, rfl⟩

/-- The compositional theorem: by induction on the source expression. -/
theorem translate_sound (e : Expr) : ∀ r, translate e = .ok r → e.noFloatMod = true →
    Sound N e r := by
  induction e with
  | leaf t s i => intro r h _; simp only [translate, Except.ok.injEq] at h; subst h; exact sound_leaf t s i
  | int n => intro r h _; simp only [translate, Except.ok.injEq] at h; subst h; exact sound_int n
  | flt s i => intro r h _; simp only [translate, Except.ok.injEq] at h; subst h; exact sound_flt s i
  | bool b => intro r h _; simp only [translate, Except.ok.injEq] at h; subst h; exact sound_bool b
  | bin op l r ihl ihr =>
    intro res h hfm
    simp only [Expr.noFloatMod, Bool.and_eq_true] at hfm
    simp only [translate] at h
    split at h
    · cases hl : translate l with
      | error x => simp [hl] at h
      | ok lr =>
        cases hr : translate r with
        | error x => simp [hl, hr] at h
        | ok rr =>
          simp only [hl, hr] at h
          have sl := ihl lr hl hfm.1.1
          have sr := ihr rr hr hfm.1.2
          cases op with
          | add => have := emitBin_add lr rr res h; exact sound_arith .add "+" l r lr rr res (Or.inl rfl) (add_sound true) ⟨this.2.2.1, this.2.2.2⟩ sl sr
          | sub => have := emitBin_sub lr rr res h; exact sound_arith .sub "-" l r lr rr res (Or.inr (Or.inl rfl)) (sub_sound true) ⟨this.2.2.1, this.2.2.2⟩ sl sr
          | mult => have := emitBin_mult lr rr res h; exact sound_arith .mult "*" l r lr rr res (Or.inr (Or.inr rfl)) (mult_sound true) ⟨this.2.2.1, this.2.2.2⟩ sl sr
          | div => exact sound_div l r lr rr res (emitBin_div lr rr res h) sl sr
          | mod =>
            refine sound_mod l r lr rr res (emitBin_mod lr rr res h) ?_ sl sr
            have := hfm.2; simpa using this
          | pow => rw [emitBin_pow lr rr res h]; exact sound_pow l r lr rr sl sr
          | _ => simp [emitBin, lookup, binaryOps, PyBin.astName] at h
    · simp at h
  | un op e ih =>
    intro res h hfm
    simp only [Expr.noFloatMod] at hfm
    simp only [translate] at h
    split at h
    · cases he : translate e with
      | error x => simp [he] at h
      | ok er =>
        simp only [he] at h
        have se := ih er he hfm
        cases op with
        | uadd =>
          simp only [emitUn, lookup_uadd, Except.ok.injEq, reduceCtorEq, ↓reduceIte] at h; subst h
          exact sound_un_keep .uadd "+" e er (Or.inl rfl) uadd_sound se
        | usub =>
          simp only [emitUn, lookup_usub, Except.ok.injEq, reduceCtorEq, ↓reduceIte] at h; subst h
          exact sound_un_keep .usub "-" e er (Or.inr rfl) usub_sound se
        | not =>
          simp only [emitUn, lookup_not, Except.ok.injEq, ↓reduceIte] at h; subst h
          exact sound_not e er se
        | invert => simp [emitUn, lookup_invert] at h
    · simp at h
  | cmp op l r ihl ihr =>
    intro res h hfm
    simp only [Expr.noFloatMod, Bool.and_eq_true] at hfm
    simp only [translate] at h
    cases hl : translate l with
    | error x => simp [hl] at h
    | ok lr =>
      cases hr : translate r with
      | error x => simp [hl, hr] at h
      | ok rr =>
        simp only [hl, hr] at h
        have sl := ihl lr hl hfm.1
        have sr := ihr rr hr hfm.2
        cases op with
        | lt => simp only [emitCmp, lookup_lt, Except.ok.injEq] at h; subst h; exact sound_cmp .lt "<" l r lr rr lt_sound sl sr
        | lte => simp only [emitCmp, lookup_lte, Except.ok.injEq] at h; subst h; exact sound_cmp .lte "<=" l r lr rr lte_sound sl sr
        | gt => simp only [emitCmp, lookup_gt, Except.ok.injEq] at h; subst h; exact sound_cmp .gt ">" l r lr rr gt_sound sl sr
        | gte => simp only [emitCmp, lookup_gte, Except.ok.injEq] at h; subst h; exact sound_cmp .gte ">=" l r lr rr gte_sound sl sr
        | eq => simp only [emitCmp, lookup_eq, Except.ok.injEq] at h; subst h; exact sound_cmp .eq "==" l r lr rr eq_sound sl sr
        | noteq => simp only [emitCmp, lookup_noteq, Except.ok.injEq] at h; subst h; exact sound_cmp .noteq "!=" l r lr rr noteq_sound sl sr
        | _ => simp [emitCmp, lookup, compareOps, PyCmp.astName] at h

/-! ### static facts about the declared type -/

theorem rank_le_two (t : CT) : t.rank ≤ 2 := by cases t <;> decide

/-- what a known arithmetic operator returns, in one statement -/
theorem emitKnown_shape (op : PyBin) (hop : op = .add ∨ op = .sub ∨ op = .mult ∨ op = .div ∨ op = .mod)
    (lr rr res : Rep) (h : emitBin op lr rr = .ok res) :
    lr.ty ≠ .bool ∧ rr.ty ≠ .bool ∧
      res.ty = (if op = .div then .double else if lr.ty.rank < rr.ty.rank then rr.ty else lr.ty) := by
  obtain ⟨lt, lc⟩ := lr; obtain ⟨rt, rc⟩ := rr
  rcases hop with h' | h' | h' | h' | h' <;> subst h' <;> cases lt <;> cases rt <;>
    simp [emitBin, lookup_add, lookup_sub, lookup_mult, lookup_div, lookup_mod, emitKnownBin, mostAccurate_pair, CT.rank] at h <;>
    (subst h; simp [CT.rank])

/-- static: the declared type is at least as wide as every operand that flows into the value -/
theorem translate_width (e : Expr) : ∀ r, translate e = .ok r → e.width ≤ r.ty.rank := by
  induction e with
  | leaf t s i => intro r h; simp only [translate, Except.ok.injEq] at h; subst h; simp [Expr.width]
  | int n => intro r h; simp only [translate, Except.ok.injEq] at h; subst h; simp [Expr.width]
  | flt s i => intro r h; simp only [translate, Except.ok.injEq] at h; subst h; simp [Expr.width]
  | bool b => intro r h; simp only [translate, Except.ok.injEq] at h; subst h; simp [Expr.width]
  | bin op l r ihl ihr =>
    intro res h
    simp only [translate] at h
    split at h
    · cases hl : translate l with
      | error x => simp [hl] at h
      | ok lr =>
        cases hr : translate r with
        | error x => simp [hl, hr] at h
        | ok rr =>
          simp only [hl, hr] at h
          have wl := ihl lr hl
          have wr := ihr rr hr
          have h2l := rank_le_two lr.ty
          have h2r := rank_le_two rr.ty
          simp only [Expr.width]
          by_cases hp : op = .pow
          · subst hp; rw [emitBin_pow lr rr res h]; simp [CT.rank]; omega
          · by_cases hk : op = .add ∨ op = .sub ∨ op = .mult ∨ op = .div ∨ op = .mod
            · obtain ⟨_, _, hty⟩ := emitKnown_shape op hk lr rr res h
              rw [hty]
              split
              · simp [CT.rank]; omega
              · split <;> omega
            · cases op <;> simp at hp hk <;> simp [emitBin, lookup, binaryOps, PyBin.astName] at h
    · simp at h
  | un op e ih =>
    intro res h
    simp only [translate] at h
    split at h
    · cases he : translate e with
      | error x => simp [he] at h
      | ok er =>
        simp only [he] at h
        have := ih er he
        cases op <;> simp [emitUn, lookup_uadd, lookup_usub, lookup_not, lookup_invert] at h <;>
          (subst h; simp [Expr.width]; try exact this)
    · simp at h
  | cmp op l r _ _ => intro res h; simp [Expr.width]

/-! ### storing into the declared type -/

theorem cmp_is_bool (txt : String) (h : txt = "<" ∨ txt = "<=" ∨ txt = ">" ∨ txt = ">=" ∨ txt = "==" ∨ txt = "!=")
    (a b cv : CV N) (hc : cBin txt a b = some cv) : ∃ x, cv = .bool x := by
  rcases h with h | h | h | h | h | h <;> subst h <;> cases a <;> cases b <;>
    simp [cBin, CV.isFloating, CV.ctype, CT.isFloating] at hc <;> exact ⟨_, hc.symm⟩

/-- storing a value whose static C++ type agrees in kind with the declared type keeps its Python value -/
theorem store_numEq (declared : CT) (cv : CV N) (hk : cv.isFloating = declared.isFloating)
    (hb : declared = .bool → cv.toI = 0 ∨ cv.toI = 1) : numEq (convert declared cv) cv.toPy := by
  cases declared <;> cases cv <;> simp [CV.isFloating, CV.ctype, CT.isFloating] at hk <;>
    simp [numEq, convert, CV.toPy, CV.isFloating, CV.ctype, CT.isFloating, CV.toI, CV.toD, CV.truthy, b2i]
  all_goals
    first
    | (rename_i n
       have := hb rfl
       simp [CV.toI] at this
       rcases this with h | h <;> subst h <;> simp)
    | (rename_i b; cases b <;> simp)

/-- the translator types a value `bool` only if Python's value is a bool up to unary `+`/`-`; outside
exclusion B such a value is 0 or 1 -/
def BoolInv (N : Num) (e : Expr) (r : Rep) : Prop :=
  r.ty = .bool → e.boolish = true ∧
    (e.noNegBool = true → ∀ (env : Env N) cv, evalC env r.ce = some cv → cv.isFloating = false → (cv.toI = 0 ∨ cv.toI = 1))

theorem b2i_01 (b : Bool) : b2i b = 0 ∨ b2i b = 1 := by cases b <;> simp [b2i]

theorem translate_boolInv (e : Expr) : ∀ r, translate e = .ok r → BoolInv N e r := by
  induction e with
  | leaf t s i =>
    intro r h; simp only [translate, Except.ok.injEq] at h; subst h
    intro ht; simp only at ht; subst ht
    refine ⟨rfl, fun _ env cv hc _ => ?_⟩
    simp only [evalC, leafVal, Option.some.injEq] at hc; subst hc; exact b2i_01 _
  | int n => intro r h; simp only [translate, Except.ok.injEq] at h; subst h; intro ht; simp at ht
  | flt s i => intro r h; simp only [translate, Except.ok.injEq] at h; subst h; intro ht; simp at ht
  | bool b =>
    intro r h; simp only [translate, Except.ok.injEq] at h; subst h
    intro _
    refine ⟨rfl, fun _ env cv hc _ => ?_⟩
    simp only [evalC, Option.some.injEq] at hc; subst hc; exact b2i_01 _
  | bin op l r _ _ =>
    intro res h ht
    simp only [translate] at h
    split at h
    · cases hl : translate l with
      | error x => simp [hl] at h
      | ok lr =>
        cases hr : translate r with
        | error x => simp [hl, hr] at h
        | ok rr =>
          simp only [hl, hr] at h
          exfalso
          by_cases hp : op = .pow
          · subst hp; rw [emitBin_pow lr rr res h] at ht; simp at ht
          · by_cases hk : op = .add ∨ op = .sub ∨ op = .mult ∨ op = .div ∨ op = .mod
            · obtain ⟨h1, h2, hty⟩ := emitKnown_shape op hk lr rr res h
              rw [hty] at ht
              split at ht
              · simp at ht
              · split at ht <;> simp_all
            · cases op <;> simp at hp hk <;> simp [emitBin, lookup, binaryOps, PyBin.astName] at h
    · simp at h
  | un op e ih =>
    intro res h ht
    simp only [translate] at h
    split at h
    · cases he : translate e with
      | error x => simp [he] at h
      | ok er =>
        simp only [he] at h
        have ihe := ih er he
        cases op with
        | uadd =>
          simp only [emitUn, lookup_uadd, Except.ok.injEq, reduceCtorEq, ↓reduceIte] at h; subst h
          obtain ⟨hb, hv⟩ := ihe ht
          refine ⟨by simp [Expr.boolish, hb], fun hn env cv hc hf => ?_⟩
          simp only [Expr.noNegBool, Bool.and_eq_true] at hn
          simp only [evalC] at hc
          cases h0 : evalC env er.ce with
          | none => simp [h0] at hc
          | some c0 =>
            simp only [h0] at hc
            have hf0 : c0.isFloating = false := by rw [← (uadd_sound c0).2 cv hc]; exact hf
            have := hv hn.1 env c0 h0 hf0
            cases c0 <;> simp [cUn] at hc <;> subst hc <;> simp_all [CV.toI, CV.isFloating, CV.ctype, CT.isFloating]
        | usub =>
          simp only [emitUn, lookup_usub, Except.ok.injEq, reduceCtorEq, ↓reduceIte] at h; subst h
          obtain ⟨hb, _⟩ := ihe ht
          refine ⟨by simp [Expr.boolish, hb], fun hn => ?_⟩
          simp [Expr.noNegBool, hb] at hn
        | not =>
          simp only [emitUn, lookup_not, Except.ok.injEq, ↓reduceIte] at h; subst h
          refine ⟨by simp [Expr.boolish], fun _ env cv hc _ => ?_⟩
          simp only [evalC] at hc
          cases h0 : evalC env er.ce with
          | none => simp [h0] at hc
          | some c0 =>
            simp [h0, cUn] at hc; subst hc; exact b2i_01 _
        | invert => simp [emitUn, lookup_invert] at h
    · simp at h
  | cmp op l r _ _ =>
    intro res h _
    refine ⟨by simp [Expr.boolish, Expr.pyKind], fun _ env cv hc _ => ?_⟩
    simp only [translate] at h
    cases hl : translate l with
    | error x => simp [hl] at h
    | ok lr =>
      cases hr : translate r with
      | error x => simp [hl, hr] at h
      | ok rr =>
        simp only [hl, hr] at h
        have key : ∀ txt, (txt = "<" ∨ txt = "<=" ∨ txt = ">" ∨ txt = ">=" ∨ txt = "==" ∨ txt = "!=") →
            res = ⟨.bool, .bin txt lr.ce rr.ce⟩ → cv.toI = 0 ∨ cv.toI = 1 := by
          intro txt htxt hres
          subst hres
          simp only [evalC] at hc
          cases h1 : evalC env lr.ce with
          | none => simp [h1] at hc
          | some a =>
            cases h2 : evalC env rr.ce with
            | none => simp [h1, h2] at hc
            | some b =>
              simp only [h1, h2] at hc
              obtain ⟨x, hx⟩ := cmp_is_bool txt htxt a b cv hc
              subst hx; exact b2i_01 _
        cases op <;> simp [emitCmp, lookup_lt, lookup_lte, lookup_gt, lookup_gte, lookup_eq, lookup_noteq] at h <;>
          first
          | (exact key _ (by simp) h.symm)
          | (simp [lookup, compareOps, PyCmp.astName] at h)

/-! ### acceptance -/

/-- a trivial interpretation, to use value-independent consequences of the value-level theorems -/
def unitNum : Num :=
  { D := Unit, add := fun _ _ => (), sub := fun _ _ => (), mul := fun _ _ => (), div := fun _ _ => (),
    pow := fun _ _ => (), pymod := fun _ _ => (), neg := fun _ => (), lt := fun _ _ => false,
    le := fun _ _ => true, eq := fun _ _ => true, ofInt := fun _ => (), toInt := fun _ => 0 }

theorem emitBin_ok (op : PyBin) (hop : op = .add ∨ op = .sub ∨ op = .mult ∨ op = .div ∨ op = .mod ∨ op = .pow)
    (lr rr : Rep) (hl : lr.ty ≠ .bool) (hr : rr.ty ≠ .bool) : ∃ res, emitBin op lr rr = .ok res := by
  obtain ⟨lt, lc⟩ := lr; obtain ⟨rt, rc⟩ := rr
  rcases hop with h | h | h | h | h | h <;> subst h <;> cases lt <;> cases rt <;>
    simp_all [emitBin, lookup_add, lookup_sub, lookup_mult, lookup_div, lookup_mod, lookup_pow, emitKnownBin,
      mostAccurate_pair, CT.rank]

theorem emitBin_pow_ok (lr rr : Rep) : emitBin .pow lr rr = .ok ⟨.double, .pow lr.ce rr.ce⟩ := by
  simp [emitBin, lookup_pow]

/-- every expression the property obliges the translator to accept is accepted -/
theorem translate_accepts (e : Expr) : e.mustAccept = true → ∃ r, translate e = .ok r := by
  unfold Expr.mustAccept
  induction e with
  | leaf t s i => intro _; exact ⟨_, rfl⟩
  | int n => intro _; exact ⟨_, rfl⟩
  | flt s i => intro _; exact ⟨_, rfl⟩
  | bool b => intro _; exact ⟨_, rfl⟩
  | bin op l r ihl ihr =>
    intro h
    simp only [Expr.opsInScope, Expr.noBoolArith, Bool.and_eq_true] at h
    obtain ⟨⟨⟨hol, hor⟩, hop⟩, ⟨hbl, hbr⟩, hb⟩ := h
    obtain ⟨lr, hl⟩ := ihl (by simp [hol, hbl])
    obtain ⟨rr, hr⟩ := ihr (by simp [hor, hbr])
    have hop' : op = .add ∨ op = .sub ∨ op = .mult ∨ op = .div ∨ op = .mod ∨ op = .pow := by
      simpa [or_assoc] using hop
    have hh : binHandled op = true := by
      rcases hop' with h | h | h | h | h | h <;> subst h <;> decide
    simp only [translate, hh, if_true, hl, hr]
    by_cases hp : op = .pow
    · subst hp; exact ⟨_, emitBin_pow_ok lr rr⟩
    · have hb' : l.boolish = false ∧ r.boolish = false := by simpa using hb
      refine emitBin_ok op hop' lr rr ?_ ?_
      · intro ht; have := (translate_boolInv (N := unitNum) l lr hl ht).1; simp [hb'.1] at this
      · intro ht; have := (translate_boolInv (N := unitNum) r rr hr ht).1; simp [hb'.2] at this
  | un op e ih =>
    intro h
    simp only [Expr.opsInScope, Expr.noBoolArith, Bool.and_eq_true] at h
    obtain ⟨⟨ho, hop⟩, hb⟩ := h
    obtain ⟨er, he⟩ := ih (by simp [ho, hb])
    have hop' : op = .uadd ∨ op = .usub ∨ op = .not := by simpa [or_assoc] using hop
    rcases hop' with h | h | h <;> subst h
    · simp [translate, unHandled, he, emitUn, lookup_uadd]
    · simp [translate, unHandled, he, emitUn, lookup_usub]
    · simp [translate, unHandled, he, emitUn, lookup_not]
  | cmp op l r ihl ihr =>
    intro h
    simp only [Expr.opsInScope, Expr.noBoolArith, Bool.and_eq_true] at h
    obtain ⟨⟨⟨hol, hor⟩, hop⟩, hbl, hbr⟩ := h
    obtain ⟨lr, hl⟩ := ihl (by simp [hol, hbl])
    obtain ⟨rr, hr⟩ := ihr (by simp [hor, hbr])
    have hop' : op = .lt ∨ op = .lte ∨ op = .gt ∨ op = .gte ∨ op = .eq ∨ op = .noteq := by simpa [or_assoc] using hop
    rcases hop' with h | h | h | h | h | h <;> subst h
    · simp [translate, hl, hr, emitCmp, lookup_lt]
    · simp [translate, hl, hr, emitCmp, lookup_lte]
    · simp [translate, hl, hr, emitCmp, lookup_gt]
    · simp [translate, hl, hr, emitCmp, lookup_gte]
    · simp [translate, hl, hr, emitCmp, lookup_eq]
    · simp [translate, hl, hr, emitCmp, lookup_noteq]

/-! ### `most_accurate_type` on lists -/

theorem firstMax_spec (b : CT × Nat) (l : List (CT × Nat)) :
    ((firstMax b l) = b ∨ (firstMax b l) ∈ l) ∧ b.2 ≤ (firstMax b l).2 ∧ ∀ x ∈ l, x.2 ≤ (firstMax b l).2 := by
  induction l generalizing b with
  | nil => simp [firstMax]
  | cons x xs ih =>
    simp only [firstMax]
    split
    · obtain ⟨h1, h2, h3⟩ := ih x
      refine ⟨?_, by omega, ?_⟩
      · rcases h1 with h | h
        · right; rw [h]; simp
        · right; simp [h]
      · intro y hy
        simp only [List.mem_cons] at hy
        rcases hy with rfl | hy
        · exact h2
        · exact h3 y hy
    · obtain ⟨h1, h2, h3⟩ := ih b
      refine ⟨?_, h2, ?_⟩
      · rcases h1 with h | h
        · left; exact h
        · right; simp [h]
      · intro y hy
        simp only [List.mem_cons] at hy
        rcases hy with rfl | hy
        · omega
        · exact h3 y hy

theorem withPrio_spec (ts : List CT) (l : List (CT × Nat)) (h : withPrio ts = some l) :
    l.map (·.1) = ts ∧ ∀ x ∈ l, prio x.1 = some x.2 := by
  induction ts generalizing l with
  | nil => simp [withPrio] at h; subst h; simp
  | cons t ts ih =>
    simp only [withPrio] at h
    cases hp : prio t with
    | none => simp [hp] at h
    | some p =>
      cases hw : withPrio ts with
      | none => simp [hp, hw] at h
      | some r =>
        simp [hp, hw] at h
        subst h
        obtain ⟨h1, h2⟩ := ih r hw
        refine ⟨by simp [h1], ?_⟩
        intro x hx
        simp only [List.mem_cons] at hx
        rcases hx with rfl | hx
        · exact hp
        · exact h2 x hx

theorem withPrio_none (ts : List CT) (h : withPrio ts = none) : ∃ x ∈ ts, prio x = none := by
  induction ts with
  | nil => simp [withPrio] at h
  | cons t ts ih =>
    simp only [withPrio] at h
    cases hp : prio t with
    | none => exact ⟨t, by simp, hp⟩
    | some p =>
      cases hw : withPrio ts with
      | none => obtain ⟨x, hx, hx2⟩ := ih hw; exact ⟨x, by simp [hx], hx2⟩
      | some r => simp [hp, hw] at h

/-- `most_accurate_type` returns a member of the list of maximal priority -/
theorem mostAccurate_spec (ts : List CT) (t : CT) (h : mostAccurate ts = .ok t) :
    t ∈ ts ∧ ∃ pt, prio t = some pt ∧ ∀ x ∈ ts, ∃ px, prio x = some px ∧ px ≤ pt := by
  unfold mostAccurate at h
  cases hw : withPrio ts with
  | none => simp [hw] at h
  | some l =>
    cases l with
    | nil => simp [hw] at h
    | cons b l =>
      simp [hw] at h
      obtain ⟨hmap, hpr⟩ := withPrio_spec ts _ hw
      obtain ⟨h1, h2, h3⟩ := firstMax_spec b l
      have hmem : firstMax b l ∈ b :: l := by
        rcases h1 with h' | h'
        · rw [h']; simp
        · simp [h']
      refine ⟨?_, (firstMax b l).2, ?_, ?_⟩
      · rw [← h, ← hmap]; exact List.mem_map_of_mem hmem
      · rw [← h]; exact hpr _ hmem
      · intro x hx
        rw [← hmap] at hx
        obtain ⟨y, hy, rfl⟩ := List.mem_map.1 hx
        refine ⟨y.2, hpr y hy, ?_⟩
        simp only [List.mem_cons] at hy
        rcases hy with rfl | hy
        · exact h2
        · exact h3 y hy

/-- it refuses exactly the empty list and lists with a type outside the priority table -/
theorem mostAccurate_error (ts : List CT) (e : Refusal) (h : mostAccurate ts = .error e) :
    e = .assertion ∧ (ts = [] ∨ ∃ x ∈ ts, prio x = none) := by
  unfold mostAccurate at h
  cases hw : withPrio ts with
  | none => simp [hw] at h; exact ⟨h.symm, Or.inr (withPrio_none ts hw)⟩
  | some l =>
    cases l with
    | nil =>
      simp [hw] at h
      refine ⟨h.symm, Or.inl ?_⟩
      have := (withPrio_spec ts _ hw).1; simpa using this.symm
    | cons b l => simp [hw] at h

/-- the generated priority table orders the types by width: int < float < double, bool absent -/
theorem prio_is_rank (a : CT) (pa : Nat) (h : prio a = some pa) : a ≠ .bool ∧ pa = a.rank := by
  cases a <;> simp [prio_int, prio_float, prio_double, prio_bool] at h <;> subst h <;> simp [CT.rank]

/-! ### assignments and the conditional -/

theorem convert_ctype (t : CT) (c : CV N) : (convert t c).ctype = t := by cases t <;> rfl

theorem convert_idem (t : CT) (c : CV N) : convert t (convert t c) = convert t c := by
  cases t <;> cases c <;> simp [convert, CV.toI, CV.toD, CV.truthy]

/-- what a variable of type `t` holds after `t x; x = <setVarRhs t v>;` -/
theorem setVar_value (t : CT) (v : Rep) (env : Env N) (c : CV N) (h : evalC env v.ce = some c) :
    (evalC env (setVarRhs t v)).map (convert t) = some (convert t c) := by
  unfold setVarRhs
  split
  · simp [evalC, h, convert_idem]
  · simp [h]

theorem numEq_toDouble (c : CV N) : numEq (convert .double c) c.toPy := by
  cases c <;> simp [numEq, convert, CV.toPy, CV.isFloating, CV.ctype, CT.isFloating, CV.toD]

theorem cond_value (env : Env N) (name : String) (slot : Nat) (tr ar br : Rep) (ct ca cb : CV N)
    (ht : evalC env tr.ce = some ct) (ha : evalC env ar.ce = some ca) (hb : evalC env br.ce = some cb) :
    evalCondC env (emitCond name slot tr ar br) = some (convert .double (if ct.truthy then ca else cb)) := by
  have h1 := setVar_value .double ar env ca ha
  have h2 := setVar_value .double br env cb hb
  simp only [evalCondC, emitCond, ht, condResultType]
  by_cases hc : ct.truthy = true
  · simp only [hc, if_true]
    cases h : evalC env (setVarRhs .double ar) with
    | none => simp [h] at h1
    | some v => simp [h] at h1; simp [h, h1]
  · simp only [hc]
    cases h : evalC env (setVarRhs .double br) with
    | none => simp [h] at h2
    | some v => simp [h] at h2; simp [h, h2]

/-! ### the aggregate shortcuts -/

def countOut : AggOut := { accTy := .int, seed := .ilit 0, cond := none, updRhs := .bin "+" (.leaf .int "acc" 0) (.ilit 1) }
def sumOut (k : CT) (s : String) (slot : Nat) : AggOut :=
  { accTy := k, seed := .ilit 0, cond := none, updRhs := .bin "+" (.leaf k "acc" 0) (.leaf k s slot) }

theorem emitAgg_count (nm : String) (ifs : Nat) : emitAgg nm ifs seed0 countUpd = .ok countOut := by
  simp [emitAgg, accTypeOk, seed0, countUpd, translateUpd, translate, binHandled, lookup_add, accLeaf, emitBin,
    emitKnownBin, mostAccurate_pair, CT.rank, accType, setVarRhs, finalRep, CE.retype, accSlot, countOut]

theorem emitAgg_sum (nm : String) (ifs : Nat) (k : CT) (hk : k ≠ .bool) (s : String) (slot : Nat) (hs : slot ≠ accSlot) :
    emitAgg nm ifs seed0 (sumUpd k s slot) = .ok (sumOut k s slot) := by
  have hs' : slot ≠ 0 := hs
  cases k <;> simp at hk <;>
  simp [emitAgg, accTypeOk, seed0, sumUpd, translateUpd, translate, binHandled, lookup_add, accLeaf, emitBin,
    emitKnownBin, mostAccurate_pair, CT.rank, accType, setVarRhs, finalRep, CE.retype, accSlot, sumOut, hs']

/-- Python's accumulator is an int or a float, never a bool -/
def PV.notBool : PV N → Prop
  | .bool _ => False
  | _ => True

theorem sum_step (ifs : Nat) (k : CT) (hk : k ≠ .bool) (s : String) (slot : Nat) (hs : slot ≠ accSlot)
    (env : Env N) (ac : CV N) (ap : PV N) (hc : ac.ctype = k) (hn : numEq ac ap) (hb : ap.notBool) :
    ∃ c' p', stepAggC ifs (sumOut k s slot) env ac = some c' ∧ stepAggPy true (sumUpd k s slot) env ap = some p' ∧
      c'.ctype = k ∧ numEq c' p' ∧ p'.notBool := by
  have hs' : slot ≠ 0 := hs
  cases k <;> simp at hk <;> cases ac <;> simp [CV.ctype] at hc <;> cases ap <;>
    simp [numEq, CV.isFloating, CV.ctype, CT.isFloating, CV.toI, CV.toD, PV.notBool] at hn hb <;>
    simp [stepAggC, stepAggPy, sumOut, sumUpd, evalC, evalPy, setAcc, setAccPy, accSlot, hs', leafVal, cBin,
      pyBin, convert, CV.isFloating, CV.ctype, CT.isFloating, CV.toI, CV.toD, CV.toPy, PV.isFloat, PV.toI, PV.toF,
      accLeaf, Expr.retype, PV.ct, mkF, wider, numEq, PV.notBool, hn]

theorem sum_run (ifs : Nat) (k : CT) (hk : k ≠ .bool) (s : String) (slot : Nat) (hs : slot ≠ accSlot)
    (elems : List (Env N)) : ∀ (ac : CV N) (ap : PV N), ac.ctype = k → numEq ac ap → ap.notBool →
    ∃ c' p', runAggC ifs (sumOut k s slot) ac elems = some c' ∧ runAggPy true (sumUpd k s slot) ap elems = some p' ∧
      c'.ctype = k ∧ numEq c' p' := by
  induction elems with
  | nil => intro ac ap hc hn _; exact ⟨ac, ap, rfl, rfl, hc, hn⟩
  | cons env rest ih =>
    intro ac ap hc hn hb
    obtain ⟨c1, p1, h1, h2, h3, h4, h5⟩ := sum_step ifs k hk s slot hs env ac ap hc hn hb
    obtain ⟨c', p', h6, h7, h8, h9⟩ := ih c1 p1 h3 h4 h5
    exact ⟨c', p', by simp only [runAggC, h1, h6], by simp only [runAggPy, h2, h7], h8, h9⟩

theorem count_run (ifs : Nat) (elems : List (Env N)) : ∀ n : Int,
    runAggC ifs countOut (.int n) elems = some (.int (n + elems.length)) ∧
    runAggPy true countUpd (.int n) elems = some (.int (n + elems.length)) := by
  induction elems with
  | nil => intro n; simp [runAggC, runAggPy]
  | cons env rest ih =>
    intro n
    have h1 : stepAggC ifs countOut env (.int n) = some (.int (n + 1)) := by
      simp [stepAggC, countOut, evalC, setAcc, accSlot, leafVal, cBin, convert, CV.isFloating, CV.ctype,
        CT.isFloating, CV.toI]
    have h2 : stepAggPy true countUpd env (.int n) = some (.int (n + 1)) := by
      simp [stepAggPy, countUpd, evalPy, setAccPy, accSlot, leafVal, pyBin, CV.toPy, PV.isFloat, PV.toI,
        accLeaf, Expr.retype, PV.ct]
    obtain ⟨h3, h4⟩ := ih (n + 1)
    refine ⟨by simp only [runAggC, h1, h3]; simp; omega, by simp only [runAggPy, h2, h4]; simp; omega⟩

/-- what `Max()` (`gt = true`) / `Min()` become -/
def mmOut (gt : Bool) (nm : String) (ifs : Nat) (k : CT) (s : String) (slot : Nat) : AggOut :=
  { accTy := .double, seed := .ilit 0,
    cond := some { test := ⟨.bool, .bin (if gt then ">" else "<") (.leaf .double "acc" 0) (.leaf k s slot)⟩,
                   thenRhs := .leaf .double "acc" 0,
                   elseRhs := if k = .double then .leaf k s slot else .cast .double (.leaf k s slot),
                   result := ⟨.double, .leaf .double nm ifs⟩ },
    updRhs := .leaf .double nm ifs }

theorem emitAgg_max (nm : String) (ifs : Nat) (hi : ifs ≠ accSlot) (k : CT) (hk : k ≠ .bool) (s : String) (slot : Nat)
    (hs : slot ≠ accSlot) : emitAgg nm ifs seed0 (maxUpd k s slot) = .ok (mmOut true nm ifs k s slot) := by
  have hs' : slot ≠ 0 := hs
  have hi' : ifs ≠ 0 := hi
  cases k <;> simp at hk <;>
  simp [emitAgg, accTypeOk, seed0, maxUpd, translateUpd, translate, lookup_gt, accLeaf, emitCmp, emitCond,
    mostAccurate_pair, CT.rank, accType, setVarRhs, finalRep, CE.retype, accSlot, mmOut, hs', hi', condResultType]

theorem emitAgg_min (nm : String) (ifs : Nat) (hi : ifs ≠ accSlot) (k : CT) (hk : k ≠ .bool) (s : String) (slot : Nat)
    (hs : slot ≠ accSlot) : emitAgg nm ifs seed0 (minUpd k s slot) = .ok (mmOut false nm ifs k s slot) := by
  have hs' : slot ≠ 0 := hs
  have hi' : ifs ≠ 0 := hi
  cases k <;> simp at hk <;>
  simp [emitAgg, accTypeOk, seed0, minUpd, translateUpd, translate, lookup_lt, accLeaf, emitCmp, emitCond,
    mostAccurate_pair, CT.rank, accType, setVarRhs, finalRep, CE.retype, accSlot, mmOut, hs', hi', condResultType]

def mmUpd (gt : Bool) (k : CT) (s : String) (slot : Nat) : Upd := if gt then maxUpd k s slot else minUpd k s slot

def mmTest (N : Num) (gt : Bool) (x v : N.D) : Bool := if gt then N.lt v x else N.lt x v

theorem mm_stepC (gt : Bool) (nm : String) (ifs : Nat) (hi : ifs ≠ accSlot) (k : CT) (hk : k = .float ∨ k = .double)
    (s : String) (slot : Nat) (hs : slot ≠ accSlot) (env : Env N) (x : N.D) :
    stepAggC ifs (mmOut gt nm ifs k s slot) env (.dbl x) =
      some (.dbl (if mmTest N gt x (env slot).d then x else (env slot).d)) := by
  have hs' : slot ≠ 0 := hs
  have hi' : ifs ≠ 0 := hi
  rcases hk with rfl | rfl <;> cases gt <;>
    by_cases h : N.lt (env slot).d x = true <;> by_cases h' : N.lt x (env slot).d = true <;>
    simp [stepAggC, mmOut, evalC, evalCondC, setAcc, accSlot, hs', hi', leafVal, cBin, convert, CV.isFloating,
      CV.ctype, CT.isFloating, CV.toI, CV.toD, CV.truthy, mkF, wider, mmTest, h, h']

theorem mm_stepPy (gt : Bool) (k : CT) (hk : k = .float ∨ k = .double)
    (s : String) (slot : Nat) (hs : slot ≠ accSlot) (env : Env N) (ap : PV N) (hb : ap.notBool) :
    stepAggPy true (mmUpd gt k s slot) env ap =
      some (if mmTest N gt ap.toF (env slot).d then ap else .float (env slot).d) := by
  have hs' : slot ≠ 0 := hs
  rcases hk with rfl | rfl <;> cases gt <;> cases ap <;> simp [PV.notBool] at hb <;>
    simp [stepAggPy, mmUpd, maxUpd, minUpd, evalPy, evalCondPy, setAccPy, accSlot, hs', leafVal, pyCmp, CV.toPy,
      PV.isFloat, PV.toI, PV.toF, PV.truthy, accLeaf, Expr.retype, PV.ct, mmTest] <;>
    split <;> simp_all

theorem numEq_dbl_toF (x : N.D) (ap : PV N) (hn : numEq (.dbl x : CV N) ap) (hb : ap.notBool) : ap.toF = x := by
  cases ap <;> simp [numEq, CV.isFloating, CV.ctype, CT.isFloating, CV.toD, PV.notBool] at hn hb <;>
    simp [PV.toF, hn]

theorem mm_step (gt : Bool) (nm : String) (ifs : Nat) (hi : ifs ≠ accSlot) (k : CT) (hk : k = .float ∨ k = .double)
    (s : String) (slot : Nat) (hs : slot ≠ accSlot)
    (env : Env N) (ac : CV N) (ap : PV N) (hc : ac.ctype = .double) (hn : numEq ac ap) (hb : ap.notBool) :
    ∃ c' p', stepAggC ifs (mmOut gt nm ifs k s slot) env ac = some c' ∧ stepAggPy true (mmUpd gt k s slot) env ap = some p' ∧
      c'.ctype = .double ∧ numEq c' p' ∧ p'.notBool := by
  cases ac <;> simp [CV.ctype] at hc
  rename_i x
  have hx := numEq_dbl_toF x ap hn hb
  refine ⟨_, _, mm_stepC gt nm ifs hi k hk s slot hs env x, mm_stepPy gt k hk s slot hs env ap hb, ?_, ?_, ?_⟩
  · rfl
  · rw [hx]
    split
    · simpa using hn
    · simp [numEq, CV.isFloating, CV.ctype, CT.isFloating, CV.toD]
  · rw [hx]; split
    · exact hb
    · trivial

theorem mm_run (gt : Bool) (nm : String) (ifs : Nat) (hi : ifs ≠ accSlot) (k : CT) (hk : k = .float ∨ k = .double)
    (s : String) (slot : Nat) (hs : slot ≠ accSlot)
    (elems : List (Env N)) : ∀ (ac : CV N) (ap : PV N), ac.ctype = .double → numEq ac ap → ap.notBool →
    ∃ c' p', runAggC ifs (mmOut gt nm ifs k s slot) ac elems = some c' ∧ runAggPy true (mmUpd gt k s slot) ap elems = some p' ∧
      c'.ctype = .double ∧ numEq c' p' := by
  induction elems with
  | nil => intro ac ap hc hn _; exact ⟨ac, ap, rfl, rfl, hc, hn⟩
  | cons env rest ih =>
    intro ac ap hc hn hb
    obtain ⟨c1, p1, h1, h2, h3, h4, h5⟩ := mm_step gt nm ifs hi k hk s slot hs env ac ap hc hn hb
    obtain ⟨c', p', h6, h7, h8, h9⟩ := ih c1 p1 h3 h4 h5
    exact ⟨c', p', by simp only [runAggC, h1, h6], by simp only [runAggPy, h2, h7], h8, h9⟩
theorem truthy_convert_bool (c : CV N) : (convert .bool c).truthy = c.truthy := by
  cases c <;> rfl

/-! ### a conditional inside the lambda of an aggregate -/

/-- `lambda acc, j: (acc if acc > 0 else 0) + j.k()`: a conditional over the accumulator inside the lambda, next to a
real term — the accumulator is widened after the conditional has been translated -/
def clampUpd (nm : String) (ifs : Nat) (k : CT) (s : String) (slot : Nat) : Upd :=
  .condIn ifs (.cmp .gt (accLeaf .int) (.int 0)) (accLeaf .int) (.int 0) (.bin .add (.leaf .double nm ifs) (.leaf k s slot))

def clampOut (nm : String) (ifs : Nat) (k : CT) (s : String) (slot : Nat) : AggOut :=
  { accTy := .double, seed := .ilit 0,
    cond := some { test := ⟨.bool, .bin ">" (.leaf .double "acc" 0) (.ilit 0)⟩,
                   thenRhs := .leaf .double "acc" 0,
                   elseRhs := .cast .double (.ilit 0),
                   result := ⟨.double, .leaf .double nm ifs⟩ },
    updRhs := .bin "+" (.leaf .double nm ifs) (.leaf k s slot) }

theorem emitAgg_clamp (nm : String) (ifs : Nat) (hi : ifs ≠ accSlot) (k : CT) (hk : k = .float ∨ k = .double) (s : String)
    (slot : Nat) (hs : slot ≠ accSlot) (hsi : slot ≠ ifs) : emitAgg nm ifs seed0 (clampUpd nm ifs k s slot) = .ok (clampOut nm ifs k s slot) := by
  have hs' : slot ≠ 0 := hs
  have hi' : ifs ≠ 0 := hi
  rcases hk with rfl | rfl <;>
  simp [emitAgg, accTypeOk, seed0, clampUpd, translateUpd, translate, lookup_gt, lookup_add, binHandled, accLeaf, emitCmp, emitCond,
    emitBin, emitKnownBin, Expr.retypeAt, mostAccurate_pair, CT.rank, accType, setVarRhs, finalRep, CE.retype, accSlot, clampOut,
    hs', hi', hsi, condResultType]

theorem clamp_stepC (nm : String) (ifs : Nat) (hi : ifs ≠ accSlot) (k : CT) (hk : k = .float ∨ k = .double)
    (s : String) (slot : Nat) (hs : slot ≠ accSlot) (hsi : slot ≠ ifs) (env : Env N) (x : N.D) :
    stepAggC ifs (clampOut nm ifs k s slot) env (.dbl x) =
      some (.dbl (N.add (if N.lt (N.ofInt 0) x then x else N.ofInt 0) (env slot).d)) := by
  have hs' : slot ≠ 0 := hs
  have hi' : ifs ≠ 0 := hi
  rcases hk with rfl | rfl <;> by_cases h : N.lt (N.ofInt 0) x = true <;>
    simp [stepAggC, clampOut, evalC, evalCondC, setAcc, accSlot, hs', hi', hsi, leafVal, cBin, convert, CV.isFloating,
      CV.ctype, CT.isFloating, CV.toI, CV.toD, CV.truthy, mkF, wider, h]

/-- Python's accumulator: the int seed 0 before the first element, a float afterwards -/
def clampInv (x : N.D) (ap : PV N) : Prop := ap = .float x ∨ (ap = .int 0 ∧ x = N.ofInt 0)

theorem clamp_stepPy (nm : String) (ifs : Nat) (hi : ifs ≠ accSlot) (k : CT) (hk : k = .float ∨ k = .double)
    (s : String) (slot : Nat) (hs : slot ≠ accSlot) (hsi : slot ≠ ifs) (env : Env N) (x : N.D) (ap : PV N)
    (h0 : N.lt (N.ofInt 0) (N.ofInt 0) = false) (hinv : clampInv x ap) :
    stepAggPy true (clampUpd nm ifs k s slot) env ap =
      some (.float (N.add (if N.lt (N.ofInt 0) x then x else N.ofInt 0) (env slot).d)) := by
  have hs' : slot ≠ 0 := hs
  have hi' : ifs ≠ 0 := hi
  have hi'' : ¬ (0 = ifs) := fun h => hi' h.symm
  rcases hinv with rfl | ⟨rfl, rfl⟩
  · rcases hk with rfl | rfl <;> by_cases h : N.lt (N.ofInt 0) x = true <;>
      simp [stepAggPy, clampUpd, evalPy, evalCondPy, setAccPy, accSlot, hs', hi', hi'', hsi, leafVal, pyCmp, pyBin, CV.toPy,
        PV.isFloat, PV.toI, PV.toF, PV.truthy, accLeaf, Expr.retype, Expr.retypeAt, PV.ct, h]
  · rcases hk with rfl | rfl <;>
      simp [stepAggPy, clampUpd, evalPy, evalCondPy, setAccPy, accSlot, hs', hi', hi'', hsi, leafVal, pyCmp, pyBin, CV.toPy,
        PV.isFloat, PV.toI, PV.toF, PV.truthy, accLeaf, Expr.retype, Expr.retypeAt, PV.ct, h0]

end FaxVerif.C13
