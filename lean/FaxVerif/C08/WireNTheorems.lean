/-
C08 (a), extension round — the wire round trip for n-ary `and`/`or` and chained comparisons.
-/
import FaxVerif.C08.Proofs
import FaxVerif.C08.WireN
namespace FaxVerif.C08

/-- **C08.wire_roundtrip_nary** — the round trip through the text format for every query whose printed form the
format can carry, n-ary `and`/`or` and chained comparisons included: parsing the tokens qastle's printer writes
(`wprint2 = wprint ∘ wirePre`) gives back `wireNorm2 q` — the query with those operators folded to the left / split into
binary comparisons joined by `and`, and tuples turned into lists; nothing else is lost, for every size and nesting.
(`wire_roundtrip` is the case `wirePre q = q`, see `wirePre_id`.)  Unlike tuple→list, this rewriting is NOT invisible to
the translator: `a and b and c` and `(a and b) and c` are translated to different C++ (listed finding), so there is no
counterpart of `wire_partial` for it — the theorem says exactly which query the translator receives. -/
theorem wire_roundtrip_nary (q : Q) (toks : List String) (hok : wireOK (wirePre q) = true) (hp : wprint2 q = some toks) :
    wparse (toks.length + 1) toks = some (wireNorm2 q, []) :=
  wire_roundtrip_core (wirePre q) toks hok hp

/-- the same inside a longer token stream -/
theorem wire_roundtrip_nary_open (q : Q) (toks rest : List String) (F : Nat) (hok : wireOK (wirePre q) = true)
    (hp : wprint2 q = some toks) (hF : toks.length < F) :
    wparse F (toks ++ rest) = some (wireNorm2 q, rest) :=
  (wparse_wprint (wirePre q) toks hok hp).2 rest F hF

theorem tag_not_nary (t : String) (n : Nat) (h : tagWireOK t (n + 3) = true) :
    ((splitTag t).1 == "bool") = false ∧ ((splitTag t).1 == "cmp") = false := by
  unfold tagWireOK at h
  generalize splitTag t = p at h ⊢
  obtain ⟨a, b⟩ := p
  constructor
  · cases hb : (a == "bool") with
    | false => rfl
    | true =>
      have : a = "bool" := by simpa using hb
      subst this
      simp at h
  · cases hb : (a == "cmp") with
    | false => rfl
    | true =>
      have : a = "cmp" := by simpa using hb
      subst this
      simp at h

mutual
/-- **C08.wirePre_id** — a query the text format carries as it is (`wireOK`: binary `and`/`or`, single comparisons) is not
touched by the rewriting: `wire_roundtrip_nary` restricted to such queries is `wire_roundtrip`. -/
theorem wirePre_id : ∀ (q : Q), wireOK q = true → wirePre q = q
  | .var x, _ => by simp [wirePre]
  | .lit c, _ => by simp [wirePre]
  | .lam ps b, h => by
    simp only [wireOK, Bool.and_eq_true] at h
    simp [wirePre, wirePre_id b h.2]
  | .app f as, h => by
    simp only [wireOK, Bool.and_eq_true] at h
    simp [wirePre, wirePre_id f h.1, wirePreL_id as h.2]
  | .node t ks, h => by
    simp only [wireOK, Bool.and_eq_true] at h
    have e := wirePreL_id ks h.2
    simp only [wirePre, e]
    match ks, h.1 with
    | [], _ => rfl
    | [_], _ => rfl
    | [_, _], _ => rfl
    | a :: b :: c :: rest, ht =>
      have hn := tag_not_nary t rest.length (by simpa [Nat.add_assoc] using ht)
      simp [hn.1, hn.2]
theorem wirePreL_id : ∀ (qs : List Q), wireOKL qs = true → wirePreL qs = qs
  | [], _ => rfl
  | q :: qs, h => by
    simp only [wireOKL, Bool.and_eq_true] at h
    simp [wirePreL, wirePre_id q h.1, wirePreL_id qs h.2]
end

/-- non-vacuity and the shape of the result: `a and b and c`, `a < b <= c` inside a lambda -/
example :
    let q := Q.lam ["e"] (.node "bool:And" [.var "a", .node "cmp:Lt+LtE" [.var "x", .var "y", .lit "int:3"], .var "c"])
    wireOK (wirePre q) = true ∧ wireOK q = false ∧ wprint q = none ∧
    wprint2 q = some ["(", "lambda", "(", "list", "e", ")", "(", "and", "(", "and", "a",
      "(", "and", "(", "<", "x", "y", ")", "(", "<=", "y", "3", ")", ")", ")", "c", ")", ")"] ∧
    wireNorm2 q = Q.lam ["e"] (.node "bool:And" [.node "bool:And" [.var "a",
      .node "bool:And" [.node "cmp:Lt" [.var "x", .var "y"], .node "cmp:LtE" [.var "y", .lit "int:3"]]], .var "c"]) ∧
    (wprint2 q).bind (fun t => wparse 100 t) = some (wireNorm2 q, []) := by
  decide

/-- **C08.nary_reassociated_counterexample** — the rewriting changes the query: a three-operand `and` comes back as a
two-operand `and` whose first operand is an `and` (the translator nests its short-circuit tests accordingly — the
listed wire finding), and a chained comparison comes back with its middle operand twice. -/
theorem nary_reassociated_counterexample :
    wireNorm2 (.node "bool:And" [.var "a", .var "b", .var "c"]) ≠ wireNorm (.node "bool:And" [.var "a", .var "b", .var "c"]) ∧
    wireNorm2 (.node "cmp:Lt+Lt" [.lit "int:1", .app (.var "f") [], .lit "int:9"]) =
      .node "bool:And" [.node "cmp:Lt" [.lit "int:1", .app (.var "f") []], .node "cmp:Lt" [.app (.var "f") [], .lit "int:9"]] := by
  constructor
  · intro h; exact absurd ((Q.beq_eq _ _).2 h) (by decide)
  · decide

end FaxVerif.C08
