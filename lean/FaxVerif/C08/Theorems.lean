/-
C08 — property theorems.

Property: the generated package is the same, up to the numbering of generated names, whether the query arrives as a
Python AST or as qastle text (a), whatever names its lambda parameters carry, shadowing included (b), wherever along
the chain its MetaData calls are attached (c), and whether chained Select/Where steps are written separately or already
fused (d).
-/
import FaxVerif.C08.Proofs
import FaxVerif.C08.MdTheorems
import FaxVerif.C08.ExtTheorems
import FaxVerif.C08.WireNTheorems
import FaxVerif.C08.ChainTheorems
namespace FaxVerif.C08

/-! ## (b) bound names -/

/-- **C08.alpha** — α-equivalence (defined on named terms by pairing binders) is exactly equality of the de Bruijn
forms: two queries differ only in the names of their lambda parameters — inner parameters re-using (shadowing) the name
of an outer one included — iff `resolve` maps them to the same term.  So everything downstream that is a function of
`resolve q` is invariant under renaming, and nothing else is. -/
theorem alpha (q q' : Q) : AlphaEq [] q q' ↔ resolve [] q = resolve [] q' := by
  simpa using alpha_iff_resolve q q' []

/-- the statement under binders: the paired binder names on each side are the two de Bruijn contexts -/
theorem alpha_open (ctx : List (String × String)) (q q' : Q) :
    AlphaEq ctx q q' ↔ resolve (ctx.map (·.1)) q = resolve (ctx.map (·.2)) q' :=
  alpha_iff_resolve q q' ctx

/-- **C08.lookup_innermost_first** — the translator's frame stack (`argument_stack`: `visit_Call_Lambda` pushes a
frame and defines the parameters, `visit_Name`/`resolve_id` look a name up) finds the innermost binding: after
pushing a frame that defines `x`, a lookup of `x` returns the new value whatever the outer frames say (shadowing),
and a name the new frame does not define is looked up in the outer frames unchanged. -/
theorem lookup_innermost_first {ρ} (st : Stack ρ) (ps : List String) (vals : List ρ) (x : String) :
    (∀ v, Frame.get? (ps.zip vals) x = some v → Stack.lookup (ps.zip vals :: st) x = some v) ∧
    (Frame.get? (ps.zip vals) x = none → Stack.lookup (ps.zip vals :: st) x = Stack.lookup st x) := by
  constructor
  · intro v h; simp [Stack.lookup, h]
  · intro h; simp [Stack.lookup, h]

/-- **C08.lookup_factors** — for every algebra of code-generating handlers (arbitrary state: cursor, emitted
statements, counters for generated names), every frame stack and every query, the traversal that resolves names
through the frame stack computes exactly what the traversal of the de Bruijn form computes in the flattened
environment.  The names of lambda parameters reach the result only through `resolve`. -/
theorem lookup_factors {ρ σ} (alg : Alg ρ σ) (st : Stack ρ) (q : Q) (s : σ) :
    eval alg st q s = evalDB alg st.vals (resolve st.names q) s :=
  eval_factors alg q st s

/-- **C08.alpha_translate** — hence α-equivalent queries (shadowing included) are translated identically — same
result, same final state, same error — by any translator of that shape, from the empty stack… -/
theorem alpha_translate {ρ σ} (alg : Alg ρ σ) (q q' : Q) (s : σ) (h : AlphaEq [] q q') :
    eval alg [] q s = eval alg [] q' s := by
  have e := (alpha q q').1 h
  rw [lookup_factors, lookup_factors]
  simpa [Stack.names] using congrArg (fun d => evalDB alg (Stack.vals ([] : Stack ρ)) d s) e

/-- … and from any two stacks that bind the same values under possibly different names. -/
theorem alpha_translate_open {ρ σ} (alg : Alg ρ σ) (st st' : Stack ρ) (q q' : Q) (s : σ)
    (hv : st.vals = st'.vals) (h : resolve st.names q = resolve st'.names q') :
    eval alg st q s = eval alg st' q' s := by
  rw [lookup_factors, lookup_factors, hv, h]

/-- non-vacuity: an inner parameter that shadows the outer one (`e.Select(lambda e: e.pt())` inside `lambda e:`)
is α-equivalent to the version with distinct names, and not to the one that refers to the outer parameter. -/
example :
    AlphaEq [] (.lam ["e"] (Q.call "Select" [.var "e", .lam ["e"] (.var "e")]))
               (.lam ["x"] (Q.call "Select" [.var "x", .lam ["y"] (.var "y")])) := by
  rw [alpha]; decide

example :
    ¬ AlphaEq [] (.lam ["e"] (Q.call "Select" [.var "e", .lam ["e"] (.var "e")]))
                 (.lam ["x"] (Q.call "Select" [.var "x", .lam ["y"] (.var "x")])) := by
  rw [alpha]; decide


/-! ## (b) bound names against global names (declared namespaces) -/

/-- **C08.bound_before_global** — a name bound by an enclosing lambda is answered by the frame stack; the table of
global names (`free`: the namespaces a query declares through `define_enum`, `resolve_id` → `get_toplevel_ns`) is not
consulted, whatever it says about that spelling.  Only a name that no frame binds reaches it.  So a parameter may be
spelled like a declared namespace. -/
theorem bound_before_global {ρ σ} (alg : Alg ρ σ) (st : Stack ρ) (x : String) (s : σ) :
    (∀ v, st.lookup x = some v → eval alg st (.var x) s = .ok (v, s)) ∧
    (st.lookup x = none → eval alg st (.var x) s = alg.free x s) := by
  constructor
  · intro v h; simp [eval, h]
  · intro h; simp [eval, h]

/-- **C08.globals_unread** — changing what the table of global names says about the names in `g` (declaring a
namespace, or not) does not change the translation — result, state, error — of a query that reads none of them as a
free name (`readsGlobal`, decidable, on the de Bruijn form: occurrences bound by a parameter of the same spelling do
not count).  For every algebra of handlers, every stack, every query. -/
theorem globals_unread {ρ σ} (alg : Alg ρ σ) (free' : String → σ → Except String (ρ × σ)) (g : String → Bool)
    (hf : ∀ x, g x = false → free' x = alg.free x) (st : Stack ρ) (q : Q) (s : σ)
    (h : readsGlobal g (resolve st.names q) = false) :
    eval (alg.withFree free') st q s = eval alg st q s := by
  rw [lookup_factors, lookup_factors]
  exact evalDB_globals alg free' g hf _ _ s h

/-- **C08.alpha_global** — the two together, as the harness samples it: `q` does not read the names in `g`, `q'` is any
α-variant of `q` — its parameters may be spelled exactly like the names in `g` — and the translator that knows the
names in `g` as globals translates `q'` as the translator that does not know them translates `q`. -/
theorem alpha_global {ρ σ} (alg : Alg ρ σ) (free' : String → σ → Except String (ρ × σ)) (g : String → Bool)
    (hf : ∀ x, g x = false → free' x = alg.free x) (q q' : Q) (s : σ)
    (h : AlphaEq [] q q') (hg : readsGlobal g (resolve [] q) = false) :
    eval (alg.withFree free') [] q' s = eval alg [] q s := by
  have e := (alpha q q').1 h
  have hg' : readsGlobal g (resolve (Stack.names ([] : Stack ρ)) q') = false := by
    simpa [Stack.names, ← e] using hg
  rw [globals_unread alg free' g hf [] q' s hg']
  exact (alpha_translate alg q q' s h).symm

/-- non-vacuity: `Select(ds, lambda mdlns: mdlns.pt())` does not read the global `mdlns` (the parameter shadows it) and
is an α-variant of the query with parameter `j`; `Select(ds, lambda j: j.i() == mdlns.Color.Red)` does read it. -/
example :
    readsAnyB ["mdlns"] (Q.call "Select" [.var "ds", .lam ["mdlns"] (.app (Q.attr (.var "mdlns") "pt") [])]) = false ∧
    AlphaEq [] (Q.call "Select" [.var "ds", .lam ["j"] (.app (Q.attr (.var "j") "pt") [])])
               (Q.call "Select" [.var "ds", .lam ["mdlns"] (.app (Q.attr (.var "mdlns") "pt") [])]) ∧
    readsAnyB ["mdlns"] (Q.call "Select" [.var "ds", .lam ["j"] (.node "cmp:Eq"
      [.app (Q.attr (.var "j") "i") [], Q.attr (Q.attr (.var "mdlns") "Color") "Red"])]) = true := by
  refine ⟨by decide, by rw [alpha]; decide, by decide⟩

/-- the hypothesis of `globals_unread` is needed: for a query that reads the name, the table decides the outcome -/
example : ∃ (alg : Alg String Unit) (free' : String → Unit → Except String (String × Unit)),
    (∀ x, (x == "mdlns") = false → free' x = alg.free x) ∧
    eval (alg.withFree free') [] (.var "mdlns") () ≠ eval alg [] (.var "mdlns") () := by
  refine ⟨⟨fun x _ => .error ("unknown " ++ x), fun c _ => .ok (c, ()), fun _ _ s => .ok s,
           fun _ _ _ s => .ok ([], s), fun t _ s => .ok (t, s)⟩,
          fun x s => if x == "mdlns" then .ok ("namespace", s) else .error ("unknown " ++ x), ?_, ?_⟩
  · intro x hx; funext s; simp [hx]
  · simp [eval, Stack.lookup, Alg.withFree]


/-! ## (b) continued: what func_adl's simplifier does to bound names -/

/-- **C08.simplify_alpha_partial** — Full statement: `simplify_chained_calls` maps α-equivalent queries to α-equivalent
queries.  That is false of func_adl 3.5 (counterexamples below), so the hypothesis `captureFree0` (decidable; evaluated by
the harness on every variant) asks of each of the two queries that the simplifier treats it like its canonically named
α-variant `canonNames q` (every binder named after its depth, so no name is bound twice and none collides with `acc`,
`v`, `arg_N`).  Under it: both simplifications fail alike, or the simplified queries are α-equivalent. -/
theorem simplify_alpha_partial (fuel : Nat) (q q' : Q) (h : AlphaEq [] q q')
    (hc : captureFree0 fuel q = true) (hc' : captureFree0 fuel q' = true) :
    hasBang (simplify fuel [] 0 (aggNorm (normStyle q))).1 = hasBang (simplify fuel [] 0 (aggNorm (normStyle q'))).1 ∧
    (hasBang (simplify fuel [] 0 (aggNorm (normStyle q))).1 = false →
      resolve [] (simplify fuel [] 0 (aggNorm (normStyle q))).1 =
      resolve [] (simplify fuel [] 0 (aggNorm (normStyle q'))).1) := by
  have e : canonNames q = canonNames q' := by unfold canonNames; rw [(alpha q q').1 h]
  simp only [captureFree0, Bool.and_eq_true, Bool.or_eq_true, beq_iff_eq] at hc hc'
  rw [e] at hc
  obtain ⟨h1, h2⟩ := hc
  obtain ⟨h1', h2'⟩ := hc'
  refine ⟨h1.trans h1'.symm, fun hb => ?_⟩
  have hb' : hasBang (simplify fuel [] 0 (aggNorm (normStyle q'))).1 = false := by rw [h1', ← h1]; exact hb
  rcases h2 with h2 | h2
  · rw [hb] at h2; cases h2
  rcases h2' with h2' | h2'
  · rw [hb'] at h2'; cases h2'
  exact ((DB.beq_eq _ _).1 h2).trans ((DB.beq_eq _ _).1 h2').symm

namespace Cex
def jets (e n : String) : Q := .app (Q.attr (.var e) "Jets") [.lit ("str:'" ++ n ++ "'")]
def pt (j : String) : Q := .app (Q.attr (.var j) "pt") []
def gt (a b : Q) : Q := .node "cmp:Gt" [a, b]
def one : Q := .lit "int:1"

/-- `ds.Where(lambda e: Count(e.Jets('J').Where(lambda <inner>: <inner>.pt() > 1)) > 1).Where(lambda f: Count(f.Jets('J')) > 1)` -/
def whereWhere (inner : String) : Q :=
  Q.call "Where" [Q.call "Where" [.var "ds",
      .lam ["e"] (gt (Q.call "Count" [Q.call "Where" [jets "e" "J", .lam [inner] (gt (pt inner) one)]]) one)],
    .lam ["f"] (gt (Q.call "Count" [jets "f" "J"]) one)]

/-- `ds.Where(lambda e: Count(e.Jets('J')) > 1).Where(lambda <p>: Count(<p>.Jets('J')) > 1)` -/
def whereCount (p : String) : Q :=
  Q.call "Where" [Q.call "Where" [.var "ds", .lam ["e"] (gt (Q.call "Count" [jets "e" "J"]) one)],
    .lam [p] (gt (Q.call "Count" [jets p "J"]) one)]

/-- `ds.Select(lambda e: e.Jets('J')).Select(lambda c: c.Select(lambda <p>: <p>.pt()))` -/
def selSel (p : String) : Q :=
  Q.call "Select" [Q.call "Select" [.var "ds", .lam ["e"] (jets "e" "J")],
    .lam ["c"] (Q.call "Select" [.var "c", .lam [p] (pt p)])]

/-- `ds.Select(lambda e: e.os().SelectMany(lambda <p>: <p>.vs()).Select(lambda t: e.pt()))` -/
def pushed (p : String) : Q :=
  Q.call "Select" [.var "ds", .lam ["e"]
    (Q.call "Select" [Q.call "SelectMany" [.app (Q.attr (.var "e") "os") [], .lam [p] (.app (Q.attr (.var p) "vs") [])],
      .lam ["t"] (pt "e")])]

def cond (e n : String) : Q := gt (Q.call "Count" [jets e n]) one
/-- three chained Wheres, and the same with the last two fused by hand -/
def www : Q := Q.call "Where" [Q.call "Where" [Q.call "Where" [.var "ds", .lam ["a"] (cond "a" "J")], .lam ["b"] (cond "b" "K")], .lam ["c"] (cond "c" "L")]
def wwFused : Q := Q.call "Where" [Q.call "Where" [.var "ds", .lam ["a"] (cond "a" "J")],
  .lam ["z"] (.node "bool:And" [.app (.lam ["b"] (cond "b" "K")) [.var "z"], .app (.lam ["c"] (cond "c" "L")) [.var "z"]])]
end Cex

/-- **C08.where_shadow_counterexample** — (b) is false of the pipeline: an inner lambda that re-uses the parameter name
of a `Where` predicate is captured when func_adl fuses `Where`∘`Where` (its β-reduction walks the body with the
parameter in the frame stack and pushes no frame for inner lambdas).  Replayed on the real code as a listed finding. -/
theorem where_shadow_counterexample :
    AlphaEq [] (Cex.whereWhere "j") (Cex.whereWhere "e") ∧
    resolve [] (simplify 40 [] 0 (aggNorm (Cex.whereWhere "j"))).1 ≠ resolve [] (simplify 40 [] 0 (aggNorm (Cex.whereWhere "e"))).1 ∧
    captureFree0 40 (Cex.whereWhere "j") = true ∧ captureFree0 40 (Cex.whereWhere "e") = false := by
  refine ⟨by rw [alpha]; decide, by decide, by decide, by decide⟩

/-- **C08.count_acc_counterexample** — no user-written shadowing is needed: `Count()` becomes
`Aggregate(…, lambda acc, v: acc + 1)`, so a fused `Where` predicate whose own parameter is called `acc` is broken. -/
theorem count_acc_counterexample :
    AlphaEq [] (Cex.whereCount "f") (Cex.whereCount "acc") ∧
    resolve [] (simplify 40 [] 0 (aggNorm (Cex.whereCount "f"))).1 ≠ resolve [] (simplify 40 [] 0 (aggNorm (Cex.whereCount "acc"))).1 := by
  refine ⟨by rw [alpha]; decide, by decide⟩

/-- **C08.argname_counterexample** — a parameter called `arg_0` collides with the names func_adl generates when it
fuses `Select`∘`Select` (with its counter at 0). -/
theorem argname_counterexample :
    AlphaEq [] (Cex.selSel "q") (Cex.selSel "arg_0") ∧
    resolve [] (simplify 40 [] 0 (Cex.selSel "q")).1 ≠ resolve [] (simplify 40 [] 0 (Cex.selSel "arg_0")).1 := by
  refine ⟨by rw [alpha]; decide, by decide⟩

/-- **C08.push_capture_counterexample** — a `Select` that follows a `SelectMany` is moved into the SelectMany's lambda
unrenamed: the outer `e` it mentions is captured when that lambda's parameter is called `e` too. -/
theorem push_capture_counterexample :
    AlphaEq [] (Cex.pushed "j") (Cex.pushed "e") ∧
    resolve [] (simplify 40 [] 0 (Cex.pushed "j")).1 ≠ resolve [] (simplify 40 [] 0 (Cex.pushed "e")).1 := by
  refine ⟨by rw [alpha]; decide, by decide⟩

/-! ## (d) chained Select / Where steps, separately written or fused -/

/-- **C08.fusion_select_partial** — `Select(Select(s, x: f), y: g)` and `Select(s, z: (y: g)((x: f)(z)))` have the same
normal form up to α (func_adl renames parameters with a global counter, hence "up to α").
Full statement: for all `s`, `f`, `g`.  Proved for: lambda bodies that are `scalar` (no nested lambdas, sequence
operators, subscripts or dict displays: `j.pt()*2 > abs(j.eta())`, tuples, if-else …), an inner selection that is not the
identity, a stream `s` whose own normal form `p0` is not a Select/SelectMany (defect exclusion: there func_adl fuses /
pushes step by step, which copies selections — listed findings), fresh `arg_N` names and `z` (defect exclusion:
`argname_counterexample`), and enough fuel for the bodies.  Beyond that (nested sequences in the bodies, tuple
projection) the statement is sampled by the harness, not proved. -/
theorem fusion_select_partial (F n n1 : Nat) (s p0 fb gb : Q) (x y z : String)
    (hs : simplify F [] n s = (p0, n1))
    (hp : p0.isCallOf "Select" = false ∧ p0.isCallOf "SelectMany" = false)
    (hfb : scalar fb = true) (hgb : scalar gb = true) (hid : fb ≠ .var x)
    (hF : depth fb + 5 ≤ F ∧ depth gb + 5 ≤ F)
    (hfresh : ∀ w ∈ [argName n1, argName (n1 + 1), argName (n1 + 2), z], w ∉ allNames fb ∧ w ∉ allNames gb) :
    resolve [] (simplify (F + 2) [] n (Q.call "Select" [Q.call "Select" [s, .lam [x] fb], .lam [y] gb])).1 =
    resolve [] (simplify (F + 1) [] n
      (Q.call "Select" [s, .lam [z] (.app (.lam [y] gb) [.app (.lam [x] fb) [.var z]])])).1 :=
  fusion_select_core F n n1 s p0 fb gb x y z hs hp hfb hgb hid hF hfresh

/-- **C08.fusion_where_partial** — `Where(Where(s, x: f), y: g)` and `Where(s, z: (x: f)(z) and (y: g)(z))` have the
same normal form up to α.  Hypotheses as for `fusion_select_partial`; in addition the normal form `p0` of the stream is
not a `Where` either (defect exclusion: `fusion_where_assoc_counterexample`), simplifying it again changes nothing
(func_adl re-visits it), and the first predicate is not the constant `True` (which func_adl drops). -/
theorem fusion_where_partial (F n n1 : Nat) (s p0 fb gb : Q) (x y z : String)
    (hs : simplify F [] n s = (p0, n1))
    (hstable : simplify F [] (n1 + 1) p0 = (p0, n1 + 1))
    (hp : p0.isCallOf "Where" = false ∧ p0.isCallOf "Select" = false ∧ p0.isCallOf "SelectMany" = false)
    (hfb : scalar fb = true) (hgb : scalar gb = true) (htrue : fb ≠ .lit "bool:True")
    (hF : depth fb + 8 ≤ F ∧ depth gb + 8 ≤ F)
    (hfresh : ∀ w ∈ [argName n1, z], w ∉ allNames fb ∧ w ∉ allNames gb) :
    resolve [] (simplify (F + 2) [] n (Q.call "Where" [Q.call "Where" [s, .lam [x] fb], .lam [y] gb])).1 =
    resolve [] (simplify (F + 1) [] n
      (Q.call "Where" [s, .lam [z] (.node "bool:And" [.app (.lam [x] fb) [.var z], .app (.lam [y] gb) [.var z]])])).1 :=
  fusion_where_core F n n1 s p0 fb gb x y z hs hstable hp hfb hgb htrue hF hfresh

/-- non-vacuity: `ds.Select(lambda j: (j.pt(), j.eta())).Select(lambda t: twice(t))` satisfies every hypothesis -/
example :
    let fb := Q.node "tuple" [Cex.pt "j", .app (Q.attr (.var "j") "eta") []]
    let gb := Q.call "twice" [.var "t"]
    simplify 20 [] 0 (.var "ds") = (.var "ds", 0) ∧ scalar fb = true ∧ scalar gb = true ∧ fb ≠ .var "j" ∧
    (depth fb + 5 ≤ 20 ∧ depth gb + 5 ≤ 20) ∧
    (∀ w ∈ [argName 0, argName 1, argName 2, "z"], w ∉ allNames fb ∧ w ∉ allNames gb) := by
  decide

/-- **C08.fusion_where_assoc_counterexample** — the hypothesis on the stream cannot be dropped: with a third `Where`
underneath, fusing the last two by hand gives `f1 and (f2 and f3)` where func_adl builds `(f1 and f2) and f3`; the
translator nests its `if`s accordingly.  (Listed finding, replayed on the real pipeline.) -/
theorem fusion_where_assoc_counterexample :
    resolve [] (simplify 60 [] 0 (aggNorm Cex.www)).1 ≠ resolve [] (simplify 60 [] 0 (aggNorm Cex.wwFused)).1 := by
  decide


/-! ## (a) wire format -/

/-- **C08.wire_partial** — Full statement of (a): the package generated from a Python AST and from its qastle round trip
are the same.  What the round trip does to a query is `wireNorm` (a tuple display comes back as a list display; nothing
else changes for queries the text format can express — that the real qastle printer and parser behave like `wprint` /
`wparse` and that the round trip of every generated query is its `wireNorm` is checked by the harness on every run, not
proved: qastle is a third-party library).  Proved here: every translator of the shape `eval` whose handlers do not tell
the tags `tuple` and `list` apart (the real `visit_Tuple` and `visit_List` are the same code) produces the same result,
state and errors for a query and for its round trip, from every frame stack. -/
theorem wire_partial {ρ σ} (alg : Alg ρ σ)
    (h1 : SameTag alg "tuple" "list") (h2 : SameTag alg ("method:" ++ "tuple") ("method:" ++ "list"))
    (st : Stack ρ) (q : Q) (s : σ) :
    eval alg st (wireNorm q) s = eval alg st q s :=
  eval_wire alg h1 h2 q st s

/-- **C08.wire_roundtrip** — the text format itself (qastle's grammar at token level: `wprint` is the model of
`python_ast_to_text_ast`, `wparse` of the lark grammar + `text_ast_to_python_ast`): for every query the format can carry
(`wireOK`: names are identifiers, constants are written as `repr` writes them, node tags and arities are those of
Python's AST) parsing the printed tokens gives back the query with tuples turned into lists — nothing else is lost, for
every size and nesting.  Together with `wire_partial`: a translator that does not tell tuple from list translates the
query and what arrives over the wire identically.  (That the real qastle agrees with `wprint`/`wparse` token for token is
checked on every generated query of every run.) -/
theorem wire_roundtrip (q : Q) (toks : List String) (hok : wireOK q = true) (hp : wprint q = some toks) :
    wparse (toks.length + 1) toks = some (wireNorm q, []) :=
  wire_roundtrip_core q toks hok hp

/-- the same inside a longer token stream, with any amount of fuel above the token count -/
theorem wire_roundtrip_open (q : Q) (toks rest : List String) (F : Nat) (hok : wireOK q = true)
    (hp : wprint q = some toks) (hF : toks.length < F) :
    wparse F (toks ++ rest) = some (wireNorm q, rest) :=
  (wparse_wprint q toks hok hp).2 rest F hF

/-- non-vacuity: a query with a lambda, a method call, a tuple, a comparison and a string constant is `wireOK` -/
example : wireOK (Q.call "Select" [.var "ds", .lam ["e"] (.node "tuple"
    [.app (Q.attr (.var "e") "pt") [], .node "cmp:Gt" [.var "e", .lit "int:1"], .lit "str:'a'"])]) = true := by decide

/-- what the text format cannot carry is refused by the printer model (`none`), e.g. an n-ary `and` (qastle re-associates
it: listed finding) -/
example : wprint (.node "bool:And" [.var "a", .var "b", .var "c"]) = none ∧
    wprint (.node "bool:And" [.var "a", .var "b"]) = some ["(", "and", "a", "b", ")"] := by decide

/-- the round trip of a small query through the model printer and parser is its `wireNorm` -/
example :
    let q := Q.call "Select" [.var "ds", .lam ["e"] (.node "tuple" [.app (Q.attr (.var "e") "pt") [], .lit "int:1"])]
    (wprint q).bind (fun t => wparse 100 t) = some (wireNorm q, []) := by decide

/-! ## the conclusion of the property is an equivalence relation -/

/-- **C08.sameOutcome_refl** — "same package up to the numbering of generated names" (and "both refused with the same
exception class") relates every outcome to itself … -/
theorem sameOutcome_refl (strict : Bool) (o : Outcome) : SameOutcome strict o o := by
  cases o <;> cases strict <;> simp [SameOutcome, SamePackage, SamePackageUpToDiag]

/-- … is symmetric … -/
theorem sameOutcome_symm (strict : Bool) (a b : Outcome) (h : SameOutcome strict a b) : SameOutcome strict b a := by
  cases a <;> cases b <;> cases strict <;> simp_all [SameOutcome, SamePackage, SamePackageUpToDiag, eq_comm]

/-- … and transitive: comparing every variant with the base query compares all variants with each other. -/
theorem sameOutcome_trans (strict : Bool) (a b c : Outcome) (h1 : SameOutcome strict a b) (h2 : SameOutcome strict b c) :
    SameOutcome strict a c := by
  cases a <;> cases b <;> cases c <;> cases strict <;> simp_all [SameOutcome, SamePackage, SamePackageUpToDiag]

/-- renumbering: two packages that differ only in the numbers of their generated names are the same for the Spec, and a
package in which a generated name is used for two different things is not -/
example : SameOutcome true (.ok [.plain "int", .gen "i_obj3", .plain ";", .gen "i_obj3", .gen "aggResult5"])
                           (.ok [.plain "int", .gen "i_obj7", .plain ";", .gen "i_obj7", .gen "aggResult9"]) ∧
        ¬ SameOutcome true (.ok [.gen "i_obj3", .gen "i_obj4"]) (.ok [.gen "i_obj7", .gen "i_obj7"]) := by decide


/-! ## (c) position of MetaData calls -/

/-- **C08.md_outermost_first** — `extract_metadata` returns the dictionaries outermost first: a MetaData call wrapped
around a query puts its dictionary in front of everything found inside. -/
theorem md_outermost_first (q m : Q) : strip (wrapMd q m) = ((strip q).1, m :: (strip q).2) := by
  simp [wrapMd, strip_app_md, isMdHead]

/-- **C08.md_stripped** — wherever a MetaData call is attached — at any depth of the chain, inside lambda bodies, around
any sub-expression that `extract_metadata` walks — the query that is left after extraction is the same. -/
theorem md_stripped (q q1 m : Q) (p : List Step) (h : attachAt m p q = some q1) (hv : validPos p q = true) :
    (strip q1).1 = (strip q).1 :=
  (attach_spec m p q q1 h hv).1

/-- **C08.md_position** — full statement of (c) for one MetaData call: for any two positions `p`, `p'` of a query that
carries no other metadata, extraction gives the same query and the same metadata list. -/
theorem md_position (q q1 q2 m : Q) (p p' : List Step)
    (h1 : attachAt m p q = some q1) (hv1 : validPos p q = true)
    (h2 : attachAt m p' q = some q2) (hv2 : validPos p' q = true)
    (hq : (strip q).2 = []) : strip q1 = strip q2 := by
  obtain ⟨a1, l1, r1, b1, c1⟩ := attach_spec m p q q1 h1 hv1
  obtain ⟨a2, l2, r2, b2, c2⟩ := attach_spec m p' q q2 h2 hv2
  rw [hq] at b1 b2
  have e1 : l1 = [] ∧ r1 = [] := by simpa using b1.symm
  have e2 : l2 = [] ∧ r2 = [] := by simpa using b2.symm
  rw [e1.1, e1.2] at c1
  rw [e2.1, e2.2] at c2
  exact Prod.ext (a1.trans a2.symm) (c1.trans c2.symm)

/-- **C08.md_inserted** — in a query that already carries metadata, the new dictionary is inserted somewhere into the
list, the others keep their order: where exactly depends on the position (outermost first). -/
theorem md_inserted (q q1 m : Q) (p : List Step) (h : attachAt m p q = some q1) (hv : validPos p q = true) :
    ∃ l r, (strip q).2 = l ++ r ∧ (strip q1).2 = l ++ m :: r :=
  (attach_spec m p q q1 h hv).2

/-- **C08.md_perm** — so two placements of the same dictionary give metadata lists that are permutations of each other… -/
theorem md_perm (q q1 q2 m : Q) (p p' : List Step)
    (h1 : attachAt m p q = some q1) (hv1 : validPos p q = true)
    (h2 : attachAt m p' q = some q2) (hv2 : validPos p' q = true) :
    (strip q1).1 = (strip q2).1 ∧ (strip q1).2.Perm (strip q2).2 := by
  obtain ⟨a1, l1, r1, b1, c1⟩ := attach_spec m p q q1 h1 hv1
  obtain ⟨a2, l2, r2, b2, c2⟩ := attach_spec m p' q q2 h2 hv2
  refine ⟨a1.trans a2.symm, ?_⟩
  rw [c1, c2]
  have e1 : (l1 ++ m :: r1).Perm (m :: (strip q).2) := by rw [b1]; exact List.perm_middle
  have e2 : (l2 ++ m :: r2).Perm (m :: (strip q).2) := by rw [b2]; exact List.perm_middle
  exact e1.trans e2.symm

/-- … and the same holds for any number of MetaData calls attached one after the other at arbitrary valid positions:
the extracted query is the one without metadata, the list is a permutation of the attached dictionaries. -/
theorem md_many (pl : List (List Step × Q)) (q q' : Q) (h : attachMany pl q = some q') :
    (strip q').1 = (strip q).1 ∧ (strip q').2.Perm (pl.map (·.2) ++ (strip q).2) := by
  induction pl generalizing q with
  | nil => simp [attachMany] at h; subst h; simp
  | cons pm rest ih =>
    obtain ⟨p, m⟩ := pm
    simp only [attachMany] at h
    by_cases hv : validPos p q = true
    · simp only [hv, if_true] at h
      cases h1 : attachAt m p q with
      | none => simp [h1] at h
      | some q1 =>
        simp only [h1, Option.bind_some] at h
        obtain ⟨a, l, r, b, c⟩ := attach_spec m p q q1 h1 hv
        obtain ⟨a', c'⟩ := ih q1 h
        refine ⟨a'.trans a, c'.trans ?_⟩
        rw [c, b]
        simp only [List.map_cons, List.cons_append]
        exact (List.Perm.append_left _ List.perm_middle).trans List.perm_middle
    · simp [hv] at h

/-- **C08.proc_perm_partial** — `process_metadata` (with the executor's use of its result) on two orders of the same
items.  Full statement: the registries are the same for every permutation.  That is false as it stands — the later of two
different declarations of one method wins, injected blocks and job scripts are emitted in list order — so the hypothesis
`commutingAll` (decidable) asks that no two items conflict: same table and key ⇒ same content; injected blocks /
scripts pairwise equal; at most one class of failing item. Under it the result (state or error class) is the same for
all orders, from any starting state. -/
theorem proc_perm_partial (l l' : List MdItem) (hp : l.Perm l') (hc : commutingAll l = true) (s : MdState) :
    procMd s l = procMd s l' :=
  procMd_perm hp ((commutingAll_iff l).1 hc) s

/-- the hypothesis cannot be dropped: two declarations of the same method with different types -/
theorem proc_perm_counterexample :
    ∃ l l' : List MdItem, l.Perm l' ∧
      (procMd MdState.init l).toOption.map (fun s => s.types "A::m") ≠
      (procMd MdState.init l').toOption.map (fun s => s.types "A::m") :=
  ⟨[.methodType "A::m" "int", .methodType "A::m" "double"], [.methodType "A::m" "double", .methodType "A::m" "int"],
    List.Perm.swap _ _ _, by decide⟩

/-- **C08.md_bundle_position** — what the `md-dependent` stream samples, as a theorem: ANY number of MetaData calls
attached to a metadata-free query at ANY valid positions (chain positions, streams inside lambda bodies), in two
different ways.  The extracted queries are the same; the two metadata lists are permutations of each other when the same
dictionaries were attached; and whenever the two extraction orders agree registry by registry (`sameByKind` of the
abstracted items — in particular when the extraction order is simply the same) `process_metadata` ends in the same state,
or refuses with the same error, from every starting state.  `abs` is any abstraction of a dictionary to the registry it
writes (the harness' `md_item`). -/
theorem md_bundle_position (abs : Q → MdItem) (pl pl' : List (List Step × Q)) (q q1 q2 : Q)
    (h1 : attachMany pl q = some q1) (h2 : attachMany pl' q = some q2) (hq : (strip q).2 = [])
    (hk : sameByKind ((strip q1).2.map abs) ((strip q2).2.map abs) = true) (s : MdState) :
    (strip q1).1 = (strip q2).1 ∧
    ((pl.map (·.2)).Perm (pl'.map (·.2)) → (strip q1).2.Perm (strip q2).2) ∧
    procMd s ((strip q1).2.map abs) = procMd s ((strip q2).2.map abs) := by
  obtain ⟨a1, p1⟩ := md_many pl q q1 h1
  obtain ⟨a2, p2⟩ := md_many pl' q q2 h2
  rw [hq, List.append_nil] at p1 p2
  exact ⟨a1.trans a2.symm, fun hp => p1.trans (hp.trans p2.symm), md_interleave _ _ s hk⟩

/-- … and with literally the same extraction order, extraction itself cannot tell the two placements apart. -/
theorem md_bundle_same_order (pl pl' : List (List Step × Q)) (q q1 q2 : Q)
    (h1 : attachMany pl q = some q1) (h2 : attachMany pl' q = some q2)
    (ho : (strip q1).2 = (strip q2).2) : strip q1 = strip q2 := by
  obtain ⟨a1, _⟩ := md_many pl q q1 h1
  obtain ⟨a2, _⟩ := md_many pl' q q2 h2
  exact Prod.ext (a1.trans a2.symm) ho

/-- non-vacuity: an enum at the dataset and a method type at the root, against both at the root in the other order -/
example :
    let q := Q.call "Select" [Q.call "EventDataset" [], .lam ["e"] (.var "e")]
    let en := Q.node "dict" [.lit "str:'metadata_type'", .lit "str:'define_enum'"]
    let mt := Q.node "dict" [.lit "str:'metadata_type'", .lit "str:'add_method_type_info'"]
    let abs : Q → MdItem := fun d => if d == en then .enum "ns.E" "e" else .methodType "A::m" "t"
    ∃ q1 q2, attachMany [([.arg 0], en), ([], mt)] q = some q1 ∧ attachMany [([], mt), ([], en)] q = some q2 ∧
      (strip q1).2 ≠ (strip q2).2 ∧ sameByKind ((strip q1).2.map abs) ((strip q2).2.map abs) = true := by
  refine ⟨_, _, rfl, rfl, ?_, by decide⟩
  intro h; exact absurd ((Q.beqL_eq _ _).2 h) (by decide)

/-- non-vacuity of (c): the same dictionary at the top of a two-step chain, at the dataset, and inside a lambda body -/
example :
    let q := Q.call "Select" [Q.call "Where" [Q.call "EventDataset" [], .lam ["e"] (.lit "bool:True")],
                              .lam ["e"] (Q.call "Count" [.app (Q.attr (.var "e") "Jets") [.lit "str:'J'"]])]
    let m := Q.node "dict" [.lit "str:'metadata_type'", .lit "str:'inject_code'"]
    (attachAt m [] q).map strip = (attachAt m [.arg 0, .arg 0] q).map strip ∧
    (attachAt m [] q).map strip = (attachAt m [.arg 1, .body, .arg 0] q).map strip ∧
    validPos [.arg 1, .body, .arg 0] q = true := by
  decide

end FaxVerif.C08
