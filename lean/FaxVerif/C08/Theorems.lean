/-
C08 — property theorems.

Property: the generated package is the same, up to the numbering of generated names, whether the query arrives as a
Python AST or as qastle text (a), whatever names its lambda parameters carry, shadowing included (b), wherever along
the chain its MetaData calls are attached (c), and whether chained Select/Where steps are written separately or already
fused (d).
-/
import FaxVerif.C08.Proofs
namespace FaxVerif.C08

/-! ## (b) bound names -/

/-- **C08.alpha** — α-equivalence (defined on named terms by pairing binders) is exactly equality of the de Bruijn
forms: two queries differ only in the names of their lambda parameters — inner parameters re-using (shadowing) the name
of an outer one included — iff `resolve` maps them to the same term.  So everything downstream that is a function of
`resolve q` is invariant under renaming, and nothing else is. -/
theorem alpha (q q' : Q) : AlphaEq [] q q' ↔ resolve [] q = resolve [] q' := by
  simpa using alpha_iff_resolve q q' []

/-- the statement under binders: the paired binder names on each side are the two de Bruijn contexts -/
theorem alpha_open (ctx : List (String × String)) (q q' : Q) :
    AlphaEq ctx q q' ↔ resolve (ctx.map (·.1)) q = resolve (ctx.map (·.2)) q' :=
  alpha_iff_resolve q q' ctx

/-- **C08.lookup_innermost_first** — the translator's frame stack (`argument_stack`: `visit_Call_Lambda` pushes a
frame and defines the parameters, `visit_Name`/`resolve_id` look a name up) finds the innermost binding: after
pushing a frame that defines `x`, a lookup of `x` returns the new value whatever the outer frames say (shadowing),
and a name the new frame does not define is looked up in the outer frames unchanged. -/
theorem lookup_innermost_first {ρ} (st : Stack ρ) (ps : List String) (vals : List ρ) (x : String) :
    (∀ v, Frame.get? (ps.zip vals) x = some v → Stack.lookup (ps.zip vals :: st) x = some v) ∧
    (Frame.get? (ps.zip vals) x = none → Stack.lookup (ps.zip vals :: st) x = Stack.lookup st x) := by
  constructor
  · intro v h; simp [Stack.lookup, h]
  · intro h; simp [Stack.lookup, h]

/-- **C08.lookup_factors** — for every algebra of code-generating handlers (arbitrary state: cursor, emitted
statements, counters for generated names), every frame stack and every query, the traversal that resolves names
through the frame stack computes exactly what the traversal of the de Bruijn form computes in the flattened
environment.  The names of lambda parameters reach the result only through `resolve`. -/
theorem lookup_factors {ρ σ} (alg : Alg ρ σ) (st : Stack ρ) (q : Q) (s : σ) :
    eval alg st q s = evalDB alg st.vals (resolve st.names q) s :=
  eval_factors alg q st s

/-- **C08.alpha_translate** — hence α-equivalent queries (shadowing included) are translated identically — same
result, same final state, same error — by any translator of that shape, from the empty stack… -/
theorem alpha_translate {ρ σ} (alg : Alg ρ σ) (q q' : Q) (s : σ) (h : AlphaEq [] q q') :
    eval alg [] q s = eval alg [] q' s := by
  have e := (alpha q q').1 h
  rw [lookup_factors, lookup_factors]
  simpa [Stack.names] using congrArg (fun d => evalDB alg (Stack.vals ([] : Stack ρ)) d s) e

/-- … and from any two stacks that bind the same values under possibly different names. -/
theorem alpha_translate_open {ρ σ} (alg : Alg ρ σ) (st st' : Stack ρ) (q q' : Q) (s : σ)
    (hv : st.vals = st'.vals) (h : resolve st.names q = resolve st'.names q') :
    eval alg st q s = eval alg st' q' s := by
  rw [lookup_factors, lookup_factors, hv, h]

/-- non-vacuity: an inner parameter that shadows the outer one (`e.Select(lambda e: e.pt())` inside `lambda e:`)
is α-equivalent to the version with distinct names, and not to the one that refers to the outer parameter. -/
example :
    AlphaEq [] (.lam ["e"] (Q.call "Select" [.var "e", .lam ["e"] (.var "e")]))
               (.lam ["x"] (Q.call "Select" [.var "x", .lam ["y"] (.var "y")])) := by
  rw [alpha]; decide

example :
    ¬ AlphaEq [] (.lam ["e"] (Q.call "Select" [.var "e", .lam ["e"] (.var "e")]))
                 (.lam ["x"] (Q.call "Select" [.var "x", .lam ["y"] (.var "x")])) := by
  rw [alpha]; decide

end FaxVerif.C08
