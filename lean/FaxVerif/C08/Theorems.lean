/-
C08 — property theorems.

Property: the generated package is the same, up to the numbering of generated names, whether the query arrives as a
Python AST or as qastle text (a), whatever names its lambda parameters carry, shadowing included (b), wherever along
the chain its MetaData calls are attached (c), and whether chained Select/Where steps are written separately or already
fused (d).
-/
import FaxVerif.C08.Proofs
namespace FaxVerif.C08

/-! ## (b) bound names -/

/-- **C08.alpha** — α-equivalence (defined on named terms by pairing binders) is exactly equality of the de Bruijn
forms: two queries differ only in the names of their lambda parameters — inner parameters re-using (shadowing) the name
of an outer one included — iff `resolve` maps them to the same term.  So everything downstream that is a function of
`resolve q` is invariant under renaming, and nothing else is. -/
theorem alpha (q q' : Q) : AlphaEq [] q q' ↔ resolve [] q = resolve [] q' := by
  simpa using alpha_iff_resolve q q' []

/-- the statement under binders: the paired binder names on each side are the two de Bruijn contexts -/
theorem alpha_open (ctx : List (String × String)) (q q' : Q) :
    AlphaEq ctx q q' ↔ resolve (ctx.map (·.1)) q = resolve (ctx.map (·.2)) q' :=
  alpha_iff_resolve q q' ctx

/-- **C08.lookup_innermost_first** — the translator's frame stack (`argument_stack`: `visit_Call_Lambda` pushes a
frame and defines the parameters, `visit_Name`/`resolve_id` look a name up) finds the innermost binding: after
pushing a frame that defines `x`, a lookup of `x` returns the new value whatever the outer frames say (shadowing),
and a name the new frame does not define is looked up in the outer frames unchanged. -/
theorem lookup_innermost_first {ρ} (st : Stack ρ) (ps : List String) (vals : List ρ) (x : String) :
    (∀ v, Frame.get? (ps.zip vals) x = some v → Stack.lookup (ps.zip vals :: st) x = some v) ∧
    (Frame.get? (ps.zip vals) x = none → Stack.lookup (ps.zip vals :: st) x = Stack.lookup st x) := by
  constructor
  · intro v h; simp [Stack.lookup, h]
  · intro h; simp [Stack.lookup, h]

/-- **C08.lookup_factors** — for every algebra of code-generating handlers (arbitrary state: cursor, emitted
statements, counters for generated names), every frame stack and every query, the traversal that resolves names
through the frame stack computes exactly what the traversal of the de Bruijn form computes in the flattened
environment.  The names of lambda parameters reach the result only through `resolve`. -/
theorem lookup_factors {ρ σ} (alg : Alg ρ σ) (st : Stack ρ) (q : Q) (s : σ) :
    eval alg st q s = evalDB alg st.vals (resolve st.names q) s :=
  eval_factors alg q st s

/-- **C08.alpha_translate** — hence α-equivalent queries (shadowing included) are translated identically — same
result, same final state, same error — by any translator of that shape, from the empty stack… -/
theorem alpha_translate {ρ σ} (alg : Alg ρ σ) (q q' : Q) (s : σ) (h : AlphaEq [] q q') :
    eval alg [] q s = eval alg [] q' s := by
  have e := (alpha q q').1 h
  rw [lookup_factors, lookup_factors]
  simpa [Stack.names] using congrArg (fun d => evalDB alg (Stack.vals ([] : Stack ρ)) d s) e

/-- … and from any two stacks that bind the same values under possibly different names. -/
theorem alpha_translate_open {ρ σ} (alg : Alg ρ σ) (st st' : Stack ρ) (q q' : Q) (s : σ)
    (hv : st.vals = st'.vals) (h : resolve st.names q = resolve st'.names q') :
    eval alg st q s = eval alg st' q' s := by
  rw [lookup_factors, lookup_factors, hv, h]

/-- non-vacuity: an inner parameter that shadows the outer one (`e.Select(lambda e: e.pt())` inside `lambda e:`)
is α-equivalent to the version with distinct names, and not to the one that refers to the outer parameter. -/
example :
    AlphaEq [] (.lam ["e"] (Q.call "Select" [.var "e", .lam ["e"] (.var "e")]))
               (.lam ["x"] (Q.call "Select" [.var "x", .lam ["y"] (.var "y")])) := by
  rw [alpha]; decide

example :
    ¬ AlphaEq [] (.lam ["e"] (Q.call "Select" [.var "e", .lam ["e"] (.var "e")]))
                 (.lam ["x"] (Q.call "Select" [.var "x", .lam ["y"] (.var "x")])) := by
  rw [alpha]; decide


/-! ## (c) position of MetaData calls -/

/-- **C08.md_outermost_first** — `extract_metadata` returns the dictionaries outermost first: a MetaData call wrapped
around a query puts its dictionary in front of everything found inside. -/
theorem md_outermost_first (q m : Q) : strip (wrapMd q m) = ((strip q).1, m :: (strip q).2) := by
  simp [wrapMd, strip_app_md, isMdHead]

/-- **C08.md_stripped** — wherever a MetaData call is attached — at any depth of the chain, inside lambda bodies, around
any sub-expression that `extract_metadata` walks — the query that is left after extraction is the same. -/
theorem md_stripped (q q1 m : Q) (p : List Step) (h : attachAt m p q = some q1) (hv : validPos p q = true) :
    (strip q1).1 = (strip q).1 :=
  (attach_spec m p q q1 h hv).1

/-- **C08.md_position** — full statement of (c) for one MetaData call: for any two positions `p`, `p'` of a query that
carries no other metadata, extraction gives the same query and the same metadata list. -/
theorem md_position (q q1 q2 m : Q) (p p' : List Step)
    (h1 : attachAt m p q = some q1) (hv1 : validPos p q = true)
    (h2 : attachAt m p' q = some q2) (hv2 : validPos p' q = true)
    (hq : (strip q).2 = []) : strip q1 = strip q2 := by
  obtain ⟨a1, l1, r1, b1, c1⟩ := attach_spec m p q q1 h1 hv1
  obtain ⟨a2, l2, r2, b2, c2⟩ := attach_spec m p' q q2 h2 hv2
  rw [hq] at b1 b2
  have e1 : l1 = [] ∧ r1 = [] := by simpa using b1.symm
  have e2 : l2 = [] ∧ r2 = [] := by simpa using b2.symm
  rw [e1.1, e1.2] at c1
  rw [e2.1, e2.2] at c2
  exact Prod.ext (a1.trans a2.symm) (c1.trans c2.symm)

/-- **C08.md_inserted** — in a query that already carries metadata, the new dictionary is inserted somewhere into the
list, the others keep their order: where exactly depends on the position (outermost first). -/
theorem md_inserted (q q1 m : Q) (p : List Step) (h : attachAt m p q = some q1) (hv : validPos p q = true) :
    ∃ l r, (strip q).2 = l ++ r ∧ (strip q1).2 = l ++ m :: r :=
  (attach_spec m p q q1 h hv).2

/-- **C08.md_perm** — so two placements of the same dictionary give metadata lists that are permutations of each other… -/
theorem md_perm (q q1 q2 m : Q) (p p' : List Step)
    (h1 : attachAt m p q = some q1) (hv1 : validPos p q = true)
    (h2 : attachAt m p' q = some q2) (hv2 : validPos p' q = true) :
    (strip q1).1 = (strip q2).1 ∧ (strip q1).2.Perm (strip q2).2 := by
  obtain ⟨a1, l1, r1, b1, c1⟩ := attach_spec m p q q1 h1 hv1
  obtain ⟨a2, l2, r2, b2, c2⟩ := attach_spec m p' q q2 h2 hv2
  refine ⟨a1.trans a2.symm, ?_⟩
  rw [c1, c2]
  have e1 : (l1 ++ m :: r1).Perm (m :: (strip q).2) := by rw [b1]; exact List.perm_middle
  have e2 : (l2 ++ m :: r2).Perm (m :: (strip q).2) := by rw [b2]; exact List.perm_middle
  exact e1.trans e2.symm

/-- … and the same holds for any number of MetaData calls attached one after the other at arbitrary valid positions:
the extracted query is the one without metadata, the list is a permutation of the attached dictionaries. -/
theorem md_many (pl : List (List Step × Q)) (q q' : Q) (h : attachMany pl q = some q') :
    (strip q').1 = (strip q).1 ∧ (strip q').2.Perm (pl.map (·.2) ++ (strip q).2) := by
  induction pl generalizing q with
  | nil => simp [attachMany] at h; subst h; simp
  | cons pm rest ih =>
    obtain ⟨p, m⟩ := pm
    simp only [attachMany] at h
    by_cases hv : validPos p q = true
    · simp only [hv, if_true] at h
      cases h1 : attachAt m p q with
      | none => simp [h1] at h
      | some q1 =>
        simp only [h1, Option.bind_some] at h
        obtain ⟨a, l, r, b, c⟩ := attach_spec m p q q1 h1 hv
        obtain ⟨a', c'⟩ := ih q1 h
        refine ⟨a'.trans a, c'.trans ?_⟩
        rw [c, b]
        simp only [List.map_cons, List.cons_append]
        exact (List.Perm.append_left _ List.perm_middle).trans List.perm_middle
    · simp [hv] at h

/-- **C08.proc_perm_partial** — `process_metadata` (with the executor's use of its result) on two orders of the same
items.  Full statement: the registries are the same for every permutation.  That is false as it stands — the later of two
different declarations of one method wins, injected blocks and job scripts are emitted in list order — so the hypothesis
`commutingAll` (decidable) asks that no two items conflict: same table and key ⇒ same content; injected blocks /
scripts pairwise equal; at most one class of failing item. Under it the result (state or error class) is the same for
all orders, from any starting state. -/
theorem proc_perm_partial (l l' : List MdItem) (hp : l.Perm l') (hc : commutingAll l = true) (s : MdState) :
    procMd s l = procMd s l' :=
  procMd_perm hp ((commutingAll_iff l).1 hc) s

/-- the hypothesis cannot be dropped: two declarations of the same method with different types -/
theorem proc_perm_counterexample :
    ∃ l l' : List MdItem, l.Perm l' ∧
      (procMd MdState.init l).toOption.map (fun s => s.types "A::m") ≠
      (procMd MdState.init l').toOption.map (fun s => s.types "A::m") :=
  ⟨[.methodType "A::m" "int", .methodType "A::m" "double"], [.methodType "A::m" "double", .methodType "A::m" "int"],
    List.Perm.swap _ _ _, by decide⟩

/-- non-vacuity of (c): the same dictionary at the top of a two-step chain, at the dataset, and inside a lambda body -/
example :
    let q := Q.call "Select" [Q.call "Where" [Q.call "EventDataset" [], .lam ["e"] (.lit "bool:True")],
                              .lam ["e"] (Q.call "Count" [.app (Q.attr (.var "e") "Jets") [.lit "str:'J'"]])]
    let m := Q.node "dict" [.lit "str:'metadata_type'", .lit "str:'inject_code'"]
    (attachAt m [] q).map strip = (attachAt m [.arg 0, .arg 0] q).map strip ∧
    (attachAt m [] q).map strip = (attachAt m [.arg 1, .body, .arg 0] q).map strip ∧
    validPos [.arg 1, .body, .arg 0] q = true := by
  decide

end FaxVerif.C08
