/-
C08 driver: one JSON request per line on stdin, one JSON answer per line on stdout.
Terms: {"v":name} | {"c":text} | {"l":[params],"b":body} | {"f":func,"a":[args]} | {"n":tag,"k":[kids]}
  {"op":"alpha","q":T,"q2":T}                      -> {"alpha":bool}
  {"op":"stack","ops":[["push"]|["pop"]|["def",name,val]|["get",name]]}  -> {"gets":[val|null,..]}
  {"op":"strip","q":T}                             -> {"q":T,"mds":[T]}
  {"op":"simp","q":T,"n":k,"fuel":k}               -> {"q":T,"n":k,"bang":bool}
  {"op":"pre","q":T}                               -> {"q":T,"aliasRisk":bool,"shadowRisk":bool}   (the query as simplify_chained_calls receives it)
  {"op":"wprint","q":T}                            -> {"toks":[..]} | {"none":true}
  {"op":"wprint2","q":T}                           -> {"toks":[..],"wireOK":bool,"back":T,"changed":bool} | {"none":true}   (wprint after wirePre)
  {"op":"wparse","toks":[..]}                      -> {"q":T} | {"none":true}
  {"op":"procmd","items":[[kind,key,val]..],"keys":[..]}   -> {"err":cls} | {"types":[..],"fns":[..],"enums":[..],"injects":[..],"scripts":[..]}
  {"op":"variant","kind":K,"q":T,"q2":T,...}       -> {"related":bool,"excluded":string|null, ...}
      kind "alpha" with "globals":[names]           -> also {"readsGlobal":bool,"readsGlobal2":bool,"binderLikeGlobal":bool}
  {"op":"mdsame","items":[..],"items2":[..],"scripts":[[name,[lines],[deps]]..],"scripts2":[..],"scriptsUsed":bool}
                                                   -> {"same":bool,"sameByKind":bool,"commuting":bool,"refused":bool}
  {"op":"emitscripts","scripts":[[name,[lines],[deps]]..]}   -> {"ok":[lines]} | {"err":cls}      (generate_script_block)
  {"op":"put","id":I,"toks":[tok..]}               -> {"put":true}      (a lexed file, kept for later `same` requests)
  {"op":"same","a":O,"b":O}                        -> {"strict":bool,"diag":bool,"firstDiff":k}   O = {"ok":[I..]} | {"err":cls}
Run: lake env lean --run FaxVerif/C08/Driver.lean
-/
import Lean.Data.Json
import Std.Data.HashMap
import FaxVerif.C08.Spec
import FaxVerif.C08.MdModel
import FaxVerif.C08.WireN
open Lean FaxVerif.C08

partial def qOfJson (j : Json) : Except String Q := do
  match j.getObjVal? "v" with
  | .ok v => return .var (← v.getStr?)
  | .error _ => pure ()
  match j.getObjVal? "c" with
  | .ok v => return .lit (← v.getStr?)
  | .error _ => pure ()
  match j.getObjVal? "l" with
  | .ok ps =>
    let ps ← (← ps.getArr?).toList.mapM (·.getStr?)
    return .lam ps (← qOfJson (← j.getObjVal? "b"))
  | .error _ => pure ()
  match j.getObjVal? "f" with
  | .ok f =>
    let as ← (← (← j.getObjVal? "a").getArr?).toList.mapM qOfJson
    return .app (← qOfJson f) as
  | .error _ => pure ()
  let t ← (← j.getObjVal? "n").getStr?
  let ks ← (← (← j.getObjVal? "k").getArr?).toList.mapM qOfJson
  return .node t ks

partial def qToJson : Q → Json
  | .var x => Json.mkObj [("v", x)]
  | .lit c => Json.mkObj [("c", c)]
  | .lam ps b => Json.mkObj [("l", Json.arr (ps.map Json.str).toArray), ("b", qToJson b)]
  | .app f as => Json.mkObj [("f", qToJson f), ("a", Json.arr (as.map qToJson).toArray)]
  | .node t ks => Json.mkObj [("n", t), ("k", Json.arr (ks.map qToJson).toArray)]

def strs (j : Json) : Except String (List String) := do
  (← j.getArr?).toList.mapM (·.getStr?)

def jstrs (l : List String) : Json := Json.arr (l.map Json.str).toArray

def tokOf (s : String) : Tok :=
  match s.toList with
  | '\x01' :: r => .gen (String.ofList r)
  | '\x02' :: r => .diag (String.ofList r)
  | '\x03' :: r => .diagGen (String.ofList r)
  | _ => .plain s

abbrev Store := Std.HashMap String (List Tok)

/-- an outcome refers to lexed files stored earlier with `put` (most files of a package are the same for all variants) -/
def outcomeOf (store : Store) (j : Json) : Except String Outcome := do
  match j.getObjVal? "ok" with
  | .ok t =>
    let ids ← strs t
    let parts ← ids.mapM (fun i => match store[i]? with
      | some l => pure l
      | none => throw s!"unknown file id {i}")
    return .ok parts.flatten
  | .error _ => return .err (← (← j.getObjVal? "err").getStr?)

def stepOf (j : Json) : Except String Step := do
  let i ← j.getInt?
  -- -1 function position; the harness encodes  lambda body = 0, argument/child i = i, told apart by the term
  return if i < 0 then .fn else .arg i.toNat

/-- the harness' paths do not say whether a step enters an argument, a child or a lambda body: resolve against the term -/
def resolvePath : List Int → Q → Option (List Step)
  | [], _ => some []
  | i :: p, .lam _ b => if i == 0 then (resolvePath p b).map (.body :: ·) else none
  | i :: p, .app f as =>
    if i < 0 then (resolvePath p f).map (.fn :: ·)
    else match as[i.toNat]? with
      | some a => (resolvePath p a).map (.arg i.toNat :: ·)
      | none => none
  | i :: p, .node _ ks =>
    if i < 0 then none
    else match ks[i.toNat]? with
      | some a => (resolvePath p a).map (.kid i.toNat :: ·)
      | none => none
  | _, _ => none

def mdItemOf (j : Json) : Except String MdItem := do
  let a ← strs j
  match a with
  | [k, x, y] =>
    if k == "methodType" then return .methodType x y
    else if k == "fn" then return .fn x y
    else if k == "enum" then return .enum x y
    else if k == "inject" then return .inject x y
    else if k == "script" then return .script x y
    else return .bad x
  | _ => throw "bad md item"

def sblkOf (j : Json) : Except String SBlk := do
  match (← j.getArr?).toList with
  | [n, sc, ds] => return ⟨← n.getStr?, ← strs sc, ← strs ds⟩
  | _ => throw "bad script block"

def optStr : Option String → Json
  | some s => Json.str s
  | none => Json.null

def pairs (l : List (String × String)) : Json := Json.arr (l.map (fun p => Json.arr #[Json.str p.1, Json.str p.2])).toArray

/-- run the argument_stack model on a sequence of operations; `Stack` keeps the innermost frame first -/
def runStack (ops : List (List String)) : List (Option String) :=
  let rec go : List (List String) → Stack String → List (Option String) → List (Option String)
    | [], _, acc => acc.reverse
    | op :: rest, st, acc =>
      match op with
      | ["push"] => go rest ([] :: st) acc
      | ["pop"] => go rest (st.drop 1) acc
      | ["def", n, v] => match st with
        | f :: fs => go rest ((f ++ [(n, v)]) :: fs) acc
        | [] => go rest st acc
      | ["get", n] => go rest st (st.lookup n :: acc)
      | _ => go rest st acc
  go ops [[]] []

def firstDiff (a b : List String) : Nat :=
  let rec go : List String → List String → Nat → Nat
    | x :: xs, y :: ys, i => if x == y then go xs ys (i + 1) else i
    | _, _, i => i
  go a b 0

def handleReq (store : Store) (j : Json) : Except String Json := do
  let op ← (← j.getObjVal? "op").getStr?
  if op == "alpha" then
    let q ← qOfJson (← j.getObjVal? "q")
    let q2 ← qOfJson (← j.getObjVal? "q2")
    return Json.mkObj [("alpha", alphaB q q2)]
  else if op == "stack" then
    let ops ← (← (← j.getObjVal? "ops").getArr?).toList.mapM strs
    return Json.mkObj [("gets", Json.arr ((runStack ops).map optStr).toArray)]
  else if op == "strip" then
    let q ← qOfJson (← j.getObjVal? "q")
    let r := strip q
    return Json.mkObj [("q", qToJson r.1), ("mds", Json.arr (r.2.map qToJson).toArray)]
  else if op == "simp" then
    let q ← qOfJson (← j.getObjVal? "q")
    let n ← (← j.getObjVal? "n").getNat?
    let fuel ← (← j.getObjVal? "fuel").getNat?
    let r := simplify fuel [] n q
    return Json.mkObj [("q", qToJson r.1), ("n", r.2), ("bang", hasBang r.1)]
  else if op == "pre" then
    let q ← qOfJson (← j.getObjVal? "q")
    return Json.mkObj [("q", qToJson (preSimp q)), ("aliasRisk", aliasRisk (preSimp q)), ("shadowRisk", shadowRisk (preSimp q))]
  else if op == "wprint" then
    let q ← qOfJson (← j.getObjVal? "q")
    match wprint q with
    | some t => return Json.mkObj [("toks", jstrs t), ("wireOK", wireOK q)]
    | none => return Json.mkObj [("none", true), ("wireOK", wireOK q)]
  else if op == "wprint2" then
    -- qastle's printer on every query (n-ary and/or, chained comparisons): tokens, and what comes back over the wire
    let q ← qOfJson (← j.getObjVal? "q")
    match wprint2 q with
    | some t => return Json.mkObj [("toks", jstrs t), ("wireOK", wireOK (wirePre q)), ("back", qToJson (wireNorm2 q)), ("changed", !(wirePre q == q))]
    | none => return Json.mkObj [("none", true), ("wireOK", wireOK (wirePre q))]
  else if op == "wparse" then
    let t ← strs (← j.getObjVal? "toks")
    match wparse (2 * t.length + 2) t with
    | some (q, []) => return Json.mkObj [("q", qToJson q)]
    | _ => return Json.mkObj [("none", true)]
  else if op == "procmd" then
    let items ← (← (← j.getObjVal? "items").getArr?).toList.mapM mdItemOf
    let keys ← strs (← j.getObjVal? "keys")
    match procMd MdState.init items with
    | .error e => return Json.mkObj [("err", e), ("commuting", commutingAll items)]
    | .ok s => return Json.mkObj [
        ("types", Json.arr (keys.map (fun k => optStr (s.types k))).toArray),
        ("fns", Json.arr (keys.map (fun k => optStr (s.fns k))).toArray),
        ("enums", Json.arr (keys.map (fun k => optStr (s.enums k))).toArray),
        ("injects", pairs s.injects), ("scripts", pairs s.scripts), ("commuting", commutingAll items)]
  else if op == "mdsame" then
    let items ← (← (← j.getObjVal? "items").getArr?).toList.mapM mdItemOf
    let items2 ← (← (← j.getObjVal? "items2").getArr?).toList.mapM mdItemOf
    let sc ← (← (← j.getObjVal? "scripts").getArr?).toList.mapM sblkOf
    let sc2 ← (← (← j.getObjVal? "scripts2").getArr?).toList.mapM sblkOf
    let used ← (← j.getObjVal? "scriptsUsed").getBool?
    let refused := match mdView (keysOf items) items sc used with
      | .ok _ => false
      | .error _ => true
    return Json.mkObj [("same", mdSameB items items2 sc sc2 used), ("sameByKind", sameByKind items items2),
                       ("commuting", commutingAll items), ("refused", refused)]
  else if op == "emitscripts" then
    let sc ← (← (← j.getObjVal? "scripts").getArr?).toList.mapM sblkOf
    match emitScripts sc with
    | .ok out => return Json.mkObj [("ok", jstrs out)]
    | .error e => return Json.mkObj [("err", e)]
  else if op == "variant" then
    let kind ← (← j.getObjVal? "kind").getStr?
    let q ← qOfJson (← j.getObjVal? "q")
    let q2 ← qOfJson (← j.getObjVal? "q2")
    let fuel := 4000
    let base := [("shadowRisk", Json.bool (shadowRisk (preSimp q) || shadowRisk (preSimp q2))),
                 ("aliasRisk", Json.bool (aliasRisk (preSimp q) || aliasRisk (preSimp q2))),
                 ("argNameRisk", Json.bool (argNameRisk q || argNameRisk q2)),
                 ("captureFree", Json.bool (captureFreeB fuel q && captureFreeB fuel q2))]
    if kind == "alpha" then
      -- optional "globals": the namespaces the query declares; does the query read one free / is a parameter spelled like one?
      let globals := match j.getObjVal? "globals" with
        | .ok g => match strs g with
          | .ok l => l
          | .error _ => []
        | .error _ => []
      return Json.mkObj ([("related", Json.bool (alphaB q q2)),
                          ("readsGlobal", Json.bool (readsAnyB globals q)), ("readsGlobal2", Json.bool (readsAnyB globals q2)),
                          ("binderLikeGlobal", Json.bool (binderAmongB globals q2))] ++ base)
    else if kind == "style" then
      return Json.mkObj ([("related", Json.bool (normStyle q == normStyle q2))] ++ base)
    else if kind == "md" then
      return Json.mkObj ([("related", Json.bool (mdMovedB q q2)), ("sameOrder", Json.bool (mdSameOrderB q q2))] ++ base)
    else if kind == "combined" then
      -- renamed + restyled + metadata moved
      let a := normStyle (strip q).1
      let b := normStyle (strip q2).1
      return Json.mkObj ([("related", Json.bool (alphaB a b && permB (strip q).2 (strip q2).2)),
                          ("sameOrder", Json.bool ((strip q).2 == (strip q2).2))] ++ base)
    else if kind == "fuse" then
      -- q2 must be q with fuseA applied at `path` (of the metadata-free, call-style query)
      let path ← (← (← j.getObjVal? "path").getArr?).toList.mapM (·.getInt?)
      let z ← (← j.getObjVal? "z").getStr?
      let rel := match resolvePath path q with
        | some p => match mapAt (fuseA z) p q with
          | some r => r == q2
          | none => false
        | none => false
      let siteOk := match resolvePath path q with
        | some p => fuseSiteOkB fuel q p
        | none => false
      return Json.mkObj ([("related", Json.bool rel), ("sameNF", Json.bool (sameNormalFormB fuel q q2)),
                          ("sameNF2", Json.bool (sameNormalForm2B fuel q q2)), ("siteOk", Json.bool siteOk)] ++ base)
    else if kind == "nf" then
      -- fused by substitution / unfused: `path` is the site in whichever of the two is the separately written one
      let path ← (← (← j.getObjVal? "path").getArr?).toList.mapM (·.getInt?)
      let sep ← qOfJson (← j.getObjVal? "sep")
      let siteOk := match resolvePath path sep with
        | some p => fuseSiteOkB fuel sep p
        | none => false
      return Json.mkObj ([("related", Json.bool true), ("sameNF", Json.bool (sameNormalFormB fuel q q2)),
                          ("sameNF2", Json.bool (sameNormalForm2B fuel q q2)), ("siteOk", Json.bool siteOk)] ++ base)
    else if kind == "wire" then
      return Json.mkObj ([("related", Json.bool (wireNorm q == wireNorm q2))] ++ base)
    else throw s!"unknown variant kind {kind}"
  else if op == "same" then
    let a ← outcomeOf store (← j.getObjVal? "a")
    let b ← outcomeOf store (← j.getObjVal? "b")
    let strict := decide (SameOutcome true a b)
    let diag := decide (SameOutcome false a b)
    let where_ := match a, b with
      | .ok x, .ok y => firstDiff (canon true x) (canon true y)
      | _, _ => 0
    return Json.mkObj [("strict", strict), ("diag", diag), ("firstDiff", where_)]
  else throw s!"unknown op {op}"

def handle (store : Store) (line : String) : Store × String :=
  match Json.parse line with
  | .error e => (store, (Json.mkObj [("bad", e)]).compress)
  | .ok j =>
    match j.getObjVal? "op" with
    | .ok (Json.str "put") =>
      let r : Except String Store := do
        let id ← (← j.getObjVal? "id").getStr?
        let t ← strs (← j.getObjVal? "toks")
        pure (store.insert id (t.map tokOf))
      match r with
      | .ok st => (st, (Json.mkObj [("put", true)]).compress)
      | .error e => (store, (Json.mkObj [("bad", e)]).compress)
    | _ => match handleReq store j with
      | .ok r => (store, r.compress)
      | .error e => (store, (Json.mkObj [("bad", e)]).compress)

partial def loopIO (h : IO.FS.Stream) (out : IO.FS.Stream) (store : Store) : IO Unit := do
  let line ← h.getLine
  if line.isEmpty then return ()
  let t := line.trimAscii.toString
  if t.isEmpty then loopIO h out store
  else
    let (st, ans) := handle store t
    out.putStrLn ans
    loopIO h out st

def main : IO Unit := do
  let out ← IO.getStdout
  loopIO (← IO.getStdin) out {}
  out.flush
