/-
C08 — executable models (no Mathlib; everything here is computable and is what the driver runs).

* `Q`        the abstract query: Python's expression AST reduced to what the pipeline looks at
             (names, constants, lambdas, calls, and every other node as a tagged node with children in
             `ast.NodeVisitor.generic_visit` order).  tools/c08_lib/terms.py is the Python twin.
* `resolve`  names → de Bruijn indices (`DB`).
* `Stack`    func_adl `argument_stack` (the frame stack of `ast_to_cpp_translator.py`: `visit_Name`/`resolve_id`,
             `visit_Call_Lambda`) and `eval`, an abstract translator over an arbitrary algebra of handlers whose
             only access to names is that frame stack.
* `strip`    func_adl `extract_metadata`;  `attachAt` wraps a `MetaData` call around any sub-term.
* `procMd`   the order-relevant content of `process_metadata` + the executor's use of its result.
* `simplify`     func_adl `simplify_chained_calls` (β-reduction through the frame stack, Select/Where/SelectMany
             fusion and permutation rules, tuple/list/dict projection, moving `.attr`, `[i]`, `.m()` past `First`).
* `wprint`/`wparse`  qastle's text format at token level.
* `canon`    first-occurrence renumbering of generated names in a lexed package.
-/
namespace FaxVerif.C08

/-! ## Queries -/

inductive Q where
  | var (x : String)
  | lit (c : String)                     -- `<type>:<repr>` of an `ast.Constant`
  | lam (ps : List String) (b : Q)
  | app (f : Q) (args : List Q)          -- `ast.Call` without keywords
  | node (tag : String) (kids : List Q)  -- attr:<n> | bin:<Op> | un:<Op> | cmp:<Op> | bool:<Op> | if | tuple | list | dict | sub
deriving Repr, Inhabited

/-- de Bruijn form: a bound name is the distance to its binder (the last parameter of the innermost lambda is 0). -/
inductive DB where
  | bvar (i : Nat)
  | fvar (x : String)
  | lit (c : String)
  | lam (n : Nat) (b : DB)
  | app (f : DB) (args : List DB)
  | node (tag : String) (kids : List DB)
deriving Repr, Inhabited

mutual
def Q.beq : Q → Q → Bool
  | .var x, .var y => x == y
  | .lit c, .lit d => c == d
  | .lam ps b, .lam ps' b' => ps == ps' && Q.beq b b'
  | .app f as, .app f' as' => Q.beq f f' && Q.beqL as as'
  | .node t ks, .node t' ks' => t == t' && Q.beqL ks ks'
  | _, _ => false
def Q.beqL : List Q → List Q → Bool
  | [], [] => true
  | a :: as, b :: bs => Q.beq a b && Q.beqL as bs
  | _, _ => false
end

mutual
def DB.beq : DB → DB → Bool
  | .bvar i, .bvar j => i == j
  | .fvar x, .fvar y => x == y
  | .lit c, .lit d => c == d
  | .lam n b, .lam n' b' => n == n' && DB.beq b b'
  | .app f as, .app f' as' => DB.beq f f' && DB.beqL as as'
  | .node t ks, .node t' ks' => t == t' && DB.beqL ks ks'
  | _, _ => false
def DB.beqL : List DB → List DB → Bool
  | [], [] => true
  | a :: as, b :: bs => DB.beq a b && DB.beqL as bs
  | _, _ => false
end

instance : BEq Q := ⟨Q.beq⟩
instance : BEq DB := ⟨DB.beq⟩

def Q.call (name : String) (args : List Q) : Q := .app (.var name) args
def Q.attr (v : Q) (name : String) : Q := .node ("attr:" ++ name) [v]

/-- `func_adl.ast.func_adl_ast_utils.is_call_of` -/
def Q.isCallOf : Q → String → Bool
  | .app (.var f) _, name => f == name
  | _, _ => false

/-! ## Names → de Bruijn indices -/

/-- position of the first occurrence -/
def idx : List String → String → Option Nat
  | [], _ => none
  | y :: ys, x => if x = y then some 0 else (idx ys x).map (· + 1)

mutual
def resolve (ctx : List String) : Q → DB
  | .var x => match idx ctx x with
    | some i => .bvar i
    | none => .fvar x
  | .lit c => .lit c
  | .lam ps b => .lam ps.length (resolve (ps.reverse ++ ctx) b)
  | .app f as => .app (resolve ctx f) (resolveL ctx as)
  | .node t ks => .node t (resolveL ctx ks)
def resolveL (ctx : List String) : List Q → List DB
  | [] => []
  | q :: qs => resolve ctx q :: resolveL ctx qs
end

/-- α-equivalence, defined on named terms: the two terms are walked in parallel with the list of paired
binders (innermost first).  Two names match when the innermost pair mentioning either of them pairs exactly
these two; names mentioned by no pair are free and must be equal. -/
def pairOk : List (String × String) → String → String → Prop
  | [], x, y => x = y
  | (a, b) :: rest, x, y => if a = x ∨ b = y then (a = x ∧ b = y) else pairOk rest x y

mutual
def AlphaEq (ctx : List (String × String)) : Q → Q → Prop
  | .var x, .var y => pairOk ctx x y
  | .lit c, .lit d => c = d
  | .lam ps b, .lam ps' b' => ps.length = ps'.length ∧ AlphaEq ((ps.zip ps').reverse ++ ctx) b b'
  | .app f as, .app f' as' => AlphaEq ctx f f' ∧ AlphaEqL ctx as as'
  | .node t ks, .node t' ks' => t = t' ∧ AlphaEqL ctx ks ks'
  | _, _ => False
def AlphaEqL (ctx : List (String × String)) : List Q → List Q → Prop
  | [], [] => True
  | a :: as, b :: bs => AlphaEq ctx a b ∧ AlphaEqL ctx as bs
  | _, _ => False
end

/-! ## The frame stack of the translator (`func_adl.ast.call_stack.argument_stack`) -/

/-- one frame: the `define_name` calls in order (a Python dict: the last definition of a name wins) -/
abbrev Frame (ρ : Type) := List (String × ρ)
/-- innermost frame first -/
abbrev Stack (ρ : Type) := List (Frame ρ)

def Frame.get? {ρ} : Frame ρ → String → Option ρ
  | [], _ => none
  | (y, v) :: rest, x => match Frame.get? rest x with
    | some w => some w           -- a later definition wins
    | none => if x = y then some v else none

/-- `lookup_name`: "starting from the deepest frame on up until it is found" -/
def Stack.lookup {ρ} : Stack ρ → String → Option ρ
  | [], _ => none
  | f :: fs, x => match f.get? x with
    | some v => some v
    | none => Stack.lookup fs x

/-- names bound by a stack, innermost first (within a frame: last defined first) -/
def Stack.names {ρ} (s : Stack ρ) : List String := s.flatMap (fun f => f.reverse.map (·.1))
def Stack.vals {ρ} (s : Stack ρ) : List ρ := s.flatMap (fun f => f.reverse.map (·.2))

/-- The handlers of an abstract translator.  They see representations (`ρ`) and the translator state (`σ`:
cursor, emitted code, counters …) — never a bound name.  `pre` runs before each non-lambda child (so that a
handler can emit `if (…) {` between the test and the branches, open loops, …); `enter` supplies the values the
parameters of a lambda argument are bound to (the sequence value for Select/Where/SelectMany, accumulator and
element for Aggregate). -/
structure Alg (ρ σ : Type) where
  free : String → σ → Except String (ρ × σ)
  lit : String → σ → Except String (ρ × σ)
  pre : String → List ρ → σ → Except String σ
  enter : String → List ρ → Nat → σ → Except String (List ρ × σ)
  post : String → List ρ → σ → Except String (ρ × σ)

/-- The same translator with another table of global names (what `free` answers for a name no frame binds: the
namespaces declared through `define_enum` metadata live in a module-level table of `cpp_types`). -/
def Alg.withFree {ρ σ} (alg : Alg ρ σ) (free' : String → σ → Except String (ρ × σ)) : Alg ρ σ :=
  { alg with free := free' }

/-- A call whose function is a name bound by a lambda: the real visitor dispatches on the spelling of the name
(`call_<name>`) and otherwise raises "Do not know how to call"; the model refuses all of them. -/
def boundHead {ρ} (st : Stack ρ) (x : String) : Bool := (st.lookup x).isSome

def finish {ρ σ} (alg : Alg ρ σ) (tag : String) : Except String (List ρ × σ) → Except String (ρ × σ)
  | .ok (vs, s) => alg.post tag vs s
  | .error e => .error e

mutual
/-- The translator's traversal with the frame stack. `visit_Name`: look the name up, innermost frame first;
a lambda argument is entered with a fresh frame binding its parameters (`visit_Call_Lambda` under
`stack_frame`) and the frame is dropped afterwards.  A call is dispatched on the function name (`call:f`, the
name is not evaluated), on the method name (`method:attr:m`, the receiver is the first child) or dynamically. -/
def eval {ρ σ} (alg : Alg ρ σ) (st : Stack ρ) : Q → σ → Except String (ρ × σ)
  | .var x, s => match st.lookup x with
    | some v => .ok (v, s)
    | none => alg.free x s
  | .lit c, s => alg.lit c s
  | .lam _ _, _ => .error "a lambda that is not the argument of an operator has no representation"
  | .app (.var f) as, s =>
    if boundHead st f then .error "call of a bound name"
    else finish alg ("call:" ++ f) (evalKids alg st ("call:" ++ f) [] as s)
  | .app (.node t ks) as, s =>
    match evalKids alg st ("method:" ++ t) [] ks s with
    | .ok (vs, s1) => finish alg ("method:" ++ t) (evalKids alg st ("method:" ++ t) vs as s1)
    | .error e => .error e
  | .app (.lam _ _) _, _ => .error "direct call of a lambda (β-reduced by simplify_chained_calls before translation)"
  | .app f as, s =>
    match alg.pre "dyn" [] s with
    | .ok s0 => match eval alg st f s0 with
      | .ok (v, s1) => finish alg "dyn" (evalKids alg st "dyn" [v] as s1)
      | .error e => .error e
    | .error e => .error e
  | .node t ks, s => finish alg t (evalKids alg st t [] ks s)
def evalKids {ρ σ} (alg : Alg ρ σ) (st : Stack ρ) (tag : String) : List ρ → List Q → σ → Except String (List ρ × σ)
  | done, [], s => .ok (done, s)
  | done, .lam ps b :: rest, s => match alg.enter tag done ps.length s with
    | .ok (vals, s1) =>
      if vals.length = ps.length then
        match eval alg (ps.zip vals :: st) b s1 with
        | .ok (v, s2) => evalKids alg st tag (done ++ [v]) rest s2
        | .error e => .error e
      else .error "arity"
    | .error e => .error e
  | done, k :: rest, s => match alg.pre tag done s with
    | .ok s0 => match eval alg st k s0 with
      | .ok (v, s1) => evalKids alg st tag (done ++ [v]) rest s1
      | .error e => .error e
    | .error e => .error e
end

mutual
/-- the same traversal on the de Bruijn form, with a flat environment -/
def evalDB {ρ σ} (alg : Alg ρ σ) (env : List ρ) : DB → σ → Except String (ρ × σ)
  | .bvar i, s => match env[i]? with
    | some v => .ok (v, s)
    | none => .error "unbound index"
  | .fvar x, s => alg.free x s
  | .lit c, s => alg.lit c s
  | .lam _ _, _ => .error "a lambda that is not the argument of an operator has no representation"
  | .app (.fvar f) as, s => finish alg ("call:" ++ f) (evalKidsDB alg env ("call:" ++ f) [] as s)
  | .app (.bvar _) _, _ => .error "call of a bound name"
  | .app (.node t ks) as, s =>
    match evalKidsDB alg env ("method:" ++ t) [] ks s with
    | .ok (vs, s1) => finish alg ("method:" ++ t) (evalKidsDB alg env ("method:" ++ t) vs as s1)
    | .error e => .error e
  | .app (.lam _ _) _, _ => .error "direct call of a lambda (β-reduced by simplify_chained_calls before translation)"
  | .app f as, s =>
    match alg.pre "dyn" [] s with
    | .ok s0 => match evalDB alg env f s0 with
      | .ok (v, s1) => finish alg "dyn" (evalKidsDB alg env "dyn" [v] as s1)
      | .error e => .error e
    | .error e => .error e
  | .node t ks, s => finish alg t (evalKidsDB alg env t [] ks s)
def evalKidsDB {ρ σ} (alg : Alg ρ σ) (env : List ρ) (tag : String) : List ρ → List DB → σ → Except String (List ρ × σ)
  | done, [], s => .ok (done, s)
  | done, .lam n b :: rest, s => match alg.enter tag done n s with
    | .ok (vals, s1) =>
      if vals.length = n then
        match evalDB alg (vals.reverse ++ env) b s1 with
        | .ok (v, s2) => evalKidsDB alg env tag (done ++ [v]) rest s2
        | .error e => .error e
      else .error "arity"
    | .error e => .error e
  | done, k :: rest, s => match alg.pre tag done s with
    | .ok s0 => match evalDB alg env k s0 with
      | .ok (v, s1) => evalKidsDB alg env tag (done ++ [v]) rest s1
      | .error e => .error e
    | .error e => .error e
end


/-! ## MetaData: `func_adl.ast.meta_data.extract_metadata` -/

def isMdHead : Q → Bool
  | .var f => f == "MetaData"
  | _ => false

mutual
/-- `_extract_metadata`: a pre-order walk; a call `MetaData(src, d, …)` is replaced by the walked `src` and `d`
is appended to the list *before* `src` is walked (so the list is outermost first); nothing but `src` is looked
at inside a MetaData call.  A `MetaData` call with fewer than two arguments raises IndexError in the code; the
model leaves it in place. -/
def strip : Q → Q × List Q
  | .var x => (.var x, [])
  | .lit c => (.lit c, [])
  | .lam ps b => (.lam ps (strip b).1, (strip b).2)
  | .app f as =>
    match isMdHead f, as, stripL as with
    | true, _ :: d :: _, r :: _ => (r.1, d :: r.2)
    | _, _, rs => (.app (strip f).1 (rs.map (·.1)), (strip f).2 ++ rs.flatMap (·.2))
  | .node t ks => (.node t ((stripL ks).map (·.1)), (stripL ks).flatMap (·.2))
def stripL : List Q → List (Q × List Q)
  | [] => []
  | q :: qs => strip q :: stripL qs
end

inductive Step where
  | fn | arg (i : Nat) | body | kid (i : Nat)
deriving Repr, DecidableEq, Inhabited

def wrapMd (q m : Q) : Q := .app (.var "MetaData") [q, m]

mutual
/-- wrap the sub-term at a path in `MetaData(·, m)` -/
def attachAt (m : Q) : List Step → Q → Option Q
  | [], q => some (wrapMd q m)
  | .body :: p, .lam ps b => (attachAt m p b).map (.lam ps ·)
  | .fn :: p, .app f as => (attachAt m p f).map (.app · as)
  | .arg i :: p, .app f as => (attachAtL m i p as).map (.app f ·)
  | .kid i :: p, .node t ks => (attachAtL m i p ks).map (.node t ·)
  | _, _ => none
def attachAtL (m : Q) : Nat → List Step → List Q → Option (List Q)
  | _, _, [] => none
  | 0, p, q :: qs => (attachAt m p q).map (· :: qs)
  | i + 1, p, q :: qs => (attachAtL m i p qs).map (q :: ·)
end

mutual
/-- A position is valid when it does not lie inside a part of an existing MetaData call that
`extract_metadata` never looks at (its function name, its dictionary, further arguments). -/
def validPos : List Step → Q → Bool
  | [], _ => true
  | .body :: p, .lam _ b => validPos p b
  | .fn :: p, .app f as => !(isMdHead f && as.length ≥ 2) && validPos p f
  | .arg i :: p, .app f as => (!(isMdHead f && as.length ≥ 2) || i == 0) && validPosL i p as
  | .kid i :: p, .node _ ks => validPosL i p ks
  | _, _ => false
def validPosL : Nat → List Step → List Q → Bool
  | _, _, [] => false
  | 0, p, q :: _ => validPos p q
  | i + 1, p, _ :: qs => validPosL i p qs
end

/-! ## What `process_metadata` and the executor make of the metadata list

Each dictionary is abstracted to the table it writes into, its key there, and its content (the harness
computes the content by processing the dictionary on its own). -/

inductive MdItem where
  | methodType (key val : String)   -- `add_method_type_info`: g_method_type_dict[type][method] := …  (last wins)
  | fn (name val : String)          -- `add_cpp_function`, collection infos: method_names.update({name: …}) (last wins)
  | enum (key val : String)         -- `define_enum`: first definition wins
  | inject (name val : String)      -- `inject_code`: appended in order; an equal block is dropped, same name with other content raises
  | script (name val : String)      -- `add_job_script`: appended in order
  | bad (cls : String)              -- raises (missing/unknown `metadata_type`, missing key, …)
deriving Repr, DecidableEq, Inhabited

structure MdState where
  types : String → Option String
  fns : String → Option String
  enums : String → Option String
  injects : List (String × String)
  scripts : List (String × String)

def MdState.init : MdState := ⟨fun _ => none, fun _ => none, fun _ => none, [], []⟩

def upd (f : String → Option String) (k v : String) : String → Option String :=
  fun x => if x = k then some v else f x

def MdItem.step (s : MdState) : MdItem → Except String MdState
  | .methodType k v => .ok { s with types := upd s.types k v }
  | .fn k v => .ok { s with fns := upd s.fns k v }
  | .enum k v => .ok (match s.enums k with
      | some _ => s
      | none => { s with enums := upd s.enums k v })
  | .inject n v =>
    match s.injects.find? (·.1 == n) with
    | some b => if b.2 = v then .ok s else .error "ValueError"
    | none => .ok { s with injects := s.injects ++ [(n, v)] }
  | .script n v => .ok { s with scripts := s.scripts ++ [(n, v)] }
  | .bad c => .error c

def procMd : MdState → List MdItem → Except String MdState
  | s, [] => .ok s
  | s, i :: is => match i.step s with
    | .ok s' => procMd s' is
    | .error e => .error e

/-- two items whose order is irrelevant -/
def MdItem.commutes : MdItem → MdItem → Bool
  | .methodType k v, .methodType k' v' => k != k' || v == v'
  | .fn k v, .fn k' v' => k != k' || v == v'
  | .enum k v, .enum k' v' => k != k' || v == v'
  | .inject n v, .inject n' v' => n == n' && v == v'
  | .script n v, .script n' v' => n == n' && v == v'
  | .bad c, .bad c' => c == c'
  | .bad c, .inject _ _ => c == "ValueError"     -- an inject_code conflict raises ValueError as well
  | .inject _ _, .bad c => c == "ValueError"
  | _, _ => true

def commutingAll : List MdItem → Bool
  | [] => true
  | i :: is => is.all (fun j => i.commutes j && j.commutes i) && commutingAll is

/-! ## `func_adl.ast.function_simplifier.simplify_chained_calls` -/

def argName (n : Nat) : String := "arg_" ++ toString n

def argNames (n k : Nat) : List String := (List.range k).map (fun i => argName (n + i))

def renLookup : List (String × String) → String → String
  | [], x => x
  | (a, b) :: rest, x => if x = a then b else renLookup rest x

mutual
/-- the renaming pass of `make_args_unique` (it keeps its own scope stack, so inner lambdas shadow correctly) -/
def renVars (m : List (String × String)) : Q → Q
  | .var x => .var (renLookup m x)
  | .lit c => .lit c
  | .lam ps b => .lam ps (renVars (ps.reverse.map (fun p => (p, p)) ++ m) b)
  | .app f as => .app (renVars m f) (renVarsL m as)
  | .node t ks => .node t (renVarsL m ks)
def renVarsL (m : List (String × String)) : List Q → List Q
  | [] => []
  | q :: qs => renVars m q :: renVarsL m qs
end

/-- `make_args_unique` on a lambda: the outermost parameters get fresh `arg_N` names -/
def makeArgsUnique (n : Nat) (ps : List String) (b : Q) : Q × Nat :=
  (.lam (argNames n ps.length) (renVars (ps.zip (argNames n ps.length)).reverse b), n + ps.length)

/-- `convolute(g, f)` = `lambda x: g'(f'(x))` -/
def convolute (n : Nat) : Q → Q → Q × Nat
  | .lam gps gb, .lam fps fb =>
    let g := makeArgsUnique n gps gb
    let f := makeArgsUnique g.2 fps fb
    let x := argName f.2
    (.lam [x] (.app g.1 [.app f.1 [.var x]]), f.2 + 1)
  | _, _ => (.lit "!lambda_unwrap", n)

def isIdentity : Q → Bool
  | .lam [p] (.var x) => p == x
  | _ => false

def isTrueLam : Q → Bool
  | .lam _ (.lit c) => c == "bool:True"
  | _ => false

def isLam : Q → Bool
  | .lam _ _ => true
  | _ => false

def makeSelect (src sel : Q) : Q := if isIdentity sel then src else Q.call "Select" [src, sel]

def strLit (s : String) : Q := .lit ("str:'" ++ s ++ "'")

/-- `p` is a prefix of `s` (on character lists, so that the kernel can evaluate it) -/
def startsW (p s : String) : Bool := p.toList.isPrefixOf s.toList

def digitsVal : List Char → Option Nat
  | [] => none
  | ds => ds.foldl (fun acc c => match acc with
      | none => none
      | some a => if c.isDigit then some (a * 10 + (c.toNat - '0'.toNat)) else none) (some 0)

/-- value of an integer-like constant (`int:<n>`, `bool:True/False`) -/
def litInt? (c : String) : Option Int :=
  if c == "bool:True" then some 1
  else if c == "bool:False" then some 0
  else match c.toList with
    | 'i' :: 'n' :: 't' :: ':' :: '-' :: ds => (digitsVal ds).map (fun n => -(n : Int))
    | 'i' :: 'n' :: 't' :: ':' :: ds => (digitsVal ds).map (fun n => (n : Int))
    | _ => none

def dictLookup : List Q → List Q → Q → Option Q
  | k :: ks, v :: vs, key => match k, key with
    | .lit a, .lit b => if a == b then some v else dictLookup ks vs key
    | _, _ => dictLookup ks vs key
  | _, _, _ => none

def dictGet (kvs : List Q) (key : Q) : Option Q :=
  dictLookup (kvs.take (kvs.length / 2)) (kvs.drop (kvs.length / 2)) key

/-- `(t1, t2, …)[n]` -/
def projectSeq (isTuple : Bool) (v : Q) (elts : List Q) (s : Q) : Q :=
  match s with
  | .lit c =>
    if c == "none:None" then .node "sub" [v, s]
    else match litInt? c with
      | some n =>
        if n ≥ (elts.length : Int) then .lit "!FuncADLIndexError"
        else if n ≥ 0 then elts.getD n.toNat (.lit "!IndexError")
        else if n + elts.length ≥ 0 then elts.getD (n + elts.length).toNat (.lit "!IndexError")
        else .lit "!IndexError"
      | none => if isTuple then .lit "!AssertionError" else .lit "!TypeError"
  | _ => .lit "!AttributeError"

def firstArg : Q → Q
  | .app _ (a :: _) => a
  | _ => .lit "!IndexError"

def attrName? (t : String) : Option String :=
  match t.toList with
  | 'a' :: 't' :: 't' :: 'r' :: ':' :: rest => some (String.ofList rest)
  | _ => none

mutual
/-- `simplify_chained_calls().visit`, with the frame stack `env` (names bound by the lambdas whose calls are
being reduced), the global `argument_var_counter` `n`, and fuel for the re-visits of constructed terms.
Results whose text starts with `!` stand for an exception of the code. -/
def simplify : Nat → Stack Q → Nat → Q → Q × Nat
  | 0, _, n, _ => (.lit "!fuel", n)
  | _ + 1, env, n, .var x => ((env.lookup x).getD (.var x), n)          -- visit_Name
  | _ + 1, _, n, .lit c => (.lit c, n)
  | fuel + 1, env, n, .lam ps b =>                                       -- generic_visit: parameters do NOT shadow `env`
    let r := simplify fuel env n b
    (.lam ps r.1, r.2)
  | fuel + 1, env, n, .app (.lam ps b) as =>                            -- visit_Call on a lambda: β
    let r := simplifyL fuel env n as
    simplify fuel (ps.zip r.1 :: env) r.2 b
  | fuel + 1, env, n, .app (.node t [recv]) as =>
    if (attrName? t).isSome && recv.isCallOf "First" then
      -- select_method_call_on_first:  First(seq).m(args)  =>  First(Select(seq, a: a.m(args)))
      let a := argName n
      simplify fuel env (n + 1) (Q.call "First" [makeSelect (firstArg recv) (.lam [a] (.app (.node t [.var a]) as))])
    else
      let rf := simplify fuel env n (.node t [recv])
      let ra := simplifyL fuel env rf.2 as
      (.app rf.1 ra.1, ra.2)
  | fuel + 1, env, n, .app (.var fname) as =>
    if fname == "Select" then
      match as with
      | src :: sel :: _ =>
        if !isLam sel then (.lit "!AssertionError", n) else
        let p := simplify fuel env n src
        if p.1.isCallOf "Select" then
          match p.1 with
          | .app _ (source :: f :: _) =>
            let c := convolute p.2 sel f
            let r := simplify fuel env c.2 c.1
            (makeSelect source r.1, r.2)
          | _ => (.lit "!IndexError", p.2)
        else if p.1.isCallOf "SelectMany" then
          match p.1 with
          | .app _ (source :: .lam fps fb :: _) =>
            simplify fuel env p.2 (Q.call "SelectMany" [source, .lam fps (makeSelect fb sel)])
          | _ => (.lit "!AssertionError", p.2)
        else
          let r := simplify fuel env p.2 sel
          (makeSelect p.1 r.1, r.2)
      | _ => (.lit "!IndexError", n)
    else if fname == "SelectMany" then
      match as with
      | src :: sel :: _ =>
        if !isLam sel then (.lit "!AssertionError", n) else
        let p := simplify fuel env n src
        if p.1.isCallOf "SelectMany" then
          match p.1 with
          | .app _ (seq :: .lam (x :: _) fb :: _) =>
            (Q.call "SelectMany" [seq, .lam [x] (Q.call "SelectMany" [fb, sel])], p.2)
          | _ => (.lit "!AssertionError", p.2)
        else if p.1.isCallOf "Select" then
          match p.1 with
          | .app _ [seq, f] =>
            let c := convolute p.2 sel f
            let r := simplify fuel env c.2 c.1
            (Q.call "SelectMany" [seq, r.1], r.2)
          | _ => (.lit "!AssertionError", p.2)
        else
          let r := simplify fuel env p.2 sel
          (Q.call "SelectMany" [p.1, r.1], r.2)
      | _ => (.lit "!IndexError", n)
    else if fname == "Where" then
      match as with
      | src :: flt :: _ =>
        if !isLam flt then (.lit "!AssertionError", n) else
        let p := simplify fuel env n src
        if p.1.isCallOf "Where" then
          match p.1 with
          | .app _ (source :: f :: _) =>
            let a := argName p.2
            let conv := Q.lam [a] (.node "bool:And" [.app f [.var a], .app flt [.var a]])
            simplify fuel env (p.2 + 1) (Q.call "Where" [source, conv])
          | _ => (.lit "!IndexError", p.2)
        else if p.1.isCallOf "Select" then
          match p.1 with
          | .app _ (source :: f :: _) =>
            let c := convolute p.2 flt f
            let r := simplify fuel env c.2 c.1
            simplify fuel env r.2 (makeSelect (Q.call "Where" [source, r.1]) f)
          | _ => (.lit "!IndexError", p.2)
        else if p.1.isCallOf "SelectMany" then
          match p.1 with
          | .app _ (seq :: .lam fps fb :: _) =>
            simplify fuel env p.2 (Q.call "SelectMany" [seq, .lam fps (Q.call "Where" [fb, flt])])
          | _ => (.lit "!AssertionError", p.2)
        else
          let r := simplify fuel env p.2 flt
          if isTrueLam r.1 then (p.1, r.2) else (Q.call "Where" [p.1, r.1], r.2)
      | _ => (.lit "!IndexError", n)
    else
      -- generic_visit of the call: the function name, then the arguments
      let rf := simplify fuel env n (.var fname)
      let ra := simplifyL fuel env rf.2 as
      (.app rf.1 ra.1, ra.2)
  | fuel + 1, env, n, .app f as =>
    let rf := simplify fuel env n f
    let ra := simplifyL fuel env rf.2 as
    (.app rf.1 ra.1, ra.2)
  | fuel + 1, env, n, .node t [value, slice] =>
    if t == "sub" then
      let v := simplify fuel env n value
      let s := simplify fuel env v.2 slice
      match v.1 with
      | .node vt elts =>
        if vt == "tuple" then (projectSeq true v.1 elts s.1, s.2)
        else if vt == "list" then (projectSeq false v.1 elts s.1, s.2)
        else if vt == "dict" then
          match s.1 with
          | .lit c =>
            if (litInt? c).isSome || startsW "str:" c then ((dictGet elts s.1).getD (.node "sub" [v.1, s.1]), s.2)
            else (.lit "!AssertionError", s.2)
          | _ => (.lit "!AttributeError", s.2)
        else (.node "sub" [v.1, s.1], s.2)
      | _ =>
        if v.1.isCallOf "First" then
          -- visit_Subscript_Of_First:  First(seq)[i]  =>  First(Select(seq, a: a[i]))
          let a := argName s.2
          simplify fuel env (s.2 + 1) (Q.call "First" [makeSelect (firstArg v.1) (.lam [a] (.node "sub" [.var a, s.1]))])
        else (.node "sub" [v.1, s.1], s.2)
    else
      let r := simplifyL fuel env n [value, slice]
      (.node t r.1, r.2)
  | fuel + 1, env, n, .node t [value] =>
    match attrName? t with
    | some name =>
      if value.isCallOf "First" then
        -- visit_Attribute_Of_First:  First(seq).attr  =>  First(Select(seq, a: a.attr))
        let a := argName n
        simplify fuel env (n + 1) (Q.call "First" [makeSelect (firstArg value) (.lam [a] (.node t [.var a]))])
      else
        let v := simplify fuel env n value
        match v.1 with
        | .node vt elts =>
          if vt == "dict" then ((dictGet elts (strLit name)).getD (.node "sub" [v.1, strLit name]), v.2)
          else (.node t [v.1], v.2)
        | _ => (.node t [v.1], v.2)
    | none =>
      let r := simplifyL fuel env n [value]
      (.node t r.1, r.2)
  | fuel + 1, env, n, .node t ks =>
    let r := simplifyL fuel env n ks
    (.node t r.1, r.2)
def simplifyL : Nat → Stack Q → Nat → List Q → List Q × Nat
  | 0, _, n, _ => ([.lit "!fuel"], n)
  | _ + 1, _, n, [] => ([], n)
  | fuel + 1, env, n, q :: qs =>
    let r := simplify fuel env n q
    let rs := simplifyL fuel env r.2 qs
    (r.1 :: rs.1, rs.2)
end

mutual
/-- does the result stand for an exception? -/
def hasBang : Q → Bool
  | .var _ => false
  | .lit c => startsW "!" c
  | .lam _ b => hasBang b
  | .app f as => hasBang f || hasBangL as
  | .node _ ks => hasBangL ks
def hasBangL : List Q → Bool
  | [] => false
  | q :: qs => hasBang q || hasBangL qs
end


/-! ## The wire format (qastle text), at token level -/

def binSym : List (String × String) :=
  [("Add", "+"), ("Sub", "-"), ("Mult", "*"), ("Div", "/"), ("Mod", "%"), ("Pow", "**"), ("FloorDiv", "//"),
   ("BitAnd", "&"), ("BitOr", "|"), ("BitXor", "^"), ("LShift", "<<"), ("RShift", ">>")]
def unSym : List (String × String) := [("UAdd", "+"), ("USub", "-"), ("Not", "not"), ("Invert", "~")]
def cmpSym : List (String × String) :=
  [("Eq", "=="), ("NotEq", "!="), ("Lt", "<"), ("LtE", "<="), ("Gt", ">"), ("GtE", ">=")]
def boolSym : List (String × String) := [("And", "and"), ("Or", "or")]

def symOf (tbl : List (String × String)) (op : String) : Option String := (tbl.find? (·.1 == op)).map (·.2)
def opOf (tbl : List (String × String)) (sym : String) : Option String := (tbl.find? (·.2 == sym)).map (·.1)

def splitAtColon : List Char → List Char × List Char
  | [] => ([], [])
  | c :: rest => if c == ':' then ([], rest) else ((c :: (splitAtColon rest).1), (splitAtColon rest).2)

/-- the text of a constant is its `repr`: the part after `<type>:` -/
def litText (c : String) : String := String.ofList (splitAtColon c.toList).2

def isIdentStart (ch : Char) : Bool := ch.isAlpha || ch == '_'

/-- what `ast.parse` makes of an atom of the text format -/
def atomOf (tok : String) : Q :=
  if tok == "True" || tok == "False" then .lit ("bool:" ++ tok)
  else if tok == "None" then .lit "none:None"
  else match tok.toList with
    | [] => .lit "!empty"
    | ch :: _ =>
      if isIdentStart ch then .var tok
      else if ch == '\'' || ch == '"' then .lit ("str:" ++ tok)
      else if tok.toList.all (fun c => c.isDigit) then .lit ("int:" ++ tok)
      else .lit ("float:" ++ tok)

def splitTag (t : String) : String × String :=
  (String.ofList (splitAtColon t.toList).1, String.ofList (splitAtColon t.toList).2)

/-- a non-call, non-lambda node of the text format from the texts of its children -/
def wassemble (t : String) (parts : List (List String)) : Option (List String) :=
  match splitTag t, parts with
  | ("attr", name), [tv] => some (["(", "attr"] ++ tv ++ ["'" ++ name ++ "'", ")"])
  | ("bin", op), [tl, tr] => (symOf binSym op).map (fun sy => ["(", sy] ++ tl ++ tr ++ [")"])
  | ("cmp", op), [tl, tr] => (symOf cmpSym op).map (fun sy => ["(", sy] ++ tl ++ tr ++ [")"])
  | ("un", op), [tv] => (symOf unSym op).map (fun sy => ["(", sy] ++ tv ++ [")"])
  | ("bool", op), [tl, tr] => (symOf boolSym op).map (fun sy => ["(", sy] ++ tl ++ tr ++ [")"])
  | ("if", _), [tc, ta, tb] => some (["(", "if"] ++ tc ++ ta ++ tb ++ [")"])
  | ("tuple", _), _ => some (["(", "list"] ++ parts.flatten ++ [")"])
  | ("list", _), _ => some (["(", "list"] ++ parts.flatten ++ [")"])
  | ("dict", _), _ =>
    some (["(", "dict", "(", "list"] ++ (parts.take (parts.length / 2)).flatten ++ [")", "(", "list"]
      ++ (parts.drop (parts.length / 2)).flatten ++ [")", ")"])
  | ("sub", _), [tv, ti] => some (["(", "subscript"] ++ tv ++ ti ++ [")"])
  | _, _ => none

mutual
/-- qastle's `PythonASTToTextASTTransformer`.  `none` where it raises or where the model has no rule
(n-ary `and`/`or`, chained comparisons and signed constants are re-associated/folded by qastle: not modelled). -/
def wprint : Q → Option (List String)
  | .var x => some [x]
  | .lit c => some [litText c]
  | .lam ps b => (wprint b).map (fun tb => ["(", "lambda", "(", "list"] ++ ps ++ [")"] ++ tb ++ [")"])
  | .app f as => match wprint f, wprintEach as with
    | some tf, some ta => some (["(", "call"] ++ tf ++ ta.flatten ++ [")"])
    | _, _ => none
  | .node t ks => match wprintEach ks with
    | some parts => wassemble t parts
    | none => none
def wprintEach : List Q → Option (List (List String))
  | [] => some []
  | q :: qs => match wprint q, wprintEach qs with
    | some a, some b => some (a :: b)
    | _, _ => none
end

/-- the attribute name carried by the constant `'name'` of an `(attr v 'name')` node -/
def attrOfLit (c : String) : Option String :=
  match c.toList with
  | 's' :: 't' :: 'r' :: ':' :: '\'' :: rest =>
    if rest.getLast? == some '\'' then some (String.ofList rest.dropLast) else none
  | _ => none

def tag1 (ty : String) : Option String := (opOf unSym ty).map ("un:" ++ ·)

def tag2 (ty : String) : Option String :=
  match opOf binSym ty with
  | some op => some ("bin:" ++ op)
  | none => match opOf boolSym ty with
    | some op => some ("bool:" ++ op)
    | none => (opOf cmpSym ty).map ("cmp:" ++ ·)

def lamParams : List Q → Option (List String)
  | [] => some []
  | .var x :: rest => (lamParams rest).map (x :: ·)
  | _ :: _ => none

/-- one composite node of the text format, from its type and fields (`TextASTToPythonASTTransformer.composite`) -/
def composite (ty : String) (fs : List Q) : Option Q :=
  if ty == "list" then some (.node "list" fs)
  else if ty == "dict" then match fs with
    | [.node "list" ks, .node "list" vs] => some (.node "dict" (ks ++ vs))
    | _ => none
  else if ty == "attr" then match fs with
    | [v, .lit c] => (attrOfLit c).map (fun name => .node ("attr:" ++ name) [v])
    | _ => none
  else if ty == "subscript" then match fs with
    | [v, i] => some (.node "sub" [v, i])
    | _ => none
  else if ty == "call" then match fs with
    | f :: as => some (.app f as)
    | _ => none
  else if ty == "if" then match fs with
    | [c, a, b] => some (.node "if" [c, a, b])
    | _ => none
  else if ty == "lambda" then match fs with
    | [.node "list" ps, b] => (lamParams ps).map (fun names => .lam names b)
    | _ => none
  else match fs with
    | [v] => (tag1 ty).map (fun t => .node t [v])
    | [l, r] => (tag2 ty).map (fun t => .node t [l, r])
    | _ => none

mutual
/-- parser of the token stream: one node, returning the unread rest -/
def wparse : Nat → List String → Option (Q × List String)
  | 0, _ => none
  | _ + 1, [] => none
  | fuel + 1, tok :: rest =>
    if tok == "(" then
      match rest with
      | ty :: rest' => match wparseFields fuel rest' with
        | some (fs, rest'') => (composite ty fs).map (fun q => (q, rest''))
        | none => none
      | [] => none
    else if tok == ")" then none
    else some (atomOf tok, rest)
def wparseFields : Nat → List String → Option (List Q × List String)
  | 0, _ => none
  | _ + 1, [] => none
  | fuel + 1, tok :: rest =>
    if tok == ")" then some ([], rest)
    else match wparse fuel (tok :: rest) with
      | some (q, rest') => match wparseFields fuel rest' with
        | some (qs, rest'') => some (q :: qs, rest'')
        | none => none
      | none => none
end

mutual
/-- what the wire format forgets: tuple vs list -/
def wireNorm : Q → Q
  | .var x => .var x
  | .lit c => .lit c
  | .lam ps b => .lam ps (wireNorm b)
  | .app f as => .app (wireNorm f) (wireNormL as)
  | .node t ks => .node (if t == "tuple" then "list" else t) (wireNormL ks)
def wireNormL : List Q → List Q
  | [] => []
  | q :: qs => wireNorm q :: wireNormL qs
end

/-! ## Generated names: first-occurrence renumbering -/

/-- a token of the lexed package: plain text, a generated name, or a token of the query text embedded in the
`First()` diagnostic (plain or generated) -/
inductive Tok where
  | plain (s : String)
  | gen (s : String)
  | diag (s : String)
  | diagGen (s : String)
deriving Repr, DecidableEq, Inhabited

def stripDigits (s : String) : String := String.ofList (s.toList.reverse.dropWhile Char.isDigit).reverse

def numberOf (seen : List String) (s : String) : List String × Nat :=
  match seen.idxOf? s with
  | some i => (seen, i)
  | none => (seen ++ [s], seen.length)

/-- `masked`: the embedded query text of the diagnostic is dropped -/
def canonGo (masked : Bool) : List String → List Tok → List String
  | _, [] => []
  | seen, .plain s :: rest => s :: canonGo masked seen rest
  | seen, .gen s :: rest =>
    let r := numberOf seen s
    (stripDigits s ++ "#" ++ toString r.2) :: canonGo masked r.1 rest
  | seen, .diag s :: rest => if masked then canonGo masked seen rest else s :: canonGo masked seen rest
  | seen, .diagGen s :: rest =>
    if masked then canonGo masked seen rest else
    let r := numberOf seen s
    (stripDigits s ++ "#" ++ toString r.2) :: canonGo masked r.1 rest

def canon (masked : Bool) (ts : List Tok) : List String := canonGo masked [] ts

end FaxVerif.C08
