/-
C08 — what the ORDER of the metadata list can and cannot change (no Mathlib; computable; run by the driver).

`procMd` (Model.lean) is `process_metadata` as a left-to-right state machine.  Here the same function is cut into
five independent folds, one per registry the code writes into:

  * `foldTypes`   `add_method_type_info`  → `cpp_types.g_method_type_dict`      (the later declaration of a key wins)
  * `foldFns`     `add_cpp_function`, `add_*_event_collection_info` → the executor's `method_names.update(..)` (later wins)
  * `foldEnums`   `define_enum` → `cpp_types.g_toplevel_ns`                      (the first definition of a key wins)
  * `foldInjects` `inject_code` blocks in list order, an equal block dropped, a different block of the same name and
                  every malformed item raise — the only source of refusals
  * `scriptsOf`   `add_job_script` blocks in list order

No fold reads what another one wrote: in particular the type recorded for a method does not depend on whether the enum
it names has been defined yet (MdTheorems.lean `procMd_factors`, `md_interleave`).  What the package shows of the job
script blocks is not their list order but `emitScripts` (`generate_script_block`: duplicates merged, dependencies first).
-/
import FaxVerif.C08.Model
namespace FaxVerif.C08

/-! ## one fold per registry -/

def foldTypes (f : String → Option String) : List MdItem → String → Option String
  | [] => f
  | .methodType k v :: is => foldTypes (upd f k v) is
  | .fn _ _ :: is => foldTypes f is
  | .enum _ _ :: is => foldTypes f is
  | .inject _ _ :: is => foldTypes f is
  | .script _ _ :: is => foldTypes f is
  | .bad _ :: is => foldTypes f is

def foldFns (f : String → Option String) : List MdItem → String → Option String
  | [] => f
  | .fn k v :: is => foldFns (upd f k v) is
  | .methodType _ _ :: is => foldFns f is
  | .enum _ _ :: is => foldFns f is
  | .inject _ _ :: is => foldFns f is
  | .script _ _ :: is => foldFns f is
  | .bad _ :: is => foldFns f is

/-- `define_enum`: "already defined" keeps the first definition -/
def enumStep (f : String → Option String) (k v : String) : String → Option String :=
  match f k with
  | some _ => f
  | none => upd f k v

def foldEnums (f : String → Option String) : List MdItem → String → Option String
  | [] => f
  | .enum k v :: is => foldEnums (enumStep f k v) is
  | .methodType _ _ :: is => foldEnums f is
  | .fn _ _ :: is => foldEnums f is
  | .inject _ _ :: is => foldEnums f is
  | .script _ _ :: is => foldEnums f is
  | .bad _ :: is => foldEnums f is

def scriptsOf : List MdItem → List (String × String)
  | [] => []
  | .script n v :: is => (n, v) :: scriptsOf is
  | .methodType _ _ :: is => scriptsOf is
  | .fn _ _ :: is => scriptsOf is
  | .enum _ _ :: is => scriptsOf is
  | .inject _ _ :: is => scriptsOf is
  | .bad _ :: is => scriptsOf is

/-- the injected blocks, and the only way `process_metadata` can refuse a list -/
def foldInjects (inj : List (String × String)) : List MdItem → Except String (List (String × String))
  | [] => .ok inj
  | .inject n v :: is =>
    match inj.find? (·.1 == n) with
    | some b => if b.2 = v then foldInjects inj is else .error "ValueError"
    | none => foldInjects (inj ++ [(n, v)]) is
  | .bad c :: _ => .error c
  | .methodType _ _ :: is => foldInjects inj is
  | .fn _ _ :: is => foldInjects inj is
  | .enum _ _ :: is => foldInjects inj is
  | .script _ _ :: is => foldInjects inj is

/-- the registry an item writes into; malformed items go with the injected blocks (both can refuse the list) -/
inductive MdKind where
  | types | fns | enums | blocks | scripts
deriving Repr, DecidableEq, Inhabited

def MdItem.kind : MdItem → MdKind
  | .methodType _ _ => .types
  | .fn _ _ => .fns
  | .enum _ _ => .enums
  | .inject _ _ => .blocks
  | .bad _ => .blocks
  | .script _ _ => .scripts

/-- the items of one registry, in their relative order -/
def ofKind (k : MdKind) (l : List MdItem) : List MdItem := l.filter (fun i => i.kind == k)

/-- the five sublists agree: `l'` is an interleaving of the same per-registry sequences (`MetaData` calls of different
kinds moved past each other, every kind keeping its own order) -/
def sameByKind (l l' : List MdItem) : Bool :=
  ofKind .types l == ofKind .types l' && ofKind .fns l == ofKind .fns l' && ofKind .enums l == ofKind .enums l'
    && ofKind .blocks l == ofKind .blocks l' && ofKind .scripts l == ofKind .scripts l'

/-! ## `generate_script_block` (what the ATLAS job options show of the script blocks) -/

structure SBlk where
  name : String
  script : List String
  deps : List String
deriving Repr, DecidableEq, Inhabited

/-- first loop: one entry per name (insertion ordered dicts `dependencies` / `block_lookup`); a second block of a
name must carry the same script and adds its dependencies -/
def sbAdd (t : List SBlk) (b : SBlk) : Except String (List SBlk) :=
  match t.find? (·.name == b.name) with
  | none => .ok (t ++ [b])
  | some e =>
    if b.script = e.script then
      .ok (t.map fun e => if e.name == b.name then { e with deps := e.deps ++ b.deps } else e)
    else .error "ValueError"

def sbBuild : List SBlk → List SBlk → Except String (List SBlk)
  | [], t => .ok t
  | b :: bs, t => match sbAdd t b with
    | .ok t' => sbBuild bs t'
    | .error e => .error e

/-- a dependency that names no block -/
def sbMissing (t : List SBlk) : Bool := t.any fun e => e.deps.any fun d => !(t.any (·.name == d))

structure SPass where
  seen : List String
  out : List String
  emitted : Bool
deriving Repr

/-- one `for j in block_lookup.values()` pass; `seen_blocks` grows inside the pass -/
def sbPass : List SBlk → SPass → SPass
  | [], s => s
  | e :: es, s =>
    if e.name ∈ s.seen then sbPass es s
    else if e.deps.all (· ∈ s.seen) then sbPass es ⟨s.seen ++ [e.name], s.out ++ e.script, true⟩
    else sbPass es s

def sbLoop (t : List SBlk) : Nat → List String → List String → Except String (List String)
  | 0, _, _ => .error "fuel"
  | fuel + 1, seen, out =>
    if seen.length < t.length then
      let s := sbPass t ⟨seen, out, false⟩
      if s.emitted then sbLoop t fuel s.seen s.out else .error "ValueError"   -- circular dependency
    else .ok out

/-- `generate_script_block`: every refusal is a ValueError -/
def emitScripts (bs : List SBlk) : Except String (List String) :=
  match sbBuild bs [] with
  | .error e => .error e
  | .ok t => if sbMissing t then .error "ValueError" else sbLoop t (t.length + 1) [] []

/-! ## what a metadata list amounts to -/

/-- What the package can show of a metadata list: the three registries on the keys the list mentions, the injected
blocks in order, the emitted job script lines (`scriptsUsed`: only the ATLAS executor renders them). -/
structure MdView where
  types : List (Option String)
  fns : List (Option String)
  enums : List (Option String)
  injects : List (String × String)
  script : List String
deriving Repr, DecidableEq

def keysOf : List MdItem → List String
  | [] => []
  | .methodType k _ :: is => k :: keysOf is
  | .fn k _ :: is => k :: keysOf is
  | .enum k _ :: is => k :: keysOf is
  | _ :: is => keysOf is

def mdView (keys : List String) (items : List MdItem) (scripts : List SBlk) (scriptsUsed : Bool) : Except String MdView :=
  match procMd MdState.init items with
  | .error e => .error e
  | .ok s =>
    match (if scriptsUsed then emitScripts scripts else .ok []) with
    | .error e => .error e
    | .ok out => .ok ⟨keys.map s.types, keys.map s.fns, keys.map s.enums, s.injects, out⟩

/-- two orders of the same items that the model cannot tell apart: the packages must be the same (or both refused) -/
def mdSameB (items items' : List MdItem) (scripts scripts' : List SBlk) (scriptsUsed : Bool) : Bool :=
  let keys := keysOf items
  match mdView keys items scripts scriptsUsed, mdView keys items' scripts' scriptsUsed with
  | .ok a, .ok b => a == b
  | .error e, .error e' => e == e'
  | _, _ => false

end FaxVerif.C08
