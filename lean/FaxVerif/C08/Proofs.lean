/-
C08 — helper lemmas (no property theorem here).
-/
import FaxVerif.C08.Spec
namespace FaxVerif.C08

/-! ### decidable equality of `Q` and `DB` -/

mutual
theorem Q.beq_eq : ∀ (a b : Q), Q.beq a b = true ↔ a = b
  | .var x, b => by cases b <;> simp [Q.beq]
  | .lit c, b => by cases b <;> simp [Q.beq]
  | .lam ps q, b => by
    cases b <;> simp [Q.beq]
    rename_i ps' q'
    rw [Q.beq_eq q q']; intro _; rfl
  | .app f as, b => by
    cases b <;> simp [Q.beq]
    rename_i f' as'
    rw [Q.beq_eq f f', Q.beqL_eq as as']
  | .node t ks, b => by
    cases b <;> simp [Q.beq]
    rename_i t' ks'
    rw [Q.beqL_eq ks ks']; intro _; rfl
theorem Q.beqL_eq : ∀ (a b : List Q), Q.beqL a b = true ↔ a = b
  | [], b => by cases b <;> simp [Q.beqL]
  | a :: as, b => by
    cases b <;> simp [Q.beqL]
    rename_i b bs
    rw [Q.beq_eq a b, Q.beqL_eq as bs]
end

mutual
theorem DB.beq_eq : ∀ (a b : DB), DB.beq a b = true ↔ a = b
  | .bvar i, b => by cases b <;> simp [DB.beq]
  | .fvar x, b => by cases b <;> simp [DB.beq]
  | .lit c, b => by cases b <;> simp [DB.beq]
  | .lam n q, b => by
    cases b <;> simp [DB.beq]
    rename_i n' q'
    rw [DB.beq_eq q q']; intro _; rfl
  | .app f as, b => by
    cases b <;> simp [DB.beq]
    rename_i f' as'
    rw [DB.beq_eq f f', DB.beqL_eq as as']
  | .node t ks, b => by
    cases b <;> simp [DB.beq]
    rename_i t' ks'
    rw [DB.beqL_eq ks ks']; intro _; rfl
theorem DB.beqL_eq : ∀ (a b : List DB), DB.beqL a b = true ↔ a = b
  | [], b => by cases b <;> simp [DB.beqL]
  | a :: as, b => by
    cases b <;> simp [DB.beqL]
    rename_i b bs
    rw [DB.beq_eq a b, DB.beqL_eq as bs]
end

instance : DecidableEq Q := fun a b =>
  if h : Q.beq a b = true then isTrue ((Q.beq_eq a b).1 h) else isFalse (fun e => h ((Q.beq_eq a b).2 e))
instance : DecidableEq DB := fun a b =>
  if h : DB.beq a b = true then isTrue ((DB.beq_eq a b).1 h) else isFalse (fun e => h ((DB.beq_eq a b).2 e))

/-! ### names and indices -/

def varDB (ctx : List String) (x : String) : DB :=
  match idx ctx x with
  | some i => .bvar i
  | none => .fvar x

theorem resolve_var (ctx : List String) (x : String) : resolve ctx (.var x) = varDB ctx x := by
  cases h : idx ctx x <;> simp [resolve, varDB, h]

theorem varDB_cons (a : String) (ctx : List String) (x : String) :
    varDB (a :: ctx) x = if x = a then .bvar 0 else
      match varDB ctx x with
      | .bvar i => .bvar (i + 1)
      | d => d := by
  unfold varDB
  simp only [idx]
  by_cases h : x = a
  · simp [h]
  · simp only [h, if_false]
    cases idx ctx x <;> simp

theorem pairOk_iff (ctx : List (String × String)) (x y : String) :
    pairOk ctx x y ↔ varDB (ctx.map (·.1)) x = varDB (ctx.map (·.2)) y := by
  induction ctx with
  | nil => simp [pairOk, varDB, idx]
  | cons p rest ih =>
    obtain ⟨a, b⟩ := p
    simp only [pairOk, List.map_cons, varDB_cons]
    by_cases hx : x = a <;> by_cases hy : y = b
    · simp [hx, hy]
    · have : ¬ b = y := fun e => hy e.symm
      simp only [hx, hy, true_or, if_true, this, and_false, if_false, false_iff]
      unfold varDB; cases idx (rest.map (·.2)) y <;> simp
    · have : ¬ a = x := fun e => hx e.symm
      simp only [hx, hy, or_true, if_true, this, false_and, if_false, false_iff]
      unfold varDB; cases idx (rest.map (·.1)) x <;> simp
    · have h1 : ¬ a = x := fun e => hx e.symm
      have h2 : ¬ b = y := fun e => hy e.symm
      simp only [hx, hy, h1, h2, or_self, if_false, ih]
      unfold varDB
      cases idx (rest.map (·.1)) x <;> cases idx (rest.map (·.2)) y <;> simp

theorem map_fst_zip_rev (ps ps' : List String) (ctx : List (String × String)) (h : ps.length = ps'.length) :
    ((ps.zip ps').reverse ++ ctx).map (·.1) = ps.reverse ++ ctx.map (·.1) := by
  simp only [List.map_append, List.map_reverse]
  congr 2
  exact List.map_fst_zip (by omega)

theorem map_snd_zip_rev (ps ps' : List String) (ctx : List (String × String)) (h : ps.length = ps'.length) :
    ((ps.zip ps').reverse ++ ctx).map (·.2) = ps'.reverse ++ ctx.map (·.2) := by
  simp only [List.map_append, List.map_reverse]
  congr 2
  exact List.map_snd_zip (by omega)

mutual
theorem alpha_iff_resolve : ∀ (q q' : Q) (ctx : List (String × String)),
    AlphaEq ctx q q' ↔ resolve (ctx.map (·.1)) q = resolve (ctx.map (·.2)) q'
  | .var x, q', ctx => by
    cases q' with
    | var y => simp only [AlphaEq, resolve_var]; exact pairOk_iff ctx x y
    | _ => simp [AlphaEq, resolve]; try (cases idx (ctx.map (·.1)) x <;> simp)
  | .lit c, q', ctx => by
    cases q' with
    | var y => simp [AlphaEq, resolve]; cases idx (ctx.map (·.2)) y <;> simp
    | _ => simp [AlphaEq, resolve]
  | .lam ps b, q', ctx => by
    cases q' with
    | var y => simp [AlphaEq, resolve]; cases idx (ctx.map (·.2)) y <;> simp
    | lam ps' b' =>
      simp only [AlphaEq, resolve, DB.lam.injEq]
      constructor
      · rintro ⟨hl, h⟩
        refine ⟨hl, ?_⟩
        have := (alpha_iff_resolve b b' _).1 h
        rwa [map_fst_zip_rev _ _ _ hl, map_snd_zip_rev _ _ _ hl] at this
      · rintro ⟨hl, h⟩
        refine ⟨hl, (alpha_iff_resolve b b' _).2 ?_⟩
        rwa [map_fst_zip_rev _ _ _ hl, map_snd_zip_rev _ _ _ hl]
    | _ => simp [AlphaEq, resolve]
  | .app f as, q', ctx => by
    cases q' with
    | var y => simp [AlphaEq, resolve]; cases idx (ctx.map (·.2)) y <;> simp
    | app f' as' =>
      simp only [AlphaEq, resolve, DB.app.injEq]
      rw [alpha_iff_resolve f f' ctx, alphaL_iff_resolve as as' ctx]
    | _ => simp [AlphaEq, resolve]
  | .node t ks, q', ctx => by
    cases q' with
    | var y => simp [AlphaEq, resolve]; cases idx (ctx.map (·.2)) y <;> simp
    | node t' ks' =>
      simp only [AlphaEq, resolve, DB.node.injEq]
      rw [alphaL_iff_resolve ks ks' ctx]
    | _ => simp [AlphaEq, resolve]
theorem alphaL_iff_resolve : ∀ (qs qs' : List Q) (ctx : List (String × String)),
    AlphaEqL ctx qs qs' ↔ resolveL (ctx.map (·.1)) qs = resolveL (ctx.map (·.2)) qs'
  | [], qs', ctx => by cases qs' <;> simp [AlphaEqL, resolveL]
  | q :: qs, qs', ctx => by
    cases qs' with
    | nil => simp [AlphaEqL, resolveL]
    | cons q' qs' =>
      simp only [AlphaEqL, resolveL, List.cons.injEq]
      rw [alpha_iff_resolve q q' ctx, alphaL_iff_resolve qs qs' ctx]
end


/-! ### the frame stack is a flat association list searched from the front -/

def assocFind {ρ} : List (String × ρ) → String → Option ρ
  | [], _ => none
  | (y, v) :: rest, x => if x = y then some v else assocFind rest x

def Stack.flat {ρ} (st : Stack ρ) : List (String × ρ) := st.flatMap List.reverse

theorem assocFind_append {ρ} (l l' : List (String × ρ)) (x : String) :
    assocFind (l ++ l') x = match assocFind l x with
      | some w => some w
      | none => assocFind l' x := by
  induction l with
  | nil => simp [assocFind]
  | cons p rest ih =>
    obtain ⟨y, v⟩ := p
    simp only [List.cons_append, assocFind]
    by_cases h : x = y <;> simp [h, ih]

theorem frame_get_eq {ρ} (f : Frame ρ) (x : String) : Frame.get? f x = assocFind f.reverse x := by
  induction f with
  | nil => simp [Frame.get?, assocFind]
  | cons p rest ih =>
    obtain ⟨y, v⟩ := p
    simp only [Frame.get?, List.reverse_cons, assocFind_append, ih, assocFind]
    cases assocFind rest.reverse x <;> simp

theorem stack_lookup_eq {ρ} (st : Stack ρ) (x : String) : st.lookup x = assocFind st.flat x := by
  induction st with
  | nil => simp [Stack.lookup, Stack.flat, assocFind]
  | cons f fs ih =>
    simp only [Stack.lookup, Stack.flat, List.flatMap_cons, assocFind_append, frame_get_eq]
    simp only [Stack.flat] at ih
    cases assocFind f.reverse x with
    | some v => rfl
    | none => simpa using ih

theorem stack_names_eq {ρ} (st : Stack ρ) : st.names = st.flat.map (·.1) := by
  simp [Stack.names, Stack.flat, List.map_flatMap]

theorem stack_vals_eq {ρ} (st : Stack ρ) : st.vals = st.flat.map (·.2) := by
  simp [Stack.vals, Stack.flat, List.map_flatMap]

theorem assocFind_idx {ρ} (l : List (String × ρ)) (x : String) :
    assocFind l x = match idx (l.map (·.1)) x with
      | some i => (l.map (·.2))[i]?
      | none => none := by
  induction l with
  | nil => simp [assocFind, idx]
  | cons p rest ih =>
    obtain ⟨y, v⟩ := p
    simp only [assocFind, List.map_cons, idx]
    by_cases h : x = y
    · simp [h]
    · simp only [h, if_false, ih]
      cases idx (rest.map (·.1)) x <;> simp

theorem idx_lt (l : List String) (x : String) (i : Nat) (h : idx l x = some i) : i < l.length := by
  induction l generalizing i with
  | nil => simp [idx] at h
  | cons y ys ih =>
    simp only [idx] at h
    by_cases e : x = y
    · simp [e] at h; subst h; simp
    · simp only [e, if_false] at h
      cases h' : idx ys x with
      | none => simp [h'] at h
      | some j => simp [h'] at h; subst h; have := ih j h'; simp; omega

/-- the stack answers a lookup exactly as the flat environment answers the de Bruijn index -/
theorem stack_lookup_idx {ρ} (st : Stack ρ) (x : String) :
    st.lookup x = match idx st.names x with
      | some i => st.vals[i]?
      | none => none := by
  rw [stack_lookup_eq, assocFind_idx, stack_names_eq, stack_vals_eq]

theorem stack_lookup_some_of_idx {ρ} (st : Stack ρ) (x : String) (i : Nat) (h : idx st.names x = some i) :
    ∃ v, st.vals[i]? = some v ∧ st.lookup x = some v := by
  have hl := idx_lt _ _ _ h
  have : i < st.vals.length := by
    rw [stack_vals_eq]; rw [stack_names_eq] at hl; simpa using hl
  refine ⟨st.vals[i], by simp [this], ?_⟩
  rw [stack_lookup_idx, h]; simp [this]

theorem names_push {ρ} (ps : List String) (vals : List ρ) (st : Stack ρ) (h : vals.length = ps.length) :
    Stack.names (ps.zip vals :: st) = ps.reverse ++ st.names := by
  simp only [Stack.names, List.flatMap_cons]
  congr 1
  rw [List.map_reverse]; congr 1
  exact List.map_fst_zip (by omega)

theorem vals_push {ρ} (ps : List String) (vals : List ρ) (st : Stack ρ) (h : vals.length = ps.length) :
    Stack.vals (ps.zip vals :: st) = vals.reverse ++ st.vals := by
  simp only [Stack.vals, List.flatMap_cons]
  congr 1
  rw [List.map_reverse]; congr 1
  exact List.map_snd_zip (by omega)


/-! ### MetaData: extraction and placement -/

theorem stripL_length (qs : List Q) : (stripL qs).length = qs.length := by
  induction qs with
  | nil => simp [stripL]
  | cons q qs ih => simp [stripL, ih]

theorem strip_app_md (f : Q) (src d : Q) (rest : List Q) (h : isMdHead f = true) :
    strip (.app f (src :: d :: rest)) = ((strip src).1, d :: (strip src).2) := by
  simp [strip, stripL, h]

theorem strip_app_generic (f : Q) (as : List Q) (h : isMdHead f = false ∨ as.length < 2) :
    strip (.app f as) = (.app (strip f).1 ((stripL as).map (·.1)), (strip f).2 ++ (stripL as).flatMap (·.2)) := by
  rcases h with h | h
  · simp [strip, h]
  · match as, h with
    | [], _ => cases hf : isMdHead f <;> simp [strip, stripL]
    | [a], _ => cases hf : isMdHead f <;> simp [strip, stripL]
    | _ :: _ :: _, h => simp at h; omega

/-- what attaching one MetaData call does to the result of `strip` -/
def AttachSpec (m : Q) (q q1 : Q) : Prop :=
  (strip q1).1 = (strip q).1 ∧ ∃ l r, (strip q).2 = l ++ r ∧ (strip q1).2 = l ++ m :: r

def AttachSpecL (m : Q) (qs qs1 : List Q) : Prop :=
  qs1.length = qs.length ∧ (stripL qs1).map (·.1) = (stripL qs).map (·.1) ∧
    ∃ l r, (stripL qs).flatMap (·.2) = l ++ r ∧ (stripL qs1).flatMap (·.2) = l ++ m :: r

theorem attachL_spec (m : Q) (p : List Step)
    (ih : ∀ q q1, attachAt m p q = some q1 → validPos p q = true → AttachSpec m q q1) :
    ∀ (qs : List Q) (i : Nat) (qs1 : List Q), attachAtL m i p qs = some qs1 → validPosL i p qs = true →
      AttachSpecL m qs qs1 := by
  intro qs
  induction qs with
  | nil => intro i qs1 h; simp [attachAtL] at h
  | cons q qs ihq =>
    intro i qs1 h hv
    cases i with
    | zero =>
      simp only [attachAtL, Option.map_eq_some_iff] at h
      obtain ⟨q1, hq1, rfl⟩ := h
      simp only [validPosL] at hv
      obtain ⟨h1, l, r, h2, h3⟩ := ih q q1 hq1 hv
      refine ⟨by simp, by simp [stripL, h1], l, r ++ (stripL qs).flatMap (·.2), ?_, ?_⟩
      · simp [stripL, h2]
      · simp [stripL, h3]
    | succ i =>
      simp only [attachAtL, Option.map_eq_some_iff] at h
      obtain ⟨qs1', hqs1, rfl⟩ := h
      simp only [validPosL] at hv
      obtain ⟨hl, h1, l, r, h2, h3⟩ := ihq i qs1' hqs1 hv
      refine ⟨by simp [hl], by simp [stripL, h1], (strip q).2 ++ l, r, ?_, ?_⟩
      · simp [stripL, h2]
      · simp [stripL, h3]

theorem isMdHead_attach (m : Q) (p : List Step) (f f1 : Q) (h : attachAt m p f = some f1) : isMdHead f1 = false := by
  cases p with
  | nil => simp [attachAt] at h; subst h; simp [wrapMd, isMdHead]
  | cons st p =>
    cases f with
    | var x => cases st <;> simp [attachAt] at h
    | lit c => cases st <;> simp [attachAt] at h
    | lam ps b =>
      cases st <;> simp [attachAt] at h
      obtain ⟨b1, _, rfl⟩ := h; simp [isMdHead]
    | app g as =>
      cases st <;> simp [attachAt] at h
      · obtain ⟨g1, _, rfl⟩ := h; simp [isMdHead]
      · obtain ⟨as1, _, rfl⟩ := h; simp [isMdHead]
    | node t ks =>
      cases st <;> simp [attachAt] at h
      obtain ⟨ks1, _, rfl⟩ := h; simp [isMdHead]

theorem attach_spec (m : Q) : ∀ (p : List Step) (q q1 : Q),
    attachAt m p q = some q1 → validPos p q = true → AttachSpec m q q1 := by
  intro p
  induction p with
  | nil =>
    intro q q1 h _
    simp only [attachAt, Option.some.injEq] at h
    subst h
    refine ⟨?_, [], (strip q).2, by simp, ?_⟩
    · simp [wrapMd, strip_app_md, isMdHead]
    · simp [wrapMd, strip_app_md, isMdHead]
  | cons st p ih =>
    intro q q1 h hv
    cases q with
    | var x => cases st <;> simp [attachAt] at h
    | lit c => cases st <;> simp [attachAt] at h
    | lam ps b =>
      cases st <;> simp [attachAt] at h
      obtain ⟨b1, hb1, rfl⟩ := h
      simp only [validPos] at hv
      obtain ⟨h1, l, r, h2, h3⟩ := ih b b1 hb1 hv
      exact ⟨by simp [strip, h1], l, r, by simp [strip, h2], by simp [strip, h3]⟩
    | node t ks =>
      cases st <;> simp [attachAt] at h
      rename_i i
      obtain ⟨ks1, hks1, rfl⟩ := h
      simp only [validPos] at hv
      obtain ⟨_, h1, l, r, h2, h3⟩ := attachL_spec m p ih ks i ks1 hks1 hv
      exact ⟨by simp [strip, h1], l, r, by simp [strip, h2], by simp [strip, h3]⟩
    | app f as =>
      cases st with
      | body => simp [attachAt] at h
      | kid i => simp [attachAt] at h
      | fn =>
        simp only [attachAt, Option.map_eq_some_iff] at h
        obtain ⟨f1, hf1, rfl⟩ := h
        simp only [validPos, Bool.and_eq_true, Bool.not_eq_true', Bool.and_eq_false_iff, decide_eq_false_iff_not] at hv
        obtain ⟨hg, hv⟩ := hv
        have hgen : isMdHead f = false ∨ as.length < 2 := by
          rcases hg with hg | hg
          · exact Or.inl hg
          · exact Or.inr (by omega)
        obtain ⟨h1, l, r, h2, h3⟩ := ih f f1 hf1 hv
        unfold AttachSpec
        rw [strip_app_generic f1 as (Or.inl (isMdHead_attach m p f f1 hf1)), strip_app_generic f as hgen]
        exact ⟨by simp [h1], l, r ++ (stripL as).flatMap (·.2), by simp [h2], by simp [h3]⟩
      | arg i =>
        simp only [attachAt, Option.map_eq_some_iff] at h
        obtain ⟨as1, has1, rfl⟩ := h
        simp only [validPos, Bool.and_eq_true, Bool.or_eq_true, Bool.not_eq_true', Bool.and_eq_false_iff,
          decide_eq_false_iff_not, beq_iff_eq] at hv
        obtain ⟨hg, hv⟩ := hv
        by_cases hmd : isMdHead f = true ∧ 2 ≤ as.length
        · -- an existing MetaData call: only its first argument may be entered
          obtain ⟨hm1, hm2⟩ := hmd
          have hi : i = 0 := by
            rcases hg with (hg | hg) | hg
            · simp [hm1] at hg
            · omega
            · exact hg
          subst hi
          match as, hm2 with
          | src :: d :: rest, _ =>
            simp only [attachAtL, Option.map_eq_some_iff] at has1
            obtain ⟨src1, hs1, rfl⟩ := has1
            simp only [validPosL] at hv
            obtain ⟨h1, l, r, h2, h3⟩ := ih src src1 hs1 hv
            unfold AttachSpec
            rw [strip_app_md f src1 d rest hm1, strip_app_md f src d rest hm1]
            exact ⟨h1, d :: l, r, by simp [h2], by simp [h3]⟩
        · have hgen : isMdHead f = false ∨ as.length < 2 := by
            by_cases hm1 : isMdHead f = true
            · exact Or.inr (Nat.lt_of_not_le (fun h2 => hmd ⟨hm1, h2⟩))
            · exact Or.inl (by simpa using hm1)
          obtain ⟨hl, h1, l, r, h2, h3⟩ := attachL_spec m p ih as i as1 has1 hv
          have hgen1 : isMdHead f = false ∨ as1.length < 2 := by
            rcases hgen with h | h
            · exact Or.inl h
            · exact Or.inr (by omega)
          unfold AttachSpec
          rw [strip_app_generic f as1 hgen1, strip_app_generic f as hgen]
          exact ⟨by simp [h1], (strip f).2 ++ l, r, by simp [h2], by simp [h3]⟩


/-! ### `process_metadata`: order of commuting items -/

def MdItem.comm (a b : MdItem) : Prop := a.commutes b = true ∧ b.commutes a = true

theorem MdItem.comm_symm {a b : MdItem} (h : MdItem.comm a b) : MdItem.comm b a := ⟨h.2, h.1⟩

theorem commutingAll_iff (l : List MdItem) : commutingAll l = true ↔ l.Pairwise MdItem.comm := by
  induction l with
  | nil => simp [commutingAll]
  | cons a l ih =>
    simp only [commutingAll, Bool.and_eq_true, List.all_eq_true, List.pairwise_cons, ih, MdItem.comm]

theorem upd_comm (f : String → Option String) (k v k' v' : String) (h : k ≠ k') :
    upd (upd f k v) k' v' = upd (upd f k' v') k v := by
  funext x
  simp only [upd]
  by_cases h1 : x = k' <;> by_cases h2 : x = k <;> simp [h1, h2]
  · exact absurd (h2.symm.trans h1) h
  · intro e; exact absurd e.symm h
  · intro e; exact absurd e h

theorem procMd_cons (s : MdState) (a : MdItem) (l : List MdItem) :
    procMd s (a :: l) = match a.step s with
      | .ok s' => procMd s' l
      | .error e => .error e := rfl

/-- two commuting items can be processed in either order, from any state -/
theorem step_swap (s : MdState) (a b : MdItem) (h : MdItem.comm a b) (rest : List MdItem) :
    procMd s (a :: b :: rest) = procMd s (b :: a :: rest) := by
  obtain ⟨h1, h2⟩ := h
  by_cases hab : a = b
  · subst hab; rfl
  cases a <;> cases b <;> simp only [MdItem.commutes, Bool.or_eq_true, Bool.and_eq_true, bne_iff_ne, beq_iff_eq, ne_eq] at h1 h2
    <;> simp only [procMd_cons, MdItem.step]
  -- methodType / methodType
  · rename_i k v k' v'
    have hk : k ≠ k' := by
      intro e; subst e
      rcases h1 with h1 | h1
      · exact h1 rfl
      · subst h1; exact hab rfl
    rw [upd_comm _ _ _ _ _ hk]
  -- methodType / enum
  · rename_i k v k' v'
    cases s.enums k' <;> rfl
  -- methodType / inject
  · rename_i k v n w
    cases hf : s.injects.find? (·.1 == n) with
    | none => simp
    | some b => by_cases hb : b.2 = w <;> simp [hb]
  -- fn / fn
  · rename_i k v k' v'
    have hk : k ≠ k' := by
      intro e; subst e
      rcases h1 with h1 | h1
      · exact h1 rfl
      · subst h1; exact hab rfl
    rw [upd_comm _ _ _ _ _ hk]
  -- fn / enum
  · rename_i k v k' v'
    cases s.enums k' <;> rfl
  -- fn / inject
  · rename_i k v n w
    cases hf : s.injects.find? (·.1 == n) with
    | none => simp
    | some b => by_cases hb : b.2 = w <;> simp [hb]
  -- enum / methodType
  · rename_i k v k' v'
    cases s.enums k <;> rfl
  -- enum / fn
  · rename_i k v k' v'
    cases s.enums k <;> rfl
  -- enum / enum
  · rename_i k v k' v'
    have hk : k ≠ k' := by
      intro e; subst e
      rcases h1 with h1 | h1
      · exact h1 rfl
      · subst h1; exact hab rfl
    cases e1 : s.enums k <;> cases e2 : s.enums k' <;> simp [upd, e1, e2, hk, Ne.symm hk]
    rw [upd_comm _ _ _ _ _ hk]
  -- enum / inject
  · rename_i k v n w
    cases hf : s.injects.find? (·.1 == n) with
    | none => cases he : s.enums k <;> simp [hf, he]
    | some b => by_cases hb : b.2 = w <;> cases he : s.enums k <;> simp [hf, hb, he]
  -- enum / script
  · rename_i k v n w
    cases s.enums k <;> rfl
  -- inject / methodType
  · rename_i n w k v
    cases hf : s.injects.find? (·.1 == n) with
    | none => simp
    | some b => by_cases hb : b.2 = w <;> simp [hb]
  -- inject / fn
  · rename_i n w k v
    cases hf : s.injects.find? (·.1 == n) with
    | none => simp
    | some b => by_cases hb : b.2 = w <;> simp [hb]
  -- inject / enum
  · rename_i n w k v
    cases hf : s.injects.find? (·.1 == n) with
    | none => cases he : s.enums k <;> simp [hf, he]
    | some b => by_cases hb : b.2 = w <;> cases he : s.enums k <;> simp [hf, hb, he]
  -- inject / inject (equal items only)
  · rename_i n w n' w'
    exact absurd (by rw [h1.1, h1.2]) hab
  -- inject / script
  · rename_i n w n' w'
    cases hf : s.injects.find? (·.1 == n) with
    | none => simp
    | some b => by_cases hb : b.2 = w <;> simp [hb]
  -- inject / bad
  · rename_i n w c
    cases hf : s.injects.find? (·.1 == n) with
    | none => simp
    | some b => by_cases hb : b.2 = w <;> simp [hb, h1]
  -- script / enum
  · rename_i n w k v
    cases s.enums k <;> rfl
  -- script / inject
  · rename_i n w n' w'
    cases hf : s.injects.find? (·.1 == n') with
    | none => simp
    | some b => by_cases hb : b.2 = w' <;> simp [hb]
  -- script / script (equal items only)
  · rename_i n w n' w'
    exact absurd (by rw [h1.1, h1.2]) hab
  -- bad / inject
  · rename_i c n w
    cases hf : s.injects.find? (·.1 == n) with
    | none => simp
    | some b => by_cases hb : b.2 = w <;> simp [hb, h2]
  -- bad / bad
  · rename_i c c'
    rw [h1]

theorem procMd_perm {l l' : List MdItem} (hp : l.Perm l') :
    l.Pairwise MdItem.comm → ∀ s, procMd s l = procMd s l' := by
  induction hp with
  | nil => intro _ _; rfl
  | cons a _ ih =>
    intro hc s
    simp only [procMd_cons]
    cases a.step s with
    | error e => rfl
    | ok s' => exact ih (List.pairwise_cons.1 hc).2 s'
  | swap a b l =>
    intro hc s
    have hab : MdItem.comm b a := (List.pairwise_cons.1 hc).1 a (by simp)
    exact step_swap s b a hab l
  | trans p1 _ ih1 ih2 =>
    intro hc s
    rw [ih1 hc s]
    exact ih2 ((p1.pairwise_iff (fun h => MdItem.comm_symm h)).1 hc) s

section factor
variable {ρ σ : Type} (alg : Alg ρ σ)

mutual
theorem eval_factors : ∀ (q : Q) (st : Stack ρ) (s : σ),
    eval alg st q s = evalDB alg st.vals (resolve st.names q) s
  | .var x, st, s => by
    simp only [eval, resolve]
    cases h : idx st.names x with
    | none => simp [stack_lookup_idx, h, evalDB]
    | some i =>
      obtain ⟨v, hv, hl⟩ := stack_lookup_some_of_idx st x i h
      simp [hl, evalDB, hv]
  | .lit c, st, s => by simp [eval, resolve, evalDB]
  | .lam ps b, st, s => by simp [eval, resolve, evalDB]
  | .app (.var f) as, st, s => by
    simp only [eval, resolve, boundHead]
    cases h : idx st.names f with
    | none =>
      have : st.lookup f = none := by rw [stack_lookup_idx, h]
      simp [this, evalDB, evalKids_factors as st ("call:" ++ f) [] s]
    | some i =>
      obtain ⟨v, hv, hl⟩ := stack_lookup_some_of_idx st f i h
      simp [hl, evalDB]
  | .app (.node t ks) as, st, s => by
    simp only [eval, resolve, evalDB, evalKids_factors ks st ("method:" ++ t) [] s]
    cases evalKidsDB alg st.vals ("method:" ++ t) [] (resolveL st.names ks) s with
    | error e => rfl
    | ok r => obtain ⟨vs, s1⟩ := r; simp only [evalKids_factors as st ("method:" ++ t) vs s1]
  | .app (.lam ps b) as, st, s => by simp [eval, resolve, evalDB]
  | .app (.lit c) as, st, s => by
    simp only [eval, resolve, evalDB]
    cases alg.pre "dyn" [] s with
    | error e => rfl
    | ok s0 =>
      simp only []
      cases alg.lit c s0 with
      | error e => rfl
      | ok r => obtain ⟨v, s1⟩ := r; simp only [evalKids_factors as st "dyn" [v] s1]
  | .app (.app g bs) as, st, s => by
    simp only [eval, evalDB, resolve]
    cases alg.pre "dyn" [] s with
    | error e => rfl
    | ok s0 =>
      simp only []
      have := eval_factors (.app g bs) st s0
      simp only [resolve] at this
      rw [this]
      cases evalDB alg st.vals (.app (resolve st.names g) (resolveL st.names bs)) s0 with
      | error e => rfl
      | ok r => obtain ⟨v, s1⟩ := r; simp only [evalKids_factors as st "dyn" [v] s1]
  | .node t ks, st, s => by
    simp only [eval, resolve, evalDB, evalKids_factors ks st t [] s]
theorem evalKids_factors : ∀ (ks : List Q) (st : Stack ρ) (tag : String) (done : List ρ) (s : σ),
    evalKids alg st tag done ks s = evalKidsDB alg st.vals tag done (resolveL st.names ks) s
  | [], st, tag, done, s => by simp [evalKids, resolveL, evalKidsDB]
  | .lam ps b :: rest, st, tag, done, s => by
    simp only [evalKids, resolveL, resolve, evalKidsDB]
    cases alg.enter tag done ps.length s with
    | error e => rfl
    | ok r =>
      obtain ⟨vals, s1⟩ := r
      simp only []
      by_cases hl : vals.length = ps.length
      · simp only [hl, if_true]
        rw [eval_factors b (ps.zip vals :: st) s1, names_push ps vals st hl, vals_push ps vals st hl]
        cases evalDB alg (vals.reverse ++ st.vals) (resolve (ps.reverse ++ st.names) b) s1 with
        | error e => rfl
        | ok r2 => obtain ⟨v, s2⟩ := r2; simp only [evalKids_factors rest st tag (done ++ [v]) s2]
      · simp [hl]
  | .var x :: rest, st, tag, done, s => by
    have hk := eval_factors (.var x) st
    cases h : idx st.names x with
    | none =>
      have hr : resolve st.names (.var x) = .fvar x := by simp [resolve, h]
      simp only [evalKids, resolveL, hr, evalKidsDB]
      cases alg.pre tag done s with
      | error e => rfl
      | ok s0 =>
        simp only [hk s0, hr]
        cases evalDB alg st.vals (.fvar x) s0 with
        | error e => rfl
        | ok r => obtain ⟨v, s1⟩ := r; simp only [evalKids_factors rest st tag (done ++ [v]) s1]
    | some i =>
      have hr : resolve st.names (.var x) = .bvar i := by simp [resolve, h]
      simp only [evalKids, resolveL, hr, evalKidsDB]
      cases alg.pre tag done s with
      | error e => rfl
      | ok s0 =>
        simp only [hk s0, hr]
        cases evalDB alg st.vals (.bvar i) s0 with
        | error e => rfl
        | ok r => obtain ⟨v, s1⟩ := r; simp only [evalKids_factors rest st tag (done ++ [v]) s1]
  | .lit c :: rest, st, tag, done, s => by
    simp only [evalKids, resolveL, resolve, evalKidsDB]
    cases alg.pre tag done s with
    | error e => rfl
    | ok s0 =>
      simp only [eval, evalDB]
      cases alg.lit c s0 with
      | error e => rfl
      | ok r => obtain ⟨v, s1⟩ := r; simp only [evalKids_factors rest st tag (done ++ [v]) s1]
  | .app f as :: rest, st, tag, done, s => by
    simp only [evalKids, resolveL, resolve, evalKidsDB]
    cases alg.pre tag done s with
    | error e => rfl
    | ok s0 =>
      simp only []
      have := eval_factors (.app f as) st s0
      simp only [resolve] at this
      rw [this]
      cases evalDB alg st.vals (.app (resolve st.names f) (resolveL st.names as)) s0 with
      | error e => rfl
      | ok r => obtain ⟨v, s1⟩ := r; simp only [evalKids_factors rest st tag (done ++ [v]) s1]
  | .node t ks :: rest, st, tag, done, s => by
    simp only [evalKids, resolveL, resolve, evalKidsDB]
    cases alg.pre tag done s with
    | error e => rfl
    | ok s0 =>
      simp only []
      have := eval_factors (.node t ks) st s0
      simp only [resolve] at this
      rw [this]
      cases evalDB alg st.vals (.node t (resolveL st.names ks)) s0 with
      | error e => rfl
      | ok r => obtain ⟨v, s1⟩ := r; simp only [evalKids_factors rest st tag (done ++ [v]) s1]
end
end factor

end FaxVerif.C08
