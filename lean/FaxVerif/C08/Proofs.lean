/-
C08 — helper lemmas (no property theorem here).
-/
import FaxVerif.C08.Spec
namespace FaxVerif.C08

/-! ### decidable equality of `Q` and `DB` -/

mutual
theorem Q.beq_eq : ∀ (a b : Q), Q.beq a b = true ↔ a = b
  | .var x, b => by cases b <;> simp [Q.beq]
  | .lit c, b => by cases b <;> simp [Q.beq]
  | .lam ps q, b => by
    cases b <;> simp [Q.beq]
    rename_i ps' q'
    rw [Q.beq_eq q q']; intro _; rfl
  | .app f as, b => by
    cases b <;> simp [Q.beq]
    rename_i f' as'
    rw [Q.beq_eq f f', Q.beqL_eq as as']
  | .node t ks, b => by
    cases b <;> simp [Q.beq]
    rename_i t' ks'
    rw [Q.beqL_eq ks ks']; intro _; rfl
theorem Q.beqL_eq : ∀ (a b : List Q), Q.beqL a b = true ↔ a = b
  | [], b => by cases b <;> simp [Q.beqL]
  | a :: as, b => by
    cases b <;> simp [Q.beqL]
    rename_i b bs
    rw [Q.beq_eq a b, Q.beqL_eq as bs]
end

mutual
theorem DB.beq_eq : ∀ (a b : DB), DB.beq a b = true ↔ a = b
  | .bvar i, b => by cases b <;> simp [DB.beq]
  | .fvar x, b => by cases b <;> simp [DB.beq]
  | .lit c, b => by cases b <;> simp [DB.beq]
  | .lam n q, b => by
    cases b <;> simp [DB.beq]
    rename_i n' q'
    rw [DB.beq_eq q q']; intro _; rfl
  | .app f as, b => by
    cases b <;> simp [DB.beq]
    rename_i f' as'
    rw [DB.beq_eq f f', DB.beqL_eq as as']
  | .node t ks, b => by
    cases b <;> simp [DB.beq]
    rename_i t' ks'
    rw [DB.beqL_eq ks ks']; intro _; rfl
theorem DB.beqL_eq : ∀ (a b : List DB), DB.beqL a b = true ↔ a = b
  | [], b => by cases b <;> simp [DB.beqL]
  | a :: as, b => by
    cases b <;> simp [DB.beqL]
    rename_i b bs
    rw [DB.beq_eq a b, DB.beqL_eq as bs]
end

instance : DecidableEq Q := fun a b =>
  if h : Q.beq a b = true then isTrue ((Q.beq_eq a b).1 h) else isFalse (fun e => h ((Q.beq_eq a b).2 e))
instance : DecidableEq DB := fun a b =>
  if h : DB.beq a b = true then isTrue ((DB.beq_eq a b).1 h) else isFalse (fun e => h ((DB.beq_eq a b).2 e))

/-! ### names and indices -/

def varDB (ctx : List String) (x : String) : DB :=
  match idx ctx x with
  | some i => .bvar i
  | none => .fvar x

theorem resolve_var (ctx : List String) (x : String) : resolve ctx (.var x) = varDB ctx x := by
  cases h : idx ctx x <;> simp [resolve, varDB, h]

theorem varDB_cons (a : String) (ctx : List String) (x : String) :
    varDB (a :: ctx) x = if x = a then .bvar 0 else
      match varDB ctx x with
      | .bvar i => .bvar (i + 1)
      | d => d := by
  unfold varDB
  simp only [idx]
  by_cases h : x = a
  · simp [h]
  · simp only [h, if_false]
    cases idx ctx x <;> simp

theorem pairOk_iff (ctx : List (String × String)) (x y : String) :
    pairOk ctx x y ↔ varDB (ctx.map (·.1)) x = varDB (ctx.map (·.2)) y := by
  induction ctx with
  | nil => simp [pairOk, varDB, idx]
  | cons p rest ih =>
    obtain ⟨a, b⟩ := p
    simp only [pairOk, List.map_cons, varDB_cons]
    by_cases hx : x = a <;> by_cases hy : y = b
    · simp [hx, hy]
    · have : ¬ b = y := fun e => hy e.symm
      simp only [hx, hy, true_or, if_true, this, and_false, if_false, false_iff]
      unfold varDB; cases idx (rest.map (·.2)) y <;> simp
    · have : ¬ a = x := fun e => hx e.symm
      simp only [hx, hy, or_true, if_true, this, false_and, if_false, false_iff]
      unfold varDB; cases idx (rest.map (·.1)) x <;> simp
    · have h1 : ¬ a = x := fun e => hx e.symm
      have h2 : ¬ b = y := fun e => hy e.symm
      simp only [hx, hy, h1, h2, or_self, if_false, ih]
      unfold varDB
      cases idx (rest.map (·.1)) x <;> cases idx (rest.map (·.2)) y <;> simp

theorem map_fst_zip_rev (ps ps' : List String) (ctx : List (String × String)) (h : ps.length = ps'.length) :
    ((ps.zip ps').reverse ++ ctx).map (·.1) = ps.reverse ++ ctx.map (·.1) := by
  simp only [List.map_append, List.map_reverse]
  congr 2
  exact List.map_fst_zip (by omega)

theorem map_snd_zip_rev (ps ps' : List String) (ctx : List (String × String)) (h : ps.length = ps'.length) :
    ((ps.zip ps').reverse ++ ctx).map (·.2) = ps'.reverse ++ ctx.map (·.2) := by
  simp only [List.map_append, List.map_reverse]
  congr 2
  exact List.map_snd_zip (by omega)

mutual
theorem alpha_iff_resolve : ∀ (q q' : Q) (ctx : List (String × String)),
    AlphaEq ctx q q' ↔ resolve (ctx.map (·.1)) q = resolve (ctx.map (·.2)) q'
  | .var x, q', ctx => by
    cases q' with
    | var y => simp only [AlphaEq, resolve_var]; exact pairOk_iff ctx x y
    | _ => simp [AlphaEq, resolve]; try (cases idx (ctx.map (·.1)) x <;> simp)
  | .lit c, q', ctx => by
    cases q' with
    | var y => simp [AlphaEq, resolve]; cases idx (ctx.map (·.2)) y <;> simp
    | _ => simp [AlphaEq, resolve]
  | .lam ps b, q', ctx => by
    cases q' with
    | var y => simp [AlphaEq, resolve]; cases idx (ctx.map (·.2)) y <;> simp
    | lam ps' b' =>
      simp only [AlphaEq, resolve, DB.lam.injEq]
      constructor
      · rintro ⟨hl, h⟩
        refine ⟨hl, ?_⟩
        have := (alpha_iff_resolve b b' _).1 h
        rwa [map_fst_zip_rev _ _ _ hl, map_snd_zip_rev _ _ _ hl] at this
      · rintro ⟨hl, h⟩
        refine ⟨hl, (alpha_iff_resolve b b' _).2 ?_⟩
        rwa [map_fst_zip_rev _ _ _ hl, map_snd_zip_rev _ _ _ hl]
    | _ => simp [AlphaEq, resolve]
  | .app f as, q', ctx => by
    cases q' with
    | var y => simp [AlphaEq, resolve]; cases idx (ctx.map (·.2)) y <;> simp
    | app f' as' =>
      simp only [AlphaEq, resolve, DB.app.injEq]
      rw [alpha_iff_resolve f f' ctx, alphaL_iff_resolve as as' ctx]
    | _ => simp [AlphaEq, resolve]
  | .node t ks, q', ctx => by
    cases q' with
    | var y => simp [AlphaEq, resolve]; cases idx (ctx.map (·.2)) y <;> simp
    | node t' ks' =>
      simp only [AlphaEq, resolve, DB.node.injEq]
      rw [alphaL_iff_resolve ks ks' ctx]
    | _ => simp [AlphaEq, resolve]
theorem alphaL_iff_resolve : ∀ (qs qs' : List Q) (ctx : List (String × String)),
    AlphaEqL ctx qs qs' ↔ resolveL (ctx.map (·.1)) qs = resolveL (ctx.map (·.2)) qs'
  | [], qs', ctx => by cases qs' <;> simp [AlphaEqL, resolveL]
  | q :: qs, qs', ctx => by
    cases qs' with
    | nil => simp [AlphaEqL, resolveL]
    | cons q' qs' =>
      simp only [AlphaEqL, resolveL, List.cons.injEq]
      rw [alpha_iff_resolve q q' ctx, alphaL_iff_resolve qs qs' ctx]
end


/-! ### the frame stack is a flat association list searched from the front -/

def assocFind {ρ} : List (String × ρ) → String → Option ρ
  | [], _ => none
  | (y, v) :: rest, x => if x = y then some v else assocFind rest x

def Stack.flat {ρ} (st : Stack ρ) : List (String × ρ) := st.flatMap List.reverse

theorem assocFind_append {ρ} (l l' : List (String × ρ)) (x : String) :
    assocFind (l ++ l') x = match assocFind l x with
      | some w => some w
      | none => assocFind l' x := by
  induction l with
  | nil => simp [assocFind]
  | cons p rest ih =>
    obtain ⟨y, v⟩ := p
    simp only [List.cons_append, assocFind]
    by_cases h : x = y <;> simp [h, ih]

theorem frame_get_eq {ρ} (f : Frame ρ) (x : String) : Frame.get? f x = assocFind f.reverse x := by
  induction f with
  | nil => simp [Frame.get?, assocFind]
  | cons p rest ih =>
    obtain ⟨y, v⟩ := p
    simp only [Frame.get?, List.reverse_cons, assocFind_append, ih, assocFind]
    cases assocFind rest.reverse x <;> simp

theorem stack_lookup_eq {ρ} (st : Stack ρ) (x : String) : st.lookup x = assocFind st.flat x := by
  induction st with
  | nil => simp [Stack.lookup, Stack.flat, assocFind]
  | cons f fs ih =>
    simp only [Stack.lookup, Stack.flat, List.flatMap_cons, assocFind_append, frame_get_eq]
    simp only [Stack.flat] at ih
    cases assocFind f.reverse x with
    | some v => rfl
    | none => simpa using ih

theorem stack_names_eq {ρ} (st : Stack ρ) : st.names = st.flat.map (·.1) := by
  simp [Stack.names, Stack.flat, List.map_flatMap]

theorem stack_vals_eq {ρ} (st : Stack ρ) : st.vals = st.flat.map (·.2) := by
  simp [Stack.vals, Stack.flat, List.map_flatMap]

theorem assocFind_idx {ρ} (l : List (String × ρ)) (x : String) :
    assocFind l x = match idx (l.map (·.1)) x with
      | some i => (l.map (·.2))[i]?
      | none => none := by
  induction l with
  | nil => simp [assocFind, idx]
  | cons p rest ih =>
    obtain ⟨y, v⟩ := p
    simp only [assocFind, List.map_cons, idx]
    by_cases h : x = y
    · simp [h]
    · simp only [h, if_false, ih]
      cases idx (rest.map (·.1)) x <;> simp

theorem idx_lt (l : List String) (x : String) (i : Nat) (h : idx l x = some i) : i < l.length := by
  induction l generalizing i with
  | nil => simp [idx] at h
  | cons y ys ih =>
    simp only [idx] at h
    by_cases e : x = y
    · simp [e] at h; subst h; simp
    · simp only [e, if_false] at h
      cases h' : idx ys x with
      | none => simp [h'] at h
      | some j => simp [h'] at h; subst h; have := ih j h'; simp; omega

/-- the stack answers a lookup exactly as the flat environment answers the de Bruijn index -/
theorem stack_lookup_idx {ρ} (st : Stack ρ) (x : String) :
    st.lookup x = match idx st.names x with
      | some i => st.vals[i]?
      | none => none := by
  rw [stack_lookup_eq, assocFind_idx, stack_names_eq, stack_vals_eq]

theorem stack_lookup_some_of_idx {ρ} (st : Stack ρ) (x : String) (i : Nat) (h : idx st.names x = some i) :
    ∃ v, st.vals[i]? = some v ∧ st.lookup x = some v := by
  have hl := idx_lt _ _ _ h
  have : i < st.vals.length := by
    rw [stack_vals_eq]; rw [stack_names_eq] at hl; simpa using hl
  refine ⟨st.vals[i], by simp [this], ?_⟩
  rw [stack_lookup_idx, h]; simp [this]

theorem names_push {ρ} (ps : List String) (vals : List ρ) (st : Stack ρ) (h : vals.length = ps.length) :
    Stack.names (ps.zip vals :: st) = ps.reverse ++ st.names := by
  simp only [Stack.names, List.flatMap_cons]
  congr 1
  rw [List.map_reverse]; congr 1
  exact List.map_fst_zip (by omega)

theorem vals_push {ρ} (ps : List String) (vals : List ρ) (st : Stack ρ) (h : vals.length = ps.length) :
    Stack.vals (ps.zip vals :: st) = vals.reverse ++ st.vals := by
  simp only [Stack.vals, List.flatMap_cons]
  congr 1
  rw [List.map_reverse]; congr 1
  exact List.map_snd_zip (by omega)


/-! ### MetaData: extraction and placement -/

theorem stripL_length (qs : List Q) : (stripL qs).length = qs.length := by
  induction qs with
  | nil => simp [stripL]
  | cons q qs ih => simp [stripL, ih]

theorem strip_app_md (f : Q) (src d : Q) (rest : List Q) (h : isMdHead f = true) :
    strip (.app f (src :: d :: rest)) = ((strip src).1, d :: (strip src).2) := by
  simp [strip, stripL, h]

theorem strip_app_generic (f : Q) (as : List Q) (h : isMdHead f = false ∨ as.length < 2) :
    strip (.app f as) = (.app (strip f).1 ((stripL as).map (·.1)), (strip f).2 ++ (stripL as).flatMap (·.2)) := by
  rcases h with h | h
  · simp [strip, h]
  · match as, h with
    | [], _ => cases hf : isMdHead f <;> simp [strip, stripL]
    | [a], _ => cases hf : isMdHead f <;> simp [strip, stripL]
    | _ :: _ :: _, h => simp at h; omega

/-- what attaching one MetaData call does to the result of `strip` -/
def AttachSpec (m : Q) (q q1 : Q) : Prop :=
  (strip q1).1 = (strip q).1 ∧ ∃ l r, (strip q).2 = l ++ r ∧ (strip q1).2 = l ++ m :: r

def AttachSpecL (m : Q) (qs qs1 : List Q) : Prop :=
  qs1.length = qs.length ∧ (stripL qs1).map (·.1) = (stripL qs).map (·.1) ∧
    ∃ l r, (stripL qs).flatMap (·.2) = l ++ r ∧ (stripL qs1).flatMap (·.2) = l ++ m :: r

theorem attachL_spec (m : Q) (p : List Step)
    (ih : ∀ q q1, attachAt m p q = some q1 → validPos p q = true → AttachSpec m q q1) :
    ∀ (qs : List Q) (i : Nat) (qs1 : List Q), attachAtL m i p qs = some qs1 → validPosL i p qs = true →
      AttachSpecL m qs qs1 := by
  intro qs
  induction qs with
  | nil => intro i qs1 h; simp [attachAtL] at h
  | cons q qs ihq =>
    intro i qs1 h hv
    cases i with
    | zero =>
      simp only [attachAtL, Option.map_eq_some_iff] at h
      obtain ⟨q1, hq1, rfl⟩ := h
      simp only [validPosL] at hv
      obtain ⟨h1, l, r, h2, h3⟩ := ih q q1 hq1 hv
      refine ⟨by simp, by simp [stripL, h1], l, r ++ (stripL qs).flatMap (·.2), ?_, ?_⟩
      · simp [stripL, h2]
      · simp [stripL, h3]
    | succ i =>
      simp only [attachAtL, Option.map_eq_some_iff] at h
      obtain ⟨qs1', hqs1, rfl⟩ := h
      simp only [validPosL] at hv
      obtain ⟨hl, h1, l, r, h2, h3⟩ := ihq i qs1' hqs1 hv
      refine ⟨by simp [hl], by simp [stripL, h1], (strip q).2 ++ l, r, ?_, ?_⟩
      · simp [stripL, h2]
      · simp [stripL, h3]

theorem isMdHead_attach (m : Q) (p : List Step) (f f1 : Q) (h : attachAt m p f = some f1) : isMdHead f1 = false := by
  cases p with
  | nil => simp [attachAt] at h; subst h; simp [wrapMd, isMdHead]
  | cons st p =>
    cases f with
    | var x => cases st <;> simp [attachAt] at h
    | lit c => cases st <;> simp [attachAt] at h
    | lam ps b =>
      cases st <;> simp [attachAt] at h
      obtain ⟨b1, _, rfl⟩ := h; simp [isMdHead]
    | app g as =>
      cases st <;> simp [attachAt] at h
      · obtain ⟨g1, _, rfl⟩ := h; simp [isMdHead]
      · obtain ⟨as1, _, rfl⟩ := h; simp [isMdHead]
    | node t ks =>
      cases st <;> simp [attachAt] at h
      obtain ⟨ks1, _, rfl⟩ := h; simp [isMdHead]

theorem attach_spec (m : Q) : ∀ (p : List Step) (q q1 : Q),
    attachAt m p q = some q1 → validPos p q = true → AttachSpec m q q1 := by
  intro p
  induction p with
  | nil =>
    intro q q1 h _
    simp only [attachAt, Option.some.injEq] at h
    subst h
    refine ⟨?_, [], (strip q).2, by simp, ?_⟩
    · simp [wrapMd, strip_app_md, isMdHead]
    · simp [wrapMd, strip_app_md, isMdHead]
  | cons st p ih =>
    intro q q1 h hv
    cases q with
    | var x => cases st <;> simp [attachAt] at h
    | lit c => cases st <;> simp [attachAt] at h
    | lam ps b =>
      cases st <;> simp [attachAt] at h
      obtain ⟨b1, hb1, rfl⟩ := h
      simp only [validPos] at hv
      obtain ⟨h1, l, r, h2, h3⟩ := ih b b1 hb1 hv
      exact ⟨by simp [strip, h1], l, r, by simp [strip, h2], by simp [strip, h3]⟩
    | node t ks =>
      cases st <;> simp [attachAt] at h
      rename_i i
      obtain ⟨ks1, hks1, rfl⟩ := h
      simp only [validPos] at hv
      obtain ⟨_, h1, l, r, h2, h3⟩ := attachL_spec m p ih ks i ks1 hks1 hv
      exact ⟨by simp [strip, h1], l, r, by simp [strip, h2], by simp [strip, h3]⟩
    | app f as =>
      cases st with
      | body => simp [attachAt] at h
      | kid i => simp [attachAt] at h
      | fn =>
        simp only [attachAt, Option.map_eq_some_iff] at h
        obtain ⟨f1, hf1, rfl⟩ := h
        simp only [validPos, Bool.and_eq_true, Bool.not_eq_true', Bool.and_eq_false_iff, decide_eq_false_iff_not] at hv
        obtain ⟨hg, hv⟩ := hv
        have hgen : isMdHead f = false ∨ as.length < 2 := by
          rcases hg with hg | hg
          · exact Or.inl hg
          · exact Or.inr (by omega)
        obtain ⟨h1, l, r, h2, h3⟩ := ih f f1 hf1 hv
        unfold AttachSpec
        rw [strip_app_generic f1 as (Or.inl (isMdHead_attach m p f f1 hf1)), strip_app_generic f as hgen]
        exact ⟨by simp [h1], l, r ++ (stripL as).flatMap (·.2), by simp [h2], by simp [h3]⟩
      | arg i =>
        simp only [attachAt, Option.map_eq_some_iff] at h
        obtain ⟨as1, has1, rfl⟩ := h
        simp only [validPos, Bool.and_eq_true, Bool.or_eq_true, Bool.not_eq_true', Bool.and_eq_false_iff,
          decide_eq_false_iff_not, beq_iff_eq] at hv
        obtain ⟨hg, hv⟩ := hv
        by_cases hmd : isMdHead f = true ∧ 2 ≤ as.length
        · -- an existing MetaData call: only its first argument may be entered
          obtain ⟨hm1, hm2⟩ := hmd
          have hi : i = 0 := by
            rcases hg with (hg | hg) | hg
            · simp [hm1] at hg
            · omega
            · exact hg
          subst hi
          match as, hm2 with
          | src :: d :: rest, _ =>
            simp only [attachAtL, Option.map_eq_some_iff] at has1
            obtain ⟨src1, hs1, rfl⟩ := has1
            simp only [validPosL] at hv
            obtain ⟨h1, l, r, h2, h3⟩ := ih src src1 hs1 hv
            unfold AttachSpec
            rw [strip_app_md f src1 d rest hm1, strip_app_md f src d rest hm1]
            exact ⟨h1, d :: l, r, by simp [h2], by simp [h3]⟩
        · have hgen : isMdHead f = false ∨ as.length < 2 := by
            by_cases hm1 : isMdHead f = true
            · exact Or.inr (Nat.lt_of_not_le (fun h2 => hmd ⟨hm1, h2⟩))
            · exact Or.inl (by simpa using hm1)
          obtain ⟨hl, h1, l, r, h2, h3⟩ := attachL_spec m p ih as i as1 has1 hv
          have hgen1 : isMdHead f = false ∨ as1.length < 2 := by
            rcases hgen with h | h
            · exact Or.inl h
            · exact Or.inr (by omega)
          unfold AttachSpec
          rw [strip_app_generic f as1 hgen1, strip_app_generic f as hgen]
          exact ⟨by simp [h1], (strip f).2 ++ l, r, by simp [h2], by simp [h3]⟩


/-! ### `process_metadata`: order of commuting items -/

def MdItem.comm (a b : MdItem) : Prop := a.commutes b = true ∧ b.commutes a = true

theorem MdItem.comm_symm {a b : MdItem} (h : MdItem.comm a b) : MdItem.comm b a := ⟨h.2, h.1⟩

theorem commutingAll_iff (l : List MdItem) : commutingAll l = true ↔ l.Pairwise MdItem.comm := by
  induction l with
  | nil => simp [commutingAll]
  | cons a l ih =>
    simp only [commutingAll, Bool.and_eq_true, List.all_eq_true, List.pairwise_cons, ih, MdItem.comm]

theorem upd_comm (f : String → Option String) (k v k' v' : String) (h : k ≠ k') :
    upd (upd f k v) k' v' = upd (upd f k' v') k v := by
  funext x
  simp only [upd]
  by_cases h1 : x = k' <;> by_cases h2 : x = k <;> simp [h1, h2]
  · exact absurd (h2.symm.trans h1) h
  · intro e; exact absurd e.symm h
  · intro e; exact absurd e h

theorem procMd_cons (s : MdState) (a : MdItem) (l : List MdItem) :
    procMd s (a :: l) = match a.step s with
      | .ok s' => procMd s' l
      | .error e => .error e := rfl

/-- two commuting items can be processed in either order, from any state -/
theorem step_swap (s : MdState) (a b : MdItem) (h : MdItem.comm a b) (rest : List MdItem) :
    procMd s (a :: b :: rest) = procMd s (b :: a :: rest) := by
  obtain ⟨h1, h2⟩ := h
  by_cases hab : a = b
  · subst hab; rfl
  cases a <;> cases b <;> simp only [MdItem.commutes, Bool.or_eq_true, Bool.and_eq_true, bne_iff_ne, beq_iff_eq, ne_eq] at h1 h2
    <;> simp only [procMd_cons, MdItem.step]
  -- methodType / methodType
  · rename_i k v k' v'
    have hk : k ≠ k' := by
      intro e; subst e
      rcases h1 with h1 | h1
      · exact h1 rfl
      · subst h1; exact hab rfl
    rw [upd_comm _ _ _ _ _ hk]
  -- methodType / enum
  · rename_i k v k' v'
    cases s.enums k' <;> rfl
  -- methodType / inject
  · rename_i k v n w
    cases hf : s.injects.find? (·.1 == n) with
    | none => simp
    | some b => by_cases hb : b.2 = w <;> simp [hb]
  -- fn / fn
  · rename_i k v k' v'
    have hk : k ≠ k' := by
      intro e; subst e
      rcases h1 with h1 | h1
      · exact h1 rfl
      · subst h1; exact hab rfl
    rw [upd_comm _ _ _ _ _ hk]
  -- fn / enum
  · rename_i k v k' v'
    cases s.enums k' <;> rfl
  -- fn / inject
  · rename_i k v n w
    cases hf : s.injects.find? (·.1 == n) with
    | none => simp
    | some b => by_cases hb : b.2 = w <;> simp [hb]
  -- enum / methodType
  · rename_i k v k' v'
    cases s.enums k <;> rfl
  -- enum / fn
  · rename_i k v k' v'
    cases s.enums k <;> rfl
  -- enum / enum
  · rename_i k v k' v'
    have hk : k ≠ k' := by
      intro e; subst e
      rcases h1 with h1 | h1
      · exact h1 rfl
      · subst h1; exact hab rfl
    cases e1 : s.enums k <;> cases e2 : s.enums k' <;> simp [upd, e1, e2, hk, Ne.symm hk]
    rw [upd_comm _ _ _ _ _ hk]
  -- enum / inject
  · rename_i k v n w
    cases hf : s.injects.find? (·.1 == n) with
    | none => cases he : s.enums k <;> simp [hf, he]
    | some b => by_cases hb : b.2 = w <;> cases he : s.enums k <;> simp [hf, hb, he]
  -- enum / script
  · rename_i k v n w
    cases s.enums k <;> rfl
  -- inject / methodType
  · rename_i n w k v
    cases hf : s.injects.find? (·.1 == n) with
    | none => simp
    | some b => by_cases hb : b.2 = w <;> simp [hb]
  -- inject / fn
  · rename_i n w k v
    cases hf : s.injects.find? (·.1 == n) with
    | none => simp
    | some b => by_cases hb : b.2 = w <;> simp [hb]
  -- inject / enum
  · rename_i n w k v
    cases hf : s.injects.find? (·.1 == n) with
    | none => cases he : s.enums k <;> simp [hf, he]
    | some b => by_cases hb : b.2 = w <;> cases he : s.enums k <;> simp [hf, hb, he]
  -- inject / inject (equal items only)
  · rename_i n w n' w'
    exact absurd (by rw [h1.1, h1.2]) hab
  -- inject / script
  · rename_i n w n' w'
    cases hf : s.injects.find? (·.1 == n) with
    | none => simp
    | some b => by_cases hb : b.2 = w <;> simp [hb]
  -- inject / bad
  · rename_i n w c
    cases hf : s.injects.find? (·.1 == n) with
    | none => simp
    | some b => by_cases hb : b.2 = w <;> simp [hb, h1]
  -- script / enum
  · rename_i n w k v
    cases s.enums k <;> rfl
  -- script / inject
  · rename_i n w n' w'
    cases hf : s.injects.find? (·.1 == n') with
    | none => simp
    | some b => by_cases hb : b.2 = w' <;> simp [hb]
  -- script / script (equal items only)
  · rename_i n w n' w'
    exact absurd (by rw [h1.1, h1.2]) hab
  -- bad / inject
  · rename_i c n w
    cases hf : s.injects.find? (·.1 == n) with
    | none => simp
    | some b => by_cases hb : b.2 = w <;> simp [hb, h2]
  -- bad / bad
  · rename_i c c'
    rw [h1]

theorem procMd_perm {l l' : List MdItem} (hp : l.Perm l') :
    l.Pairwise MdItem.comm → ∀ s, procMd s l = procMd s l' := by
  induction hp with
  | nil => intro _ _; rfl
  | cons a _ ih =>
    intro hc s
    simp only [procMd_cons]
    cases a.step s with
    | error e => rfl
    | ok s' => exact ih (List.pairwise_cons.1 hc).2 s'
  | swap a b l =>
    intro hc s
    have hab : MdItem.comm b a := (List.pairwise_cons.1 hc).1 a (by simp)
    exact step_swap s b a hab l
  | trans p1 _ ih1 ih2 =>
    intro hc s
    rw [ih1 hc s]
    exact ih2 ((p1.pairwise_iff (fun h => MdItem.comm_symm h)).1 hc) s

section factor
variable {ρ σ : Type} (alg : Alg ρ σ)

mutual
theorem eval_factors : ∀ (q : Q) (st : Stack ρ) (s : σ),
    eval alg st q s = evalDB alg st.vals (resolve st.names q) s
  | .var x, st, s => by
    simp only [eval, resolve]
    cases h : idx st.names x with
    | none => simp [stack_lookup_idx, h, evalDB]
    | some i =>
      obtain ⟨v, hv, hl⟩ := stack_lookup_some_of_idx st x i h
      simp [hl, evalDB, hv]
  | .lit c, st, s => by simp [eval, resolve, evalDB]
  | .lam ps b, st, s => by simp [eval, resolve, evalDB]
  | .app (.var f) as, st, s => by
    simp only [eval, resolve, boundHead]
    cases h : idx st.names f with
    | none =>
      have : st.lookup f = none := by rw [stack_lookup_idx, h]
      simp [this, evalDB, evalKids_factors as st ("call:" ++ f) [] s]
    | some i =>
      obtain ⟨v, hv, hl⟩ := stack_lookup_some_of_idx st f i h
      simp [hl, evalDB]
  | .app (.node t ks) as, st, s => by
    simp only [eval, resolve, evalDB, evalKids_factors ks st ("method:" ++ t) [] s]
    cases evalKidsDB alg st.vals ("method:" ++ t) [] (resolveL st.names ks) s with
    | error e => rfl
    | ok r => obtain ⟨vs, s1⟩ := r; simp only [evalKids_factors as st ("method:" ++ t) vs s1]
  | .app (.lam ps b) as, st, s => by simp [eval, resolve, evalDB]
  | .app (.lit c) as, st, s => by
    simp only [eval, resolve, evalDB]
    cases alg.pre "dyn" [] s with
    | error e => rfl
    | ok s0 =>
      simp only []
      cases alg.lit c s0 with
      | error e => rfl
      | ok r => obtain ⟨v, s1⟩ := r; simp only [evalKids_factors as st "dyn" [v] s1]
  | .app (.app g bs) as, st, s => by
    simp only [eval, evalDB, resolve]
    cases alg.pre "dyn" [] s with
    | error e => rfl
    | ok s0 =>
      simp only []
      have := eval_factors (.app g bs) st s0
      simp only [resolve] at this
      rw [this]
      cases evalDB alg st.vals (.app (resolve st.names g) (resolveL st.names bs)) s0 with
      | error e => rfl
      | ok r => obtain ⟨v, s1⟩ := r; simp only [evalKids_factors as st "dyn" [v] s1]
  | .node t ks, st, s => by
    simp only [eval, resolve, evalDB, evalKids_factors ks st t [] s]
theorem evalKids_factors : ∀ (ks : List Q) (st : Stack ρ) (tag : String) (done : List ρ) (s : σ),
    evalKids alg st tag done ks s = evalKidsDB alg st.vals tag done (resolveL st.names ks) s
  | [], st, tag, done, s => by simp [evalKids, resolveL, evalKidsDB]
  | .lam ps b :: rest, st, tag, done, s => by
    simp only [evalKids, resolveL, resolve, evalKidsDB]
    cases alg.enter tag done ps.length s with
    | error e => rfl
    | ok r =>
      obtain ⟨vals, s1⟩ := r
      simp only []
      by_cases hl : vals.length = ps.length
      · simp only [hl, if_true]
        rw [eval_factors b (ps.zip vals :: st) s1, names_push ps vals st hl, vals_push ps vals st hl]
        cases evalDB alg (vals.reverse ++ st.vals) (resolve (ps.reverse ++ st.names) b) s1 with
        | error e => rfl
        | ok r2 => obtain ⟨v, s2⟩ := r2; simp only [evalKids_factors rest st tag (done ++ [v]) s2]
      · simp [hl]
  | .var x :: rest, st, tag, done, s => by
    have hk := eval_factors (.var x) st
    cases h : idx st.names x with
    | none =>
      have hr : resolve st.names (.var x) = .fvar x := by simp [resolve, h]
      simp only [evalKids, resolveL, hr, evalKidsDB]
      cases alg.pre tag done s with
      | error e => rfl
      | ok s0 =>
        simp only [hk s0, hr]
        cases evalDB alg st.vals (.fvar x) s0 with
        | error e => rfl
        | ok r => obtain ⟨v, s1⟩ := r; simp only [evalKids_factors rest st tag (done ++ [v]) s1]
    | some i =>
      have hr : resolve st.names (.var x) = .bvar i := by simp [resolve, h]
      simp only [evalKids, resolveL, hr, evalKidsDB]
      cases alg.pre tag done s with
      | error e => rfl
      | ok s0 =>
        simp only [hk s0, hr]
        cases evalDB alg st.vals (.bvar i) s0 with
        | error e => rfl
        | ok r => obtain ⟨v, s1⟩ := r; simp only [evalKids_factors rest st tag (done ++ [v]) s1]
  | .lit c :: rest, st, tag, done, s => by
    simp only [evalKids, resolveL, resolve, evalKidsDB]
    cases alg.pre tag done s with
    | error e => rfl
    | ok s0 =>
      simp only [eval, evalDB]
      cases alg.lit c s0 with
      | error e => rfl
      | ok r => obtain ⟨v, s1⟩ := r; simp only [evalKids_factors rest st tag (done ++ [v]) s1]
  | .app f as :: rest, st, tag, done, s => by
    simp only [evalKids, resolveL, resolve, evalKidsDB]
    cases alg.pre tag done s with
    | error e => rfl
    | ok s0 =>
      simp only []
      have := eval_factors (.app f as) st s0
      simp only [resolve] at this
      rw [this]
      cases evalDB alg st.vals (.app (resolve st.names f) (resolveL st.names as)) s0 with
      | error e => rfl
      | ok r => obtain ⟨v, s1⟩ := r; simp only [evalKids_factors rest st tag (done ++ [v]) s1]
  | .node t ks :: rest, st, tag, done, s => by
    simp only [evalKids, resolveL, resolve, evalKidsDB]
    cases alg.pre tag done s with
    | error e => rfl
    | ok s0 =>
      simp only []
      have := eval_factors (.node t ks) st s0
      simp only [resolve] at this
      rw [this]
      cases evalDB alg st.vals (.node t (resolveL st.names ks)) s0 with
      | error e => rfl
      | ok r => obtain ⟨v, s1⟩ := r; simp only [evalKids_factors rest st tag (done ++ [v]) s1]
end
end factor


/-! ### global names: the `free` handler is reached only by names no frame binds -/

section globals
variable {ρ σ : Type} (alg : Alg ρ σ) (free' : String → σ → Except String (ρ × σ)) (g : String → Bool)

theorem finish_withFree (tag : String) (r : Except String (List ρ × σ)) :
    finish (alg.withFree free') tag r = finish alg tag r := by
  cases r <;> rfl

mutual
theorem evalDB_globals (hf : ∀ x, g x = false → free' x = alg.free x) :
    ∀ (d : DB) (env : List ρ) (s : σ), readsGlobal g d = false →
    evalDB (alg.withFree free') env d s = evalDB alg env d s
  | .bvar i, env, s, _ => by simp [evalDB]
  | .fvar x, env, s, h => by
    simp only [readsGlobal] at h
    simp [evalDB, Alg.withFree, hf x h]
  | .lit c, env, s, _ => by simp [evalDB, Alg.withFree]
  | .lam n b, env, s, _ => by simp [evalDB]
  | .app (.fvar f) as, env, s, h => by
    simp only [readsGlobal, Bool.or_eq_false_iff] at h
    simp only [evalDB, finish_withFree, evalKidsDB_globals hf as env ("call:" ++ f) [] s h.2]
  | .app (.bvar i) as, env, s, _ => by simp [evalDB]
  | .app (.lam n b) as, env, s, _ => by simp [evalDB]
  | .app (.node t ks) as, env, s, h => by
    simp only [readsGlobal, Bool.or_eq_false_iff] at h
    simp only [evalDB, evalKidsDB_globals hf ks env ("method:" ++ t) [] s h.1]
    cases evalKidsDB alg env ("method:" ++ t) [] ks s with
    | error e => rfl
    | ok r =>
      obtain ⟨vs, s1⟩ := r
      simp only [finish_withFree, evalKidsDB_globals hf as env ("method:" ++ t) vs s1 h.2]
  | .app (.lit c) as, env, s, h => by
    simp only [readsGlobal, Bool.or_eq_false_iff] at h
    simp only [evalDB]
    show (match alg.pre "dyn" [] s with | .ok s0 => _ | .error e => _) = _
    cases alg.pre "dyn" [] s with
    | error e => rfl
    | ok s0 =>
      simp only []
      show (match alg.lit c s0 with | .ok (v, s1) => _ | .error e => _) = _
      cases alg.lit c s0 with
      | error e => rfl
      | ok r => obtain ⟨v, s1⟩ := r; simp only [finish_withFree, evalKidsDB_globals hf as env "dyn" [v] s1 h.2]
  | .app (.app f2 bs) as, env, s, h => by
    simp only [readsGlobal, Bool.or_eq_false_iff] at h
    have ih := evalDB_globals hf (.app f2 bs) env
    simp only [evalDB]
    show (match alg.pre "dyn" [] s with | .ok s0 => _ | .error e => _) = _
    cases alg.pre "dyn" [] s with
    | error e => rfl
    | ok s0 =>
      simp only []
      rw [ih s0 (by simp only [readsGlobal, Bool.or_eq_false_iff]; exact h.1)]
      cases evalDB alg env (.app f2 bs) s0 with
      | error e => rfl
      | ok r => obtain ⟨v, s1⟩ := r; simp only [finish_withFree, evalKidsDB_globals hf as env "dyn" [v] s1 h.2]
  | .node t ks, env, s, h => by
    simp only [readsGlobal] at h
    simp only [evalDB, finish_withFree, evalKidsDB_globals hf ks env t [] s h]
theorem evalKidsDB_globals (hf : ∀ x, g x = false → free' x = alg.free x) :
    ∀ (ks : List DB) (env : List ρ) (tag : String) (done : List ρ) (s : σ), readsGlobalL g ks = false →
    evalKidsDB (alg.withFree free') env tag done ks s = evalKidsDB alg env tag done ks s
  | [], env, tag, done, s, _ => by simp [evalKidsDB]
  | .lam n b :: rest, env, tag, done, s, h => by
    simp only [readsGlobalL, readsGlobal, Bool.or_eq_false_iff] at h
    simp only [evalKidsDB]
    show (match alg.enter tag done n s with | .ok (vals, s1) => _ | .error e => _) = _
    cases alg.enter tag done n s with
    | error e => rfl
    | ok r =>
      obtain ⟨vals, s1⟩ := r
      simp only []
      by_cases hl : vals.length = n
      · simp only [hl, if_true]
        rw [evalDB_globals hf b (vals.reverse ++ env) s1 h.1]
        cases evalDB alg (vals.reverse ++ env) b s1 with
        | error e => rfl
        | ok r2 => obtain ⟨v, s2⟩ := r2; simp only [evalKidsDB_globals hf rest env tag (done ++ [v]) s2 h.2]
      · simp [hl]
  | .bvar i :: rest, env, tag, done, s, h => by
    simp only [readsGlobalL, Bool.or_eq_false_iff] at h
    simp only [evalKidsDB]
    show (match alg.pre tag done s with | .ok s0 => _ | .error e => _) = _
    cases alg.pre tag done s with
    | error e => rfl
    | ok s0 =>
      simp only []
      rw [evalDB_globals hf (.bvar i) env s0 h.1]
      cases evalDB alg env (.bvar i) s0 with
      | error e => rfl
      | ok r => obtain ⟨v, s1⟩ := r; simp only [evalKidsDB_globals hf rest env tag (done ++ [v]) s1 h.2]
  | .fvar x :: rest, env, tag, done, s, h => by
    simp only [readsGlobalL, Bool.or_eq_false_iff] at h
    simp only [evalKidsDB]
    show (match alg.pre tag done s with | .ok s0 => _ | .error e => _) = _
    cases alg.pre tag done s with
    | error e => rfl
    | ok s0 =>
      simp only []
      rw [evalDB_globals hf (.fvar x) env s0 h.1]
      cases evalDB alg env (.fvar x) s0 with
      | error e => rfl
      | ok r => obtain ⟨v, s1⟩ := r; simp only [evalKidsDB_globals hf rest env tag (done ++ [v]) s1 h.2]
  | .lit c :: rest, env, tag, done, s, h => by
    simp only [readsGlobalL, Bool.or_eq_false_iff] at h
    simp only [evalKidsDB]
    show (match alg.pre tag done s with | .ok s0 => _ | .error e => _) = _
    cases alg.pre tag done s with
    | error e => rfl
    | ok s0 =>
      simp only []
      rw [evalDB_globals hf (.lit c) env s0 h.1]
      cases evalDB alg env (.lit c) s0 with
      | error e => rfl
      | ok r => obtain ⟨v, s1⟩ := r; simp only [evalKidsDB_globals hf rest env tag (done ++ [v]) s1 h.2]
  | .app f as :: rest, env, tag, done, s, h => by
    simp only [readsGlobalL, Bool.or_eq_false_iff] at h
    simp only [evalKidsDB]
    show (match alg.pre tag done s with | .ok s0 => _ | .error e => _) = _
    cases alg.pre tag done s with
    | error e => rfl
    | ok s0 =>
      simp only []
      rw [evalDB_globals hf (.app f as) env s0 h.1]
      cases evalDB alg env (.app f as) s0 with
      | error e => rfl
      | ok r => obtain ⟨v, s1⟩ := r; simp only [evalKidsDB_globals hf rest env tag (done ++ [v]) s1 h.2]
  | .node t ks :: rest, env, tag, done, s, h => by
    simp only [readsGlobalL, Bool.or_eq_false_iff] at h
    simp only [evalKidsDB]
    show (match alg.pre tag done s with | .ok s0 => _ | .error e => _) = _
    cases alg.pre tag done s with
    | error e => rfl
    | ok s0 =>
      simp only []
      rw [evalDB_globals hf (.node t ks) env s0 h.1]
      cases evalDB alg env (.node t ks) s0 with
      | error e => rfl
      | ok r => obtain ⟨v, s1⟩ := r; simp only [evalKidsDB_globals hf rest env tag (done ++ [v]) s1 h.2]
end
end globals


/-! ### fusion of chained Select / Where steps on scalar-bodied lambdas -/

def envOk (env : Stack Q) : Prop := ∀ x v, env.lookup x = some v → isDictNode v = false

theorem simplify_var (fuel : Nat) (env : Stack Q) (n : Nat) (x : String) :
    simplify (fuel + 1) env n (.var x) = ((env.lookup x).getD (.var x), n) := by
  simp [simplify]

theorem simplify_app_var_generic (fuel : Nat) (env : Stack Q) (n : Nat) (f : String) (as : List Q)
    (h : opName f = false) :
    simplify (fuel + 1) env n (.app (.var f) as) =
      ((Q.app (simplify fuel env n (.var f)).1 (simplifyL fuel env (simplify fuel env n (.var f)).2 as).1),
       (simplifyL fuel env (simplify fuel env n (.var f)).2 as).2) := by
  simp only [opName, Bool.or_eq_false_iff, beq_eq_false_iff_ne, ne_eq] at h
  obtain ⟨⟨⟨h1, h2⟩, h3⟩, h4⟩ := h
  simp [simplify, h1, h2, h3]

theorem notFirst_of_scalar (q : Q) (h : scalar q = true) : q.isCallOf "First" = false := by
  cases q with
  | app f as =>
    cases f with
    | var g =>
      simp only [scalar, Bool.and_eq_true, Bool.not_eq_true', opName, Bool.or_eq_false_iff, beq_eq_false_iff_ne] at h
      simp [Q.isCallOf, h.1.2]
    | _ => simp [Q.isCallOf]
  | _ => simp [Q.isCallOf]

theorem notDict_subst (env : Stack Q) (henv : envOk env) (q : Q) (h : scalar q = true) :
    isDictNode (subst env q) = false := by
  cases q with
  | var x =>
    simp only [subst]
    cases hl : env.lookup x with
    | none => simp [isDictNode]
    | some v => simpa using henv x v hl
  | lit c => simp [subst, isDictNode]
  | lam ps b => simp [scalar] at h
  | app f as => simp [subst, isDictNode]
  | node t ks =>
    simp only [scalar, Bool.and_eq_true, tagOk, bne_iff_ne] at h
    simp [subst, isDictNode, h.1.2]

theorem depth_pos (t : Q) : 1 ≤ depth t := by cases t <;> simp [depth]

theorem simplify_scalar : ∀ (fuel : Nat) (env : Stack Q) (henv : envOk env) (n : Nat),
    (∀ (t : Q), scalar t = true → depth t ≤ fuel → simplify fuel env n t = (subst env t, n)) ∧
    (∀ (ts : List Q), scalarL ts = true → depthL ts ≤ fuel → simplifyL fuel env n ts = (substL env ts, n)) := by
  intro fuel
  induction fuel with
  | zero =>
    intro env henv n
    constructor
    · intro t _ hd; cases t <;> simp [depth] at hd
    · intro ts _ hd; cases ts <;> simp [depthL] at hd
  | succ fuel ih =>
    intro env henv n
    have ih1 := fun t => (ih env henv n).1 t
    have ih2 := fun ts => (ih env henv n).2 ts
    constructor
    · intro t hs hd
      cases t with
      | var x => simp [simplify, subst]
      | lit c => simp [simplify, subst]
      | lam ps b => simp [scalar] at hs
      | node t ks =>
        simp only [scalar, Bool.and_eq_true] at hs
        simp only [depth] at hd
        have hk := ih2 ks hs.2 (by omega)
        have htag : t ≠ "sub" ∧ t ≠ "dict" := by simpa [tagOk] using hs.1
        match ks, hk with
        | [], hk => simp [simplify, subst, hk]
        | [value], hk =>
          simp only [scalarL, Bool.and_true] at hs
          simp only [depthL] at hd
          have hv := ih1 value hs.2 (by omega)
          cases ha : attrName? t with
          | none => simp [simplify, ha, subst, hk]
          | some name =>
            have hnf := notFirst_of_scalar value hs.2
            have hnd := notDict_subst env henv value hs.2
            simp only [simplify, ha, hnf, hv, subst, substL]
            cases hsv : subst env value with
            | node vt elts =>
              rw [hsv] at hnd
              simp only [isDictNode, beq_eq_false_iff_ne, ne_eq] at hnd
              simp [hnd]
            | _ => simp
        | [value, slice], hk => simp [simplify, htag.1, subst, hk]
        | a :: b :: c :: rest, hk => simp [simplify, subst, hk]
      | app f as =>
        cases f with
        | var g =>
          simp only [scalar, Bool.and_eq_true, Bool.not_eq_true'] at hs
          simp only [depth] at hd
          have ha := ih2 as hs.2 (by omega)
          have hg : fuel ≥ 1 := by simp [depth] at hd; omega
          obtain ⟨f', hf'⟩ : ∃ f', fuel = f' + 1 := ⟨fuel - 1, by omega⟩
          rw [simplify_app_var_generic fuel env n g as hs.1]
          have : simplify fuel env n (.var g) = (subst env (.var g), n) := by subst hf'; simp [simplify, subst]
          simp [this, ha, subst]
        | node t ks =>
          match ks with
          | [recv] =>
            simp only [scalar, Bool.and_eq_true] at hs
            simp only [depth] at hd
            have ha := ih2 as hs.2 (by omega)
            have hnf := notFirst_of_scalar recv hs.1.2
            have hnode : scalar (.node t [recv]) = true := by simp [scalar, scalarL, hs.1.1, hs.1.2]
            have hf := ih1 (.node t [recv]) hnode (by simp [depth]; omega)
            simp [simplify, hnf, hf, ha, subst]
          | [] => simp [scalar] at hs
          | _ :: _ :: _ => simp [scalar] at hs
        | lit c => simp [scalar] at hs
        | lam ps b => simp [scalar] at hs
        | app g bs => simp [scalar] at hs
    · intro ts hs hd
      cases ts with
      | nil => simp [simplifyL, substL]
      | cons q qs =>
        simp only [scalarL, Bool.and_eq_true] at hs
        simp only [depthL] at hd
        have h1 := ih1 q hs.1 (by omega)
        have h2 := ih2 qs hs.2 (by omega)
        simp [simplifyL, substL, h1, h2]

mutual
theorem subst_nil : ∀ (t : Q), subst [] t = t
  | .var x => by simp [subst, Stack.lookup]
  | .lit c => by simp [subst]
  | .lam ps b => by simp [subst, subst_nil b]
  | .app f as => by simp [subst, subst_nil f, substL_nil as]
  | .node t ks => by simp [subst, substL_nil ks]
theorem substL_nil : ∀ (ts : List Q), substL [] ts = ts
  | [] => by simp [substL]
  | q :: qs => by simp [substL, subst_nil q, substL_nil qs]
end

theorem lookup_single (k : String) (v : Q) (u : String) :
    Stack.lookup [[(k, v)]] u = if u = k then some v else none := by
  by_cases h : u = k <;> simp [Stack.lookup, Frame.get?, h]

mutual
/-- on a lambda-free term `make_args_unique`'s renaming is a plain renaming; followed by the substitution for the
new name it is the substitution for the old one -/
theorem subst_ren : ∀ (t : Q) (x a : String) (v : Q), scalar t = true → a ∉ allNames t →
    subst [[(a, v)]] (renVars [(x, a)] t) = subst [[(x, v)]] t
  | .var u, x, a, v, _, ha => by
    simp only [allNames, List.mem_singleton] at ha
    simp only [renVars, renLookup, subst, lookup_single]
    by_cases hu : u = x
    · simp [hu]
    · have : ¬ u = a := fun e => ha e.symm
      simp [hu, this]
  | .lit c, _, _, _, _, _ => by simp [renVars, subst]
  | .lam ps b, _, _, _, hs, _ => by simp [scalar] at hs
  | .app (.var g) as, x, a, v, hs, ha => by
    simp only [scalar, Bool.and_eq_true] at hs
    simp only [allNames, List.mem_append, not_or] at ha
    have h1 := subst_ren (.var g) x a v (by simp [scalar]) ha.1
    have h2 := substL_ren as x a v hs.2 ha.2
    simp only [renVars, subst] at h1 ⊢
    rw [h1, h2]
  | .app (.node t [recv]) as, x, a, v, hs, ha => by
    simp only [scalar, Bool.and_eq_true] at hs
    simp only [allNames, allNamesL, List.mem_append, not_or, List.append_nil] at ha
    have h1 := subst_ren recv x a v hs.1.2 ha.1
    have h2 := substL_ren as x a v hs.2 ha.2
    simp only [renVars, renVarsL, subst, substL]
    rw [h1, h2]
  | .app (.node t []) as, _, _, _, hs, _ => by simp [scalar] at hs
  | .app (.node t (_ :: _ :: _)) as, _, _, _, hs, _ => by simp [scalar] at hs
  | .app (.lit c) as, _, _, _, hs, _ => by simp [scalar] at hs
  | .app (.lam ps b) as, _, _, _, hs, _ => by simp [scalar] at hs
  | .app (.app g bs) as, _, _, _, hs, _ => by simp [scalar] at hs
  | .node t ks, x, a, v, hs, ha => by
    simp only [scalar, Bool.and_eq_true] at hs
    simp only [allNames] at ha
    simp only [renVars, subst]
    rw [substL_ren ks x a v hs.2 ha]
theorem substL_ren : ∀ (ts : List Q) (x a : String) (v : Q), scalarL ts = true → a ∉ allNamesL ts →
    substL [[(a, v)]] (renVarsL [(x, a)] ts) = substL [[(x, v)]] ts
  | [], _, _, _, _, _ => by simp [renVarsL, substL]
  | q :: qs, x, a, v, hs, ha => by
    simp only [scalarL, Bool.and_eq_true] at hs
    simp only [allNamesL, List.mem_append, not_or] at ha
    simp only [renVarsL, substL]
    rw [subst_ren q x a v hs.1 ha.1, substL_ren qs x a v hs.2 ha.2]
end

theorem opName_argName (k : Nat) : opName (argName k) = false := by
  have h1 : argName k ≠ "Select" := by
    intro h; have := congrArg String.toList h; simp [argName] at this
  have h2 : argName k ≠ "SelectMany" := by
    intro h; have := congrArg String.toList h; simp [argName] at this
  have h3 : argName k ≠ "Where" := by
    intro h; have := congrArg String.toList h; simp [argName] at this
  have h4 : argName k ≠ "First" := by
    intro h; have := congrArg String.toList h; simp [argName] at this
  simp [opName, h1, h2, h3, h4]

mutual
theorem scalar_ren : ∀ (t : Q) (x a : String), opName a = false → scalar t = true → scalar (renVars [(x, a)] t) = true
  | .var u, _, _, _, _ => by simp [renVars, scalar]
  | .lit c, _, _, _, _ => by simp [renVars, scalar]
  | .lam ps b, _, _, _, hs => by simp [scalar] at hs
  | .app (.var g) as, x, a, ha, hs => by
    simp only [scalar, Bool.and_eq_true, Bool.not_eq_true'] at hs
    simp only [renVars, renLookup, scalar, Bool.and_eq_true, Bool.not_eq_true', scalarL_ren as x a ha hs.2, and_true]
    by_cases hg : g = x
    · simp [hg, ha]
    · simp [hg, hs.1]
  | .app (.node t [recv]) as, x, a, ha, hs => by
    simp only [scalar, Bool.and_eq_true] at hs
    simp [renVars, renVarsL, scalar, hs.1.1, scalar_ren recv x a ha hs.1.2, scalarL_ren as x a ha hs.2]
  | .app (.node t []) as, _, _, _, hs => by simp [scalar] at hs
  | .app (.node t (_ :: _ :: _)) as, _, _, _, hs => by simp [scalar] at hs
  | .app (.lit c) as, _, _, _, hs => by simp [scalar] at hs
  | .app (.lam ps b) as, _, _, _, hs => by simp [scalar] at hs
  | .app (.app g bs) as, _, _, _, hs => by simp [scalar] at hs
  | .node t ks, x, a, ha, hs => by
    simp only [scalar, Bool.and_eq_true] at hs
    simp [renVars, scalar, hs.1, scalarL_ren ks x a ha hs.2]
theorem scalarL_ren : ∀ (ts : List Q) (x a : String), opName a = false → scalarL ts = true → scalarL (renVarsL [(x, a)] ts) = true
  | [], _, _, _, _ => by simp [renVarsL, scalarL]
  | q :: qs, x, a, ha, hs => by
    simp only [scalarL, Bool.and_eq_true] at hs
    simp [renVarsL, scalarL, scalar_ren q x a ha hs.1, scalarL_ren qs x a ha hs.2]
end

mutual
theorem depth_ren : ∀ (t : Q) (m : List (String × String)), depth (renVars m t) = depth t
  | .var u, _ => by simp [renVars, depth]
  | .lit c, _ => by simp [renVars, depth]
  | .lam ps b, m => by simp [renVars, depth, depth_ren b]
  | .app f as, m => by simp [renVars, depth, depth_ren f m, depthL_ren as m]
  | .node t ks, m => by simp [renVars, depth, depthL_ren ks m]
theorem depthL_ren : ∀ (ts : List Q) (m : List (String × String)), depthL (renVarsL m ts) = depthL ts
  | [], _ => by simp [renVarsL, depthL]
  | q :: qs, m => by simp [renVarsL, depthL, depth_ren q m, depthL_ren qs m]
end

theorem envOk_single (k : String) (v : Q) (h : isDictNode v = false) : envOk [[(k, v)]] := by
  intro u v' hl
  rw [lookup_single] at hl
  by_cases hu : u = k <;> simp [hu] at hl
  subst hl; exact h

/-- the β-reduction of the composition `(λa0. G)((λa1. B)(w))` of two scalar-bodied lambdas -/
theorem comp_beta (F n : Nat) (a0 a1 w : String) (G B : Q) (hG : scalar G = true) (hB : scalar B = true)
    (hdG : depth G + 1 ≤ F) (hdB : depth B + 3 ≤ F) :
    simplify (F + 1) [] n (.app (.lam [a0] G) [.app (.lam [a1] B) [.var w]]) =
      (subst [[(a0, subst [[(a1, .var w)]] B)]] G, n) := by
  have hpB := depth_pos B
  obtain ⟨F1, rfl⟩ : ∃ F1, F = F1 + 1 := ⟨F - 1, by omega⟩
  obtain ⟨F2, rfl⟩ : ∃ F2, F1 = F2 + 1 := ⟨F1 - 1, by omega⟩
  obtain ⟨F3, rfl⟩ : ∃ F3, F2 = F3 + 1 := ⟨F2 - 1, by omega⟩
  obtain ⟨F4, rfl⟩ : ∃ F4, F3 = F4 + 1 := ⟨F3 - 1, by omega⟩
  have envB : envOk [[(a1, Q.var w)]] := envOk_single _ _ rfl
  have hb := (simplify_scalar (F4 + 1 + 1) [[(a1, .var w)]] envB n).1 B hB (by omega)
  have envG : envOk [[(a0, subst [[(a1, Q.var w)]] B)]] := envOk_single _ _ (notDict_subst _ envB B hB)
  have hg := (simplify_scalar (F4 + 1 + 1 + 1 + 1) [[(a0, subst [[(a1, .var w)]] B)]] envG n).1 G hG (by omega)
  simp [simplify, simplifyL, Stack.lookup, hb, hg]

theorem idx_single_ne (w u : String) (h : u ≠ w) : idx [w] u = none := by simp [idx, h]

mutual
theorem resolve_subst_fresh : ∀ (t : Q) (k w w' : String) (V V' : Q), scalar t = true →
    w ∉ allNames t → w' ∉ allNames t → resolve [w] V = resolve [w'] V' →
    resolve [w] (subst [[(k, V)]] t) = resolve [w'] (subst [[(k, V')]] t)
  | .var u, k, w, w', V, V', _, hw, hw', hV => by
    simp only [allNames, List.mem_singleton] at hw hw'
    simp only [subst, lookup_single]
    by_cases hu : u = k
    · simpa [hu] using hV
    · simp [hu, resolve, idx_single_ne w u (fun e => hw e.symm), idx_single_ne w' u (fun e => hw' e.symm)]
  | .lit c, _, _, _, _, _, _, _, _, _ => by simp [subst, resolve]
  | .lam ps b, _, _, _, _, _, hs, _, _, _ => by simp [scalar] at hs
  | .app (.var g) as, k, w, w', V, V', hs, hw, hw', hV => by
    simp only [scalar, Bool.and_eq_true] at hs
    simp only [allNames, List.mem_append, not_or] at hw hw'
    have h1 := resolve_subst_fresh (.var g) k w w' V V' (by simp [scalar]) hw.1 hw'.1 hV
    have h2 := resolveL_subst_fresh as k w w' V V' hs.2 hw.2 hw'.2 hV
    simp only [subst, resolve] at h1 ⊢
    rw [h1, h2]
  | .app (.node t [recv]) as, k, w, w', V, V', hs, hw, hw', hV => by
    simp only [scalar, Bool.and_eq_true] at hs
    simp only [allNames, allNamesL, List.mem_append, not_or, List.append_nil] at hw hw'
    have h1 := resolve_subst_fresh recv k w w' V V' hs.1.2 hw.1 hw'.1 hV
    have h2 := resolveL_subst_fresh as k w w' V V' hs.2 hw.2 hw'.2 hV
    simp only [subst, substL, resolve, resolveL]
    rw [h1, h2]
  | .app (.node t []) as, _, _, _, _, _, hs, _, _, _ => by simp [scalar] at hs
  | .app (.node t (_ :: _ :: _)) as, _, _, _, _, _, hs, _, _, _ => by simp [scalar] at hs
  | .app (.lit c) as, _, _, _, _, _, hs, _, _, _ => by simp [scalar] at hs
  | .app (.lam ps b) as, _, _, _, _, _, hs, _, _, _ => by simp [scalar] at hs
  | .app (.app g bs) as, _, _, _, _, _, hs, _, _, _ => by simp [scalar] at hs
  | .node t ks, k, w, w', V, V', hs, hw, hw', hV => by
    simp only [scalar, Bool.and_eq_true] at hs
    simp only [allNames] at hw hw'
    simp only [subst, resolve]
    rw [resolveL_subst_fresh ks k w w' V V' hs.2 hw hw' hV]
theorem resolveL_subst_fresh : ∀ (ts : List Q) (k w w' : String) (V V' : Q), scalarL ts = true →
    w ∉ allNamesL ts → w' ∉ allNamesL ts → resolve [w] V = resolve [w'] V' →
    resolveL [w] (substL [[(k, V)]] ts) = resolveL [w'] (substL [[(k, V')]] ts)
  | [], _, _, _, _, _, _, _, _, _ => by simp [substL, resolveL]
  | q :: qs, k, w, w', V, V', hs, hw, hw', hV => by
    simp only [scalarL, Bool.and_eq_true] at hs
    simp only [allNamesL, List.mem_append, not_or] at hw hw'
    simp only [substL, resolveL]
    rw [resolve_subst_fresh q k w w' V V' hs.1 hw.1 hw'.1 hV, resolveL_subst_fresh qs k w w' V V' hs.2 hw.2 hw'.2 hV]
end

/-- the composed body does not depend on the name of the composition's parameter -/
theorem compose_alpha (fb gb : Q) (x y w w' : String) (hf : scalar fb = true) (hg : scalar gb = true)
    (hw : w ∉ allNames fb ∧ w ∉ allNames gb) (hw' : w' ∉ allNames fb ∧ w' ∉ allNames gb) :
    resolve [w] (subst [[(y, subst [[(x, .var w)]] fb)]] gb) =
    resolve [w'] (subst [[(y, subst [[(x, .var w')]] fb)]] gb) := by
  apply resolve_subst_fresh gb y w w' _ _ hg hw.2 hw'.2
  apply resolve_subst_fresh fb x w w' _ _ hf hw.1 hw'.1
  simp [resolve, idx]

theorem simplify_lam_scalar (F n : Nat) (ps : List String) (b : Q) (hb : scalar b = true) (hd : depth b ≤ F) :
    simplify (F + 1) [] n (.lam ps b) = (.lam ps b, n) := by
  have := (simplify_scalar F [] (by intro u v h; simp [Stack.lookup] at h) n).1 b hb hd
  simp [simplify, this, subst_nil]

theorem isIdentity_lam_iff (w : String) (B : Q) : isIdentity (.lam [w] B) = true ↔ B = .var w := by
  cases B <;> simp [isIdentity]
  rename_i u; constructor <;> intro h <;> exact h.symm

theorem resolve_eq_bvar0 (w : String) (B : Q) (h : resolve [w] B = .bvar 0) : B = .var w := by
  cases B with
  | var u =>
    simp only [resolve, idx] at h
    by_cases hu : u = w
    · rw [hu]
    · simp [hu] at h
  | _ => simp [resolve] at h

/-- two single-parameter lambdas with α-equal bodies give α-equal `make_Select` results -/
theorem makeSelect_alpha (p0 : Q) (w w' : String) (B B' : Q) (h : resolve [w] B = resolve [w'] B') :
    resolve [] (makeSelect p0 (.lam [w] B)) = resolve [] (makeSelect p0 (.lam [w'] B')) := by
  by_cases hi : B = .var w
  · have hi' : B' = .var w' := by
      apply resolve_eq_bvar0
      rw [← h, hi]; simp [resolve, idx]
    simp [makeSelect, (isIdentity_lam_iff w B).2 hi, (isIdentity_lam_iff w' B').2 hi']
  · have hi' : ¬ B' = .var w' := by
      intro e; apply hi; apply resolve_eq_bvar0
      rw [h, e]; simp [resolve, idx]
    have e1 : isIdentity (.lam [w] B) = false := by
      cases hh : isIdentity (.lam [w] B) with
      | false => rfl
      | true => exact absurd ((isIdentity_lam_iff w B).1 hh) hi
    have e2 : isIdentity (.lam [w'] B') = false := by
      cases hh : isIdentity (.lam [w'] B') with
      | false => rfl
      | true => exact absurd ((isIdentity_lam_iff w' B').1 hh) hi'
    simp [makeSelect, e1, e2, Q.call, resolve, resolveL, h]

theorem simplify_lam (F : Nat) (env : Stack Q) (n : Nat) (ps : List String) (b : Q) :
    simplify (F + 1) env n (.lam ps b) = (.lam ps (simplify F env n b).1, (simplify F env n b).2) := by
  simp [simplify]

/-- `call_Select` when the simplified source is neither a Select nor a SelectMany -/
theorem simplify_Select_plain (F : Nat) (env : Stack Q) (n n1 : Nat) (src sel p0 : Q) (hl : isLam sel = true)
    (hsrc : simplify F env n src = (p0, n1)) (h1 : p0.isCallOf "Select" = false) (h2 : p0.isCallOf "SelectMany" = false) :
    simplify (F + 1) env n (Q.call "Select" [src, sel]) =
      (makeSelect p0 (simplify F env n1 sel).1, (simplify F env n1 sel).2) := by
  simp [Q.call, simplify, hl, hsrc, h1, h2]

/-- `visit_Select_of_Select` -/
theorem simplify_Select_fuse (F : Nat) (env : Stack Q) (n n1 : Nat) (src sel source f : Q) (hl : isLam sel = true)
    (hsrc : simplify F env n src = (Q.call "Select" [source, f], n1)) :
    simplify (F + 1) env n (Q.call "Select" [src, sel]) =
      (makeSelect source (simplify F env (convolute n1 sel f).2 (convolute n1 sel f).1).1,
       (simplify F env (convolute n1 sel f).2 (convolute n1 sel f).1).2) := by
  simp [Q.call, simplify, hl, hsrc, Q.isCallOf]

theorem fusion_select_core (F n n1 : Nat) (s p0 fb gb : Q) (x y z : String)
    (hs : simplify F [] n s = (p0, n1))
    (hp : p0.isCallOf "Select" = false ∧ p0.isCallOf "SelectMany" = false)
    (hfb : scalar fb = true) (hgb : scalar gb = true) (hid : fb ≠ .var x)
    (hF : depth fb + 5 ≤ F ∧ depth gb + 5 ≤ F)
    (hfresh : ∀ w ∈ [argName n1, argName (n1 + 1), argName (n1 + 2), z], w ∉ allNames fb ∧ w ∉ allNames gb) :
    resolve [] (simplify (F + 2) [] n (Q.call "Select" [Q.call "Select" [s, .lam [x] fb], .lam [y] gb])).1 =
    resolve [] (simplify (F + 1) [] n
      (Q.call "Select" [s, .lam [z] (.app (.lam [y] gb) [.app (.lam [x] fb) [.var z]])])).1 := by
  obtain ⟨F2, rfl⟩ : ∃ F2, F = F2 + 1 + 1 := ⟨F - 2, by omega⟩
  generalize hF1 : F2 + 1 = F1 at *
  have hf0 := hfresh (argName n1) (by simp)
  have hf1 := hfresh (argName (n1 + 1)) (by simp)
  have hf2 := hfresh (argName (n1 + 2)) (by simp)
  have hfz := hfresh z (by simp)
  -- the inner Select of the separately written chain
  have hlamf : simplify (F1 + 1) [] n1 (.lam [x] fb) = (.lam [x] fb, n1) := simplify_lam_scalar F1 n1 [x] fb hfb (by omega)
  have hnid : isIdentity (.lam [x] fb) = false := by
    cases hh : isIdentity (.lam [x] fb) with
    | false => rfl
    | true => exact absurd ((isIdentity_lam_iff x fb).1 hh) hid
  have hinner : simplify (F1 + 1 + 1) [] n (Q.call "Select" [s, .lam [x] fb]) = (Q.call "Select" [p0, .lam [x] fb], n1) := by
    rw [simplify_Select_plain (F1 + 1) [] n n1 s _ p0 rfl hs hp.1 hp.2, hlamf]
    simp [makeSelect, hnid]
  -- the composition func_adl builds, β-reduced
  have hG : scalar (renVars [(y, argName n1)] gb) = true := scalar_ren gb y _ (opName_argName n1) hgb
  have hB : scalar (renVars [(x, argName (n1 + 1))] fb) = true := scalar_ren fb x _ (opName_argName (n1 + 1)) hfb
  have hsep := comp_beta F1 (n1 + 3) (argName n1) (argName (n1 + 1)) (argName (n1 + 2)) _ _ hG hB
    (by rw [depth_ren]; omega) (by rw [depth_ren]; omega)
  rw [subst_ren fb x (argName (n1 + 1)) _ hfb hf1.1, subst_ren gb y (argName n1) _ hgb hf0.2] at hsep
  have hfus := comp_beta F2 n1 y x z gb fb hgb hfb (by omega) (by omega)
  rw [hF1] at hfus
  have key := compose_alpha fb gb x y (argName (n1 + 2)) z hfb hgb hf2 hfz
  have hconv : convolute n1 (.lam [y] gb) (.lam [x] fb) =
      (.lam [argName (n1 + 2)] (.app (.lam [argName n1] (renVars [(y, argName n1)] gb))
        [.app (.lam [argName (n1 + 1)] (renVars [(x, argName (n1 + 1))] fb)) [.var (argName (n1 + 2))]]), n1 + 3) := by
    simp [convolute, makeArgsUnique, argNames]
  have e1 : (simplify (F1 + 1 + 2) [] n (Q.call "Select" [Q.call "Select" [s, .lam [x] fb], .lam [y] gb])).1 =
      makeSelect p0 (.lam [argName (n1 + 2)] (subst [[(y, subst [[(x, .var (argName (n1 + 2)))]] fb)]] gb)) := by
    rw [simplify_Select_fuse (F1 + 1 + 1) [] n n1 _ _ p0 (.lam [x] fb) rfl hinner]
    simp only [hconv]
    rw [simplify_lam, hsep]
  have e2 : (simplify (F1 + 1 + 1) [] n (Q.call "Select" [s, .lam [z] (.app (.lam [y] gb) [.app (.lam [x] fb) [.var z]])])).1 =
      makeSelect p0 (.lam [z] (subst [[(y, subst [[(x, .var z)]] fb)]] gb)) := by
    rw [simplify_Select_plain (F1 + 1) [] n n1 s _ p0 rfl hs hp.1 hp.2, simplify_lam, hfus]
  rw [e1, e2]
  exact makeSelect_alpha p0 _ _ _ _ key

/-- β-reduction of `(λk. B)(w)` for a scalar body -/
theorem beta_one (F n : Nat) (k w : String) (B : Q) (hB : scalar B = true) (hd : depth B + 2 ≤ F) :
    simplify (F + 1) [] n (.app (.lam [k] B) [.var w]) = (subst [[(k, .var w)]] B, n) := by
  have hpB := depth_pos B
  obtain ⟨F1, rfl⟩ : ∃ F1, F = F1 + 1 := ⟨F - 1, by omega⟩
  obtain ⟨F2, rfl⟩ : ∃ F2, F1 = F2 + 1 := ⟨F1 - 1, by omega⟩
  have hb := (simplify_scalar (F2 + 1 + 1) [[(k, .var w)]] (envOk_single _ _ rfl) n).1 B hB (by omega)
  simp [simplify, simplifyL, Stack.lookup, hb]

theorem simplify_node2 (F : Nat) (env : Stack Q) (n : Nat) (t : String) (a b : Q) (h : (t == "sub") = false) :
    simplify (F + 1) env n (.node t [a, b]) =
      (.node t (simplifyL F env n [a, b]).1, (simplifyL F env n [a, b]).2) := by
  simp [simplify, h]

theorem simplifyL_cons (F : Nat) (env : Stack Q) (n : Nat) (q : Q) (qs : List Q) :
    simplifyL (F + 1) env n (q :: qs) =
      ((simplify F env n q).1 :: (simplifyL F env (simplify F env n q).2 qs).1,
       (simplifyL F env (simplify F env n q).2 qs).2) := by
  simp [simplifyL]

theorem simplifyL_nil (F : Nat) (env : Stack Q) (n : Nat) : simplifyL (F + 1) env n [] = ([], n) := by
  simp [simplifyL]

/-- the conjunction func_adl builds when it fuses two Wheres, β-reduced -/
theorem and_beta (F n : Nat) (x y w : String) (fb gb : Q) (hf : scalar fb = true) (hg : scalar gb = true)
    (hd : depth fb + 6 ≤ F ∧ depth gb + 6 ≤ F) :
    simplify (F + 1) [] n (.node "bool:And" [.app (.lam [x] fb) [.var w], .app (.lam [y] gb) [.var w]]) =
      (.node "bool:And" [subst [[(x, .var w)]] fb, subst [[(y, .var w)]] gb], n) := by
  obtain ⟨F1, rfl⟩ : ∃ F1, F = F1 + 1 + 1 + 1 + 1 := ⟨F - 4, by omega⟩
  have h1 := beta_one (F1 + 1 + 1) n x w fb hf (by omega)
  have h2 := beta_one (F1 + 1) n y w gb hg (by omega)
  have hne : ("bool:And" == "sub") = false := by decide
  rw [simplify_node2 _ _ _ _ _ _ hne, simplifyL_cons, h1, simplifyL_cons, h2, simplifyL_nil]

/-- `call_Where` when the simplified source is none of Where / Select / SelectMany -/
theorem simplify_Where_plain (F : Nat) (env : Stack Q) (n n1 : Nat) (src flt p0 : Q) (hl : isLam flt = true)
    (hsrc : simplify F env n src = (p0, n1))
    (h0 : p0.isCallOf "Where" = false) (h1 : p0.isCallOf "Select" = false) (h2 : p0.isCallOf "SelectMany" = false) :
    simplify (F + 1) env n (Q.call "Where" [src, flt]) =
      (if isTrueLam (simplify F env n1 flt).1 then p0 else Q.call "Where" [p0, (simplify F env n1 flt).1],
       (simplify F env n1 flt).2) := by
  have e1 : ("Where" == "Select") = false := by decide
  have e2 : ("Where" == "SelectMany") = false := by decide
  simp only [Q.call, simplify, e1, e2, hl, hsrc, h0, h1, h2]
  by_cases hc : isTrueLam (simplify F env n1 flt).1 = true <;> simp [hc]

/-- `visit_Where_of_Where` -/
theorem simplify_Where_fuse (F : Nat) (env : Stack Q) (n n1 : Nat) (src flt source f : Q) (hl : isLam flt = true)
    (hsrc : simplify F env n src = (Q.call "Where" [source, f], n1)) :
    simplify (F + 1) env n (Q.call "Where" [src, flt]) =
      simplify F env (n1 + 1) (Q.call "Where" [source,
        .lam [argName n1] (.node "bool:And" [.app f [.var (argName n1)], .app flt [.var (argName n1)]])]) := by
  have e1 : ("Where" == "Select") = false := by decide
  have e2 : ("Where" == "SelectMany") = false := by decide
  simp [Q.call, simplify, e1, e2, hl, hsrc, Q.isCallOf]

theorem fusion_where_core (F n n1 : Nat) (s p0 fb gb : Q) (x y z : String)
    (hs : simplify F [] n s = (p0, n1))
    (hstable : simplify F [] (n1 + 1) p0 = (p0, n1 + 1))
    (hp : p0.isCallOf "Where" = false ∧ p0.isCallOf "Select" = false ∧ p0.isCallOf "SelectMany" = false)
    (hfb : scalar fb = true) (hgb : scalar gb = true) (htrue : fb ≠ .lit "bool:True")
    (hF : depth fb + 8 ≤ F ∧ depth gb + 8 ≤ F)
    (hfresh : ∀ w ∈ [argName n1, z], w ∉ allNames fb ∧ w ∉ allNames gb) :
    resolve [] (simplify (F + 2) [] n (Q.call "Where" [Q.call "Where" [s, .lam [x] fb], .lam [y] gb])).1 =
    resolve [] (simplify (F + 1) [] n
      (Q.call "Where" [s, .lam [z] (.node "bool:And" [.app (.lam [x] fb) [.var z], .app (.lam [y] gb) [.var z]])])).1 := by
  obtain ⟨F2, rfl⟩ : ∃ F2, F = F2 + 1 + 1 := ⟨F - 2, by omega⟩
  generalize hF1 : F2 + 1 = F1 at *
  have hfa := hfresh (argName n1) (by simp)
  have hfz := hfresh z (by simp)
  have hlamf : simplify (F1 + 1) [] n1 (.lam [x] fb) = (.lam [x] fb, n1) := simplify_lam_scalar F1 n1 [x] fb hfb (by omega)
  have hnt : isTrueLam (.lam [x] fb) = false := by
    cases fb <;> simp [isTrueLam]
    rename_i c; intro e; exact htrue (by rw [e])
  have hinner : simplify (F1 + 1 + 1) [] n (Q.call "Where" [s, .lam [x] fb]) = (Q.call "Where" [p0, .lam [x] fb], n1) := by
    rw [simplify_Where_plain (F1 + 1) [] n n1 s _ p0 rfl hs hp.1 hp.2.1 hp.2.2, hlamf]
    simp [hnt]
  have hand1 := and_beta F2 (n1 + 1) x y (argName n1) fb gb hfb hgb (by omega)
  have hand2 := and_beta F2 n1 x y z fb gb hfb hgb (by omega)
  rw [hF1] at hand1 hand2
  have hnt2 : ∀ (w : String) (B : List Q), isTrueLam (.lam [w] (.node "bool:And" B)) = false := by
    intro w B; simp [isTrueLam]
  have e1 : (simplify (F1 + 1 + 2) [] n (Q.call "Where" [Q.call "Where" [s, .lam [x] fb], .lam [y] gb])).1 =
      Q.call "Where" [p0, .lam [argName n1]
        (.node "bool:And" [subst [[(x, .var (argName n1))]] fb, subst [[(y, .var (argName n1))]] gb])] := by
    rw [simplify_Where_fuse (F1 + 1 + 1) [] n n1 _ _ p0 (.lam [x] fb) rfl hinner,
      simplify_Where_plain (F1 + 1) [] (n1 + 1) (n1 + 1) p0 _ p0 rfl hstable hp.1 hp.2.1 hp.2.2, simplify_lam, hand1]
    simp [hnt2]
  have e2 : (simplify (F1 + 1 + 1) [] n (Q.call "Where" [s, .lam [z]
        (.node "bool:And" [.app (.lam [x] fb) [.var z], .app (.lam [y] gb) [.var z]])])).1 =
      Q.call "Where" [p0, .lam [z] (.node "bool:And" [subst [[(x, .var z)]] fb, subst [[(y, .var z)]] gb])] := by
    rw [simplify_Where_plain (F1 + 1) [] n n1 s _ p0 rfl hs hp.1 hp.2.1 hp.2.2, simplify_lam, hand2]
    simp [hnt2]
  rw [e1, e2]
  have k1 := resolve_subst_fresh fb x (argName n1) z (.var (argName n1)) (.var z) hfb hfa.1 hfz.1 (by simp [resolve, idx])
  have k2 := resolve_subst_fresh gb y (argName n1) z (.var (argName n1)) (.var z) hgb hfa.2 hfz.2 (by simp [resolve, idx])
  simp [Q.call, resolve, resolveL, k1, k2]


/-! ### the wire format forgets tuple vs list: a translator that does not tell them apart is unaffected -/

/-- the handlers do not tell the two tags apart -/
def SameTag {ρ σ} (alg : Alg ρ σ) (t t' : String) : Prop :=
  (∀ done s, alg.pre t done s = alg.pre t' done s) ∧
  (∀ done n s, alg.enter t done n s = alg.enter t' done n s) ∧
  (∀ vs s, alg.post t vs s = alg.post t' vs s)

theorem SameTag.symm' {ρ σ} {alg : Alg ρ σ} {t t' : String} (h : SameTag alg t t') : SameTag alg t' t :=
  ⟨fun d s => (h.1 d s).symm, fun d n s => (h.2.1 d n s).symm, fun v s => (h.2.2 v s).symm⟩

section wire
variable {ρ σ : Type} (alg : Alg ρ σ)

theorem evalKids_sameTag (st : Stack ρ) (t t' : String) (h : SameTag alg t t') :
    ∀ (ks : List Q) (done : List ρ) (s : σ), evalKids alg st t done ks s = evalKids alg st t' done ks s := by
  intro ks
  induction ks with
  | nil => intro done s; simp [evalKids]
  | cons k ks ih =>
    intro done s
    cases k with
    | lam ps b =>
      simp only [evalKids, h.2.1]
      cases alg.enter t' done ps.length s with
      | error e => rfl
      | ok r =>
        obtain ⟨vals, s1⟩ := r
        simp only []
        split
        · cases eval alg (ps.zip vals :: st) b s1 with
          | error e => rfl
          | ok r2 => obtain ⟨v, s2⟩ := r2; simp only [ih]
        · rfl
    | var x => simp only [evalKids, h.1]; cases alg.pre t' done s <;> simp only []; rename_i s0; cases eval alg st (.var x) s0 <;> simp only []; rename_i r; simp only [ih]
    | lit c => simp only [evalKids, h.1]; cases alg.pre t' done s <;> simp only []; rename_i s0; cases eval alg st (.lit c) s0 <;> simp only []; rename_i r; simp only [ih]
    | app f as => simp only [evalKids, h.1]; cases alg.pre t' done s <;> simp only []; rename_i s0; cases eval alg st (.app f as) s0 <;> simp only []; rename_i r; simp only [ih]
    | node u us => simp only [evalKids, h.1]; cases alg.pre t' done s <;> simp only []; rename_i s0; cases eval alg st (.node u us) s0 <;> simp only []; rename_i r; simp only [ih]

theorem finish_sameTag (t t' : String) (h : SameTag alg t t') (r : Except String (List ρ × σ)) :
    finish alg t r = finish alg t' r := by
  cases r with
  | error e => rfl
  | ok p => obtain ⟨vs, s⟩ := p; simp [finish, h.2.2]

variable (h1 : SameTag alg "tuple" "list") (h2 : SameTag alg ("method:" ++ "tuple") ("method:" ++ "list"))
include h1 h2

mutual
theorem eval_wire : ∀ (q : Q) (st : Stack ρ) (s : σ), eval alg st (wireNorm q) s = eval alg st q s
  | .var x, st, s => by simp [wireNorm]
  | .lit c, st, s => by simp [wireNorm]
  | .lam ps b, st, s => by simp [wireNorm, eval]
  | .app (.var f) as, st, s => by
    simp only [wireNorm, eval, evalKids_wire as st]
  | .app (.node t ks) as, st, s => by
    simp only [wireNorm, eval]
    by_cases ht : t = "tuple"
    · subst ht
      simp only [beq_self_eq_true, if_true]
      rw [evalKids_sameTag alg st _ _ h2.symm', evalKids_wire ks st]
      cases evalKids alg st ("method:" ++ "tuple") [] ks s with
      | error e => rfl
      | ok r =>
        obtain ⟨vs, s1⟩ := r
        simp only []
        rw [evalKids_sameTag alg st _ _ h2.symm', evalKids_wire as st, finish_sameTag alg _ _ h2.symm']
    · have : (t == "tuple") = false := by simpa using ht
      simp only [this, Bool.false_eq_true, if_false, evalKids_wire ks st]
      cases evalKids alg st ("method:" ++ t) [] ks s with
      | error e => rfl
      | ok r => obtain ⟨vs, s1⟩ := r; simp only [evalKids_wire as st]
  | .app (.lam ps b) as, st, s => by simp [wireNorm, eval]
  | .app (.lit c) as, st, s => by
    simp only [wireNorm, eval]
    cases alg.pre "dyn" [] s with
    | error e => rfl
    | ok s0 =>
      simp only []
      cases alg.lit c s0 with
      | error e => rfl
      | ok r => obtain ⟨v, s1⟩ := r; simp only [evalKids_wire as st]
  | .app (.app g bs) as, st, s => by
    have := eval_wire (.app g bs) st
    simp only [wireNorm] at this
    simp only [wireNorm, eval]
    cases alg.pre "dyn" [] s with
    | error e => rfl
    | ok s0 =>
      simp only [this]
      cases eval alg st (.app g bs) s0 with
      | error e => rfl
      | ok r => obtain ⟨v, s1⟩ := r; simp only [evalKids_wire as st]
  | .node t ks, st, s => by
    simp only [wireNorm, eval]
    by_cases ht : t = "tuple"
    · subst ht
      simp only [beq_self_eq_true, if_true]
      rw [evalKids_sameTag alg st _ _ h1.symm', evalKids_wire ks st, finish_sameTag alg _ _ h1.symm']
    · have : (t == "tuple") = false := by simpa using ht
      simp only [this, Bool.false_eq_true, if_false, evalKids_wire ks st]
theorem evalKids_wire : ∀ (ks : List Q) (st : Stack ρ) (tag : String) (done : List ρ) (s : σ),
    evalKids alg st tag done (wireNormL ks) s = evalKids alg st tag done ks s
  | [], st, tag, done, s => by simp [wireNormL]
  | .lam ps b :: rest, st, tag, done, s => by
    simp only [wireNormL, wireNorm, evalKids]
    cases alg.enter tag done ps.length s with
    | error e => rfl
    | ok r =>
      obtain ⟨vals, s1⟩ := r
      simp only []
      split
      · rw [eval_wire b]
        cases eval alg (ps.zip vals :: st) b s1 with
        | error e => rfl
        | ok r2 => obtain ⟨v, s2⟩ := r2; simp only [evalKids_wire rest st]
      · rfl
  | .var x :: rest, st, tag, done, s => by
    simp only [wireNormL, wireNorm, evalKids]
    cases alg.pre tag done s with
    | error e => rfl
    | ok s0 =>
      simp only []
      cases eval alg st (.var x) s0 with
      | error e => rfl
      | ok r => obtain ⟨v, s1⟩ := r; simp only [evalKids_wire rest st]
  | .lit c :: rest, st, tag, done, s => by
    simp only [wireNormL, wireNorm, evalKids]
    cases alg.pre tag done s with
    | error e => rfl
    | ok s0 =>
      simp only []
      cases eval alg st (.lit c) s0 with
      | error e => rfl
      | ok r => obtain ⟨v, s1⟩ := r; simp only [evalKids_wire rest st]
  | .app f as :: rest, st, tag, done, s => by
    have hw := eval_wire (.app f as) st
    simp only [wireNorm] at hw
    simp only [wireNormL, wireNorm, evalKids]
    cases alg.pre tag done s with
    | error e => rfl
    | ok s0 =>
      simp only [hw]
      cases eval alg st (.app f as) s0 with
      | error e => rfl
      | ok r => obtain ⟨v, s1⟩ := r; simp only [evalKids_wire rest st]
  | .node t ks :: rest, st, tag, done, s => by
    have hw := eval_wire (.node t ks) st
    simp only [wireNorm] at hw
    simp only [wireNormL, wireNorm, evalKids]
    cases alg.pre tag done s with
    | error e => rfl
    | ok s0 =>
      simp only [hw]
      cases eval alg st (.node t ks) s0 with
      | error e => rfl
      | ok r => obtain ⟨v, s1⟩ := r; simp only [evalKids_wire rest st]
end

end wire


/-! ### the text format: parsing what was printed -/

theorem wparse_atom (F : Nat) (tok : String) (rest : List String) (h1 : tok ≠ "(") (h2 : tok ≠ ")") :
    wparse (F + 1) (tok :: rest) = some (atomOf tok, rest) := by
  simp [wparse, h1, h2]

theorem wparse_open (F : Nat) (ty : String) (rest : List String) :
    wparse (F + 1) ("(" :: ty :: rest) = match wparseFields F rest with
      | some (fs, r) => (composite ty fs).map (fun q => (q, r))
      | none => none := by
  simp [wparse]
  cases wparseFields F rest with
  | none => rfl
  | some p => rfl

theorem wparseFields_close (F : Nat) (rest : List String) : wparseFields (F + 1) (")" :: rest) = some ([], rest) := by
  simp [wparseFields]

theorem wparseFields_field (F : Nat) (tok : String) (rest : List String) (h : tok ≠ ")") :
    wparseFields (F + 1) (tok :: rest) = match wparse F (tok :: rest) with
      | some (q, r') => (match wparseFields F r' with
        | some (qs, r'') => some (q :: qs, r'')
        | none => none)
      | none => none := by
  simp [wparseFields, h]
  cases wparse F (tok :: rest) with
  | none => rfl
  | some p =>
    obtain ⟨q, r'⟩ := p
    simp only []
    cases wparseFields F r' with
    | none => rfl
    | some p2 => rfl

/-- the parameter list of a lambda -/
theorem wparseFields_idents : ∀ (ps : List String) (rest : List String) (F : Nat), ps.all identOK = true →
    ps.length + 1 < F → wparseFields F (ps ++ ")" :: rest) = some (ps.map Q.var, rest)
  | [], rest, F, _, hF => by
    obtain ⟨F', rfl⟩ : ∃ F', F = F' + 1 := ⟨F - 1, by omega⟩
    simp [wparseFields_close]
  | p :: ps, rest, F, hp, hF => by
    obtain ⟨F', rfl⟩ : ∃ F', F = F' + 1 := ⟨F - 1, by omega⟩
    obtain ⟨F'', rfl⟩ : ∃ F'', F' = F'' + 1 := ⟨F' - 1, by simp at hF; omega⟩
    simp only [List.all_cons, Bool.and_eq_true] at hp
    obtain ⟨hp1, hp2⟩ := hp
    simp only [identOK, Bool.and_eq_true, bne_iff_ne, ne_eq] at hp1
    obtain ⟨⟨h1, h2⟩, h3⟩ := hp1
    have h3' : atomOf p = Q.var p := (Q.beq_eq _ _).1 h3
    simp only [List.cons_append]
    rw [wparseFields_field _ _ _ h2, wparse_atom _ _ _ h1 h2, h3']
    simp only []
    rw [wparseFields_idents ps rest (F'' + 1) hp2 (by simp at hF; omega)]
    simp

theorem lamParams_vars (ps : List String) : lamParams (ps.map Q.var) = some ps := by
  induction ps with
  | nil => simp [lamParams]
  | cons p ps ih => simp [lamParams, ih]

def Good (toks : List String) : Prop := ∃ h t, toks = h :: t ∧ h ≠ ")"

theorem good_open (ty : String) (l : List String) : Good ("(" :: ty :: l) := ⟨"(", ty :: l, rfl, by decide⟩

/-- a composite node whose fields are parsed by `hPL` -/
theorem node_generic (ty : String) (ks : List Q) (flat : List String)
    (hPL : ∀ rest F, flat.length + 1 < F → wparseFields F (flat ++ ")" :: rest) = some (wireNormL ks, rest))
    (rest : List String) (F : Nat) (hF : flat.length + 3 < F) :
    wparse F ((["(", ty] ++ flat ++ [")"]) ++ rest) = (composite ty (wireNormL ks)).map (fun q => (q, rest)) := by
  obtain ⟨F', rfl⟩ : ∃ F', F = F' + 1 := ⟨F - 1, by omega⟩
  have : (["(", ty] ++ flat ++ [")"]) ++ rest = "(" :: ty :: (flat ++ ")" :: rest) := by simp
  rw [this, wparse_open, hPL rest F' (by omega)]

theorem wireNorm_node (t : String) (ks : List Q) :
    wireNorm (.node t ks) = .node (if t == "tuple" then "list" else t) (wireNormL ks) := by
  simp [wireNorm]

theorem wireNormL_length (ks : List Q) : (wireNormL ks).length = ks.length := by
  induction ks with
  | nil => simp [wireNormL]
  | cons k ks ih => simp [wireNormL, ih]

theorem wprintEach_length : ∀ (ks : List Q) (parts : List (List String)), wprintEach ks = some parts → parts.length = ks.length
  | [], parts, h => by simp [wprintEach] at h; subst h; rfl
  | k :: ks, parts, h => by
    simp only [wprintEach] at h
    cases h1 : wprint k with
    | none => simp [h1] at h
    | some a =>
      cases h2 : wprintEach ks with
      | none => simp [h1, h2] at h
      | some b =>
        simp [h1, h2] at h; subst h
        simp [wprintEach_length ks b h2]

/-- printing then parsing one term -/
def Pk (k : Q) (p : List String) : Prop :=
  Good p ∧ ∀ rest F, p.length < F → wparse F (p ++ rest) = some (wireNorm k, rest)

def AllP : List Q → List (List String) → Prop
  | [], [] => True
  | k :: ks, p :: ps => Pk k p ∧ AllP ks ps
  | _, _ => False

theorem fields_of_all : ∀ (ks : List Q) (parts : List (List String)), AllP ks parts →
    ∀ rest F, parts.flatten.length + 1 < F → wparseFields F (parts.flatten ++ ")" :: rest) = some (wireNormL ks, rest)
  | [], [], _, rest, F, hF => by
    obtain ⟨F', rfl⟩ : ∃ F', F = F' + 1 := ⟨F - 1, by omega⟩
    simp [wparseFields_close, wireNormL]
  | k :: ks, p :: ps, h, rest, F, hF => by
    obtain ⟨⟨⟨hd, tl, rfl, hne⟩, hk⟩, hrest⟩ := h
    obtain ⟨F', rfl⟩ : ∃ F', F = F' + 1 := ⟨F - 1, by omega⟩
    simp only [List.flatten_cons, List.length_append, List.length_cons] at hF
    have e : ((hd :: tl) :: ps).flatten ++ ")" :: rest = hd :: (tl ++ (ps.flatten ++ ")" :: rest)) := by simp
    rw [e, wparseFields_field _ _ _ hne]
    have := hk (ps.flatten ++ ")" :: rest) F' (by simp; omega)
    simp only [List.cons_append] at this
    rw [this]
    simp only []
    rw [fields_of_all ks ps hrest rest F' (by omega)]
    simp [wireNormL]
  | [], _ :: _, h, _, _, _ => by simp [AllP] at h
  | _ :: _, [], h, _, _, _ => by simp [AllP] at h

theorem allP_take : ∀ (ks : List Q) (parts : List (List String)) (i : Nat), AllP ks parts → AllP (ks.take i) (parts.take i)
  | [], [], i, _ => by simp [AllP]
  | k :: ks, p :: ps, 0, _ => by simp [AllP]
  | k :: ks, p :: ps, i + 1, h => by simp only [List.take_succ_cons, AllP]; exact ⟨h.1, allP_take ks ps i h.2⟩
  | [], _ :: _, _, h => by simp [AllP] at h
  | _ :: _, [], _, h => by simp [AllP] at h

theorem allP_drop : ∀ (ks : List Q) (parts : List (List String)) (i : Nat), AllP ks parts → AllP (ks.drop i) (parts.drop i)
  | [], [], i, _ => by simp [AllP]
  | k :: ks, p :: ps, 0, h => by simpa using h
  | k :: ks, p :: ps, i + 1, h => by simp only [List.drop_succ_cons]; exact allP_drop ks ps i h.2
  | [], _ :: _, _, h => by simp [AllP] at h
  | _ :: _, [], _, h => by simp [AllP] at h

theorem allP_length : ∀ (ks : List Q) (parts : List (List String)), AllP ks parts → parts.length = ks.length
  | [], [], _ => rfl
  | k :: ks, p :: ps, h => by simp [allP_length ks ps h.2]
  | [], _ :: _, h => by simp [AllP] at h
  | _ :: _, [], h => by simp [AllP] at h

theorem wireNormL_append (a b : List Q) : wireNormL (a ++ b) = wireNormL a ++ wireNormL b := by
  induction a with
  | nil => simp [wireNormL]
  | cons x a ih => simp [wireNormL, ih]

theorem len1 {α} (l : List α) (h : [()].length = l.length) : ∃ a, l = [a] := by
  match l, h with
  | [a], _ => exact ⟨a, rfl⟩

/-- the result for a node whose fields are exactly the children -/
theorem node_via_generic (t ty : String) (ks : List Q) (parts : List (List String)) (hall : AllP ks parts)
    (hc : composite ty (wireNormL ks) = some (wireNorm (.node t ks))) :
    Pk (.node t ks) (["(", ty] ++ parts.flatten ++ [")"]) := by
  refine ⟨good_open ty _, fun rest F hF => ?_⟩
  simp only [List.length_append, List.length_cons, List.length_nil] at hF
  rw [node_generic ty ks parts.flatten (fields_of_all ks parts hall) rest F (by omega), hc]
  rfl

theorem ne_tuple_of_prefix (pre rest : String) (h : pre.toList.head? ≠ some 't') (hne : pre.toList ≠ []) :
    (pre ++ rest == "tuple") = false := by
  apply beq_eq_false_iff_ne.2
  intro e
  have := congrArg String.toList e
  simp only [String.toList_append] at this
  cases hp : pre.toList with
  | nil => exact hne hp
  | cons c cs =>
    rw [hp] at this h
    have hc : c = 't' := by
      have := congrArg List.head? this
      simpa using this
    exact h (by simp [hc])

theorem tag2_ne_tuple (sy t : String) (h : tag2 sy = some t) : (t == "tuple") = false := by
  unfold tag2 at h
  split at h
  · simp only [Option.some.injEq] at h; subst h; exact ne_tuple_of_prefix "bin:" _ (by decide) (by decide)
  · split at h
    · simp only [Option.some.injEq] at h; subst h; exact ne_tuple_of_prefix "bool:" _ (by decide) (by decide)
    · simp only [Option.map_eq_some_iff] at h
      obtain ⟨op, _, rfl⟩ := h
      exact ne_tuple_of_prefix "cmp:" _ (by decide) (by decide)

theorem tag1_ne_tuple (sy t : String) (h : tag1 sy = some t) : (t == "tuple") = false := by
  unfold tag1 at h
  simp only [Option.map_eq_some_iff] at h
  obtain ⟨op, _, rfl⟩ := h
  exact ne_tuple_of_prefix "un:" _ (by decide) (by decide)

theorem composite_plain2 (ty : String) (l r : Q) (h : specialTy ty = false) :
    composite ty [l, r] = (tag2 ty).map (fun t => .node t [l, r]) := by
  simp only [specialTy, Bool.or_eq_false_iff] at h
  obtain ⟨⟨⟨⟨⟨⟨h1, h2⟩, h3⟩, h4⟩, h5⟩, h6⟩, h7⟩ := h
  simp [composite, h1, h2, h3, h4, h5, h6, h7]

theorem composite_plain1 (ty : String) (v : Q) (h : specialTy ty = false) :
    composite ty [v] = (tag1 ty).map (fun t => .node t [v]) := by
  simp only [specialTy, Bool.or_eq_false_iff] at h
  obtain ⟨⟨⟨⟨⟨⟨h1, h2⟩, h3⟩, h4⟩, h5⟩, h6⟩, h7⟩ := h
  simp [composite, h1, h2, h3, h4, h5, h6, h7]

theorem len2 (ks : List Q) (h : 2 = ks.length) : ∃ a b, ks = [a, b] := by
  match ks, h with
  | [a, b], _ => exact ⟨a, b, rfl⟩

theorem bin_like (tbl : List (String × String)) (t op : String) (ks : List Q) (tl tr toks : List String)
    (hall : AllP ks [tl, tr]) (hok : symOK2 tbl op t = true)
    (hp : (symOf tbl op).map (fun sy => ["(", sy] ++ tl ++ tr ++ [")"]) = some toks) : Pk (.node t ks) toks := by
  unfold symOK2 at hok
  cases hsy : symOf tbl op with
  | none => simp [hsy] at hp
  | some sy =>
    simp only [hsy, Option.map_some, Option.some.injEq] at hp
    simp only [hsy, Bool.and_eq_true, Bool.not_eq_true', beq_iff_eq] at hok
    obtain ⟨⟨⟨hsp, _⟩, _⟩, htag⟩ := hok
    subst hp
    obtain ⟨l, r, rfl⟩ := len2 ks (by simpa using allP_length _ _ hall)
    have := node_via_generic t sy [l, r] [tl, tr] hall (by
      simp only [wireNormL]
      rw [composite_plain2 sy _ _ hsp]
      simp [wireNormL, htag, wireNorm_node, tag2_ne_tuple sy t htag])
    simpa using this

theorem node_roundtrip (t : String) (ks : List Q) (parts : List (List String)) (toks : List String)
    (hall : AllP ks parts) (hok : tagWireOK t ks.length = true) (hp : wassemble t parts = some toks) :
    Pk (.node t ks) toks := by
  have hlen := allP_length ks parts hall
  unfold wassemble at hp
  unfold tagWireOK at hok
  split at hp
  · -- attr
    rename_i name tv heq
    simp only [Option.some.injEq] at hp; subst hp
    match ks, hall, hlen, hok with
    | [v], hall, _, hok =>
      rw [heq] at hok
      simp only [List.length_singleton, Bool.and_eq_true, beq_iff_eq, bne_iff_ne, ne_eq] at hok
      obtain ⟨⟨⟨⟨ht, hn1⟩, hn2⟩, hat⟩, hattr⟩ := hok
      have hat' := (Q.beq_eq _ _).1 hat
      obtain ⟨⟨⟨hd, tl, rfl, hne⟩, hk⟩, _⟩ := hall
      refine ⟨good_open _ _, fun rest F hF => ?_⟩
      simp only [List.length_append, List.length_cons, List.length_nil] at hF
      obtain ⟨F1, rfl⟩ : ∃ F1, F = F1 + 1 + 1 + 1 + 1 := ⟨F - 4, by omega⟩
      have e : (["(", "attr"] ++ (hd :: tl) ++ ["'" ++ name ++ "'", ")"]) ++ rest =
          "(" :: "attr" :: hd :: (tl ++ ("'" ++ name ++ "'") :: ")" :: rest) := by simp
      rw [e, wparse_open, wparseFields_field _ _ _ hne]
      have := hk (("'" ++ name ++ "'") :: ")" :: rest) (F1 + 1 + 1) (by simp; omega)
      simp only [List.cons_append] at this
      rw [this]
      simp only []
      rw [wparseFields_field _ _ _ hn2, wparse_atom _ _ _ hn1 hn2, hat']
      simp only []
      rw [wparseFields_close]
      simp only [composite, wireNorm_node]
      have e1 : ("attr" == "list") = false := by decide
      have e2 : ("attr" == "dict") = false := by decide
      have hnt : (t == "tuple") = false := by
        rw [ht]; apply beq_eq_false_iff_ne.2; intro h
        have := congrArg String.toList h; simp at this
      simp [e1, e2, hattr, hnt, ← ht, wireNormL, wireNorm]
  · -- bin
    rename_i op tl tr heq
    obtain ⟨l, r, rfl⟩ := len2 ks (by simpa using hlen)
    rw [heq] at hok
    exact bin_like binSym t op _ tl tr toks hall (by simpa using hok) hp
  · -- cmp
    rename_i op tl tr heq
    obtain ⟨l, r, rfl⟩ := len2 ks (by simpa using hlen)
    rw [heq] at hok
    exact bin_like cmpSym t op _ tl tr toks hall (by simpa using hok) hp
  · -- un
    rename_i op tv heq
    obtain ⟨v, rfl⟩ := len1 ks (by simpa using hlen)
    rw [heq] at hok
    simp only [List.length_singleton] at hok
    cases hsy : symOf unSym op with
    | none => simp [hsy] at hp
    | some sy =>
      simp only [hsy, Option.map_some, Option.some.injEq] at hp
      simp only [hsy, Bool.and_eq_true, Bool.not_eq_true', beq_iff_eq] at hok
      obtain ⟨⟨⟨hsp, _⟩, _⟩, htag⟩ := hok
      subst hp
      have := node_via_generic t sy [v] [tv] hall (by
        simp only [wireNormL]
        rw [composite_plain1 sy _ hsp]
        simp [htag, wireNorm_node, wireNormL, tag1_ne_tuple sy t htag])
      simpa using this
  · -- bool
    rename_i op tl tr heq
    obtain ⟨l, r, rfl⟩ := len2 ks (by simpa using hlen)
    rw [heq] at hok
    exact bin_like boolSym t op _ tl tr toks hall (by simpa using hok) hp
  · -- if
    rename_i x tc ta tb heq
    simp only [Option.some.injEq] at hp; subst hp
    match ks, hall, hlen, hok with
    | [c, a, b], hall, _, hok =>
      rw [heq] at hok
      simp only [List.length_cons, List.length_nil, beq_iff_eq] at hok
      have ht : t = "if" := by simpa using hok
      subst ht
      have := node_via_generic "if" "if" [c, a, b] [tc, ta, tb] hall (by
        have e1 : ("if" == "list") = false := by decide
        have e2 : ("if" == "dict") = false := by decide
        have e3 : ("if" == "attr") = false := by decide
        have e4 : ("if" == "subscript") = false := by decide
        have e5 : ("if" == "call") = false := by decide
        have e6 : ("if" == "tuple") = false := by decide
        simp [composite, wireNormL, wireNorm_node, e1, e2, e3, e4, e5, e6])
      simpa using this
  · -- tuple
    rename_i x heq
    simp only [Option.some.injEq] at hp; subst hp
    rw [heq] at hok
    have ht : t = "tuple" := by simpa using hok
    subst ht
    exact node_via_generic "tuple" "list" ks _ hall (by simp [composite, wireNorm_node])
  · -- list
    rename_i x heq
    simp only [Option.some.injEq] at hp; subst hp
    rw [heq] at hok
    have ht : t = "list" := by
      revert hok; split <;> simp_all
    subst ht
    have e6 : ("list" == "tuple") = false := by decide
    exact node_via_generic "list" "list" ks _ hall (by simp [composite, wireNorm_node, e6])
  · -- dict
    rename_i pp _ _ x heq
    simp only [Option.some.injEq] at hp; subst hp
    rw [heq] at hok
    have ht : t = "dict" := by
      revert hok; split <;> simp_all
    subst ht
    refine ⟨good_open _ _, fun rest F hF => ?_⟩
    simp only [List.length_append, List.length_cons, List.length_nil] at hF
    obtain ⟨F1, rfl⟩ : ∃ F1, F = F1 + 1 + 1 + 1 + 1 := ⟨F - 4, by omega⟩
    generalize hh : pp.length / 2 = h at *
    have hA := fields_of_all _ _ (allP_take ks pp h hall)
    have hB := fields_of_all _ _ (allP_drop ks pp h hall)
    have e : (["(", "dict", "(", "list"] ++ (List.take h pp).flatten ++ [")", "(", "list"] ++ (List.drop h pp).flatten ++ [")", ")"]) ++ rest =
        "(" :: "dict" :: "(" :: "list" :: ((List.take h pp).flatten ++ ")" :: ("(" :: "list" :: ((List.drop h pp).flatten ++ ")" :: ")" :: rest))) := by simp
    have cl : ∀ fs, composite "list" fs = some (.node "list" fs) := by intro fs; simp [composite]
    rw [e, wparse_open, wparseFields_field _ _ _ (by decide : "(" ≠ ")"), wparse_open,
      hA _ (F1 + 1) (by omega)]
    simp only [Option.map, cl]
    rw [wparseFields_field _ _ _ (by decide : "(" ≠ ")"), wparse_open, hB _ F1 (by omega)]
    simp only [Option.map, cl]
    have e1 : ("dict" == "list") = false := by decide
    have e6 : ("dict" == "tuple") = false := by decide
    have hF1 : ∃ F0, F1 = F0 + 1 := ⟨F1 - 1, by omega⟩
    obtain ⟨F0, rfl⟩ := hF1
    rw [wparseFields_close]
    simp [composite, e1, e6, wireNorm_node, ← wireNormL_append]
  · -- sub
    rename_i x tv ti heq
    simp only [Option.some.injEq] at hp; subst hp
    obtain ⟨v, i, rfl⟩ := len2 ks (by simpa using hlen)
    rw [heq] at hok
    have ht : t = "sub" := by simpa using hok
    subst ht
    have := node_via_generic "sub" "subscript" [v, i] [tv, ti] hall (by
      have e1 : ("subscript" == "list") = false := by decide
      have e2 : ("subscript" == "dict") = false := by decide
      have e3 : ("subscript" == "attr") = false := by decide
      have e6 : ("sub" == "tuple") = false := by decide
      simp [composite, wireNormL, wireNorm_node, e1, e2, e3, e6])
    simpa using this
  · simp at hp

mutual
theorem wparse_wprint : ∀ (q : Q) (toks : List String), wireOK q = true → wprint q = some toks → Pk q toks
  | .var x, toks, hok, hp => by
    simp only [wprint, Option.some.injEq] at hp; subst hp
    simp only [wireOK, identOK, Bool.and_eq_true, bne_iff_ne, ne_eq] at hok
    obtain ⟨⟨h1, h2⟩, h3⟩ := hok
    refine ⟨⟨x, [], rfl, h2⟩, fun rest F hF => ?_⟩
    obtain ⟨F', rfl⟩ : ∃ F', F = F' + 1 := ⟨F - 1, by simp at hF; omega⟩
    simp [wparse_atom _ _ _ h1 h2, (Q.beq_eq _ _).1 h3, wireNorm]
  | .lit c, toks, hok, hp => by
    simp only [wprint, Option.some.injEq] at hp; subst hp
    simp only [wireOK, litOK, Bool.and_eq_true, bne_iff_ne, ne_eq] at hok
    obtain ⟨⟨h1, h2⟩, h3⟩ := hok
    refine ⟨⟨_, [], rfl, h2⟩, fun rest F hF => ?_⟩
    obtain ⟨F', rfl⟩ : ∃ F', F = F' + 1 := ⟨F - 1, by simp at hF; omega⟩
    simp [wparse_atom _ _ _ h1 h2, (Q.beq_eq _ _).1 h3, wireNorm]
  | .lam ps b, toks, hok, hp => by
    simp only [wireOK, Bool.and_eq_true] at hok
    simp only [wprint, Option.map_eq_some_iff] at hp
    obtain ⟨tb, hb, rfl⟩ := hp
    obtain ⟨⟨hd, tl, rfl, hne⟩, hk⟩ := wparse_wprint b tb hok.2 hb
    refine ⟨good_open _ _, fun rest F hF => ?_⟩
    simp only [List.length_append, List.length_cons, List.length_nil] at hF
    obtain ⟨F1, rfl⟩ : ∃ F1, F = F1 + 1 + 1 + 1 + 1 := ⟨F - 4, by omega⟩
    have e : (["(", "lambda", "(", "list"] ++ ps ++ [")"] ++ (hd :: tl) ++ [")"]) ++ rest =
        "(" :: "lambda" :: "(" :: "list" :: (ps ++ ")" :: (hd :: (tl ++ ")" :: rest))) := by simp
    have cl : ∀ fs, composite "list" fs = some (.node "list" fs) := by intro fs; simp [composite]
    rw [e, wparse_open, wparseFields_field _ _ _ (by decide : "(" ≠ ")"), wparse_open,
      wparseFields_idents ps _ (F1 + 1) hok.1 (by omega)]
    simp only [Option.map, cl]
    rw [wparseFields_field _ _ _ hne]
    have := hk (")" :: rest) (F1 + 1) (by simp; omega)
    simp only [List.cons_append] at this
    rw [this]
    simp only []
    rw [wparseFields_close]
    have e1 : ("lambda" == "list") = false := by decide
    have e2 : ("lambda" == "dict") = false := by decide
    have e3 : ("lambda" == "attr") = false := by decide
    have e4 : ("lambda" == "subscript") = false := by decide
    have e5 : ("lambda" == "call") = false := by decide
    have e6 : ("lambda" == "if") = false := by decide
    simp [composite, e1, e2, e3, e4, e5, e6, lamParams_vars, wireNorm]
  | .app f as, toks, hok, hp => by
    simp only [wireOK, Bool.and_eq_true] at hok
    simp only [wprint] at hp
    cases hf : wprint f with
    | none => simp [hf] at hp
    | some tf =>
      cases ha : wprintEach as with
      | none => simp [hf, ha] at hp
      | some ta =>
        simp only [hf, ha, Option.some.injEq] at hp; subst hp
        have hall : AllP (f :: as) (tf :: ta) := ⟨wparse_wprint f tf hok.1 hf, wprintEach_all as ta hok.2 ha⟩
        refine ⟨good_open _ _, fun rest F hF => ?_⟩
        simp only [List.length_append, List.length_cons, List.length_nil] at hF
        have := node_generic "call" (f :: as) (tf :: ta).flatten (fields_of_all _ _ hall) rest F
          (by simp only [List.flatten_cons, List.length_append]; omega)
        simp only [List.flatten_cons] at this
        have e : (["(", "call"] ++ tf ++ ta.flatten ++ [")"]) ++ rest = (["(", "call"] ++ (tf ++ ta.flatten) ++ [")"]) ++ rest := by simp
        rw [e, this]
        have e1 : ("call" == "list") = false := by decide
        have e2 : ("call" == "dict") = false := by decide
        have e3 : ("call" == "attr") = false := by decide
        have e4 : ("call" == "subscript") = false := by decide
        simp [composite, e1, e2, e3, e4, wireNormL, wireNorm]
  | .node t ks, toks, hok, hp => by
    simp only [wireOK, Bool.and_eq_true] at hok
    simp only [wprint] at hp
    cases hk : wprintEach ks with
    | none => simp [hk] at hp
    | some parts =>
      simp only [hk] at hp
      exact node_roundtrip t ks parts toks (wprintEach_all ks parts hok.2 hk) hok.1 hp
theorem wprintEach_all : ∀ (qs : List Q) (parts : List (List String)), wireOKL qs = true →
    wprintEach qs = some parts → AllP qs parts
  | [], parts, _, hp => by simp [wprintEach] at hp; subst hp; simp [AllP]
  | q :: qs, parts, hok, hp => by
    simp only [wireOKL, Bool.and_eq_true] at hok
    simp only [wprintEach] at hp
    cases h1 : wprint q with
    | none => simp [h1] at hp
    | some a =>
      cases h2 : wprintEach qs with
      | none => simp [h1, h2] at hp
      | some b =>
        simp only [h1, h2, Option.some.injEq] at hp; subst hp
        exact ⟨wparse_wprint q a hok.1 h1, wprintEach_all qs b hok.2 h2⟩
end

/-- printing a query the wire format can carry and parsing the tokens back gives its `wireNorm` -/
theorem wire_roundtrip_core (q : Q) (toks : List String) (hok : wireOK q = true) (hp : wprint q = some toks) :
    wparse (toks.length + 1) toks = some (wireNorm q, []) := by
  have := (wparse_wprint q toks hok hp).2 [] (toks.length + 1) (by omega)
  simpa using this

end FaxVerif.C08
