/-
C08 (d), extension round — the place func_adl's simplifier does not visit.

`simplify_chained_calls` merges `SelectMany(SelectMany(seq, f), g)` into `SelectMany(seq, x: SelectMany(f(x), g))` and
returns WITHOUT visiting `g`: chained `Select`/`Where` steps inside `g` reach the translator as written, so there the
translator itself has to compose them.  The harness therefore compares fused and unfused forms also where the
single-visit normal forms differ, provided the completed ones (`simplify2`) agree (`sameNormalForm2B`).
-/
import FaxVerif.C08.Proofs
namespace FaxVerif.C08

/-- **C08.selectmany_second_lambda_unvisited** — for every source, every selector `sel` and every amount of fuel: when
the source of a `SelectMany` simplifies to a `SelectMany(seq, lambda x, ..: fb)`, the result carries `sel` exactly as
it was written (no fusion, no β-reduction, no renaming inside it) and the counter of generated names is the one the
source left. -/
theorem selectmany_second_lambda_unvisited (F : Nat) (env : Stack Q) (n n1 : Nat) (src sel seq fb : Q) (x : String)
    (xs : List String) (rest rest' : List Q) (hl : isLam sel = true)
    (hs : simplify F env n src = (Q.call "SelectMany" (seq :: .lam (x :: xs) fb :: rest'), n1)) :
    simplify (F + 1) env n (Q.call "SelectMany" (src :: sel :: rest)) =
      (Q.call "SelectMany" [seq, .lam [x] (Q.call "SelectMany" [fb, sel])], n1) := by
  simp [Q.call, simplify, hl, hs, Q.isCallOf]

namespace CexLeft
def ds : Q := Q.call "EventDataset" []
def jets : Q := Q.call "SelectMany" [ds, .lam ["e"] (.app (Q.attr (.var "e") "Jets") [])]
def vs (x : String) : Q := .app (Q.attr (.var x) "vs") []
def f : Q := .lam ["s"] (.node "bin:Div" [.var "s", .lit "float:1000.0"])
def g : Q := .lam ["g"] (.node "bin:Add" [.var "g", .lit "float:1.0"])
/-- `SelectMany(SelectMany(ds, e: e.Jets()), j: Select(Select(j.vs(), s: s/1000.0), g: g+1.0))` -/
def chained : Q := Q.call "SelectMany" [jets, .lam ["j"] (Q.call "Select" [Q.call "Select" [vs "j", f], g])]
/-- the same with the two steps composed by hand -/
def fused : Q := Q.call "SelectMany" [jets, .lam ["j"] (Q.call "Select" [vs "j",
  .lam ["s"] (.node "bin:Add" [.node "bin:Div" [.var "s", .lit "float:1000.0"], .lit "float:1.0"])])]
end CexLeft

/-- **C08.chain_left_to_translator** — the witness of that place (the shape of seeded change C08-e3): func_adl hands
the chained form to the translator with both `Select` steps still separate — its normal form differs from the one of the
fused query — while visiting the result once more fuses them into exactly the hand-fused query (up to α).  Both queries
are in the relation (d) quantifies over; replayed on the real pipeline by the `fuse-left` stream on every run. -/
theorem chain_left_to_translator :
    resolve [] (simplify 60 [] 0 CexLeft.chained).1 ≠ resolve [] (simplify 60 [] 0 CexLeft.fused).1 ∧
    (simplify 60 [] 0 CexLeft.chained).1 == Q.call "SelectMany" [CexLeft.ds, .lam ["e"] (Q.call "SelectMany"
      [.app (Q.attr (.var "e") "Jets") [], .lam ["j"] (Q.call "Select" [Q.call "Select" [CexLeft.vs "j", CexLeft.f], CexLeft.g])])] ∧
    sameNormalForm2B 60 CexLeft.chained CexLeft.fused = true ∧
    sameNormalFormB 60 CexLeft.chained CexLeft.fused = false := by
  refine ⟨by decide, by decide, by decide, by decide⟩

end FaxVerif.C08
