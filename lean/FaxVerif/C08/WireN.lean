/-
C08 (a), extension round — the two node kinds qastle's text format does not carry as they are: an n-ary `and`/`or`
and a chained comparison.  `PythonASTToTextASTTransformer.visit_BoolOp` folds the operands to the left
(`a and b and c` → `(and (and a b) c)`), `visit_Compare` writes one binary comparison per operator, joined by `and`,
the middle operands repeated (`a < b <= c` → `(and (< a b) (<= b c))`).  `wirePre` is that rewriting on queries;
the printer of every query is `wprint ∘ wirePre` (`wprint2`).  No Mathlib; run by the driver.
-/
import FaxVerif.C08.Spec
namespace FaxVerif.C08

/-- `((a op b) op c) op …` -/
def nestBool (t : String) : Q → List Q → Q
  | acc, [] => acc
  | acc, k :: ks => nestBool t (.node t [acc, k]) ks

def splitPlus : List Char → List (List Char)
  | [] => [[]]
  | c :: rest =>
    if c == '+' then [] :: splitPlus rest
    else match splitPlus rest with
      | w :: ws => (c :: w) :: ws
      | [] => [[c]]

/-- the operators of a comparison tag `cmp:Lt+LtE` -/
def cmpOpsOf (t : String) : List String := (splitPlus (splitAtColon t.toList).2).map String.ofList

/-- one binary comparison per operator, neighbours share the operand between them -/
def chainCmp : List String → List Q → List Q
  | op :: ops, a :: b :: rest => .node ("cmp:" ++ op) [a, b] :: chainCmp ops (b :: rest)
  | _, _ => []

mutual
/-- what qastle's printer does to a query before writing it: n-ary `and`/`or` folded to the left, chained comparisons
split.  A node with at most two children is left as it is. -/
def wirePre : Q → Q
  | .var x => .var x
  | .lit c => .lit c
  | .lam ps b => .lam ps (wirePre b)
  | .app f as => .app (wirePre f) (wirePreL as)
  | .node t ks =>
    match wirePreL ks with
    | a :: b :: c :: rest =>
      if (splitTag t).1 == "bool" then nestBool t (.node t [a, b]) (c :: rest)
      else if (splitTag t).1 == "cmp" then
        match chainCmp (cmpOpsOf t) (a :: b :: c :: rest) with
        | x :: xs => nestBool "bool:And" x xs
        | [] => .node t (a :: b :: c :: rest)
      else .node t (a :: b :: c :: rest)
    | ks' => .node t ks'
def wirePreL : List Q → List Q
  | [] => []
  | q :: qs => wirePre q :: wirePreL qs
end

/-- qastle's printer on every query, n-ary boolean operators and chained comparisons included -/
def wprint2 (q : Q) : Option (List String) := wprint (wirePre q)

/-- what comes back over the wire -/
def wireNorm2 (q : Q) : Q := wireNorm (wirePre q)

end FaxVerif.C08
