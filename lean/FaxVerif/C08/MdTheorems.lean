/-
C08 (c) — what the position / order of MetaData calls can change: theorems about `process_metadata` cut into one fold
per registry (MdModel.lean) and about `generate_script_block`.

The chain position of a MetaData call only decides where its dictionary lands in the extracted list (`md_inserted`,
`md_many` in Theorems.lean).  Here: which re-orderings of that list are invisible (`md_interleave`: every interleaving
of the per-registry sequences), and exactly how the order inside one registry shows (`types_last_wins`,
`enums_first_wins`, `injects_in_order`, job scripts through `emitScripts`).
-/
import FaxVerif.C08.Proofs
import FaxVerif.C08.MdModel
namespace FaxVerif.C08

/-! ### `process_metadata` is five independent folds -/

/-- **C08.procMd_factors** — for every list and every starting state, `process_metadata` is: refuse exactly when the fold
over injected blocks / malformed items refuses (with that error); otherwise the method-type table is the fold over the
`add_method_type_info` items alone, the function table the fold over the function / collection items alone, the enum
table the fold over the `define_enum` items alone, the job scripts the script items in list order.  No registry reads
another: the type recorded for a method is the same whether or not the enum it names has been defined before. -/
theorem procMd_factors (l : List MdItem) (s : MdState) :
    procMd s l = match foldInjects s.injects l with
      | .error e => .error e
      | .ok inj => .ok ⟨foldTypes s.types l, foldFns s.fns l, foldEnums s.enums l, inj, s.scripts ++ scriptsOf l⟩ := by
  induction l generalizing s with
  | nil => simp [procMd, foldInjects, foldTypes, foldFns, foldEnums, scriptsOf]
  | cons a l ih =>
    cases a with
    | methodType k v => simp [procMd, MdItem.step, ih, foldInjects, foldTypes, foldFns, foldEnums, scriptsOf]
    | fn k v => simp [procMd, MdItem.step, ih, foldInjects, foldTypes, foldFns, foldEnums, scriptsOf]
    | enum k v =>
      cases h : s.enums k with
      | none => simp [procMd, MdItem.step, ih, h, foldInjects, foldTypes, foldFns, foldEnums, scriptsOf, enumStep]
      | some w => simp [procMd, MdItem.step, ih, h, foldInjects, foldTypes, foldFns, foldEnums, scriptsOf, enumStep]
    | inject n v =>
      cases h : s.injects.find? (·.1 == n) with
      | none => simp [procMd, MdItem.step, ih, h, foldInjects, foldTypes, foldFns, foldEnums, scriptsOf]
      | some b =>
        by_cases hb : b.2 = v
        · simp [procMd, MdItem.step, ih, h, hb, foldInjects, foldTypes, foldFns, foldEnums, scriptsOf]
        · simp [procMd, MdItem.step, h, hb, foldInjects]
    | script n v => simp [procMd, MdItem.step, ih, foldInjects, foldTypes, foldFns, foldEnums, scriptsOf, List.append_assoc]
    | bad c => simp [procMd, MdItem.step, foldInjects]

theorem ofKind_cons (k : MdKind) (a : MdItem) (l : List MdItem) :
    ofKind k (a :: l) = if a.kind = k then a :: ofKind k l else ofKind k l := by
  by_cases h : a.kind = k <;> simp [ofKind, h]

theorem ofKind_append (k : MdKind) (l l' : List MdItem) : ofKind k (l ++ l') = ofKind k l ++ ofKind k l' := by
  simp [ofKind, List.filter_append]

theorem foldTypes_ofKind (l : List MdItem) (f : String → Option String) :
    foldTypes f l = foldTypes f (ofKind .types l) := by
  induction l generalizing f with
  | nil => rfl
  | cons a l ih => cases a <;> simp [foldTypes, ofKind_cons, MdItem.kind] <;> exact ih _

theorem foldFns_ofKind (l : List MdItem) (f : String → Option String) :
    foldFns f l = foldFns f (ofKind .fns l) := by
  induction l generalizing f with
  | nil => rfl
  | cons a l ih => cases a <;> simp [foldFns, ofKind_cons, MdItem.kind] <;> exact ih _

theorem foldEnums_ofKind (l : List MdItem) (f : String → Option String) :
    foldEnums f l = foldEnums f (ofKind .enums l) := by
  induction l generalizing f with
  | nil => rfl
  | cons a l ih => cases a <;> simp [foldEnums, ofKind_cons, MdItem.kind] <;> exact ih _

theorem scriptsOf_ofKind (l : List MdItem) : scriptsOf l = scriptsOf (ofKind .scripts l) := by
  induction l with
  | nil => rfl
  | cons a l ih => cases a <;> simp [scriptsOf, ofKind_cons, MdItem.kind] <;> exact ih

theorem foldInjects_ofKind (l : List MdItem) (inj : List (String × String)) :
    foldInjects inj l = foldInjects inj (ofKind .blocks l) := by
  induction l generalizing inj with
  | nil => rfl
  | cons a l ih =>
    cases a with
    | inject n v =>
      have e : ofKind .blocks (.inject n v :: l) = .inject n v :: ofKind .blocks l := by simp [ofKind_cons, MdItem.kind]
      rw [e]
      simp only [foldInjects]
      cases inj.find? (·.1 == n) with
      | none => exact ih _
      | some b => by_cases hb : b.2 = v <;> simp [hb, ih]
    | bad c =>
      have e : ofKind .blocks (.bad c :: l) = .bad c :: ofKind .blocks l := by simp [ofKind_cons, MdItem.kind]
      rw [e]; simp [foldInjects]
    | methodType k v =>
      have e : ofKind .blocks (.methodType k v :: l) = ofKind .blocks l := by simp [ofKind_cons, MdItem.kind]
      rw [e]; simpa [foldInjects] using ih inj
    | fn k v =>
      have e : ofKind .blocks (.fn k v :: l) = ofKind .blocks l := by simp [ofKind_cons, MdItem.kind]
      rw [e]; simpa [foldInjects] using ih inj
    | enum k v =>
      have e : ofKind .blocks (.enum k v :: l) = ofKind .blocks l := by simp [ofKind_cons, MdItem.kind]
      rw [e]; simpa [foldInjects] using ih inj
    | script k v =>
      have e : ofKind .blocks (.script k v :: l) = ofKind .blocks l := by simp [ofKind_cons, MdItem.kind]
      rw [e]; simpa [foldInjects] using ih inj

/-- **C08.md_interleave** — order-independence for INDEPENDENT items, as a theorem: two metadata lists whose items of each
registry come in the same relative order — any interleaving, so any movement of `MetaData` calls of different kinds past
each other along the chain — are processed to the same state, or refused with the same error, from every starting state.
(No bound on the lengths; items may repeat.) -/
theorem md_interleave (l l' : List MdItem) (s : MdState) (h : sameByKind l l' = true) :
    procMd s l = procMd s l' := by
  simp only [sameByKind, Bool.and_eq_true, beq_iff_eq] at h
  obtain ⟨⟨⟨⟨h1, h2⟩, h3⟩, h4⟩, h5⟩ := h
  rw [procMd_factors l s, procMd_factors l' s]
  rw [foldTypes_ofKind l, foldTypes_ofKind l', foldFns_ofKind l, foldFns_ofKind l', foldEnums_ofKind l,
    foldEnums_ofKind l', scriptsOf_ofKind l, scriptsOf_ofKind l', foldInjects_ofKind l, foldInjects_ofKind l',
    h1, h2, h3, h4, h5]

/-- non-vacuity: an enum and the type of a method returning it, a function, two script blocks — the enum's definition
moved from the front to the very end, the function in between: an interleaving of the same per-registry sequences -/
example : sameByKind
    [.enum "mdlns.Color" "e", .methodType "mdl::A::col" "mdlns::Color", .fn "twice" "f", .script "s1" "1", .script "s2" "2"]
    [.script "s1" "1", .methodType "mdl::A::col" "mdlns::Color", .script "s2" "2", .fn "twice" "f", .enum "mdlns.Color" "e"] = true := by
  decide

/-- **C08.method_type_ignores_enums** — the instance the seeded change C08-e2 breaks: adding, dropping or moving a
`define_enum` item anywhere in the list leaves the recorded method types (and whether the list is accepted) unchanged. -/
theorem method_type_ignores_enums (l₁ l₂ : List MdItem) (k v : String) (s : MdState) :
    (procMd s (l₁ ++ .enum k v :: l₂)).toOption.map (·.types) = (procMd s (l₁ ++ l₂)).toOption.map (·.types) := by
  have e1 : ofKind .types (l₁ ++ .enum k v :: l₂) = ofKind .types (l₁ ++ l₂) := by
    rw [ofKind_append, ofKind_append, ofKind_cons]; simp [MdItem.kind]
  have e2 : ofKind .blocks (l₁ ++ .enum k v :: l₂) = ofKind .blocks (l₁ ++ l₂) := by
    rw [ofKind_append, ofKind_append, ofKind_cons]; simp [MdItem.kind]
  rw [procMd_factors, procMd_factors, foldInjects_ofKind (l₁ ++ .enum k v :: l₂), foldInjects_ofKind (l₁ ++ l₂),
    foldTypes_ofKind (l₁ ++ .enum k v :: l₂), foldTypes_ofKind (l₁ ++ l₂), e1, e2]
  cases foldInjects s.injects (ofKind .blocks (l₁ ++ l₂)) <;> rfl

/-! ### the exact dependence on the order inside one registry -/

theorem foldTypes_append (l₁ l₂ : List MdItem) (f : String → Option String) :
    foldTypes f (l₁ ++ l₂) = foldTypes (foldTypes f l₁) l₂ := by
  induction l₁ generalizing f with
  | nil => rfl
  | cons a l ih => cases a <;> simp [foldTypes, ih]

theorem foldEnums_append (l₁ l₂ : List MdItem) (f : String → Option String) :
    foldEnums f (l₁ ++ l₂) = foldEnums (foldEnums f l₁) l₂ := by
  induction l₁ generalizing f with
  | nil => rfl
  | cons a l ih => cases a <;> simp [foldEnums, ih]

/-- a key no item of the list declares keeps its entry -/
theorem foldTypes_untouched (l : List MdItem) (f : String → Option String) (k : String)
    (h : ∀ v, MdItem.methodType k v ∉ l) : foldTypes f l k = f k := by
  induction l generalizing f with
  | nil => rfl
  | cons a l ih =>
    have hl : ∀ v, MdItem.methodType k v ∉ l := fun v hv => h v (List.mem_cons_of_mem _ hv)
    cases a with
    | methodType k' v' =>
      have hne : k ≠ k' := by
        intro e; subst e; exact h v' (List.mem_cons_self)
      simp [foldTypes, ih _ hl, upd, hne]
    | fn _ _ => simpa [foldTypes] using ih f hl
    | enum _ _ => simpa [foldTypes] using ih f hl
    | inject _ _ => simpa [foldTypes] using ih f hl
    | script _ _ => simpa [foldTypes] using ih f hl
    | bad _ => simpa [foldTypes] using ih f hl

/-- **C08.types_last_wins** — the dependence of the method-type table on the order is exactly: the LAST declaration of a
key is in effect (`g_method_type_dict[type][method] = …` overwrites).  So two different declarations of one method do
not commute, and nothing else about the order of `add_method_type_info` items matters. -/
theorem types_last_wins (l₁ l₂ : List MdItem) (f : String → Option String) (k v : String)
    (h : ∀ v', MdItem.methodType k v' ∉ l₂) :
    foldTypes f (l₁ ++ .methodType k v :: l₂) k = some v := by
  rw [foldTypes_append]
  simp only [foldTypes]
  rw [foldTypes_untouched l₂ _ k h]
  simp [upd]

/-- a key that is already defined stays as it is, whatever follows -/
theorem foldEnums_defined (l : List MdItem) (f : String → Option String) (k w : String) (h : f k = some w) :
    foldEnums f l k = some w := by
  induction l generalizing f with
  | nil => exact h
  | cons a l ih =>
    cases a with
    | enum k' v' =>
      simp only [foldEnums]
      apply ih
      unfold enumStep
      cases h' : f k' with
      | some _ => exact h
      | none =>
        have hne : k ≠ k' := by intro e; subst e; rw [h] at h'; cases h'
        simp [upd, hne, h]
    | methodType _ _ => simpa [foldEnums] using ih f h
    | fn _ _ => simpa [foldEnums] using ih f h
    | inject _ _ => simpa [foldEnums] using ih f h
    | script _ _ => simpa [foldEnums] using ih f h
    | bad _ => simpa [foldEnums] using ih f h

theorem foldEnums_untouched (l : List MdItem) (f : String → Option String) (k : String)
    (h : ∀ v, MdItem.enum k v ∉ l) : foldEnums f l k = f k := by
  induction l generalizing f with
  | nil => rfl
  | cons a l ih =>
    have hl : ∀ v, MdItem.enum k v ∉ l := fun v hv => h v (List.mem_cons_of_mem _ hv)
    cases a with
    | enum k' v' =>
      have hne : k ≠ k' := by
        intro e; subst e; exact h v' (List.mem_cons_self)
      simp only [foldEnums]
      rw [ih _ hl]
      unfold enumStep
      cases f k' <;> simp [upd, hne]
    | methodType _ _ => simpa [foldEnums] using ih f hl
    | fn _ _ => simpa [foldEnums] using ih f hl
    | inject _ _ => simpa [foldEnums] using ih f hl
    | script _ _ => simpa [foldEnums] using ih f hl
    | bad _ => simpa [foldEnums] using ih f hl

/-- **C08.enums_first_wins** — the enum table depends on the order exactly the other way round: the FIRST definition of a
key stays (`define_enum`: "already defined" returns the existing one). -/
theorem enums_first_wins (l₁ l₂ : List MdItem) (f : String → Option String) (k v : String)
    (hf : f k = none) (h : ∀ v', MdItem.enum k v' ∉ l₁) :
    foldEnums f (l₁ ++ .enum k v :: l₂) k = some v := by
  rw [foldEnums_append]
  simp only [foldEnums]
  apply foldEnums_defined
  unfold enumStep
  rw [foldEnums_untouched l₁ f k h, hf]
  simp [upd]

/-- the two rules on literals: the later type of `A::m` wins, the earlier definition of `ns.E` wins -/
example :
    foldTypes (fun _ => none) [.methodType "A::m" "int", .enum "ns.E" "1", .methodType "A::m" "double"] "A::m" = some "double" ∧
    foldEnums (fun _ => none) [.enum "ns.E" "1", .methodType "A::m" "int", .enum "ns.E" "2"] "ns.E" = some "1" := by
  decide

/-- **C08.injects_in_order** — injected blocks: a list of blocks with pairwise different names is kept as it is, in list
order (the order of `#include` lines, members and constructor lines in the package), whatever else sits between them. -/
theorem injects_in_order (bs : List (String × String)) (inj : List (String × String))
    (h : (inj ++ bs).map (·.1) |>.Nodup) :
    foldInjects inj (bs.map fun b => .inject b.1 b.2) = .ok (inj ++ bs) := by
  induction bs generalizing inj with
  | nil => simp [foldInjects]
  | cons b bs ih =>
    have hnot : inj.find? (·.1 == b.1) = none := by
      rw [List.find?_eq_none]
      intro x hx hxe
      simp only [beq_iff_eq] at hxe
      simp only [List.map_append, List.map_cons] at h
      have := (List.nodup_append.1 h).2.2 x.1 (List.mem_map_of_mem hx) b.1 (List.mem_cons_self)
      exact this hxe
    simp only [List.map_cons, foldInjects, hnot]
    have h' : ((inj ++ [b]) ++ bs).map (·.1) |>.Nodup := by simpa [List.append_assoc] using h
    simpa [List.append_assoc] using ih (inj ++ [b]) h'

example : (foldInjects [] [.inject "blk1" "a", .fn "f" "x", .inject "blk2" "b", .inject "blk1" "a"]).toOption = some [("blk1", "a"), ("blk2", "b")] ∧
    (foldInjects [] [.inject "blk1" "a", .inject "blk1" "other"]).toOption = none := by decide

/-! ### the criterion the harness uses (`mdSameB`) contains the old one (`commutingAll`) -/

/-- **C08.mdSame_of_commuting** — every pair of orders the harness compared before (a permutation of a list without
conflicting items) is still compared: the model cannot tell the two orders apart.  (`mdSameB` accepts more: conflicting
items that keep their relative order, dependent job scripts.) -/
theorem mdSame_of_commuting (l l' : List MdItem) (sc sc' : List SBlk) (hp : l.Perm l') (hc : commutingAll l = true) :
    mdSameB l l' sc sc' false = true := by
  have e := proc_perm l l' hp hc MdState.init
  unfold mdSameB mdView
  rw [← e]
  cases procMd MdState.init l with
  | error x => simp
  | ok s => simp
where
  proc_perm (l l' : List MdItem) (hp : l.Perm l') (hc : commutingAll l = true) (s : MdState) : procMd s l = procMd s l' :=
    procMd_perm hp ((commutingAll_iff l).1 hc) s

/-! ### job script blocks: `generate_script_block` -/

/-- **C08.scripts_chain_any_order** — two job script blocks, the second depending on the first: whichever of the two
`MetaData` calls comes first in the list, the job options get the dependency's lines first.  For all names (different),
all script texts. -/
theorem scripts_chain_any_order (a b : String) (sa sb : List String) (hab : a ≠ b) :
    emitScripts [⟨a, sa, []⟩, ⟨b, sb, [a]⟩] = .ok (sa ++ sb) ∧
    emitScripts [⟨b, sb, [a]⟩, ⟨a, sa, []⟩] = .ok (sa ++ sb) := by
  have hba : b ≠ a := fun e => hab e.symm
  constructor
  · simp [emitScripts, sbBuild, sbAdd, sbMissing, sbLoop, sbPass, hab, hba]
  · simp [emitScripts, sbBuild, sbAdd, sbMissing, sbLoop, sbPass, hab, hba]

/-- **C08.scripts_independent_in_list_order** — two blocks without dependencies are emitted in list order: for them the
order of the `MetaData` calls shows in the package (the harness compares such orders only when the order is kept). -/
theorem scripts_independent_in_list_order (a b : String) (sa sb : List String) (hab : a ≠ b) :
    emitScripts [⟨a, sa, []⟩, ⟨b, sb, []⟩] = .ok (sa ++ sb) := by
  have hba : b ≠ a := fun e => hab e.symm
  simp [emitScripts, sbBuild, sbAdd, sbMissing, sbLoop, sbPass, hab, hba]

/-- **C08.scripts_order_counterexample** — so (c) with a change of ORDER is false of independent script blocks -/
theorem scripts_order_counterexample :
    (emitScripts [⟨"s1", ["# one"], []⟩, ⟨"s2", ["# two"], []⟩]).toOption ≠
    (emitScripts [⟨"s2", ["# two"], []⟩, ⟨"s1", ["# one"], []⟩]).toOption := by
  decide

/-- three blocks in a chain, all six orders: one result; a missing dependency and a cycle are refused in every order -/
example :
    let s1 : SBlk := ⟨"s1", ["1"], []⟩
    let s2 : SBlk := ⟨"s2", ["2"], ["s1"]⟩
    let s3 : SBlk := ⟨"s3", ["3"], ["s2"]⟩
    [[s1, s2, s3], [s1, s3, s2], [s2, s1, s3], [s2, s3, s1], [s3, s1, s2], [s3, s2, s1]].all
      (fun l => (emitScripts l).toOption == some ["1", "2", "3"]) = true ∧
    (emitScripts [s1, ⟨"s9", ["9"], ["nowhere"]⟩]).toOption = none ∧
    (emitScripts [⟨"s2", ["2"], ["s3"]⟩, s3]).toOption = none := by
  decide

end FaxVerif.C08
