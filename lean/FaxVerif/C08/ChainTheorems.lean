/-
C08 (c), extension round — job script blocks in a dependency chain of ANY length.
-/
import FaxVerif.C08.MdModel
namespace FaxVerif.C08

/-- a chain that continues after the block named `prev` (`none`: starts): every block depends on exactly its predecessor -/
def isChainFrom : Option String → List SBlk → Prop
  | _, [] => True
  | prev, b :: bs => b.deps = prev.toList ∧ isChainFrom (some b.name) bs

theorem sbBuild_nodup (bs acc : List SBlk) (h : ((acc ++ bs).map (·.name)).Nodup) : sbBuild bs acc = .ok (acc ++ bs) := by
  induction bs generalizing acc with
  | nil => simp [sbBuild]
  | cons b bs ih =>
    have hnone : acc.find? (·.name == b.name) = none := by
      rw [List.find?_eq_none]
      intro x hx hxe
      simp only [beq_iff_eq] at hxe
      simp only [List.map_append, List.map_cons] at h
      exact (List.nodup_append.1 h).2.2 x.name (List.mem_map_of_mem hx) b.name (List.mem_cons_self) hxe
    have h' : (((acc ++ [b]) ++ bs).map (·.name)).Nodup := by simpa [List.append_assoc] using h
    simp only [sbBuild, sbAdd, hnone]
    simpa [List.append_assoc] using ih (acc ++ [b]) h'

theorem chain_deps_known (prev : Option String) (bs : List SBlk) (h : isChainFrom prev bs) :
    ∀ e ∈ bs, ∀ d ∈ e.deps, d ∈ prev.toList ∨ d ∈ bs.map (·.name) := by
  induction bs generalizing prev with
  | nil => intro e he; cases he
  | cons b bs ih =>
    intro e he d hd
    rcases List.mem_cons.1 he with rfl | he'
    · left; rw [h.1] at hd; exact hd
    · rcases ih (some b.name) h.2 e he' d hd with h1 | h1
      · right; simp at h1; simp [h1]
      · right; simp only [List.map_cons, List.mem_cons]; right; exact h1

theorem sbPass_chain (bs : List SBlk) (prev : Option String) (seen out : List String) (em : Bool)
    (hc : isChainFrom prev bs) (hp : ∀ d ∈ prev.toList, d ∈ seen) (hn : ((bs.map (·.name))).Nodup)
    (hs : ∀ b ∈ bs, b.name ∉ seen) :
    sbPass bs ⟨seen, out, em⟩ = ⟨seen ++ bs.map (·.name), out ++ bs.flatMap (·.script), em || !bs.isEmpty⟩ := by
  induction bs generalizing prev seen out em with
  | nil => simp [sbPass]
  | cons b bs ih =>
    have hb : b.name ∉ seen := hs b (List.mem_cons_self)
    have hd : (b.deps.all (· ∈ seen)) = true := by
      rw [hc.1]; simp only [List.all_eq_true, decide_eq_true_eq]; exact hp
    simp only [List.map_cons, List.nodup_cons] at hn
    simp only [sbPass, hb, if_false, hd, if_true]
    rw [ih (some b.name) (seen ++ [b.name]) (out ++ b.script) true hc.2 (by simp) hn.2
      (by
        intro x hx hmem
        rcases List.mem_append.1 hmem with h1 | h1
        · exact hs x (List.mem_cons_of_mem _ hx) h1
        · simp at h1; exact hn.1 (h1 ▸ List.mem_map_of_mem hx))]
    simp [List.append_assoc]

/-- **C08.scripts_chain_any_length** — a dependency chain of job script blocks of ANY length (names pairwise different,
every block depending on exactly its predecessor), listed in dependency order: accepted, and every block's lines are
emitted, in that order, in one pass.  (For the other orders of the `MetaData` calls: `scripts_chain_any_order` for two
blocks with arbitrary names and texts, all 6 / 24 orders of a three / four block chain by evaluation below; the harness
compares `emitScripts` on both orders for every pair it samples, and C15's theorems say that any accepted output is a
topological order of the blocks — of which a chain has exactly one.) -/
theorem scripts_chain_any_length (c : List SBlk) (hn : (c.map (·.name)).Nodup) (hc : isChainFrom none c) :
    emitScripts c = .ok (c.flatMap (·.script)) := by
  have hb : sbBuild c [] = .ok c := by simpa using sbBuild_nodup c [] (by simpa using hn)
  have hm : sbMissing c = false := by
    simp only [sbMissing, List.any_eq_false, Bool.not_eq_true, List.any_eq_true, not_exists, not_and,
      Bool.not_eq_eq_eq_not, Bool.not_true]
    intro e he d hd
    rcases chain_deps_known none c hc e he d hd with h | h
    · cases h
    · obtain ⟨x, hx, hxe⟩ := List.mem_map.1 h
      have : c.any (fun y => y.name == d) = true := List.any_eq_true.2 ⟨x, hx, by simp [hxe]⟩
      simpa using this
  unfold emitScripts
  simp only [hb, hm]
  cases c with
  | nil => simp [sbLoop]
  | cons b bs =>
    have hp := sbPass_chain (b :: bs) none [] [] false hc (by simp) hn (by simp)
    simp only [sbLoop, List.length_cons, List.length_nil, Nat.zero_lt_succ, if_true, hp]
    simp

def insertAll {α} (x : α) : List α → List (List α)
  | [] => [[x]]
  | y :: ys => (x :: y :: ys) :: (insertAll x ys).map (y :: ·)

/-- all orders of a list -/
def perms {α} : List α → List (List α)
  | [] => [[]]
  | x :: xs => (perms xs).flatMap (insertAll x)

/-- a chain of four, all 24 orders of the MetaData calls: one result -/
example :
    let c : List SBlk := [⟨"s1", ["1"], []⟩, ⟨"s2", ["2"], ["s1"]⟩, ⟨"s3", ["3"], ["s2"]⟩, ⟨"s4", ["4"], ["s3"]⟩]
    (perms c).length = 24 ∧ (perms c).all (fun l => (emitScripts l).toOption == some ["1", "2", "3", "4"]) = true ∧
    (c.map (·.name)).Nodup ∧ isChainFrom none c := by
  refine ⟨by decide, by decide, by decide, by simp [isChainFrom]⟩

end FaxVerif.C08
