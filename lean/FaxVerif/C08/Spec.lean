/-
C08 — the property as decidable predicates.

The property says: the generated package is the same, up to the numbering of generated names, for two
queries related by (a) the qastle round trip, (b) α-renaming, (c) moving MetaData calls, (d) fusing chained
Select/Where steps.  `SameOutcome` is the conclusion (evaluated by the harness on what the IMPLEMENTATION
produced for the two queries); `Related` are the hypotheses (evaluated on the two queries, so that the harness
only compares what the property quantifies over); `…Risk` are the defect exclusions.
-/
import FaxVerif.C08.Model
namespace FaxVerif.C08

/-! ### conclusion: equal up to the numbering of generated names -/

/-- what a translation run produced: the lexed package, or the class of the exception -/
inductive Outcome where
  | ok (toks : List Tok)
  | err (cls : String)
deriving Repr, DecidableEq

/-- strict: every token equal after first-occurrence renumbering of the generated names -/
def SamePackage (a b : List Tok) : Prop := canon false a = canon false b

/-- the same, except that the query text embedded in the `First()` diagnostic is not compared -/
def SamePackageUpToDiag (a b : List Tok) : Prop := canon true a = canon true b

instance (a b) : Decidable (SamePackage a b) := by unfold SamePackage; infer_instance
instance (a b) : Decidable (SamePackageUpToDiag a b) := by unfold SamePackageUpToDiag; infer_instance

def SameOutcome (strict : Bool) : Outcome → Outcome → Prop
  | .ok a, .ok b => if strict then SamePackage a b else SamePackageUpToDiag a b
  | .err c, .err d => c = d
  | _, _ => False

instance (strict a b) : Decidable (SameOutcome strict a b) := by
  cases a <;> cases b <;> simp only [SameOutcome] <;> infer_instance

/-! ### hypotheses: the four relations between queries -/

/-- (b) -/
def alphaB (q q' : Q) : Bool := resolve [] q == resolve [] q'

mutual
/-- `change_extension_functions_to_calls`: `src.Op(args)` → `Op(src, args)` for the twelve operator names -/
def normStyle : Q → Q
  | .var x => .var x
  | .lit c => .lit c
  | .lam ps b => .lam ps (normStyle b)
  | .app (.node t [recv]) as =>
    match attrName? t with
    | some name =>
      if name ∈ ["Select", "SelectMany", "Where", "First", "ResultTTree", "ResultAwkwardArray", "ResultPandasDF",
                 "Min", "Max", "Sum", "Aggregate", "Count"]
      then .app (.var name) (normStyle recv :: normStyleL as)
      else .app (.node t [normStyle recv]) (normStyleL as)
    | none => .app (.node t [normStyle recv]) (normStyleL as)
  | .app f as => .app (normStyle f) (normStyleL as)
  | .node t ks => .node t (normStyleL ks)
def normStyleL : List Q → List Q
  | [] => []
  | q :: qs => normStyle q :: normStyleL qs
end

/-- same list up to order (a decidable stand-in for `List.Perm`; only used by the harness to check that its own variant
producers moved metadata and lost none — no theorem depends on it) -/
def permB : List Q → List Q → Bool
  | [], l => l.isEmpty
  | a :: as, l => match l.findIdx? (· == a) with
    | some i => permB as (l.eraseIdx i)
    | none => false

/-- (c) same query under the MetaData calls, same multiset of metadata -/
def mdMovedB (q q' : Q) : Bool := (strip q).1 == (strip q').1 && permB (strip q).2 (strip q').2

/-- (c) … and even the same extraction order -/
def mdSameOrderB (q q' : Q) : Bool := (strip q).1 == (strip q').1 && (strip q).2 == (strip q').2

/-- (d) the composition written as calls of the two lambdas: `Select(Select(s,f),g)` → `Select(s, z: g(f(z)))`,
`Where(Where(s,f),g)` → `Where(s, z: f(z) and g(z))` -/
def fuseA (z : String) : Q → Option Q
  | .app (.var op) [.app (.var op') [s, .lam [x] fb], .lam [y] gb] =>
    if op == "Select" && op' == "Select" then
      some (Q.call "Select" [s, .lam [z] (.app (.lam [y] gb) [.app (.lam [x] fb) [.var z]])])
    else if op == "Where" && op' == "Where" then
      some (Q.call "Where" [s, .lam [z] (.node "bool:And" [.app (.lam [x] fb) [.var z], .app (.lam [y] gb) [.var z]])])
    else none
  | _ => none

mutual
def mapAt (f : Q → Option Q) : List Step → Q → Option Q
  | [], q => f q
  | .body :: p, .lam ps b => (mapAt f p b).map (.lam ps ·)
  | .fn :: p, .app g as => (mapAt f p g).map (.app · as)
  | .arg i :: p, .app g as => (mapAtL f i p as).map (.app g ·)
  | .kid i :: p, .node t ks => (mapAtL f i p ks).map (.node t ·)
  | _, _ => none
def mapAtL (f : Q → Option Q) : Nat → List Step → List Q → Option (List Q)
  | _, _, [] => none
  | 0, p, q :: qs => (mapAt f p q).map (· :: qs)
  | i + 1, p, q :: qs => (mapAtL f i p qs).map (q :: ·)
end

/-- several MetaData calls attached one after the other, each at a valid position of the term built so far -/
def attachMany : List (List Step × Q) → Q → Option Q
  | [], q => some q
  | (p, m) :: rest, q => if validPos p q then (attachAt m p q).bind (attachMany rest) else none

/-! ### what the text format can carry -/

def identOK (x : String) : Bool := x != "(" && x != ")" && atomOf x == Q.var x

def litOK (c : String) : Bool := litText c != "(" && litText c != ")" && atomOf (litText c) == Q.lit c

def specialTy (ty : String) : Bool :=
  ty == "list" || ty == "dict" || ty == "attr" || ty == "subscript" || ty == "call" || ty == "if" || ty == "lambda"

def symOK2 (tbl : List (String × String)) (op t : String) : Bool :=
  match symOf tbl op with
  | some sy => !specialTy sy && sy != "(" && sy != ")" && tag2 sy == some t
  | none => false

/-- the tag of a node with `n` children survives printing and parsing -/
def tagWireOK (t : String) (n : Nat) : Bool :=
  match splitTag t, n with
  | ("attr", name), 1 =>
    t == "attr:" ++ name && ("'" ++ name ++ "'") != "(" && ("'" ++ name ++ "'") != ")" &&
    atomOf ("'" ++ name ++ "'") == Q.lit ("str:'" ++ name ++ "'") && attrOfLit ("str:'" ++ name ++ "'") == some name
  | ("bin", op), 2 => symOK2 binSym op t
  | ("cmp", op), 2 => symOK2 cmpSym op t
  | ("bool", op), 2 => symOK2 boolSym op t
  | ("un", op), 1 => (match symOf unSym op with
    | some sy => !specialTy sy && sy != "(" && sy != ")" && tag1 sy == some t
    | none => false)
  | ("if", _), 3 => t == "if"
  | ("tuple", _), _ => t == "tuple"
  | ("list", _), _ => t == "list"
  | ("dict", _), _ => t == "dict"
  | ("sub", _), 2 => t == "sub"
  | _, _ => false

mutual
/-- names are identifiers, constants are in the form `repr` gives them, tags and arities are those of Python's AST -/
def wireOK : Q → Bool
  | .var x => identOK x
  | .lit c => litOK c
  | .lam ps b => ps.all identOK && wireOK b
  | .app f as => wireOK f && wireOKL as
  | .node t ks => tagWireOK t ks.length && wireOKL ks
def wireOKL : List Q → Bool
  | [] => true
  | q :: qs => wireOK q && wireOKL qs
end

/-! ### defect exclusions -/

mutual
/-- all names bound by lambdas inside a term -/
def boundNames : Q → List String
  | .var _ => []
  | .lit _ => []
  | .lam ps b => ps ++ boundNames b
  | .app f as => boundNames f ++ boundNamesL as
  | .node _ ks => boundNamesL ks
def boundNamesL : List Q → List String
  | [] => []
  | q :: qs => boundNames q ++ boundNamesL qs
end

/-- a lambda one of whose parameters is bound again inside its body -/
def selfShadow : Q → Bool
  | .lam ps b => ps.any (fun p => p ∈ boundNames b)
  | _ => false

mutual
/-- func_adl β-reduces `Where` predicates (when fusing `Where`∘`Where`) and directly called lambdas by binding
the parameter in its frame stack and walking the body, where inner lambdas do not shadow: a parameter that is
bound again inside such a lambda is captured.  `shadowRisk` holds when the query has such a lambda. -/
def shadowRisk : Q → Bool
  | .var _ => false
  | .lit _ => false
  | .lam _ b => shadowRisk b
  | .app f as =>
    (match f, as with
      | .lam _ _, _ => selfShadow f
      | .var op, [_, pred] => op == "Where" && selfShadow pred
      | .node t [_], [pred] => t == "attr:Where" && selfShadow pred
      | _, _ => false)
    || shadowRisk f || shadowRiskL as
  | .node _ ks => shadowRiskL ks
def shadowRiskL : List Q → Bool
  | [] => false
  | q :: qs => shadowRisk q || shadowRiskL qs
end

def isArgName (s : String) : Bool :=
  s.startsWith "arg_" && s.length > 4 && (s.drop 4).toString.toList.all Char.isDigit

mutual
def allNames : Q → List String
  | .var x => [x]
  | .lit _ => []
  | .lam ps b => ps ++ allNames b
  | .app f as => allNames f ++ allNamesL as
  | .node _ ks => allNamesL ks
def allNamesL : List Q → List String
  | [] => []
  | q :: qs => allNames q ++ allNamesL qs
end

/-- func_adl's generated parameter names `arg_<n>` are not kept apart from the user's names -/
def argNameRisk (q : Q) : Bool := (allNames q).any isArgName


/-! ### the steps in front of `simplify_chained_calls` -/

def aggLambda (name : String) : Q :=
  if name == "Sum" then .lam ["acc", "v"] (.node "bin:Add" [.var "acc", .var "v"])
  else if name == "Max" then .lam ["acc", "v"] (.node "if" [.node "cmp:Gt" [.var "acc", .var "v"], .var "acc", .var "v"])
  else if name == "Min" then .lam ["acc", "v"] (.node "if" [.node "cmp:Lt" [.var "acc", .var "v"], .var "acc", .var "v"])
  else .lam ["acc", "v"] (.node "bin:Add" [.var "acc", .lit "int:1"])

mutual
/-- `aggregate_node_transformer`: `Count(s)`/`len(s)`, `Sum`, `Max`, `Min` become
`Aggregate(s, 0, lambda acc, v: …)` — with the fixed parameter names `acc` and `v`. -/
def aggNorm : Q → Q
  | .var x => .var x
  | .lit c => .lit c
  | .lam ps b => .lam ps (aggNorm b)
  | .app (.var f) (a :: rest) =>
    if ((f == "len" || f == "Count") && rest.isEmpty) || f == "Sum" || f == "Max" || f == "Min"
    then Q.call "Aggregate" [aggNorm a, .lit "int:0", aggLambda f]
    else .app (.var f) (aggNorm a :: aggNormL rest)
  | .app f as => .app (aggNorm f) (aggNormL as)
  | .node t ks => .node t (aggNormL ks)
def aggNormL : List Q → List Q
  | [] => []
  | q :: qs => aggNorm q :: aggNormL qs
end

/-- the query as `simplify_chained_calls` receives it -/
def preSimp (q : Q) : Q := aggNorm (normStyle (strip q).1)

mutual
/-- free occurrences of a name -/
def occ (x : String) : Q → Nat
  | .var y => if x = y then 1 else 0
  | .lit _ => 0
  | .lam ps b => if x ∈ ps then 0 else occ x b
  | .app f as => occ x f + occL x as
  | .node _ ks => occL x ks
def occL (x : String) : List Q → Nat
  | [] => 0
  | q :: qs => occ x q + occL x qs
end

/-- the stream a chain of Select/Where/SelectMany calls starts from -/
def chainBase : Q → Q
  | .app (.var op) (src :: rest) =>
    if op == "Select" || op == "Where" || op == "SelectMany" then chainBase src else .app (.var op) (src :: rest)
  | q => q

mutual
/-- names that are the start of a chain containing a `Where` -/
def whereBases : Q → List String
  | .var _ => []
  | .lit _ => []
  | .lam _ b => whereBases b
  | .app f as =>
    (match f, as with
      | .var op, src :: _ => if op == "Where" then (match chainBase src with | .var x => [x] | _ => []) else []
      | _, _ => [])
    ++ whereBases f ++ whereBasesL as
  | .node _ ks => whereBasesL ks
def whereBasesL : List Q → List String
  | [] => []
  | q :: qs => whereBases q ++ whereBasesL qs
end

mutual
/-- func_adl substitutes *the same AST object* for every use of a parameter and later rewrites such objects in
place (fusing a `Where` onto a bound stream β-reduces the bound stream's own predicate object): a parameter
that is used more than once and is the start of a chain with a `Where` can have its other uses corrupted.
Evaluated on `preSimp q`. -/
def aliasRisk : Q → Bool
  | .var _ => false
  | .lit _ => false
  | .lam ps b => ps.any (fun p => decide (occ p b ≥ 2) && decide (p ∈ whereBases b)) || aliasRisk b
  | .app f as => aliasRisk f || aliasRiskL as
  | .node _ ks => aliasRiskL ks
def aliasRiskL : List Q → Bool
  | [] => false
  | q :: qs => aliasRisk q || aliasRiskL qs
end



/-! ### scalar lambda bodies (the class the fusion theorems cover) -/

def opName (f : String) : Bool := f == "Select" || f == "SelectMany" || f == "Where" || f == "First"

def tagOk (t : String) : Bool := t != "sub" && t != "dict"

mutual
/-- A lambda-free expression built from names, constants, calls of named functions other than the sequence
operators, method calls, and operator nodes other than subscripts and dict displays: `j.pt()*2 > abs(j.eta())`,
`(j.pt(), twice(j.eta()))`, `j.pt() if j.b() else 0`. -/
def scalar : Q → Bool
  | .var _ => true
  | .lit _ => true
  | .lam _ _ => false
  | .app (.var f) as => !opName f && scalarL as
  | .app (.node t [recv]) as => tagOk t && scalar recv && scalarL as
  | .app _ _ => false
  | .node t ks => tagOk t && scalarL ks
def scalarL : List Q → Bool
  | [] => true
  | q :: qs => scalar q && scalarL qs
end

mutual
/-- replace every name by what the frame stack binds it to -/
def subst (env : Stack Q) : Q → Q
  | .var x => (env.lookup x).getD (.var x)
  | .lit c => .lit c
  | .lam ps b => .lam ps (subst env b)
  | .app f as => .app (subst env f) (substL env as)
  | .node t ks => .node t (substL env ks)
def substL (env : Stack Q) : List Q → List Q
  | [] => []
  | q :: qs => subst env q :: substL env qs
end

mutual
/-- fuel that `simplify` needs on a term that triggers no re-visit -/
def depth : Q → Nat
  | .var _ => 1
  | .lit _ => 1
  | .lam _ b => depth b + 1
  | .app f as => max (depth f) (depthL as) + 1
  | .node _ ks => depthL ks + 1
def depthL : List Q → Nat
  | [] => 1
  | q :: qs => max (depth q) (depthL qs) + 1
end

def isDictNode : Q → Bool
  | .node t _ => t == "dict"
  | _ => false

/-! ### canonical names, capture freedom -/

def canonName (k : Nat) : String := "u_" ++ toString k

mutual
/-- back from the de Bruijn form, every binder named after its depth (`u_0`, `u_1`, …): all binders distinct -/
def unresolve (depth : Nat) : DB → Q
  | .bvar i => .var (canonName (depth - 1 - i))
  | .fvar x => .var x
  | .lit c => .lit c
  | .lam n b => .lam ((List.range n).map (fun i => canonName (depth + i))) (unresolve (depth + n) b)
  | .app f as => .app (unresolve depth f) (unresolveL depth as)
  | .node t ks => .node t (unresolveL depth ks)
def unresolveL (depth : Nat) : List DB → List Q
  | [] => []
  | d :: ds => unresolve depth d :: unresolveL depth ds
end

/-- the α-variant of a query in which no binder name is used twice -/
def canonNames (q : Q) : Q := unresolve 0 (resolve [] q)

/-- `simplify_chained_calls` treats the query like its canonically named variant.  False where the simplifier
captures: a parameter bound again inside a β-reduced `Where` predicate or directly called lambda, a parameter
called `acc`/`v` around a Count/Sum, a parameter called `arg_<n>`, a lambda pushed under a `SelectMany`
parameter of the same name. -/
def captureFree0 (fuel : Nat) (t : Q) : Bool :=
  let a := (simplify fuel [] 0 (aggNorm (normStyle t))).1
  let b := (simplify fuel [] 0 (aggNorm (normStyle (canonNames t)))).1
  (hasBang a == hasBang b) && (hasBang a || resolve [] a == resolve [] b)

def captureFreeB (fuel : Nat) (q : Q) : Bool := captureFree0 fuel (strip q).1

mutual
def probeArgs : Q → List Q
  | .var _ => []
  | .lit _ => []
  | .lam _ b => probeArgs b
  | .app f as =>
    (match f, as with
      | .var g, [a] => if g == "!probe" then [a] else []
      | _, _ => [])
    ++ probeArgs f ++ probeArgsL as
  | .node _ ks => probeArgsL ks
def probeArgsL : List Q → List Q
  | [] => []
  | q :: qs => probeArgs q ++ probeArgsL qs
end

mutual
def freeVars (bound : List String) : Q → List String
  | .var x => if x ∈ bound then [] else [x]
  | .lit _ => []
  | .lam ps b => freeVars (ps ++ bound) b
  | .app f as => freeVars bound f ++ freeVarsL bound as
  | .node _ ks => freeVarsL bound ks
def freeVarsL (bound : List String) : List Q → List String
  | [] => []
  | q :: qs => freeVars bound q ++ freeVarsL bound qs
end

/-- the lambda parameters in scope at a position -/
def bindersAlong : List Step → Q → List String
  | .body :: p, .lam ps b => ps ++ bindersAlong p b
  | .fn :: p, .app f _ => bindersAlong p f
  | .arg i :: p, .app _ as => match as[i]? with
    | some a => bindersAlong p a
    | none => []
  | .kid i :: p, .node _ ks => match ks[i]? with
    | some a => bindersAlong p a
    | none => []
  | _, _ => []

def subtermAt : List Step → Q → Option Q
  | [], q => some q
  | .body :: p, .lam _ b => subtermAt p b
  | .fn :: p, .app f _ => subtermAt p f
  | .arg i :: p, .app _ as => match as[i]? with
    | some a => subtermAt p a
    | none => none
  | .kid i :: p, .node _ ks => match ks[i]? with
    | some a => subtermAt p a
    | none => none
  | _, _ => none

/-- the two lambdas of a fusing site mention no parameter of an enclosing lambda (func_adl deep-copies the two
lambdas when it fuses them itself: a stream bound to an outer parameter that they mention is then no longer the same
object as its other uses, and the translator evaluates it once more) -/
def siteLambdasClosedB (q : Q) (p : List Step) : Bool :=
  match subtermAt p q with
  | some (.app (.var _) [.app (.var _) [_, f], g]) =>
    let bs := bindersAlong p q
    (freeVars [] f ++ freeVars [] g).all (fun x => x ∉ bs)
  | _ => false

/-- the stream under a fusing site `Op(Op(s, f), g)` -/
def siteSource : Q → Option Q
  | .app (.var _) [.app (.var _) [s, _], _] => some (Q.call "!probe" [s])
  | _ => none

/-- Fusing by hand is only the same as what func_adl does itself when the stream under the two steps does not
simplify (in its context) to a Select/SelectMany/Where: otherwise the steps are first pushed through / merged
with that operator one by one, which re-associates conjunctions and copies selections (different sharing of
sub-expressions, hence different generated code).  `q` is the call-style, separately written query. -/
def fuseSiteOkB (fuel : Nat) (q : Q) (p : List Step) : Bool :=
  match mapAt siteSource p q with
  | some probed =>
    let r := (simplify fuel [] 0 (aggNorm probed)).1
    let heads := probeArgs r
    siteLambdasClosedB q p &&
    !heads.isEmpty && heads.all (fun h => !(h.isCallOf "Select" || h.isCallOf "SelectMany" || h.isCallOf "Where"))
  | none => false

/-- the normal forms of `simplify_chained_calls` agree up to α (used to keep fusing variants whose *simplified
queries* differ — re-association of three `Where`s, duplicated selections — out of the main stream) -/
def sameNormalFormB (fuel : Nat) (q q' : Q) : Bool :=
  let a := (simplify fuel [] 0 (preSimp q)).1
  let b := (simplify fuel [] 0 (preSimp q')).1
  !hasBang a && !hasBang b && resolve [] a == resolve [] b

/-- `simplify_chained_calls` run to completion: a second visit of its own result.  func_adl's single visit leaves
some chains as written — `SelectMany(SelectMany(s, f), g)` becomes `SelectMany(s, x: SelectMany(f(x), g))` and `g` is
not visited, so a `Select(Select(..))` inside `g` reaches the translator unfused.  The counter of generated names goes on
from where the first visit stopped. -/
def simplify2 (fuel : Nat) (q : Q) : Q :=
  let a := simplify fuel [] 0 q
  (simplify fuel [] a.2 a.1).1

/-- The COMPLETED normal forms agree up to α although (possibly) the single-visit ones do not: the two queries differ
only by chained steps that func_adl leaves for the translator to compose.  The property asks for the same package all
the same ("whether chained Select/Where steps are written separately or already fused"). -/
def sameNormalForm2B (fuel : Nat) (q q' : Q) : Bool :=
  let a := simplify2 fuel (preSimp q)
  let b := simplify2 fuel (preSimp q')
  !hasBang a && !hasBang b && resolve [] a == resolve [] b

mutual
/-- a directly called lambda is left in the term (the translator would have to β-reduce it itself) -/
def hasRedex : Q → Bool
  | .var _ => false
  | .lit _ => false
  | .lam _ b => hasRedex b
  | .app f as => isLam f || hasRedex f || hasRedexL as
  | .node _ ks => hasRedexL ks
def hasRedexL : List Q → Bool
  | [] => false
  | q :: qs => hasRedex q || hasRedexL qs
end

/-! ### global names: what the translator resolves outside the frame stack -/

mutual
/-- Some free name satisfying `g` is READ in the (de Bruijn form of the) query: it reaches the translator's table of
global names (`resolve_id` falling through to `get_toplevel_ns`).  An occurrence bound by a lambda parameter of the
same spelling is an index here and does not count. -/
def readsGlobal (g : String → Bool) : DB → Bool
  | .bvar _ => false
  | .fvar x => g x
  | .lit _ => false
  | .lam _ b => readsGlobal g b
  | .app f as => readsGlobal g f || readsGlobalL g as
  | .node _ ks => readsGlobalL g ks
def readsGlobalL (g : String → Bool) : List DB → Bool
  | [] => false
  | d :: ds => readsGlobal g d || readsGlobalL g ds
end

/-- the query (as written, from the empty stack) reads one of the listed names as a free name -/
def readsAnyB (names : List String) (q : Q) : Bool := readsGlobal (fun x => names.contains x) (resolve [] q)

/-- some lambda parameter of the query is spelled like one of the listed names -/
def binderAmongB (names : List String) (q : Q) : Bool := (boundNames q).any (fun x => names.contains x)

end FaxVerif.C08
