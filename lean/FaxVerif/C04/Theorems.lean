/-
C04 — faults are equivalent: loud on empty First / bad index, never spurious; evaluation is as
lazy as the query (and/or, conditional arms, anything behind a rejecting Where).

Theorems here are about the statement shapes the translator emits for these constructs (the
translator model `Gen` produces them; the text tie of C01 checks on every run that the real
translator emits the same shapes), for ALL condition lists / element lists / states.
-/
import FaxVerif.Gen.FirstCorrect
namespace FaxVerif.C04
open FaxVerif.Cpp FaxVerif.Linq FaxVerif.Gen
variable {D : Type}

/-- **C04.and_lazy** — a conjunction of conditions (the fused `Where`s, i.e. Python `and`) is
lowered to `bool r; r = c₁; if (r) { r = c₂; } …`: after running the lowered statements the result
expression holds the lazy conjunction — `condsR` evaluates cᵢ₊₁ only when c₁ … cᵢ were all true, so
a faulting later operand is NOT executed when an earlier one is false (`Count() > 0 and First()…`
protects what follows it) — and nothing but the fresh result variables is touched. -/
theorem and_lazy (C : Ctx D) (nm : Nat → String) (hinj : ∀ i j, nm i = nm j → i = j)
    (rc : List CExpr) (n : Nat) (σ : Env D) (rows : List (List (Val D))) (r : Bool)
    (hfresh : ∀ c ∈ rc, ∀ x ∈ vars c, ∀ j, n ≤ j → x ≠ nm j)
    (h : condsR C.N σ rc = .ok r) :
    ∃ σ', execs C ((andLower nm rc n).decls ++ (andLower nm rc n).stmts) ⟨σ, rows⟩ = .ok ⟨σ', rows⟩ ∧
      evalB C.N σ' (andLower nm rc n).val = .ok r ∧
      (∀ y, ¬ InRange nm n (andLower nm rc n).next y → σ' y = σ y) :=
  andLower_correct C nm hinj rc n σ rows r hfresh h

/-- **C04.lazy_skips_fault** — the laziness made explicit: if an earlier condition is false, the
conjunction is false whatever the later condition would do (including faulting). -/
theorem lazy_skips_fault (N : Num D) (σ : Env D) (c : CExpr) (rest : List CExpr)
    (h : condsR N σ rest = .ok false) : condsR N σ (c :: rest) = .ok false := by
  simp [condsR, h]

/-- **C04.where_shields** — for one element: the emitted conditions decide "kept / dropped"
exactly as the query does, and the value expression of a kept element evaluates to the query's
value; a dropped element's downstream code is not executed (`chainBody_correct`, case `none`). -/
theorem where_shields (C : Ctx D) (QC : QCtx D) (hN : QC.N = C.N) (nm : Nat → String)
    (hinj : ∀ i j, nm i = nm j → i = j) (ptr : Bool) (i : String) (steps : List Step) (n : Nat)
    (hi : ∀ j, n ≤ j → i ≠ nm j) (K : CExpr → Option Ty → List Stmt)
    (s : St D) (v : Val D)
    (hiv : s.env i = some (.val v)) (hwt : wtSteps none steps = true)
    (hm : MethTyped v (methsSteps steps)) (hs : elemSem QC steps v = .ok none) :
    ∃ s1 : St D, s1.rows = s.rows ∧
      (∀ y, ¬ InRange nm n (chainBody nm ptr (.var i) steps n K).2 y → s1.env y = s.env y) ∧
      execs C (chainBody nm ptr (.var i) steps n K).1 s = .ok s1 := by
  obtain ⟨s1, h1, h2, h3, _⟩ := chainBody_correct C QC hN nm hinj ptr i steps n hi K s v none hiv hwt hm hs
  exact ⟨s1, h1, h2, h3 rfl⟩

/-- **C04.pure_faults_equal** — a pure expression faults in the generated code exactly when (and
as) the query faults: `evalE (compPE …) = denote …` is an equality in `Except Fault`. -/
theorem pure_faults_equal (C : QCtx D) (σ : Env D) (cur : CExpr) (curTy : Option Ty) (ptr : Bool)
    (v : Val D) (x : String) (ρ : LEnv D)
    (hcur : evalE C.N σ cur = .ok v) (hty : ∀ t, curTy = some t → HasTy v t)
    (pe : PE) (hw : wtPE curTy pe = true) (hm : MethTyped v (methsPE pe)) (f : Fault) :
    evalE C.N σ (compPE ptr cur (curT curTy) pe) = .error f ↔ denote C ((x, v) :: ρ) (peQ x pe) = .error f := by
  rw [(pe_correct C σ cur curTy ptr v x ρ hcur hty pe hw hm).1]

end FaxVerif.C04

namespace FaxVerif.C04
open FaxVerif.Cpp FaxVerif.Linq FaxVerif.Gen
variable {D : Type}

/-- **C04.first_idiom** — the code emitted for `First()` of a chain
(`bool is_first (true);` outside the loop, `if (is_first) { is_first = false; col = value; }` inside,
`if (is_first) throw …;` after the loop):
  * if the query keeps at least one element, the column variable ends up holding the FIRST kept
    element's value — never a later or a stale one — and nothing is thrown;
  * if the sequence is empty after its filters, the code fails loudly (`Fault.loud`), it never
    continues with a default or previous value. -/
theorem first_idiom (C : Ctx D) (QC : QCtx D) (hN : QC.N = C.N)
    (B : Backend) (hB : BackendOK B) (nm : Nat → String)
    (hinj : ∀ i j, nm i = nm j → i = j) (hres : ∀ j, nm j ≠ "result")
    (c : Chain) (n : Nat) (col : String) (hcol : ∀ j, col ≠ nm j) (hcolr : col ≠ "result") (msg : String)
    (cty : String) (l ws : List (Val D))
    (hcoll : B.collType c.coll = some cty) (hfind : C.ev.find c.bank = some (cty, .vec l))
    (hwt : wtSteps none c.steps = true) (hmt : ∀ v ∈ l, MethTyped v (methsSteps c.steps))
    (hel : elemsSem QC c.steps l = .ok ws)
    (s : St D) (hx : (s.env (nm (n + 1))).isSome = true)
    (hfl : s.env (nm n) = some (.val (.bool true))) (hcd : (s.env col).isSome = true) :
    let K : CExpr → Option Ty → List Stmt := fun cur _ => [.ite (.var (nm n)) [.set (nm n) (.bool false), .set col cur] []]
    let prog := (compChain B nm c (n + 1) K).stmts ++ [.ite (.var (nm n)) [.throw msg] []]
    (ws = [] → execs C prog s = .error (.loud msg)) ∧
    (∀ w rest, ws = w :: rest → ∃ s', execs C prog s = .ok s' ∧ s'.env col = some (.val w) ∧ s'.rows = s.rows ∧
        (∀ y, y ≠ col → ¬ Touch nm n (compChain B nm c (n + 1) K).next y → s'.env y = s.env y)) :=
  FaxVerif.Gen.first_idiom C QC hN B hB nm hinj hres c n col hcol hcolr msg cty l ws hcoll hfind hwt hmt hel s hx hfl hcd

end FaxVerif.C04
