/-
C04 — faults are equivalent: loud on empty First / bad index, never spurious; evaluation is as
lazy as the query (and/or, conditional arms, anything behind a rejecting Where).

Theorems here are about the statement shapes the translator emits for these constructs (the
translator model `Gen` produces them; the text tie of C01 checks on every run that the real
translator emits the same shapes), for ALL condition lists / element lists / states.
-/
import FaxVerif.Gen.FirstCorrect
import FaxVerif.Gen.FirstFault
import FaxVerif.Gen.GuardedFirst
import FaxVerif.C04.Shapes
namespace FaxVerif.C04
open FaxVerif.Cpp FaxVerif.Linq FaxVerif.Gen
variable {D : Type}

/-- **C04.and_lazy** — a conjunction of conditions (the fused `Where`s, i.e. Python `and`) is
lowered to `bool r; r = c₁; if (r) { r = c₂; } …`: after running the lowered statements the result
expression holds the lazy conjunction — `condsR` evaluates cᵢ₊₁ only when c₁ … cᵢ were all true, so
a faulting later operand is NOT executed when an earlier one is false (`Count() > 0 and First()…`
protects what follows it) — and nothing but the fresh result variables is touched. -/
theorem and_lazy (C : Ctx D) (nm : Nat → String) (hinj : ∀ i j, nm i = nm j → i = j)
    (rc : List CExpr) (n : Nat) (σ : Env D) (rows : List (List (Val D))) (r : Bool)
    (hfresh : ∀ c ∈ rc, ∀ x ∈ vars c, ∀ j, n ≤ j → x ≠ nm j)
    (h : condsR C.N σ rc = .ok r) :
    ∃ σ', execs C ((andLower nm rc n).decls ++ (andLower nm rc n).stmts) ⟨σ, rows⟩ = .ok ⟨σ', rows⟩ ∧
      evalB C.N σ' (andLower nm rc n).val = .ok r ∧
      (∀ y, ¬ InRange nm n (andLower nm rc n).next y → σ' y = σ y) :=
  andLower_correct C nm hinj rc n σ rows r hfresh h

/-- **C04.lazy_skips_fault** — the laziness made explicit: if an earlier condition is false, the
conjunction is false whatever the later condition would do (including faulting). -/
theorem lazy_skips_fault (N : Num D) (σ : Env D) (c : CExpr) (rest : List CExpr)
    (h : condsR N σ rest = .ok false) : condsR N σ (c :: rest) = .ok false := by
  simp [condsR, h]

/-- **C04.where_shields** — for one element: the emitted conditions decide "kept / dropped"
exactly as the query does, and the value expression of a kept element evaluates to the query's
value; a dropped element's downstream code is not executed (`chainBody_correct`, case `none`). -/
theorem where_shields (C : Ctx D) (QC : QCtx D) (hN : QC.N = C.N) (nm : Nat → String)
    (hinj : ∀ i j, nm i = nm j → i = j) (ptr : Bool) (i : String) (steps : List Step) (n : Nat)
    (hi : ∀ j, n ≤ j → i ≠ nm j) (K : CExpr → Option Ty → List Stmt)
    (s : St D) (v : Val D)
    (hiv : s.env i = some (.val v)) (hwt : wtSteps none steps = true)
    (hm : MethTyped v (methsSteps steps)) (hs : elemSem QC steps v = .ok none) :
    ∃ s1 : St D, s1.rows = s.rows ∧
      (∀ y, ¬ InRange nm n (chainBody nm ptr (.var i) steps n K).2 y → s1.env y = s.env y) ∧
      execs C (chainBody nm ptr (.var i) steps n K).1 s = .ok s1 := by
  obtain ⟨s1, h1, h2, h3, _⟩ := chainBody_correct C QC hN nm hinj ptr i steps n hi K s v none hiv hwt hm hs
  exact ⟨s1, h1, h2, h3 rfl⟩

/-- **C04.pure_faults_equal** — a pure expression faults in the generated code exactly when (and
as) the query faults: `evalE (compPE …) = denote …` is an equality in `Except Fault`. -/
theorem pure_faults_equal (C : QCtx D) (σ : Env D) (cur : CExpr) (curTy : Option Ty) (ptr : Bool)
    (v : Val D) (x : String) (ρ : LEnv D)
    (hcur : evalE C.N σ cur = .ok v) (hty : ∀ t, curTy = some t → HasTy v t)
    (pe : PE) (hw : wtPE curTy pe = true) (hm : MethTyped v (methsPE pe)) (f : Fault) :
    evalE C.N σ (compPE ptr cur (curT curTy) pe) = .error f ↔ denote C ((x, v) :: ρ) (peQ x pe) = .error f := by
  rw [(pe_correct C σ cur curTy ptr v x ρ hcur hty pe hw hm).1]

end FaxVerif.C04

namespace FaxVerif.C04
open FaxVerif.Cpp FaxVerif.Linq FaxVerif.Gen
variable {D : Type}

/-- **C04.first_idiom** — the code emitted for `First()` of a chain
(`bool is_first (true);` outside the loop, `if (is_first) { is_first = false; col = value; }` inside,
`if (is_first) throw …;` after the loop):
  * if the query keeps at least one element, the column variable ends up holding the FIRST kept
    element's value — never a later or a stale one — and nothing is thrown;
  * if the sequence is empty after its filters, the code fails loudly (`Fault.loud`), it never
    continues with a default or previous value. -/
theorem first_idiom (C : Ctx D) (QC : QCtx D) (hN : QC.N = C.N)
    (B : Backend) (hB : BackendOK B) (nm : Nat → String)
    (hinj : ∀ i j, nm i = nm j → i = j) (hres : ∀ j, nm j ≠ "result")
    (c : Chain) (n : Nat) (col : String) (hcol : ∀ j, col ≠ nm j) (hcolr : col ≠ "result") (msg : String)
    (cty : String) (l ws : List (Val D))
    (hcoll : B.collType c.coll = some cty) (hfind : C.ev.find c.bank = some (cty, .vec l))
    (hwt : wtSteps none c.steps = true) (hmt : ∀ v ∈ l, MethTyped v (methsSteps c.steps))
    (hel : elemsSem QC c.steps l = .ok ws)
    (s : St D) (hx : (s.env (nm (n + 1))).isSome = true)
    (hfl : s.env (nm n) = some (.val (.bool true))) (hcd : (s.env col).isSome = true) :
    let K : CExpr → Option Ty → List Stmt := fun cur _ => [.ite (.var (nm n)) [.set (nm n) (.bool false), .set col cur] []]
    let prog := (compChain B nm c (n + 1) K).stmts ++ [.ite (.var (nm n)) [.throw msg] []]
    (ws = [] → execs C prog s = .error (.loud msg)) ∧
    (∀ w rest, ws = w :: rest → ∃ s', execs C prog s = .ok s' ∧ s'.env col = some (.val w) ∧ s'.rows = s.rows ∧
        (∀ y, y ≠ col → ¬ Touch nm n (compChain B nm c (n + 1) K).next y → s'.env y = s.env y)) :=
  FaxVerif.Gen.first_idiom C QC hN B hB nm hinj hres c n col hcol hcolr msg cty l ws hcoll hfind hwt hmt hel s hx hfl hcd

end FaxVerif.C04

namespace FaxVerif.C04
open FaxVerif.Cpp FaxVerif.Linq FaxVerif.Gen
variable {D : Type}

theorem env_set_self (σ : Env D) (r : String) (v : Val D) : (σ.set r v) r = some (.val v) := by
  simp [Env.set]

theorem unop_not (N : Num D) (v : Val D) (b : Bool) (h : asBool N v = some b) : unop N "!" v = .ok (.bool (!b)) := by
  cases v <;> simp_all [unop]

/-- shared core of the and / or lowering: after `preA; r = a;` the guard decides whether the second
operand's statements run at all -/
theorem guarded_second (C : Ctx D) (r : String) (preA body : List Stmt) (a g : CExpr)
    (s s1 : St D) (va : Val D) (run : Bool)
    (hA : execs C preA s = .ok s1) (hr : (s1.env r).isSome = true)
    (ha : evalE C.N s1.env a = .ok va)
    (hg : ∃ vg, evalE C.N (s1.env.set r va) g = .ok vg ∧ asBool C.N vg = some run) :
    execs C (preA ++ [.set r a, .ite g body []]) s =
      (if run then execs C body { s1 with env := s1.env.set r va }
       else .ok { s1 with env := s1.env.set r va }) := by
  obtain ⟨vg, hg1, hg2⟩ := hg
  rw [execs_append, hA]
  simp only [execs]
  rw [exec_set_ok C s1 r a va hr ha]
  simp only []
  rw [exec_ite_of C { s1 with env := s1.env.set r va } g _ _ vg run hg1 hg2]
  cases run
  · simp [execs]
  · simp only [if_true]
    cases execs C body { s1 with env := s1.env.set r va } <;> rfl

/-- **C04.or_lazy** — `a or b` inside an expression is lowered to `preA; r = a; if (!r) { body }`
(`orShape`; `body` computes the second operand and assigns it to `r` — the assignment may sit
inside a `First()` guard followed by its emptiness check). For ANY `body`: if the first operand is
true it is not executed at all and `r` keeps the first operand; if it is false the outcome is
exactly the outcome of running `body`, faults included.
(`Count() == 0 or First() > c` never throws on an empty sequence.) -/
theorem or_lazy (C : Ctx D) (r : String) (preA body : List Stmt) (a : CExpr)
    (s s1 : St D) (va : Val D) (ba : Bool)
    (hA : execs C preA s = .ok s1) (hr : (s1.env r).isSome = true)
    (ha : evalE C.N s1.env a = .ok va) (hba : asBool C.N va = some ba) :
    execs C (orShape r preA a body) s =
      (if ba then .ok { s1 with env := s1.env.set r va }
       else execs C body { s1 with env := s1.env.set r va }) := by
  have hg : ∃ vg, evalE C.N (s1.env.set r va) (.un "!" (.var r)) = .ok vg ∧ asBool C.N vg = some (!ba) :=
    ⟨.bool (!ba), by simp [evalE, env_set_self, unop_not C.N va ba hba], by simp [asBool]⟩
  have := guarded_second C r preA body a (.un "!" (.var r)) s s1 va (!ba) hA hr ha hg
  unfold orShape
  rw [this]
  cases ba <;> simp

/-- **C04.and_lazy2** — the same for `a and b` inside an expression (`andShape`): the second
operand's statements run only when the first operand is true. (`Count() > 0 and First() > c`.) -/
theorem and_lazy2 (C : Ctx D) (r : String) (preA body : List Stmt) (a : CExpr)
    (s s1 : St D) (va : Val D) (ba : Bool)
    (hA : execs C preA s = .ok s1) (hr : (s1.env r).isSome = true)
    (ha : evalE C.N s1.env a = .ok va) (hba : asBool C.N va = some ba) :
    execs C (andShape r preA a body) s =
      (if ba then execs C body { s1 with env := s1.env.set r va }
       else .ok { s1 with env := s1.env.set r va }) := by
  have hg : ∃ vg, evalE C.N (s1.env.set r va) (.var r) = .ok vg ∧ asBool C.N vg = some ba :=
    ⟨va, by simp [evalE, env_set_self], hba⟩
  unfold andShape
  exact guarded_second C r preA body a (.var r) s s1 va ba hA hr ha hg

/-- **C04.or_step / and_step** — one more operand of an n-ary chain (`a or b or c` is lowered to
`r = a; if (!r) {…r = b…} if (!r) {…r = c…}`): the operand's statements run exactly when the
chain is still undecided. -/
theorem or_step (C : Ctx D) (r : String) (body : List Stmt) (s : St D) (va : Val D) (ba : Bool)
    (hr : s.env r = some (.val va)) (hba : asBool C.N va = some ba) :
    exec C (.ite (.un "!" (.var r)) body []) s = (if ba then .ok s else execs C body s) := by
  rw [exec_ite_of C s (.un "!" (.var r)) body [] (.bool (!ba)) (!ba)
    (by simp [evalE, hr, unop_not C.N va ba hba]) (by simp [asBool])]
  cases ba <;> simp [execs]

theorem and_step (C : Ctx D) (r : String) (body : List Stmt) (s : St D) (va : Val D) (ba : Bool)
    (hr : s.env r = some (.val va)) (hba : asBool C.N va = some ba) :
    exec C (.ite (.var r) body []) s = (if ba then execs C body s else .ok s) := by
  rw [exec_ite_of C s (.var r) body [] va ba (by simp [evalE, hr]) hba]
  cases ba <;> simp [execs]

/-- the first operand's fault is the fault of the whole lowering (nothing is swallowed) -/
theorem first_operand_fault (C : Ctx D) (preA rest : List Stmt) (s : St D) (f : Fault)
    (hA : execs C preA s = .error f) : execs C (preA ++ rest) s = .error f := by
  rw [execs_append, hA]

/-- **C04.ite_lazy** — `x if c else y` is lowered to `preC; if (c) { thn } else { els }`
(`iteShape`; each arm computes its value and assigns the result variable): exactly one arm is
executed — the one Python evaluates — whatever the other arm contains
(`First().pt() if Count() > 0 else -1` never throws on an empty sequence). -/
theorem ite_lazy (C : Ctx D) (preC thn els : List Stmt) (c : CExpr)
    (s s1 : St D) (vc : Val D) (bc : Bool)
    (hC : execs C preC s = .ok s1)
    (hc : evalE C.N s1.env c = .ok vc) (hbc : asBool C.N vc = some bc) :
    execs C (iteShape preC c thn els) s = execs C (if bc then thn else els) s1 := by
  unfold iteShape
  rw [execs_append, hC]
  simp only [execs]
  rw [exec_ite_of C s1 c _ _ vc bc hc hbc]
  cases execs C (if bc then thn else els) s1 <;> rfl

/-- an arm (or second operand) with a pure operand `e` just stores its value -/
theorem arm_pure (C : Ctx D) (r : String) (e : CExpr) (s : St D) (v : Val D)
    (hr : (s.env r).isSome = true) (he : evalE C.N s.env e = .ok v) :
    execs C (thenSet [] r e) s = .ok { s with env := s.env.set r v } := by
  simp only [thenSet, List.nil_append, execs, exec_set_ok C s r e v hr he]

/-- non-vacuity: a throwing second operand behind a true first operand of `or` is not executed -/
example (C : Ctx D) (s : St D) (hr : (s.env "r").isSome = true) :
    execs C (orShape "r" [] (.bool true) (thenSet [.throw "First() called on an empty sequence"] "r" (.bool false))) s =
      .ok { s with env := s.env.set "r" (.bool true) } := by
  have := or_lazy C "r" [] (thenSet [.throw "First() called on an empty sequence"] "r" (.bool false)) (.bool true) s s (.bool true) true
    (by simp [execs]) hr (by simp [evalE]) (by simp [asBool])
  simpa using this

/-- the recogniser finds the shapes it is meant to find (a three-operand chain counts twice) -/
example : countShapesL [] (orShape "r" [] (.bool true) (thenSet [] "r" (.bool false)) ++ [.ite (.un "!" (.var "r")) (thenSet [] "r" (.bool true)) []]) = ⟨0, 2, 0⟩ := by decide
example : countShapesL [] (orShape "r" [] (.bool true) (thenSet [] "r" (.bool false))) = ⟨0, 1, 0⟩ := by decide
example : countShapesL [] (andShape "r" [] (.bool true) [.ite (.var "f") [.set "f" (.bool false), .set "r" (.var "x")] []]) = ⟨1, 0, 0⟩ := by decide
example : countShapesL [] (iteShape [] (.var "c") (thenSet [] "r" (.int 1)) (thenSet [] "r" (.int 2))) = ⟨0, 0, 1⟩ := by decide

end FaxVerif.C04

namespace FaxVerif.C04
open FaxVerif.Cpp FaxVerif.Linq FaxVerif.Gen
variable {D : Type}

/-- **C04.event_first_empty_loud** — END TO END, fault direction, for the translator model on
event-level rows `{…pre…, name: chain.First(), …post…}`: on an event where the columns before it
are defined and the chain keeps no element, the query is undefined (loud fault) and the whole
emitted package — declarations, the loops of the earlier columns, the `First()` idiom — fails
loudly, from any admissible class state; nothing after the failing column runs and no row is
written. For every backend satisfying `BackendOK`, all column lists, chains, events, number
models. (The success direction is `C01.eventRows_correct_partial`.) -/
theorem event_first_empty_loud (B : Backend) (hB : BackendOK B) (nm cn : Nat → String)
    (hinj : ∀ i j, nm i = nm j → i = j) (hcinj : ∀ i j, cn i = cn j → i = j)
    (hres : ∀ j, nm j ≠ "result") (hcres : ∀ k, cn k ≠ "result") (hdisj : ∀ j k, nm j ≠ cn k)
    (QC : QCtx D) (hcollT : ∀ name, B.collType name = QC.collType name)
    (pre : List (String × Col)) (name : String) (c : Chain) (post : List (String × Col))
    (hhyp : ∀ p ∈ pre, ColHyp QC p.2) (hc : ColHyp QC (.first c))
    (σc : Env D) (hσ : ColsPre cn ((pre ++ (name, .first c) :: post).map (·.2)) 0 σc)
    (vs : List (Val D))
    (hpre : denotes QC [("e", evtVal)] ((pre.map (·.2)).map (colQ "e")) = .ok vs)
    (hempty : denote QC [("e", evtVal)] (chainQ "e" c) = .ok (.vec [])) :
    runEvent (compile B nm cn (.eventRows (pre ++ (name, .first c) :: post))) QC.N σc QC.ev = .error (.loud firstMsg) ∧
    ∃ m, denote QC [("e", evtVal)] (colQ "e" (.first c)) = .error (.loud m) :=
  eventRows_first_empty_loud B hB nm cn hinj hcinj hres hcres hdisj QC hcollT pre name c post hhyp hc σc hσ vs hpre hempty

end FaxVerif.C04

namespace FaxVerif.C04
open FaxVerif.Cpp FaxVerif.Linq FaxVerif.Gen
variable {D : Type}

/-- **C04.guarded_first_safe** — the guard idiom `d if c.Count() == 0 else c.First()`, as the
translator lowers it (`Gen.guardedFirst`: Count loop, `if (acc == 0) { r = d; } else { First idiom }`),
NEVER throws: from any state, for every chain, event and number model, it terminates normally with
`r` holding the default when the chain keeps no element and the first kept element otherwise, and
touches nothing but its own generated names. (Never spurious: the `throw` of the First idiom is
unreachable behind the guard.) -/
theorem guarded_first_safe (C : Ctx D) (QC : QCtx D) (hN : QC.N = C.N) (hev : QC.ev = C.ev)
    (B : Backend) (hB : BackendOK B) (nm : Nat → String)
    (hinj : ∀ i j, nm i = nm j → i = j) (hres : ∀ j, nm j ≠ "result")
    (hcollT : ∀ name, B.collType name = QC.collType name)
    (c : Chain) (d : CExpr) (vd : Val D) (hd : ∀ σ : Env D, evalE C.N σ d = .ok vd)
    (r : String) (hr : ∀ j, nm j ≠ r) (hrr : r ≠ "result") (n : Nat)
    (hwt : wtSteps none c.steps = true) (hct : ChainTyped QC c) (hbv : BankIsVec QC c)
    (ws : List (Val D)) (hchain : denote QC [("e", evtVal)] (chainQ "e" c) = .ok (.vec ws))
    (s0 : St D) :
    ∃ s', execs C (guardedFirst B nm c d r n) s0 = .ok s' ∧ s'.rows = s0.rows ∧
      (ws = [] → s'.env r = some (.val vd)) ∧
      (∀ w rest, ws = w :: rest → s'.env r = some (.val w)) ∧
      (∀ y, y ≠ r → (∀ j, y ≠ nm j) → y ≠ "result" → s'.env y = s0.env y) :=
  guardedFirst_safe C QC hN hev B hB nm hinj hres hcollT c d vd hd r hr hrr n hwt hct hbv ws hchain s0

/-- **C04.guarded_package_correct** — the whole package for
`ds.Select(e -> {name: d if c.Count() == 0 else c.First()})` writes exactly one row per event —
the first kept element, or the default on an empty sequence — and never fails. The model's text
is compared with the real translator's on every run (`guarded-tie` stream). -/
theorem guarded_package_correct (B : Backend) (hB : BackendOK B) (nm cn : Nat → String)
    (hinj : ∀ i j, nm i = nm j → i = j) (hcinj : ∀ i j, cn i = cn j → i = j)
    (hres : ∀ j, nm j ≠ "result") (hcres : ∀ k, cn k ≠ "result") (hdisj : ∀ j k, nm j ≠ cn k)
    (QC : QCtx D) (hcollT : ∀ name, B.collType name = QC.collType name)
    (name : String) (c : Chain) (d : CExpr) (vd : Val D) (hd : ∀ σ : Env D, evalE QC.N σ d = .ok vd)
    (hwt : wtSteps none c.steps = true) (hct : ChainTyped QC c) (hbv : BankIsVec QC c)
    (ws : List (Val D)) (hchain : denote QC [("e", evtVal)] (chainQ "e" c) = .ok (.vec ws))
    (σc : Env D) (hσ : (σc (cn 0)).isSome = true) :
    ∃ σ', runEvent (compileGuarded B nm cn name c d) QC.N σc QC.ev = .ok ([[ws.head?.getD vd]], σ') :=
  compileGuarded_correct B hB nm cn hinj hcinj hres hcres hdisj QC hcollT name c d vd hd hwt hct hbv ws hchain σc hσ

end FaxVerif.C04

namespace FaxVerif.C04
open FaxVerif.Cpp FaxVerif.Linq FaxVerif.Gen
variable {D : Type}

/-- the guarded steps of an n-ary `or` chain after its first operand:
`if (!r) { body₁ } if (!r) { body₂ } …` -/
def orSteps (r : String) (bodies : List (List Stmt)) : List Stmt :=
  bodies.map fun b => .ite (.un "!" (.var r)) b []

def andSteps (r : String) (bodies : List (List Stmt)) : List Stmt :=
  bodies.map fun b => .ite (.var r) b []

/-- **C04.or_chain_decided** — once an `or` chain is decided (its result variable holds a true
value) NONE of the remaining operands' statements is executed, however many there are and whatever
they contain: the rest of the chain leaves the state untouched. -/
theorem or_chain_decided (C : Ctx D) (r : String) (s : St D) (va : Val D)
    (hr : s.env r = some (.val va)) (hba : asBool C.N va = some true) :
    ∀ bodies : List (List Stmt), execs C (orSteps r bodies) s = .ok s
  | [] => by simp [orSteps, execs]
  | b :: rest => by
    have h1 := or_step C r b s va true hr hba
    simp only [if_true] at h1
    have ih := or_chain_decided C r s va hr hba rest
    simp only [orSteps, List.map_cons, execs] at ih ⊢
    rw [h1]
    exact ih

/-- **C04.and_chain_decided** — the dual for `and`: once the result variable holds a false value
the remaining operands are skipped. -/
theorem and_chain_decided (C : Ctx D) (r : String) (s : St D) (va : Val D)
    (hr : s.env r = some (.val va)) (hba : asBool C.N va = some false) :
    ∀ bodies : List (List Stmt), execs C (andSteps r bodies) s = .ok s
  | [] => by simp [andSteps, execs]
  | b :: rest => by
    have h1 := and_step C r b s va false hr hba
    simp only [Bool.false_eq_true, if_false] at h1
    have ih := and_chain_decided C r s va hr hba rest
    simp only [andSteps, List.map_cons, execs] at ih ⊢
    rw [h1]
    exact ih

/-- … and while the chain is undecided the next operand's statements run, then the rest of the chain -/
theorem or_chain_next (C : Ctx D) (r : String) (s : St D) (va : Val D) (b : List Stmt) (rest : List (List Stmt))
    (hr : s.env r = some (.val va)) (hba : asBool C.N va = some false) :
    execs C (orSteps r (b :: rest)) s = (match execs C b s with
      | .ok s' => execs C (orSteps r rest) s'
      | .error f => .error f) := by
  have h1 := or_step C r b s va false hr hba
  simp only [Bool.false_eq_true, if_false] at h1
  simp only [orSteps, List.map_cons, execs, h1]
  cases execs C b s <;> rfl

end FaxVerif.C04
