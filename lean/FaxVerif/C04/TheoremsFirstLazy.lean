/-
C04 — `First()` over a projection whose VALUE needs statements of its own
(`coll.{Select(pure) | Where(lazy)}*.Select(x -> lazy value).First()`; translator model
`Gen.compFirstL`, lean/FaxVerif/Gen/FirstLazy.lean, tied to the real translator's text by
tools/props/c04.py `first_lazy_tie`).

The value of a conditional expression / an and-or chain lives in a C++ variable the translator
declares inside the loop body; its statements run for every kept element. `First()` must take ITS
value inside the `if (is_first)` guard: a capture that escapes the guard is overwritten by every later
element and First() returns the LAST element's value (and a value instead of a loud failure is
never written: the throw-if-still-first follows the loop).

  * `first_of_lazy_select_is_first`: whenever the query is defined, the column holds the value the
    projection gives on the FIRST kept element, nothing is thrown, no row is written.
  * `first_of_lazy_select_empty_loud`: if the chain keeps no element the code fails loudly.

-/
import FaxVerif.Gen.FirstLazyCorrect
namespace FaxVerif.C04
open FaxVerif.Cpp FaxVerif.Linq FaxVerif.Gen
variable {D : Type}

/-- the reference maps the projection over every kept element -/
theorem mapE_valsSemL (QC : QCtx D) (ρ : LEnv D) (v : LE) : ∀ ws : List (Val D),
    mapE (fun u => denote QC (("v", u) :: ρ) (leQ "v" v)) ws = valsSemL QC v ws
  | [] => rfl
  | u :: us => by
    simp only [mapE, valsSemL, leSem]
    rw [leQ_indep QC u "v" "x" ρ [] v, mapE_valsSemL QC ρ v us]
    rfl

/-- what `First(Select(chain, x -> v))` means: the chain's kept elements, the projection mapped over
ALL of them, the head of that -/
theorem firstLQ_ok (QC : QCtx D) (ρ : LEnv D) (ev : String) (c : ChainL) (v : LE) (w : Val D)
    (h : denote QC ρ (firstLQ ev c v) = .ok w) :
    ∃ ws rest, denote QC ρ (chainQL ev c) = .ok (.vec ws) ∧ valsSemL QC v ws = .ok (w :: rest) := by
  simp only [firstLQ, denote] at h
  cases hc : denote QC ρ (chainQL ev c) with
  | error e => rw [hc] at h; simp at h
  | ok src =>
    rw [hc] at h
    cases src with
    | vec ws =>
      simp only [] at h
      rw [mapE_valsSemL] at h
      cases hv : valsSemL QC v ws with
      | error e => rw [hv] at h; simp at h
      | ok vals =>
        rw [hv] at h
        cases vals with
        | nil => simp at h
        | cons w0 rest =>
          simp only [Except.ok.injEq] at h; subst h
          exact ⟨ws, rest, rfl, hv⟩
    | _ => simp at h

/-- **C04.first_of_lazy_select_is_first** — for every chain `c` (pure `Select`s and `Where`s with lazy
conditions), every lazy value expression `v` (and / or / if-else nested without bound), every event,
every number model, on all three backends (`BackendBase`; on the token idiom the chain's token is bound):
if the query `c.Select(x -> v).First()` is defined on the event with value `w`, then
  (1) `w` is the value of `v` on the FIRST element the chain keeps (`u`), and
  (2) the emitted statements (`bool fl (true);` outside the loop; the statements of `v`, then
      `if (fl) { fl = false; col = value; }` inside; `if (fl) throw` after) terminate without a fault,
      leave exactly `w` in the column variable — not a later element's value — and write no row. -/
theorem first_of_lazy_select_is_first (C : Ctx D) (QC : QCtx D) (hN : QC.N = C.N) (hev : QC.ev = C.ev)
    (B : Backend) (hB : BackendBase B) (hcollT : ∀ name, B.collType name = QC.collType name)
    (nm : Nat → String) (hinj : ∀ i j, nm i = nm j → i = j) (hres : ∀ j, nm j ≠ "result")
    (c : ChainL) (v : LE) (n : Nat) (htok : TokChain B nm C c.header n)
    (fl col msg : String)
    (hflT : ¬ Touch nm n (firstLNext B nm c v n) fl) (hcolT : ¬ Touch nm n (firstLNext B nm c v n) col)
    (hne : col ≠ fl)
    (hwt : wtFirstL c v = true)
    (hmt : ∀ cty l, C.ev.find c.bank = some (cty, .vec l) →
        ∀ u ∈ l, MethTyped u (methsStepsL c.steps) ∧ MethTyped u (methsLE v))
    (ρ : LEnv D) (ev : String) (w : Val D) (hden : denote QC ρ (firstLQ ev c v) = .ok w)
    (s : St D) (hx : (s.env (nm n)).isSome = true)
    (hfl : s.env fl = some (.val (.bool true))) (hcd : (s.env col).isSome = true) :
    (∃ u us, denote QC ρ (chainQL ev c) = .ok (.vec (u :: us)) ∧ leSem QC u v = .ok w) ∧
    ∃ s', execs C (compFirstL B nm c v fl col msg n).stmts s = .ok s' ∧ s'.env col = some (.val w) ∧ s'.rows = s.rows := by
  obtain ⟨ws, rest, hchain, hvals⟩ := firstLQ_ok QC ρ ev c v w hden
  obtain ⟨cty, l, hct, hfind, hel⟩ := chainQL_ok QC ρ ev c ws hchain
  simp only [wtFirstL, Bool.and_eq_true] at hwt
  rw [hev] at hfind
  constructor
  · cases ws with
    | nil => simp [valsSemL] at hvals
    | cons u us =>
      refine ⟨u, us, hchain, ?_⟩
      simp only [valsSemL] at hvals
      cases h1 : leSem QC u v with
      | error e => rw [h1] at hvals; simp at hvals
      | ok w1 =>
        rw [h1] at hvals
        cases h2 : valsSemL QC v us with
        | error e => rw [h2] at hvals; simp at hvals
        | ok vs =>
          rw [h2] at hvals
          simp only [Except.ok.injEq, List.cons.injEq] at hvals
          rw [hvals.1]
  · exact (first_lazy_idiom_tok C QC hN B hB nm hinj hres c v n htok fl col msg hflT hcolT hne cty l ws (w :: rest)
      (by rw [hcollT]; exact hct) hfind hwt.1 hwt.2 (hmt cty l hfind) hel hvals s hx hfl hcd).2 w rest rfl

/-- **C04.first_of_lazy_select_empty_loud** — if the chain keeps no element on the event (the query
`c.Select(x -> v).First()` is undefined there: First of an empty sequence), the emitted statements fail
LOUDLY with First's message; no default or stale value is left to be written. -/
theorem first_of_lazy_select_empty_loud (C : Ctx D) (QC : QCtx D) (hN : QC.N = C.N) (hev : QC.ev = C.ev)
    (B : Backend) (hB : BackendBase B) (hcollT : ∀ name, B.collType name = QC.collType name)
    (nm : Nat → String) (hinj : ∀ i j, nm i = nm j → i = j) (hres : ∀ j, nm j ≠ "result")
    (c : ChainL) (v : LE) (n : Nat) (htok : TokChain B nm C c.header n)
    (fl col msg : String)
    (hflT : ¬ Touch nm n (firstLNext B nm c v n) fl) (hcolT : ¬ Touch nm n (firstLNext B nm c v n) col)
    (hne : col ≠ fl)
    (hwt : wtFirstL c v = true)
    (hmt : ∀ cty l, C.ev.find c.bank = some (cty, .vec l) →
        ∀ u ∈ l, MethTyped u (methsStepsL c.steps) ∧ MethTyped u (methsLE v))
    (ρ : LEnv D) (ev : String) (hchain : denote QC ρ (chainQL ev c) = .ok (.vec []))
    (s : St D) (hx : (s.env (nm n)).isSome = true)
    (hfl : s.env fl = some (.val (.bool true))) (hcd : (s.env col).isSome = true) :
    denote QC ρ (firstLQ ev c v) = .error (.loud "First of an empty sequence") ∧
    execs C (compFirstL B nm c v fl col msg n).stmts s = .error (.loud msg) := by
  obtain ⟨cty, l, hct, hfind, hel⟩ := chainQL_ok QC ρ ev c [] hchain
  simp only [wtFirstL, Bool.and_eq_true] at hwt
  rw [hev] at hfind
  constructor
  · simp [firstLQ, denote, hchain, mapE]
  · exact (first_lazy_idiom_tok C QC hN B hB nm hinj hres c v n htok fl col msg hflT hcolT hne cty l [] []
      (by rw [hcollT]; exact hct) hfind hwt.1 hwt.2 (hmt cty l hfind) hel rfl s hx hfl hcd).1 rfl

/-! ## non-vacuity -/

/-- a chain with a lazy filter and a conditional value is inside the fragment -/
example : wtFirstL ⟨"As", "ba", [.whr (.bop .or (.meth "b" .bool) [.cmp .gt (.meth "i" .int) (.int 0)])]⟩
    (.ite (.meth "b" .bool) (.meth "d" .double) (.meth "g" .double)) = true := by decide

/-- … so is an and-chain over a projected number -/
example : wtFirstL ⟨"As", "ba", [.sel (.meth "d" .double)]⟩
    (.bop .and (.cmp .gt .it (.int 1)) [.cmp .lt .it (.int 5), .not (.cmp .eq .it (.int 2))]) = true := by decide

/-- the shape: the value's statements, then the guarded capture (the capture is INSIDE the guard) -/
example : (firstLK (fun _ => "r") false "fl" "col" (.ite (.meth "b" .bool) (.meth "d" .double) (.int 1)) (.var "i") none 7).1 =
    [.decl "double" "r" none,
     .ite (.mem (.var "i") false "b" []) [.set "r" (.mem (.var "i") false "d" [])] [.set "r" (.cast "double" (.int 1))],
     .ite (.var "fl") [.set "fl" (.bool false), .set "col" (.var "r")] []] := rfl

end FaxVerif.C04
