/-
C04 — "the generated job fails loudly on an event EXACTLY WHEN the query itself is undefined there …
and never substitutes a default or stale value or silently drops the row", at PACKAGE level, for the
whole fragment of the translator model (`Gen.compile`; tied to the real translator by the text tie of
C01), on all three backends (ATLAS, CMS AOD, CMS miniAOD: `BackendBase`; the token table is the one
`compile` emits).

The success direction is C01 (`eventRows_correct_partial`, `elemRows_correct_partial`,
`C05.fragment_job_correct_partial`): query defined ⇒ the package writes exactly its rows. Here the
FAULT direction and the equivalences:

  * `elemRows_fault_partial`, `eventRows_fault_partial`   query undefined on the event (missing bank, a
        member call faulting on an element — in a `Where` condition, a `Select` body, a column —,
        `First()` of a sequence empty after its filters) ⇒ the per-event method ends in a fault of the
        same class; no row is returned;
  * `elemRows_faults_equal_partial`, `eventRows_faults_equal_partial`   … and in THE SAME fault when
        all faults of the query's methods on the bank's elements coincide (good objects + null links);
  * `elemRows_defined_iff`, `eventRows_defined_iff`       the method returns rows iff the query is defined;
  * `no_stale_row`            what it returns is exactly what the query denotes (either shape);
  * `event_first_empty_loud_all_backends`   `event_first_empty_loud` with miniAOD covered;
  * `job_stops_at_first_undefined_event`    a job ends at the first undefined event with exactly the rows
        of the earlier events written.

What is `_partial` and why. (1) WHICH member fault is reported may differ inside one chain: the query
(eager lists) applies a step to all elements before the next step, the loop takes the elements one by
one; the theorems give the class, and equality under the uniformity hypothesis. (2) The emitted code
is LAZIER than the eager query in two places, so "undefined ⇒ fails" needs the decidable hypothesis
`strictSteps`: the body of a `Select` is inlined into what follows and is evaluated only where a later
`Where` condition or the consumer mentions the value — `Count` never does, `First` only for the first
kept element. Without it the statement is false: `count_unforced_select_counterexample`,
`first_later_fault_counterexample` (the package returns a row where the eager query is undefined; it
never returns a wrong, default or stale value).
-/
import FaxVerif.Gen.FaultCorrectJob
import FaxVerif.C01.TheoremsMiniAod
namespace FaxVerif.C04
open FaxVerif.Cpp FaxVerif.Linq FaxVerif.Gen
variable {D : Type}

/-! ## element-level rows -/

/- Full statement aimed at (false as it stands, see `count_unforced_select_counterexample` and (1) above):
   `denoteRows QC q = .error f ↔ runEvent (compile …) … = .error f`, for every fragment query. -/

/-- **C04.elemRows_fault_partial** — element-level rows `ds.SelectMany(e → chain).Select(x → {…})`,
every chain and column list of the fragment, every event, every admissible class state, all three
backends. If the query is UNDEFINED on the event with fault `f` — inside the typed fragment that is:
the bank is missing, or a member call faults on some element (in a `Where` condition, the `Select`
body, a column) — then the per-event method of the emitted package ends in a fault `f'`: it does not
return rows for that event (in particular not the rows of the elements before the faulting one, and
no row with a default value for the faulting one). `f'` is of the same class as `f`
(`ChainFaultRelM`): both `retrieveFailed` of the missing bank, or both faults of calls of the
query's own methods on elements of the bank.
Partial: `hst` (`strictSteps`: the `Select` body is forced by a later `Where` or by a column that
mentions the value) and the fault identity only up to this class (see the file header). -/
theorem elemRows_fault_partial (B : Backend) (hB : BackendBase B) (nm cn : Nat → String)
    (hinj : ∀ i j, nm i = nm j → i = j) (hcinj : ∀ i j, cn i = cn j → i = j)
    (hres : ∀ j, nm j ≠ "result") (hcres : ∀ k, cn k ≠ "result") (hdisj : ∀ j k, nm j ≠ cn k)
    (QC : QCtx D) (hcollT : ∀ name, B.collType name = QC.collType name)
    (c : Chain) (cols : List (String × PE))
    (hwt : wtSteps none c.steps = true)
    (hwtc : ∀ p ∈ cols, wtPE (chainTy none c.steps) p.2 = true)
    (hmt : ∀ cty l, QC.ev.find c.bank = some (cty, .vec l) →
        ∀ v ∈ l, MethTyped v (methsSteps c.steps) ∧ ∀ p ∈ cols, MethTyped v (methsPE p.2))
    (hbt : BankTyped QC c)
    (hst : strictSteps (cols.any (fun p => usesIt p.2)) c.steps = true)
    (σc : Env D) (hσ : ∀ k, k < cols.length → (σc (cn k)).isSome = true) (f : Fault)
    (hden : denoteRows QC (FQ.toQuery (.elemRows c cols)) = .error f) :
    ∃ f', runEvent (compile B nm cn (.elemRows c cols)) QC.N σc QC.ev = .error f' ∧
      ChainFaultRelM QC c (methsSteps c.steps ++ methsCols cols) f f' :=
  elemRows_fault B hB nm cn hinj hcinj hres hcres hdisj QC hcollT c cols hwt hwtc hmt hbt hst σc hσ f hden

/-- **C04.elemRows_faults_equal_partial** — … and when all faults the query's methods can raise on the
bank's elements coincide (`huni`; e.g. the bank holds good objects and null links: the only fault is
`nullDeref`), the emitted package raises EXACTLY the query's fault. (A missing bank needs no such
hypothesis: both sides are `retrieveFailed` of that bank.) -/
theorem elemRows_faults_equal_partial (B : Backend) (hB : BackendBase B) (nm cn : Nat → String)
    (hinj : ∀ i j, nm i = nm j → i = j) (hcinj : ∀ i j, cn i = cn j → i = j)
    (hres : ∀ j, nm j ≠ "result") (hcres : ∀ k, cn k ≠ "result") (hdisj : ∀ j k, nm j ≠ cn k)
    (QC : QCtx D) (hcollT : ∀ name, B.collType name = QC.collType name)
    (c : Chain) (cols : List (String × PE))
    (hwt : wtSteps none c.steps = true)
    (hwtc : ∀ p ∈ cols, wtPE (chainTy none c.steps) p.2 = true)
    (hmt : ∀ cty l, QC.ev.find c.bank = some (cty, .vec l) →
        ∀ v ∈ l, MethTyped v (methsSteps c.steps) ∧ ∀ p ∈ cols, MethTyped v (methsPE p.2))
    (hbt : BankTyped QC c)
    (hst : strictSteps (cols.any (fun p => usesIt p.2)) c.steps = true)
    (huni : ∀ cty l, QC.ev.find c.bank = some (cty, .vec l) → ∀ f1 f2,
        ListFault l (methsSteps c.steps ++ methsCols cols) f1 → ListFault l (methsSteps c.steps ++ methsCols cols) f2 → f1 = f2)
    (σc : Env D) (hσ : ∀ k, k < cols.length → (σc (cn k)).isSome = true) (f : Fault)
    (hden : denoteRows QC (FQ.toQuery (.elemRows c cols)) = .error f) :
    runEvent (compile B nm cn (.elemRows c cols)) QC.N σc QC.ev = .error f := by
  obtain ⟨f', hrun, hrel⟩ := elemRows_fault B hB nm cn hinj hcinj hres hcres hdisj QC hcollT c cols hwt hwtc hmt hbt hst σc hσ f hden
  rw [hrun, hrel.eq_of_uniform huni]

/-- **C04.elemRows_defined_iff** — the per-event method of the emitted package returns (rows and a
class state) on EXACTLY the events on which the query is defined: it neither fails where the query
has a value (never spurious — C01) nor returns anything where the query is undefined (never a
default, a stale value, a silently dropped element). -/
theorem elemRows_defined_iff (B : Backend) (hB : BackendBase B) (nm cn : Nat → String)
    (hinj : ∀ i j, nm i = nm j → i = j) (hcinj : ∀ i j, cn i = cn j → i = j)
    (hres : ∀ j, nm j ≠ "result") (hcres : ∀ k, cn k ≠ "result") (hdisj : ∀ j k, nm j ≠ cn k)
    (QC : QCtx D) (hcollT : ∀ name, B.collType name = QC.collType name)
    (c : Chain) (cols : List (String × PE))
    (hwt : wtSteps none c.steps = true)
    (hwtc : ∀ p ∈ cols, wtPE (chainTy none c.steps) p.2 = true)
    (hmt : ∀ cty l, QC.ev.find c.bank = some (cty, .vec l) →
        ∀ v ∈ l, MethTyped v (methsSteps c.steps) ∧ ∀ p ∈ cols, MethTyped v (methsPE p.2))
    (hbt : BankTyped QC c)
    (hst : strictSteps (cols.any (fun p => usesIt p.2)) c.steps = true)
    (σc : Env D) (hσ : ∀ k, k < cols.length → (σc (cn k)).isSome = true) :
    (∃ rows σ', runEvent (compile B nm cn (.elemRows c cols)) QC.N σc QC.ev = .ok (rows, σ')) ↔
      (∃ rows, denoteRows QC (FQ.toQuery (.elemRows c cols)) = .ok rows) :=
  fragEvent_defined_iff B hB nm cn hinj hcinj hres hcres hdisj QC hcollT (.elemRows c cols) ⟨hwt, hwtc, hmt⟩ ⟨hbt, hst⟩ σc hσ

/-! ## event-level rows -/

/-- **C04.eventRows_fault_partial** — event-level rows `ds.Select(e → {name: col, …})`, columns =
scalars from `Count` / `Sum` / arithmetic, vector columns, `First()` of a chain; every event, every
admissible class state, all three backends. If the query is UNDEFINED on the event with fault `f`,
the per-event method ends in a fault `f'` — no row is written — and `f'` belongs to the FIRST
undefined column `col` (the columns `pre` before it are defined, `col` is where the query's own fault
`f` arises): `f`, `f'` are related by `ColFaultRel`: both from the same chain of that column —
`retrieveFailed` of its missing bank, or faults of the chain's own methods on elements of its bank —
or the column is a `First()` over a sequence that is empty after its filters and both are LOUD
("First of an empty sequence" / the emitted `runtime_error` text).
Which column's fault is REPORTED could in principle differ between the two sides (Python evaluates
the dict in order; the C++ runs all loops in column order, then the scalar assignments, then `Fill`);
it does not: the assignments are arithmetic on numbers and cannot fault, so both sides stop in the
same column, at the same chain.
Partial: `ColFaultHyp` (typed banks; every chain `strictSteps` for its consumer — `Sum`, vector
column: `true`; `Count`, `First`: `false`) and, within one chain, the fault only up to its class. -/
theorem eventRows_fault_partial (B : Backend) (hB : BackendBase B) (nm cn : Nat → String)
    (hinj : ∀ i j, nm i = nm j → i = j) (hcinj : ∀ i j, cn i = cn j → i = j)
    (hres : ∀ j, nm j ≠ "result") (hcres : ∀ k, cn k ≠ "result") (hdisj : ∀ j k, nm j ≠ cn k)
    (QC : QCtx D) (hcollT : ∀ name, B.collType name = QC.collType name)
    (cols : List (String × Col)) (hhyp : ∀ p ∈ cols, ColHyp QC p.2) (hfh : ∀ p ∈ cols, ColFaultHyp QC p.2)
    (σc : Env D) (hσ : ColsPre cn (cols.map (·.2)) 0 σc) (f : Fault)
    (hden : denoteRows QC (FQ.toQuery (.eventRows cols)) = .error f) :
    ∃ f', runEvent (compile B nm cn (.eventRows cols)) QC.N σc QC.ev = .error f' ∧
      ∃ pre col post vs, cols.map (·.2) = pre ++ col :: post ∧
        denotes QC [("e", evtVal)] (pre.map (colQ "e")) = .ok vs ∧
        denote QC [("e", evtVal)] (colQ "e" col) = .error f ∧ ColFaultRel QC col f f' :=
  eventRows_fault B hB nm cn hinj hcinj hres hcres hdisj QC hcollT cols hhyp hfh σc hσ f hden

/-- the class of a column fault determines the fault when member faults are uniform; the loud
`First()` fault is reported with the emitted text on the C++ side -/
theorem colFaultRel_eq_of_uniform {QC : QCtx D} {col : Col} {f f' : Fault} (h : ColFaultRel QC col f f')
    (huni : ∀ c ∈ chainsCol col, ∀ cty l, QC.ev.find c.bank = some (cty, .vec l) → ∀ f1 f2,
        ListFault l (methsSteps c.steps) f1 → ListFault l (methsSteps c.steps) f2 → f1 = f2) :
    f' = f ∨ (f = .loud "First of an empty sequence" ∧ f' = .loud firstMsg) := by
  rcases h with ⟨c, hc, hrel⟩ | ⟨c, _, h1, h2⟩
  · exact Or.inl (hrel.eq_of_uniform (huni c hc))
  · exact Or.inr ⟨h1, h2⟩

/-- **C04.eventRows_faults_equal_partial** — with uniform member faults on every bank the query
reads, the package raises exactly the query's fault — or both are the loud `First()` fault. -/
theorem eventRows_faults_equal_partial (B : Backend) (hB : BackendBase B) (nm cn : Nat → String)
    (hinj : ∀ i j, nm i = nm j → i = j) (hcinj : ∀ i j, cn i = cn j → i = j)
    (hres : ∀ j, nm j ≠ "result") (hcres : ∀ k, cn k ≠ "result") (hdisj : ∀ j k, nm j ≠ cn k)
    (QC : QCtx D) (hcollT : ∀ name, B.collType name = QC.collType name)
    (cols : List (String × Col)) (hhyp : ∀ p ∈ cols, ColHyp QC p.2) (hfh : ∀ p ∈ cols, ColFaultHyp QC p.2)
    (huni : ∀ p ∈ cols, ∀ c ∈ chainsCol p.2, ∀ cty l, QC.ev.find c.bank = some (cty, .vec l) → ∀ f1 f2,
        ListFault l (methsSteps c.steps) f1 → ListFault l (methsSteps c.steps) f2 → f1 = f2)
    (σc : Env D) (hσ : ColsPre cn (cols.map (·.2)) 0 σc) (f : Fault)
    (hden : denoteRows QC (FQ.toQuery (.eventRows cols)) = .error f) :
    runEvent (compile B nm cn (.eventRows cols)) QC.N σc QC.ev = .error f ∨
    (f = .loud "First of an empty sequence" ∧
      runEvent (compile B nm cn (.eventRows cols)) QC.N σc QC.ev = .error (.loud firstMsg)) := by
  obtain ⟨f', hrun, p, hp, hrel⟩ := eventRows_fault_mem B hB nm cn hinj hcinj hres hcres hdisj QC hcollT cols hhyp hfh σc hσ f hden
  rcases colFaultRel_eq_of_uniform hrel (huni p hp) with h | ⟨h1, h2⟩
  · left; rw [hrun, h]
  · right; exact ⟨h1, by rw [hrun, h2]⟩

/-- **C04.eventRows_defined_iff** — the per-event method returns a row on EXACTLY the events on which
the query is defined. -/
theorem eventRows_defined_iff (B : Backend) (hB : BackendBase B) (nm cn : Nat → String)
    (hinj : ∀ i j, nm i = nm j → i = j) (hcinj : ∀ i j, cn i = cn j → i = j)
    (hres : ∀ j, nm j ≠ "result") (hcres : ∀ k, cn k ≠ "result") (hdisj : ∀ j k, nm j ≠ cn k)
    (QC : QCtx D) (hcollT : ∀ name, B.collType name = QC.collType name)
    (cols : List (String × Col)) (hhyp : ∀ p ∈ cols, ColHyp QC p.2) (hfh : ∀ p ∈ cols, ColFaultHyp QC p.2)
    (σc : Env D) (hσ : ColsPre cn (cols.map (·.2)) 0 σc) :
    (∃ rows σ', runEvent (compile B nm cn (.eventRows cols)) QC.N σc QC.ev = .ok (rows, σ')) ↔
      (∃ rows, denoteRows QC (FQ.toQuery (.eventRows cols)) = .ok rows) :=
  fragEvent_defined_iff B hB nm cn hinj hcinj hres hcres hdisj QC hcollT (.eventRows cols) hhyp hfh σc hσ

/-- **C04.event_first_empty_loud_all_backends** — `event_first_empty_loud` for EVERY backend satisfying
`BackendBase` (ATLAS, CMS AOD and CMS miniAOD): on an event where the columns before it are defined
and the chain of a `First()` column keeps no element, the query is undefined (loud) and the whole
emitted package fails LOUDLY; nothing after the failing column runs and no row is written. On the
token idiom the token table is the one `compile` emits (`tokCols_eventRows`). -/
theorem event_first_empty_loud_all_backends (B : Backend) (hB : BackendBase B) (nm cn : Nat → String)
    (hinj : ∀ i j, nm i = nm j → i = j) (hcinj : ∀ i j, cn i = cn j → i = j)
    (hres : ∀ j, nm j ≠ "result") (hcres : ∀ k, cn k ≠ "result") (hdisj : ∀ j k, nm j ≠ cn k)
    (QC : QCtx D) (hcollT : ∀ name, B.collType name = QC.collType name)
    (pre : List (String × Col)) (name : String) (c : Chain) (post : List (String × Col))
    (hhyp : ∀ p ∈ pre, ColHyp QC p.2) (hc : ColHyp QC (.first c))
    (σc : Env D) (hσ : ColsPre cn ((pre ++ (name, .first c) :: post).map (·.2)) 0 σc)
    (vs : List (Val D))
    (hpre : denotes QC [("e", evtVal)] ((pre.map (·.2)).map (colQ "e")) = .ok vs)
    (hempty : denote QC [("e", evtVal)] (chainQ "e" c) = .ok (.vec [])) :
    runEvent (compile B nm cn (.eventRows (pre ++ (name, .first c) :: post))) QC.N σc QC.ev = .error (.loud firstMsg) ∧
    ∃ m, denote QC [("e", evtVal)] (colQ "e" (.first c)) = .error (.loud m) :=
  eventRows_first_empty_loud_tok B hB nm cn hinj hcinj hres hcres hdisj QC hcollT pre name c post hhyp hc σc hσ vs hpre hempty

/-! ## no stale row; the job -/

/-- **C04.no_stale_row** — either query shape. In the fault case the rows component is not
observable: the per-event method returns an error, not a pair. And whenever it does return rows,
they are exactly the rows the query denotes on that event — so a default value, a value left from an
earlier event, or the rows minus a silently dropped one are never what the job writes. -/
theorem no_stale_row (B : Backend) (hB : BackendBase B) (nm cn : Nat → String)
    (hinj : ∀ i j, nm i = nm j → i = j) (hcinj : ∀ i j, cn i = cn j → i = j)
    (hres : ∀ j, nm j ≠ "result") (hcres : ∀ k, cn k ≠ "result") (hdisj : ∀ j k, nm j ≠ cn k)
    (QC : QCtx D) (hcollT : ∀ name, B.collType name = QC.collType name)
    (fq : FQ) (hhyp : FragHyp QC fq) (hfh : FragFaultHyp QC fq) (σc : Env D) (hσ : FragPre cn fq σc) :
    (∀ f, denoteRows QC fq.toQuery = .error f →
        ∃ f', runEvent (compile B nm cn fq) QC.N σc QC.ev = .error f' ∧ FragFaultRel QC fq f f') ∧
    (∀ rows, (∃ σ', runEvent (compile B nm cn fq) QC.N σc QC.ev = .ok (rows, σ')) ↔ denoteRows QC fq.toQuery = .ok rows) :=
  ⟨fun f hden => fragEvent_fault B hB nm cn hinj hcinj hres hcres hdisj QC hcollT fq hhyp hfh σc hσ f hden,
   fun rows => fragEvent_rows_iff B hB nm cn hinj hcinj hres hcres hdisj QC hcollT fq hhyp hfh σc hσ rows⟩

/-- **C04.job_stops_at_first_undefined_event** — JOB level (`Cpp.runJob`: events in order, class
state threaded through, from the initial class state). For an event list `pre ++ ev :: post` where
the query is defined on every event of `pre` and undefined on `ev` (fault `f`): the job is an ERROR
(`f'`, of the class of `f`), and the partial run (`runJobPartial`) shows that when it ended exactly
the rows of the events of `pre` had been written — the query's rows, in order — nothing for `ev`,
nothing for `post`. A faulting event is never skipped with the job carrying on. -/
theorem job_stops_at_first_undefined_event (B : Backend) (hB : BackendBase B) (nm cn : Nat → String)
    (hinj : ∀ i j, nm i = nm j → i = j) (hcinj : ∀ i j, cn i = cn j → i = j)
    (hres : ∀ j, nm j ≠ "result") (hcres : ∀ k, cn k ≠ "result") (hdisj : ∀ j k, nm j ≠ cn k)
    (QC : QCtx D) (hcollT : ∀ name, B.collType name = QC.collType name)
    (fq : FQ) (pre : List (Event D)) (ev : Event D) (post : List (Event D))
    (hhyp : ∀ e ∈ pre, FragHyp (QC.withEvent e) fq)
    (hdef : ∀ e ∈ pre, ∃ rows, denoteRows (QC.withEvent e) fq.toQuery = .ok rows)
    (hhypE : FragHyp (QC.withEvent ev) fq) (hfhE : FragFaultHyp (QC.withEvent ev) fq)
    (f : Fault) (hundef : denoteRows (QC.withEvent ev) fq.toQuery = .error f) :
    ∃ f', runJob (compile B nm cn fq) QC.N (pre ++ ev :: post) = .error f' ∧
      runJobPartial (compile B nm cn fq) QC.N (classInit (compile B nm cn fq).classVars) (pre ++ ev :: post) =
        ((pre.map (rowsOf QC fq.toQuery)).flatten, some f') ∧
      FragFaultRel (QC.withEvent ev) fq f f' :=
  job_stops B hB nm cn hinj hcinj hres hcres hdisj QC hcollT fq pre ev post hhyp hdef hhypE hfhE f hundef

end FaxVerif.C04

/-! ## non-vacuity, and the counterexamples that show `strictSteps` is needed -/

namespace FaxVerif.C04
open FaxVerif.Cpp FaxVerif.Linq FaxVerif.Gen FaxVerif.C01

/-- a toy number model over `Int`, to have a concrete `D` -/
def fNum : Num Int :=
  { ofInt := id, ofDec := fun m _ => m, add := (· + ·), sub := (· - ·), mul := (· * ·), div := Int.tdiv, neg := (- ·),
    lt := fun a b => decide (a < b), le := fun a b => decide (a ≤ b), eq := fun a b => decide (a = b), toInt := id,
    fn := fun _ _ => none }

/-- a good object: both accessors answer -/
def fGood (d i : Int) : Val Int := .obj "A" [("d", .dbl d), ("i", .int i)]

/-- an event whose bank holds a good object followed by a NULL link: every member call on the second
element faults (`nullDeref`) -/
def evNull (ty : String) : Event Int := ⟨[("ba", ty, .vec [fGood 2 3, .null])]⟩
def evGood (ty : String) : Event Int := ⟨[("ba", ty, .vec [fGood 2 3, fGood 5 7])]⟩
/-- an event without the bank -/
def evMissing : Event Int := ⟨[]⟩

def atlasTy : String := "xAOD::AaContainer"
def miniTy : String := "std::vector<pat::Aa>"
def qcOf (ty : String) (ev : Event Int) : QCtx Int := { N := fNum, ev := ev, collTypes := [("As", ty)] }

theorem collT_atlas (ev : Event Int) : ∀ name, atlasB.collType name = (qcOf atlasTy ev).collType name := by
  intro name
  simp only [atlasB, QCtx.collType, qcOf, QCtx.collType.go, atlasTy]
  by_cases h : name = "As"
  · simp [h]
  · have h' : ¬ "As" = name := fun e => h e.symm
    simp [h, h']

theorem collT_mini (ev : Event Int) : ∀ name, cmsMiniAodB.collType name = (qcOf miniTy ev).collType name := by
  intro name
  simp only [cmsMiniAodB, QCtx.collType, qcOf, QCtx.collType.go, miniTy]
  by_cases h : name = "As"
  · simp [h]
  · have h' : ¬ "As" = name := fun e => h e.symm
    simp [h, h']

theorem find_ba (ty : String) (l : List (Val Int)) (cty : String) (content : Val Int)
    (hf : (⟨[("ba", ty, .vec l)]⟩ : Event Int).find "ba" = some (cty, content)) : cty = ty ∧ content = .vec l := by
  simp [Event.find, Event.find.go] at hf
  exact ⟨hf.1.symm, hf.2.symm⟩

theorem methTyped_null (ms : List (String × Ty)) : MethTyped (.null : Val Int) ms := by
  intro p _ w hw; simp [member] at hw

theorem methTyped_good (d i : Int) (ms : List (String × Ty)) (hms : ∀ p ∈ ms, p = ("d", .double) ∨ p = ("i", .int)) :
    MethTyped (fGood d i) ms := by
  intro p hp w hw
  rcases hms p hp with rfl | rfl <;> simp [fGood, member, lookupAttr] at hw <;> subst hw <;> simp [HasTy]

/-- on a bank of good objects and null links the query's methods can only fault with `nullDeref` -/
theorem listFault_good_null (l : List (Val Int)) (hl : ∀ v ∈ l, v = .null ∨ ∃ d i, v = fGood d i)
    (ms : List (String × Ty)) (hms : ∀ p ∈ ms, p = ("d", .double) ∨ p = ("i", .int)) (f : Fault)
    (h : ListFault l ms f) : f = .nullDeref := by
  obtain ⟨v, hv, p, hp, hf⟩ := h
  rcases hl v hv with rfl | ⟨d, i, rfl⟩
  · simp only [member, Except.error.injEq] at hf; exact hf.symm
  · rcases hms p hp with rfl | rfl <;> simp [fGood, member, lookupAttr] at hf

/-- `e.As("ba").Where(a → a.d() > 1)` -/
def chW : Chain := ⟨"As", "ba", [.whr (.cmp .gt (.meth "d" .double) (.int 1))]⟩
/-- `ds.SelectMany(e → e.As("ba").Where(a → a.d() > 1)).Select(r → {i: r.i()})` -/
def qElem : FQ := .elemRows chW [("i", .meth "i" .int)]

theorem qElem_meths : ∀ p ∈ methsSteps chW.steps ++ methsCols [("i", PE.meth "i" .int)], p = ("d", Ty.double) ∨ p = ("i", Ty.int) := by
  intro p hp
  simp [chW, methsSteps, methsPE, methsCols] at hp
  rcases hp with rfl | rfl <;> simp

theorem qElem_hmt (ty : String) (l : List (Val Int)) (hl : ∀ v ∈ l, v = .null ∨ ∃ d i, v = fGood d i) :
    ∀ cty l', (qcOf ty ⟨[("ba", ty, .vec l)]⟩).ev.find chW.bank = some (cty, .vec l') →
      ∀ v ∈ l', MethTyped v (methsSteps chW.steps) ∧ ∀ p ∈ [("i", PE.meth "i" .int)], MethTyped v (methsPE p.2) := by
  intro cty l' hf v hv
  obtain ⟨_, h2⟩ := find_ba ty l cty _ hf
  simp only [Val.vec.injEq] at h2; subst h2
  rcases hl v hv with rfl | ⟨d, i, rfl⟩
  · exact ⟨methTyped_null _, fun p _ => methTyped_null _⟩
  · refine ⟨methTyped_good d i _ (by intro p hp; simp [chW, methsSteps, methsPE] at hp; exact Or.inl hp), ?_⟩
    intro p hp
    simp only [List.mem_singleton] at hp; subst hp
    exact methTyped_good d i _ (by intro p hp; simp [methsPE] at hp; exact Or.inr hp)

theorem bankTyped_ba (ty : String) (l : List (Val Int)) (c : Chain) (hc : c.coll = "As") (hb : c.bank = "ba") :
    BankTyped (qcOf ty ⟨[("ba", ty, .vec l)]⟩) c := by
  intro have_ content hf
  rw [hb] at hf
  obtain ⟨h1, h2⟩ := find_ba ty l have_ content hf
  subst h1; subst h2
  exact ⟨by simp [QCtx.collType, qcOf, QCtx.collType.go, hc], l, rfl⟩

theorem good_null_shape : ∀ v ∈ [fGood 2 3, (.null : Val Int)], v = .null ∨ ∃ d i, v = fGood d i := by
  intro v hv; simp at hv; rcases hv with rfl | rfl
  · exact Or.inr ⟨2, 3, rfl⟩
  · exact Or.inl rfl

theorem good_good_shape : ∀ v ∈ [fGood 2 3, fGood 5 7], v = .null ∨ ∃ d i, v = fGood d i := by
  intro v hv; simp at hv; rcases hv with rfl | rfl
  · exact Or.inr ⟨2, 3, rfl⟩
  · exact Or.inr ⟨5, 7, rfl⟩

/-- the query is undefined on the event with the null link (the `Where` condition dereferences it) … -/
theorem qElem_undefined : denoteRows (qcOf atlasTy (evNull atlasTy)) qElem.toQuery = .error .nullDeref := rfl

/-- … and `elemRows_faults_equal_partial` applies with all hypotheses discharged (ATLAS): the package
fails with exactly that fault; the row `[3]` of the good first element is NOT returned -/
example : runEvent (compile atlasB exNm exCn qElem) fNum (classInit (compile atlasB exNm exCn qElem).classVars) (evNull atlasTy) =
    .error .nullDeref :=
  elemRows_faults_equal_partial atlasB backendBase_atlas exNm exCn exNm_inj exCn_inj exNm_ne_result exCn_ne_result exNm_ne_exCn
    (qcOf atlasTy (evNull atlasTy)) (collT_atlas _) chW [("i", .meth "i" .int)] (by decide) (by decide)
    (qElem_hmt atlasTy _ good_null_shape) (bankTyped_ba atlasTy _ chW rfl rfl) (by decide)
    (by
      intro cty l hf f1 f2 h1 h2
      obtain ⟨_, hl⟩ := find_ba atlasTy _ cty _ hf
      simp only [Val.vec.injEq] at hl; subst hl
      rw [listFault_good_null _ good_null_shape _ qElem_meths f1 h1, listFault_good_null _ good_null_shape _ qElem_meths f2 h2])
    _ (fragPre_classInit atlasB exNm exCn exCn_inj exNm_ne_exCn qElem) _ qElem_undefined

/-- a missing bank on CMS miniAOD (retrieval through the token table `compile` emits): the query is
`retrieveFailed "ba"` and so is the package -/
example : runEvent (compile cmsMiniAodB exNm exCn qElem) fNum (classInit (compile cmsMiniAodB exNm exCn qElem).classVars) evMissing =
    .error (.retrieveFailed "ba") :=
  elemRows_faults_equal_partial cmsMiniAodB backendOK_cmsMiniAod exNm exCn exNm_inj exCn_inj exNm_ne_result exCn_ne_result exNm_ne_exCn
    (qcOf miniTy evMissing) (collT_mini _) chW [("i", .meth "i" .int)] (by decide) (by decide)
    (by intro cty l hf; simp [qcOf, evMissing, Event.find, Event.find.go] at hf)
    (by intro h c hf; simp [qcOf, evMissing, Event.find, Event.find.go] at hf) (by decide)
    (by intro cty l hf; simp [qcOf, evMissing, Event.find, Event.find.go] at hf)
    _ (fragPre_classInit cmsMiniAodB exNm exCn exCn_inj exNm_ne_exCn qElem) _ rfl

/-- `defined iff defined`, instantiated: on the event with the null link the package returns nothing -/
example : ¬ ∃ rows σ', runEvent (compile atlasB exNm exCn qElem) fNum (classInit (compile atlasB exNm exCn qElem).classVars) (evNull atlasTy) =
    .ok (rows, σ') := by
  intro h
  obtain ⟨rows, hd⟩ := (elemRows_defined_iff atlasB backendBase_atlas exNm exCn exNm_inj exCn_inj exNm_ne_result exCn_ne_result exNm_ne_exCn
    (qcOf atlasTy (evNull atlasTy)) (collT_atlas _) chW [("i", .meth "i" .int)] (by decide) (by decide)
    (qElem_hmt atlasTy _ good_null_shape) (bankTyped_ba atlasTy _ chW rfl rfl) (by decide)
    _ (fragPre_classInit atlasB exNm exCn exCn_inj exNm_ne_exCn qElem)).1 h
  rw [show denoteRows (qcOf atlasTy (evNull atlasTy)) (FQ.toQuery (.elemRows chW [("i", .meth "i" .int)])) = .error .nullDeref from rfl] at hd
  simp at hd

/-! ### event-level rows: `Sum` over a `Select` whose body faults (miniAOD) -/

/-- `e.As("ba").Select(a → a.i())` -/
def chS : Chain := ⟨"As", "ba", [.sel (.meth "i" .int)]⟩
/-- `ds.Select(e → {s: e.As("ba").Select(a → a.i()).Sum()})` — `Sum` adds every value: `strictSteps true` holds -/
def qSum : FQ := .eventRows [("s", .scalar (.sum chS))]

theorem chS_typed (ty : String) (l : List (Val Int)) (hl : ∀ v ∈ l, v = .null ∨ ∃ d i, v = fGood d i) :
    ChainTyped (qcOf ty ⟨[("ba", ty, .vec l)]⟩) chS := by
  intro cty l' hf v hv
  obtain ⟨_, h2⟩ := find_ba ty l cty _ hf
  simp only [Val.vec.injEq] at h2; subst h2
  rcases hl v hv with rfl | ⟨d, i, rfl⟩
  · exact methTyped_null _
  · exact methTyped_good d i _ (by intro p hp; simp [chS, methsSteps, methsPE] at hp; exact Or.inr hp)

theorem qSum_colHyp (ty : String) (l : List (Val Int)) (hl : ∀ v ∈ l, v = .null ∨ ∃ d i, v = fGood d i) :
    ∀ p ∈ [("s", Col.scalar (.sum chS))], ColHyp (qcOf ty ⟨[("ba", ty, .vec l)]⟩) p.2 := by
  intro p hp
  simp only [List.mem_singleton] at hp; subst hp
  refine ⟨by decide, ?_, ?_⟩
  · intro c hc; simp only [chainsEE, List.mem_singleton] at hc; subst hc; exact chS_typed ty l hl
  · intro c hc; simp only [sumChainsEE, List.mem_singleton] at hc; subst hc
    intro t ht hfl
    have : t = .int := by simpa [chS, chainTy, tyPE] using ht.symm
    subst this; simp [Ty.isFloating] at hfl

theorem qSum_faultHyp (ty : String) (l : List (Val Int)) :
    ∀ p ∈ [("s", Col.scalar (.sum chS))], ColFaultHyp (qcOf ty ⟨[("ba", ty, .vec l)]⟩) p.2 := by
  intro p hp
  simp only [List.mem_singleton] at hp; subst hp
  refine ⟨by decide, ?_⟩
  intro c hc; simp only [chainsEE, List.mem_singleton] at hc; subst hc
  exact bankTyped_ba ty l chS rfl rfl

theorem qSum_undefined : denoteRows (qcOf miniTy (evNull miniTy)) qSum.toQuery = .error .nullDeref := rfl

/-- `eventRows_faults_equal_partial` with all hypotheses discharged, CMS miniAOD: the `Select` body
faults on the null link, the query is undefined, the package fails with `nullDeref` — it does not
write the partial sum `3` -/
example : runEvent (compile cmsMiniAodB exNm exCn qSum) fNum (classInit (compile cmsMiniAodB exNm exCn qSum).classVars) (evNull miniTy) =
    .error .nullDeref := by
  have h := eventRows_faults_equal_partial cmsMiniAodB backendOK_cmsMiniAod exNm exCn exNm_inj exCn_inj exNm_ne_result exCn_ne_result
    exNm_ne_exCn (qcOf miniTy (evNull miniTy)) (collT_mini _) [("s", .scalar (.sum chS))]
    (qSum_colHyp miniTy _ good_null_shape) (qSum_faultHyp miniTy _)
    (by
      intro p hp c hc cty l hf f1 f2 h1 h2
      simp only [List.mem_singleton] at hp; subst hp
      simp only [chainsCol, chainsEE, List.mem_singleton] at hc; subst hc
      obtain ⟨_, hl⟩ := find_ba miniTy _ cty _ hf
      simp only [Val.vec.injEq] at hl; subst hl
      have hms : ∀ p ∈ methsSteps chS.steps, p = ("d", Ty.double) ∨ p = ("i", Ty.int) := by
        intro p hp; simp [chS, methsSteps, methsPE] at hp; exact Or.inr hp
      rw [listFault_good_null _ good_null_shape _ hms f1 h1, listFault_good_null _ good_null_shape _ hms f2 h2])
    _ (fragPre_classInit cmsMiniAodB exNm exCn exCn_inj exNm_ne_exCn qSum) _ qSum_undefined
  rcases h with h | ⟨h, _⟩
  · exact h
  · simp at h

/-! ### `First()` over a sequence empty after its filters, on miniAOD -/

/-- `e.As("ba").Where(a → a.d() > 100).Select(a → a.d())` keeps nothing on `evGood` -/
def chEmpty : Chain := ⟨"As", "ba", [.whr (.cmp .gt (.meth "d" .double) (.int 100)), .sel (.meth "d" .double)]⟩

example : runEvent (compile cmsMiniAodB exNm exCn (.eventRows [("x", .first chEmpty)])) fNum
    (classInit (compile cmsMiniAodB exNm exCn (.eventRows [("x", .first chEmpty)])).classVars) (evGood miniTy) = .error (.loud firstMsg) :=
  (event_first_empty_loud_all_backends cmsMiniAodB backendOK_cmsMiniAod exNm exCn exNm_inj exCn_inj exNm_ne_result exCn_ne_result
    exNm_ne_exCn (qcOf miniTy (evGood miniTy)) (collT_mini _) [] "x" chEmpty [] (by intro p hp; simp at hp)
    ⟨by decide, by
      intro cty l hf v hv
      obtain ⟨_, h2⟩ := find_ba miniTy _ cty _ hf
      simp only [Val.vec.injEq] at h2; subst h2
      rcases good_good_shape v hv with rfl | ⟨d, i, rfl⟩
      · exact methTyped_null _
      · exact methTyped_good d i _ (by intro p hp; simp [chEmpty, methsSteps, methsPE] at hp; exact Or.inl hp),
     by intro cty content hf; obtain ⟨_, h2⟩ := find_ba miniTy _ cty content hf; exact ⟨_, h2⟩⟩
    _ (fragPre_classInit cmsMiniAodB exNm exCn exCn_inj exNm_ne_exCn (.eventRows [("x", .first chEmpty)])) [] rfl rfl).1

/-! ### the job -/

theorem qElem_fragHyp (ty : String) (l : List (Val Int)) (hl : ∀ v ∈ l, v = .null ∨ ∃ d i, v = fGood d i) :
    FragHyp (qcOf ty ⟨[("ba", ty, .vec l)]⟩) qElem :=
  ⟨by decide, by decide, qElem_hmt ty l hl⟩

/-- three events: good, null link, good. The job ends with the second event's fault; when it ended,
exactly the two rows of the FIRST event had been written — nothing of the second or third. -/
example : ∃ f', runJob (compile atlasB exNm exCn qElem) fNum [evGood atlasTy, evNull atlasTy, evGood atlasTy] = .error f' ∧
    runJobPartial (compile atlasB exNm exCn qElem) fNum (classInit (compile atlasB exNm exCn qElem).classVars)
      [evGood atlasTy, evNull atlasTy, evGood atlasTy] = ([[.int 3], [.int 7]], some f') := by
  obtain ⟨f', h1, h2, _⟩ := job_stops_at_first_undefined_event atlasB backendBase_atlas exNm exCn exNm_inj exCn_inj exNm_ne_result
    exCn_ne_result exNm_ne_exCn (qcOf atlasTy (evGood atlasTy)) (collT_atlas _) qElem [evGood atlasTy] (evNull atlasTy) [evGood atlasTy]
    (by intro e he; simp only [List.mem_singleton] at he; subst he; exact qElem_fragHyp atlasTy _ good_good_shape)
    (by intro e he; simp only [List.mem_singleton] at he; subst he; exact ⟨[[.int 3], [.int 7]], rfl⟩)
    (qElem_fragHyp atlasTy _ good_null_shape) ⟨bankTyped_ba atlasTy _ chW rfl rfl, by decide⟩ .nullDeref rfl
  exact ⟨f', h1, h2⟩

/-! ### why `strictSteps` is there: the emitted code is lazier than the eager query -/

/-- `e.As("ba").Select(a → a.d())` -/
def chD : Chain := ⟨"As", "ba", [.sel (.meth "d" .double)]⟩

/-- **C04.count_unforced_select_counterexample** — `ds.Select(e → {n: e.As("ba").Select(a → a.d()).Count()})`
on the event with a null link: the (eager) query is undefined — `Select` calls `d()` on every element —
but the emitted loop only counts: the `Select` body is inlined into what follows it, and `Count` does
not mention the value, so `d()` is never called and the package writes the row `[2]`. All other
hypotheses of `eventRows_fault_partial` hold (`ColHyp`, `BankTyped`); `eeStrict` is false. The
value written is not a default or a stale one: it is the count of the sequence. -/
theorem count_unforced_select_counterexample :
    denoteRows (qcOf atlasTy (evNull atlasTy)) (FQ.toQuery (.eventRows [("n", .scalar (.count chD))])) = .error .nullDeref ∧
    (∃ σ', runEvent (compile atlasB exNm exCn (.eventRows [("n", .scalar (.count chD))])) fNum
      (classInit (compile atlasB exNm exCn (.eventRows [("n", .scalar (.count chD))])).classVars) (evNull atlasTy) = .ok ([[.int 2]], σ')) ∧
    eeStrict (.count chD) = false ∧ wtEE (.count chD) = true ∧ BankTyped (qcOf atlasTy (evNull atlasTy)) chD :=
  ⟨rfl, ⟨_, rfl⟩, rfl, rfl, bankTyped_ba atlasTy _ chD rfl rfl⟩

/-- **C04.first_later_fault_counterexample** — `ds.Select(e → {x: e.As("ba").Select(a → a.d()).First()})`
on the same event: the eager query maps `d()` over ALL elements and is undefined; the emitted idiom
captures the value of the FIRST kept element only (`if (is_first) { is_first = false; x = i->d(); }`),
so the null link behind it is never dereferenced and the package writes the first element's value —
`First()` as lazy as LINQ's. `strictSteps false` is false for this chain. -/
theorem first_later_fault_counterexample :
    denoteRows (qcOf atlasTy (evNull atlasTy)) (FQ.toQuery (.eventRows [("x", .first chD)])) = .error .nullDeref ∧
    (∃ σ', runEvent (compile atlasB exNm exCn (.eventRows [("x", .first chD)])) fNum
      (classInit (compile atlasB exNm exCn (.eventRows [("x", .first chD)])).classVars) (evNull atlasTy) = .ok ([[.dbl 2]], σ')) ∧
    strictSteps false chD.steps = false :=
  ⟨rfl, ⟨_, rfl⟩, rfl⟩

/-- … while with the null link FIRST the same package fails, as the query does (the capture of the
first kept element evaluates `d()`): the idiom never substitutes a default for it -/
example : ∃ f, runEvent (compile atlasB exNm exCn (.eventRows [("x", .first chD)])) fNum
    (classInit (compile atlasB exNm exCn (.eventRows [("x", .first chD)])).classVars)
    ⟨[("ba", atlasTy, .vec [.null, fGood 2 3])]⟩ = .error f := ⟨.nullDeref, rfl⟩

end FaxVerif.C04
