/-
C04 — the statement shapes the translator emits for Python's lazy operators inside expressions
(`visit_BoolOp`, `visit_IfExp`), with operands that may themselves need statements (loops for
`Count()`, the `First()` idiom, nested lowerings):

  a and b     preA;  r = a;  if (r)  { preB; r = b; }
  a or b      preA;  r = a;  if (!r) { preB; r = b; }
  a or b or c   …the same, followed by   if (!r) { preC; r = c; }   (one more guarded step per operand)
  x if c else y      preC;  if (c) { preX; r = x; } else { preY; r = y; }

`countShapes` recognises these shapes in a parsed program (run by the driver on the
IMPLEMENTATION's output: the number of recognised shapes is compared with the number of
`and` / `or` / `if-else` nodes of the query on every generated case).
No Mathlib; computable.
-/
import FaxVerif.Cpp.Sem
namespace FaxVerif.C04
open FaxVerif.Cpp

def andShape (r : String) (preA : List Stmt) (a : CExpr) (body : List Stmt) : List Stmt :=
  preA ++ [.set r a, .ite (.var r) body []]

def orShape (r : String) (preA : List Stmt) (a : CExpr) (body : List Stmt) : List Stmt :=
  preA ++ [.set r a, .ite (.un "!" (.var r)) body []]

def iteShape (preC : List Stmt) (c : CExpr) (thn els : List Stmt) : List Stmt :=
  preC ++ [.ite c thn els]

/-- the usual body of the second operand / of an arm: its own statements, then the assignment -/
def thenSet (pre : List Stmt) (r : String) (e : CExpr) : List Stmt := pre ++ [.set r e]

mutual
  /-- does the statement assign `r` somewhere (the assignment of a second operand that contains a
  `First()` sits inside that First's guarded block, followed by the emptiness check) -/
  def assigns (r : String) : Stmt → Bool
    | .set x _ => x == r
    | .block body => assignsL r body
    | .loop _ _ body => assignsL r body
    | .ite _ thn els => assignsL r thn || assignsL r els
    | _ => false
  def assignsL (r : String) : List Stmt → Bool
    | [] => false
    | st :: rest => assigns r st || assignsL r rest
end

structure Shapes where
  ands : Nat := 0
  ors : Nat := 0
  ites : Nat := 0
deriving Repr, DecidableEq

def Shapes.add (a b : Shapes) : Shapes := ⟨a.ands + b.ands, a.ors + b.ors, a.ites + b.ites⟩

mutual
  /-- the variables a statement assigns somewhere inside it -/
  def assigned : Stmt → List String
    | .set x _ => [x]
    | .block body => assignedL body
    | .loop _ _ body => assignedL body
    | .ite _ thn els => assignedL thn ++ assignedL els
    | _ => []
  def assignedL : List Stmt → List String
    | [] => []
    | st :: rest => assigned st ++ assignedL rest
end

/-- is `st` the guarded later operand of an and / or lowering — `if (r) {…r = b…}` / `if (!r) {…r = b…}` where the
result variable `r` has been assigned by an EARLIER statement of the same list (plainly, inside the guard of a
`First()` that the first operand contains, or by an earlier operand of the chain)?  Is it a two-armed conditional
(only `x if c else y` produces an `else`)? -/
def classify (seen : List String) (st : Stmt) : Shapes :=
  match st with
  | .ite (.var r) thn [] => if r ∈ seen ∧ assignsL r thn then ⟨1, 0, 0⟩ else {}
  | .ite (.un "!" (.var r)) thn [] => if r ∈ seen ∧ assignsL r thn then ⟨0, 1, 0⟩ else {}
  | .ite _ _ (_ :: _) => ⟨0, 0, 1⟩
  | _ => {}

mutual
  def countShapes : Stmt → Shapes
    | .block body => countShapesL [] body
    | .loop _ _ body => countShapesL [] body
    | .ite _ thn els => (countShapesL [] thn).add (countShapesL [] els)
    | _ => {}
  def countShapesL (seen : List String) : List Stmt → Shapes
    | [] => {}
    | st :: rest => ((classify seen st).add (countShapes st)).add (countShapesL (seen ++ assigned st) rest)
end

end FaxVerif.C04
