/-
C04 — the statement shapes the translator emits for Python's lazy operators inside expressions
(`visit_BoolOp`, `visit_IfExp`), with operands that may themselves need statements (loops for
`Count()`, the `First()` idiom, nested lowerings):

  a and b     preA;  r = a;  if (r)  { preB; r = b; }
  a or b      preA;  r = a;  if (!r) { preB; r = b; }
  a or b or c   …the same, followed by   if (!r) { preC; r = c; }   (one more guarded step per operand)
  x if c else y      preC;  if (c) { preX; r = x; } else { preY; r = y; }

`countShapes` recognises these shapes in a parsed program (run by the driver on the
IMPLEMENTATION's output: the number of recognised shapes is compared with the number of
`and` / `or` / `if-else` nodes of the query on every generated case).
No Mathlib; computable.
-/
import FaxVerif.Cpp.Sem
namespace FaxVerif.C04
open FaxVerif.Cpp

def andShape (r : String) (preA : List Stmt) (a : CExpr) (body : List Stmt) : List Stmt :=
  preA ++ [.set r a, .ite (.var r) body []]

def orShape (r : String) (preA : List Stmt) (a : CExpr) (body : List Stmt) : List Stmt :=
  preA ++ [.set r a, .ite (.un "!" (.var r)) body []]

def iteShape (preC : List Stmt) (c : CExpr) (thn els : List Stmt) : List Stmt :=
  preC ++ [.ite c thn els]

/-- the usual body of the second operand / of an arm: its own statements, then the assignment -/
def thenSet (pre : List Stmt) (r : String) (e : CExpr) : List Stmt := pre ++ [.set r e]

mutual
  /-- does the statement assign `r` somewhere (the assignment of a second operand that contains a
  `First()` sits inside that First's guarded block, followed by the emptiness check) -/
  def assigns (r : String) : Stmt → Bool
    | .set x _ => x == r
    | .block body => assignsL r body
    | .loop _ _ body => assignsL r body
    | .ite _ thn els => assignsL r thn || assignsL r els
    | _ => false
  def assignsL (r : String) : List Stmt → Bool
    | [] => false
    | st :: rest => assigns r st || assignsL r rest
end

structure Shapes where
  ands : Nat := 0
  ors : Nat := 0
  ites : Nat := 0
deriving Repr, DecidableEq

def Shapes.add (a b : Shapes) : Shapes := ⟨a.ands + b.ands, a.ors + b.ors, a.ites + b.ites⟩

/-- is `st`, coming right after an assignment to `prev`, the guarded second half of an and / or
lowering?  Is it a two-armed conditional (only `x if c else y` produces an `else`)? -/
def classify (prev : Option String) (st : Stmt) : Shapes :=
  match st with
  | .ite (.var r) thn [] => if prev = some r ∧ assignsL r thn then ⟨1, 0, 0⟩ else {}
  | .ite (.un "!" (.var r)) thn [] => if prev = some r ∧ assignsL r thn then ⟨0, 1, 0⟩ else {}
  | .ite _ _ (_ :: _) => ⟨0, 0, 1⟩
  | _ => {}

/-- the result variable a statement has just (possibly) assigned: a plain assignment, or an earlier
guarded operand of the same chain (`a or b or c` is `r = a; if (!r) {…r = b…} if (!r) {…r = c…}`) -/
def setOf : Stmt → Option String
  | .set r _ => some r
  | .ite (.var r) thn [] => if assignsL r thn then some r else none
  | .ite (.un "!" (.var r)) thn [] => if assignsL r thn then some r else none
  | _ => none

mutual
  def countShapes : Stmt → Shapes
    | .block body => countShapesL none body
    | .loop _ _ body => countShapesL none body
    | .ite _ thn els => (countShapesL none thn).add (countShapesL none els)
    | _ => {}
  def countShapesL (prev : Option String) : List Stmt → Shapes
    | [] => {}
    | st :: rest => ((classify prev st).add (countShapes st)).add (countShapesL (setOf st) rest)
end

end FaxVerif.C04
