/-
C04 — faults are equivalent and evaluation is exactly as lazy as the query: element-level
expressions with Python's lazy operators, as the translator lowers them to statements
(`Gen.compLE`, lean/FaxVerif/Gen/Lazy.lean; tied to the real translator by tools/gentie_lazy.py).

`runFrag C F s` = run the fragment's statements from `s`, then evaluate its value expression.
`ElemFault v f` = `f` is the fault of some member call on the element `v` (in the event data model
a method call on the element may return a fault: a null element, a missing accessor).

  * `lazy_expr_faults_equal`: the emitted code faults exactly when the query expression faults —
    never spurious, never swallowed — every fault on either side is a member fault of the element,
    and when the element has only one way to fault (a null element) it is the SAME fault.
    (Which of SEVERAL different member faults is reported may differ: the translator emits an
    operand's statements before the enclosing expression, so in `j.f() + (x if j.g() else y)` the
    fault of `g` is met before the fault of `f`, Python meets `f` first. Stated, not hidden.)
  * `and_guard_protects` / `or_guard_protects` / `untaken_arm_protected`: the laziness itself, on
    the compiled code of ARBITRARY operands: behind a false `and`-operand / a true `or`-operand /
    in the untaken arm nothing is executed, whatever it would do (including faulting).
  * `fused_where_lazy`: consecutive `Where`s with lazy conditions.
-/
import FaxVerif.Gen.LazyElemRowsCorrect
namespace FaxVerif.C04
open FaxVerif.Cpp FaxVerif.Linq FaxVerif.Gen
variable {D : Type}

/-- **C04.lazy_expr_faults_equal** — for every well-typed lazy expression, in every state in which the
fragment's declarations are done and the current value is `v`:
(1) the emitted code raises a fault iff the query expression does (no spurious fault: in particular
no fault of a skipped operand / untaken arm; no swallowed fault);
(2) a fault of the query and (3) a fault of the code are member faults of the element;
(4) if all member faults of the element are one and the same fault, the code raises exactly the
query's fault. -/
theorem lazy_expr_faults_equal (C : Ctx D) (QC : QCtx D) (hN : QC.N = C.N) (nm : Nat → String)
    (hinj : ∀ i j, nm i = nm j → i = j) (ptr : Bool) (cur : CExpr) (curTy : Option Ty) (v : Val D)
    (x : String) (ρ : LEnv D) (hty : ∀ t, curTy = some t → HasTy v t)
    (le : LE) (k : Nat) (hwt : wtLE curTy le = true) (hmt : MethTyped v (methsLE le))
    (hfr : ∀ y ∈ vars cur, ∀ j, k ≤ j → y ≠ nm j)
    (σ : Env D) (rows : List (List (Val D))) (hcur : evalE C.N σ cur = .ok v)
    (hdecl : Declared σ (compLE nm ptr cur (curT curTy) le k).decls) :
    ((∃ f', runFrag C (compLE nm ptr cur (curT curTy) le k) ⟨σ, rows⟩ = .error f') ↔
      (∃ f, denote QC ((x, v) :: ρ) (leQ x le) = .error f)) ∧
    (∀ f, denote QC ((x, v) :: ρ) (leQ x le) = .error f → ElemFault v f) ∧
    (∀ f', runFrag C (compLE nm ptr cur (curT curTy) le k) ⟨σ, rows⟩ = .error f' → ElemFault v f') ∧
    ((∀ f1 f2, ElemFault v f1 → ElemFault v f2 → f1 = f2) →
      ∀ f, runFrag C (compLE nm ptr cur (curT curTy) le k) ⟨σ, rows⟩ = .error f ↔
        denote QC ((x, v) :: ρ) (leQ x le) = .error f) := by
  have hF := fun f hden => le_faults C QC hN nm hinj ptr cur curTy v x ρ hty le k hwt hmt hfr σ rows hcur hdecl f hden
  have hS := fun f' hrun => le_no_spurious C QC hN nm hinj ptr cur curTy v x ρ hty le k hwt hmt hfr σ rows hcur hdecl f' hrun
  have hrunEF : ∀ f', runFrag C (compLE nm ptr cur (curT curTy) le k) ⟨σ, rows⟩ = .error f' → ElemFault v f' := by
    intro f' hrun
    obtain ⟨f, hden⟩ := hS f' hrun
    obtain ⟨_, f'', hrun', hef⟩ := hF f hden
    rw [hrun] at hrun'
    simp only [Except.error.injEq] at hrun'
    rw [hrun']; exact hef
  refine ⟨⟨fun ⟨f', h⟩ => hS f' h, fun ⟨f, h⟩ => let ⟨_, f', h', _⟩ := hF f h; ⟨f', h'⟩⟩, fun f h => (hF f h).1, hrunEF, ?_⟩
  intro huniq f
  constructor
  · intro hrun
    obtain ⟨f0, hden⟩ := hS f hrun
    rw [hden, huniq f f0 (hrunEF f hrun) (hF f0 hden).1]
  · intro hden
    obtain ⟨hef, f', hrun, hef'⟩ := hF f hden
    rw [hrun, huniq f f' hef hef']

/-- **C04.lazy_expr_faults_equal_null** — on a null element (every member call dereferences null) the
emitted code raises exactly the query's fault, and only where the query raises it. -/
theorem lazy_expr_faults_equal_null (C : Ctx D) (QC : QCtx D) (hN : QC.N = C.N) (nm : Nat → String)
    (hinj : ∀ i j, nm i = nm j → i = j) (ptr : Bool) (cur : CExpr) (x : String) (ρ : LEnv D)
    (le : LE) (k : Nat) (hwt : wtLE none le = true)
    (hfr : ∀ y ∈ vars cur, ∀ j, k ≤ j → y ≠ nm j)
    (σ : Env D) (rows : List (List (Val D))) (hcur : evalE C.N σ cur = .ok .null)
    (hdecl : Declared σ (compLE nm ptr cur (curT none) le k).decls) (f : Fault) :
    runFrag C (compLE nm ptr cur (curT none) le k) ⟨σ, rows⟩ = .error f ↔
      denote QC ((x, .null) :: ρ) (leQ x le) = .error f := by
  have hmt : MethTyped (D := D) .null (methsLE le) := by
    intro p _ w hw; simp [member] at hw
  have huniq : ∀ f1 f2, ElemFault (D := D) .null f1 → ElemFault (D := D) .null f2 → f1 = f2 := by
    rintro f1 f2 ⟨n1, h1⟩ ⟨n2, h2⟩
    simp only [member, Except.error.injEq] at h1 h2
    rw [← h1, ← h2]
  exact (lazy_expr_faults_equal C QC hN nm hinj ptr cur none .null x ρ (by simp) le k hwt hmt hfr σ rows hcur hdecl).2.2.2 huniq f

/-- shared form of the two guard theorems: a chain decided by its first operand -/
theorem bop_guard_protects (C : Ctx D) (QC : QCtx D) (hN : QC.N = C.N) (nm : Nat → String)
    (hinj : ∀ i j, nm i = nm j → i = j) (ptr : Bool) (cur : CExpr) (curTy : Option Ty) (v : Val D)
    (x : String) (ρ : LEnv D) (hty : ∀ t, curTy = some t → HasTy v t)
    (op : LOp) (a b : LE) (rest : List LE) (k : Nat) (hwt : wtLE curTy (.bop op a (b :: rest)) = true)
    (hmt : MethTyped v (methsLE (.bop op a (b :: rest))))
    (hfr : ∀ y ∈ vars cur, ∀ j, k ≤ j → y ≠ nm j)
    (σ : Env D) (rows : List (List (Val D))) (hcur : evalE C.N σ cur = .ok v)
    (hdecl : Declared σ (compLE nm ptr cur (curT curTy) (.bop op a (b :: rest)) k).decls)
    (va : Val D) (acc : Bool) (ha : denote QC ((x, v) :: ρ) (leQ x a) = .ok va) (hacc : asBool QC.N va = some acc)
    (hruns : op.runs acc = false) :
    ∃ σ', execs C (compLE nm ptr cur (curT curTy) (.bop op a (b :: rest)) k).stmts ⟨σ, rows⟩ = .ok ⟨σ', rows⟩ ∧
      evalE C.N σ' (compLE nm ptr cur (curT curTy) (.bop op a (b :: rest)) k).val = .ok (.bool acc) ∧
      (∀ y, ¬ InRange nm k (compLE nm ptr cur (curT curTy) (.bop op a (b :: rest)) k).next y → σ' y = σ y) := by
  have hden := bop_decided QC ((x, v) :: ρ) x op a b rest va acc ha hacc hruns
  obtain ⟨σ', h1, h2, h3, _⟩ := le_correct C QC hN nm hinj ptr cur curTy v x ρ hty _ k hwt hmt hfr σ rows hcur hdecl _ hden
  exact ⟨σ', h1, h2, h3⟩

/-- **C04.and_guard_protects** — in `a and b and …` with `a` false, NO fault of `b` (or of any later
operand) is raised: for arbitrary operand expressions — whose compiled forms may be statements,
nested lowerings, faulting member calls — the emitted code terminates normally with the result
variable holding `false`, touching only its own fresh names. Nothing is assumed about what `b …`
denote: they may fault. (`j.ok() and j.link().pt() > 5` is safe on elements whose link is null.) -/
theorem and_guard_protects (C : Ctx D) (QC : QCtx D) (hN : QC.N = C.N) (nm : Nat → String)
    (hinj : ∀ i j, nm i = nm j → i = j) (ptr : Bool) (cur : CExpr) (curTy : Option Ty) (v : Val D)
    (x : String) (ρ : LEnv D) (hty : ∀ t, curTy = some t → HasTy v t)
    (a b : LE) (rest : List LE) (k : Nat) (hwt : wtLE curTy (.bop .and a (b :: rest)) = true)
    (hmt : MethTyped v (methsLE (.bop .and a (b :: rest))))
    (hfr : ∀ y ∈ vars cur, ∀ j, k ≤ j → y ≠ nm j)
    (σ : Env D) (rows : List (List (Val D))) (hcur : evalE C.N σ cur = .ok v)
    (hdecl : Declared σ (compLE nm ptr cur (curT curTy) (.bop .and a (b :: rest)) k).decls)
    (va : Val D) (ha : denote QC ((x, v) :: ρ) (leQ x a) = .ok va) (hfalse : asBool QC.N va = some false) :
    ∃ σ', execs C (compLE nm ptr cur (curT curTy) (.bop .and a (b :: rest)) k).stmts ⟨σ, rows⟩ = .ok ⟨σ', rows⟩ ∧
      evalE C.N σ' (compLE nm ptr cur (curT curTy) (.bop .and a (b :: rest)) k).val = .ok (.bool false) ∧
      (∀ y, ¬ InRange nm k (compLE nm ptr cur (curT curTy) (.bop .and a (b :: rest)) k).next y → σ' y = σ y) :=
  bop_guard_protects C QC hN nm hinj ptr cur curTy v x ρ hty .and a b rest k hwt hmt hfr σ rows hcur hdecl va false ha hfalse rfl

/-- **C04.or_guard_protects** — the dual: in `a or b or …` with `a` true no later operand is executed. -/
theorem or_guard_protects (C : Ctx D) (QC : QCtx D) (hN : QC.N = C.N) (nm : Nat → String)
    (hinj : ∀ i j, nm i = nm j → i = j) (ptr : Bool) (cur : CExpr) (curTy : Option Ty) (v : Val D)
    (x : String) (ρ : LEnv D) (hty : ∀ t, curTy = some t → HasTy v t)
    (a b : LE) (rest : List LE) (k : Nat) (hwt : wtLE curTy (.bop .or a (b :: rest)) = true)
    (hmt : MethTyped v (methsLE (.bop .or a (b :: rest))))
    (hfr : ∀ y ∈ vars cur, ∀ j, k ≤ j → y ≠ nm j)
    (σ : Env D) (rows : List (List (Val D))) (hcur : evalE C.N σ cur = .ok v)
    (hdecl : Declared σ (compLE nm ptr cur (curT curTy) (.bop .or a (b :: rest)) k).decls)
    (va : Val D) (ha : denote QC ((x, v) :: ρ) (leQ x a) = .ok va) (htrue : asBool QC.N va = some true) :
    ∃ σ', execs C (compLE nm ptr cur (curT curTy) (.bop .or a (b :: rest)) k).stmts ⟨σ, rows⟩ = .ok ⟨σ', rows⟩ ∧
      evalE C.N σ' (compLE nm ptr cur (curT curTy) (.bop .or a (b :: rest)) k).val = .ok (.bool true) ∧
      (∀ y, ¬ InRange nm k (compLE nm ptr cur (curT curTy) (.bop .or a (b :: rest)) k).next y → σ' y = σ y) :=
  bop_guard_protects C QC hN nm hinj ptr cur curTy v x ρ hty .or a b rest k hwt hmt hfr σ rows hcur hdecl va true ha htrue rfl

/-- **C04.untaken_arm_protected** — `p if c else q`: with `c` true the result is `p`'s value whatever
`q` would do, with `c` false it is `q`'s whatever `p` would do: the untaken arm's statements are not
executed. -/
theorem untaken_arm_protected (C : Ctx D) (QC : QCtx D) (hN : QC.N = C.N) (nm : Nat → String)
    (hinj : ∀ i j, nm i = nm j → i = j) (ptr : Bool) (cur : CExpr) (curTy : Option Ty) (v : Val D)
    (x : String) (ρ : LEnv D) (hty : ∀ t, curTy = some t → HasTy v t)
    (c p q : LE) (k : Nat) (hwt : wtLE curTy (.ite c p q) = true) (hmt : MethTyped v (methsLE (.ite c p q)))
    (hfr : ∀ y ∈ vars cur, ∀ j, k ≤ j → y ≠ nm j)
    (σ : Env D) (rows : List (List (Val D))) (hcur : evalE C.N σ cur = .ok v)
    (hdecl : Declared σ (compLE nm ptr cur (curT curTy) (.ite c p q) k).decls)
    (vc : Val D) (bc : Bool) (hc : denote QC ((x, v) :: ρ) (leQ x c) = .ok vc) (hbc : asBool QC.N vc = some bc)
    (w : Val D) (harm : denote QC ((x, v) :: ρ) (leQ x (if bc then p else q)) = .ok w) :
    ∃ σ', execs C (compLE nm ptr cur (curT curTy) (.ite c p q) k).stmts ⟨σ, rows⟩ = .ok ⟨σ', rows⟩ ∧
      evalE C.N σ' (compLE nm ptr cur (curT curTy) (.ite c p q) k).val = .ok w ∧
      (∀ y, ¬ InRange nm k (compLE nm ptr cur (curT curTy) (.ite c p q) k).next y → σ' y = σ y) := by
  have hden : denote QC ((x, v) :: ρ) (leQ x (.ite c p q)) = .ok w := by
    simp only [leQ]
    rw [denote_ite, hc]
    cases bc <;> simpa [iteRes, hbc] using harm
  obtain ⟨σ', h1, h2, h3, _⟩ := le_correct C QC hN nm hinj ptr cur curTy v x ρ hty _ k hwt hmt hfr σ rows hcur hdecl _ hden
  exact ⟨σ', h1, h2, h3⟩

/-- **C04.fused_where_lazy** — consecutive `Where`s with lazy conditions (func_adl fuses them into
nested `and`s; `Gen.andLowerL`): given that the conditions, in order, evaluate lazily to `b`
(`CondsEvalR`: a condition is required to be defined only if all earlier ones were true), the lowered
code is sound for a value of truth value `b` — a later condition's statements run only behind the
earlier ones' guards. -/
theorem fused_where_lazy (C : Ctx D) (nm : Nat → String) (EF : Fault → Prop) (Pre : Env D → Prop) (n0 : Nat)
    (hst : Stable nm n0 Pre) (rc : List CondL) (n : Nat) (b : Bool) (hn : n0 ≤ n)
    (h : CondsEvalR (CondOK C nm EF Pre n0) C.N rc b) :
    ∃ w, asBool C.N w = some b ∧ HasTy w (andLowerL nm rc n).2 ∧ Sound C nm EF Pre n (andLowerL nm rc n).1 (.ok w) :=
  andLowerL_correct C nm EF Pre n0 hst rc n b hn h

/-! ### non-vacuity -/

/-- an element on which `g()` faults (the accessor is missing) and `b()` is false -/
def exElem : Val D := .obj "Aa" [("b", .bool false), ("i", .int 3)]

/-- `j.b() and j.g() > 1`: the second operand faults on `exElem` … -/
example (QC : QCtx D) : ∃ f, denote QC [("x", exElem)] (leQ "x" (.cmp .gt (.meth "g" .double) (.int 1))) = .error f := by
  simp [leQ, denote, LEnv.get, exElem, member, lookupAttr]

/-- … and the conjunction is nevertheless defined (false): the hypotheses of `and_guard_protects` are satisfiable
with a FAULTING second operand -/
example (QC : QCtx D) :
    denote QC [("x", (exElem : Val D))] (leQ "x" (.meth "b" .bool)) = .ok (.bool false) ∧
    wtLE none (.bop .and (.meth "b" .bool) [.cmp .gt (.meth "g" .double) (.int 1)]) = true ∧
    denote QC [("x", (exElem : Val D))] (leQ "x" (.bop .and (.meth "b" .bool) [.cmp .gt (.meth "g" .double) (.int 1)])) = .ok (.bool false) := by
  refine ⟨by simp [leQ, denote, LEnv.get, exElem, member, lookupAttr], by decide, ?_⟩
  simp [leQ, bopQ, LOp.q, denote, LEnv.get, exElem, member, lookupAttr, asBool]

/-- nested lazy operators inside a conditional inside arithmetic are well-typed -/
example : wtLE none (.bin .mul (.ite (.bop .or (.meth "b" .bool) [.bop .and (.cmp .gt (.meth "i" .int) (.int 0)) [.meth "b" .bool, .not (.meth "b" .bool)]])
    (.meth "d" .double) (.neg (.meth "f" .float))) (.int 2)) = true := by decide

/-- the uniform-fault hypothesis of `lazy_expr_faults_equal` (4) holds for a null element -/
example (f1 f2 : Fault) (h1 : ElemFault (D := D) .null f1) (h2 : ElemFault (D := D) .null f2) : f1 = f2 := by
  obtain ⟨_, h1⟩ := h1; obtain ⟨_, h2⟩ := h2
  simp only [member, Except.error.injEq] at h1 h2
  rw [← h1, ← h2]

end FaxVerif.C04
