/- C15 — everything the check builds and audits. -/
import FaxVerif.C15.Theorems
import FaxVerif.C15.OrderTheorems
import FaxVerif.C15.RefusalTheorems
import FaxVerif.C15.ExecTheorems
