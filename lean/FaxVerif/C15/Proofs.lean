/-
C15 — helper lemmas. Property theorems are in `Theorems.lean`.
-/
import Batteries.Data.List.Perm
import FaxVerif.C15.Spec
namespace FaxVerif.C15

/-! ## the table built from a prefix of the blocks -/

/-- What the table means, relative to the blocks `pre` processed so far. -/
structure TblInv (pre : List JB) (t : Tbl) : Prop where
  nodup : t.names.Nodup
  mem_iff : ∀ n, n ∈ t.names ↔ n ∈ names pre
  script : ∀ e ∈ t, e.script = scriptOf pre e.name
  deps : ∀ e ∈ t, e.deps = depsOf pre e.name
  noconf : ¬ Conflict pre

theorem names_append (a b : List JB) : names (a ++ b) = names a ++ names b := by
  simp [names]

theorem get?_none_iff (t : Tbl) (n : String) : t.get? n = none ↔ n ∉ t.names := by
  simp [Tbl.get?, Tbl.names, List.find?_eq_none]

theorem get?_some (t : Tbl) (n : String) (e : Entry) (h : t.get? n = some e) : e ∈ t ∧ e.name = n := by
  unfold Tbl.get? at h
  have := List.find?_some h
  exact ⟨List.mem_of_find?_eq_some h, by simpa using this⟩

theorem scriptOf_append_of_mem (pre : List JB) (b : JB) (n : String) (h : n ∈ names pre) :
    scriptOf (pre ++ [b]) n = scriptOf pre n := by
  unfold scriptOf
  rw [List.find?_append]
  have : ∃ x ∈ pre, x.name = n := by simpa [names] using h
  obtain ⟨x, hx, hn⟩ := this
  cases hf : pre.find? (fun b => b.name == n) with
  | none =>
    rw [List.find?_eq_none] at hf
    exact absurd (by simpa using hn) (hf x hx)
  | some y => simp

theorem scriptOf_append_of_not_mem (pre : List JB) (b : JB) (n : String) (h : n ∉ names pre) :
    scriptOf (pre ++ [b]) n = if b.name = n then b.script else [] := by
  unfold scriptOf
  rw [List.find?_append]
  have hf : pre.find? (fun b => b.name == n) = none := by
    rw [List.find?_eq_none]
    intro x hx hxn
    exact h (by simp [names]; exact ⟨x, hx, by simpa using hxn⟩)
  rw [hf]
  by_cases hb : b.name = n <;> simp [hb]

theorem depsOf_append (pre : List JB) (b : JB) (n : String) :
    depsOf (pre ++ [b]) n = depsOf pre n ++ (if b.name = n then b.deps else []) := by
  unfold depsOf
  rw [List.filter_append, List.flatMap_append]
  by_cases hb : b.name = n <;> simp [hb]

theorem conflict_append_iff (pre : List JB) (b : JB) (hnc : ¬ Conflict pre) :
    Conflict (pre ++ [b]) ↔ ∃ x ∈ pre, x.name = b.name ∧ x.script ≠ b.script := by
  constructor
  · rintro ⟨b₁, h₁, b₂, h₂, hn, hs⟩
    rw [List.mem_append, List.mem_singleton] at h₁ h₂
    rcases h₁ with h₁ | h₁ <;> rcases h₂ with h₂ | h₂
    · exact absurd ⟨b₁, h₁, b₂, h₂, hn, hs⟩ hnc
    · subst h₂; exact ⟨b₁, h₁, hn, hs⟩
    · subst h₁; exact ⟨b₂, h₂, hn.symm, fun h => hs h.symm⟩
    · subst h₁; subst h₂; exact absurd rfl hs
  · rintro ⟨x, hx, hn, hs⟩
    exact ⟨x, by simp [hx], b, by simp, hn, hs⟩

/-- In a conflict-free prefix every block named `n` carries `scriptOf pre n`. -/
theorem script_eq_of_noconf (pre : List JB) (hnc : ¬ Conflict pre) (x : JB) (hx : x ∈ pre) :
    x.script = scriptOf pre x.name := by
  unfold scriptOf
  cases hf : pre.find? (fun b => b.name == x.name) with
  | none =>
    rw [List.find?_eq_none] at hf
    exact absurd (by simp) (hf x hx)
  | some y =>
    have hy := List.mem_of_find?_eq_some hf
    have hyn : y.name = x.name := by simpa using List.find?_some hf
    by_cases hne : x.script = y.script
    · simpa using hne
    · exact absurd ⟨x, hx, y, hy, hyn.symm, hne⟩ hnc

theorem extend_names (t : Tbl) (n : String) (ds : List String) : (t.extend n ds).names = t.names := by
  unfold Tbl.extend Tbl.names
  rw [List.map_map]
  apply List.map_congr_left
  intro e _
  by_cases h : e.name = n <;> simp [h]

theorem mem_extend (t : Tbl) (n : String) (ds : List String) (e' : Entry) (h : e' ∈ t.extend n ds) :
    ∃ e ∈ t, e'.name = e.name ∧ e'.script = e.script ∧
      e'.deps = e.deps ++ (if e.name = n then ds else []) := by
  unfold Tbl.extend at h
  rw [List.mem_map] at h
  obtain ⟨e, he, rfl⟩ := h
  refine ⟨e, he, ?_⟩
  by_cases hn : e.name = n <;> simp [hn]

theorem addBlock_inv (pre : List JB) (t : Tbl) (b : JB) (h : TblInv pre t) :
    (∀ t', addBlock t b = .ok t' → TblInv (pre ++ [b]) t') ∧
    (∀ e, addBlock t b = .error e → Conflict (pre ++ [b]) ∧ e = .conflict b.name) := by
  unfold addBlock
  cases hg : t.get? b.name with
  | none =>
    have hnot : b.name ∉ t.names := (get?_none_iff t b.name).1 hg
    have hnot' : b.name ∉ names pre := fun hm => hnot ((h.mem_iff _).2 hm)
    constructor
    · intro t' ht'
      simp only [Except.ok.injEq] at ht'
      subst ht'
      refine ⟨?_, ?_, ?_, ?_, ?_⟩
      · simp only [Tbl.names, List.map_append, List.map_cons, List.map_nil]
        rw [List.nodup_append]
        refine ⟨h.nodup, by simp, ?_⟩
        intro a ha c hc
        simp at hc; subst hc
        intro hac; subst hac; exact hnot ha
      · intro n
        simp only [Tbl.names, List.map_append, List.map_cons, List.map_nil, List.mem_append,
          List.mem_singleton, names_append, names]
        have := h.mem_iff n
        simp only [Tbl.names, names] at this
        rw [this]
      · intro e he
        rw [List.mem_append, List.mem_singleton] at he
        rcases he with he | he
        · have hm : e.name ∈ names pre := (h.mem_iff _).1 (by simp [Tbl.names]; exact ⟨e, he, rfl⟩)
          rw [scriptOf_append_of_mem _ _ _ hm]; exact h.script e he
        · subst he; rw [scriptOf_append_of_not_mem _ _ _ hnot']; simp
      · intro e he
        rw [List.mem_append, List.mem_singleton] at he
        rw [depsOf_append]
        rcases he with he | he
        · have hm : e.name ∈ names pre := (h.mem_iff _).1 (by simp [Tbl.names]; exact ⟨e, he, rfl⟩)
          have hne : b.name ≠ e.name := fun hh => hnot' (hh ▸ hm)
          simp [hne, h.deps e he]
        · subst he
          have : depsOf pre b.name = [] := by
            unfold depsOf
            have : pre.filter (fun x => x.name == b.name) = [] := by
              rw [List.filter_eq_nil_iff]
              intro x hx hxn
              exact hnot' (by simp [names]; exact ⟨x, hx, by simpa using hxn⟩)
            rw [this]; rfl
          simp [this]
      · rw [conflict_append_iff _ _ h.noconf]
        rintro ⟨x, hx, hn, _⟩
        exact hnot' (by simp [names]; exact ⟨x, hx, hn⟩)
    · intro e he; simp at he
  | some e0 =>
    obtain ⟨he0, hn0⟩ := get?_some t b.name e0 hg
    have hmem : b.name ∈ names pre := (h.mem_iff _).1 (by simp [Tbl.names]; exact ⟨e0, he0, hn0⟩)
    by_cases hs : b.script = e0.script
    · simp only [hs, if_true]
      constructor
      · intro t' ht'
        simp only [Except.ok.injEq] at ht'
        subst ht'
        have hnc' : ¬ Conflict (pre ++ [b]) := by
          rw [conflict_append_iff _ _ h.noconf]
          rintro ⟨x, hx, hn, hne⟩
          apply hne
          rw [script_eq_of_noconf pre h.noconf x hx, hn, hs, h.script e0 he0, hn0]
        refine ⟨?_, ?_, ?_, ?_, hnc'⟩
        · rw [extend_names]; exact h.nodup
        · intro n
          rw [extend_names, h.mem_iff, names_append]
          simp only [List.mem_append]
          constructor
          · exact Or.inl
          · rintro (hh | hh)
            · exact hh
            · simp [names] at hh; subst hh; exact hmem
        · intro e' he'
          obtain ⟨e, he, hn, hsc, _⟩ := mem_extend _ _ _ _ he'
          have hm : e.name ∈ names pre := (h.mem_iff _).1 (by simp [Tbl.names]; exact ⟨e, he, rfl⟩)
          rw [hn, hsc, scriptOf_append_of_mem _ _ _ hm]; exact h.script e he
        · intro e' he'
          obtain ⟨e, he, hn, _, hd⟩ := mem_extend _ _ _ _ he'
          rw [hd, hn, depsOf_append, h.deps e he]
          by_cases hbn : e.name = b.name
          · simp [hbn]
          · have : ¬ b.name = e.name := fun hh => hbn hh.symm
            simp [hbn, this]
      · intro e he; simp at he
    · simp only [hs, if_false]
      constructor
      · intro t' ht'; simp at ht'
      · intro e he
        simp only [Except.error.injEq] at he
        refine ⟨?_, he.symm⟩
        rw [conflict_append_iff _ _ h.noconf]
        -- some block of `pre` named b.name carries e0.script
        have hsc := h.script e0 he0
        rw [hn0] at hsc
        have : ∃ x ∈ pre, x.name = b.name := by simpa [names] using hmem
        obtain ⟨x, hx, hxn⟩ := this
        refine ⟨x, hx, hxn, ?_⟩
        rw [script_eq_of_noconf pre h.noconf x hx, hxn, ← hsc]
        exact fun hh => hs hh.symm

theorem conflict_mono (pre rest : List JB) (h : Conflict pre) : Conflict (pre ++ rest) := by
  obtain ⟨b₁, h₁, b₂, h₂, hn, hs⟩ := h
  exact ⟨b₁, by simp [h₁], b₂, by simp [h₂], hn, hs⟩

theorem build_inv (bs : List JB) : ∀ (pre : List JB) (t : Tbl), TblInv pre t →
    (∀ t', build bs t = .ok t' → TblInv (pre ++ bs) t') ∧
    (∀ e, build bs t = .error e → Conflict (pre ++ bs) ∧ ∃ n, e = .conflict n) := by
  induction bs with
  | nil =>
    intro pre t h
    constructor
    · intro t' ht'; simp [build] at ht'; subst ht'; simpa using h
    · intro e he; simp [build] at he
  | cons b bs ih =>
    intro pre t h
    have hab := addBlock_inv pre t b h
    unfold build
    cases hadd : addBlock t b with
    | error e0 =>
      constructor
      · intro t' ht'; simp at ht'
      · intro e he
        simp only [Except.error.injEq] at he
        obtain ⟨hc, hk⟩ := hab.2 e0 hadd
        refine ⟨?_, b.name, by rw [← he, hk]⟩
        have := conflict_mono (pre ++ [b]) bs hc
        simpa using this
    | ok t1 =>
      have h1 := hab.1 t1 hadd
      have := ih (pre ++ [b]) t1 h1
      simpa using this

theorem tblInv_nil : TblInv [] [] := by
  refine ⟨by simp [Tbl.names], by simp [Tbl.names, names], by simp, by simp, ?_⟩
  rintro ⟨b, hb, _⟩; simp at hb

/-! ## missing-dependency check -/

theorem firstMissingIn_none (ns : List String) (f : String) (ds : List String) :
    firstMissingIn ns f ds = none ↔ ∀ d ∈ ds, d ∈ ns := by
  induction ds with
  | nil => simp [firstMissingIn]
  | cons d ds ih =>
    unfold firstMissingIn
    by_cases h : d ∈ ns <;> simp [h, ih]

theorem firstMissingIn_some (ns : List String) (f : String) (ds : List String) (e : Err)
    (h : firstMissingIn ns f ds = some e) : ∃ d ∈ ds, d ∉ ns ∧ e = .missing d f := by
  induction ds with
  | nil => simp [firstMissingIn] at h
  | cons d ds ih =>
    unfold firstMissingIn at h
    by_cases hd : d ∈ ns
    · simp only [hd, if_true] at h
      obtain ⟨d', hd', hn, he⟩ := ih h
      exact ⟨d', by simp [hd'], hn, he⟩
    · simp only [hd, if_false, Option.some.injEq] at h
      exact ⟨d, by simp, hd, h.symm⟩

theorem firstMissing_none (ns : List String) (t : Tbl) :
    firstMissing ns t = none ↔ ∀ e ∈ t, ∀ d ∈ e.deps, d ∈ ns := by
  induction t with
  | nil => simp [firstMissing]
  | cons e es ih =>
    unfold firstMissing
    cases hf : firstMissingIn ns e.name e.deps with
    | none =>
      have := (firstMissingIn_none ns e.name e.deps).1 hf
      simp only [ih, List.mem_cons, forall_eq_or_imp]
      exact ⟨fun h => ⟨this, h⟩, fun h => h.2⟩
    | some err =>
      obtain ⟨d, hd, hn, _⟩ := firstMissingIn_some _ _ _ _ hf
      simp only [reduceCtorEq, false_iff]
      intro hall
      exact hn (hall e (by simp) d hd)

theorem firstMissing_some (ns : List String) (t : Tbl) (err : Err) (h : firstMissing ns t = some err) :
    ∃ e ∈ t, ∃ d ∈ e.deps, d ∉ ns ∧ err = .missing d e.name := by
  induction t with
  | nil => simp [firstMissing] at h
  | cons e es ih =>
    unfold firstMissing at h
    cases hf : firstMissingIn ns e.name e.deps with
    | none =>
      rw [hf] at h
      obtain ⟨e', he', r⟩ := ih h
      exact ⟨e', by simp [he'], r⟩
    | some err' =>
      rw [hf] at h
      simp only [Option.some.injEq] at h
      subst h
      obtain ⟨d, hd, hn, he⟩ := firstMissingIn_some _ _ _ _ hf
      exact ⟨e, by simp, d, hd, hn, he⟩

/-- a dependency recorded by `depsOf` comes from some block -/
theorem mem_depsOf (bs : List JB) (n d : String) : d ∈ depsOf bs n ↔ ∃ b ∈ bs, b.name = n ∧ d ∈ b.deps := by
  unfold depsOf
  simp only [List.mem_flatMap, List.mem_filter, beq_iff_eq]
  constructor
  · rintro ⟨b, ⟨hb, hn⟩, hd⟩; exact ⟨b, hb, hn, hd⟩
  · rintro ⟨b, hb, hn, hd⟩; exact ⟨b, ⟨hb, hn⟩, hd⟩

theorem missing_iff_table (bs : List JB) (t : Tbl) (h : TblInv bs t) :
    Missing bs ↔ ∃ e ∈ t, ∃ d ∈ e.deps, d ∉ t.names := by
  constructor
  · rintro ⟨b, hb, d, hd, hn⟩
    have hbn : b.name ∈ t.names := (h.mem_iff _).2 (by simp [names]; exact ⟨b, hb, rfl⟩)
    simp only [Tbl.names, List.mem_map] at hbn
    obtain ⟨e, he, hen⟩ := hbn
    refine ⟨e, he, d, ?_, fun hh => hn ((h.mem_iff _).1 hh)⟩
    rw [h.deps e he, mem_depsOf]
    exact ⟨b, hb, hen.symm, hd⟩
  · rintro ⟨e, he, d, hd, hn⟩
    rw [h.deps e he, mem_depsOf] at hd
    obtain ⟨b, hb, _, hdb⟩ := hd
    exact ⟨b, hb, d, hdb, fun hh => hn ((h.mem_iff _).2 hh)⟩

/-! ## the emission loop -/

def scriptT (t : Tbl) (n : String) : List String :=
  match t.get? n with
  | some e => e.script
  | none => []

/-- Invariant of the emission: what has been emitted so far is a duplicate-free list of table
names, the text is the concatenation of their scripts, every emitted block comes after all its
dependencies. -/
structure EmitInv (t : Tbl) (seen out : List String) : Prop where
  nodup : seen.Nodup
  sub : ∀ n ∈ seen, n ∈ t.names
  text : out = seen.flatMap (scriptT t)
  order : ∀ e ∈ t, e.name ∈ seen → ∀ d ∈ e.deps, d ∈ seen ∧ seen.idxOf d < seen.idxOf e.name

theorem get?_of_mem_nodup (t : Tbl) (hnd : t.names.Nodup) (e : Entry) (he : e ∈ t) : t.get? e.name = some e := by
  induction t with
  | nil => simp at he
  | cons x xs ih =>
    simp only [Tbl.names, List.map_cons, List.nodup_cons] at hnd
    unfold Tbl.get?
    rw [List.find?_cons]
    rcases List.mem_cons.1 he with rfl | hxs
    · simp
    · have hne : (x.name == e.name) = false := by
        rw [beq_eq_false_iff_ne]
        intro hh; apply hnd.1; rw [hh]; exact List.mem_map.2 ⟨e, hxs, rfl⟩
      rw [hne]
      exact ih hnd.2 hxs

theorem idxOf_append_of_mem' (l₁ l₂ : List String) (a : String) (h : a ∈ l₁) :
    (l₁ ++ l₂).idxOf a = l₁.idxOf a := by
  rw [List.idxOf_append]; simp [h]

theorem idxOf_append_singleton_self (l : List String) (a : String) (h : a ∉ l) :
    (l ++ [a]).idxOf a = l.length := by
  rw [List.idxOf_append]; simp [h]

theorem pass_inv (t : Tbl) (hnd : t.names.Nodup) :
    ∀ (es : Tbl), (∀ e ∈ es, e ∈ t) → ∀ (s : PassSt), EmitInv t s.seen s.out →
      EmitInv t (pass es s).seen (pass es s).out := by
  intro es
  induction es with
  | nil => intro _ s h; simpa [pass] using h
  | cons e es ih =>
    intro hsub s h
    have het : e ∈ t := hsub e (by simp)
    have hsub' : ∀ e' ∈ es, e' ∈ t := fun e' he' => hsub e' (by simp [he'])
    unfold pass
    by_cases hseen : e.name ∈ s.seen
    · simp only [hseen, if_true]; exact ih hsub' s h
    · simp only [hseen, if_false]
      by_cases hall : e.deps.all (· ∈ s.seen) = true
      · simp only [hall, if_true]
        apply ih hsub'
        simp only
        have hall' : ∀ d ∈ e.deps, d ∈ s.seen := by simpa using hall
        refine ⟨?_, ?_, ?_, ?_⟩
        · rw [List.nodup_append]
          refine ⟨h.nodup, by simp, ?_⟩
          intro a ha c hc; simp at hc; subst hc; intro hac; subst hac; exact hseen ha
        · intro n hn
          rw [List.mem_append, List.mem_singleton] at hn
          rcases hn with hn | hn
          · exact h.sub n hn
          · subst hn; exact List.mem_map.2 ⟨e, het, rfl⟩
        · rw [List.flatMap_append, ← h.text]
          simp [scriptT, get?_of_mem_nodup t hnd e het]
        · intro e' he' hmem d hd
          rw [List.mem_append, List.mem_singleton] at hmem
          rcases hmem with hmem | hmem
          · obtain ⟨hd1, hd2⟩ := h.order e' he' hmem d hd
            refine ⟨by simp [hd1], ?_⟩
            rw [idxOf_append_of_mem' _ _ _ hd1, idxOf_append_of_mem' _ _ _ hmem]; exact hd2
          · -- e' is the block just emitted (names are unique in the table)
            have : e' = e := by
              have h1 := get?_of_mem_nodup t hnd e' he'
              have h2 := get?_of_mem_nodup t hnd e het
              rw [hmem] at h1; rw [h1] at h2; exact Option.some.inj h2
            subst this
            have hd1 := hall' d hd
            refine ⟨by simp [hd1], ?_⟩
            rw [idxOf_append_of_mem' _ _ _ hd1, idxOf_append_singleton_self _ _ hseen]
            exact List.idxOf_lt_length_of_mem hd1
      · simp only [hall]; exact ih hsub' s h

/-- `pass` only ever appends to `seen`; the flag tells whether it did. -/
theorem pass_grows (es : Tbl) : ∀ (s : PassSt),
    s.seen.length ≤ (pass es s).seen.length ∧
    ((pass es s).emitted = true → s.emitted = false → s.seen.length < (pass es s).seen.length) ∧
    (s.emitted = true → (pass es s).emitted = true) := by
  induction es with
  | nil => intro s; simp [pass]
  | cons e es ih =>
    intro s
    unfold pass
    by_cases hseen : e.name ∈ s.seen
    · simp only [hseen, if_true]; exact ih s
    · simp only [hseen, if_false]
      by_cases hall : e.deps.all (· ∈ s.seen) = true
      · simp only [hall, if_true]
        have := ih { seen := s.seen ++ [e.name], out := s.out ++ e.script, emitted := true }
        simp only [List.length_append, List.length_cons, List.length_nil] at this
        refine ⟨by omega, fun _ _ => by omega, fun _ => this.2.2 trivial⟩
      · simp only [hall]; exact ih s

/-- If a pass emits nothing, every unseen block has an unseen dependency. -/
theorem pass_stuck (es : Tbl) : ∀ (s : PassSt), s.emitted = false → (pass es s).emitted = false →
    (pass es s).seen = s.seen ∧ ∀ e ∈ es, e.name ∉ s.seen → ∃ d ∈ e.deps, d ∉ s.seen := by
  induction es with
  | nil => intro s _ _; simp [pass]
  | cons e es ih =>
    intro s hs hp
    unfold pass at hp ⊢
    by_cases hseen : e.name ∈ s.seen
    · simp only [hseen, if_true] at hp ⊢
      obtain ⟨h1, h2⟩ := ih s hs hp
      refine ⟨h1, ?_⟩
      intro e' he' hn
      rcases List.mem_cons.1 he' with rfl | he'
      · exact absurd hseen hn
      · exact h2 e' he' hn
    · simp only [hseen, if_false] at hp ⊢
      by_cases hall : e.deps.all (· ∈ s.seen) = true
      · simp only [hall, if_true] at hp
        have := (pass_grows es { seen := s.seen ++ [e.name], out := s.out ++ e.script, emitted := true }).2.2 rfl
        rw [this] at hp; exact absurd hp (by simp)
      · simp only [hall] at hp ⊢
        obtain ⟨h1, h2⟩ := ih s hs hp
        refine ⟨h1, ?_⟩
        intro e' he' hn
        rcases List.mem_cons.1 he' with rfl | he'
        · have : ¬ ∀ d ∈ e'.deps, d ∈ s.seen := by simpa using hall
          exact Classical.not_forall.1 this |>.elim fun d hd => ⟨d, Classical.not_imp.1 hd⟩
        · exact h2 e' he' hn

/-- pigeonhole: a duplicate-free sublist of the names that is at least as long covers them -/
theorem covers_of_length (names seen : List String) (hnd : seen.Nodup) (hsub : ∀ n ∈ seen, n ∈ names)
    (hlen : names.length ≤ seen.length) : ∀ n ∈ names, n ∈ seen := by
  have hsp : seen.Subperm names := List.subperm_of_subset hnd hsub
  have hp : seen.Perm names := hsp.perm_of_length_le hlen
  intro n hn
  exact hp.symm.subset hn

theorem length_le_of_nodup_sub (names seen : List String) (hnd : seen.Nodup) (hsub : ∀ n ∈ seen, n ∈ names) :
    seen.length ≤ names.length :=
  (List.subperm_of_subset hnd hsub).length_le

end FaxVerif.C15
