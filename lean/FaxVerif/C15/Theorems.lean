/-
C15 — property theorems (statements over *all* finite lists of blocks).
Helper lemmas live in `Proofs.lean`; nothing here is weakened to make a proof pass.
-/
import FaxVerif.C15.Proofs
namespace FaxVerif.C15

/-- Facts about the emission loop, for every amount of fuel that is at least what `genScript`
supplies. -/
theorem loop_spec (t : Tbl) (hnd : t.names.Nodup) :
    ∀ (fuel : Nat) (seen out : List String), EmitInv t seen out → t.length + 1 ≤ fuel + seen.length →
      (∀ π o, loop t fuel seen out = .ok (π, o) → EmitInv t π o ∧ t.length ≤ π.length) ∧
      (∀ e, loop t fuel seen out = .error e → ∃ seen', e = .cycle (t.names.filter (· ∉ seen')) ∧
          (∃ o', EmitInv t seen' o') ∧ seen'.length < t.length ∧
          ∀ e' ∈ t, e'.name ∉ seen' → ∃ d ∈ e'.deps, d ∉ seen') := by
  intro fuel
  induction fuel with
  | zero =>
    intro seen out h hf
    have := length_le_of_nodup_sub t.names seen h.nodup h.sub
    simp [Tbl.names] at this
    omega
  | succ fuel ih =>
    intro seen out h hf
    unfold loop
    by_cases hlt : seen.length < t.length
    · simp only [hlt, if_true]
      have hinv := pass_inv t hnd t (fun e he => he) ⟨seen, out, false⟩ h
      have hgrow := pass_grows t ⟨seen, out, false⟩
      by_cases hem : (pass t ⟨seen, out, false⟩).emitted = true
      · simp only [hem, if_true]
        have hl := hgrow.2.1 hem rfl
        simp only at hl
        exact ih _ _ hinv (by omega)
      · simp only [hem]
        have hem' : (pass t ⟨seen, out, false⟩).emitted = false := by simpa using hem
        obtain ⟨_, hstuck⟩ := pass_stuck t ⟨seen, out, false⟩ rfl hem'
        constructor
        · intro π o hc; simp at hc
        · intro e he
          simp only [Bool.false_eq_true, if_false, Except.error.injEq] at he
          exact ⟨seen, he.symm, ⟨out, h⟩, hlt, hstuck⟩
    · simp only [hlt, if_false]
      constructor
      · intro π o hc
        simp only [Except.ok.injEq, Prod.mk.injEq] at hc
        obtain ⟨rfl, rfl⟩ := hc
        exact ⟨h, by omega⟩
      · intro e he; simp at he

theorem gso_build_error (bs : List JB) (e : Err) (hb : build bs [] = .error e) :
    genScriptOrder bs = .error e := by
  unfold genScriptOrder; simp only [hb]

theorem gso_missing (bs : List JB) (t : Tbl) (e : Err) (hb : build bs [] = .ok t)
    (hm : firstMissing t.names t = some e) : genScriptOrder bs = .error e := by
  unfold genScriptOrder; simp only [hb, hm]

theorem gso_loop (bs : List JB) (t : Tbl) (hb : build bs [] = .ok t)
    (hm : firstMissing t.names t = none) : genScriptOrder bs = loop t (t.length + 1) [] [] := by
  unfold genScriptOrder; simp only [hb, hm]

theorem emitInv_nil (t : Tbl) : EmitInv t [] [] :=
  ⟨by simp, by simp, by simp, by simp⟩

theorem flatMap_congr' {α β} (l : List α) (f g : α → List β) (h : ∀ a ∈ l, f a = g a) :
    l.flatMap f = l.flatMap g := by
  induction l with
  | nil => rfl
  | cons a l ih =>
    simp only [List.flatMap_cons]
    rw [h a (by simp), ih (fun b hb => h b (by simp [hb]))]

/-- From the table invariant and the emission invariant at exit to the property. -/
theorem specOk_of_inv (bs : List JB) (t : Tbl) (ht : TblInv bs t) (π out : List String)
    (h : EmitInv t π out) (hlen : t.length ≤ π.length) : SpecOk bs π out := by
  have hcov : ∀ n ∈ t.names, n ∈ π :=
    covers_of_length t.names π h.nodup h.sub (by simpa [Tbl.names] using hlen)
  refine ⟨h.nodup, fun n hn => (ht.mem_iff n).1 (h.sub n hn), fun n hn => hcov n ((ht.mem_iff n).2 hn), ?_, ?_⟩
  · rw [h.text]
    apply flatMap_congr'
    intro n hn
    have hmem := h.sub n hn
    simp only [Tbl.names, List.mem_map] at hmem
    obtain ⟨e, he, rfl⟩ := hmem
    simp [scriptT, get?_of_mem_nodup t ht.nodup e he, ht.script e he]
  · intro n hn d hd
    have hmem := h.sub n hn
    simp only [Tbl.names, List.mem_map] at hmem
    obtain ⟨e, he, rfl⟩ := hmem
    exact h.order e he hn d (by rw [ht.deps e he]; exact hd)

/-- **C15.sound** — whenever the script generator returns, its text is the concatenation of the
scripts of the distinct blocks along an order `π` that lists every distinct name exactly once and
puts every block after all the blocks it (or any block sharing its name) depends on. -/
theorem sound (bs : List JB) (π out : List String) (h : genScriptOrder bs = .ok (π, out)) :
    SpecOk bs π out := by
  cases hb : build bs [] with
  | error e => rw [gso_build_error bs e hb] at h; simp at h
  | ok t =>
    have ht : TblInv bs t := by simpa using (build_inv bs [] [] tblInv_nil).1 t hb
    cases hm : firstMissing t.names t with
    | some e => rw [gso_missing bs t e hb hm] at h; simp at h
    | none =>
      rw [gso_loop bs t hb hm] at h
      obtain ⟨hinv, hlen⟩ := (loop_spec t ht.nodup (t.length + 1) [] [] (emitInv_nil t) (by simp)).1 π out h
      exact specOk_of_inv bs t ht π out hinv hlen

/-- **C15.fuel_never** — termination is a theorem: the fuel the model supplies (number of
distinct names + 1) is never exhausted, so the model never answers with the artificial error. -/
theorem fuel_never (bs : List JB) : genScriptOrder bs ≠ .error .fuel := by
  cases hb : build bs [] with
  | error e =>
    obtain ⟨_, n, hn⟩ := (build_inv bs [] [] tblInv_nil).2 e hb
    rw [gso_build_error bs e hb]; simp [hn]
  | ok t =>
    have ht : TblInv bs t := by simpa using (build_inv bs [] [] tblInv_nil).1 t hb
    cases hm : firstMissing t.names t with
    | some e =>
      obtain ⟨_, _, _, _, _, he⟩ := firstMissing_some _ _ _ hm
      rw [gso_missing bs t e hb hm]; simp [he]
    | none =>
      rw [gso_loop bs t hb hm]
      intro hl
      obtain ⟨_, he, _⟩ := (loop_spec t ht.nodup (t.length + 1) [] [] (emitInv_nil t) (by simp)).2 _ hl
      simp at he

/-- **C15.error_justified** — every refusal is one of the three documented ones, in the
implementation's order of checking. -/
theorem error_justified (bs : List JB) (e : Err) (h : genScriptOrder bs = .error e) :
    (∃ n, e = .conflict n ∧ Conflict bs) ∨
    (∃ d f, e = .missing d f ∧ ¬ Conflict bs ∧ Missing bs) ∨
    (∃ r, e = .cycle r ∧ ¬ Conflict bs ∧ ¬ Missing bs ∧ Cyclic bs) := by
  cases hb : build bs [] with
  | error e0 =>
    rw [gso_build_error bs e0 hb] at h
    simp only [Except.error.injEq] at h
    obtain ⟨hc, n, hn⟩ := (build_inv bs [] [] tblInv_nil).2 e0 hb
    exact Or.inl ⟨n, by rw [← h, hn], by simpa using hc⟩
  | ok t =>
    have ht : TblInv bs t := by simpa using (build_inv bs [] [] tblInv_nil).1 t hb
    cases hm : firstMissing t.names t with
    | some e0 =>
      rw [gso_missing bs t e0 hb hm] at h
      simp only [Except.error.injEq] at h
      obtain ⟨e', he', d, hd, hn, he⟩ := firstMissing_some _ _ _ hm
      refine Or.inr (Or.inl ⟨d, e'.name, by rw [← h, he], ht.noconf, ?_⟩)
      exact (missing_iff_table bs t ht).2 ⟨e', he', d, hd, hn⟩
    | none =>
      rw [gso_loop bs t hb hm] at h
      obtain ⟨seen', he, ⟨o', hinv⟩, hlt, hstuck⟩ :=
        (loop_spec t ht.nodup (t.length + 1) [] [] (emitInv_nil t) (by simp)).2 e h
      have hnm : ¬ Missing bs := by
        rw [missing_iff_table bs t ht]
        rintro ⟨e', he', d, hd, hn⟩
        exact hn ((firstMissing_none _ _).1 hm e' he' d hd)
      refine Or.inr (Or.inr ⟨_, he, ht.noconf, hnm, ?_⟩)
      -- the stuck set: names of the table not yet emitted
      refine ⟨t.names.filter (· ∉ seen'), ?_, ?_⟩
      · intro hnil
        have hall : ∀ n ∈ t.names, n ∈ seen' := by
          intro n hn
          by_cases hs : n ∈ seen'
          · exact hs
          · have : n ∈ t.names.filter (· ∉ seen') := by simp [hn, hs]
            rw [hnil] at this; simp at this
        have hle := length_le_of_nodup_sub seen' t.names ht.nodup hall
        simp [Tbl.names] at hle
        omega
      · intro n hn
        simp only [List.mem_filter, decide_eq_true_eq] at hn
        obtain ⟨hnt, hns⟩ := hn
        refine ⟨(ht.mem_iff n).1 hnt, ?_⟩
        simp only [Tbl.names, List.mem_map] at hnt
        obtain ⟨e', he', rfl⟩ := hnt
        obtain ⟨d, hd, hds⟩ := hstuck e' he' hns
        refine ⟨d, by rw [← ht.deps e' he']; exact hd, ?_⟩
        simp only [List.mem_filter, decide_eq_true_eq]
        exact ⟨(firstMissing_none _ _).1 hm e' he' d hd, hds⟩

/-- An order satisfying the property cannot exist over a cyclic dependency set. -/
theorem specOk_not_cyclic (bs : List JB) (π out : List String) (h : SpecOk bs π out) : ¬ Cyclic bs := by
  rintro ⟨R, hne, hR⟩
  obtain ⟨_, _, hcov, _, hord⟩ := h
  -- strong induction on the position in π: no member of R can sit at any position
  have key : ∀ k, ∀ n ∈ R, π.idxOf n ≠ k := by
    intro k
    induction k using Nat.strongRecOn with
    | _ k ih =>
      intro n hn hk
      obtain ⟨hnames, d, hd, hdR⟩ := hR n hn
      have := (hord n (hcov n hnames) d hd).2
      exact ih (π.idxOf d) (by omega) d hdR rfl
  cases R with
  | nil => exact hne rfl
  | cons n _ => exact key _ n (by simp) rfl

/-- **C15.complete** — the generator refuses exactly the inputs the property says it must
refuse, and returns on all others. -/
theorem complete (bs : List JB) :
    (∃ e, genScriptOrder bs = .error e) ↔ (Conflict bs ∨ Missing bs ∨ Cyclic bs) := by
  constructor
  · rintro ⟨e, he⟩
    rcases error_justified bs e he with ⟨_, _, h⟩ | ⟨_, _, _, _, h⟩ | ⟨_, _, _, _, h⟩
    · exact Or.inl h
    · exact Or.inr (Or.inl h)
    · exact Or.inr (Or.inr h)
  · intro hbad
    cases hg : genScriptOrder bs with
    | error e => exact ⟨e, rfl⟩
    | ok r =>
      exfalso
      obtain ⟨π, out⟩ := r
      have hs := sound bs π out hg
      -- a successful run went through a conflict-free table and a clean dependency check
      cases hb : build bs [] with
      | error e => rw [gso_build_error bs e hb] at hg; simp at hg
      | ok t =>
        have ht : TblInv bs t := by simpa using (build_inv bs [] [] tblInv_nil).1 t hb
        cases hm : firstMissing t.names t with
        | some e => rw [gso_missing bs t e hb hm] at hg; simp at hg
        | none =>
          rcases hbad with hc | hmiss | hcyc
          · exact ht.noconf hc
          · rw [missing_iff_table bs t ht] at hmiss
            obtain ⟨e', he', d, hd, hn⟩ := hmiss
            exact hn ((firstMissing_none _ _).1 hm e' he' d hd)
          · exact specOk_not_cyclic bs π out hs hcyc

/-- **C15.merge** — blocks repeated under one name count once and their dependencies are
united: every dependency of *any* block carrying the name precedes the (single) emission. -/
theorem merge (bs : List JB) (π out : List String) (h : genScriptOrder bs = .ok (π, out))
    (b : JB) (hb : b ∈ bs) (d : String) (hd : d ∈ b.deps) :
    π.count b.name = 1 ∧ d ∈ π ∧ π.idxOf d < π.idxOf b.name := by
  obtain ⟨hnd, _, hcov, _, hord⟩ := sound bs π out h
  have hmem : b.name ∈ π := hcov _ (by simp [names]; exact ⟨b, hb, rfl⟩)
  refine ⟨by rw [List.Nodup.count hnd]; simp [hmem], ?_⟩
  exact hord b.name hmem d ((mem_depsOf bs b.name d).2 ⟨b, hb, rfl, hd⟩)

/-! ### non-vacuity: concrete inputs meeting the hypotheses -/

/-- a diamond with a repeated block whose two copies carry different dependencies -/
def ex1 : List JB :=
  [⟨"d", ["run d"], ["b", "c"]⟩, ⟨"b", ["run b1", "run b2"], ["a"]⟩, ⟨"c", [], ["a"]⟩,
   ⟨"a", ["run a"], []⟩, ⟨"c", [], ["b"]⟩]

example : (genScriptOrder ex1).toOption = some (["a", "b", "c", "d"], ["run a", "run b1", "run b2", "run d"]) := by decide
example : SpecOk ex1 ["a", "b", "c", "d"] ["run a", "run b1", "run b2", "run d"] := by decide
example : (genScriptOrder [⟨"a", ["x"], ["b"]⟩, ⟨"b", ["y"], ["a"]⟩]).toOption = none := by decide
example : Cyclic [⟨"a", ["x"], ["b"]⟩, ⟨"b", ["y"], ["a"]⟩] :=
  ⟨["a", "b"], by simp, by decide⟩
example : Conflict [⟨"a", ["x"], []⟩, ⟨"a", ["y"], []⟩] := by decide
example : Missing [⟨"a", ["x"], ["q"]⟩] := by decide

end FaxVerif.C15
