/-
C15 driver: one JSON request per line on stdin, one JSON answer per line on stdout.
  {"op":"gen","blocks":[{"name":..,"script":[..],"deps":[..]},..]}
      -> {"ok":[lines],"order":[names]} | {"err":"conflict"|"missing"|"cycle"|"fuel"}
  {"op":"spec","blocks":[..],"result":{"ok":[lines]} | {"err":kind}}
      -> {"holds":bool,"why":string}
  {"op":"exec","session":[[query,..],..]}   query = "ds" | {"md":md,"src":query} | {"call":[query,..]}
      md = "other" | "bad" | {"name":..,"script":[..],"deps":[..]|null}
      -> {"results":[{"ok":[lines],"order":[names],"text":file} | {"err":kind}, ..]}
  "gen" also answers "fifo" (the order computed by the independent FIFO work list of SpecOrder.lean), "arrival"
  and "cycle" (whether some list of distinct sent names is a closed dependency walk)
Run: lake env lean --run FaxVerif/C15/Driver.lean
-/
import Lean.Data.Json
import FaxVerif.C15.Spec
import FaxVerif.C15.SpecOrder
import FaxVerif.C15.ModelExec
open Lean FaxVerif.C15

def strList (j : Json) : Except String (List String) := do
  let a ← j.getArr?
  a.toList.mapM (·.getStr?)

def parseBlocks (j : Json) : Except String (List JB) := do
  let a ← (← j.getObjVal? "blocks").getArr?
  a.toList.mapM fun b => do
    let name ← (← b.getObjVal? "name").getStr?
    let script ← strList (← b.getObjVal? "script")
    let deps ← strList (← b.getObjVal? "deps")
    pure { name, script, deps }

def errKind : Err → String
  | .conflict _ => "conflict" | .missing _ _ => "missing" | .cycle _ => "cycle" | .fuel => "fuel"

def jstrs (l : List String) : Json := Json.arr (l.map Json.str).toArray

def specOn (bs : List JB) (res : Json) : Except String Json := do
  match res.getObjVal? "ok" with
  | .ok o =>
    let out ← strList o
    -- success is only allowed when no error condition holds
    if decide (Conflict bs) then return Json.mkObj [("holds", false), ("why", "returned although two blocks share a name with different scripts")]
    if decide (Missing bs) then return Json.mkObj [("holds", false), ("why", "returned although a dependency was not sent")]
    if !acyclicB bs then return Json.mkObj [("holds", false), ("why", "returned although the dependency graph has a cycle")]
    let ns := (names bs).eraseDups
    match findOrder bs (ns.length + 1) ns [] out with
    | some π =>
      if decide (SpecOk bs π out) then return Json.mkObj [("holds", true), ("why", ""), ("order", jstrs π)]
      else return Json.mkObj [("holds", false), ("why", "order found but SpecOk false")]
    | none => return Json.mkObj [("holds", false), ("why", "no emission order explains the output: a block is dropped, duplicated, split, or precedes one of its dependencies")]
  | .error _ =>
    let k ← (← res.getObjVal? "err").getStr?
    let c := decide (Conflict bs); let m := decide (Missing bs); let cyc := !acyclicB bs
    -- an error must be justified by one of the three documented conditions
    if k == "ValueError" then
      if c || m || cyc then return Json.mkObj [("holds", true), ("why", "")]
      else return Json.mkObj [("holds", false), ("why", "ValueError although no conflict, no missing dependency, no cycle")]
    else return Json.mkObj [("holds", false), ("why", s!"raised {k}, the property allows ValueError only")]

def parseMd (j : Json) : Except String Md := do
  match j.getStr? with
  | .ok "other" => pure .other
  | .ok "bad" => pure .bad
  | .ok s => throw s!"unknown md {s}"
  | .error _ =>
    let name ← (← j.getObjVal? "name").getStr?
    let script ← strList (← j.getObjVal? "script")
    let d ← j.getObjVal? "deps"
    if d.isNull then pure (.jobScript name script none)
    else pure (.jobScript name script (some (← strList d)))

partial def parseQ (j : Json) : Except String Q := do
  match j.getStr? with
  | .ok _ => pure .ds
  | .error _ =>
    match j.getObjVal? "md" with
    | .ok m => pure (.metaData (← parseMd m) (← parseQ (← j.getObjVal? "src")))
    | .error _ =>
      let a ← (← j.getObjVal? "call").getArr?
      pure (.call (← a.toList.mapM parseQ))

def xerrKind : XErr → String
  | .metadata => "metadata" | .script e => errKind e | .template => "template"

def execOn (j : Json) : Except String Json := do
  let ss ← (← j.getObjVal? "session").getArr?
  let qss ← ss.toList.mapM fun t => do
    let a ← t.getArr?
    a.toList.mapM parseQ
  let rs := session ⟨[]⟩ qss
  pure (Json.mkObj [("results", Json.arr (rs.map fun r =>
    match r with
    | .ok w => Json.mkObj [("ok", jstrs w.lines), ("order", jstrs w.order), ("text", Json.str (String.join w.chunks))]
    | .error e => Json.mkObj [("err", xerrKind e)]).toArray)])

/-- does the dependency graph of the sent blocks have a cycle: search over simple closed walks -/
def hasCycleB (bs : List JB) : Bool :=
  let ns := arrival bs
  let rec go : Nat → String → String → List String → Bool
    | 0, _, _, _ => false
    | fuel + 1, first, cur, visited =>
      (depsOf bs cur).any fun d =>
        d == first || (d ∈ ns && !(d ∈ visited) && go fuel first d (d :: visited))
  ns.any fun n => go (ns.length + 1) n n [n]

def handle (line : String) : String :=
  match Json.parse line with
  | .error e => (Json.mkObj [("bad", e)]).compress
  | .ok j =>
    let r : Except String Json := do
      let op ← (← j.getObjVal? "op").getStr?
      if op == "exec" then return (← execOn j)
      let bs ← parseBlocks j
      if op == "gen" then
        let extra : List (String × Json) :=
          [("arrival", jstrs (arrival bs)), ("cycle", Json.bool (hasCycleB bs)),
           ("fifo", match fifoOrder bs with | some π => jstrs π | none => Json.null)]
        match genScriptOrder bs with
        | .ok (π, out) => pure (Json.mkObj (("ok", jstrs out) :: ("order", jstrs π) :: extra))
        | .error e => pure (Json.mkObj (("err", Json.str (errKind e)) :: extra))
      else if op == "spec" then specOn bs (← j.getObjVal? "result")
      else throw s!"unknown op {op}"
    match r with
    | .ok j => j.compress
    | .error e => (Json.mkObj [("bad", e)]).compress

partial def loopIO (h : IO.FS.Stream) (out : IO.FS.Stream) : IO Unit := do
  let line ← h.getLine
  if line.isEmpty then return ()
  let t := line.trimAscii.toString
  if !t.isEmpty then out.putStrLn (handle t)
  loopIO h out

def main : IO Unit := do
  let out ← IO.getStdout
  loopIO (← IO.getStdin) out
  out.flush
