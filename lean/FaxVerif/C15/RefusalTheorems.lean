/-
C15 — property theorems, part 3: the exact refusal condition in terms of real dependency cycles
(of any length, including a block depending on itself) in the graph of the blocks that were sent.
-/
import FaxVerif.C15.OrderTheorems
namespace FaxVerif.C15

theorem path_snoc (bs : List JB) (a b c : String) (h : Path bs a b) (e : Edge bs b c) : Path bs a c := by
  induction h with
  | single n d hnd => exact Path.cons _ _ _ hnd (Path.single _ _ e)
  | cons n m d hnm _ ih => exact Path.cons _ _ _ hnm (ih e)

theorem path_src_mem (bs : List JB) (a b : String) (h : Path bs a b) : a ∈ names bs := by
  cases h with
  | single _ _ e => exact e.1
  | cons _ _ _ e _ => exact e.1

/-- a walk inside a set in which every vertex has a successor either closes a cycle or can be
prolonged by a fresh vertex -/
theorem walk_or_cycle (bs : List JB) (R : List String)
    (hR : ∀ n ∈ R, n ∈ names bs ∧ ∃ d ∈ depsOf bs n, d ∈ R) (n0 : String) (hn0 : n0 ∈ R) :
    ∀ k : Nat, HasCycle bs ∨ ∃ (w : List String) (hd : String), w.length = k + 1 ∧ w.Nodup ∧
      (∀ x ∈ w, x ∈ R) ∧ hd ∈ w ∧ ∀ x ∈ w, x = hd ∨ Path bs x hd := by
  intro k
  induction k with
  | zero => exact Or.inr ⟨[n0], n0, rfl, by simp, by simpa using hn0, by simp, by simp⟩
  | succ k ih =>
    rcases ih with hc | ⟨w, hd, hlen, hnd, hsub, hhd, hpath⟩
    · exact Or.inl hc
    · obtain ⟨hnames, d, hdep, hdR⟩ := hR hd (hsub hd hhd)
      have hedge : Edge bs hd d := ⟨hnames, hdep⟩
      by_cases hdw : d ∈ w
      · left
        rcases hpath d hdw with rfl | hp
        · exact ⟨d, Path.single _ _ hedge⟩
        · exact ⟨d, path_snoc bs _ _ _ hp hedge⟩
      · right
        refine ⟨d :: w, d, by simp [hlen], List.nodup_cons.2 ⟨hdw, hnd⟩, ?_, by simp, ?_⟩
        · intro x hx
          rcases List.mem_cons.1 hx with rfl | hx
          · exact hdR
          · exact hsub x hx
        · intro x hx
          rcases List.mem_cons.1 hx with rfl | hx
          · exact Or.inl rfl
          · right
            rcases hpath x hx with rfl | hp
            · exact Path.single _ _ hedge
            · exact path_snoc bs _ _ _ hp hedge

/-- **C15.cyclic_iff_hasCycle** — the closed-set formulation used by `complete` is the existence
of a genuine dependency cycle (a closed walk of length ≥ 1 through blocks that were sent). -/
theorem cyclic_iff_hasCycle (bs : List JB) : Cyclic bs ↔ HasCycle bs := by
  constructor
  · rintro ⟨R, hne, hR⟩
    cases R with
    | nil => exact absurd rfl hne
    | cons n0 R' =>
      rcases walk_or_cycle bs (n0 :: R') hR n0 (by simp) (n0 :: R').length with hc | ⟨w, _, hlen, hnd, hsub, _, _⟩
      · exact hc
      · have := length_le_of_nodup_sub (n0 :: R') w hnd hsub
        omega
  · rintro ⟨n, hn⟩
    classical
    refine ⟨(names bs).filter (fun m => decide (Path bs m n)), ?_, ?_⟩
    · intro hnil
      have : n ∈ (names bs).filter (fun m => decide (Path bs m n)) := by
        simp [path_src_mem bs n n hn, hn]
      rw [hnil] at this; simp at this
    · intro m hm
      simp only [List.mem_filter, decide_eq_true_eq] at hm
      obtain ⟨hmn, hp⟩ := hm
      refine ⟨hmn, ?_⟩
      cases hp with
      | single _ _ e =>
        exact ⟨n, e.2, by simp [path_src_mem bs n n hn, hn]⟩
      | cons _ m' _ e hp' =>
        exact ⟨m', e.2, by simp [path_src_mem bs m' n hp', hp']⟩

/-- **C15.refused_iff** — the generator refuses a list of blocks if and only if two blocks share
a name with different scripts, or some block names a dependency that was not sent (dangling), or
the dependency graph of the blocks that were sent has a cycle. -/
theorem refused_iff (bs : List JB) :
    (∃ e, genScriptOrder bs = .error e) ↔ (Conflict bs ∨ Missing bs ∨ HasCycle bs) := by
  rw [complete, cyclic_iff_hasCycle]

/-- **C15.accepted_iff** — and it returns a script exactly on the other lists. -/
theorem accepted_iff (bs : List JB) :
    (∃ π out, genScriptOrder bs = .ok (π, out)) ↔ (¬ Conflict bs ∧ ¬ Missing bs ∧ ¬ HasCycle bs) := by
  have h := refused_iff bs
  constructor
  · rintro ⟨π, out, hg⟩
    have : ¬ ∃ e, genScriptOrder bs = .error e := by rintro ⟨e, he⟩; rw [hg] at he; simp at he
    rw [h] at this
    exact ⟨fun a => this (Or.inl a), fun a => this (Or.inr (Or.inl a)), fun a => this (Or.inr (Or.inr a))⟩
  · rintro ⟨h1, h2, h3⟩
    cases hg : genScriptOrder bs with
    | ok r => exact ⟨r.1, r.2, rfl⟩
    | error e =>
      rcases h.1 ⟨e, hg⟩ with a | a | a
      · exact absurd a h1
      · exact absurd a h2
      · exact absurd a h3

/-- **C15.self_dep_refused** — a block that lists itself is a cycle of length one. -/
theorem self_dep_refused (bs : List JB) (b : JB) (hb : b ∈ bs) (hself : b.name ∈ b.deps) :
    ∃ e, genScriptOrder bs = .error e := by
  rw [refused_iff]
  refine Or.inr (Or.inr ⟨b.name, Path.single _ _ ⟨?_, ?_⟩⟩)
  · simp only [names, List.mem_map]; exact ⟨b, hb, rfl⟩
  · exact (mem_depsOf bs b.name b.name).2 ⟨b, hb, rfl, hself⟩

theorem path_of_go (bs : List JB) (first : String) : ∀ (l : List String) (cur : String),
    IsCycleList.go bs first cur l → Path bs cur first := by
  intro l
  induction l with
  | nil => intro cur h; exact Path.single _ _ h
  | cons m l ih => intro cur h; exact Path.cons _ _ _ h.1 (ih m h.2)

theorem go_of_path (bs : List JB) (a b : String) (h : Path bs a b) : ∃ l, IsCycleList.go bs b a l := by
  induction h with
  | single n d e => exact ⟨[], e⟩
  | cons n m d e _ ih => obtain ⟨l, hl⟩ := ih; exact ⟨m :: l, e, hl⟩

/-- **C15.hasCycle_iff_list** — a cycle is a closed walk `n₀ → n₁ → … → n_k → n₀` given by the list
of its vertices (decidable for a given list: what the counterexample search prints). -/
theorem hasCycle_iff_list (bs : List JB) : HasCycle bs ↔ ∃ c, IsCycleList bs c := by
  constructor
  · rintro ⟨n, hn⟩
    obtain ⟨l, hl⟩ := go_of_path bs n n hn
    exact ⟨n :: l, hl⟩
  · rintro ⟨c, hc⟩
    cases c with
    | nil => exact absurd hc (by simp [IsCycleList])
    | cons n l => exact ⟨n, path_of_go bs n l n hc⟩

/-- **C15.cycle_refused** — a closed walk of any length through the sent blocks is refused. -/
theorem cycle_refused (bs : List JB) (c : List String) (hc : IsCycleList bs c) :
    ∃ e, genScriptOrder bs = .error e := by
  rw [refused_iff]
  exact Or.inr (Or.inr ((hasCycle_iff_list bs).2 ⟨c, hc⟩))

/-- **C15.cycle_kind** — and the refusal is the cycle error unless one of the two errors checked
earlier applies. -/
theorem cycle_kind (bs : List JB) (hc : HasCycle bs) (h1 : ¬ Conflict bs) (h2 : ¬ Missing bs) :
    ∃ r, genScriptOrder bs = .error (.cycle r) := by
  obtain ⟨e, he, hk⟩ := (refusal_kind_iff bs .cycle).2 ⟨h1, h2, (cyclic_iff_hasCycle bs).2 hc⟩
  cases e with
  | cycle r => exact ⟨r, he⟩
  | conflict _ => simp [Err.kind] at hk
  | missing _ _ => simp [Err.kind] at hk
  | fuel => simp [Err.kind] at hk

/-! ### non-vacuity -/

/-- a cycle of length four, entered from outside, with a repeated block closing it -/
def exCycle : List JB :=
  [⟨"in", ["i"], ["p"]⟩, ⟨"p", ["1"], ["q"]⟩, ⟨"q", ["2"], ["r"]⟩, ⟨"r", ["3"], ["s"]⟩, ⟨"s", ["4"], []⟩,
   ⟨"s", ["4"], ["p"]⟩]

example : IsCycleList exCycle ["p", "q", "r", "s"] := by decide
example : ¬ Conflict exCycle ∧ ¬ Missing exCycle := by decide
example : (genScriptOrder exCycle).toOption = none := by decide
example : IsCycleList [⟨"a", ["x"], ["a"]⟩] ["a"] := by decide
example : ¬ Conflict ex1 ∧ ¬ Missing ex1 := by decide

end FaxVerif.C15
