/-
C15 — the fragment of the jinja2 template language used by `ATestRun_eljob.py`, as data.
`Generated/C15Template.lean` is written in these terms by the translator of `tools/props/c15.py`
from the tokens of jinja2's own lexer on every run.  No imports.
-/
namespace FaxVerif.C15

/-- inside a `{% for %}` body -/
inductive BItem where
  | text (s : String)
  | var (name : String)            -- `{{ name }}` without filters
  | unrecognised (s : String)      -- anything else (a filter, a test, a nested block, …)
deriving Repr, DecidableEq

inductive TItem where
  | text (s : String)
  | forEach (var seq : String) (body : List BItem)   -- `{% for var in seq %} body {% endfor %}`
  | unrecognised (s : String)
deriving Repr, DecidableEq

end FaxVerif.C15
