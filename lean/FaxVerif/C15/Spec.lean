/-
C15 — the property, stated directly on the list of blocks (independently of the model's table).
`SpecOk` is decidable: it is the theorem statement about the model *and* the oracle evaluated on
the implementation's output by the failing-input search.
-/
import FaxVerif.C15.Model
namespace FaxVerif.C15

def names (bs : List JB) : List String := bs.map (·.name)

/-- script of the first block carrying that name -/
def scriptOf (bs : List JB) (n : String) : List String :=
  match bs.find? (fun b => b.name == n) with
  | some b => b.script
  | none => []

/-- union (as a multiset: concatenation) of the dependencies of every block carrying that name -/
def depsOf (bs : List JB) (n : String) : List String :=
  (bs.filter (fun b => b.name == n)).flatMap (·.deps)

/-- same name, different script -/
def Conflict (bs : List JB) : Prop :=
  ∃ b₁ ∈ bs, ∃ b₂ ∈ bs, b₁.name = b₂.name ∧ b₁.script ≠ b₂.script

/-- a dependency on a block that was not sent -/
def Missing (bs : List JB) : Prop :=
  ∃ b ∈ bs, ∃ d ∈ b.deps, d ∉ names bs

/-- a non-empty set of sent blocks each of which depends on a member of the set
    (in a finite graph: equivalent to the existence of a dependency cycle) -/
def Cyclic (bs : List JB) : Prop :=
  ∃ R : List String, R ≠ [] ∧ ∀ n ∈ R, n ∈ names bs ∧ ∃ d ∈ depsOf bs n, d ∈ R

/-- The success clause of the property with its witness `π` (the order in which blocks were
emitted): every distinct block exactly once, contiguously and in order (`out` is the
concatenation of the scripts along `π`), every block after all blocks it depends on. -/
def SpecOk (bs : List JB) (π : List String) (out : List String) : Prop :=
  π.Nodup ∧ (∀ n ∈ π, n ∈ names bs) ∧ (∀ n ∈ names bs, n ∈ π) ∧
  out = π.flatMap (scriptOf bs) ∧
  ∀ n ∈ π, ∀ d ∈ depsOf bs n, d ∈ π ∧ π.idxOf d < π.idxOf n

instance (bs : List JB) (π out : List String) : Decidable (SpecOk bs π out) := by
  unfold SpecOk; exact inferInstance

instance (bs : List JB) : Decidable (Conflict bs) := by unfold Conflict; exact inferInstance
instance (bs : List JB) : Decidable (Missing bs) := by unfold Missing; exact inferInstance

/-! ### executable helpers for the failing-input search (not part of any theorem) -/

/-- Search for an emission order explaining `out`: depth-first over the not-yet-used names whose
dependencies are all used and whose script is a prefix of what is left. -/
def findOrder (bs : List JB) : Nat → List String → List String → List String → Option (List String)
  | 0, _, _, _ => none
  | fuel + 1, todo, used, rest =>
    if todo.isEmpty then (if rest.isEmpty then some used else none)
    else
      todo.findSome? fun n =>
        let s := scriptOf bs n
        if (depsOf bs n).all (· ∈ used) && s.isPrefixOf rest then
          findOrder bs fuel (todo.filter (· != n)) (used ++ [n]) (rest.drop s.length)
        else none

/-- Kahn-style acyclicity test, written independently of `loop`. -/
def acyclicB (bs : List JB) : Bool :=
  let ns := (names bs).eraseDups
  let rec go : Nat → List String → List String → Bool
    | 0, todo, _ => todo.isEmpty
    | fuel + 1, todo, done =>
      let ready := todo.filter fun n => (depsOf bs n).all (· ∈ done)
      if todo.isEmpty then true
      else if ready.isEmpty then false
      else go fuel (todo.filter (· ∉ ready)) (done ++ ready)
  go (ns.length + 1) ns []

end FaxVerif.C15
