/-
C15 — property theorems, part 2: determinism and stability of the emitted order.
All statements are over *all* finite lists of blocks; helper lemmas are in `OrderProofs.lean`.
-/
import FaxVerif.C15.OrderProofs
namespace FaxVerif.C15

/-- **C15.order_fifo** — *which* topological order is emitted: exactly the order of a first-in
first-out work list started with the distinct names in order of first arrival — take the head; if
all its (merged) dependencies have been emitted, emit it, otherwise put it back at the end. -/
theorem order_fifo (bs : List JB) (π out : List String) (h : genScriptOrder bs = .ok (π, out)) :
    Fifo (depsOf bs) [] (arrival bs) π := by
  cases hb : build bs [] with
  | error e => rw [gso_build_error bs e hb] at h; simp at h
  | ok t =>
    have ht : TblInv bs t := by simpa using (build_inv bs [] [] tblInv_nil).1 t hb
    have hn : t.names = arrival bs := by
      have := build_names bs [] t hb
      simpa [Tbl.names, arrival_eq_foldl] using this
    cases hm : firstMissing t.names t with
    | some e => rw [gso_missing bs t e hb hm] at h; simp at h
    | none =>
      rw [gso_loop bs t hb hm] at h
      have := loop_fifo (depsOf bs) t ht.nodup ht.deps (t.length + 1) [] [] π out (emitInv_nil t) h
      have hp : pendingOf t.names [] = t.names := List.filter_eq_self.2 (by simp)
      rw [hp, hn] at this
      exact this

/-- **C15.order_unique** — the FIFO characterisation is exact: it admits one order only, so the
emitted order is a function of the arrival order and the merged dependency sets. -/
theorem order_unique (bs : List JB) (π out π' : List String) (h : genScriptOrder bs = .ok (π, out))
    (h' : Fifo (depsOf bs) [] (arrival bs) π') : π' = π :=
  fifo_unique _ _ _ _ _ h' (order_fifo bs π out h)

/-- **C15.canonical** — merging at full strength: a conflict-free list behaves exactly like the
list with one block per distinct name, in order of first arrival, carrying the script of the name
and *all* dependencies sent under the name. -/
theorem canonical (bs : List JB) (h : ¬ Conflict bs) :
    genScriptOrder bs = genScriptOrder ((arrival bs).map (canonBlock bs)) := by
  rw [gso_canon bs h]
  have := gso_mk (arrival bs) (scriptOf bs) (depsOf bs) (arrival_nodup bs)
  unfold canonBlock
  rw [this]; rfl

/-- **C15.order_congr** — determinism: the outcome (emitted order, text, kind of refusal) depends
on the blocks only through the order of first arrival of the names, the script of each name and
the *set* of dependencies of each name. -/
theorem order_congr (bs bs' : List JB) (ha : arrival bs = arrival bs')
    (hc : Conflict bs ↔ Conflict bs')
    (hs : ¬ Conflict bs → ∀ n ∈ arrival bs, scriptOf bs n = scriptOf bs' n)
    (hd : ∀ n ∈ arrival bs, ∀ d, d ∈ depsOf bs n ↔ d ∈ depsOf bs' n) :
    outcome (genScriptOrder bs) = outcome (genScriptOrder bs') := by
  by_cases hcf : Conflict bs
  · obtain ⟨n, hn⟩ := gso_of_conflict bs hcf
    obtain ⟨n', hn'⟩ := gso_of_conflict bs' (hc.1 hcf)
    rw [hn, hn']; rfl
  · rw [gso_canon bs hcf, gso_canon bs' (fun hh => hcf (hc.2 hh))]
    unfold canonT
    rw [← ha]
    exact runTbl_mk_congr _ _ _ _ _ (fun n hn => ⟨hs hcf n hn, hd n hn⟩)

/-- **C15.set_arrival_invariant** — two lists holding the same blocks (as sets: any number of
copies of each) whose names arrive in the same order have the same outcome. -/
theorem set_arrival_invariant (bs bs' : List JB) (hm : ∀ x, x ∈ bs ↔ x ∈ bs')
    (ha : arrival bs = arrival bs') : outcome (genScriptOrder bs) = outcome (genScriptOrder bs') := by
  apply order_congr bs bs' ha (conflict_of_mem_iff bs bs' hm)
  · intro hc n hn
    exact scriptOf_of_mem_iff bs bs' hm hc n ((mem_arrival bs n).1 hn)
  · intro n _ d
    exact depsOf_of_mem_iff bs bs' hm n d

/-- **C15.dup_invariant** — sending a block again (an identical copy, anywhere after a first
copy) changes nothing. -/
theorem dup_invariant (pre post : List JB) (b : JB) (hb : b ∈ pre) :
    outcome (genScriptOrder (pre ++ b :: post)) = outcome (genScriptOrder (pre ++ post)) := by
  apply set_arrival_invariant
  · intro x
    simp only [List.mem_append, List.mem_cons]
    constructor
    · rintro (h | rfl | h)
      · exact Or.inl h
      · exact Or.inl hb
      · exact Or.inr h
    · rintro (h | h)
      · exact Or.inl h
      · exact Or.inr (Or.inr h)
  · rw [arrival_append, arrival_append, List.foldl_cons]
    have : b.name ∈ arrival pre := (mem_arrival pre b.name).2 (by simp [names]; exact ⟨b, hb, rfl⟩)
    simp [stepName, this]

/-- what may change in a block without any effect: its dependency list, as long as the same
names occur in it (permutation, repetition) -/
def SameBlock (b b' : JB) : Prop :=
  b.name = b'.name ∧ b.script = b'.script ∧ ∀ d, d ∈ b.deps ↔ d ∈ b'.deps

theorem sameBlock_facts (bs bs' : List JB) (h : List.Forall₂ SameBlock bs bs') :
    names bs = names bs' ∧
    bs.map (fun b => (b.name, b.script)) = bs'.map (fun b => (b.name, b.script)) ∧
    (∀ n, scriptOf bs n = scriptOf bs' n) ∧ (∀ n d, d ∈ depsOf bs n ↔ d ∈ depsOf bs' n) := by
  induction h with
  | nil => simp [names, scriptOf, depsOf]
  | @cons b b' bs bs' hb _ ih =>
    obtain ⟨h1, h2, h3, h4⟩ := ih
    obtain ⟨hn, hs, hd⟩ := hb
    refine ⟨?_, ?_, ?_, ?_⟩
    · simp only [names, List.map_cons] at *; rw [hn, h1]
    · simp only [List.map_cons]; rw [hn, hs, h2]
    · intro n
      have := h3 n
      unfold scriptOf at *
      simp only [List.find?_cons]
      rw [hn]
      by_cases hh : b'.name = n
      · simp [hh, hs]
      · have hf : (b'.name == n) = false := by simpa using hh
        simp only [hf]; exact this
    · intro n d
      simp only [mem_depsOf, List.mem_cons] at *
      constructor
      · rintro ⟨x, (rfl | hx), hxn, hxd⟩
        · exact ⟨b', Or.inl rfl, hn ▸ hxn, (hd d).1 hxd⟩
        · obtain ⟨y, hy, r⟩ := (h4 n d).1 ⟨x, hx, hxn, hxd⟩
          exact ⟨y, Or.inr hy, r⟩
      · rintro ⟨x, (rfl | hx), hxn, hxd⟩
        · exact ⟨b, Or.inl rfl, hn ▸ hxn, (hd d).2 hxd⟩
        · obtain ⟨y, hy, r⟩ := (h4 n d).2 ⟨x, hx, hxn, hxd⟩
          exact ⟨y, Or.inr hy, r⟩

theorem conflict_iff_pairs (bs : List JB) :
    Conflict bs ↔ ∃ p ∈ bs.map (fun b => (b.name, b.script)), ∃ q ∈ bs.map (fun b => (b.name, b.script)),
      p.1 = q.1 ∧ p.2 ≠ q.2 := by
  unfold Conflict
  simp only [List.mem_map]
  constructor
  · rintro ⟨a, ha, b, hb, r⟩; exact ⟨_, ⟨a, ha, rfl⟩, _, ⟨b, hb, rfl⟩, r⟩
  · rintro ⟨_, ⟨a, ha, rfl⟩, _, ⟨b, hb, rfl⟩, r⟩; exact ⟨a, ha, b, hb, r⟩

/-- **C15.deps_invariant** — the `depends_on` lists may be permuted, and entries repeated or
un-repeated, block by block, without changing the outcome. -/
theorem deps_invariant (bs bs' : List JB) (h : List.Forall₂ SameBlock bs bs') :
    outcome (genScriptOrder bs) = outcome (genScriptOrder bs') := by
  obtain ⟨h1, h2, h3, h4⟩ := sameBlock_facts bs bs' h
  apply order_congr bs bs' (arrival_of_names bs bs' h1)
  · rw [conflict_iff_pairs, conflict_iff_pairs, h2]
  · intro _ n _; exact h3 n
  · intro n _ d; exact h4 n d

/-- **C15.deps_perm_invariant** — the special case named in the task: every `depends_on` list
replaced by a permutation of itself. -/
theorem deps_perm_invariant (bs : List JB) (σ : JB → List String) (hσ : ∀ b ∈ bs, (σ b).Perm b.deps) :
    outcome (genScriptOrder (bs.map fun b => { b with deps := σ b })) = outcome (genScriptOrder bs) := by
  apply deps_invariant
  induction bs with
  | nil => exact List.Forall₂.nil
  | cons b bs ih =>
    simp only [List.map_cons]
    refine List.Forall₂.cons ⟨rfl, rfl, fun d => (hσ b (by simp)).mem_iff⟩ (ih ?_)
    intro x hx; exact hσ x (by simp [hx])

/-- **C15.sorted_fixed** — stability: if the names already arrive in an order in which every
block comes after all its dependencies, that order is emitted unchanged (in a single pass). -/
theorem sorted_fixed (bs : List JB) (hc : ¬ Conflict bs)
    (hord : ∀ n ∈ arrival bs, ∀ d ∈ depsOf bs n,
      d ∈ arrival bs ∧ (arrival bs).idxOf d < (arrival bs).idxOf n) :
    genScriptOrder bs = .ok (arrival bs, (arrival bs).flatMap (scriptOf bs)) := by
  rw [gso_canon bs hc]
  exact runTbl_sorted (arrival bs) (scriptOf bs) (depsOf bs) (arrival_nodup bs)
    (fun n hn d hd => (hord n hn d hd).1) (fun n hn d hd => (hord n hn d hd).2)

/-- **C15.idempotent** — feeding the emitted order back (one merged block per name, in the order
just emitted) yields the same order and the same text. -/
theorem idempotent (bs : List JB) (π out : List String) (h : genScriptOrder bs = .ok (π, out)) :
    genScriptOrder (π.map (canonBlock bs)) = .ok (π, out) := by
  obtain ⟨hnd, _, _, htext, hord⟩ := sound bs π out h
  have := gso_mk π (scriptOf bs) (depsOf bs) hnd
  unfold canonBlock
  rw [this, htext]
  exact runTbl_sorted π (scriptOf bs) (depsOf bs) hnd
    (fun n hn d hd => (hord n hn d hd).1) (fun n hn d hd => (hord n hn d hd).2)

/-! ### permutation of the arrival order -/

/-- the kind of refusal the property prescribes for a list (priority: conflict, dangling, cycle) -/
def KindIs (bs : List JB) : Kind → Prop
  | .conflict => Conflict bs
  | .missing => ¬ Conflict bs ∧ Missing bs
  | .cycle => ¬ Conflict bs ∧ ¬ Missing bs ∧ Cyclic bs
  | .fuel => False

/-- **C15.refusal_kind_iff** — the model refuses with kind `k` exactly when the property
prescribes kind `k`. -/
theorem refusal_kind_iff (bs : List JB) (k : Kind) :
    (∃ e, genScriptOrder bs = .error e ∧ e.kind = k) ↔ KindIs bs k := by
  have fwd : ∀ e, genScriptOrder bs = .error e → KindIs bs e.kind := by
    intro e he
    rcases error_justified bs e he with ⟨n, rfl, h⟩ | ⟨d, f, rfl, h⟩ | ⟨r, rfl, h⟩
    · exact h
    · exact h
    · exact h
  constructor
  · rintro ⟨e, he, rfl⟩; exact fwd e he
  · intro hk
    have hbad : Conflict bs ∨ Missing bs ∨ Cyclic bs := by
      cases k with
      | conflict => exact Or.inl hk
      | missing => exact Or.inr (Or.inl hk.2)
      | cycle => exact Or.inr (Or.inr hk.2.2)
      | fuel => exact absurd hk id
    obtain ⟨e, he⟩ := (complete bs).2 hbad
    refine ⟨e, he, ?_⟩
    have hk' := fwd e he
    cases k <;> cases hek : e.kind <;> rw [hek] at hk' <;> simp only [KindIs] at hk hk' <;> first
      | rfl
      | exact absurd hk hk'.1
      | exact absurd hk' hk.1
      | exact absurd hk.2 hk'.2.1
      | exact absurd hk'.2 hk.2.1
      | exact hk.elim
      | exact hk'.elim

theorem cyclic_of_mem_iff (bs bs' : List JB) (h : ∀ x, x ∈ bs ↔ x ∈ bs') : Cyclic bs ↔ Cyclic bs' := by
  unfold Cyclic
  constructor
  · rintro ⟨R, hne, hR⟩
    refine ⟨R, hne, fun n hn => ?_⟩
    obtain ⟨h1, d, hd, hdR⟩ := hR n hn
    exact ⟨(names_of_mem_iff bs bs' h n).1 h1, d, (depsOf_of_mem_iff bs bs' h n d).1 hd, hdR⟩
  · rintro ⟨R, hne, hR⟩
    refine ⟨R, hne, fun n hn => ?_⟩
    obtain ⟨h1, d, hd, hdR⟩ := hR n hn
    exact ⟨(names_of_mem_iff bs bs' h n).2 h1, d, (depsOf_of_mem_iff bs bs' h n d).2 hd, hdR⟩

/-- **C15.perm_refusal_invariant** — whether a list is refused, and with which of the three
errors, does not depend on the arrival order (nor on the number of copies of a block). -/
theorem perm_refusal_invariant (bs bs' : List JB) (h : bs.Perm bs') (k : Kind) :
    (∃ e, genScriptOrder bs = .error e ∧ e.kind = k) ↔ (∃ e, genScriptOrder bs' = .error e ∧ e.kind = k) := by
  have hm : ∀ x, x ∈ bs ↔ x ∈ bs' := fun x => h.mem_iff
  rw [refusal_kind_iff, refusal_kind_iff]
  cases k <;> simp only [KindIs, conflict_of_mem_iff bs bs' hm, missing_of_mem_iff bs bs' hm,
    cyclic_of_mem_iff bs bs' hm]

/-- **C15.perm_ok** — how the order changes when the blocks arrive in another order: the same
blocks are emitted (the new order is a permutation of the old one and again satisfies the
specification); *which* permutation is fixed by `order_fifo` for the new arrival order.  It is in
general a different one: `arrival_order_matters_counterexample`. -/
theorem perm_ok (bs bs' : List JB) (h : bs.Perm bs') (π out : List String)
    (hg : genScriptOrder bs = .ok (π, out)) :
    ∃ π' out', genScriptOrder bs' = .ok (π', out') ∧ π.Perm π' ∧ SpecOk bs' π' out' ∧
      Fifo (depsOf bs') [] (arrival bs') π' := by
  cases hg' : genScriptOrder bs' with
  | error e =>
    exfalso
    obtain ⟨e0, he0, _⟩ := (perm_refusal_invariant bs bs' h e.kind).2 ⟨e, hg', rfl⟩
    rw [hg] at he0; simp at he0
  | ok r =>
    obtain ⟨π', out'⟩ := r
    have hs := sound bs π out hg
    have hs' := sound bs' π' out' hg'
    refine ⟨π', out', rfl, ?_, hs', order_fifo bs' π' out' hg'⟩
    rw [List.perm_ext_iff_of_nodup hs.1 hs'.1]
    intro a
    have hm : ∀ x, x ∈ bs ↔ x ∈ bs' := fun x => h.mem_iff
    constructor
    · intro ha; exact hs'.2.2.1 a ((names_of_mem_iff bs bs' hm a).1 (hs.2.1 a ha))
    · intro ha; exact hs.2.2.1 a ((names_of_mem_iff bs bs' hm a).2 (hs'.2.1 a ha))

/-- **C15.arrival_order_matters_counterexample** — the emitted order is *not* invariant under
permutation of the arrival order: two independent blocks are emitted in the order they arrive. -/
theorem arrival_order_matters_counterexample :
    ∃ bs bs' : List JB, bs.Perm bs' ∧
      (genScriptOrder bs).toOption = some (["a", "b"], ["run a", "run b"]) ∧
      (genScriptOrder bs').toOption = some (["b", "a"], ["run b", "run a"]) :=
  ⟨[⟨"a", ["run a"], []⟩, ⟨"b", ["run b"], []⟩], [⟨"b", ["run b"], []⟩, ⟨"a", ["run a"], []⟩],
    List.Perm.swap _ _ _, by decide, by decide⟩

/-- **C15.dup_before_first_counterexample** — the side condition of `dup_invariant` (the copy
comes after a first copy) is needed: a copy put in front changes the arrival order of the names
and with it the emitted order. -/
theorem dup_before_first_counterexample :
    (genScriptOrder [⟨"a", ["run a"], []⟩, ⟨"b", ["run b"], []⟩]).toOption = some (["a", "b"], ["run a", "run b"]) ∧
    (genScriptOrder [⟨"b", ["run b"], []⟩, ⟨"a", ["run a"], []⟩, ⟨"b", ["run b"], []⟩]).toOption
      = some (["b", "a"], ["run b", "run a"]) := by
  constructor <;> decide

/-- **C15.not_kahn_counterexample** — the order is not "always the earliest-arrived ready block":
after `y` the scan goes on to `w` although `x` (arrived first) has just become ready. -/
theorem not_kahn_counterexample :
    (genScriptOrder [⟨"x", ["X"], ["y"]⟩, ⟨"y", ["Y"], []⟩, ⟨"w", ["W"], []⟩]).toOption
      = some (["y", "w", "x"], ["Y", "W", "X"]) := by decide

/-! ### non-vacuity -/

example : Fifo (depsOf ex1) [] (arrival ex1) ["a", "b", "c", "d"] := by
  have : genScriptOrder ex1 = .ok (["a", "b", "c", "d"], ["run a", "run b1", "run b2", "run d"]) := by
    have h : (genScriptOrder ex1).toOption = some (["a", "b", "c", "d"], ["run a", "run b1", "run b2", "run d"]) := by decide
    cases hr : genScriptOrder ex1 with
    | error e => rw [hr] at h; simp [Except.toOption] at h
    | ok r => rw [hr] at h; simp only [Except.toOption, Option.some.injEq] at h; rw [h]
  exact order_fifo _ _ _ this
example : arrival ex1 = ["d", "b", "c", "a"] := by decide
example : ¬ Conflict ex1 := by decide
example : fifoOrder ex1 = some ["a", "b", "c", "d"] := by decide
/-- an input meeting the hypotheses of `sorted_fixed` with a repeated block -/
example : let bs : List JB := [⟨"a", ["x"], []⟩, ⟨"b", ["y"], ["a"]⟩, ⟨"a", ["x"], []⟩, ⟨"c", [], ["b", "a"]⟩]
    ¬ Conflict bs ∧ ∀ n ∈ arrival bs, ∀ d ∈ depsOf bs n,
      d ∈ arrival bs ∧ (arrival bs).idxOf d < (arrival bs).idxOf n := by decide
example : List.Forall₂ SameBlock [⟨"a", ["x"], ["b", "c"]⟩] [⟨"a", ["x"], ["c", "b", "c"]⟩] :=
  List.Forall₂.cons ⟨rfl, rfl, by intro d; simp only [List.mem_cons, List.mem_nil_iff, or_false]; grind⟩ List.Forall₂.nil
example : KindIs [⟨"a", ["x"], ["b"]⟩, ⟨"b", ["y"], ["a"]⟩] .cycle :=
  ⟨by decide, by decide, ["a", "b"], by simp, by decide⟩

end FaxVerif.C15
