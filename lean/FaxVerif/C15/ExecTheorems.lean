/-
C15 — property theorems, part 4: the executor-level path (several `MetaData` calls, several
`apply_ast_transformations` calls, merging before the graph is built) and the rendering into
`ATestRun_eljob.py`.
-/
import FaxVerif.C15.RefusalTheorems
import FaxVerif.C15.ModelExec
namespace FaxVerif.C15

/-! ## metadata processing -/

theorem processMd_ok (mds : List Md) (h : ∀ md ∈ mds, md ≠ .bad) : processMd mds = .ok (jobBlocks mds) := by
  induction mds with
  | nil => rfl
  | cons md mds ih =>
    have ih' := ih (fun m hm => h m (by simp [hm]))
    cases md with
    | bad => exact absurd rfl (h .bad (by simp))
    | other => exact ih'
    | jobScript n s d => simp [processMd, ih', jobBlocks, Md.toJB?]

theorem processMd_bad (mds : List Md) (h : .bad ∈ mds) : processMd mds = .error .metadata := by
  induction mds with
  | nil => simp at h
  | cons md mds ih =>
    cases md with
    | bad => rfl
    | other => simp only [List.mem_cons, reduceCtorEq, false_or] at h; simpa [processMd] using ih h
    | jobScript n s d =>
      simp only [List.mem_cons, reduceCtorEq, false_or] at h
      simp [processMd, ih h]

theorem jobBlocks_append (a b : List Md) : jobBlocks (a ++ b) = jobBlocks a ++ jobBlocks b := by
  simp [jobBlocks, List.filterMap_append]

theorem applyAll_ok (qs : List Q) : ∀ (x : Exec), (∀ md ∈ allMd qs, md ≠ .bad) →
    x.applyAll qs = (none, ⟨x.blocks ++ jobBlocks (allMd qs)⟩) := by
  induction qs with
  | nil => intro x _; simp [Exec.applyAll, allMd, jobBlocks]
  | cons q qs ih =>
    intro x h
    have h1 : ∀ md ∈ extract q, md ≠ .bad := fun m hm => h m (by simp [allMd, hm])
    have h2 : ∀ md ∈ allMd qs, md ≠ .bad := fun m hm => h m (by
      simp only [allMd, List.flatMap_cons, List.mem_append]; exact Or.inr hm)
    unfold Exec.applyAll Exec.apply
    rw [processMd_ok _ h1]
    simp only
    rw [ih _ h2]
    simp [allMd, jobBlocks_append, List.append_assoc]

theorem applyAll_bad (qs : List Q) : ∀ (x : Exec), .bad ∈ allMd qs → ∃ x', x.applyAll qs = (some .metadata, x') := by
  induction qs with
  | nil => intro x h; simp [allMd] at h
  | cons q qs ih =>
    intro x h
    unfold Exec.applyAll Exec.apply
    by_cases hq : .bad ∈ extract q
    · rw [processMd_bad _ hq]; exact ⟨x, rfl⟩
    · rw [processMd_ok _ (fun m hm hb => hq (hb ▸ hm))]
      simp only
      apply ih
      simp only [allMd, List.flatMap_cons, List.mem_append] at h
      rcases h with h | h
      · exact absurd h hq
      · exact h

/-! ## rendering -/

theorem renderLoop_std (v a b : String) (adds : List String) :
    renderLoop v [.text a, .var v, .text b] adds = some (adds.flatMap fun l => [a, l, b]) := by
  induction adds with
  | nil => rfl
  | cons l ls ih => simp [renderLoop, renderBody, ih]

/-- **C15.template_shape** (tie T, re-checked on every run against the template's source): the job
options template is text, one filter-free loop over `job_option_additions` whose body prints the
loop variable between two pieces of text, text. -/
theorem template_shape :
    Gen.eljobItems = [.text P.pre, .forEach P.var "job_option_additions" [.text P.a, .var P.var, .text P.b], .text P.post] := by
  rfl

/-- **C15.template_separators** — what the template puts around each line is a line break at
most (so lines stay whole lines and nothing but blank lines comes between them). -/
theorem template_separators :
    (P.a = "\n" ∨ P.a = "") ∧ (P.b = "\n" ∨ P.b = "") ∧ ¬ (P.a = "" ∧ P.b = "") := by decide

/-- **C15.render_exact** — the rendered file is: the text before the loop, then for every line of
the script, in order, the separator, the line unaltered, the separator; then the text after the
loop.  Nothing is dropped, repeated, reordered or inserted. -/
theorem render_exact (adds : List String) :
    renderT adds Gen.eljobItems = some ([P.pre] ++ (adds.flatMap fun l => [P.a, l, P.b]) ++ [P.post]) := by
  rw [template_shape]
  simp [renderT, renderLoop_std]

/-! ## the executor -/

theorem write_ok (x : Exec) (π lines : List String) (h : genScriptOrder x.blocks = .ok (π, lines)) :
    x.write = (.ok ⟨π, lines, [P.pre] ++ (lines.flatMap fun l => [P.a, l, P.b]) ++ [P.post]⟩, ⟨[]⟩) := by
  unfold Exec.write
  rw [h]
  simp only [render_exact]

theorem write_err (x : Exec) (e : Err) (h : genScriptOrder x.blocks = .error e) :
    x.write = (.error (.script e), x) := by
  unfold Exec.write
  rw [h]

theorem translate_eq (qs : List Q) (h : ∀ md ∈ allMd qs, md ≠ .bad) :
    translate qs = ((⟨jobBlocks (allMd qs)⟩ : Exec).write).1 := by
  unfold translate Exec.translate
  rw [applyAll_ok qs ⟨[]⟩ h]
  simp

/-- **C15.exec_sound** — end to end: when the translation of one or several queries on a fresh
executor succeeds, the blocks of *all* `add_job_script` items of *all* `MetaData` calls (outermost
call first, query after query) were merged as one list: the emitted order satisfies the
specification with respect to that list, is its FIFO order, the lines are the scripts along it, and
the job-options file holds exactly these lines, in this order, between the fixed texts. -/
theorem exec_sound (qs : List Q) (w : Written) (h : translate qs = .ok w) :
    let bs := jobBlocks (allMd qs)
    SpecOk bs w.order w.lines ∧ Fifo (depsOf bs) [] (arrival bs) w.order ∧
    w.chunks = [P.pre] ++ (w.lines.flatMap fun l => [P.a, l, P.b]) ++ [P.post] := by
  intro bs
  by_cases hb : .bad ∈ allMd qs
  · obtain ⟨x', hx⟩ := applyAll_bad qs ⟨[]⟩ hb
    simp [translate, Exec.translate, hx] at h
  · have hnb : ∀ md ∈ allMd qs, md ≠ .bad := fun m hm hh => hb (hh ▸ hm)
    rw [translate_eq qs hnb] at h
    cases hg : genScriptOrder bs with
    | error e => rw [write_err ⟨bs⟩ e hg] at h; simp at h
    | ok r =>
      obtain ⟨π, lines⟩ := r
      rw [write_ok ⟨bs⟩ π lines hg] at h
      simp only [Except.ok.injEq] at h
      subst h
      exact ⟨sound bs π lines hg, order_fifo bs π lines hg, rfl⟩

/-- **C15.exec_refused_iff** — with well-formed metadata, a translation is refused exactly when
the merged list of blocks has a name with two different scripts, a dangling dependency or a
dependency cycle — whichever `MetaData` calls or queries the blocks came from. -/
theorem exec_refused_iff (qs : List Q) (h : ∀ md ∈ allMd qs, md ≠ .bad) :
    let bs := jobBlocks (allMd qs)
    (∃ e, translate qs = .error e) ↔ (Conflict bs ∨ Missing bs ∨ HasCycle bs) := by
  intro bs
  rw [translate_eq qs h, ← refused_iff]
  constructor
  · rintro ⟨e, he⟩
    cases hg : genScriptOrder bs with
    | error e' => exact ⟨e', rfl⟩
    | ok r => rw [write_ok ⟨bs⟩ r.1 r.2 hg] at he; simp at he
  · rintro ⟨e, he⟩
    exact ⟨.script e, by rw [write_err ⟨bs⟩ e he]⟩

/-- **C15.template_never** — the model's artificial template error is never produced. -/
theorem template_never (qs : List Q) : translate qs ≠ .error .template := by
  by_cases hb : .bad ∈ allMd qs
  · obtain ⟨x', hx⟩ := applyAll_bad qs ⟨[]⟩ hb
    simp [translate, Exec.translate, hx]
  · have hnb : ∀ md ∈ allMd qs, md ≠ .bad := fun m hm hh => hb (hh ▸ hm)
    rw [translate_eq qs hnb]
    cases hg : genScriptOrder (jobBlocks (allMd qs)) with
    | error e => rw [write_err (⟨jobBlocks (allMd qs)⟩ : Exec) e hg]; simp
    | ok r => rw [write_ok (⟨jobBlocks (allMd qs)⟩ : Exec) r.1 r.2 hg]; simp

/-- **C15.exec_bad_metadata** — a rejected metadata item anywhere refuses the translation. -/
theorem exec_bad_metadata (qs : List Q) (h : .bad ∈ allMd qs) : translate qs = .error .metadata := by
  obtain ⟨x', hx⟩ := applyAll_bad qs ⟨[]⟩ h
  simp [translate, Exec.translate, hx]

theorem mem_jobBlocks (mds : List Md) (n : String) (s : List String) (d : Option (List String))
    (h : Md.jobScript n s d ∈ mds) : (⟨n, s, d.getD []⟩ : JB) ∈ jobBlocks mds := by
  simp only [jobBlocks, List.mem_filterMap]
  exact ⟨_, h, rfl⟩

/-- **C15.exec_conflict** — the same name with two different scripts, in whichever two `MetaData`
calls of whichever queries, is refused with the conflict error. -/
theorem exec_conflict (qs : List Q) (h : ∀ md ∈ allMd qs, md ≠ .bad) (n : String) (s s' : List String)
    (d d' : Option (List String)) (h1 : Md.jobScript n s d ∈ allMd qs) (h2 : Md.jobScript n s' d' ∈ allMd qs)
    (hne : s ≠ s') : ∃ m, translate qs = .error (.script (.conflict m)) := by
  have hc : Conflict (jobBlocks (allMd qs)) :=
    ⟨_, mem_jobBlocks _ n s d h1, _, mem_jobBlocks _ n s' d' h2, rfl, hne⟩
  obtain ⟨m, hm⟩ := gso_of_conflict _ hc
  exact ⟨m, by rw [translate_eq qs h, write_err (⟨jobBlocks (allMd qs)⟩ : Exec) _ hm]⟩

/-- **C15.exec_union** — the same name with the same script and different `depends_on` lists in
different `MetaData` calls: the block is emitted once, after every dependency of every copy. -/
theorem exec_union (qs : List Q) (w : Written) (h : translate qs = .ok w) (n : String) (s : List String)
    (ds : List String) (hmd : Md.jobScript n s (some ds) ∈ allMd qs) (d : String) (hd : d ∈ ds) :
    w.order.count n = 1 ∧ d ∈ w.order ∧ w.order.idxOf d < w.order.idxOf n ∧
    w.lines = w.order.flatMap (scriptOf (jobBlocks (allMd qs))) := by
  have hb : ¬ .bad ∈ allMd qs := by
    intro hb
    rw [exec_bad_metadata qs hb] at h; simp at h
  have hnb : ∀ md ∈ allMd qs, md ≠ .bad := fun m hm hh => hb (hh ▸ hm)
  rw [translate_eq qs hnb] at h
  cases hg : genScriptOrder (jobBlocks (allMd qs)) with
  | error e => rw [write_err (⟨jobBlocks (allMd qs)⟩ : Exec) e hg] at h; simp at h
  | ok r =>
    obtain ⟨π, lines⟩ := r
    rw [write_ok (⟨jobBlocks (allMd qs)⟩ : Exec) π lines hg] at h
    simp only [Except.ok.injEq] at h
    subst h
    have := merge _ π lines hg ⟨n, s, ds⟩ (mem_jobBlocks _ n s (some ds) hmd) d hd
    exact ⟨this.1, this.2.1, this.2.2, (sound _ π lines hg).2.2.2.1⟩

/-- **C15.session_ok** — a successful translation leaves the executor empty: the next translation
on the same executor behaves like one on a fresh executor. -/
theorem session_ok (qs : List Q) (rest : List (List Q)) (w : Written) (h : translate qs = .ok w) :
    session ⟨[]⟩ (qs :: rest) = .ok w :: session ⟨[]⟩ rest := by
  have hb : ¬ .bad ∈ allMd qs := by
    intro hb
    rw [exec_bad_metadata qs hb] at h; simp at h
  have hnb : ∀ md ∈ allMd qs, md ≠ .bad := fun m hm hh => hb (hh ▸ hm)
  have ht : (⟨[]⟩ : Exec).translate qs = (⟨jobBlocks (allMd qs)⟩ : Exec).write := by
    unfold Exec.translate
    rw [applyAll_ok qs ⟨[]⟩ hnb]; simp
  rw [translate_eq qs hnb] at h
  cases hg : genScriptOrder (jobBlocks (allMd qs)) with
  | error e => rw [write_err (⟨jobBlocks (allMd qs)⟩ : Exec) e hg] at h; simp at h
  | ok r =>
    rw [write_ok (⟨jobBlocks (allMd qs)⟩ : Exec) r.1 r.2 hg] at h
    simp only [session, ht, write_ok (⟨jobBlocks (allMd qs)⟩ : Exec) r.1 r.2 hg]
    simp only at h
    rw [h]

/-- **C15.session_refused_keeps_blocks** — the code as it stands: a refused script leaves before
`reset()`, so the blocks stay on the executor and the next translation on it starts from them. -/
theorem session_refused_keeps_blocks (qs : List Q) (rest : List (List Q)) (e : Err)
    (hnb : ∀ md ∈ allMd qs, md ≠ .bad) (hg : genScriptOrder (jobBlocks (allMd qs)) = .error e) :
    session ⟨[]⟩ (qs :: rest) = .error (.script e) :: session ⟨jobBlocks (allMd qs)⟩ rest := by
  have ht : (⟨[]⟩ : Exec).translate qs = (⟨jobBlocks (allMd qs)⟩ : Exec).write := by
    unfold Exec.translate
    rw [applyAll_ok qs ⟨[]⟩ hnb]; simp
  simp only [session, ht]
  rw [write_err (⟨jobBlocks (allMd qs)⟩ : Exec) e hg]

/-! ### non-vacuity -/

/-- two queries; the first carries two nested `MetaData` calls (the outer one repeats block `b`
with another dependency and leaves `depends_on` out for `a`), the second one sits inside a call -/
def exQs : List Q :=
  [.metaData (.jobScript "b" ["run b"] (some ["a"])) (.metaData .other (.metaData (.jobScript "a" ["run a"] none) .ds)),
   .call [.ds, .metaData (.jobScript "b" ["run b"] (some ["c"])) (.call [.metaData (.jobScript "c" [] none) .ds])]]

example : allMd exQs = [.jobScript "b" ["run b"] (some ["a"]), .other, .jobScript "a" ["run a"] none,
    .jobScript "b" ["run b"] (some ["c"]), .jobScript "c" [] none] := by decide
example : (translate exQs).toOption.map (fun w => (w.order, w.lines)) = some (["a", "c", "b"], ["run a", "run b"]) := by
  decide
example : ∃ m, translate [.metaData (.jobScript "a" ["x"] none) (.metaData (.jobScript "a" ["y"] none) .ds)]
    = .error (.script (.conflict m)) := ⟨"a", by rfl⟩

end FaxVerif.C15
