/-
C15 — specification-level notions for the extension theorems (determinism / stability of the
emitted order, exact refusal condition).  No Mathlib; everything is stated on the list of blocks,
independently of the model's table.
-/
import FaxVerif.C15.Spec
namespace FaxVerif.C15

/-- The distinct names in order of first arrival. -/
def arrival (bs : List JB) : List String :=
  bs.foldl (fun acc b => if b.name ∈ acc then acc else acc ++ [b.name]) []

/-- One block per distinct name: the first script seen under the name and all dependencies sent
under the name. -/
def canonBlock (bs : List JB) (n : String) : JB := ⟨n, scriptOf bs n, depsOf bs n⟩

/-- The table every conflict-free block list is reduced to (theorem `canonical`). -/
def mkTbl (ns : List String) (sc dp : String → List String) : Tbl :=
  ns.map fun n => ⟨n, sc n, dp n⟩

def canonT (bs : List JB) : Tbl := mkTbl (arrival bs) (scriptOf bs) (depsOf bs)

/-- What `generate_script_block` does once the table is there: dangling check, emission loop. -/
def runTbl (t : Tbl) : Except Err (List String × List String) :=
  match firstMissing t.names t with
  | some e => .error e
  | none => loop t (t.length + 1) [] []

/-- The observable part of a refusal: which of the three documented errors (the Python raises
`ValueError` for all three; the texts of the messages are not part of the property). -/
inductive Kind where
  | conflict | missing | cycle | fuel
deriving Repr, DecidableEq

def Err.kind : Err → Kind
  | .conflict _ => .conflict | .missing _ _ => .missing | .cycle _ => .cycle | .fuel => .fuel

/-- Result with the payload of the error forgotten. -/
def outcome {α : Type} : Except Err α → Except Kind α
  | .ok a => .ok a
  | .error e => .error e.kind

/-- `n` can be emitted now: not yet emitted, all its dependencies emitted. -/
def Ready (dp : String → List String) (seen : List String) (n : String) : Prop :=
  n ∉ seen ∧ ∀ d ∈ dp n, d ∈ seen

instance (dp : String → List String) (seen : List String) (n : String) : Decidable (Ready dp seen n) := by
  unfold Ready; exact inferInstance

/-- **The exact emission order**, as a first-in-first-out work list over the arrival order:
take the head of the queue; if all its dependencies have been emitted, emit it, otherwise put it
back at the end of the queue.  `Fifo dp seen queue π`: starting with `seen` emitted and `queue`
pending, the run ends with exactly `π` emitted.  The relation is functional (`fifo_unique`). -/
inductive Fifo (dp : String → List String) : List String → List String → List String → Prop where
  | done (seen : List String) : Fifo dp seen [] seen
  | emit (seen : List String) (n : String) (q π : List String) :
      Ready dp seen n → Fifo dp (seen ++ [n]) q π → Fifo dp seen (n :: q) π
  | defer (seen : List String) (n : String) (q π : List String) :
      ¬ Ready dp seen n → Fifo dp seen (q ++ [n]) π → Fifo dp seen (n :: q) π

/-- Executable FIFO work list (for the oracle on the implementation's output): `idle` counts the
consecutive deferrals; a full round of deferrals means that nothing can be emitted any more. -/
def fifoRun (dp : String → List String) : Nat → List String → List String → Nat → Option (List String)
  | 0, _, _, _ => none
  | _ + 1, seen, [], _ => some seen
  | fuel + 1, seen, n :: q, idle =>
    if idle > q.length then none
    else if decide (Ready dp seen n) then fifoRun dp fuel (seen ++ [n]) q 0
    else fifoRun dp fuel seen (q ++ [n]) (idle + 1)

/-- the FIFO order of a block list, computed independently of the model -/
def fifoOrder (bs : List JB) : Option (List String) :=
  let ns := arrival bs
  fifoRun (depsOf bs) ((ns.length + 1) * (ns.length + 1) + 1) [] ns 0

/-! ### dependency graph restricted to the blocks that were sent -/

/-- `n → d`: a block named `n` was sent and some block named `n` lists `d`. -/
def Edge (bs : List JB) (n d : String) : Prop := n ∈ names bs ∧ d ∈ depsOf bs n

instance (bs : List JB) (n d : String) : Decidable (Edge bs n d) := by unfold Edge; exact inferInstance

/-- a non-empty walk along dependency edges -/
inductive Path (bs : List JB) : String → String → Prop where
  | single (n d : String) : Edge bs n d → Path bs n d
  | cons (n m d : String) : Edge bs n m → Path bs m d → Path bs n d

/-- a dependency cycle of any length ≥ 1 (length 1: a block depending on itself) -/
def HasCycle (bs : List JB) : Prop := ∃ n, Path bs n n

/-- a closed walk given as the list of its vertices: `c = [n₀, n₁, …, n_k]`, edges
`n₀ → n₁ → … → n_k → n₀` -/
def IsCycleList (bs : List JB) : List String → Prop
  | [] => False
  | n :: rest => go n n rest
where
  go (first : String) : String → List String → Prop
    | cur, [] => Edge bs cur first
    | cur, m :: rest => Edge bs cur m ∧ go first m rest

instance (bs : List JB) : (first cur : String) → (l : List String) → Decidable (IsCycleList.go bs first cur l)
  | first, cur, [] => by unfold IsCycleList.go; exact inferInstance
  | first, cur, m :: rest => by
    unfold IsCycleList.go
    have := instDecidableGo bs first m rest
    exact inferInstance

instance (bs : List JB) (c : List String) : Decidable (IsCycleList bs c) := by
  cases c with
  | nil => unfold IsCycleList; exact inferInstance
  | cons n rest => unfold IsCycleList; exact inferInstance

end FaxVerif.C15
