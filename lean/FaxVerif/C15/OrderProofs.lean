/-
C15 — helper lemmas for the determinism / stability theorems (`OrderTheorems.lean`).
-/
import FaxVerif.C15.Theorems
import FaxVerif.C15.SpecOrder
namespace FaxVerif.C15

/-! ## arrival order -/

def stepName (acc : List String) (b : JB) : List String :=
  if b.name ∈ acc then acc else acc ++ [b.name]

theorem arrival_eq_foldl (bs : List JB) : arrival bs = bs.foldl stepName [] := rfl

theorem mem_foldl_step (bs : List JB) : ∀ (acc : List String) (n : String),
    n ∈ bs.foldl stepName acc ↔ n ∈ acc ∨ n ∈ names bs := by
  induction bs with
  | nil => intro acc n; simp [names]
  | cons b bs ih =>
    intro acc n
    simp only [List.foldl_cons, ih, names, List.map_cons, List.mem_cons]
    unfold stepName
    by_cases h : b.name ∈ acc
    · simp only [h, if_true]
      constructor
      · rintro (h1 | h1)
        · exact Or.inl h1
        · exact Or.inr (Or.inr h1)
      · rintro (h1 | h1 | h1)
        · exact Or.inl h1
        · subst h1; exact Or.inl h
        · exact Or.inr h1
    · simp only [h, if_false, List.mem_append, List.mem_singleton]
      constructor
      · rintro ((h1 | h1) | h1)
        · exact Or.inl h1
        · exact Or.inr (Or.inl h1)
        · exact Or.inr (Or.inr h1)
      · rintro (h1 | h1 | h1)
        · exact Or.inl (Or.inl h1)
        · exact Or.inl (Or.inr h1)
        · exact Or.inr h1

theorem mem_arrival (bs : List JB) (n : String) : n ∈ arrival bs ↔ n ∈ names bs := by
  rw [arrival_eq_foldl, mem_foldl_step]; simp

theorem nodup_foldl_step (bs : List JB) : ∀ (acc : List String), acc.Nodup → (bs.foldl stepName acc).Nodup := by
  induction bs with
  | nil => intro acc h; simpa using h
  | cons b bs ih =>
    intro acc h
    simp only [List.foldl_cons]
    apply ih
    unfold stepName
    by_cases hb : b.name ∈ acc
    · simpa [hb] using h
    · simp only [hb, if_false]
      rw [List.nodup_append]
      refine ⟨h, by simp, ?_⟩
      intro a ha c hc
      simp at hc; subst hc
      intro hac; subst hac; exact hb ha

theorem arrival_nodup (bs : List JB) : (arrival bs).Nodup :=
  nodup_foldl_step bs [] (by simp)

theorem arrival_append (a b : List JB) : arrival (a ++ b) = b.foldl stepName (arrival a) := by
  simp [arrival_eq_foldl, List.foldl_append]

/-- the arrival order only looks at the names -/
theorem arrival_of_names (bs bs' : List JB) (h : names bs = names bs') : arrival bs = arrival bs' := by
  have key : ∀ (l : List JB) (acc : List String),
      l.foldl stepName acc = (names l).foldl (fun acc n => if n ∈ acc then acc else acc ++ [n]) acc := by
    intro l
    induction l with
    | nil => intro acc; rfl
    | cons b l ih => intro acc; simp only [List.foldl_cons, names, List.map_cons]; exact ih _
  rw [arrival_eq_foldl, arrival_eq_foldl, key, key, h]

/-! ## the table is the canonical one -/

theorem build_names (bs : List JB) : ∀ (t t' : Tbl), build bs t = .ok t' →
    t'.names = bs.foldl stepName t.names := by
  induction bs with
  | nil => intro t t' h; simp [build] at h; subst h; rfl
  | cons b bs ih =>
    intro t t' h
    unfold build at h
    cases hadd : addBlock t b with
    | error e => rw [hadd] at h; simp at h
    | ok t1 =>
      rw [hadd] at h
      rw [ih t1 t' h]
      simp only [List.foldl_cons]
      congr 1
      unfold addBlock at hadd
      cases hg : t.get? b.name with
      | none =>
        rw [hg] at hadd
        simp only [Except.ok.injEq] at hadd
        subst hadd
        have hnot : b.name ∉ t.names := (get?_none_iff t b.name).1 hg
        have hs : stepName t.names b = t.names ++ [b.name] := by simp [stepName, hnot]
        rw [hs]
        simp [Tbl.names]
      | some e0 =>
        rw [hg] at hadd
        obtain ⟨he0, hn0⟩ := get?_some t b.name e0 hg
        have hmem : b.name ∈ t.names := by
          simp only [Tbl.names, List.mem_map]; exact ⟨e0, he0, hn0⟩
        by_cases hs : b.script = e0.script
        · simp only [hs, if_true, Except.ok.injEq] at hadd
          subst hadd
          rw [extend_names]; simp [stepName, hmem]
        · simp [hs] at hadd

theorem mkTbl_names (ns : List String) (sc dp : String → List String) : (mkTbl ns sc dp).names = ns := by
  simp [mkTbl, Tbl.names, Function.comp_def]

theorem mkTbl_length (ns : List String) (sc dp : String → List String) : (mkTbl ns sc dp).length = ns.length := by
  simp [mkTbl]

theorem mkTbl_cons (n : String) (ns : List String) (sc dp : String → List String) :
    mkTbl (n :: ns) sc dp = ⟨n, sc n, dp n⟩ :: mkTbl ns sc dp := rfl

theorem build_ok_eq_canon (bs : List JB) (t : Tbl) (hb : build bs [] = .ok t) : t = canonT bs := by
  have ht : TblInv bs t := by simpa using (build_inv bs [] [] tblInv_nil).1 t hb
  have hn : t.names = arrival bs := by
    have := build_names bs [] t hb
    simpa [Tbl.names, arrival_eq_foldl] using this
  unfold canonT mkTbl
  rw [← hn]
  simp only [Tbl.names, List.map_map]
  have : ∀ e ∈ t, e = ((fun n => (⟨n, scriptOf bs n, depsOf bs n⟩ : Entry)) ∘ fun x => x.name) e := by
    intro e he
    have h1 := ht.script e he
    have h2 := ht.deps e he
    cases e with
    | mk n s d => simp only [Function.comp] at *; simp [h1, h2]
  calc t = t.map id := by simp
    _ = _ := List.map_congr_left this

theorem build_of_noconf (bs : List JB) (h : ¬ Conflict bs) : build bs [] = .ok (canonT bs) := by
  cases hb : build bs [] with
  | error e => exact absurd ((build_inv bs [] [] tblInv_nil).2 e hb).1 (by simpa using h)
  | ok t => rw [build_ok_eq_canon bs t hb]

theorem gso_canon (bs : List JB) (h : ¬ Conflict bs) : genScriptOrder bs = runTbl (canonT bs) := by
  unfold genScriptOrder runTbl
  rw [build_of_noconf bs h]
  rfl

theorem gso_of_conflict (bs : List JB) (h : Conflict bs) : ∃ n, genScriptOrder bs = .error (.conflict n) := by
  cases hb : build bs [] with
  | error e =>
    obtain ⟨_, n, hn⟩ := (build_inv bs [] [] tblInv_nil).2 e hb
    exact ⟨n, by rw [gso_build_error bs e hb, hn]⟩
  | ok t =>
    have ht : TblInv bs t := by simpa using (build_inv bs [] [] tblInv_nil).1 t hb
    exact absurd h ht.noconf

/-! ## the run depends on the table through names, scripts and dependency *sets* -/

def SameOn (ns : List String) (sc dp sc' dp' : String → List String) : Prop :=
  ∀ n ∈ ns, sc n = sc' n ∧ ∀ d, d ∈ dp n ↔ d ∈ dp' n

theorem all_mem_congr (l l' seen : List String) (h : ∀ d, d ∈ l ↔ d ∈ l') :
    l.all (· ∈ seen) = l'.all (· ∈ seen) := by
  rw [Bool.eq_iff_iff]
  simp only [List.all_eq_true, decide_eq_true_eq]
  exact ⟨fun a d hd => a d ((h d).2 hd), fun a d hd => a d ((h d).1 hd)⟩

theorem pass_mk_congr (sc dp sc' dp' : String → List String) : ∀ (ns : List String) (s : PassSt),
    SameOn ns sc dp sc' dp' → pass (mkTbl ns sc dp) s = pass (mkTbl ns sc' dp') s := by
  intro ns
  induction ns with
  | nil => intro s _; rfl
  | cons n ns ih =>
    intro s h
    have hn := h n (by simp)
    have hr : SameOn ns sc dp sc' dp' := fun m hm => h m (by simp [hm])
    rw [mkTbl_cons, mkTbl_cons]
    unfold pass
    simp only
    rw [all_mem_congr (dp n) (dp' n) s.seen hn.2, hn.1]
    by_cases h1 : n ∈ s.seen
    · simp only [h1, if_true]; exact ih s hr
    · simp only [h1, if_false]
      by_cases h2 : (dp' n).all (· ∈ s.seen) = true
      · simp only [h2, if_true]; exact ih _ hr
      · simp only [h2]; exact ih s hr

theorem loop_mk_congr (ns : List String) (sc dp sc' dp' : String → List String)
    (h : SameOn ns sc dp sc' dp') : ∀ (fuel : Nat) (seen out : List String),
    loop (mkTbl ns sc dp) fuel seen out = loop (mkTbl ns sc' dp') fuel seen out := by
  intro fuel
  induction fuel with
  | zero => intro seen out; rfl
  | succ fuel ih =>
    intro seen out
    unfold loop
    rw [pass_mk_congr sc dp sc' dp' ns _ h, mkTbl_length, mkTbl_length, mkTbl_names, mkTbl_names]
    by_cases hl : seen.length < ns.length
    · simp only [hl, if_true]
      by_cases he : (pass (mkTbl ns sc' dp') ⟨seen, out, false⟩).emitted = true
      · simp only [he, if_true]; exact ih _ _
      · simp [he]
    · simp only [hl, if_false]

theorem firstMissing_mk_none (ns0 ns : List String) (sc dp : String → List String) :
    firstMissing ns0 (mkTbl ns sc dp) = none ↔ ∀ n ∈ ns, ∀ d ∈ dp n, d ∈ ns0 := by
  rw [firstMissing_none]
  simp [mkTbl]

theorem runTbl_mk_congr (ns : List String) (sc dp sc' dp' : String → List String)
    (h : SameOn ns sc dp sc' dp') :
    outcome (runTbl (mkTbl ns sc dp)) = outcome (runTbl (mkTbl ns sc' dp')) := by
  have hiff : firstMissing ns (mkTbl ns sc dp) = none ↔ firstMissing ns (mkTbl ns sc' dp') = none := by
    rw [firstMissing_mk_none, firstMissing_mk_none]
    exact ⟨fun a n hn d hd => a n hn d ((h n hn).2 d |>.2 hd), fun a n hn d hd => a n hn d ((h n hn).2 d |>.1 hd)⟩
  unfold runTbl
  rw [mkTbl_names, mkTbl_names, mkTbl_length, mkTbl_length]
  cases h1 : firstMissing ns (mkTbl ns sc dp) with
  | none =>
    rw [hiff.1 h1]
    simp only
    rw [loop_mk_congr ns sc dp sc' dp' h]
  | some e =>
    cases h2 : firstMissing ns (mkTbl ns sc' dp') with
    | none => rw [hiff.2 h2] at h1; simp at h1
    | some e' =>
      obtain ⟨_, _, _, _, _, he⟩ := firstMissing_some _ _ _ h1
      obtain ⟨_, _, _, _, _, he'⟩ := firstMissing_some _ _ _ h2
      simp [outcome, he, he', Err.kind]

/-! ## a table that is already in dependency order is emitted as it stands, in one pass -/

theorem idxOf_lt_length_append_left (pre rest : List String) (d : String)
    (h : (pre ++ rest).idxOf d < pre.length) : d ∈ pre := by
  rw [List.idxOf_append] at h
  by_cases hd : d ∈ pre
  · exact hd
  · simp only [hd, if_false] at h; omega

theorem pass_sorted (sc dp : String → List String) : ∀ (rest pre o : List String) (em : Bool),
    (pre ++ rest).Nodup →
    (∀ n ∈ rest, ∀ d ∈ dp n, (pre ++ rest).idxOf d < (pre ++ rest).idxOf n) →
    pass (mkTbl rest sc dp) ⟨pre, o, em⟩ = ⟨pre ++ rest, o ++ rest.flatMap sc, em || !rest.isEmpty⟩ := by
  intro rest
  induction rest with
  | nil => intro pre o em _ _; simp [mkTbl, pass]
  | cons n rest ih =>
    intro pre o em hnd hord
    have hn : n ∉ pre := by
      intro hp
      rw [List.nodup_append] at hnd
      exact hnd.2.2 n hp n (by simp) rfl
    have hidx : (pre ++ n :: rest).idxOf n = pre.length := by
      rw [List.idxOf_append]; simp [hn]
    have hdeps : (dp n).all (· ∈ pre) = true := by
      simp only [List.all_eq_true, decide_eq_true_eq]
      intro d hd
      have := hord n (by simp) d hd
      rw [hidx] at this
      exact idxOf_lt_length_append_left _ _ _ this
    rw [mkTbl_cons]
    unfold pass
    simp only [hn, if_false, hdeps, if_true]
    have hassoc : pre ++ [n] ++ rest = pre ++ n :: rest := by simp
    rw [ih (pre ++ [n]) (o ++ sc n) true (by rw [hassoc]; exact hnd)
      (by intro m hm d hd; rw [hassoc]; exact hord m (by simp [hm]) d hd)]
    simp [List.flatMap_cons]

theorem loop_sorted (ns : List String) (sc dp : String → List String) (hnd : ns.Nodup)
    (hord : ∀ n ∈ ns, ∀ d ∈ dp n, ns.idxOf d < ns.idxOf n) :
    loop (mkTbl ns sc dp) (ns.length + 1) [] [] = .ok (ns, ns.flatMap sc) := by
  cases ns with
  | nil => simp [loop, mkTbl]
  | cons n ns =>
    unfold loop
    rw [mkTbl_length]
    have hp := pass_sorted sc dp (n :: ns) [] [] false (by simpa using hnd) (by simpa using hord)
    simp only [List.nil_append] at hp
    simp only [List.length_nil, List.length_cons, Nat.zero_lt_succ, if_true, hp]
    simp only [List.isEmpty_cons, Bool.not_false, Bool.or_true, if_true]
    unfold loop
    simp [mkTbl_length]

theorem runTbl_sorted (ns : List String) (sc dp : String → List String) (hnd : ns.Nodup)
    (hmem : ∀ n ∈ ns, ∀ d ∈ dp n, d ∈ ns)
    (hord : ∀ n ∈ ns, ∀ d ∈ dp n, ns.idxOf d < ns.idxOf n) :
    runTbl (mkTbl ns sc dp) = .ok (ns, ns.flatMap sc) := by
  unfold runTbl
  rw [mkTbl_names, (firstMissing_mk_none ns ns sc dp).2 hmem, mkTbl_length]
  exact loop_sorted ns sc dp hnd hord

/-- a list of blocks with pairwise different names goes into the table as it stands -/
theorem build_mk (sc dp : String → List String) : ∀ (rest pre : List String), (pre ++ rest).Nodup →
    build (rest.map fun n => (⟨n, sc n, dp n⟩ : JB)) (mkTbl pre sc dp) = .ok (mkTbl (pre ++ rest) sc dp) := by
  intro rest
  induction rest with
  | nil => intro pre _; simp [build]
  | cons n rest ih =>
    intro pre hnd
    have hn : n ∉ pre := by
      intro hp
      rw [List.nodup_append] at hnd
      exact hnd.2.2 n hp n (by simp) rfl
    simp only [List.map_cons]
    unfold build
    have hg : (mkTbl pre sc dp).get? n = none := by
      rw [get?_none_iff, mkTbl_names]; exact hn
    have hadd : addBlock (mkTbl pre sc dp) ⟨n, sc n, dp n⟩ = .ok (mkTbl (pre ++ [n]) sc dp) := by
      unfold addBlock
      simp only [hg]
      simp [mkTbl]
    rw [hadd]
    simp only
    have hassoc : pre ++ [n] ++ rest = pre ++ n :: rest := by simp
    rw [ih (pre ++ [n]) (by rw [hassoc]; exact hnd), hassoc]

theorem gso_mk (ns : List String) (sc dp : String → List String) (hnd : ns.Nodup) :
    genScriptOrder (ns.map fun n => (⟨n, sc n, dp n⟩ : JB)) = runTbl (mkTbl ns sc dp) := by
  have hb := build_mk sc dp ns [] (by simpa using hnd)
  simp only [List.nil_append] at hb
  have hb' : build (ns.map fun n => (⟨n, sc n, dp n⟩ : JB)) [] = .ok (mkTbl ns sc dp) := hb
  unfold genScriptOrder runTbl
  rw [hb']
  rfl

/-! ## the emission loop is a FIFO work list -/

def pendingOf (ns seen : List String) : List String := ns.filter (· ∉ seen)

theorem pass_seen_sub (es : Tbl) : ∀ (s : PassSt) (n : String),
    n ∈ (pass es s).seen → n ∈ s.seen ∨ n ∈ es.names := by
  induction es with
  | nil => intro s n h; exact Or.inl (by simpa [pass] using h)
  | cons e es ih =>
    intro s n h
    unfold pass at h
    simp only [Tbl.names, List.map_cons, List.mem_cons]
    by_cases h1 : e.name ∈ s.seen
    · simp only [h1, if_true] at h
      rcases ih s n h with h | h
      · exact Or.inl h
      · exact Or.inr (Or.inr h)
    · simp only [h1, if_false] at h
      by_cases h2 : e.deps.all (· ∈ s.seen) = true
      · simp only [h2, if_true] at h
        rcases ih _ n h with h | h
        · simp only [List.mem_append, List.mem_singleton] at h
          rcases h with h | h
          · exact Or.inl h
          · exact Or.inr (Or.inl h)
        · exact Or.inr (Or.inr h)
      · simp only [h2] at h
        rcases ih s n h with h | h
        · exact Or.inl h
        · exact Or.inr (Or.inr h)

theorem pass_seen_mono (es : Tbl) : ∀ (s : PassSt) (n : String), n ∈ s.seen → n ∈ (pass es s).seen := by
  induction es with
  | nil => intro s n h; simpa [pass] using h
  | cons e es ih =>
    intro s n h
    unfold pass
    by_cases h1 : e.name ∈ s.seen
    · simp only [h1, if_true]; exact ih s n h
    · simp only [h1, if_false]
      by_cases h2 : e.deps.all (· ∈ s.seen) = true
      · simp only [h2, if_true]; exact ih _ n (by simp [h])
      · simp only [h2]; exact ih s n h

theorem filter_notin_append_single (l seen : List String) (n : String) (h : n ∉ l) :
    l.filter (· ∉ seen ++ [n]) = l.filter (· ∉ seen) := by
  apply List.filter_congr
  intro x hx
  have : x ≠ n := fun hh => h (hh ▸ hx)
  simp [this]

/-- One pass, read as FIFO steps: the pending blocks of the part still to be scanned are at the
head of the queue, followed by `D`; after the pass the queue is `D` followed by the blocks of this
part that were put back. -/
theorem pass_fifo (dp : String → List String) : ∀ (es : Tbl) (s : PassSt) (D π : List String),
    es.names.Nodup → (∀ e ∈ es, e.deps = dp e.name) →
    Fifo dp (pass es s).seen (D ++ pendingOf (Tbl.names es) (pass es s).seen) π →
    Fifo dp s.seen (pendingOf (Tbl.names es) s.seen ++ D) π := by
  intro es
  induction es with
  | nil => intro s D π _ _ h; simpa [pass, pendingOf, Tbl.names] using h
  | cons e es ih =>
    intro s D π hnd hdp h
    have hnd' : (Tbl.names es).Nodup := by
      simp only [Tbl.names, List.map_cons, List.nodup_cons] at hnd; exact hnd.2
    have hne : e.name ∉ Tbl.names es := by
      simp only [Tbl.names, List.map_cons, List.nodup_cons] at hnd; exact hnd.1
    have hdp' : ∀ e' ∈ es, e'.deps = dp e'.name := fun e' he' => hdp e' (by simp [he'])
    have hde : e.deps = dp e.name := hdp e (by simp)
    unfold pass at h
    by_cases h1 : e.name ∈ s.seen
    · simp only [h1, if_true] at h
      have hfin : e.name ∈ (pass es s).seen := pass_seen_mono es s _ h1
      have e1 : pendingOf (Tbl.names (e :: es)) (pass es s).seen = pendingOf (Tbl.names es) (pass es s).seen := by
        simp [pendingOf, Tbl.names, List.filter_cons, hfin]
      have e2 : pendingOf (Tbl.names (e :: es)) s.seen = pendingOf (Tbl.names es) s.seen := by
        simp [pendingOf, Tbl.names, List.filter_cons, h1]
      rw [e1] at h; rw [e2]
      exact ih s D π hnd' hdp' h
    · simp only [h1, if_false] at h
      have e2 : pendingOf (Tbl.names (e :: es)) s.seen = e.name :: pendingOf (Tbl.names es) s.seen := by
        simp [pendingOf, Tbl.names, List.filter_cons, h1]
      rw [e2]
      by_cases h2 : e.deps.all (· ∈ s.seen) = true
      · simp only [h2, if_true] at h
        have hready : Ready dp s.seen e.name := by
          refine ⟨h1, ?_⟩
          rw [← hde]; simpa using h2
        let s' : PassSt := { seen := s.seen ++ [e.name], out := s.out ++ e.script, emitted := true }
        have hfin : e.name ∈ (pass es s').seen := pass_seen_mono es s' _ (by simp [s'])
        have e1 : pendingOf (Tbl.names (e :: es)) (pass es s').seen = pendingOf (Tbl.names es) (pass es s').seen := by
          simp [pendingOf, Tbl.names, List.filter_cons, hfin]
        rw [e1] at h
        have := ih s' D π hnd' hdp' h
        have e3 : pendingOf (Tbl.names es) s'.seen = pendingOf (Tbl.names es) s.seen :=
          filter_notin_append_single _ _ _ hne
        rw [e3] at this
        exact Fifo.emit _ _ _ _ hready this
      · simp only [h2, Bool.false_eq_true, if_false] at h
        have hnready : ¬ Ready dp s.seen e.name := by
          rintro ⟨_, hall⟩
          apply h2
          rw [hde]; simpa using hall
        have hfin : e.name ∉ (pass es s).seen := by
          intro hh
          rcases pass_seen_sub es s _ hh with hh | hh
          · exact h1 hh
          · exact hne hh
        have e1 : pendingOf (Tbl.names (e :: es)) (pass es s).seen = e.name :: pendingOf (Tbl.names es) (pass es s).seen := by
          simp [pendingOf, Tbl.names, List.filter_cons, hfin]
        rw [e1] at h
        have := ih s (D ++ [e.name]) π hnd' hdp' (by simpa using h)
        apply Fifo.defer _ _ _ _ hnready
        simpa using this

theorem loop_fifo (dp : String → List String) (t : Tbl) (hnd : t.names.Nodup)
    (hdp : ∀ e ∈ t, e.deps = dp e.name) : ∀ (fuel : Nat) (seen out π o : List String),
    EmitInv t seen out → loop t fuel seen out = .ok (π, o) →
    Fifo dp seen (pendingOf t.names seen) π := by
  intro fuel
  induction fuel with
  | zero => intro seen out π o _ h; simp [loop] at h
  | succ fuel ih =>
    intro seen out π o hinv h
    unfold loop at h
    by_cases hlt : seen.length < t.length
    · simp only [hlt, if_true] at h
      by_cases hem : (pass t ⟨seen, out, false⟩).emitted = true
      · simp only [hem, if_true] at h
        have hinv' := pass_inv t hnd t (fun e he => he) ⟨seen, out, false⟩ hinv
        have := ih _ _ π o hinv' h
        have := pass_fifo dp t ⟨seen, out, false⟩ [] π hnd hdp (by simpa using this)
        simpa using this
      · simp [hem] at h
    · simp only [hlt, if_false, Except.ok.injEq, Prod.mk.injEq] at h
      obtain ⟨rfl, rfl⟩ := h
      have hcov : ∀ n ∈ t.names, n ∈ seen :=
        covers_of_length t.names seen hinv.nodup hinv.sub (by simp [Tbl.names]; omega)
      have : pendingOf t.names seen = [] := by
        simp only [pendingOf, List.filter_eq_nil_iff, decide_eq_true_eq, Classical.not_not]
        exact hcov
      rw [this]
      exact Fifo.done seen

theorem fifo_unique (dp : String → List String) (seen q π π' : List String)
    (h : Fifo dp seen q π) (h' : Fifo dp seen q π') : π = π' := by
  induction h with
  | done seen => cases h'; rfl
  | emit seen n q π hr _ ih =>
    cases h' with
    | emit _ _ _ _ _ h2 => exact ih h2
    | defer _ _ _ _ hn _ => exact absurd hr hn
  | defer seen n q π hn _ ih =>
    cases h' with
    | emit _ _ _ _ hr _ => exact absurd hr hn
    | defer _ _ _ _ _ h2 => exact ih h2

/-! ## membership-level facts used by the invariance theorems -/

theorem conflict_of_mem_iff (bs bs' : List JB) (h : ∀ x, x ∈ bs ↔ x ∈ bs') : Conflict bs ↔ Conflict bs' := by
  unfold Conflict
  constructor
  · rintro ⟨a, ha, b, hb, r⟩; exact ⟨a, (h a).1 ha, b, (h b).1 hb, r⟩
  · rintro ⟨a, ha, b, hb, r⟩; exact ⟨a, (h a).2 ha, b, (h b).2 hb, r⟩

theorem names_of_mem_iff (bs bs' : List JB) (h : ∀ x, x ∈ bs ↔ x ∈ bs') (n : String) :
    n ∈ names bs ↔ n ∈ names bs' := by
  simp only [names, List.mem_map]
  constructor
  · rintro ⟨x, hx, r⟩; exact ⟨x, (h x).1 hx, r⟩
  · rintro ⟨x, hx, r⟩; exact ⟨x, (h x).2 hx, r⟩

theorem depsOf_of_mem_iff (bs bs' : List JB) (h : ∀ x, x ∈ bs ↔ x ∈ bs') (n d : String) :
    d ∈ depsOf bs n ↔ d ∈ depsOf bs' n := by
  rw [mem_depsOf, mem_depsOf]
  constructor
  · rintro ⟨x, hx, r⟩; exact ⟨x, (h x).1 hx, r⟩
  · rintro ⟨x, hx, r⟩; exact ⟨x, (h x).2 hx, r⟩

theorem missing_of_mem_iff (bs bs' : List JB) (h : ∀ x, x ∈ bs ↔ x ∈ bs') : Missing bs ↔ Missing bs' := by
  unfold Missing
  constructor
  · rintro ⟨b, hb, d, hd, hn⟩
    exact ⟨b, (h b).1 hb, d, hd, fun hh => hn ((names_of_mem_iff bs bs' h d).2 hh)⟩
  · rintro ⟨b, hb, d, hd, hn⟩
    exact ⟨b, (h b).2 hb, d, hd, fun hh => hn ((names_of_mem_iff bs bs' h d).1 hh)⟩

theorem scriptOf_of_mem_iff (bs bs' : List JB) (h : ∀ x, x ∈ bs ↔ x ∈ bs') (hc : ¬ Conflict bs)
    (n : String) (hn : n ∈ names bs) : scriptOf bs n = scriptOf bs' n := by
  have hc' : ¬ Conflict bs' := fun hh => hc ((conflict_of_mem_iff bs bs' h).2 hh)
  simp only [names, List.mem_map] at hn
  obtain ⟨x, hx, rfl⟩ := hn
  rw [← script_eq_of_noconf bs hc x hx, ← script_eq_of_noconf bs' hc' x ((h x).1 hx)]

end FaxVerif.C15
