/-
C15 — model of the executor-level path around `generate_script_block` (no Mathlib):
`extract_metadata` (outermost `MetaData` call first, pre-order over the query tree),
`process_metadata` (an `add_job_script` item becomes a block, `depends_on` defaults to `[]`, other
accepted items produce no block, a rejected item raises before anything is stored),
`executor.apply_ast_transformations` (blocks are appended to `_job_option_blocks`),
`atlas_xaod_executor.add_to_replacement_dict` + `write_cpp_files` (script generated from all the
blocks gathered so far, rendered by the `ATestRun_eljob.py` template, `reset()` only on success).
-/
import FaxVerif.C15.Model
import FaxVerif.Generated.C15Template
namespace FaxVerif.C15

inductive Md where
  | jobScript (name : String) (script : List String) (deps : Option (List String))
  | other   -- accepted metadata of another type (no job-script block)
  | bad     -- metadata `process_metadata` rejects (unknown / missing `metadata_type`)
deriving Repr, DecidableEq

inductive Q where
  | ds
  | metaData (md : Md) (src : Q)  -- `MetaData(src, md)`
  | call (args : List Q)           -- any other node: children visited left to right

mutual
def extract : Q → List Md
  | .ds => []
  | .metaData md src => md :: extract src
  | .call args => extractL args
def extractL : List Q → List Md
  | [] => []
  | q :: qs => extract q ++ extractL qs
end

inductive XErr where
  | metadata           -- ValueError from process_metadata
  | script (e : Err)   -- ValueError from generate_script_block
  | template           -- never produced (theorem `template_never`)
deriving Repr, DecidableEq

def Md.toJB? : Md → Option JB
  | .jobScript n s d => some ⟨n, s, d.getD []⟩
  | _ => none

def processMd : List Md → Except XErr (List JB)
  | [] => .ok []
  | .bad :: _ => .error .metadata
  | .other :: r => processMd r
  | .jobScript n s d :: r =>
    match processMd r with
    | .ok bl => .ok (⟨n, s, d.getD []⟩ :: bl)
    | .error e => .error e

structure Exec where
  blocks : List JB     -- `_job_option_blocks`
deriving Repr

def Exec.apply (x : Exec) (q : Q) : Except XErr Exec :=
  match processMd (extract q) with
  | .ok bl => .ok ⟨x.blocks ++ bl⟩
  | .error e => .error e

/-- several `apply_ast_transformations` calls on one executor; stops at the first that raises,
keeping what the earlier ones stored -/
def Exec.applyAll : Exec → List Q → Option XErr × Exec
  | x, [] => (none, x)
  | x, q :: qs =>
    match x.apply q with
    | .ok x' => x'.applyAll qs
    | .error e => (some e, x)

/-! ### rendering (the output is kept as the list of text pieces; the file is their concatenation) -/

def renderBody (v line : String) : List BItem → Option (List String)
  | [] => some []
  | .text s :: r => (renderBody v line r).map (s :: ·)
  | .var n :: r => if n = v then (renderBody v line r).map (line :: ·) else none
  | .unrecognised _ :: _ => none

def renderLoop (v : String) (body : List BItem) : List String → Option (List String)
  | [] => some []
  | l :: ls =>
    match renderBody v l body, renderLoop v body ls with
    | some a, some b => some (a ++ b)
    | _, _ => none

def renderT (adds : List String) : List TItem → Option (List String)
  | [] => some []
  | .text s :: r => (renderT adds r).map (s :: ·)
  | .forEach v seq body :: r =>
    if seq = "job_option_additions" then
      match renderLoop v body adds, renderT adds r with
      | some a, some b => some (a ++ b)
      | _, _ => none
    else none
  | .unrecognised _ :: _ => none

structure Written where
  order : List String     -- emission order (not observable in Python)
  lines : List String     -- `job_option_additions`
  chunks : List String    -- pieces of the rendered `ATestRun_eljob.py`
deriving Repr, DecidableEq

def Exec.write (x : Exec) : Except XErr Written × Exec :=
  match genScriptOrder x.blocks with
  | .error e => (.error (.script e), x)          -- the exception leaves before `reset()`
  | .ok (π, lines) =>
    match renderT lines Gen.eljobItems with
    | some ch => (.ok ⟨π, lines, ch⟩, ⟨[]⟩)
    | none => (.error .template, x)

/-- one translation on an executor in state `x`: the `apply` calls, then `write_cpp_files` -/
def Exec.translate (x : Exec) (qs : List Q) : Except XErr Written × Exec :=
  match x.applyAll qs with
  | (some e, x') => (.error e, x')
  | (none, x') => x'.write

/-- a fresh executor -/
def translate (qs : List Q) : Except XErr Written := ((⟨[]⟩ : Exec).translate qs).1

/-- several translations on one executor -/
def session : Exec → List (List Q) → List (Except XErr Written)
  | _, [] => []
  | x, qs :: rest => (x.translate qs).1 :: session (x.translate qs).2 rest

/-- the job-script blocks of a list of metadata items, in order -/
def jobBlocks (mds : List Md) : List JB := mds.filterMap Md.toJB?

/-- all metadata of the queries of one translation, in the order the executor sees them -/
def allMd (qs : List Q) : List Md := qs.flatMap extract

/-! ### the pieces of the template (empty strings when the template has another shape: then
`template_shape` does not build) -/

structure Pieces where
  pre : String
  var : String
  a : String
  b : String
  post : String

def pieces : List TItem → Pieces
  | [.text pre, .forEach v _ [.text a, .var _, .text b], .text post] => ⟨pre, v, a, b, post⟩
  | _ => ⟨"", "", "", "", ""⟩

def P : Pieces := pieces Gen.eljobItems

end FaxVerif.C15
