/-
C15 — model of `func_adl_xAOD.common.meta_data.generate_script_block`.

The Python keeps two insertion-ordered dicts (`dependencies`, `block_lookup`) with the same key
order; the model keeps one ordered association list `Tbl` of `(name, script, deps)`.
No Mathlib; everything here is computable and is what the driver runs.
-/
namespace FaxVerif.C15

structure JB where
  name : String
  script : List String
  deps : List String
deriving Repr, DecidableEq, Inhabited

inductive Err where
  | conflict (name : String)
  | missing (dep : String) (from_ : String)
  | cycle (remaining : List String)
  | fuel            -- never produced (theorem `fuel_never`)
deriving Repr, DecidableEq

structure Entry where
  name : String
  script : List String
  deps : List String
deriving Repr, DecidableEq

abbrev Tbl := List Entry

def Tbl.get? (t : Tbl) (n : String) : Option Entry := t.find? (fun e => e.name == n)

def Tbl.names (t : Tbl) : List String := t.map (·.name)

/-- `dependencies[b.name].extend(b.depends_on)` on the entry named `n`. -/
def Tbl.extend (t : Tbl) (n : String) (ds : List String) : Tbl :=
  t.map fun e => if e.name == n then { e with deps := e.deps ++ ds } else e

/-- One iteration of the first `for b in blocks` loop. -/
def addBlock (t : Tbl) (b : JB) : Except Err Tbl :=
  match t.get? b.name with
  | none => .ok (t ++ [⟨b.name, b.script, b.deps⟩])
  | some e =>
    if b.script = e.script then .ok (t.extend b.name b.deps)
    else .error (.conflict b.name)

def build : List JB → Tbl → Except Err Tbl
  | [], t => .ok t
  | b :: bs, t => match addBlock t b with
    | .ok t' => build bs t'
    | .error e => .error e

/-- `for name, deps in dependencies.items(): for d in deps: if d not in dependencies: raise`. -/
def firstMissingIn (names : List String) (from_ : String) : List String → Option Err
  | [] => none
  | d :: ds => if d ∈ names then firstMissingIn names from_ ds else some (.missing d from_)

def firstMissing (names : List String) : Tbl → Option Err
  | [] => none
  | e :: es => match firstMissingIn names e.name e.deps with
    | some err => some err
    | none => firstMissing names es

structure PassSt where
  seen : List String      -- emitted names, in emission order (`seen_blocks`, a set in Python)
  out : List String       -- `script_text`
  emitted : Bool
deriving Repr

/-- One `for j in block_lookup.values()` pass; `seen` is updated inside the pass. -/
def pass : Tbl → PassSt → PassSt
  | [], s => s
  | e :: es, s =>
    if e.name ∈ s.seen then pass es s
    else if e.deps.all (· ∈ s.seen) then
      pass es { seen := s.seen ++ [e.name], out := s.out ++ e.script, emitted := true }
    else pass es s

/-- `while len(seen_blocks) < len(dependencies)`. -/
def loop (t : Tbl) : Nat → List String → List String → Except Err (List String × List String)
  | 0, _, _ => .error .fuel
  | fuel + 1, seen, out =>
    if seen.length < t.length then
      let s := pass t ⟨seen, out, false⟩
      if s.emitted then loop t fuel s.seen s.out
      else .error (.cycle (t.names.filter (· ∉ seen)))
    else .ok (seen, out)

/-- Returns the emission order together with the script text (Python returns only the text). -/
def genScriptOrder (bs : List JB) : Except Err (List String × List String) :=
  match build bs [] with
  | .error e => .error e
  | .ok t =>
    match firstMissing t.names t with
    | some e => .error e
    | none => loop t (t.length + 1) [] []

def genScript (bs : List JB) : Except Err (List String) :=
  match genScriptOrder bs with
  | .ok (_, out) => .ok out
  | .error e => .error e

end FaxVerif.C15
