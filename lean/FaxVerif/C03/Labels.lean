/-
C03 — the terminal of a query as a model: which (terminal form, label argument) pairs `call_ResultTTree`
accepts, what it books and which descriptor it returns.

The code modelled (`func_adl_xAOD/common/ast_to_cpp_translator.py`):

  * `_extract_column_names`: the second argument of `ResultTTree` after `ast.literal_eval` — ONE bare string is a
    list of one label ("A single name is returned as a list"), a list/tuple literal of strings is the labels, anything
    without a length (a number, `None`) makes `len()` raise;
  * `call_ResultTTree`: the values of the row — the fields of a tuple / list, anything else wrapped into a 1-tuple —
    are counted against the labels ("Number of columns (…) is not the same as labels (…)"), each value must have a
    tree type (`get_ttree_type`: a scalar, a vector, a vector of vectors), one class variable per (label, value), the
    booking statement on the tree named by the third argument, the descriptor
    `cpp_ttree_rep("ANALYSIS.root", tree_name, …)` — the fourth argument (file name) is not used — and a fill on
    that tree;
  * `get_as_ROOT`: the implicit terminal BECOMES such a call: a dict → tuple of its values with the list of its keys,
    a tuple → the list `col0…`, a single value → the BARE STRING `"col1"`; tree `<prefix>_tree`.

Types of the values come from the typing model (`Linq/Typing.lean`). No Mathlib. Executable: the driver
(`C03/TypingDriver.lean`, op `book`) evaluates `book` for every generated case; the check compares acceptance, names,
types, tree and descriptor with the real pipeline.
-/
import FaxVerif.Linq.Typing
namespace FaxVerif.C03
open FaxVerif.Linq

/-- the label argument of `ResultTTree` after `ast.literal_eval` -/
inductive LabelArg where
  | bare (s : String)          -- ONE bare string: `ResultTTree(seq, 'pt', 'tree', 'file')`
  | list (ls : List String)    -- a list (or tuple) literal of strings
  | scalar                     -- a literal that has no length (a number, `None`, `True`)
deriving Repr, DecidableEq, Inhabited

/-- `_extract_column_names` — "A single name is returned as a list." -/
def LabelArg.names : LabelArg → Option (List String)
  | .bare s => some [s]
  | .list ls => some ls
  | .scalar => none

/-- the values `call_ResultTTree` zips with the labels: the fields of a tuple / list; anything else (a single value —
and a dict, which is then refused for want of a tree type) as a 1-tuple -/
def seqValues : CTy → List CTy
  | .tup fs => fieldTypes fs
  | t => [t]

/-- `call_ResultTTree` up to the columns: the count check, then a tree type for every value -/
def callResultTTree (row : CTy) (arg : LabelArg) : Except String (List (String × CTy)) :=
  match arg.names with
  | none => .error "TypeError: object has no len()"
  | some labels =>
    if (seqValues row).length ≠ labels.length then
      .error s!"Number of columns ({(seqValues row).length}) is not the same as labels ({labels.length}) in TTree creation"
    else if allShapes (seqValues row) then .ok (labels.zip (seqValues row))
    else .error "a column is not a scalar, a vector or a vector of vectors of scalars"

/-- the decidable acceptance criterion (statement of `labels_accepted_iff`): every value has a tree type, and the
NUMBER OF LABELS the argument denotes — one for a bare string, whatever its length — is the number of values -/
def Accepts (row : CTy) : LabelArg → Bool
  | .bare _ => (seqValues row).length == 1 && allShapes (seqValues row)
  | .list ls => ls.length == (seqValues row).length && allShapes (seqValues row)
  | .scalar => false

/-- `get_as_ROOT`: the ResultTTree call the implicit terminal becomes — (row handed on, label argument) -/
def implicitCall : CTy → CTy × LabelArg
  | .dict fs => (.tup fs, .list (fieldNames fs))
  | .tup fs => (.tup fs, .list (defaultNames (fieldTypes fs).length 0))
  | t => (t, .bare "col1")

/-- how a query ends -/
inductive Terminal where
  | implicit                                          -- nothing: `get_as_ROOT` wraps it
  | explicit (arg : LabelArg) (tree file : String)    -- `ResultTTree(source, arg, tree, file)`
deriving Repr, Inhabited

/-- what the generated job books: the tree, its columns in order (each with its own storage of that type), and the
tree the fill statement names -/
structure Booking where
  tree : String
  columns : List (String × CTy)
  fill : String
deriving Repr

/-- what the caller gets back (`cpp_ttree_rep`) -/
structure Descriptor where
  treename : String
  filename : String
deriving Repr, DecidableEq

/-- the file the job writes: hard coded in the templates, so also in the descriptor -/
def outputFile : String := "ANALYSIS.root"

/-- (row, label argument, tree name) of the ResultTTree call a terminal stands for; `pfx` = the backend's prefix
(`atlas_xaod`, `cms_aod`, `cms_miniaod`) -/
def terminalCall (pfx : String) (row : CTy) : Terminal → CTy × LabelArg × String
  | .implicit => ((implicitCall row).1, (implicitCall row).2, pfx ++ "_tree")
  | .explicit arg tree _ => (row, arg, tree)

/-- booking and descriptor of a query with a terminal, or the refusal -/
def book (S : Sig) (pfx : String) (q : Query) (t : Terminal) : Except String (Booking × Descriptor) :=
  match rowType S q with
  | .error e => .error e
  | .ok row =>
    match callResultTTree (terminalCall pfx row t).1 (terminalCall pfx row t).2.1 with
    | .error e => .error e
    | .ok cols =>
      .ok ({ tree := (terminalCall pfx row t).2.2, columns := cols, fill := (terminalCall pfx row t).2.2 },
           { treename := (terminalCall pfx row t).2.2, filename := outputFile })

end FaxVerif.C03
