/-
C03 — methods declared with a tree type / a const-qualified return type: the column has the same element type in
every shape (scalar, vector, vector of vectors).
-/
import FaxVerif.C03.Declared
import FaxVerif.C03.TheoremsTyping
namespace FaxVerif.C03
open FaxVerif.Cpp FaxVerif.Linq

theorem cppName_nest (t : CTy) (d : Nat) : cppName (nest t (d + 1)) = "std::vector<" ++ cppName (nest t d) ++ ">" := by
  simp only [nest, cppName]

/-- **C03.column_text_of_shape** — the C++ type booked for `depth` nested sequences of a declared method's values is
`std::vector<` … `>` around ONE element type, the same at every depth. -/
theorem column_text_of_shape (rt : String) (tt : Option String) : ∀ d,
    cppName (nest (methodColTy rt tt) d) = columnText rt tt d
  | 0 => by simp only [nest, columnText]
  | d + 1 => by rw [cppName_nest, column_text_of_shape rt tt d]; simp only [columnText]

/-- **C03.tree_type_wins** — a declared tree type is the column's element type whatever the return type says; without
one it is the return type. -/
theorem tree_type_wins (rt tt : String) :
    methodColTy rt (some tt) = declTy tt ∧ methodColTy rt none = declTy rt := ⟨rfl, rfl⟩

/-- **C03.shape_keeps_element_type** — for every data model in which `name` is declared on `cls` with the column type
`methodColTy rt tt`: the call is a column of that type; a sequence of calls is a vector of it; a sequence of sequences
of calls a vector of vectors of it — the shape of the column never changes its element type (an enum declared to be
written as `int` is `int`, `std::vector<int>`, `std::vector<std::vector<int>>`). -/
theorem shape_keeps_element_type (S : Sig) (Γ : TyEnv) (o s ss : Query) (x y cls cls' kids name rt : String) (tt : Option String)
    (hm : S.method cls name = some (methodColTy rt tt)) :
    (typeOf S Γ o = .ok (.obj cls) → typeOf S Γ (.meth o name) = .ok (nest (methodColTy rt tt) 0)) ∧
    (typeOf S Γ s = .ok (.vec (.obj cls)) →
      typeOf S Γ (.select s x (.meth (.var x) name)) = .ok (nest (methodColTy rt tt) 1)) ∧
    (typeOf S Γ ss = .ok (.vec (.obj cls')) → S.method cls' kids = some (.vec (.obj cls)) →
      typeOf S Γ (.select ss y (.select (.meth (.var y) kids) x (.meth (.var x) name))) = .ok (nest (methodColTy rt tt) 2)) := by
  refine ⟨fun ho => by simp [typeOf, ho, hm, nest], fun hs => by simp [typeOf, hs, assoc, hm, nest], fun hss hk => ?_⟩
  simp [typeOf, hss, assoc, hk, hm, nest]

/-- the data model of the check: an enum written as `int`, a const enum written as `unsigned int`, a `const short` -/
example : (List.range 3).map (columnText "xAOD::Aa::Quality" (some "int")) =
    ["int", "std::vector<int>", "std::vector<std::vector<int>>"] := by decide +kernel
example : (List.range 3).map (columnText "const xAOD::Aa::Kind" (some "unsigned int")) =
    ["unsigned int", "std::vector<unsigned int>", "std::vector<std::vector<unsigned int>>"] := by decide +kernel
example : (List.range 3).map (columnText "const short" none) =
    ["short", "std::vector<short>", "std::vector<std::vector<short>>"] := by decide +kernel

/-- non-vacuity of `shape_keeps_element_type`: a data model with `ql` declared as an enum written as `int` -/
def exSigTree : Sig :=
  { exSig with meths := [("Aa", [("ql", methodColTy "xAOD::Aa::Quality" (some "int")), ("kids", .vec (.obj "Aa"))])] }
example : ((finalColumns exSigTree (.select .ds "e" (.tuple [
      .select (.coll (.var "e") "As" "ba") "j" (.meth (.var "j") "ql"),
      .select (.coll (.var "e") "As" "ba") "j" (.select (.meth (.var "j") "kids") "k" (.meth (.var "k") "ql"))]))).toOption.map
    fun cs => cs.map fun c => cppName c.2) = some ["std::vector<int>", "std::vector<std::vector<int>>"] := by decide +kernel

end FaxVerif.C03
