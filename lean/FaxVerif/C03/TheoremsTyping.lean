/-
C03 — "a column of the element type the expression has": the typing model of the query language
(`Linq/Typing.lean`) is SOUND for the reference semantics `Linq.denote`, for every query of the
language and every event of the data model; plus the facts about the final shape (names, order,
distinctness, width, labels) of `finalColumns` / `finalColumnsLabeled`.

`typeOf` / `finalColumns` are the oracle of the check (tools/props/c03.py asks the driver
`C03/TypingDriver.lean` for the expected names and C++ types of every generated query and
evaluates `SchemaOk` on the implementation's output against them); `type_soundness` is what makes
that oracle mean something: whatever value the query yields fits the column type the oracle demands.
-/
import FaxVerif.Linq.TypingProofs
namespace FaxVerif.C03
open FaxVerif.Cpp FaxVerif.Linq
variable {D : Type}

/-! ### data for the non-vacuity examples -/

/-- exact integers standing in for doubles (examples only) -/
def exNum : Num Int where
  ofInt := id
  ofDec := fun m _ => m
  add := (· + ·)
  sub := (· - ·)
  mul := (· * ·)
  div := Int.tdiv
  neg := fun x => -x
  lt := fun a b => decide (a < b)
  le := fun a b => decide (a ≤ b)
  eq := fun a b => decide (a = b)
  toInt := id
  fn := fun _ _ => none

def exSig : Sig where
  colls := [("As", "Aa")]
  meths := [("Aa", [("i", .int), ("f", .float), ("d", .double), ("b", .bool), ("vs", .vec .double), ("kids", .vec (.obj "Aa"))])]

def exObj (i : Int) (kids : List (Val Int)) : Val Int :=
  .obj "Aa" [("i", .int i), ("f", .dbl 1), ("d", .dbl 2), ("b", .bool true), ("vs", .vec [.dbl 1, .dbl 5]), ("kids", .vec kids)]

def exCtx : QCtx Int where
  N := exNum
  ev := { banks := [("ba", "AaContainer", .vec [exObj 3 [exObj 4 []], exObj 7 []])] }
  collTypes := [("As", "AaContainer")]

/-- `ds.Select(e -> {"n": e.As("ba").Count(), "half": e.As("ba").Select(j -> j.i() / 2), "vs": e.As("ba").Select(j -> j.vs())})` -/
def exQuery : Query :=
  .select .ds "e" (.dict ["n", "half", "vs"] [
    .count (.coll (.var "e") "As" "ba"),
    .select (.coll (.var "e") "As" "ba") "j" (.bin "/" (.meth (.var "j") "i") (.int 2)),
    .select (.coll (.var "e") "As" "ba") "j" (.meth (.var "j") "vs")])

/-- the same columns as a tuple -/
def exQueryT : Query :=
  .select .ds "e" (.tuple [
    .count (.coll (.var "e") "As" "ba"),
    .select (.coll (.var "e") "As" "ba") "j" (.bin "/" (.meth (.var "j") "i") (.int 2))])

example : eventOk exSig exCtx = true := by decide
example : ((finalColumns exSig exQuery).toOption.map fun cs => cs.map fun c => (c.1, cppName c.2)) =
    some [("n", "int"), ("half", "std::vector<double>"), ("vs", "std::vector<std::vector<double>>")] := by decide
example : ((finalColumns exSig exQueryT).toOption.map fun cs => cs.map fun c => (c.1, cppName c.2)) =
    some [("col0", "int"), ("col1", "std::vector<double>")] := by decide

/-! ### type soundness -/

/-- **C03.type_soundness** — for EVERY query `q` of the language, every event whose banks hold what the
data model declares (`eventOk`: objects whose methods return values of the declared kinds) and every
environment fitting the typing environment: if the typing rules give `q` the type `t` and `q` yields the
value `v` on the event, then `v` fits a column of type `t` (`hasCTy`: an integer fits `int`/`float`/`double`,
a floating value `float`/`double`, a boolean `bool`; every element of a sequence fits the element type;
nested sequences likewise). This is what "a column of the element type the expression has" means. -/
theorem type_soundness (S : Sig) (C : QCtx D) (hev : eventOk S C = true) (Γ : TyEnv) (ρ : LEnv D)
    (hρ : envOk S ρ Γ = true) (q : Query) (t : CTy) (v : Val D)
    (ht : typeOf S Γ q = .ok t) (hd : denote C ρ q = .ok v) : hasCTy S v t = true :=
  typeOf_sound hev q Γ ρ hρ t v ht hd

-- non-vacuity: a query that has a type AND a value on a well-formed event
example : (match typeOf exSig [] exQuery, denote exCtx [] exQuery with
    | .ok t, .ok v => hasCTy exSig v t && t == .vec (.dict (.fcons "n" .int (.fcons "half" (.vec .double) (.fcons "vs" (.vec (.vec .double)) .fnil))))
    | _, _ => false) = true := by decide +kernel

theorem rowType_ok {S : Sig} {q : Query} {row : CTy} (h : rowType S q = .ok row) : typeOf S [] q = .ok (.vec row) := by
  unfold rowType at h
  inv_at h; cases h; assumption

theorem typeOf_select_inv {S : Sig} {Γ : TyEnv} {s f : Query} {x : String} {t : CTy}
    (h : typeOf S Γ (.select s x f) = .ok t) :
    ∃ te tf, typeOf S Γ s = .ok (.vec te) ∧ typeOf S ((x, te) :: Γ) f = .ok tf ∧ t = .vec tf := by
  simp only [typeOf] at h
  inv_at h; cases h
  exact ⟨_, _, by assumption, by assumption, rfl⟩

theorem typeOf_dict_inv {S : Sig} {Γ : TyEnv} {keys : List String} {es : List Query} {t : CTy}
    (h : typeOf S Γ (.dict keys es) = .ok t) :
    ∃ ts, typeOfs S Γ es = .ok ts ∧ keys.length = ts.length ∧ t = .dict (mkFields keys ts) := by
  simp only [typeOf] at h
  inv_at h; cases h
  exact ⟨_, by assumption, by assumption, rfl⟩

theorem typeOf_tuple_inv {S : Sig} {Γ : TyEnv} {es : List Query} {t : CTy}
    (h : typeOf S Γ (.tuple es) = .ok t) :
    ∃ ts, typeOfs S Γ es = .ok ts ∧ t = .tup (mkFields (indexNames ts.length 0) ts) := by
  simp only [typeOf] at h
  inv_at h; cases h
  exact ⟨_, by assumption, rfl⟩

/-- **C03.columns_sound** — the property-level reading: every row the query yields on an event of the data
model has as many cells as the tree has columns, and each cell fits its column's type. -/
theorem columns_sound (S : Sig) (C : QCtx D) (hev : eventOk S C = true) (q : Query)
    (cols : List (String × CTy)) (rows : List (List (Val D)))
    (hc : finalColumns S q = .ok cols) (hr : denoteRows C q = .ok rows) :
    ∀ r ∈ rows, rowFits S r (cols.map (·.2)) = true := by
  unfold finalColumns at hc
  unfold denoteRows at hr
  inv_at hc; inv_at hr; cases hc; cases hr
  have hs := typeOf_sound hev q [] [] rfl _ _ (rowType_ok (by assumption)) (by assumption)
  simp only [hasCTy] at hs
  intro r hrm
  obtain ⟨v, hv, rfl⟩ := List.mem_map.mp hrm
  rw [List.map_snd_zip (by rw [rowFields_length]; exact Nat.le_refl _)]
  exact rowOf_fits (allCTy_iff.mp hs v hv) (by assumption)

/-- the same for explicit labels -/
theorem columns_sound_labeled (S : Sig) (C : QCtx D) (hev : eventOk S C = true) (q : Query) (labels : List String)
    (cols : List (String × CTy)) (rows : List (List (Val D)))
    (hc : finalColumnsLabeled S q labels = .ok cols) (hr : denoteRows C q = .ok rows) :
    ∀ r ∈ rows, rowFits S r (cols.map (·.2)) = true := by
  unfold finalColumnsLabeled at hc
  unfold denoteRows at hr
  inv_at hc; inv_at hr; cases hc; cases hr
  have hs := typeOf_sound hev q [] [] rfl _ _ (rowType_ok (by assumption)) (by assumption)
  simp only [hasCTy] at hs
  intro r hrm
  obtain ⟨v, hv, rfl⟩ := List.mem_map.mp hrm
  rw [List.map_snd_zip (by omega)]
  exact rowOf_fits (allCTy_iff.mp hs v hv) (by assumption)

example : (match finalColumns exSig exQuery, denoteRows exCtx exQuery with
    | .ok cols, .ok rows => rows.length == 1 && rows.all fun r => rowFits exSig r (cols.map (·.2))
    | _, _ => false) = true := by decide +kernel

/-! ### the rules the property names -/

/-- **C03.int_stays_int** — `+ - * %` of two integers, unary minus of an integer, `Count`, and `Sum` over
integers are `int`. -/
theorem int_stays_int (S : Sig) (Γ : TyEnv) (op : String) (hop : op ∈ arithOps) (a b s : Query)
    (ha : typeOf S Γ a = .ok .int) (hb : typeOf S Γ b = .ok .int) :
    typeOf S Γ (.bin op a b) = .ok .int ∧ typeOf S Γ (.neg a) = .ok .int ∧
    (∀ te, typeOf S Γ s = .ok (.vec te) → typeOf S Γ (.count s) = .ok .int) ∧
    (typeOf S Γ s = .ok (.vec .int) → typeOf S Γ (.sum s) = .ok .int) := by
  refine ⟨?_, ?_, ?_, ?_⟩
  · have h1 : op ≠ "/" := by rintro rfl; simp [arithOps] at hop
    have h2 : op ≠ "**" := by rintro rfl; simp [arithOps] at hop
    simp [typeOf, ha, hb, binTy, join, CTy.rank, h1, h2, hop]
  · simp [typeOf, ha, negTy]
  · intro te hs; simp [typeOf, hs]
  · intro hs; simp [typeOf, hs, sumTy, join, CTy.rank]

example : (typeOf exSig [("j", .obj "Aa")] (.bin "*" (.meth (.var "j") "i") (.int 2))).toOption = some .int := by decide +kernel

/-- the sum of a sequence has the element's type (`float` stays at least `float`, `double` stays `double`) -/
theorem sum_has_element_type (S : Sig) (Γ : TyEnv) (s : Query) (te : CTy) (hn : te.isNum = true)
    (hs : typeOf S Γ s = .ok (.vec te)) : typeOf S Γ (.sum s) = .ok te := by
  rcases isNum_cases hn with rfl | rfl | rfl <;> simp [typeOf, hs, sumTy, join, CTy.rank]

/-- **C03.division_is_floating** — real division (and `**`) is `double`, whatever the operands (also of two
integers), and it is typed whenever the operands are numbers. -/
theorem division_is_floating (S : Sig) (Γ : TyEnv) (a b : Query) :
    (∀ t, typeOf S Γ (.bin "/" a b) = .ok t → t = .double) ∧
    (∀ t, typeOf S Γ (.bin "**" a b) = .ok t → t = .double) ∧
    (∀ ta tb, typeOf S Γ a = .ok ta → typeOf S Γ b = .ok tb → ta.isNum = true → tb.isNum = true →
      typeOf S Γ (.bin "/" a b) = .ok .double) := by
  refine ⟨fun t h => ?_, fun t h => ?_, fun ta tb ha hb hna hnb => ?_⟩
  · simp only [typeOf] at h; inv_at h
    unfold binTy at h; inv_at h
    cases h; rfl
  · simp only [typeOf] at h; inv_at h
    unfold binTy at h; inv_at h
    cases h; rfl
  · rcases isNum_cases hna with rfl | rfl | rfl <;> rcases isNum_cases hnb with rfl | rfl | rfl <;>
      simp [typeOf, ha, hb, binTy, join, CTy.rank]

example : (typeOf exSig [("j", .obj "Aa")] (.bin "/" (.meth (.var "j") "i") (.int 2))).toOption = some .double := by decide +kernel

/-- **C03.conditional_is_floating** — a conditional expression is `double` (also with two integer arms). -/
theorem conditional_is_floating (S : Sig) (Γ : TyEnv) (c a b : Query) (t : CTy)
    (h : typeOf S Γ (.ite c a b) = .ok t) : t = .double := by
  simp only [typeOf] at h; inv_at h
  exact (iteTy_ok h).1

example : (typeOf exSig [("j", .obj "Aa")] (.ite (.meth (.var "j") "b") (.int 1) (.int 2))).toOption = some .double := by decide +kernel

/-- **C03.comparison_is_bool** — comparisons, `and`, `or`, `not` are `bool`. -/
theorem comparison_is_bool (S : Sig) (Γ : TyEnv) (op : String) (a b : Query) (t : CTy) :
    (typeOf S Γ (.cmp op a b) = .ok t → t = .bool) ∧ (typeOf S Γ (.and a b) = .ok t → t = .bool) ∧
    (typeOf S Γ (.or a b) = .ok t → t = .bool) ∧ (typeOf S Γ (.not a) = .ok t → t = .bool) := by
  refine ⟨fun h => ?_, fun h => ?_, fun h => ?_, fun h => ?_⟩
  · simp only [typeOf] at h; inv_at h
    unfold cmpTy at h; inv_at h; cases h; rfl
  · simp only [typeOf] at h; inv_at h; exact boolOpTy_ok h
  · simp only [typeOf] at h; inv_at h; exact boolOpTy_ok h
  · simp only [typeOf] at h; inv_at h
    unfold notTy at h; inv_at h; cases h; rfl

example : (typeOf exSig [("j", .obj "Aa")] (.cmp ">" (.meth (.var "j") "i") (.dbl 15 (-1)))).toOption = some .bool := by decide +kernel
example : (typeOf exSig [("j", .obj "Aa")] (.and (.meth (.var "j") "b") (.not (.meth (.var "j") "b")))).toOption = some .bool := by decide +kernel

/-- **C03.not_is_bool_of_a_number** — `not x` is `bool` whatever scalar `x` is: `not 2` is the boolean `False`,
which would not fit a column of the operand's type `int`. (`visit_UnaryOp` books `bool` for `not` since fix
ea7911a; before it kept the operand's type. The deterministic `typing-rules` stream of the check has `not` on
int / float / double operands.) -/
theorem not_is_bool_of_a_number :
    denote exCtx [] (.not (.int 2)) = .ok (.bool false) ∧ hasCTy exSig (.bool false : Val Int) .int = false ∧
    typeOf exSig [] (.not (.int 2)) = .ok .bool ∧
    (∀ (S : Sig) (Γ : TyEnv) (a : Query) (ta : CTy), typeOf S Γ a = .ok ta → ta.isScalar = true →
      typeOf S Γ (.not a) = .ok .bool) :=
  ⟨rfl, rfl, rfl, fun S Γ a ta ha hs => by simp [typeOf, ha, notTy, hs]⟩

/-- **C03.declared_type_kept** — a method call has exactly the type the data model declares for it, whatever C++
type that is (`short`, `unsigned int`, `size_t`, `long`, `char` … are kept by name: `cppName (declTy …)`), a
sequence of such calls is a vector of it, and the value an event of the data model holds for it fits that column. -/
theorem declared_type_kept (S : Sig) (Γ : TyEnv) (o s : Query) (x cls name : String) (t : CTy)
    (ho : typeOf S Γ o = .ok (.obj cls)) (hm : S.method cls name = some t) :
    typeOf S Γ (.meth o name) = .ok t ∧
    (typeOf S Γ s = .ok (.vec (.obj cls)) → typeOf S Γ (.select s x (.meth (.var x) name)) = .ok (.vec t)) := by
  refine ⟨by simp [typeOf, ho, hm], fun hs => ?_⟩
  simp [typeOf, hs, assoc, hm]

example : [declTy "const short", declTy "unsigned int", declTy "const size_t", declTy "long", declTy "const char",
    declTy "const float", declTy "int", declTy "const double", declTy " const bool "].map cppName =
    ["short", "unsigned int", "size_t", "long", "char", "float", "int", "double", "bool"] := by decide +kernel
example : cppName (.vec (.vec (declTy "const unsigned int"))) = "std::vector<std::vector<unsigned int>>" := by decide +kernel
example : hasCTy exSig (.int 3 : Val Int) (declTy "const short") = true ∧ hasCTy exSig (.dbl 3 : Val Int) (declTy "const short") = false ∧
    hasCTy exSig (.bool true : Val Int) (declTy "const short") = false := by decide +kernel

/-- **C03.fn_is_declared_floating** — a call of a user C++ function has the return type its metadata declares
(`float` stays `float`, `double` stays `double`; each function its OWN type), a function without a declaration
(<cmath>) is `double`; a function declared to return anything else has no type in this model (the reference
semantics `denote` gives every function a floating value). -/
theorem fn_is_declared_floating (S : Sig) (Γ : TyEnv) (f : String) (args : List Query) (t : CTy)
    (h : typeOf S Γ (.fn f args) = .ok t) :
    (t = .float ∨ t = .double) ∧ (∀ d, assoc S.fns f = some d → t = d) ∧ (assoc S.fns f = none → t = .double) := by
  simp only [typeOf] at h
  inv_at h
  refine ⟨fnTy_ok h, fun d hd => ?_, fun hn => ?_⟩
  · unfold fnTy at h; rw [hd] at h
    cases d <;> simp at h <;> exact h.symm
  · unfold fnTy at h; rw [hn] at h; cases h; rfl

example : (typeOf { exSig with fns := [("wpf", .float), ("vpf", .double)] } [("j", .obj "Aa")]
      (.tuple [.fn "wpf" [.meth (.var "j") "d"], .fn "vpf" [.meth (.var "j") "d", .meth (.var "j") "i"], .fn "sqrt" [.meth (.var "j") "f"]])).toOption =
    some (.tup (.fcons "0" .float (.fcons "1" .double (.fcons "2" .double .fnil)))) := by decide +kernel

/-! ### where the translator's own rule is NOT the type of Python's value (constructs outside the generated
stream; replayed on the real translator at /repo HEAD 1c4553a, see the report of this property) -/

/-- `visit_UnaryOp` gives `-x` (and `+x`) the operand's type. For a boolean operand Python computes an `int`
(`-True == -1`): the value does not fit the `bool` column the translator books (`typeOf` says `int`). -/
theorem neg_bool_counterexample :
    denote exCtx [] (.neg (.bool true)) = .ok (.int (-1)) ∧ hasCTy exSig (.int (-1) : Val Int) .bool = false ∧
    typeOf exSig [] (.neg (.bool true)) = .ok .int := ⟨rfl, rfl, rfl⟩

/-- `visit_IfExp` is always `double` (a STRING arm is refused since fix 6a224ae, any other arm is accepted): with
boolean arms the value is a boolean, which is not a floating value (`typeOf` assigns no type to such a
conditional, nor to one with a string arm). -/
theorem ite_bool_counterexample :
    denote exCtx [] (.ite (.bool true) (.bool true) (.bool false)) = .ok (.bool true) ∧
    hasCTy exSig (.bool true : Val Int) .double = false ∧
    (typeOf exSig [] (.ite (.bool true) (.bool true) (.bool false))).toOption = none := ⟨rfl, rfl, rfl⟩

/-! ### the final shape -/

theorem finalColumns_ok {S : Sig} {q : Query} {cols : List (String × CTy)} (h : finalColumns S q = .ok cols) :
    ∃ row, rowType S q = .ok row ∧ cols = (rowFields row).1.zip (rowFields row).2 ∧ allShapes (rowFields row).2 = true := by
  unfold finalColumns at h
  inv_at h; cases h
  exact ⟨_, by assumption, rfl, by assumption⟩

theorem typeOfs_length {S : Sig} {Γ : TyEnv} : ∀ {es : List Query} {ts : List CTy}, typeOfs S Γ es = .ok ts → ts.length = es.length
  | [], ts, h => by simp only [typeOfs] at h; cases h; rfl
  | e :: es, ts, h => by
    simp only [typeOfs] at h; inv_at h; cases h
    simp [typeOfs_length (es := es) (by assumption)]

/-- the row type of `….Select(x -> {k₁: e₁, …})` is the dict of those keys; of `….Select(x -> (e₁, …))` a tuple -/
theorem rowType_select_dict {S : Sig} {s : Query} {x : String} {keys : List String} {es : List Query} {row : CTy}
    (h : rowType S (.select s x (.dict keys es)) = .ok row) :
    ∃ ts, row = .dict (mkFields keys ts) ∧ keys.length = ts.length ∧ ts.length = es.length := by
  obtain ⟨te, tf, _, hf, ht⟩ := typeOf_select_inv (rowType_ok h)
  cases ht
  obtain ⟨ts, hts, hk, rfl⟩ := typeOf_dict_inv hf
  exact ⟨ts, rfl, hk, typeOfs_length hts⟩

theorem rowType_select_tuple {S : Sig} {s : Query} {x : String} {es : List Query} {row : CTy}
    (h : rowType S (.select s x (.tuple es)) = .ok row) :
    ∃ ts, row = .tup (mkFields (indexNames ts.length 0) ts) ∧ ts.length = es.length := by
  obtain ⟨te, tf, _, hf, ht⟩ := typeOf_select_inv (rowType_ok h)
  cases ht
  obtain ⟨ts, hts, rfl⟩ := typeOf_tuple_inv hf
  exact ⟨ts, rfl, typeOfs_length hts⟩

/-- **C03.final_names_order** — the columns are, in order: the dict's keys as written; `col0, col1, …` for a
tuple / list; `col1` for a single value. (General form on the row type, then the syntactic forms.) -/
theorem final_names_order (S : Sig) (q : Query) (cols : List (String × CTy)) (h : finalColumns S q = .ok cols) :
    ∃ row, rowType S q = .ok row ∧ cols.map (·.1) = (rowFields row).1 ∧ cols.map (·.2) = (rowFields row).2 ∧
      (∀ fs, row = .dict fs → cols.map (·.1) = fieldNames fs) ∧
      (∀ fs, row = .tup fs → ∀ i, i < cols.length → (cols.map (·.1))[i]? = some ("col" ++ natStr i)) ∧
      ((∀ fs, row ≠ .dict fs) → (∀ fs, row ≠ .tup fs) → cols.map (·.1) = ["col1"]) := by
  obtain ⟨row, hr, rfl, _⟩ := finalColumns_ok h
  have hl := rowFields_length row
  have h1 : ((rowFields row).1.zip (rowFields row).2).map (·.1) = (rowFields row).1 := List.map_fst_zip (by omega)
  have h2 : ((rowFields row).1.zip (rowFields row).2).map (·.2) = (rowFields row).2 := List.map_snd_zip (by omega)
  refine ⟨row, hr, h1, h2, ?_, ?_, ?_⟩
  · rintro fs rfl; rw [h1]; rfl
  · rintro fs rfl i hi
    rw [h1]
    simp only [rowFields, List.length_zip, defaultNames_length, Nat.min_self] at hi ⊢
    rw [defaultNames_get _ _ _ hi]; simp
  · intro hd ht
    rw [h1]
    cases row <;> first | rfl | exact absurd rfl (hd _) | exact absurd rfl (ht _)

theorem final_names_dict (S : Sig) (s : Query) (x : String) (keys : List String) (es : List Query)
    (cols : List (String × CTy)) (h : finalColumns S (.select s x (.dict keys es)) = .ok cols) :
    cols.map (·.1) = keys := by
  obtain ⟨row, hr, h1, _, hd, _, _⟩ := final_names_order S _ cols h
  obtain ⟨ts, rfl, hk, _⟩ := rowType_select_dict hr
  rw [hd _ rfl, fieldNames_mk _ _ (by omega)]

theorem final_names_tuple (S : Sig) (s : Query) (x : String) (es : List Query)
    (cols : List (String × CTy)) (h : finalColumns S (.select s x (.tuple es)) = .ok cols) :
    cols.map (·.1) = defaultNames es.length 0 := by
  obtain ⟨row, hr, h1, _, _, _, _⟩ := final_names_order S _ cols h
  obtain ⟨ts, rfl, hl⟩ := rowType_select_tuple hr
  rw [h1]
  simp only [rowFields]
  rw [fieldTypes_mk _ _ (by rw [indexNames_length]; exact Nat.le_refl _), hl]

example : ((finalColumns exSig exQuery).toOption.map fun cs => cs.map (·.1)) = some ["n", "half", "vs"] := by decide +kernel
example : defaultNames 3 0 = ["col0", "col1", "col2"] := by decide
example : ∀ n < 200, natStr n = toString n := by decide +kernel

/-- **C03.final_names_distinct_partial** — the positional default names (`col0…`, `col1`) are pairwise distinct;
the names of a dict are its keys as given, so they are distinct exactly when the keys are (the translator does
not reject a repeated key: hypothesis `keys.Nodup`). Full statement "the columns are pairwise distinct" is
false for `{"a": …, "a": …}` written as an AST. -/
theorem final_names_distinct_partial (S : Sig) (q : Query) (cols : List (String × CTy)) (h : finalColumns S q = .ok cols) :
    ∃ row, rowType S q = .ok row ∧
      ((∀ fs, row ≠ .dict fs) → (cols.map (·.1)).Nodup) ∧
      (∀ fs, row = .dict fs → ((cols.map (·.1)).Nodup ↔ (fieldNames fs).Nodup)) := by
  obtain ⟨row, hr, h1, _, hd, _, _⟩ := final_names_order S q cols h
  refine ⟨row, hr, fun hnd => ?_, fun fs hfs => by rw [hd fs hfs]⟩
  rw [h1]
  cases row <;> first
    | exact absurd rfl (hnd _)
    | exact defaultNames_nodup _ _
    | simp [rowFields]

/-- the syntactic form: with distinct keys the columns of `….Select(x -> {k₁: e₁, …})` are distinct -/
theorem final_names_distinct_dict (S : Sig) (s : Query) (x : String) (keys : List String) (es : List Query)
    (cols : List (String × CTy)) (h : finalColumns S (.select s x (.dict keys es)) = .ok cols) :
    (cols.map (·.1)).Nodup ↔ keys.Nodup := by
  rw [final_names_dict S s x keys es cols h]

example : (finalColumns exSig exQueryT).toOption.isSome = true := by decide +kernel

/-- **C03.width** — as many columns as the final expression has entries (dict / tuple / list), one for a single value. -/
theorem width (S : Sig) (s : Query) (x : String) (keys : List String) (es : List Query) (cols : List (String × CTy)) :
    (finalColumns S (.select s x (.dict keys es)) = .ok cols → cols.length = es.length ∧ cols.length = keys.length) ∧
    (finalColumns S (.select s x (.tuple es)) = .ok cols → cols.length = es.length) ∧
    (∀ q row, finalColumns S q = .ok cols → rowType S q = .ok row → (∀ fs, row ≠ .dict fs) → (∀ fs, row ≠ .tup fs) → cols.length = 1) := by
  refine ⟨fun h => ?_, fun h => ?_, fun q row h hr hd ht => ?_⟩
  · have := congrArg List.length (final_names_dict S s x keys es cols h)
    obtain ⟨row, hr, _⟩ := finalColumns_ok h
    obtain ⟨ts, _, hk, hl⟩ := rowType_select_dict hr
    simp only [List.length_map] at this
    omega
  · have := congrArg List.length (final_names_tuple S s x es cols h)
    simpa [defaultNames_length] using this
  · obtain ⟨row', hr', _, _, _, _, h1⟩ := final_names_order S q cols h
    rw [hr] at hr'; cases hr'
    have := congrArg List.length (h1 hd ht)
    simpa using this

/-- **C03.label_mismatch_refused** — explicit labels: a number of labels different from the number of columns is an
error; when accepted, the columns carry exactly the labels, in order, with the types of the default naming. -/
theorem label_mismatch_refused (S : Sig) (q : Query) (labels : List String) (row : CTy) (hr : rowType S q = .ok row) :
    (labels.length ≠ (rowFields row).2.length → (finalColumnsLabeled S q labels).toOption = none) ∧
    (∀ cols, finalColumnsLabeled S q labels = .ok cols →
      labels.length = (rowFields row).2.length ∧ cols.map (·.1) = labels ∧ cols.map (·.2) = (rowFields row).2) := by
  refine ⟨fun hne => ?_, fun cols h => ?_⟩
  · unfold finalColumnsLabeled
    simp only [hr]
    split
    · rfl
    · simp [Except.toOption]
  · unfold finalColumnsLabeled at h
    simp only [hr] at h
    inv_at h; cases h
    have hlen : labels.length = (rowFields row).2.length := Decidable.of_not_not (by assumption)
    exact ⟨hlen, List.map_fst_zip (by omega), List.map_snd_zip (by omega)⟩

example : (finalColumnsLabeled exSig exQueryT ["a", "b", "c"]).toOption = none := by decide +kernel
example : (finalColumnsLabeled exSig exQueryT ["a"]).toOption = none := by decide +kernel
example : ((finalColumnsLabeled exSig exQueryT ["a", "b"]).toOption.map fun cs => cs.map fun c => (c.1, cppName c.2)) =
    some [("a", "int"), ("b", "std::vector<double>")] := by decide +kernel

/-- **C03.column_shapes** — every column is a scalar, a vector or a vector of vectors of `int`/`float`/`double`/`bool`
(or another declared arithmetic type, `prim`). -/
theorem column_shapes (S : Sig) (q : Query) (cols : List (String × CTy)) (h : finalColumns S q = .ok cols) :
    ∀ c ∈ cols, c.2.isScalar = true ∨ (∃ t, c.2 = .vec t ∧ t.isScalar = true) ∨ (∃ t, c.2 = .vec (.vec t) ∧ t.isScalar = true) := by
  obtain ⟨row, _, rfl, hs⟩ := finalColumns_ok h
  intro c hc
  have hm : c.2 ∈ (rowFields row).2 := (List.of_mem_zip hc).2
  have : ∀ (ts : List CTy), allShapes ts = true → ∀ t ∈ ts, colShape t = true := by
    intro ts
    induction ts with
    | nil => intro _ t ht; cases ht
    | cons a as ih =>
      intro h t ht
      simp only [allShapes, Bool.and_eq_true] at h
      rcases List.mem_cons.mp ht with rfl | ht
      · exact h.1
      · exact ih h.2 t ht
  have hcs := this _ hs _ hm
  generalize c.2 = t at hcs
  cases t with
  | vec u =>
    cases u with
    | vec w => exact .inr (.inr ⟨w, rfl, by simpa [colShape] using hcs⟩)
    | _ => exact .inr (.inl ⟨_, rfl, by simpa [colShape] using hcs⟩)
  | _ => first | exact .inl (by simpa [colShape] using hcs) | (simp [colShape, CTy.isScalar] at hcs)

end FaxVerif.C03
