/-
C03 — the schema of the output tree, for EVERY query of the three translator-model fragments:

  (1) `schema_ok_compile` / `schema_ok_compileL` / `schema_ok_compileN`: the decidable predicate `SchemaOk` — the
      very predicate the check evaluates on the real translator's parsed output — holds of what the translator
      models `Gen.compile` (one-loop fragment), `Gen.compileL` (lazy `and`/`or`/conditional) and `Gen.compileN`
      (nested iteration) emit, all eight conjuncts at once, with the query's own column names and the model's
      column types;
  (2) `types_agree_with_typing` (`…L`, `…N`): those column types are the types the INDEPENDENT typing model
      `Linq.finalColumns` assigns to the embedded user-level query (`FQ.toQuery`), names included;
  (3) `column_values_fit` (`…L`, `…N`): hence (with `type_soundness`) every value the query can evaluate to on an
      event of the data model fits the C++ type the model books for its column;
  (4) `schema_ok_against_typing` (`…L`, `…N`): (1) restated with the ORACLE's names and types — what the check
      demands of the implementation is what holds of the model.

Where the two typings genuinely differ the theorem carries the explicit decidable hypothesis that excludes the
difference and a `_counterexample` shows it is needed:
  * a vector / `First()` column over a chain that ends in OBJECTS: the model books `std::vector<double>` / `double`
    (`getD .double`), the typing model assigns no column type (`FQ.scalarElems`);
  * `and` / `or` with non-boolean operands: the model books `bool` (it casts each operand), the typing model
    assigns no type (`FQL.boolOps`).
Lemmas: `Gen/SchemaCorrect*.lean`.
-/
import FaxVerif.Gen.SchemaCorrectTypingLazy
import FaxVerif.Gen.SchemaCorrectTypingNested
import FaxVerif.C03.TheoremsTyping
import FaxVerif.C01.TheoremsMiniAod
namespace FaxVerif.C03
open FaxVerif.Cpp FaxVerif.Linq FaxVerif.Gen
variable {D : Type}

/-! ### data for the non-vacuity examples (data model: `exSig` / `exCtx` of `C03/TheoremsTyping.lean`;
backends and name supplies: `C01`) -/

def exChain : Chain := ⟨"As", "ba", []⟩

/-- `ds.Select(e -> {"n": e.As("ba").Count(), "half": e.As("ba").Select(x -> x.i() / 2),
"f": e.As("ba").Where(x -> x.b()).Select(x -> x.f()).First(), "s": e.As("ba").Select(x -> x.i()).Sum()})` -/
def exFQ : FQ := .eventRows [
  ("n", .scalar (.count exChain)),
  ("half", .seq ⟨"As", "ba", [.sel (.bin .div (.meth "i" .int) (.int 2))]⟩),
  ("f", .first ⟨"As", "ba", [.whr (.meth "b" .bool), .sel (.meth "f" .float)]⟩),
  ("s", .scalar (.sum ⟨"As", "ba", [.sel (.meth "i" .int)]⟩))]

/-- `ds.SelectMany(e -> e.As("ba").Where(x -> x.i() > 1)).Select(r -> {"a": r.i() + 2, "b": r.d() < 1.5, "c": r.i() / 2})` -/
def exFQ2 : FQ := .elemRows ⟨"As", "ba", [.whr (.cmp .gt (.meth "i" .int) (.int 1))]⟩ [
  ("a", .bin .add (.meth "i" .int) (.int 2)),
  ("b", .cmp .lt (.meth "d" .double) (.dbl 15 (-1))),
  ("c", .bin .div (.meth "i" .int) (.int 2))]

/-- `ds.SelectMany(e -> e.As("ba").Where(x -> x.b() or x.i() > 1)).Select(r -> {"a": r.d() if r.b() else 0.0,
"b": r.b() and not r.b() and True})` -/
def exFQL : FQL := .elemRows ⟨"As", "ba", [.whr (.bop .or (.meth "b" .bool) [.cmp .gt (.meth "i" .int) (.int 1)])]⟩ [
  ("a", .ite (.meth "b" .bool) (.meth "d" .double) (.dbl 0 0)),
  ("b", .bop .and (.meth "b" .bool) [.not (.meth "b" .bool), .bool true])]

def exVs : IChain := ⟨"vs", some .double, []⟩
def exKids : IChain := ⟨"kids", none, [.whr (.cmp .gt (.meth "i" .int) (.int 0))]⟩

/-- `ds.Select(e -> {"n": e.As("ba").Select(y -> y.kids().Where(x -> x.i() > 0).Count()),
"s": e.As("ba").Select(y -> y.vs().Sum()), "v": e.As("ba").Select(y -> y.vs()),
"w": e.As("ba").Select(y -> y.vs().Select(x -> x * 2)), "k": e.As("ba").Select(y -> y.kids().Select(x -> x.i()))})` -/
def exNQ : NQ := .eventRows [
  ("n", .agg exChain (.icount exKids)),
  ("s", .agg exChain (.isum exVs)),
  ("v", .twoD exChain exVs),
  ("w", .twoD exChain ⟨"vs", some .double, [.sel (.bin .mul .it (.int 2))]⟩),
  ("k", .twoD exChain ⟨"kids", none, [.sel (.meth "i" .int)]⟩)]

/-- `ds.SelectMany(e -> e.As("ba")).Select(r -> {"n": r.kids().….Count(), "m": r.vs().Sum() / r.vs().Count(), "i": r.i()})` -/
def exNQ2 : NQ := .elemRows exChain [
  ("n", .icount exKids),
  ("m", .bin .div (.isum exVs) (.icount exVs)),
  ("i", .pure (.meth "i" .int))]

/-! ### (1) `SchemaOk` of the translator models -/

/-- **C03.schema_ok_compile** — for EVERY query `fq` of the one-loop fragment (event-level rows of scalars,
vectors and `First()`; element-level rows), every backend record and every injective column-variable supply `cn`
disjoint from the local-name supply `nm`: the package the translator model emits satisfies `SchemaOk` with the
query's own names (`FQ.names`: the dict keys, in order), the model's column types (`Gen.FQ.types`: `tyEE` for a
scalar, `std::vector<elem>` for a vector column, the element type for `First()`, `tyPE` for element-level rows)
and the backend's fill argument for ITS tree name. That is all eight conjuncts of the oracle at once:
the booked branches are the names in order; each is bound to its own class-level variable; each such variable is
declared (exactly once) with the column's type; the per-event code writes every booked variable (scalar
assignment after the loops, `push_back` + `clear` for vectors, the guarded capture of `First()` INSIDE the loop,
the per-row assignments inside the loop); it writes no other class-level variable except token handles; there is
at least one fill and every fill names the booked tree. -/
theorem schema_ok_compile (B : Backend) (nm cn : Nat → String)
    (hcinj : ∀ i j, cn i = cn j → i = j) (hdisj : ∀ j k, nm j ≠ cn k) (fq : FQ) :
    SchemaOk (compile B nm cn fq) (FQ.names fq) (FQ.types fq) (B.fillTree B.treeName) = true := by
  cases fq with
  | eventRows cols => exact schemaOk_compile_eventRows B nm cn hcinj hdisj cols
  | elemRows c cols => exact schemaOk_compile_elemRows B nm cn hcinj hdisj c cols

-- non-vacuity: the supplies of C01 satisfy the hypotheses, on all three backends (token table included)
example : SchemaOk (compile C01.atlasB C01.exNm C01.exCn exFQ) ["n", "half", "f", "s"]
    ["int", "std::vector<double>", "float", "int"] "atlas_xaod_tree" = true :=
  schema_ok_compile C01.atlasB C01.exNm C01.exCn C01.exCn_inj C01.exNm_ne_exCn exFQ
example : SchemaOk (compile C01.cmsMiniAodB C01.exNm C01.exCn exFQ2) ["a", "b", "c"] ["int", "bool", "double"] "" = true :=
  schema_ok_compile C01.cmsMiniAodB C01.exNm C01.exCn C01.exCn_inj C01.exNm_ne_exCn exFQ2
-- the predicate is not trivially true: another type, another order, another tree are refused
example : SchemaOk (compile C01.atlasB C01.exNm C01.exCn exFQ) ["n", "half", "f", "s"]
    ["int", "std::vector<double>", "double", "int"] "atlas_xaod_tree" = false := by decide +kernel
example : SchemaOk (compile C01.atlasB C01.exNm C01.exCn exFQ) ["half", "n", "f", "s"]
    ["int", "std::vector<double>", "float", "int"] "atlas_xaod_tree" = false := by decide +kernel
example : SchemaOk (compile C01.atlasB C01.exNm C01.exCn exFQ) ["n", "half", "f", "s"]
    ["int", "std::vector<double>", "float", "int"] "other_tree" = false := by decide +kernel

/-- **C03.schema_ok_compileL** — the same for EVERY query of the lazy fragment (element-level rows whose columns
and `Where`s contain `and` / `or` / conditionals): the statements the lazy operators are lowered to write only
their own result variables (generated locals) and never fill; the row continuation assigns every branch variable
and fills the booked tree once per kept element. Column types: `tyLE` (`bool` for `and`/`or`, `double` for a
conditional). -/
theorem schema_ok_compileL (B : Backend) (nm cn : Nat → String)
    (hcinj : ∀ i j, cn i = cn j → i = j) (hdisj : ∀ j k, nm j ≠ cn k) (fq : FQL) :
    SchemaOk (compileL B nm cn fq) (FQL.names fq) (FQL.types fq) (B.fillTree B.treeName) = true :=
  schemaOk_compileL B nm cn hcinj hdisj fq

example : SchemaOk (compileL C01.cmsAodB C01.exNm C01.exCn exFQL) ["a", "b"] ["double", "bool"] "" = true :=
  schema_ok_compileL C01.cmsAodB C01.exNm C01.exCn C01.exCn_inj C01.exNm_ne_exCn exFQL
example : SchemaOk (compileL C01.cmsAodB C01.exNm C01.exCn exFQL) ["a", "b"] ["double", "int"] "" = false := by decide +kernel

/-- **C03.schema_ok_compileN** — the same for EVERY query of the nested fragment: event-level columns of inner
aggregates (`std::vector<int>` / `std::vector<double>` …), 2-D columns (`std::vector<std::vector<T>>`), and
element-level rows over inner aggregates. Accumulators, inner loop variables and the per-element storage vectors
are generated locals; a column vector is pushed to inside its loop and cleared after the single fill. -/
theorem schema_ok_compileN (B : Backend) (nm cn : Nat → String)
    (hcinj : ∀ i j, cn i = cn j → i = j) (hdisj : ∀ j k, nm j ≠ cn k) (nq : NQ) :
    SchemaOk (compileN B nm cn nq) (NQ.names nq) (NQ.types nq) (B.fillTree B.treeName) = true := by
  cases nq with
  | eventRows cols => exact schemaOk_compileN_eventRows B nm cn hcinj hdisj cols
  | elemRows c cols => exact schemaOk_compileN_elemRows B nm cn hcinj hdisj c cols

/-- an event-level vector column is not only cleared: it is pushed to inside its loop -/
theorem nested_column_pushed (B : Backend) (nm cn : Nat → String) (idx : Nat) (col : NCol) (n : Nat) :
    cn idx ∈ writesL (compNCol B nm cn idx col n).stmts := compNCol_pushes B nm cn idx col n

example : SchemaOk (compileN C01.atlasB C01.exNm C01.exCn exNQ) ["n", "s", "v", "w", "k"]
    ["std::vector<int>", "std::vector<double>", "std::vector<std::vector<double>>", "std::vector<std::vector<double>>",
     "std::vector<std::vector<int>>"] "atlas_xaod_tree" = true :=
  schema_ok_compileN C01.atlasB C01.exNm C01.exCn C01.exCn_inj C01.exNm_ne_exCn exNQ
example : SchemaOk (compileN C01.cmsMiniAodB C01.exNm C01.exCn exNQ2) ["n", "m", "i"] ["int", "double", "int"] "" = true :=
  schema_ok_compileN C01.cmsMiniAodB C01.exNm C01.exCn C01.exCn_inj C01.exNm_ne_exCn exNQ2

/-! ### (2) the model's column types are the typing model's -/

theorem zip_cols {names : List String} {ctys : List CTy} (h : ctys.length = names.length) :
    (names.zip ctys).map (·.1) = names ∧ (names.zip ctys).map (·.2) = ctys ∧
    (names.zip ctys).map (fun c => cppName c.2) = ctys.map cppName := by
  have h2 : (names.zip ctys).map (·.2) = ctys := List.map_snd_zip (by omega)
  refine ⟨List.map_fst_zip (by omega), h2, ?_⟩
  have h3 : (names.zip ctys).map (fun c => cppName c.2) = ((names.zip ctys).map (·.2)).map cppName := by
    rw [List.map_map]; rfl
  rw [h3, h2]

/-- **C03.types_agree_with_typing** — for EVERY query of the one-loop fragment that is well typed in the sense of
the translator model (`FQ.wt`: `wtEE` / `wtSteps` / `wtPE`), every data-model table `S` that declares the
accessors the query uses as the query's own `meth name ty` annotations say (`FQ.sigOk`), and provided every
vector / `First()` column ranges over a chain that ends in scalars (`FQ.scalarElems`, see the counterexample):
the independent typing model assigns columns to the embedded user-level query, their names are the query's names
in order, and their C++ types are exactly the types the translator model declares (integers stay `int`, `/` is
`double`, comparisons `bool`, `Count` `int`, `Sum` the element type, `std::vector<elem>` for sequences, the
element type for `First()`). -/
theorem types_agree_with_typing (S : Sig) (fq : FQ) (hwt : fq.wt = true) (hsig : fq.sigOk S = true)
    (hsc : fq.scalarElems = true) :
    ∃ cols, finalColumns S (FQ.toQuery fq) = .ok cols ∧ cols.map (·.1) = FQ.names fq ∧
      cols.map (fun c => cppName c.2) = FQ.types fq := by
  obtain ⟨h1, _, h3⟩ := zip_cols (FQ.ctys_length fq)
  exact ⟨_, finalColumns_FQ S fq hwt hsc hsig, h1, by rw [h3, FQ.ctys_cppName]⟩

example : exFQ.wt = true ∧ exFQ.sigOk exSig = true ∧ exFQ.scalarElems = true := by decide
example : exFQ2.wt = true ∧ exFQ2.sigOk exSig = true ∧ exFQ2.scalarElems = true := by decide
example : FQ.types exFQ = ["int", "std::vector<double>", "float", "int"] ∧ FQ.types exFQ2 = ["int", "bool", "double"] := by decide

/-- the hypothesis `FQ.scalarElems` is needed: `ds.Select(e -> {"a": e.As("ba")})` (a column that is a bare
collection of OBJECTS) is well typed for the translator model, which books `std::vector<double>` for it
(`(chainTy …).getD .double`); the typing model assigns it no column type ("a column is not a scalar, a vector or a
vector of vectors of scalars"). Likewise `….First()` of objects (`double` in the model). (The real translator
refuses the first form — AssertionError "Do not know how to loop over …" — and books a raw `xAOD::Jet*` for the
second: the model's totalisation is outside the tied fragment.) -/
theorem types_agree_with_typing_counterexample :
    (FQ.eventRows [("a", .seq exChain)]).wt = true ∧ (FQ.eventRows [("a", .seq exChain)]).sigOk exSig = true ∧
    (FQ.eventRows [("a", .seq exChain)]).scalarElems = false ∧
    FQ.types (.eventRows [("a", .seq exChain)]) = ["std::vector<double>"] ∧
    (finalColumns exSig (FQ.toQuery (.eventRows [("a", .seq exChain)]))).toOption = none ∧
    (FQ.eventRows [("a", .first exChain)]).wt = true ∧ FQ.types (.eventRows [("a", .first exChain)]) = ["double"] ∧
    (finalColumns exSig (FQ.toQuery (.eventRows [("a", .first exChain)]))).toOption = none := by decide

/-- **C03.types_agree_with_typingL** — the same for EVERY well-typed query of the lazy fragment whose `and` / `or`
operands are all boolean (`FQL.boolOps`, columns and `Where`s; see the counterexample): conditionals are `double`,
`and` / `or` are `bool`, in the model and in the typing model alike. -/
theorem types_agree_with_typingL (S : Sig) (fq : FQL) (hwt : fq.wt = true) (hsig : fq.sigOk S = true)
    (hbo : fq.boolOps = true) :
    ∃ cols, finalColumns S (FQL.toQuery fq) = .ok cols ∧ cols.map (·.1) = FQL.names fq ∧
      cols.map (fun c => cppName c.2) = FQL.types fq := by
  obtain ⟨h1, _, h3⟩ := zip_cols (FQL.ctys_length fq)
  exact ⟨_, finalColumns_FQL S fq hwt hbo hsig, h1, by rw [h3, FQL.ctys_cppName]⟩

example : exFQL.wt = true ∧ exFQL.sigOk exSig = true ∧ exFQL.boolOps = true := by decide
example : FQL.types exFQL = ["double", "bool"] := by decide

/-- the hypothesis `FQL.boolOps` is needed: `….Select(r -> {"a": 1 and 2})` is well typed for the translator
model (each operand is cast: `bool_op = static_cast<bool>(1); if (bool_op) bool_op = static_cast<bool>(2);`), which
books a `bool` column; the typing model assigns NO type to `and` / `or` of non-booleans (Python's value of
`1 and 2` is the integer `2`, not a boolean). -/
theorem types_agree_with_typingL_counterexample :
    (FQL.elemRows ⟨"As", "ba", []⟩ [("a", .bop .and (.int 1) [.int 2])]).wt = true ∧
    (FQL.elemRows ⟨"As", "ba", []⟩ [("a", .bop .and (.int 1) [.int 2])]).sigOk exSig = true ∧
    (FQL.elemRows ⟨"As", "ba", []⟩ [("a", .bop .and (.int 1) [.int 2])]).boolOps = false ∧
    FQL.types (.elemRows ⟨"As", "ba", []⟩ [("a", .bop .and (.int 1) [.int 2])]) = ["bool"] ∧
    (finalColumns exSig (FQL.toQuery (.elemRows ⟨"As", "ba", []⟩ [("a", .bop .and (.int 1) [.int 2])]))).toOption = none := by
  decide

/-- **C03.types_agree_with_typingN** — the same for EVERY well-typed query of the nested fragment (`NQ.wt`:
`wtNCol` / `wtOuter` / `wtNE`) and every table declaring the outer accessors and the collection-returning methods
as annotated (`NQ.sigOk`): inner `Count` columns are `std::vector<int>`, inner `Sum` columns `std::vector<T>` of the
element type, 2-D columns `std::vector<std::vector<T>>`, element-level rows of aggregates scalars. No exclusion. -/
theorem types_agree_with_typingN (S : Sig) (nq : NQ) (hwt : nq.wt = true) (hsig : nq.sigOk S = true) :
    ∃ cols, finalColumns S (NQ.toQuery nq) = .ok cols ∧ cols.map (·.1) = NQ.names nq ∧
      cols.map (fun c => cppName c.2) = NQ.types nq := by
  obtain ⟨h1, _, h3⟩ := zip_cols (NQ.ctys_length nq)
  exact ⟨_, finalColumns_NQ S nq hwt hsig, h1, by rw [h3, NQ.ctys_cppName]⟩

example : exNQ.wt = true ∧ exNQ.sigOk exSig = true ∧ exNQ2.wt = true ∧ exNQ2.sigOk exSig = true := by decide
example : NQ.types exNQ = ["std::vector<int>", "std::vector<double>", "std::vector<std::vector<double>>",
    "std::vector<std::vector<double>>", "std::vector<std::vector<int>>"] ∧ NQ.types exNQ2 = ["int", "double", "int"] := by decide

/-! ### (3) every value fits the booked type -/

theorem fits_of_columns (S : Sig) (C : QCtx D) (hev : eventOk S C = true) (q : Query) (names : List String) (ctys : List CTy)
    (hlen : ctys.length = names.length) (hc : finalColumns S q = .ok (names.zip ctys)) (rows : List (List (Val D)))
    (hr : denoteRows C q = .ok rows) : ∀ r ∈ rows, rowFits S r ctys = true := by
  have h := columns_sound S C hev q _ rows hc hr
  rwa [(zip_cols hlen).2.1] at h

/-- **C03.column_values_fit** — with `type_soundness`: for every query of the one-loop fragment (hypotheses of
`types_agree_with_typing`), every event whose banks hold what the data model declares and every list of rows the
query evaluates to on it: there are column types whose C++ names are exactly the types the translator model books
(`Gen.FQ.types`, proved by `schema_ok_compile` to be the declared types of the branch variables) such that every
cell of every row fits its column's type (an integer an `int`/`float`/`double` column, a floating value a
`float`/`double` column, a boolean a `bool` column, every element of a sequence the element type). -/
theorem column_values_fit (S : Sig) (fq : FQ) (hwt : fq.wt = true) (hsig : fq.sigOk S = true) (hsc : fq.scalarElems = true)
    (C : QCtx D) (hev : eventOk S C = true) (rows : List (List (Val D))) (hr : denoteRows C (FQ.toQuery fq) = .ok rows) :
    ∃ ctys : List CTy, ctys.map cppName = FQ.types fq ∧ ∀ r ∈ rows, rowFits S r ctys = true :=
  ⟨FQ.ctys fq, FQ.ctys_cppName fq,
    fits_of_columns S C hev _ _ _ (FQ.ctys_length fq) (finalColumns_FQ S fq hwt hsc hsig) rows hr⟩

-- non-vacuity: the example queries evaluate to rows on the example event
example : eventOk exSig exCtx = true ∧
    ((denoteRows exCtx (FQ.toQuery exFQ)).toOption.map List.length) = some 1 ∧
    ((denoteRows exCtx (FQ.toQuery exFQ2)).toOption.map List.length) = some 2 := by decide +kernel

/-- **C03.column_values_fitL** — the same for the lazy fragment (boolean `and`/`or` operands). -/
theorem column_values_fitL (S : Sig) (fq : FQL) (hwt : fq.wt = true) (hsig : fq.sigOk S = true) (hbo : fq.boolOps = true)
    (C : QCtx D) (hev : eventOk S C = true) (rows : List (List (Val D))) (hr : denoteRows C (FQL.toQuery fq) = .ok rows) :
    ∃ ctys : List CTy, ctys.map cppName = FQL.types fq ∧ ∀ r ∈ rows, rowFits S r ctys = true :=
  ⟨FQL.ctys fq, FQL.ctys_cppName fq,
    fits_of_columns S C hev _ _ _ (FQL.ctys_length fq) (finalColumns_FQL S fq hwt hbo hsig) rows hr⟩

example : ((denoteRows exCtx (FQL.toQuery exFQL)).toOption.map List.length) = some 2 := by decide +kernel

/-- **C03.column_values_fitN** — the same for the nested fragment: every inner count fits `std::vector<int>`, every
row of a 2-D column `std::vector<std::vector<T>>`. -/
theorem column_values_fitN (S : Sig) (nq : NQ) (hwt : nq.wt = true) (hsig : nq.sigOk S = true)
    (C : QCtx D) (hev : eventOk S C = true) (rows : List (List (Val D))) (hr : denoteRows C (NQ.toQuery nq) = .ok rows) :
    ∃ ctys : List CTy, ctys.map cppName = NQ.types nq ∧ ∀ r ∈ rows, rowFits S r ctys = true :=
  ⟨NQ.ctys nq, NQ.ctys_cppName nq,
    fits_of_columns S C hev _ _ _ (NQ.ctys_length nq) (finalColumns_NQ S nq hwt hsig) rows hr⟩

example : ((denoteRows exCtx (NQ.toQuery exNQ)).toOption.map List.length) = some 1 ∧
    ((denoteRows exCtx (NQ.toQuery exNQ2)).toOption.map List.length) = some 2 := by decide +kernel

/-! ### (4) the oracle of the check accepts the model -/

/-- **C03.schema_ok_against_typing** — what the check does with the real translator's output — evaluate `SchemaOk`
against the names and C++ types the typing model `finalColumns` computes for the query — succeeds on the
translator model's output, for every query of the one-loop fragment (hypotheses of `types_agree_with_typing`). -/
theorem schema_ok_against_typing (B : Backend) (nm cn : Nat → String)
    (hcinj : ∀ i j, cn i = cn j → i = j) (hdisj : ∀ j k, nm j ≠ cn k) (S : Sig) (fq : FQ)
    (hwt : fq.wt = true) (hsig : fq.sigOk S = true) (hsc : fq.scalarElems = true)
    (cols : List (String × CTy)) (hc : finalColumns S (FQ.toQuery fq) = .ok cols) :
    SchemaOk (compile B nm cn fq) (cols.map (·.1)) (cols.map fun c => cppName c.2) (B.fillTree B.treeName) = true := by
  obtain ⟨cols', hc', h1, h2⟩ := types_agree_with_typing S fq hwt hsig hsc
  rw [hc] at hc'; cases hc'
  rw [h1, h2]; exact schema_ok_compile B nm cn hcinj hdisj fq

theorem schema_ok_against_typingL (B : Backend) (nm cn : Nat → String)
    (hcinj : ∀ i j, cn i = cn j → i = j) (hdisj : ∀ j k, nm j ≠ cn k) (S : Sig) (fq : FQL)
    (hwt : fq.wt = true) (hsig : fq.sigOk S = true) (hbo : fq.boolOps = true)
    (cols : List (String × CTy)) (hc : finalColumns S (FQL.toQuery fq) = .ok cols) :
    SchemaOk (compileL B nm cn fq) (cols.map (·.1)) (cols.map fun c => cppName c.2) (B.fillTree B.treeName) = true := by
  obtain ⟨cols', hc', h1, h2⟩ := types_agree_with_typingL S fq hwt hsig hbo
  rw [hc] at hc'; cases hc'
  rw [h1, h2]; exact schema_ok_compileL B nm cn hcinj hdisj fq

theorem schema_ok_against_typingN (B : Backend) (nm cn : Nat → String)
    (hcinj : ∀ i j, cn i = cn j → i = j) (hdisj : ∀ j k, nm j ≠ cn k) (S : Sig) (nq : NQ)
    (hwt : nq.wt = true) (hsig : nq.sigOk S = true)
    (cols : List (String × CTy)) (hc : finalColumns S (NQ.toQuery nq) = .ok cols) :
    SchemaOk (compileN B nm cn nq) (cols.map (·.1)) (cols.map fun c => cppName c.2) (B.fillTree B.treeName) = true := by
  obtain ⟨cols', hc', h1, h2⟩ := types_agree_with_typingN S nq hwt hsig
  rw [hc] at hc'; cases hc'
  rw [h1, h2]; exact schema_ok_compileN B nm cn hcinj hdisj nq

example : (finalColumns exSig (FQ.toQuery exFQ)).toOption.isSome = true ∧
    (finalColumns exSig (FQL.toQuery exFQL)).toOption.isSome = true ∧
    (finalColumns exSig (NQ.toQuery exNQ)).toOption.isSome = true := by decide +kernel

end FaxVerif.C03
