/-
C03 — output tree schema and returned descriptor match the query's final shape.

Theorems about the translator model `Gen.compile` (tied to the real translator by C01's text
tie) for ALL fragment queries; the decidable `SchemaOk` is additionally evaluated on the
implementation's own parsed output for every generated query of the larger language.
-/
import FaxVerif.C03.Spec
import FaxVerif.Gen.ElemRowsCorrect
namespace FaxVerif.C03
open FaxVerif.Cpp FaxVerif.Gen

def FQ.names : FQ → List String
  | .eventRows cols => cols.map (·.1)
  | .elemRows _ cols => cols.map (·.1)

def FQ.width : FQ → Nat
  | .eventRows cols => cols.length
  | .elemRows _ cols => cols.length

theorem compCol_var (B : Backend) (nm cn : Nat → String) (idx : Nat) (col : Col) (n : Nat) :
    (compCol B nm cn idx col n).classVar.2 = cn idx := by
  cases col <;> simp [compCol]

theorem compCols_vars (B : Backend) (nm cn : Nat → String) : ∀ (cols : List Col) (idx n : Nat),
    (compCols B nm cn cols idx n).map (·.classVar.2) = colNames cn cols.length idx
  | [], _, _ => rfl
  | c :: cs, idx, n => by
    simp only [compCols, List.map_cons, List.length_cons, colNames, compCol_var]
    rw [compCols_vars B nm cn cs (idx + 1) _]

theorem compCols_length (B : Backend) (nm cn : Nat → String) : ∀ (cols : List Col) (idx n : Nat),
    (compCols B nm cn cols idx n).length = cols.length
  | [], _, _ => rfl
  | c :: cs, idx, n => by simp [compCols, compCols_length B nm cn cs]

theorem mem_colNames (cn : Nat → String) : ∀ (m idx : Nat) (y : String), y ∈ colNames cn m idx → ∃ k, idx ≤ k ∧ k < idx + m ∧ y = cn k
  | 0, _, _, h => by simp [colNames] at h
  | m + 1, idx, y, h => by
    simp only [colNames, List.mem_cons] at h
    rcases h with rfl | h
    · exact ⟨idx, Nat.le_refl _, by omega, rfl⟩
    · obtain ⟨k, h1, h2, h3⟩ := mem_colNames cn m (idx + 1) y h
      exact ⟨k, by omega, by omega, h3⟩

theorem colNames_nodup (cn : Nat → String) (hinj : ∀ i j, cn i = cn j → i = j) : ∀ (m idx : Nat), (colNames cn m idx).Nodup
  | 0, _ => by simp [colNames]
  | m + 1, idx => by
    simp only [colNames, List.nodup_cons]
    refine ⟨?_, colNames_nodup cn hinj m (idx + 1)⟩
    intro h
    obtain ⟨k, h1, _, h3⟩ := mem_colNames cn m (idx + 1) _ h
    have := hinj _ _ h3
    omega

/-- the branch variables of a compiled query: `cn 0, cn 1, …` in column order -/
theorem branch_vars (B : Backend) (nm cn : Nat → String) (fq : FQ) :
    (compile B nm cn fq).branches.map (·.2) = colNames cn (FQ.width fq) 0 := by
  cases fq with
  | eventRows cols =>
    simp only [compile, FQ.width]
    rw [zip_map_snd _ _ (by simp [compCols_length]), compCols_vars]; simp
  | elemRows c cols =>
    simp only [compile, FQ.width]
    rw [zip_map_snd _ _ (by simp [colVars_names, colNames_length]), colVars_names]; simp

/-- **C03.schema_names** — the booked columns are exactly the names the final expression gives
(dict keys), in that order. -/
theorem schema_names (B : Backend) (nm cn : Nat → String) (fq : FQ) :
    (compile B nm cn fq).branches.map (·.1) = FQ.names fq := by
  cases fq with
  | eventRows cols =>
    simp only [compile, FQ.names]
    rw [List.map_fst_zip (by simp [compCols_length])]
  | elemRows c cols =>
    simp only [compile, FQ.names]
    have : (colVars cn (chainTy none c.steps) (cols.map (·.2)) 0).length = cols.length := by
      have := congrArg List.length (colVars_names cn (chainTy none c.steps) (cols.map (·.2)) 0)
      simpa [colNames_length] using this
    rw [List.map_fst_zip (by simp [this])]

/-- **C03.schema_own_storage** — each column is bound to its own storage: the variables behind
the booked branches are pairwise distinct. -/
theorem schema_own_storage (B : Backend) (nm cn : Nat → String) (hinj : ∀ i j, cn i = cn j → i = j) (fq : FQ) :
    ((compile B nm cn fq).branches.map (·.2)).Nodup := by
  rw [branch_vars]; exact colNames_nodup cn hinj _ 0

/-- **C03.schema_width** — as many branches as the final expression has entries. -/
theorem schema_width (B : Backend) (nm cn : Nat → String) (fq : FQ) :
    (compile B nm cn fq).branches.length = FQ.width fq := by
  have := congrArg List.length (branch_vars B nm cn fq)
  simpa [colNames_length] using this

/-- **C03.tree_name** — the package's tree name is the backend's default tree name, the one
the fill statement carries (`B.fillTree B.treeName`). -/
theorem tree_name (B : Backend) (nm cn : Nat → String) (fq : FQ) : (compile B nm cn fq).tree = B.treeName := by
  cases fq <;> rfl

/-- column types of the model for scalar element-level columns: integers stay `int`, `/` is
`double`, comparisons are `bool` -/
theorem elem_col_types (cn : Nat → String) (t : Option Ty) : ∀ (pes : List PE) (idx : Nat),
    (colVars cn t pes idx).map (·.1) = pes.map fun pe => (tyPE (t.getD .double) pe).cpp
  | [], _ => rfl
  | pe :: rest, idx => by simp [colVars, elem_col_types cn t rest (idx + 1)]

example : tyPE .double (.bin .div (.meth "i" .int) (.int 2)) = .double := by decide
example : tyPE .double (.bin .add (.meth "i" .int) (.int 2)) = .int := by decide
example : tyPE .double (.cmp .lt (.meth "i" .int) (.int 2)) = .bool := by decide

end FaxVerif.C03
