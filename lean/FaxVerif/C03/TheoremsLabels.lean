/-
C03 — which (terminal form, label argument) pairs are accepted, what is booked, and the returned descriptor:
theorems about the terminal model `C03/Labels.lean` (`callResultTTree`, `implicitCall`, `book`), for every query of
the typing model's language, every label argument and every tree / file name.
-/
import FaxVerif.C03.Labels
import FaxVerif.C03.TheoremsTyping
namespace FaxVerif.C03
open FaxVerif.Cpp FaxVerif.Linq

/-! ### acceptance -/

/-- **C03.labels_accepted_iff** — `call_ResultTTree` accepts a (row, label argument) pair EXACTLY when the argument
denotes labels (a bare string: one label; a list: its entries; a literal without a length: none), their number is the
number of values of the row (fields of a tuple / list, else one) and every value has a tree type; what is booked is then
the labels zipped with the values' types, in order. -/
theorem labels_accepted_iff (row : CTy) (arg : LabelArg) (cols : List (String × CTy)) :
    callResultTTree row arg = .ok cols ↔
      ∃ labels, arg.names = some labels ∧ labels.length = (seqValues row).length ∧
        allShapes (seqValues row) = true ∧ cols = labels.zip (seqValues row) := by
  unfold callResultTTree
  cases hn : arg.names with
  | none => simp
  | some labels =>
    simp only [Option.some.injEq, exists_eq_left']
    by_cases hl : (seqValues row).length = labels.length
    · by_cases hs : allShapes (seqValues row) = true
      · simp [hl, hs, eq_comm]
      · simp [hl, hs]
    · have : ¬ labels.length = (seqValues row).length := fun h => hl h.symm
      simp [hl, this]

/-- **C03.accepted_iff_Accepts** — the same as a decidable criterion per form of the argument (`Accepts`): a bare
string is accepted iff the row has exactly ONE value (with a tree type) — the string's length plays no role —, a list
iff it has as many entries as the row has values, a literal without a length never. -/
theorem accepted_iff_Accepts (row : CTy) (arg : LabelArg) :
    (callResultTTree row arg).toOption.isSome = Accepts row arg := by
  cases arg with
  | scalar => simp [callResultTTree, LabelArg.names, Accepts, Except.toOption]
  | bare s =>
    simp only [callResultTTree, LabelArg.names, Accepts, List.length_cons, List.length_nil]
    by_cases hl : (seqValues row).length = 1
    · by_cases hs : allShapes (seqValues row) = true <;> simp [hl, hs, Except.toOption]
    · simp [hl, Except.toOption]
  | list ls =>
    simp only [callResultTTree, LabelArg.names, Accepts]
    by_cases hl : (seqValues row).length = ls.length
    · by_cases hs : allShapes (seqValues row) = true <;> simp [hl, hs, Except.toOption]
    · have : ¬ ls.length = (seqValues row).length := fun h => hl h.symm
      simp [hl, this, Except.toOption]

/-- **C03.bare_label_accepted_iff** — ONE bare string labels a query iff its row is a single value (or a 1-tuple)
that has a tree type. -/
theorem bare_label_accepted_iff (row : CTy) (s : String) :
    (∃ cols, callResultTTree row (.bare s) = .ok cols) ↔ ∃ t, seqValues row = [t] ∧ colShape t = true := by
  constructor
  · rintro ⟨cols, h⟩
    obtain ⟨labels, hn, hl, hs, _⟩ := (labels_accepted_iff row _ cols).mp h
    simp only [LabelArg.names, Option.some.injEq] at hn
    subst hn
    match hv : seqValues row, hl, hs with
    | [t], _, hs => exact ⟨t, rfl, by simpa [allShapes] using hs⟩
  · rintro ⟨t, ht, hc⟩
    exact ⟨[(s, t)], (labels_accepted_iff row _ _).mpr ⟨[s], rfl, by simp [ht], by simp [ht, allShapes, hc], by simp [ht]⟩⟩

/-- **C03.bare_label_books_one_column** — an accepted bare string books exactly one column, named by the WHOLE string
(never one column per character). -/
theorem bare_label_books_one_column (row : CTy) (s : String) (cols : List (String × CTy))
    (h : callResultTTree row (.bare s) = .ok cols) : ∃ t, cols = [(s, t)] ∧ seqValues row = [t] := by
  obtain ⟨labels, hn, hl, _, hc⟩ := (labels_accepted_iff row _ cols).mp h
  simp only [LabelArg.names, Option.some.injEq] at hn
  subst hn
  match hv : seqValues row, hl with
  | [t], _ => exact ⟨t, by simp [hc, hv], rfl⟩

/-- **C03.bare_label_on_tuple_refused** — a tuple / list of two or more columns is refused with a bare string label,
whatever the string — also when it has as many CHARACTERS as there are columns. -/
theorem bare_label_on_tuple_refused (fs : CTy) (s : String) (h : 2 ≤ (fieldTypes fs).length) :
    (callResultTTree (.tup fs) (.bare s)).toOption = none := by
  have : ¬ (fieldTypes fs).length = 1 := by omega
  simp [callResultTTree, LabelArg.names, seqValues, this, Except.toOption]

/-- non-vacuity: `'pt'` (two characters) on a row of two columns is refused; `['n', 'pt']` books both; `'pt'` on a
single vector books the one column `pt` -/
def exRow2 : CTy := .tup (mkFields ["0", "1"] [.int, .vec .double])
example : (callResultTTree exRow2 (.bare "pt")).toOption = none := by decide
example : (callResultTTree exRow2 (.list ["n", "pt"])).toOption = some [("n", .int), ("pt", .vec .double)] := by decide
example : (callResultTTree (.vec .double) (.bare "pt")).toOption = some [("pt", .vec .double)] := by decide
example : (callResultTTree (.vec .double) (.bare "")).toOption = some [("", .vec .double)] := by decide
example : (callResultTTree (.vec .double) (.list [])).toOption = none := by decide
example : (callResultTTree exRow2 .scalar).toOption = none := by decide
example : Accepts exRow2 (.bare "pt") = false ∧ Accepts exRow2 (.list ["n", "pt"]) = true := by decide
/-- a sequence of dictionaries takes no labels: the dict itself would be the one value, and it has no tree type -/
example : (callResultTTree (.dict (mkFields ["a"] [.int])) (.bare "a")).toOption = none := by decide
example : (callResultTTree (.dict (mkFields ["a"] [.int])) (.list ["a"])).toOption = none := by decide

/-! ### the model agrees with the typing model's `finalColumnsLabeled` / `finalColumns` -/

theorem toOption_ite_error {α : Type} (c : Prop) [Decidable c] (e : String) (x : Except String α) :
    (if c then Except.error e else x).toOption = if c then none else x.toOption := by
  split <;> rfl

theorem seqValues_eq_rowFields {row : CTy} (h : row.isDict = false) : seqValues row = (rowFields row).2 := by
  cases row <;> simp_all [seqValues, rowFields, CTy.isDict]

theorem allShapes_dict_singleton (fs : CTy) : allShapes [CTy.dict fs] = false := by
  simp [allShapes, colShape, CTy.isScalar]

/-- **C03.explicit_agrees_with_labeled** — for every query, the explicit terminal with a label argument is accepted
exactly when `finalColumnsLabeled` (the oracle of the label streams) accepts the labels the argument DENOTES, with
the same columns. -/
theorem explicit_agrees_with_labeled (S : Sig) (q : Query) (row : CTy) (hr : rowType S q = .ok row)
    (arg : LabelArg) (labels : List String) (hn : arg.names = some labels) :
    (callResultTTree row arg).toOption = (finalColumnsLabeled S q labels).toOption := by
  unfold callResultTTree finalColumnsLabeled
  simp only [hn, hr]
  by_cases hd : row.isDict = true
  · obtain ⟨fs, rfl⟩ : ∃ fs, row = .dict fs := by
      cases row <;> simp_all [CTy.isDict]
    simp only [seqValues, CTy.isDict, if_true, allShapes_dict_singleton]
    split <;> simp [Except.toOption]
  · have hd' : row.isDict = false := by simpa using hd
    rw [seqValues_eq_rowFields hd']
    simp only [hd', Bool.false_eq_true, if_false, toOption_ite_error]
    by_cases hl : labels.length = (rowFields row).2.length
    · simp only [hl, ne_eq, not_true_eq_false, if_false]
    · have h2 : ¬ (rowFields row).2.length = labels.length := fun h => hl h.symm
      simp only [hl, h2, ne_eq, not_false_eq_true, if_true]

/-- **C03.implicit_is_explicit** — the implicit terminal is the explicit one `get_as_ROOT` builds (dict: its keys as
a list; tuple: the list `col0…`; single value: the BARE STRING `col1` — four characters labelling one column): it is
accepted exactly when `finalColumns` has columns, and books those. -/
theorem implicit_is_explicit (S : Sig) (q : Query) (row : CTy) (hr : rowType S q = .ok row) :
    (callResultTTree (implicitCall row).1 (implicitCall row).2).toOption = (finalColumns S q).toOption := by
  unfold finalColumns callResultTTree
  simp only [hr]
  cases row <;>
    simp only [implicitCall, LabelArg.names, seqValues, rowFields, fieldNames_length, defaultNames_length, List.length_cons,
      List.length_nil, ne_eq, not_true_eq_false, if_false] <;>
    first | rfl | (split <;> split <;> first | rfl | contradiction)

/-! ### booking and descriptor -/

/-- the tree a terminal names -/
def Terminal.treeName (pfx : String) : Terminal → String
  | .implicit => pfx ++ "_tree"
  | .explicit _ tree _ => tree

theorem book_ok_inv {S : Sig} {pfx : String} {q : Query} {t : Terminal} {b : Booking} {d : Descriptor}
    (h : book S pfx q t = .ok (b, d)) :
    ∃ row, rowType S q = .ok row ∧
      callResultTTree (terminalCall pfx row t).1 (terminalCall pfx row t).2.1 = .ok b.columns ∧
      b.tree = t.treeName pfx ∧ b.fill = t.treeName pfx ∧ d = ⟨t.treeName pfx, outputFile⟩ := by
  unfold book at h
  cases hr : rowType S q with
  | error e => simp [hr] at h
  | ok row =>
    simp only [hr] at h
    cases hc : callResultTTree (terminalCall pfx row t).1 (terminalCall pfx row t).2.1 with
    | error e => simp [hc] at h
    | ok cols =>
      simp only [hc, Except.ok.injEq, Prod.mk.injEq] at h
      obtain ⟨rfl, rfl⟩ := h
      refine ⟨row, rfl, hc, ?_, ?_, ?_⟩ <;> cases t <;> rfl

/-- **C03.descriptor_matches_booking** — for EVERY query, terminal (implicit, or explicit with any label argument, tree
name and file argument) and backend prefix: when the query is accepted, the descriptor returned to the caller names
the tree the job books AND fills, the file is the one the job writes (`ANALYSIS.root`, whatever the file argument
says), the tree is the terminal's (`<prefix>_tree` / the third argument), and the booked column names are the final
expression's names: the default naming for the implicit terminal, the labels the argument denotes for the explicit one —
in that order, with the types of the default naming. -/
theorem descriptor_matches_booking (S : Sig) (pfx : String) (q : Query) (t : Terminal) (b : Booking) (d : Descriptor)
    (h : book S pfx q t = .ok (b, d)) :
    d.treename = b.tree ∧ b.fill = b.tree ∧ d.filename = outputFile ∧ b.tree = t.treeName pfx ∧
    (match t with
     | .implicit => finalColumns S q = .ok b.columns
     | .explicit arg _ _ => ∃ labels, arg.names = some labels ∧ finalColumnsLabeled S q labels = .ok b.columns ∧
         b.columns.map (·.1) = labels) := by
  obtain ⟨row, hr, hc, ht, hf, rfl⟩ := book_ok_inv h
  refine ⟨ht.symm, hf.trans ht.symm, rfl, ht, ?_⟩
  cases t with
  | implicit =>
    have := implicit_is_explicit S q row hr
    simp only [terminalCall] at hc
    rw [hc] at this
    cases hfc : finalColumns S q with
    | error e => simp [hfc, Except.toOption] at this
    | ok cols => simp only [hfc, Except.toOption, Option.some.injEq] at this; rw [this]
  | explicit arg tree file =>
    simp only [terminalCall] at hc
    obtain ⟨labels, hn, hl, _, hcols⟩ := (labels_accepted_iff row arg _).mp hc
    have := explicit_agrees_with_labeled S q row hr arg labels hn
    rw [hc] at this
    refine ⟨labels, hn, ?_, ?_⟩
    · cases hfc : finalColumnsLabeled S q labels with
      | error e => simp [hfc, Except.toOption] at this
      | ok cols => simp only [hfc, Except.toOption, Option.some.injEq] at this; rw [this]
    · rw [hcols]; exact List.map_fst_zip (by omega)

/-- **C03.descriptor_ignores_file_argument** — the fourth argument of `ResultTTree` changes neither the booking nor the
descriptor (the job's output file is fixed by the templates). -/
theorem descriptor_ignores_file_argument (S : Sig) (pfx : String) (q : Query) (arg : LabelArg) (tree f1 f2 : String) :
    book S pfx q (.explicit arg tree f1) = book S pfx q (.explicit arg tree f2) := by
  simp [book, terminalCall]

/-- **C03.book_refused_iff** — a query with a terminal is refused exactly when it has no row type or the (row, label
argument) pair of its ResultTTree call is not `Accepts`-ed: in particular every column / label count mismatch. -/
theorem book_refused_iff (S : Sig) (pfx : String) (q : Query) (t : Terminal) :
    (book S pfx q t).toOption = none ↔
      ∀ row, rowType S q = .ok row → Accepts (terminalCall pfx row t).1 (terminalCall pfx row t).2.1 = false := by
  unfold book
  cases hr : rowType S q with
  | error e => simp [Except.toOption]
  | ok row =>
    simp only [Except.ok.injEq, forall_eq']
    rw [← accepted_iff_Accepts]
    cases hc : callResultTTree (terminalCall pfx row t).1 (terminalCall pfx row t).2.1 <;> simp [Except.toOption]

/-- **C03.count_mismatch_refused** — explicit labels whose NUMBER differs from the number of columns: refused, for
every query, tree and file (a bare string counts as one label). -/
theorem count_mismatch_refused (S : Sig) (pfx : String) (q : Query) (row : CTy) (hr : rowType S q = .ok row)
    (arg : LabelArg) (tree file : String)
    (hne : ∀ labels, arg.names = some labels → labels.length ≠ (seqValues row).length) :
    (book S pfx q (.explicit arg tree file)).toOption = none := by
  rw [book_refused_iff]
  intro row' hr'
  rw [hr] at hr'; cases hr'
  cases arg with
  | scalar => rfl
  | bare s =>
    have := hne [s] rfl
    simp only [List.length_cons, List.length_nil] at this
    have h1 : ¬ (seqValues row).length = 1 := fun h => this (by omega)
    simp [terminalCall, Accepts, h1]
  | list ls =>
    have := hne ls rfl
    simp [terminalCall, Accepts, this]

/-- non-vacuity on a real query (`exQueryT`: an event-level row `(Count, vector)`): implicit → `col0, col1` on
`atlas_xaod_tree`; explicit labels on tree `t`; the bare string `'pt'` refused; the descriptor's file is
`ANALYSIS.root` although the argument says `out.root`. -/
example : ((book exSig "atlas_xaod" exQueryT .implicit).toOption.map fun bd =>
    (bd.1.tree, bd.1.columns.map (·.1), bd.1.fill, bd.2)) =
    some ("atlas_xaod_tree", ["col0", "col1"], "atlas_xaod_tree", ⟨"atlas_xaod_tree", "ANALYSIS.root"⟩) := by decide +kernel
example : ((book exSig "cms_aod" exQueryT (.explicit (.list ["n", "pt"]) "t" "out.root")).toOption.map fun bd =>
    (bd.1.tree, bd.1.columns.map fun c => (c.1, cppName c.2), bd.2)) =
    some ("t", [("n", "int"), ("pt", "std::vector<double>")], ⟨"t", "ANALYSIS.root"⟩) := by decide +kernel
example : (book exSig "cms_aod" exQueryT (.explicit (.bare "pt") "t" "out.root")).toOption.isNone = true := by decide +kernel
/-- a sequence of dicts takes no labels at all -/
example : (book exSig "cms_aod" exQuery (.explicit (.list ["a", "b", "c"]) "t" "out.root")).toOption.isNone = true := by decide +kernel
/-- `ds.Select(e -> e.As("ba").Select(j -> j.d()))`: a single vector column -/
def exQuery1 : Query := .select .ds "e" (.select (.coll (.var "e") "As" "ba") "j" (.meth (.var "j") "d"))
example : ((book exSig "cms_aod" exQuery1 (.explicit (.bare "pt") "t" "out.root")).toOption.map fun bd =>
    (bd.1.columns.map fun c => (c.1, cppName c.2), bd.2)) = some ([("pt", "std::vector<double>")], ⟨"t", "ANALYSIS.root"⟩) := by decide +kernel
example : ((book exSig "cms_miniaod" exQuery1 .implicit).toOption.map fun bd => (bd.1.columns.map (·.1), bd.2.treename)) =
    some (["col1"], "cms_miniaod_tree") := by decide +kernel

end FaxVerif.C03
