/-
C03 — the declared-method table of the check's data model: which column type a method declared through
`add_method_type_info` metadata yields.

`meta_data.py` builds `terminal(parse_type(return_type), tree_type=md.get("tree_type"))`; `get_ttree_type` books a
column of `cpp_type().tree_type` — the declared TREE type when there is one (an enum that ROOT cannot store, written as
`int`), else the return type — and `declare_class_variable` writes the value type (a top-level `const` dropped).
`Linq.declTy` decides what a type text denotes. No Mathlib. Executable (used by `C03/TypingDriver.lean` when it reads
the signature the check hands over: `{"name", "type": "decl:<return type>", "tree": <tree type>}`).
-/
import FaxVerif.Linq.Typing
namespace FaxVerif.C03
open FaxVerif.Linq

/-- column type of a scalar method declared with `return_type` and, optionally, `tree_type` -/
def methodColTy (returnType : String) (treeType : Option String) : CTy :=
  declTy (treeType.getD returnType)

/-- the C++ text of a column of `depth` nested sequences of the method's values -/
def columnText (returnType : String) (treeType : Option String) : Nat → String
  | 0 => cppName (methodColTy returnType treeType)
  | d + 1 => "std::vector<" ++ columnText returnType treeType d ++ ">"

/-- `vec^depth t` -/
def nest (t : CTy) : Nat → CTy
  | 0 => t
  | d + 1 => .vec (nest t d)

end FaxVerif.C03
