/-
C03 — the translator model's package and the terminal model's booking / descriptor agree: for every query of the
one-loop fragment, what `Gen.compile` books (tree, column names, declared types) is what `C03.book` (C03/Labels.lean:
the implicit terminal wrapped by `get_as_ROOT`) says, and the descriptor names that tree.
-/
import FaxVerif.C03.TheoremsGen
import FaxVerif.C03.TheoremsLabels
namespace FaxVerif.C03
open FaxVerif.Cpp FaxVerif.Gen FaxVerif.Linq

theorem book_implicit_of_finalColumns {S : Sig} {pfx : String} {q : Query} {cols : List (String × CTy)}
    (hc : finalColumns S q = .ok cols) :
    book S pfx q .implicit = .ok (⟨pfx ++ "_tree", cols, pfx ++ "_tree"⟩, ⟨pfx ++ "_tree", outputFile⟩) := by
  obtain ⟨row, hr, _, _⟩ := finalColumns_ok hc
  have h := implicit_is_explicit S q row hr
  rw [hc] at h
  unfold book
  simp only [hr, terminalCall]
  cases hcr : callResultTTree (implicitCall row).1 (implicitCall row).2 with
  | error e => simp [hcr, Except.toOption] at h
  | ok cols' =>
    simp only [hcr, Except.toOption, Option.some.injEq] at h
    subst h; rfl

/-- **C03.compile_matches_book** — for EVERY query of the one-loop fragment (hypotheses of
`types_agree_with_typing`) and every backend whose default tree is `<prefix>_tree`: the terminal model accepts the
embedded user-level query with the implicit terminal; the descriptor it returns names the tree of the translator
model's package and the file the job writes; the booked column names are the package's branch names, in order, and
the booked C++ types are the types the translator model declares. -/
theorem compile_matches_book (B : Backend) (nm cn : Nat → String) (pfx : String) (hB : B.treeName = pfx ++ "_tree")
    (S : Sig) (fq : FQ) (hwt : fq.wt = true) (hsig : fq.sigOk S = true) (hsc : fq.scalarElems = true) :
    ∃ b d, book S pfx (FQ.toQuery fq) .implicit = .ok (b, d) ∧
      d.treename = (compile B nm cn fq).tree ∧ d.filename = outputFile ∧ b.tree = (compile B nm cn fq).tree ∧
      b.fill = (compile B nm cn fq).tree ∧
      b.columns.map (·.1) = (compile B nm cn fq).branches.map (·.1) ∧
      b.columns.map (fun c => cppName c.2) = FQ.types fq := by
  obtain ⟨cols, hc, h1, h2⟩ := types_agree_with_typing S fq hwt hsig hsc
  refine ⟨_, _, book_implicit_of_finalColumns hc, ?_, rfl, ?_, ?_, ?_, h2⟩
  · rw [tree_name, hB]
  · rw [tree_name, hB]
  · rw [tree_name, hB]
  · rw [schema_names]; exact h1

example : C01.atlasB.treeName = "atlas_xaod" ++ "_tree" ∧ C01.cmsMiniAodB.treeName = "cms_miniaod" ++ "_tree" := by decide
example : exFQ.wt = true ∧ exFQ.sigOk exSig = true ∧ exFQ.scalarElems = true := by decide

end FaxVerif.C03
