/-
C03 typing driver: JSON lines.
  {"op":"columns","sig":SIG,"query":Q,"labels":[..]|null}
     -> {"names":[..],"types":[C++ type names],"row":"dict"|"tuple"|"single"} | {"error":msg}
        (`Linq.finalColumns` / `Linq.finalColumnsLabeled`: the expected schema of the tree — the oracle of the check)
  {"op":"sound","sig":SIG,"query":Q,"events":[E..],"coll_types":[{"name","type"}]}
     -> {"type":text | null, "error":msg | null, "events":[{"event_ok":bool,"outcome":"fits"|"fault:<class>"|"ILL-TYPED <value>"}]}
        (`type_soundness` evaluated: the value `denote` yields on each event fits the type `typeOf` gives)
  {"op":"book","sig":SIG,"query":Q,"prefix":"atlas_xaod"|"cms_aod"|"cms_miniaod",
   "terminal": null | {"arg": {"bare":s} | {"list":[..]} | {"scalar":true}, "tree":t, "file":f}}
     -> {"names":[..],"types":[..],"tree":booked tree,"fill":tree of the fill,"treename":..,"filename":..} | {"error":msg}
        (`C03.book` of C03/Labels.lean: the terminal model — which (terminal form, label argument) pairs are accepted,
         what is booked and the returned descriptor; `null` = the implicit terminal)
  SIG = {"colls":[{"name":accessor,"cls":class}], "classes":[{"cls":class,"methods":[{"name":m,"type":T, "tree": tree type text (optional)}]}],
         "fns":[{"name":f,"type":T}] (optional: user C++ functions and their declared return types)}
  T   = "int" | "float" | "double" | "bool" | "vec:" T | "obj:" class | "decl:" <C++ type text as the metadata declares it>
        (`Linq.declTy` decides which column type a declared text denotes: `const short` -> short, …)
Run: lake env lean --run FaxVerif/C03/TypingDriver.lean
-/
import FaxVerif.Cpp.Json
import FaxVerif.Linq.Typing
import FaxVerif.C03.Labels
import FaxVerif.C03.Declared
open Lean FaxVerif.Cpp FaxVerif.Linq

partial def decTy (s : String) : Except String CTy :=
  if s == "int" then pure .int
  else if s == "float" then pure .float
  else if s == "double" then pure .double
  else if s == "bool" then pure .bool
  else if s.startsWith "vec:" then do pure (.vec (← decTy (s.drop 4).toString))
  else if s.startsWith "obj:" then pure (.obj (s.drop 4).toString)
  else if s.startsWith "decl:" then pure (declTy (s.drop 5).toString)
  else throw s!"unknown type {s}"

def decSig (j : Json) : Except String Sig := do
  let colls ← (← jarr j "colls").mapM fun c => do pure ((← jstr c "name"), (← jstr c "cls"))
  let meths ← (← jarr j "classes").mapM fun c => do
    let ms ← (← jarr c "methods").mapM fun m => do
      let ty ← jstr m "type"
      match m.getObjVal? "tree" with
      | .ok (.str tt) =>
        -- a method declared with a tree type: `C03.methodColTy` (C03/Declared.lean) decides the column type
        if ty.startsWith "decl:" then pure ((← jstr m "name"), FaxVerif.C03.methodColTy (ty.drop 5).toString (some tt))
        else throw s!"a tree type on a method whose type is not a declared text: {ty}"
      | _ => pure ((← jstr m "name"), (← decTy ty))
    pure ((← jstr c "cls"), ms)
  let fns ← match j.getObjVal? "fns" with
    | .ok (.arr a) => a.toList.mapM fun f => do pure ((← jstr f "name"), (← decTy (← jstr f "type")))
    | _ => pure []
  pure { colls := colls, meths := meths, fns := fns }

/-- `floatNum` plus the user functions the check's metadata declares besides `vpf` (tools/props/c03.py USERFNS) -/
def typingNum : Num Float :=
  { floatNum with fn := fun f xs => match f, xs with
      | "wpf", [d] => some (d * 0.5)
      | "upf", [d] => some (d + 1.0)
      | "xpf", [d, i] => some (d - i)
      | _, _ => floatNum.fn f xs }

partial def showTy : CTy → String
  | .int => "int" | .float => "float" | .double => "double" | .bool => "bool" | .str => "string"
  | .event => "event"
  | .obj c => s!"obj {c}"
  | .vec t => s!"vec<{showTy t}>"
  | .tup fs => "tuple(" ++ ", ".intercalate ((fieldTypes fs).map showTy) ++ ")"
  | .dict fs => "dict(" ++ ", ".intercalate (((fieldNames fs).zip (fieldTypes fs)).map fun p => s!"{p.1}: {showTy p.2}") ++ ")"
  | .fnil => "()"
  | .fcons k t r => s!"{k}: {showTy t}; {showTy r}"
  | .prim n _ => n

def handleColumns (j : Json) : Except String Json := do
  let S ← decSig (← j.getObjVal? "sig")
  let q ← decQuery (← j.getObjVal? "query")
  let labels? ← match j.getObjVal? "labels" with
    | .ok .null => pure none
    | .ok (.arr a) => do pure (some (← a.toList.mapM (·.getStr?)))
    | .ok _ => throw "labels must be a list"
    | .error _ => pure none
  let res := match labels? with
    | none => finalColumns S q
    | some ls => finalColumnsLabeled S q ls
  let rowKind := match rowType S q with
    | .ok (.dict _) => "dict"
    | .ok (.tup _) => "tuple"
    | .ok _ => "single"
    | .error _ => "none"
  match res with
  | .error e => pure (Json.mkObj [("error", Json.str e)])
  | .ok cols => pure (Json.mkObj [
      ("names", Json.arr (cols.map fun c => Json.str c.1).toArray),
      ("types", Json.arr (cols.map fun c => Json.str (cppName c.2)).toArray),
      ("row", Json.str rowKind)])

def handleSound (j : Json) : Except String Json := do
  let S ← decSig (← j.getObjVal? "sig")
  let q ← decQuery (← j.getObjVal? "query")
  let evs ← (← jarr j "events").mapM decEvent
  let cts ← (← jarr j "coll_types").mapM fun c => do pure ((← jstr c "name"), (← jstr c "type"))
  match typeOf S [] q with
  | .error e => pure (Json.mkObj [("type", Json.null), ("error", Json.str e), ("events", Json.arr #[])])
  | .ok t =>
    let outs := evs.map fun ev =>
      let C : QCtx Float := { N := typingNum, ev := ev, collTypes := cts }
      let outcome := match denote C [] q with
        | .error f => s!"fault:{faultClass f}"
        | .ok v => if hasCTy S v t then "fits" else s!"ILL-TYPED {showVal true v}"
      Json.mkObj [("event_ok", Json.bool (eventOk S C)), ("outcome", Json.str outcome)]
    pure (Json.mkObj [("type", Json.str (showTy t)), ("error", Json.null), ("events", Json.arr outs.toArray)])

def decLabelArg (j : Json) : Except String FaxVerif.C03.LabelArg :=
  match j.getObjVal? "bare" with
  | .ok (.str s) => pure (.bare s)
  | _ => match j.getObjVal? "list" with
    | .ok (.arr a) => do pure (.list (← a.toList.mapM (·.getStr?)))
    | _ => match j.getObjVal? "scalar" with
      | .ok _ => pure .scalar
      | _ => throw "label argument must be {bare}|{list}|{scalar}"

def handleBook (j : Json) : Except String Json := do
  let S ← decSig (← j.getObjVal? "sig")
  let q ← decQuery (← j.getObjVal? "query")
  let pfx ← jstr j "prefix"
  let t ← match j.getObjVal? "terminal" with
    | .ok (.obj o) => do
      let tj := Json.obj o
      pure (FaxVerif.C03.Terminal.explicit (← decLabelArg (← tj.getObjVal? "arg")) (← jstr tj "tree") (← jstr tj "file"))
    | _ => pure FaxVerif.C03.Terminal.implicit
  match FaxVerif.C03.book S pfx q t with
  | .error e => pure (Json.mkObj [("error", Json.str e)])
  | .ok (b, d) => pure (Json.mkObj [
      ("names", Json.arr (b.columns.map fun c => Json.str c.1).toArray),
      ("types", Json.arr (b.columns.map fun c => Json.str (cppName c.2)).toArray),
      ("tree", Json.str b.tree), ("fill", Json.str b.fill),
      ("treename", Json.str d.treename), ("filename", Json.str d.filename)])

def handle (line : String) : String :=
  match Json.parse line with
  | .error e => (Json.mkObj [("bad", e)]).compress
  | .ok j =>
    let r : Except String Json := do
      let op ← jstr j "op"
      if op == "columns" then handleColumns j else if op == "sound" then handleSound j else if op == "book" then handleBook j else throw s!"unknown op {op}"
    match r with
    | .ok j => j.compress
    | .error e => (Json.mkObj [("bad", e)]).compress

partial def loopIO (h : IO.FS.Stream) (out : IO.FS.Stream) : IO Unit := do
  let line ← h.getLine
  if line.isEmpty then return ()
  let t := line.trimAscii.toString
  if !t.isEmpty then out.putStrLn (handle t)
  loopIO h out

def main : IO Unit := do
  let out ← IO.getStdout
  loopIO (← IO.getStdin) out
  out.flush
