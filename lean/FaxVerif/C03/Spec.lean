/-
C03 — the schema of the output tree as a decidable predicate on a package: evaluated by the
driver on the implementation's own (parsed) output, and proved of the translator model.
-/
import FaxVerif.Cpp.Check
namespace FaxVerif.C03
open FaxVerif.Cpp

mutual
  /-- names assigned (`=`), pushed to or cleared in a statement -/
  def writes : Stmt → List String
    | .block body => writesL body
    | .loop _ _ body => writesL body
    | .ite _ t e => writesL t ++ writesL e
    | .set x _ => [x]
    | .push x _ => [x]
    | .clear x => [x]
    | .retrieve _ _ v _ _ => [v]
    | _ => []
  def writesL : List Stmt → List String
    | [] => []
    | s :: ss => writes s ++ writesL ss
end

mutual
  def fills : Stmt → List String
    | .block body => fillsL body
    | .loop _ _ body => fillsL body
    | .ite _ t e => fillsL t ++ fillsL e
    | .fill t => [t]
    | _ => []
  def fillsL : List Stmt → List String
    | [] => []
    | s :: ss => fills s ++ fillsL ss
end

def lookupTy (cvs : List (String × String)) (v : String) : Option String :=
  match cvs with
  | [] => none
  | (t, n) :: rest => if n = v then some t else lookupTy rest v

/-- The booked columns are `names` in that order, each bound to its own class-level variable,
declared exactly once with the expected type; the per-event code writes, among the class-level
column variables, exactly the booked ones; there is at least one fill and every fill names the
booked tree (`fillArg` = what the backend's fill statement carries for that tree). -/
def SchemaOk (P : Package) (names types : List String) (fillArg : String) : Bool :=
  P.branches.map (·.1) == names &&
  (P.branches.map (·.2)).Nodup &&
  (P.branches.map fun b => lookupTy P.classVars b.2) == types.map some &&
  ((P.classVars.map (·.2)).filter fun v => (P.branches.map (·.2)).contains v).Nodup &&
  (P.branches.all fun b => (writes P.body).contains b.2) &&
  ((writes P.body).all fun w =>
      !((P.classVars.map (·.2)).contains w) || (P.branches.map (·.2)).contains w || (P.tokens.map (·.1)).contains w) &&
  !(fills P.body).isEmpty && (fills P.body).all (· == fillArg)

end FaxVerif.C03
