/-
C05 — rows for an event depend on that event only: the translator MODEL, for all queries of the
fragment F0-lite, by proof about the compiler (not per program).

`C05/Theorems.lean` derives the job-level statements for any package accepted by the verified
checker `EventLocal` (evaluated on the implementation's own output, one theorem instance per
program). Here the same statements are proved ONCE for every package `Gen.compile` can emit:
every fragment query (event-level rows with scalar / vector / `First()` columns; element-level
rows), every backend satisfying `Gen.BackendBase` (ATLAS, CMS AOD, CMS miniAOD — proved instances
in `C01`), every number model, every list of events — and tied to what the QUERY means:
the job writes, event after event, exactly the rows the query denotes on that event.

Full statement of the property for the fragment (not proved at this strength):
    ∀ fq evs, runJob (compile fq) evs = denoteJob fq evs          (faults included)
What is proved is the success direction: every event of the job is one on which the query is
defined (`denoteJob = ok`, i.e. `denoteRows = ok` on each event), with the per-event side
conditions `FragHyp` of `C01.eventRows_correct_partial` / `C01.elemRows_correct_partial`
(static well-typedness, accessors return the declared kinds, banks hold collections, a floating
`Sum` ranges over ≥ 1 element). A job containing an event on which the query faults is covered by
`C05.job_is_per_event` (checker route) and, for an empty `First()`, by `C04.event_first_empty_loud`.
-/
import FaxVerif.Gen.JobCorrect
import FaxVerif.C01.TheoremsMiniAod
namespace FaxVerif.C05
open FaxVerif.Cpp FaxVerif.Linq FaxVerif.Gen
variable {D : Type}

/-- **C05.fragment_event_post_partial** — ONE call of the per-event method, for every fragment
query: from a class state satisfying `FragPre` (vector columns empty, column variables declared)
on an event where the query denotes `rows`, the emitted package writes exactly `rows` and leaves a
class state satisfying `FragPre` again — the `clear()`s the translator emits after the `Fill`
re-establish what the next event needs; no accumulator, flag or vector content survives.
(Partial: success direction.) -/
theorem fragment_event_post_partial (B : Backend) (hB : BackendBase B) (nm cn : Nat → String)
    (hinj : ∀ i j, nm i = nm j → i = j) (hcinj : ∀ i j, cn i = cn j → i = j)
    (hres : ∀ j, nm j ≠ "result") (hcres : ∀ k, cn k ≠ "result") (hdisj : ∀ j k, nm j ≠ cn k)
    (QC : QCtx D) (hcollT : ∀ name, B.collType name = QC.collType name)
    (fq : FQ) (hhyp : FragHyp QC fq) (σc : Env D) (hσ : FragPre cn fq σc)
    (rows : List (List (Val D))) (hden : denoteRows QC fq.toQuery = .ok rows) :
    ∃ σ', runEvent (compile B nm cn fq) QC.N σc QC.ev = .ok (rows, σ') ∧ FragPre cn fq σ' :=
  fragEvent_correct_post B hB nm cn hinj hcinj hres hcres hdisj QC hcollT fq hhyp σc hσ rows hden

/-- **C05.fragment_init_pre** — the class state a job starts from (`classInit` of the emitted
class variables: vector members empty, scalar members declared, miniAOD token members first)
satisfies the precondition `FragPre`. No hypothesis on the query or the backend. -/
theorem fragment_init_pre (B : Backend) (nm cn : Nat → String)
    (hcinj : ∀ i j, cn i = cn j → i = j) (hdisj : ∀ j k, nm j ≠ cn k) (fq : FQ) :
    FragPre cn fq (classInit (compile B nm cn fq).classVars : Env D) :=
  fragPre_classInit B nm cn hcinj hdisj fq

/-- **C05.fragment_job_correct_partial** — a JOB: for every fragment query, every backend
satisfying `BackendBase`, every number model and EVERY list of events, if the query is defined on
each event, the emitted package run as one job (class state threaded from event to event, starting
from the initial one) writes exactly `rows(ev₁) ++ rows(ev₂) ++ …`, the rows the query denotes on
each event, in order. Nothing written for one event depends on another event of the job.
(Partial: success direction — every event of the job is one on which the query is defined.) -/
theorem fragment_job_correct_partial (B : Backend) (hB : BackendBase B) (nm cn : Nat → String)
    (hinj : ∀ i j, nm i = nm j → i = j) (hcinj : ∀ i j, cn i = cn j → i = j)
    (hres : ∀ j, nm j ≠ "result") (hcres : ∀ k, cn k ≠ "result") (hdisj : ∀ j k, nm j ≠ cn k)
    (QC : QCtx D) (hcollT : ∀ name, B.collType name = QC.collType name)
    (fq : FQ) (evs : List (Event D)) (hhyp : ∀ ev ∈ evs, FragHyp (QC.withEvent ev) fq)
    (rows : List (List (Val D))) (hden : denoteJob QC fq.toQuery evs = .ok rows) :
    runJob (compile B nm cn fq) QC.N evs = .ok rows :=
  job_correct B hB nm cn hinj hcinj hres hcres hdisj QC hcollT fq evs hhyp rows hden

/-- the same with the per-event row blocks explicit: if `rsᵢ` is what the query denotes on `evᵢ`
then `runJob = ok (rs₁ ++ rs₂ ++ …)`. -/
theorem fragment_job_blocks_partial (B : Backend) (hB : BackendBase B) (nm cn : Nat → String)
    (hinj : ∀ i j, nm i = nm j → i = j) (hcinj : ∀ i j, cn i = cn j → i = j)
    (hres : ∀ j, nm j ≠ "result") (hcres : ∀ k, cn k ≠ "result") (hdisj : ∀ j k, nm j ≠ cn k)
    (QC : QCtx D) (hcollT : ∀ name, B.collType name = QC.collType name)
    (fq : FQ) (evs : List (Event D)) (hhyp : ∀ ev ∈ evs, FragHyp (QC.withEvent ev) fq)
    (rs : List (List (List (Val D)))) (hden : DenoteBlocks QC fq.toQuery evs rs) :
    runJob (compile B nm cn fq) QC.N evs = .ok rs.flatten :=
  job_correct_blocks B hB nm cn hinj hcinj hres hcres hdisj QC hcollT fq evs hhyp rs hden

/-- **C05.fragment_job_split** — splitting the input across jobs changes nothing: a job over
`xs ++ ys` writes what a job over `xs` followed by a separate job over `ys` (fresh class state)
write. (Success case: the query is defined on every event of `xs` and `ys`.) -/
theorem fragment_job_split (B : Backend) (hB : BackendBase B) (nm cn : Nat → String)
    (hinj : ∀ i j, nm i = nm j → i = j) (hcinj : ∀ i j, cn i = cn j → i = j)
    (hres : ∀ j, nm j ≠ "result") (hcres : ∀ k, cn k ≠ "result") (hdisj : ∀ j k, nm j ≠ cn k)
    (QC : QCtx D) (hcollT : ∀ name, B.collType name = QC.collType name)
    (fq : FQ) (xs ys : List (Event D)) (hhyp : ∀ ev ∈ xs ++ ys, FragHyp (QC.withEvent ev) fq)
    (r₁ r₂ : List (List (Val D)))
    (h₁ : denoteJob QC fq.toQuery xs = .ok r₁) (h₂ : denoteJob QC fq.toQuery ys = .ok r₂) :
    runJob (compile B nm cn fq) QC.N xs = .ok r₁ ∧ runJob (compile B nm cn fq) QC.N ys = .ok r₂ ∧
    runJob (compile B nm cn fq) QC.N (xs ++ ys) = .ok (r₁ ++ r₂) :=
  job_split B hB nm cn hinj hcinj hres hcres hdisj QC hcollT fq xs ys hhyp r₁ r₂ h₁ h₂

/-- **C05.fragment_prefix_independent** — in a job `pre ++ ev :: post` the rows written for `ev`
are exactly those of running `ev` alone from the initial class state — which are the rows the
query denotes on `ev` — whatever events preceded it (events that wrote no row included); the job's
output is `rows(pre) ++ rows(ev) ++ rows(post)`. (Success case.) -/
theorem fragment_prefix_independent (B : Backend) (hB : BackendBase B) (nm cn : Nat → String)
    (hinj : ∀ i j, nm i = nm j → i = j) (hcinj : ∀ i j, cn i = cn j → i = j)
    (hres : ∀ j, nm j ≠ "result") (hcres : ∀ k, cn k ≠ "result") (hdisj : ∀ j k, nm j ≠ cn k)
    (QC : QCtx D) (hcollT : ∀ name, B.collType name = QC.collType name)
    (fq : FQ) (pre : List (Event D)) (ev : Event D) (post : List (Event D))
    (hhyp : ∀ e ∈ pre ++ ev :: post, FragHyp (QC.withEvent e) fq)
    (r : List (List (Val D))) (hden : denoteJob QC fq.toQuery (pre ++ ev :: post) = .ok r) :
    ∃ rp re rq σ',
      runJob (compile B nm cn fq) QC.N pre = .ok rp ∧
      runEvent (compile B nm cn fq) QC.N (classInit (compile B nm cn fq).classVars) ev = .ok (re, σ') ∧
      denoteRows (QC.withEvent ev) fq.toQuery = .ok re ∧
      runJob (compile B nm cn fq) QC.N post = .ok rq ∧
      runJob (compile B nm cn fq) QC.N (pre ++ ev :: post) = .ok (rp ++ re ++ rq) :=
  job_prefix_independent B hB nm cn hinj hcinj hres hcres hdisj QC hcollT fq pre ev post hhyp r hden

/-- **C05.fragment_perm** — processing the events in any order: the permuted job completes too,
writes for each event the same block of rows, and the two outputs are permutations of each other
(`List.Perm` on the rows). (Success case: the query is defined on every event.) -/
theorem fragment_perm (B : Backend) (hB : BackendBase B) (nm cn : Nat → String)
    (hinj : ∀ i j, nm i = nm j → i = j) (hcinj : ∀ i j, cn i = cn j → i = j)
    (hres : ∀ j, nm j ≠ "result") (hcres : ∀ k, cn k ≠ "result") (hdisj : ∀ j k, nm j ≠ cn k)
    (QC : QCtx D) (hcollT : ∀ name, B.collType name = QC.collType name)
    (fq : FQ) (evs evs' : List (Event D)) (hp : evs.Perm evs')
    (hhyp : ∀ ev ∈ evs, FragHyp (QC.withEvent ev) fq)
    (r : List (List (Val D))) (hden : denoteJob QC fq.toQuery evs = .ok r) :
    ∃ r', runJob (compile B nm cn fq) QC.N evs = .ok r ∧ runJob (compile B nm cn fq) QC.N evs' = .ok r' ∧
      denoteJob QC fq.toQuery evs' = .ok r' ∧ r.Perm r' :=
  job_perm B hB nm cn hinj hcinj hres hcres hdisj QC hcollT fq evs evs' hp hhyp r hden

/-! ### non-vacuity: a concrete miniAOD job, both query shapes

All hypotheses of the theorems above are discharged on a concrete backend (CMS miniAOD, retrieval
by token), name supply, number model, query and list of three events (one with an empty
collection); the conclusions are the concrete rows. -/

/-- a (toy) number model over `Int`, to have a concrete `D` -/
def fragNum : Num Int :=
  { ofInt := id, ofDec := fun m _ => m, add := (· + ·), sub := (· - ·), mul := (· * ·), div := Int.tdiv, neg := (- ·),
    lt := fun a b => decide (a < b), le := fun a b => decide (a ≤ b), eq := fun a b => decide (a = b), toInt := id,
    fn := fun _ _ => none }

def fragQC : QCtx Int := { N := fragNum, ev := ⟨[]⟩, collTypes := [("As", "std::vector<pat::Aa>")] }

def fragEv1 : Event Int := ⟨[("ba", "std::vector<pat::Aa>", .vec [.obj "A" [("i", .int 3)], .obj "A" [("i", .int 5)]])]⟩
def fragEv2 : Event Int := ⟨[("ba", "std::vector<pat::Aa>", .vec [])]⟩

/-- `ds.Select(e -> {n: e.As("ba").Count(), is: e.As("ba").Select(a -> a.i())})` -/
def fragFq : FQ := .eventRows [("n", .scalar (.count ⟨"As", "ba", []⟩)), ("is", .seq ⟨"As", "ba", [.sel (.meth "i" .int)]⟩)]

/-- `ds.SelectMany(e -> e.As("ba").Where(a -> a.i() > 3)).Select(a -> {i: a.i()})` -/
def fragFqE : FQ := .elemRows ⟨"As", "ba", [.whr (.cmp .gt (.meth "i" .int) (.int 3))]⟩ [("i", .meth "i" .int)]

theorem fragDen : denoteJob fragQC fragFq.toQuery [fragEv1, fragEv2, fragEv1] =
    .ok [[.int 2, .vec [.int 3, .int 5]], [.int 0, .vec []], [.int 2, .vec [.int 3, .int 5]]] := rfl

theorem fragDenE : denoteJob fragQC fragFqE.toQuery [fragEv1, fragEv2, fragEv1] = .ok [[.int 5], [.int 5]] := rfl

theorem fragCollT : ∀ name, C01.cmsMiniAodB.collType name = fragQC.collType name := by
  intro name
  simp only [C01.cmsMiniAodB, QCtx.collType, fragQC, QCtx.collType.go]
  by_cases h : name = "As"
  · simp [h]
  · have h' : ¬ "As" = name := fun e => h e.symm
    simp [h, h']

theorem fragMethTyped (ev : Event Int) (hev : ev = fragEv1 ∨ ev = fragEv2) (cty : String) (l : List (Val Int))
    (hf : (fragQC.withEvent ev).ev.find "ba" = some (cty, .vec l)) : ∀ v ∈ l, MethTyped v [("i", .int)] := by
  intro v hv
  rcases hev with rfl | rfl
  · simp [QCtx.withEvent, fragEv1, Event.find, Event.find.go] at hf
    obtain ⟨_, rfl⟩ := hf
    intro p hp w hw
    simp only [List.mem_singleton] at hp; subst hp
    simp at hv
    rcases hv with rfl | rfl <;> simp [member, lookupAttr] at hw <;> subst hw <;> simp [HasTy]
  · simp [QCtx.withEvent, fragEv2, Event.find, Event.find.go] at hf
    obtain ⟨_, rfl⟩ := hf
    simp at hv

theorem fragBankIsVec (ev : Event Int) (hev : ev = fragEv1 ∨ ev = fragEv2) (steps : List Step) :
    BankIsVec (fragQC.withEvent ev) ⟨"As", "ba", steps⟩ := by
  intro cty content hf
  rcases hev with rfl | rfl
  · simp [QCtx.withEvent, fragEv1, Event.find, Event.find.go] at hf
    exact ⟨_, hf.2.symm⟩
  · simp [QCtx.withEvent, fragEv2, Event.find, Event.find.go] at hf
    exact ⟨_, hf.2.symm⟩

theorem fragHyp : ∀ ev ∈ [fragEv1, fragEv2, fragEv1], FragHyp (fragQC.withEvent ev) fragFq := by
  intro ev hm
  have hev : ev = fragEv1 ∨ ev = fragEv2 := by simpa [or_comm] using hm
  intro p hp
  simp only [List.mem_cons, List.not_mem_nil, or_false] at hp
  rcases hp with rfl | rfl
  · refine ⟨by decide, ?_, ?_⟩
    · intro c hc
      simp only [chainsEE, List.mem_singleton] at hc; subst hc
      intro cty l _ v _ p hp
      simp [methsSteps] at hp
    · intro c hc; simp [sumChainsEE] at hc
  · refine ⟨by decide, ?_, fragBankIsVec ev hev _⟩
    intro cty l hf
    exact fragMethTyped ev hev cty l hf

theorem fragHypE : ∀ ev ∈ [fragEv1, fragEv2, fragEv1], FragHyp (fragQC.withEvent ev) fragFqE := by
  intro ev hm
  have hev : ev = fragEv1 ∨ ev = fragEv2 := by simpa [or_comm] using hm
  refine ⟨by decide, by decide, ?_⟩
  intro cty l hf v hv
  have := fragMethTyped ev hev cty l hf v hv
  refine ⟨?_, ?_⟩
  · simpa [methsSteps, methsPE] using this
  · intro p hp
    simp only [List.mem_singleton] at hp; subst hp
    simpa [methsPE] using this

/-- event-level rows on miniAOD: one job over three events -/
example : runJob (compile C01.cmsMiniAodB C01.exNm C01.exCn fragFq) fragNum [fragEv1, fragEv2, fragEv1] =
    .ok [[.int 2, .vec [.int 3, .int 5]], [.int 0, .vec []], [.int 2, .vec [.int 3, .int 5]]] :=
  fragment_job_correct_partial C01.cmsMiniAodB C01.backendOK_cmsMiniAod C01.exNm C01.exCn C01.exNm_inj C01.exCn_inj
    C01.exNm_ne_result C01.exCn_ne_result C01.exNm_ne_exCn fragQC fragCollT fragFq _ fragHyp _ fragDen

/-- element-level rows on miniAOD: the event with an empty collection writes no row -/
example : runJob (compile C01.cmsMiniAodB C01.exNm C01.exCn fragFqE) fragNum [fragEv1, fragEv2, fragEv1] =
    .ok [[.int 5], [.int 5]] :=
  fragment_job_correct_partial C01.cmsMiniAodB C01.backendOK_cmsMiniAod C01.exNm C01.exCn C01.exNm_inj C01.exCn_inj
    C01.exNm_ne_result C01.exCn_ne_result C01.exNm_ne_exCn fragQC fragCollT fragFqE _ fragHypE _ fragDenE

/-- the reversed job: same blocks, a permutation of the rows -/
example : ∃ r', runJob (compile C01.cmsMiniAodB C01.exNm C01.exCn fragFq) fragNum [fragEv1, fragEv1, fragEv2] = .ok r' ∧
    List.Perm [[Val.int 2, .vec [.int 3, .int 5]], [.int 0, .vec []], [.int 2, .vec [.int 3, .int 5]]] r' := by
  obtain ⟨r', _, h2, _, h4⟩ := fragment_perm C01.cmsMiniAodB C01.backendOK_cmsMiniAod C01.exNm C01.exCn C01.exNm_inj C01.exCn_inj
    C01.exNm_ne_result C01.exCn_ne_result C01.exNm_ne_exCn fragQC fragCollT fragFq [fragEv1, fragEv2, fragEv1]
    [fragEv1, fragEv1, fragEv2] ((List.Perm.swap fragEv1 fragEv2 []).cons fragEv1) fragHyp _ fragDen
  exact ⟨r', h2, h4⟩

/-- the same on the backends that retrieve by bank name (ATLAS shown): the hypotheses on the backend hold -/
example : BackendBase C01.atlasB ∧ BackendBase C01.cmsAodB ∧ BackendBase C01.cmsMiniAodB :=
  ⟨C01.backendBase_atlas, C01.backendBase_cmsAod, C01.backendOK_cmsMiniAod⟩

end FaxVerif.C05
