/-
C05 — rows for an event depend on that event only: for the translator MODEL, every package `Gen.compile`
can emit is accepted by the verified checker `EventLocal` — for ALL queries of the fragment F0-lite, by
proof about the generator, not per program — so the job-level theorems of `C05/Theorems.lean` hold for
the whole fragment, over every event list INCLUDING events on which the query faults.

This is the checker route made universal. It complements `C05/TheoremsFragment.lean`, whose job theorems
are proved through compiler correctness and therefore only in the success direction (every event of the job
is one on which the query is defined, under the typing side conditions `FragHyp`): here there is NO
hypothesis on the events at all — ill-typed events, missing banks, empty `First()`, integer division by
zero: whatever an event does alone (rows or a fault), it does the same inside any job after any history.
What this route does not say is WHAT the rows are (that is `fragment_job_correct_partial`).
Hypotheses as in `C02/TheoremsWf.lean`. Lemmas in Gen/WfCorrect{Base,Chain,Cols,Top}.lean.
-/
import FaxVerif.Gen.WfCorrectTop
import FaxVerif.C05.Theorems
import FaxVerif.C01.TheoremsMiniAod
namespace FaxVerif.C05
open FaxVerif.Cpp FaxVerif.Gen
variable {D : Type}

/-- **C05.compile_eventLocal** — for EVERY query of the fragment the emitted package is accepted by
`EventLocal`: it is `WellFormed` (so the per-event body reads nothing it has not written in the same event,
apart from vector columns, which it finds empty), the emptiness analysis `emp` accepts the body from "all
vector columns empty" (its loop-invariance checks succeed), and every vector column is known empty again at
the end (each has its `clear()` after the fill). Full strength: no restriction on the query. -/
theorem compile_eventLocal (B : Backend) (hB : BackendBase B) (nm cn : Nat → String)
    (hinj : ∀ i j, nm i = nm j → i = j) (hcinj : ∀ i j, cn i = cn j → i = j)
    (hres : ∀ j, nm j ≠ "result") (hcres : ∀ k, cn k ≠ "result") (hdisj : ∀ j k, nm j ≠ cn k)
    (fq : FQ) : EventLocal (compile B nm cn fq) = true :=
  Wf.compile_el B hB nm cn hinj hcinj hdisj hres hcres fq

/-- **C05.fragment_job_is_per_event** — for every fragment query, every backend satisfying `BackendBase`,
every number model and EVERY list of events — with no hypothesis on the events, in particular INCLUDING
events on which the query faults — one job over the list writes exactly what the events write when each is
processed alone from the initial class state; a faulting event ends the job in both readings, with the same
fault. No accumulator, flag, vector column or cached value carries over.
Stronger than the success-direction job theorems of `C05/TheoremsFragment.lean`
(`fragment_job_correct_partial`, `fragment_job_split`, `fragment_prefix_independent`, `fragment_perm`), which
assume the query is defined (and well typed) on every event of the job; weaker in that it does not say
what the rows are. (`compile_eventLocal` composed with the soundness theorem `job_is_per_event`.) -/
theorem fragment_job_is_per_event (B : Backend) (hB : BackendBase B) (nm cn : Nat → String)
    (hinj : ∀ i j, nm i = nm j → i = j) (hcinj : ∀ i j, cn i = cn j → i = j)
    (hres : ∀ j, nm j ≠ "result") (hcres : ∀ k, cn k ≠ "result") (hdisj : ∀ j k, nm j ≠ cn k)
    (fq : FQ) (N : Num D) (evs : List (Event D)) :
    runJob (compile B nm cn fq) N evs = perEvent (compile B nm cn fq) N evs :=
  job_is_per_event _ N (compile_eventLocal B hB nm cn hinj hcinj hres hcres hdisj fq) evs

/-- **C05.fragment_event_history_free** — ONE call of the per-event method, from ANY clean class state (in
particular the one left by any sequence of earlier events): it fails iff it fails from the initial class
state, with the same fault; if it succeeds it writes the same rows as from the initial state and leaves a
clean class state again. Faulting events included; no hypothesis on the event. -/
theorem fragment_event_history_free (B : Backend) (hB : BackendBase B) (nm cn : Nat → String)
    (hinj : ∀ i j, nm i = nm j → i = j) (hcinj : ∀ i j, cn i = cn j → i = j)
    (hres : ∀ j, nm j ≠ "result") (hcres : ∀ k, cn k ≠ "result") (hdisj : ∀ j k, nm j ≠ cn k)
    (fq : FQ) (N : Num D) (σc : Env D) (hc : ClassClean (compile B nm cn fq) σc) (ev : Event D) :
    (∀ f, runEvent (compile B nm cn fq) N σc ev = .error f ↔
        runEvent (compile B nm cn fq) N (classInit (compile B nm cn fq).classVars) ev = .error f) ∧
    (∀ rows σc', runEvent (compile B nm cn fq) N σc ev = .ok (rows, σc') →
        ClassClean (compile B nm cn fq) σc' ∧
        ∃ σ0', runEvent (compile B nm cn fq) N (classInit (compile B nm cn fq).classVars) ev = .ok (rows, σ0')) :=
  runEvent_local _ N (compile_eventLocal B hB nm cn hinj hcinj hres hcres hdisj fq) σc hc ev

/-- **C05.fragment_fault_is_the_events** — a fault is not caused by history either: if the job over
`pre ++ [ev]` ends in a fault while the job over `pre` completes, then `ev` processed alone (fresh class
state) ends in the same fault. -/
theorem fragment_fault_is_the_events (B : Backend) (hB : BackendBase B) (nm cn : Nat → String)
    (hinj : ∀ i j, nm i = nm j → i = j) (hcinj : ∀ i j, cn i = cn j → i = j)
    (hres : ∀ j, nm j ≠ "result") (hcres : ∀ k, cn k ≠ "result") (hdisj : ∀ j k, nm j ≠ cn k)
    (fq : FQ) (N : Num D) (pre : List (Event D)) (ev : Event D) (rp : List (List (Val D))) (f : Fault)
    (hp : runJob (compile B nm cn fq) N pre = .ok rp)
    (h : runJob (compile B nm cn fq) N (pre ++ [ev]) = .error f) :
    runJob (compile B nm cn fq) N [ev] = .error f := by
  have hP := compile_eventLocal B hB nm cn hinj hcinj hres hcres hdisj fq
  rw [job_is_per_event _ N hP] at hp h ⊢
  revert rp
  induction pre with
  | nil => intro rp _; simpa using h
  | cons e pre ih =>
    intro rp hp
    simp only [List.cons_append, perEvent] at hp h
    cases he : runEvent (compile B nm cn fq) N (classInit (compile B nm cn fq).classVars) e with
    | error g => rw [he] at hp; simp at hp
    | ok r =>
      obtain ⟨rows, σ'⟩ := r
      rw [he] at hp h
      simp only [] at hp h
      cases hq : perEvent (compile B nm cn fq) N pre with
      | error g => rw [hq] at hp; simp at hp
      | ok more =>
        cases hr : perEvent (compile B nm cn fq) N (pre ++ [ev]) with
        | ok more' => rw [hr] at h; simp at h
        | error g =>
          rw [hr] at h
          simp only [Except.error.injEq] at h; subst h
          exact ih hr more hq

/-! ### non-vacuity -/

/-- the hypotheses are satisfiable: the three backends and the example name supplies -/
example (fq : FQ) : EventLocal (compile C01.atlasB C01.exNm C01.exCn fq) = true :=
  compile_eventLocal _ C01.backendBase_atlas _ _ C01.exNm_inj C01.exCn_inj C01.exNm_ne_result C01.exCn_ne_result
    C01.exNm_ne_exCn fq
example (fq : FQ) : EventLocal (compile C01.cmsAodB C01.exNm C01.exCn fq) = true :=
  compile_eventLocal _ C01.backendBase_cmsAod _ _ C01.exNm_inj C01.exCn_inj C01.exNm_ne_result C01.exCn_ne_result
    C01.exNm_ne_exCn fq
example (fq : FQ) : EventLocal (compile C01.cmsMiniAodB C01.exNm C01.exCn fq) = true :=
  compile_eventLocal _ C01.backendOK_cmsMiniAod _ _ C01.exNm_inj C01.exCn_inj C01.exNm_ne_result C01.exCn_ne_result
    C01.exNm_ne_exCn fq

/-- … and every backend record the text tie builds (`Gen.mkBackend`, any backend name and collection table) -/
example (name : String) (colls : List (String × String × String)) (fq : FQ) :
    EventLocal (compile (mkBackend name colls) C01.exNm C01.exCn fq) = true :=
  compile_eventLocal _ (Wf.backendBase_mkBackend name colls) _ _ C01.exNm_inj C01.exCn_inj C01.exNm_ne_result C01.exCn_ne_result
    C01.exNm_ne_exCn fq

def exFq : FQ := .eventRows [
  ("n", .scalar (.bin .add (.count ⟨"As", "ba", [.whr (.cmp .gt (.meth "d" .double) (.int 1))]⟩) (.int 1))),
  ("v", .seq ⟨"As", "ba", [.sel (.meth "d" .double), .whr (.cmp .gt .it (.int 1)), .whr (.cmp .lt .it (.int 5))]⟩),
  ("f", .first ⟨"As", "bb", [.sel (.meth "d" .double)]⟩)]

/-- the checker evaluated by the kernel on concrete compiled packages (what the theorem predicts) -/
example : EventLocal (compile C01.atlasB C01.exNm C01.exCn exFq) = true := by decide +kernel
example : EventLocal (compile C01.cmsMiniAodB C01.exNm C01.exCn exFq) = true := by decide +kernel

/-- … and the statement is not trivially true of the checker: the same package without its last statement
(the `clear()` of the vector column) is rejected — the column would carry over to the next event -/
example : EventLocal { compile C01.atlasB C01.exNm C01.exCn exFq with
    body := match (compile C01.atlasB C01.exNm C01.exCn exFq).body with
      | .block b => .block b.dropLast
      | st => st } = false := by decide +kernel

end FaxVerif.C05
