/-
C05 — rows for an event depend on that event only.

The theorems are about ANY package accepted by the verified static check `EventLocal`
(lean/FaxVerif/Cpp/Check.lean) — in particular about the implementation's own output, on which the
check is evaluated on every run — for every number model, every event list and every history.
-/
import FaxVerif.Cpp.EventLocal
namespace FaxVerif.C05
open FaxVerif.Cpp
variable {D : Type}

/-- **C05.job_is_per_event** — one job over a list of events writes exactly what the events
write when each is processed alone from the initial class state (a faulting event ends the job in
both readings). No accumulator, flag, vector column or cached value carries over. -/
theorem job_is_per_event (P : Package) (N : Num D) (hP : EventLocal P = true) (evs : List (Event D)) :
    runJob P N evs = perEvent P N evs := by
  have hnd : (classNames P.classVars).Nodup := by
    unfold EventLocal WellFormed at hP
    simp only [Bool.and_eq_true, decide_eq_true_eq] at hP
    simpa [classNames] using hP.1.1.2
  exact runJobFrom_eq P N hP evs _ (classInit_clean P hnd)

/-- what an event writes when processed alone -/
def alone (P : Package) (N : Num D) (ev : Event D) : Option (List (List (Val D))) :=
  match runEvent P N (classInit P.classVars) ev with
  | .ok (rows, _) => some rows
  | .error _ => none

theorem perEvent_ok (P : Package) (N : Num D) :
    ∀ (evs : List (Event D)) (r : List (List (Val D))), perEvent P N evs = .ok r →
      r = (evs.filterMap (alone P N)).flatten ∧ ∀ ev ∈ evs, (alone P N ev).isSome = true
  | [], r, h => by simp only [perEvent, Except.ok.injEq] at h; subst h; simp
  | ev :: evs, r, h => by
    simp only [perEvent] at h
    cases he : runEvent P N (classInit P.classVars) ev with
    | error f => rw [he] at h; simp at h
    | ok p =>
      obtain ⟨rows, σ'⟩ := p
      rw [he] at h
      simp only [] at h
      cases hr : perEvent P N evs with
      | error f => rw [hr] at h; simp at h
      | ok more =>
        rw [hr] at h
        simp only [Except.ok.injEq] at h; subst h
        obtain ⟨ih1, ih2⟩ := perEvent_ok P N evs more hr
        have ha : alone P N ev = some rows := by simp [alone, he]
        refine ⟨by simp [List.filterMap_cons, ha, ih1], ?_⟩
        intro e hm
        rcases List.mem_cons.1 hm with rfl | hm
        · simp [ha]
        · exact ih2 e hm

theorem perEvent_of_all (P : Package) (N : Num D) :
    ∀ (evs : List (Event D)), (∀ ev ∈ evs, (alone P N ev).isSome = true) →
      perEvent P N evs = .ok (evs.filterMap (alone P N)).flatten
  | [], _ => by simp [perEvent]
  | ev :: evs, h => by
    have hev := h ev (by simp)
    have ih := perEvent_of_all P N evs (fun e hm => h e (by simp [hm]))
    simp only [perEvent]
    cases he : runEvent P N (classInit P.classVars) ev with
    | error f => simp [alone, he] at hev
    | ok p =>
      obtain ⟨rows, σ'⟩ := p
      have ha : alone P N ev = some rows := by simp [alone, he]
      simp [ih, List.filterMap_cons, ha]

/-- **C05.split** — processing `xs ++ ys` in one job writes what two jobs over `xs` and `ys` write. -/
theorem split (P : Package) (N : Num D) (hP : EventLocal P = true) (xs ys : List (Event D))
    (r₁ r₂ : List (List (Val D))) (h₁ : runJob P N xs = .ok r₁) (h₂ : runJob P N ys = .ok r₂) :
    runJob P N (xs ++ ys) = .ok (r₁ ++ r₂) := by
  rw [job_is_per_event P N hP] at h₁ h₂ ⊢
  obtain ⟨e1, a1⟩ := perEvent_ok P N xs r₁ h₁
  obtain ⟨e2, a2⟩ := perEvent_ok P N ys r₂ h₂
  rw [perEvent_of_all P N (xs ++ ys) (fun ev hm => by
    rcases List.mem_append.1 hm with hm | hm
    · exact a1 ev hm
    · exact a2 ev hm)]
  simp [e1, e2, List.filterMap_append]

/-- **C05.prefix_independent** — the rows of an event are unchanged by the events that preceded
it in the job (including events that wrote no row). -/
theorem prefix_independent (P : Package) (N : Num D) (hP : EventLocal P = true)
    (pre : List (Event D)) (ev : Event D) (r : List (List (Val D)))
    (h : runJob P N (pre ++ [ev]) = .ok r) :
    ∃ rp re, runJob P N pre = .ok rp ∧ runJob P N [ev] = .ok re ∧ r = rp ++ re := by
  rw [job_is_per_event P N hP] at h
  obtain ⟨e, a⟩ := perEvent_ok P N _ r h
  refine ⟨(pre.filterMap (alone P N)).flatten, ([ev].filterMap (alone P N)).flatten, ?_, ?_, ?_⟩
  · rw [job_is_per_event P N hP]; exact perEvent_of_all P N pre (fun e hm => a e (by simp [hm]))
  · rw [job_is_per_event P N hP]; exact perEvent_of_all P N [ev] (fun e hm => a e (by simpa using Or.inr (by simpa using hm)))
  · simp [e, List.filterMap_append]

/-- **C05.perm** — processing the events in any order gives the same multiset of rows. -/
theorem perm (P : Package) (N : Num D) (hP : EventLocal P = true) (evs evs' : List (Event D))
    (hp : evs.Perm evs') (r r' : List (List (Val D)))
    (h : runJob P N evs = .ok r) (h' : runJob P N evs' = .ok r') : r.Perm r' := by
  rw [job_is_per_event P N hP] at h h'
  obtain ⟨e, _⟩ := perEvent_ok P N evs r h
  obtain ⟨e', _⟩ := perEvent_ok P N evs' r' h'
  rw [e, e']
  exact (hp.filterMap _).flatten

/-- **C05.perm_total** — if a job over `evs` completes, the job over any permutation completes too. -/
theorem perm_total (P : Package) (N : Num D) (hP : EventLocal P = true) (evs evs' : List (Event D))
    (hp : evs.Perm evs') (r : List (List (Val D))) (h : runJob P N evs = .ok r) :
    ∃ r', runJob P N evs' = .ok r' := by
  rw [job_is_per_event P N hP] at h ⊢
  obtain ⟨_, a⟩ := perEvent_ok P N evs r h
  exact ⟨_, perEvent_of_all P N evs' (fun ev hm => a ev (hp.symm.subset hm))⟩

/-! ### non-vacuity: a concrete accepted package (the shape emitted for `Select(e -> e.Jets("J").Select(j -> j.pt()))`) -/

def exBody : Stmt :=
  .block [
    .decl "const xAOD::JetContainer*" "jets0" none,
    .block [
      .decl "const xAOD::JetContainer*" "result" (some (.int 0)),
      .retrieve "atlas" "xAOD::JetContainer" "result" (.str "J") "",
      .set "jets0" (.var "result")],
    .loop "i_obj1" (.deref (.var "jets0")) [
      .push "_col12" (.mem (.var "i_obj1") true "pt" [])],
    .fill "atlas_xaod_tree",
    .clear "_col12"]

def exPkg : Package :=
  { body := exBody, classVars := [("std::vector<double>", "_col12")], branches := [("col1", "_col12")],
    tree := "atlas_xaod_tree", tokens := [] }

example : EventLocal exPkg = true := by decide +kernel

/-- the same package without the `clear`: rejected by the check (and indeed not event-local) -/
def exPkgNoClear : Package :=
  { exPkg with body := .block ((match exBody with | .block b => b | _ => []).dropLast) }

example : EventLocal exPkgNoClear = false := by decide +kernel

end FaxVerif.C05
