/-
C05 — rows for an event depend on that event only: the LAZY fragment of the translator model (`Gen/Lazy.lean`,
`Gen.compileL`): element-level rows `ds.SelectMany(e → coll.{Select(pure) | Where(lazy)}*).Select(x → {name: lazy, …})`
whose filters and columns use Python's lazy operators (`a and b and …`, `a or b or …`, `x if c else y`).

The translator lowers these operators to STATEMENTS with result variables (`bool bool_opN;`, `double
if_else_resultN;`) that are assigned on some paths only (a later operand's statements sit inside the guard of the
earlier ones; each arm of a conditional assigns in its own branch). A result variable left over from the previous
element — or the previous event — holding the previous decision is exactly the kind of carried state the property
forbids. Proved here, for ALL queries of the lazy fragment (unbounded nesting, n-ary chains), all three backends
(`BackendBase`), all number models and event lists of ANY length:

  * `lazy_result_restarts`          one expression: from ANY two states in which the current element is the same,
                                    the emitted block (declarations, then statements) computes the SAME value —
                                    whatever the result variables held before
  * `lazy_event_post_partial`       one event: rows = denotation, and the class-state precondition is re-established
  * `lazy_init_pre`                 the initial class state satisfies the precondition
  * `lazy_event_history_free_partial`  the rows of an event are the same from any two admissible class states
  * `lazy_job_correct_partial`      a job over any list of events = concatenation of the per-event denotations
  * `lazy_job_blocks_partial`       ... block by block
  * `lazy_job_split`, `lazy_prefix_independent`, `lazy_perm`

Full statement of the property (not proved at this strength for this fragment): for EVERY event list, including
events on which the query faults, one job = the events run one at a time. Partial = success direction (the query
is defined on every event of the job), side conditions `LFragHyp` (static well-typedness `wtStepsL` / `wtLE`,
accessors returning the declared kinds). The checker route (`C05.job_is_per_event` for every package accepted by
`EventLocal`) covers faulting events program by program: `EventLocal` is evaluated on the implementation's output
for every generated query, lazy operators included.
Lemmas: Gen/LazyJobCorrect.lean over Gen/LazyElemRowsCorrect.lean.
-/
import FaxVerif.Gen.LazyJobCorrect
import FaxVerif.C05.TheoremsFragment
namespace FaxVerif.C05
open FaxVerif.Cpp FaxVerif.Linq FaxVerif.Gen
variable {D : Type}

/-- **C05.lazy_result_restarts** — the value a lazy expression computes for an element does not depend on what
the result variables `bool_opN` / `if_else_resultN` held before: let `σ₁`, `σ₂` be ANY two environments in which
the current-value expression evaluates to the same element `v` — e.g. `σ₁` pristine and `σ₂` the one left by the
block's run for the previous element (or the previous event), result variables holding THAT element's decisions.
Running the emitted block (declarations, then the lowered statements) from either terminates, writes no row,
and the value expression evaluates to the SAME value in both: what the query expression denotes for `v` alone. -/
theorem lazy_result_restarts (C : Ctx D) (QC : QCtx D) (hN : QC.N = C.N) (nm : Nat → String)
    (hinj : ∀ i j, nm i = nm j → i = j) (ptr : Bool) (cur : CExpr) (curTy : Option Ty) (v : Val D)
    (x : String) (ρ : LEnv D) (hty : ∀ t, curTy = some t → HasTy v t)
    (le : LE) (k : Nat) (hwt : wtLE curTy le = true) (hmt : MethTyped v (methsLE le))
    (hfr : ∀ y ∈ vars cur, ∀ j, k ≤ j → y ≠ nm j)
    (σ₁ σ₂ : Env D) (rows₁ rows₂ : List (List (Val D)))
    (hcur₁ : evalE C.N σ₁ cur = .ok v) (hcur₂ : evalE C.N σ₂ cur = .ok v)
    (w : Val D) (hden : denote QC ((x, v) :: ρ) (leQ x le) = .ok w) :
    ∃ σ₁' σ₂',
      execs C ((compLE nm ptr cur (curT curTy) le k).decls ++ (compLE nm ptr cur (curT curTy) le k).stmts) ⟨σ₁, rows₁⟩ =
        .ok ⟨σ₁', rows₁⟩ ∧
      execs C ((compLE nm ptr cur (curT curTy) le k).decls ++ (compLE nm ptr cur (curT curTy) le k).stmts) ⟨σ₂, rows₂⟩ =
        .ok ⟨σ₂', rows₂⟩ ∧
      evalE C.N σ₁' (compLE nm ptr cur (curT curTy) le k).val = .ok w ∧
      evalE C.N σ₂' (compLE nm ptr cur (curT curTy) le k).val = .ok w := by
  obtain ⟨σ₁', h1, hv1, _⟩ := le_block_correct C QC hN nm hinj ptr cur curTy v x ρ hty le k hwt hmt hfr σ₁ rows₁ hcur₁ w hden
  obtain ⟨σ₂', h2, hv2, _⟩ := le_block_correct C QC hN nm hinj ptr cur curTy v x ρ hty le k hwt hmt hfr σ₂ rows₂ hcur₂ w hden
  exact ⟨σ₁', σ₂', h1, h2, hv1, hv2⟩

/-- **C05.lazy_event_post_partial** — one call of the per-event method, for every query of the lazy fragment:
from a class state satisfying `LFragPre` (the column variables are declared), on an event where the query
denotes `rows`, the emitted package writes exactly `rows` and leaves a class state satisfying `LFragPre` again —
nothing an event computes is needed by, or disturbs, the next one. -/
theorem lazy_event_post_partial (B : Backend) (hB : BackendBase B) (nm cn : Nat → String)
    (hinj : ∀ i j, nm i = nm j → i = j) (hcinj : ∀ i j, cn i = cn j → i = j)
    (hres : ∀ j, nm j ≠ "result") (hcres : ∀ k, cn k ≠ "result") (hdisj : ∀ j k, nm j ≠ cn k)
    (QC : QCtx D) (hcollT : ∀ name, B.collType name = QC.collType name)
    (fq : FQL) (hhyp : LFragHyp QC fq) (σc : Env D) (hσ : LFragPre cn fq σc)
    (rows : List (List (Val D))) (hden : denoteRows QC fq.toQuery = .ok rows) :
    ∃ σ', runEvent (compileL B nm cn fq) QC.N σc QC.ev = .ok (rows, σ') ∧ LFragPre cn fq σ' :=
  lfragEvent_correct_post B hB nm cn hinj hcinj hres hcres hdisj QC hcollT fq hhyp σc hσ rows hden

/-- **C05.lazy_init_pre** — the class state a job starts from satisfies the precondition. -/
theorem lazy_init_pre (B : Backend) (nm cn : Nat → String) (fq : FQL) :
    LFragPre cn fq (classInit (compileL B nm cn fq).classVars : Env D) :=
  lfragPre_classInit B nm cn fq

/-- **C05.lazy_event_history_free_partial** — the rows an event writes do not depend on the class state the
per-event method is entered with: from ANY two class states with the column variables declared (the initial
one; the one left by any number of earlier events; one holding arbitrary values) the event writes the same rows —
those the query denotes on it. (Partial: the query is defined on the event.) -/
theorem lazy_event_history_free_partial (B : Backend) (hB : BackendBase B) (nm cn : Nat → String)
    (hinj : ∀ i j, nm i = nm j → i = j) (hcinj : ∀ i j, cn i = cn j → i = j)
    (hres : ∀ j, nm j ≠ "result") (hcres : ∀ k, cn k ≠ "result") (hdisj : ∀ j k, nm j ≠ cn k)
    (QC : QCtx D) (hcollT : ∀ name, B.collType name = QC.collType name)
    (fq : FQL) (hhyp : LFragHyp QC fq) (σ₁ σ₂ : Env D) (h₁ : LFragPre cn fq σ₁) (h₂ : LFragPre cn fq σ₂)
    (rows : List (List (Val D))) (hden : denoteRows QC fq.toQuery = .ok rows) :
    ∃ σ₁' σ₂', runEvent (compileL B nm cn fq) QC.N σ₁ QC.ev = .ok (rows, σ₁') ∧
      runEvent (compileL B nm cn fq) QC.N σ₂ QC.ev = .ok (rows, σ₂') :=
  lazy_event_history_free B hB nm cn hinj hcinj hres hcres hdisj QC hcollT fq hhyp σ₁ σ₂ h₁ h₂ rows hden

/-- **C05.lazy_job_correct_partial** — for every query of the lazy fragment, every backend satisfying
`BackendBase`, every number model and EVERY list of events on each of which the query is defined: the emitted
package, run as ONE job from the initial class state, writes exactly the rows the query denotes on the first
event, then those of the second, … — the output is a function of the individual events only. -/
theorem lazy_job_correct_partial (B : Backend) (hB : BackendBase B) (nm cn : Nat → String)
    (hinj : ∀ i j, nm i = nm j → i = j) (hcinj : ∀ i j, cn i = cn j → i = j)
    (hres : ∀ j, nm j ≠ "result") (hcres : ∀ k, cn k ≠ "result") (hdisj : ∀ j k, nm j ≠ cn k)
    (QC : QCtx D) (hcollT : ∀ name, B.collType name = QC.collType name)
    (fq : FQL) (evs : List (Event D)) (hhyp : ∀ ev ∈ evs, LFragHyp (QC.withEvent ev) fq)
    (rows : List (List (Val D))) (hden : denoteJob QC fq.toQuery evs = .ok rows) :
    runJob (compileL B nm cn fq) QC.N evs = .ok rows :=
  lazy_job_correct B hB nm cn hinj hcinj hres hcres hdisj QC hcollT fq evs hhyp rows hden

/-- **C05.lazy_job_blocks_partial** — block form: if the query denotes the row blocks `rs` event by event, the job
writes their concatenation (event k contributes exactly its own block, in position k). -/
theorem lazy_job_blocks_partial (B : Backend) (hB : BackendBase B) (nm cn : Nat → String)
    (hinj : ∀ i j, nm i = nm j → i = j) (hcinj : ∀ i j, cn i = cn j → i = j)
    (hres : ∀ j, nm j ≠ "result") (hcres : ∀ k, cn k ≠ "result") (hdisj : ∀ j k, nm j ≠ cn k)
    (QC : QCtx D) (hcollT : ∀ name, B.collType name = QC.collType name)
    (fq : FQL) (evs : List (Event D)) (hhyp : ∀ ev ∈ evs, LFragHyp (QC.withEvent ev) fq)
    (rs : List (List (List (Val D)))) (hblk : DenoteBlocks QC fq.toQuery evs rs) :
    runJob (compileL B nm cn fq) QC.N evs = .ok rs.flatten :=
  lazy_job_blocks B hB nm cn hinj hcinj hres hcres hdisj QC hcollT fq evs hhyp rs hblk

/-- **C05.lazy_job_split** — one job over `xs ++ ys` writes what a job over `xs` followed by a SEPARATE job over
`ys` (fresh class state) write. -/
theorem lazy_job_split (B : Backend) (hB : BackendBase B) (nm cn : Nat → String)
    (hinj : ∀ i j, nm i = nm j → i = j) (hcinj : ∀ i j, cn i = cn j → i = j)
    (hres : ∀ j, nm j ≠ "result") (hcres : ∀ k, cn k ≠ "result") (hdisj : ∀ j k, nm j ≠ cn k)
    (QC : QCtx D) (hcollT : ∀ name, B.collType name = QC.collType name)
    (fq : FQL) (xs ys : List (Event D)) (hhyp : ∀ ev ∈ xs ++ ys, LFragHyp (QC.withEvent ev) fq)
    (r₁ r₂ : List (List (Val D)))
    (h₁ : denoteJob QC fq.toQuery xs = .ok r₁) (h₂ : denoteJob QC fq.toQuery ys = .ok r₂) :
    runJob (compileL B nm cn fq) QC.N xs = .ok r₁ ∧ runJob (compileL B nm cn fq) QC.N ys = .ok r₂ ∧
    runJob (compileL B nm cn fq) QC.N (xs ++ ys) = .ok (r₁ ++ r₂) :=
  Gen.lazy_job_split B hB nm cn hinj hcinj hres hcres hdisj QC hcollT fq xs ys hhyp r₁ r₂ h₁ h₂

/-- **C05.lazy_prefix_independent** — in a job `pre ++ ev :: post` the rows written for `ev` are exactly those of
running `ev` ALONE from the initial class state (= what the query denotes on `ev`), whatever events preceded it. -/
theorem lazy_prefix_independent (B : Backend) (hB : BackendBase B) (nm cn : Nat → String)
    (hinj : ∀ i j, nm i = nm j → i = j) (hcinj : ∀ i j, cn i = cn j → i = j)
    (hres : ∀ j, nm j ≠ "result") (hcres : ∀ k, cn k ≠ "result") (hdisj : ∀ j k, nm j ≠ cn k)
    (QC : QCtx D) (hcollT : ∀ name, B.collType name = QC.collType name)
    (fq : FQL) (pre : List (Event D)) (ev : Event D) (post : List (Event D))
    (hhyp : ∀ e ∈ pre ++ ev :: post, LFragHyp (QC.withEvent e) fq)
    (r : List (List (Val D))) (hden : denoteJob QC fq.toQuery (pre ++ ev :: post) = .ok r) :
    ∃ rp re rq σ',
      runJob (compileL B nm cn fq) QC.N pre = .ok rp ∧
      runEvent (compileL B nm cn fq) QC.N (classInit (compileL B nm cn fq).classVars) ev = .ok (re, σ') ∧
      denoteRows (QC.withEvent ev) fq.toQuery = .ok re ∧
      runJob (compileL B nm cn fq) QC.N post = .ok rq ∧
      runJob (compileL B nm cn fq) QC.N (pre ++ ev :: post) = .ok (rp ++ re ++ rq) :=
  lazy_job_prefix_independent B hB nm cn hinj hcinj hres hcres hdisj QC hcollT fq pre ev post hhyp r hden

/-- **C05.lazy_perm** — processing the events in any other order gives the same per-event row blocks in that
order: the two outputs are permutations of each other (and the permuted job completes too). -/
theorem lazy_perm (B : Backend) (hB : BackendBase B) (nm cn : Nat → String)
    (hinj : ∀ i j, nm i = nm j → i = j) (hcinj : ∀ i j, cn i = cn j → i = j)
    (hres : ∀ j, nm j ≠ "result") (hcres : ∀ k, cn k ≠ "result") (hdisj : ∀ j k, nm j ≠ cn k)
    (QC : QCtx D) (hcollT : ∀ name, B.collType name = QC.collType name)
    (fq : FQL) (evs evs' : List (Event D)) (hp : evs.Perm evs')
    (hhyp : ∀ ev ∈ evs, LFragHyp (QC.withEvent ev) fq)
    (r : List (List (Val D))) (hden : denoteJob QC fq.toQuery evs = .ok r) :
    ∃ r', runJob (compileL B nm cn fq) QC.N evs = .ok r ∧ runJob (compileL B nm cn fq) QC.N evs' = .ok r' ∧
      denoteJob QC fq.toQuery evs' = .ok r' ∧ r.Perm r' :=
  lazy_job_perm B hB nm cn hinj hcinj hres hcres hdisj QC hcollT fq evs evs' hp hhyp r hden

/-! ### non-vacuity

All hypotheses are discharged on a concrete backend (CMS miniAOD, retrieval by token), name supply, number
model (`fragNum`, `fragQC` of C05/TheoremsFragment.lean), a query with an `or` filter, a conditional column over
an `and` test and a boolean `and` column, and a list of three events (one with an empty collection); the
conclusions are the concrete rows. The second element of `lazyEv1` takes the OTHER path through every lowered
operator than the first one: a result variable surviving from the first element would show. -/

def lazyA (i d : Int) (b : Bool) : Val Int := .obj "A" [("i", .int i), ("d", .dbl d), ("b", .bool b)]
def lazyEv1 : Event Int := ⟨[("ba", "std::vector<pat::Aa>", .vec [lazyA 3 7 true, lazyA 5 9 false, lazyA 0 1 false])]⟩
def lazyEv2 : Event Int := ⟨[("ba", "std::vector<pat::Aa>", .vec [])]⟩
/-- `a.b() or a.i() > 4` -/
def lazyKeep : LE := .bop .or (.meth "b" .bool) [.cmp .gt (.meth "i" .int) (.int 4)]
/-- `a.i() > 2 and a.b()` -/
def lazyBoth : LE := .bop .and (.cmp .gt (.meth "i" .int) (.int 2)) [.meth "b" .bool]
/-- `ds.SelectMany(e → e.As("ba").Where(a → a.b() or a.i() > 4)).Select(a → {v: a.d() if (a.i() > 2 and a.b()) else 2.5, ok: a.i() > 2 and a.b()})` -/
def lazyFq : FQL := .elemRows ⟨"As", "ba", [.whr lazyKeep]⟩ [("v", .ite lazyBoth (.meth "d" .double) (.dbl 25 (-1))), ("ok", lazyBoth)]

theorem lazyDen : denoteJob fragQC lazyFq.toQuery [lazyEv1, lazyEv2, lazyEv1] =
    .ok [[.dbl 7, .bool true], [.dbl 25, .bool false], [.dbl 7, .bool true], [.dbl 25, .bool false]] := rfl

theorem lazyMethTyped (v : Val Int) (hv : v = lazyA 3 7 true ∨ v = lazyA 5 9 false ∨ v = lazyA 0 1 false)
    (ms : List (String × Ty)) (hms : ∀ p ∈ ms, p = ("i", .int) ∨ p = ("d", .double) ∨ p = ("b", .bool)) :
    MethTyped v ms := by
  intro p hp w hw
  rcases hms p hp with rfl | rfl | rfl <;> rcases hv with rfl | rfl | rfl <;>
    simp [lazyA, member, lookupAttr] at hw <;> subst hw <;> simp [HasTy]

theorem lazyHyp : ∀ ev ∈ [lazyEv1, lazyEv2, lazyEv1], LFragHyp (fragQC.withEvent ev) lazyFq := by
  intro ev hm
  have hev : ev = lazyEv1 ∨ ev = lazyEv2 := by simpa [or_comm] using hm
  refine ⟨by decide, by decide, ?_⟩
  intro cty l hf v hv
  rcases hev with rfl | rfl
  · simp [QCtx.withEvent, lazyEv1, Event.find, Event.find.go] at hf
    obtain ⟨_, rfl⟩ := hf
    have hv' : v = lazyA 3 7 true ∨ v = lazyA 5 9 false ∨ v = lazyA 0 1 false := by simpa using hv
    refine ⟨lazyMethTyped v hv' _ ?_, ?_⟩
    · intro p hp
      simp [methsStepsL, lazyKeep, methsLE, methsLEs] at hp
      rcases hp with rfl | rfl <;> simp
    · intro p hp
      apply lazyMethTyped v hv'
      intro q hq
      simp only [List.mem_cons, List.not_mem_nil, or_false] at hp
      rcases hp with rfl | rfl <;> simp [lazyBoth, methsLE, methsLEs] at hq <;>
        rcases hq with rfl | rfl | rfl <;> simp
  · simp [QCtx.withEvent, lazyEv2, Event.find, Event.find.go] at hf
    obtain ⟨_, rfl⟩ := hf
    simp at hv

/-- one job over three events on miniAOD: the second element of an event is decided on its own (the conditional
takes the else-arm, the `and` is false) although the first one left `bool_op…` true and `if_else_result…` = 7 -/
example : runJob (compileL C01.cmsMiniAodB C01.exNm C01.exCn lazyFq) fragNum [lazyEv1, lazyEv2, lazyEv1] =
    .ok [[.dbl 7, .bool true], [.dbl 25, .bool false], [.dbl 7, .bool true], [.dbl 25, .bool false]] :=
  lazy_job_correct_partial C01.cmsMiniAodB C01.backendOK_cmsMiniAod C01.exNm C01.exCn C01.exNm_inj C01.exCn_inj
    C01.exNm_ne_result C01.exCn_ne_result C01.exNm_ne_exCn fragQC fragCollT lazyFq _ lazyHyp _ lazyDen

/-- the reordered job: same blocks, a permutation of the rows -/
example : ∃ r', runJob (compileL C01.cmsMiniAodB C01.exNm C01.exCn lazyFq) fragNum [lazyEv1, lazyEv1, lazyEv2] = .ok r' ∧
    List.Perm [[Val.dbl 7, .bool true], [.dbl 25, .bool false], [.dbl 7, .bool true], [.dbl 25, .bool false]] r' := by
  obtain ⟨r', _, h2, _, h4⟩ := lazy_perm C01.cmsMiniAodB C01.backendOK_cmsMiniAod C01.exNm C01.exCn C01.exNm_inj C01.exCn_inj
    C01.exNm_ne_result C01.exCn_ne_result C01.exNm_ne_exCn fragQC fragCollT lazyFq [lazyEv1, lazyEv2, lazyEv1]
    [lazyEv1, lazyEv1, lazyEv2] ((List.Perm.swap lazyEv1 lazyEv2 []).cons lazyEv1) lazyHyp _ lazyDen
  exact ⟨r', h2, h4⟩

/-- the event alone, from a class state in which the columns hold leftovers of some other event: same rows -/
example (σ : Env Int) (hσ : LFragPre C01.exCn lazyFq σ) :
    ∃ σ₁' σ₂', runEvent (compileL C01.cmsMiniAodB C01.exNm C01.exCn lazyFq) fragNum
        (classInit (compileL C01.cmsMiniAodB C01.exNm C01.exCn lazyFq).classVars) lazyEv1 =
          .ok ([[.dbl 7, .bool true], [.dbl 25, .bool false]], σ₁') ∧
      runEvent (compileL C01.cmsMiniAodB C01.exNm C01.exCn lazyFq) fragNum σ lazyEv1 =
          .ok ([[.dbl 7, .bool true], [.dbl 25, .bool false]], σ₂') :=
  lazy_event_history_free_partial C01.cmsMiniAodB C01.backendOK_cmsMiniAod C01.exNm C01.exCn C01.exNm_inj C01.exCn_inj
    C01.exNm_ne_result C01.exCn_ne_result C01.exNm_ne_exCn (fragQC.withEvent lazyEv1) fragCollT lazyFq
    (lazyHyp lazyEv1 (by simp)) _ σ (lazy_init_pre _ _ _ _) hσ _ rfl

end FaxVerif.C05
