/-
C05 — rows for an event depend on that event only; and, inside one event, the value computed for one outer
element depends on that element only: NESTED iteration (`Gen/Nested.lean`).

The translator declares the accumulator of an inner `Count()` / `Sum()` and the storage vector of a 2-D column
in the block that contains the INNER loop — the body of the outer loop. A declaration is executed every time
its block is entered, so these variables restart for every outer element. Proved here, for all queries of the
nested fragment, all events, number models, and every backend satisfying `BackendBase`:

  * `inner_accumulator_restarts`   the value an expression with inner aggregates computes for an outer element
                                   is the same from ANY two states (whatever earlier elements left behind)
  * `storage_vector_restarts`      the same for the storage vector of a 2-D column
  * `nested_event_post_partial`    one event: rows = denotation, and the class-state precondition is re-established
  * `nested_init_pre`              the initial class state satisfies the precondition
  * `nested_job_correct_partial`   a job over any list of events = concatenation of the per-event denotations
  * `nested_job_split`, `nested_prefix_independent`, `nested_perm`
Partial = success direction, side conditions `NFragHyp` (see C01/TheoremsNested.lean).
-/
import FaxVerif.C01.TheoremsNested
namespace FaxVerif.C05
open FaxVerif.Cpp FaxVerif.Linq FaxVerif.Gen
variable {D : Type}

/-- **C05.inner_accumulator_restarts** — the value computed for outer element `v` does not depend on the
elements before it: let `s₁`, `s₂` be ANY two states in which the current-value expression evaluates to the
same outer element `v` — e.g. `s₁` pristine and `s₂` the state left by the block's runs for any number of
earlier outer elements, its accumulators holding their counts and sums. Running the emitted block
(accumulator declarations, then the inner loops) from either terminates, and afterwards the value expression
evaluates to the SAME value in both: what the query expression denotes for `v` alone. -/
theorem inner_accumulator_restarts (C : Ctx D) (QC : QCtx D) (hN : QC.N = C.N) (nm : Nat → String)
    (hinj : ∀ i j, nm i = nm j → i = j) (ptr : Bool) (cur : CExpr) (v : Val D) (x : String) (ρ : LEnv D)
    (e : NE) (n : Nat) (s₁ s₂ : St D) (w : Val D)
    (hfr : ∀ y ∈ vars cur, ∀ j, n ≤ j → y ≠ nm j)
    (hcur₁ : evalE C.N s₁.env cur = .ok v) (hcur₂ : evalE C.N s₂.env cur = .ok v)
    (hwt : wtNE e = true) (hhyp : NEHyp QC v e)
    (hden : denote QC ((x, v) :: ρ) (neQ x e) = .ok w) :
    ∃ s₁' s₂',
      execs C ((compNE nm ptr cur e n).decls ++ (compNE nm ptr cur e n).stmts) s₁ = .ok s₁' ∧
      execs C ((compNE nm ptr cur e n).decls ++ (compNE nm ptr cur e n).stmts) s₂ = .ok s₂' ∧
      evalE C.N s₁'.env (compNE nm ptr cur e n).val = .ok w ∧ evalE C.N s₂'.env (compNE nm ptr cur e n).val = .ok w := by
  obtain ⟨s₁', h1, _, hv1, _⟩ := compNE_block_correct C QC hN nm hinj ptr cur v x ρ e n s₁ w hfr hcur₁ hwt hhyp hden
  obtain ⟨s₂', h2, _, hv2, _⟩ := compNE_block_correct C QC hN nm hinj ptr cur v x ρ e n s₂ w hfr hcur₂ hwt hhyp hden
  exact ⟨s₁', s₂', h1, h2, hv1, hv2⟩

/-- **C05.storage_vector_restarts** — the inner row a 2-D column gets for outer element `v` does not depend on
the elements before it: from ANY two states in which the current-value expression evaluates to `v` and the
column holds lists `a₁`, `a₂` (whatever the storage vector `ntupleN` and the loop variables hold), the emitted
block appends the SAME value `u` — the inner sequence the query denotes for `v` alone — to the column. -/
theorem storage_vector_restarts (C : Ctx D) (QC : QCtx D) (hN : QC.N = C.N) (B : Backend) (nm : Nat → String)
    (hinj : ∀ i j, nm i = nm j → i = j) (col : String) (hcol : ∀ j, nm j ≠ col) (ic : IChain) (hwt : wtIChain ic = true)
    (y : String) (ρ : LEnv D) (cur : CExpr) (m : Nat) (s₁ s₂ : St D) (v u : Val D) (a₁ a₂ : List (Val D))
    (hcv : ∀ z ∈ vars cur, (∀ j, m ≤ j → z ≠ nm j) ∧ z ≠ col)
    (hcur₁ : evalE C.N s₁.env cur = .ok v) (hcur₂ : evalE C.N s₂.env cur = .ok v)
    (hit : InnerTyped v ic) (hvec : InnerIsVec v ic)
    (hc₁ : s₁.env col = some (.val (.vec a₁))) (hc₂ : s₂.env col = some (.val (.vec a₂)))
    (hden : denote QC ((y, v) :: ρ) (ichainQ y ic) = .ok u) :
    ∃ s₁' s₂', execs C (twoDK B nm col ic cur none m).1 s₁ = .ok s₁' ∧ execs C (twoDK B nm col ic cur none m).1 s₂ = .ok s₂' ∧
      s₁'.env col = some (.val (.vec (a₁ ++ [u]))) ∧ s₂'.env col = some (.val (.vec (a₂ ++ [u]))) := by
  have hspec := twoDK_pushSpec C QC hN B nm hinj col hcol ic hwt y ρ
  obtain ⟨s₁', h1, _, hc1, _⟩ := hspec cur m s₁ v u a₁ hcv hcur₁ ⟨hit, hvec⟩ hc₁ hden
  obtain ⟨s₂', h2, _, hc2, _⟩ := hspec cur m s₂ v u a₂ hcv hcur₂ ⟨hit, hvec⟩ hc₂ hden
  exact ⟨s₁', s₂', h1, h2, hc1, hc2⟩

/-- **C05.nested_event_post_partial** — one call of the per-event method, for every query of the nested
fragment: from a class state satisfying `NFragPre` (column vectors empty / column variables declared), on an
event where the query denotes `rows`, the emitted package writes exactly `rows` and leaves a class state
satisfying `NFragPre` again — nothing an event computes survives into the next one. -/
theorem nested_event_post_partial (B : Backend) (hB : BackendBase B) (nm cn : Nat → String)
    (hinj : ∀ i j, nm i = nm j → i = j) (hcinj : ∀ i j, cn i = cn j → i = j)
    (hres : ∀ j, nm j ≠ "result") (hcres : ∀ k, cn k ≠ "result") (hdisj : ∀ j k, nm j ≠ cn k)
    (QC : QCtx D) (hcollT : ∀ name, B.collType name = QC.collType name)
    (nq : NQ) (hhyp : NFragHyp QC nq) (σc : Env D) (hσ : NFragPre cn nq σc)
    (rows : List (List (Val D))) (hden : denoteRows QC nq.toQuery = .ok rows) :
    ∃ σ', runEvent (compileN B nm cn nq) QC.N σc QC.ev = .ok (rows, σ') ∧ NFragPre cn nq σ' :=
  nfragEvent_correct_post B hB nm cn hinj hcinj hres hcres hdisj QC hcollT nq hhyp σc hσ rows hden

/-- **C05.nested_init_pre** — the class state a job starts from satisfies the precondition. -/
theorem nested_init_pre (B : Backend) (nm cn : Nat → String) (hdisj : ∀ j k, nm j ≠ cn k) (nq : NQ) :
    NFragPre cn nq (classInit (compileN B nm cn nq).classVars : Env D) :=
  nfragPre_classInit B nm cn hdisj nq

/-- **C05.nested_job_correct_partial** — for every query of the nested fragment (all three shapes), every
backend satisfying `BackendBase`, every number model and EVERY list of events on each of which the query is
defined: the emitted package, run as ONE job from the initial class state, writes exactly the rows the query
denotes on the first event, then those of the second, … — the output is a function of the individual events
only. -/
theorem nested_job_correct_partial (B : Backend) (hB : BackendBase B) (nm cn : Nat → String)
    (hinj : ∀ i j, nm i = nm j → i = j) (hcinj : ∀ i j, cn i = cn j → i = j)
    (hres : ∀ j, nm j ≠ "result") (hcres : ∀ k, cn k ≠ "result") (hdisj : ∀ j k, nm j ≠ cn k)
    (QC : QCtx D) (hcollT : ∀ name, B.collType name = QC.collType name)
    (nq : NQ) (evs : List (Event D)) (hhyp : ∀ ev ∈ evs, NFragHyp (QC.withEvent ev) nq)
    (rows : List (List (Val D))) (hden : denoteJob QC nq.toQuery evs = .ok rows) :
    runJob (compileN B nm cn nq) QC.N evs = .ok rows :=
  nested_job_correct B hB nm cn hinj hcinj hres hcres hdisj QC hcollT nq evs hhyp rows hden

/-- **C05.nested_job_split** — one job over `xs ++ ys` writes what a job over `xs` followed by a SEPARATE job
over `ys` (fresh class state) write. -/
theorem nested_job_split (B : Backend) (hB : BackendBase B) (nm cn : Nat → String)
    (hinj : ∀ i j, nm i = nm j → i = j) (hcinj : ∀ i j, cn i = cn j → i = j)
    (hres : ∀ j, nm j ≠ "result") (hcres : ∀ k, cn k ≠ "result") (hdisj : ∀ j k, nm j ≠ cn k)
    (QC : QCtx D) (hcollT : ∀ name, B.collType name = QC.collType name)
    (nq : NQ) (xs ys : List (Event D)) (hhyp : ∀ ev ∈ xs ++ ys, NFragHyp (QC.withEvent ev) nq)
    (r₁ r₂ : List (List (Val D)))
    (h₁ : denoteJob QC nq.toQuery xs = .ok r₁) (h₂ : denoteJob QC nq.toQuery ys = .ok r₂) :
    runJob (compileN B nm cn nq) QC.N xs = .ok r₁ ∧ runJob (compileN B nm cn nq) QC.N ys = .ok r₂ ∧
    runJob (compileN B nm cn nq) QC.N (xs ++ ys) = .ok (r₁ ++ r₂) :=
  Gen.nested_job_split B hB nm cn hinj hcinj hres hcres hdisj QC hcollT nq xs ys hhyp r₁ r₂ h₁ h₂

/-- **C05.nested_prefix_independent** — in a job `pre ++ ev :: post` the rows written for `ev` are exactly
those of running `ev` ALONE from the initial class state (= what the query denotes on `ev`), whatever events
preceded it. -/
theorem nested_prefix_independent (B : Backend) (hB : BackendBase B) (nm cn : Nat → String)
    (hinj : ∀ i j, nm i = nm j → i = j) (hcinj : ∀ i j, cn i = cn j → i = j)
    (hres : ∀ j, nm j ≠ "result") (hcres : ∀ k, cn k ≠ "result") (hdisj : ∀ j k, nm j ≠ cn k)
    (QC : QCtx D) (hcollT : ∀ name, B.collType name = QC.collType name)
    (nq : NQ) (pre : List (Event D)) (ev : Event D) (post : List (Event D))
    (hhyp : ∀ e ∈ pre ++ ev :: post, NFragHyp (QC.withEvent e) nq)
    (r : List (List (Val D))) (hden : denoteJob QC nq.toQuery (pre ++ ev :: post) = .ok r) :
    ∃ rp re rq σ',
      runJob (compileN B nm cn nq) QC.N pre = .ok rp ∧
      runEvent (compileN B nm cn nq) QC.N (classInit (compileN B nm cn nq).classVars) ev = .ok (re, σ') ∧
      denoteRows (QC.withEvent ev) nq.toQuery = .ok re ∧
      runJob (compileN B nm cn nq) QC.N post = .ok rq ∧
      runJob (compileN B nm cn nq) QC.N (pre ++ ev :: post) = .ok (rp ++ re ++ rq) :=
  nested_job_prefix_independent B hB nm cn hinj hcinj hres hcres hdisj QC hcollT nq pre ev post hhyp r hden

/-- **C05.nested_perm** — processing the events in any other order gives the same per-event row blocks in that
order: the two outputs are permutations of each other (and the permuted job completes too). -/
theorem nested_perm (B : Backend) (hB : BackendBase B) (nm cn : Nat → String)
    (hinj : ∀ i j, nm i = nm j → i = j) (hcinj : ∀ i j, cn i = cn j → i = j)
    (hres : ∀ j, nm j ≠ "result") (hcres : ∀ k, cn k ≠ "result") (hdisj : ∀ j k, nm j ≠ cn k)
    (QC : QCtx D) (hcollT : ∀ name, B.collType name = QC.collType name)
    (nq : NQ) (evs evs' : List (Event D)) (hp : evs.Perm evs')
    (hhyp : ∀ ev ∈ evs, NFragHyp (QC.withEvent ev) nq)
    (r : List (List (Val D))) (hden : denoteJob QC nq.toQuery evs = .ok r) :
    ∃ r', runJob (compileN B nm cn nq) QC.N evs = .ok r ∧ runJob (compileN B nm cn nq) QC.N evs' = .ok r' ∧
      denoteJob QC nq.toQuery evs' = .ok r' ∧ r.Perm r' :=
  nested_job_perm B hB nm cn hinj hcinj hres hcres hdisj QC hcollT nq evs evs' hp hhyp r hden

/-! ### non-vacuity

All hypotheses are discharged on a concrete backend (CMS miniAOD, retrieval by token), name supply, number
model, the two queries of C01/TheoremsNested.lean and a list of three events (one with an empty collection);
the conclusions are the concrete rows. -/

open FaxVerif.C01

theorem nestDenJobC : denoteJob nestQC nestQc.toQuery [nestEv1, nestEv2, nestEv1] =
    .ok [[.int 2, .int 8], [.int 0, .int 0], [.int 2, .int 8], [.int 0, .int 0]] := rfl

theorem nestDenJobE : denoteJob nestQC nestQe.toQuery [nestEv1, nestEv2, nestEv1] =
    .ok [[.vec [.int 6, .int 5], .vec [.vec [.dbl 2, .dbl 4, .dbl 10], .vec []]], [.vec [], .vec []],
         [.vec [.int 6, .int 5], .vec [.vec [.dbl 2, .dbl 4, .dbl 10], .vec []]]] := rfl

theorem nestFind2 (cty : String) (l : List (Val Int)) (hf : (nestQC.withEvent nestEv2).ev.find "ba" = some (cty, .vec l)) :
    l = [] := by
  simp [nestQC, QCtx.withEvent, nestEv2, Event.find, Event.find.go] at hf
  exact hf.2

theorem nestJobHypC : ∀ ev ∈ [nestEv1, nestEv2, nestEv1], NFragHyp (nestQC.withEvent ev) nestQc := by
  intro ev hm
  have hev : ev = nestEv1 ∨ ev = nestEv2 := by simpa [or_comm] using hm
  rcases hev with rfl | rfl
  · exact nestHypC
  · refine ⟨by decide, by decide, ?_⟩
    intro cty l hf v hv
    rw [nestFind2 cty l hf] at hv; simp at hv

theorem nestJobHypE : ∀ ev ∈ [nestEv1, nestEv2, nestEv1], NFragHyp (nestQC.withEvent ev) nestQe := by
  intro ev hm
  have hev : ev = nestEv1 ∨ ev = nestEv2 := by simpa [or_comm] using hm
  rcases hev with rfl | rfl
  · exact nestHypE
  · intro p hp
    simp only [List.mem_cons, List.not_mem_nil, or_false] at hp
    have hct : ChainTyped (nestQC.withEvent nestEv2) ⟨"As", "ba", []⟩ := by
      intro cty l _ v _ q hq; simp [methsSteps] at hq
    rcases hp with rfl | rfl
    · refine ⟨by decide, by decide, hct, ?_⟩
      intro cty l hf v hv
      rw [nestFind2 cty l hf] at hv; simp at hv
    · refine ⟨by decide, by decide, hct, ?_⟩
      intro cty l hf v hv
      rw [nestFind2 cty l hf] at hv; simp at hv

/-- shape (c) on miniAOD: one job over three events; every outer element's aggregates are its own -/
example : runJob (compileN cmsMiniAodB exNm exCn nestQc) nestNum [nestEv1, nestEv2, nestEv1] =
    .ok [[.int 2, .int 8], [.int 0, .int 0], [.int 2, .int 8], [.int 0, .int 0]] :=
  nested_job_correct_partial cmsMiniAodB backendOK_cmsMiniAod exNm exCn exNm_inj exCn_inj
    exNm_ne_result exCn_ne_result exNm_ne_exCn nestQC nestCollT nestQc _ nestJobHypC _ nestDenJobC

/-- shapes (a) + (b) on miniAOD: the event with an empty collection writes a row of empty vectors; the third
event's vectors are those of the first again (nothing carried over) -/
example : runJob (compileN cmsMiniAodB exNm exCn nestQe) nestNum [nestEv1, nestEv2, nestEv1] =
    .ok [[.vec [.int 6, .int 5], .vec [.vec [.dbl 2, .dbl 4, .dbl 10], .vec []]], [.vec [], .vec []],
         [.vec [.int 6, .int 5], .vec [.vec [.dbl 2, .dbl 4, .dbl 10], .vec []]]] :=
  nested_job_correct_partial cmsMiniAodB backendOK_cmsMiniAod exNm exCn exNm_inj exCn_inj
    exNm_ne_result exCn_ne_result exNm_ne_exCn nestQC nestCollT nestQe _ nestJobHypE _ nestDenJobE

/-- the reordered job: same blocks, a permutation of the rows -/
example : ∃ r', runJob (compileN cmsMiniAodB exNm exCn nestQc) nestNum [nestEv1, nestEv1, nestEv2] = .ok r' ∧
    List.Perm [[Val.int 2, .int 8], [.int 0, .int 0], [.int 2, .int 8], [.int 0, .int 0]] r' := by
  obtain ⟨r', _, h2, _, h4⟩ := nested_perm cmsMiniAodB backendOK_cmsMiniAod exNm exCn exNm_inj exCn_inj
    exNm_ne_result exCn_ne_result exNm_ne_exCn nestQC nestCollT nestQc [nestEv1, nestEv2, nestEv1]
    [nestEv1, nestEv1, nestEv2] ((List.Perm.swap nestEv1 nestEv2 []).cons nestEv1) nestJobHypC _ nestDenJobC
  exact ⟨r', h2, h4⟩

/-- the accumulator restarts, on a concrete state: whatever `aggResult` (here `exNm 0`) holds beforehand — 0 or
the 41 an earlier element left — the block computes the count of THIS element's `vs()` -/
example (σ : Env Int) (hcur : σ "it" = some (.val nestA1)) (junk : Val Int) :
    ∃ s₁' s₂',
      execs ⟨nestNum, nestEv1, [], []⟩ ((compNE exNm false (.var "it") (.icount nestCountVs) 0).decls ++
        (compNE exNm false (.var "it") (.icount nestCountVs) 0).stmts) ⟨σ, []⟩ = .ok s₁' ∧
      execs ⟨nestNum, nestEv1, [], []⟩ ((compNE exNm false (.var "it") (.icount nestCountVs) 0).decls ++
        (compNE exNm false (.var "it") (.icount nestCountVs) 0).stmts) ⟨σ.set (exNm 0) junk, []⟩ = .ok s₂' ∧
      evalE nestNum s₁'.env (.var (exNm 0)) = .ok (.int 2) ∧ evalE nestNum s₂'.env (.var (exNm 0)) = .ok (.int 2) := by
  have hit : ∀ j, "it" ≠ exNm j := fun j => ne_of_head _ _ (by rw [exNm_head]; decide)
  exact inner_accumulator_restarts ⟨nestNum, nestEv1, [], []⟩ nestQC rfl exNm exNm_inj false (.var "it") nestA1 "x" []
    (.icount nestCountVs) 0 ⟨σ, []⟩ ⟨σ.set (exNm 0) junk, []⟩ (.int 2)
    (by intro y hy j _; simp only [vars, List.mem_singleton] at hy; rw [hy]; exact hit j)
    (by simp [evalE, hcur]) (by simp [evalE, Env.set, hit 0, hcur]) (by decide)
    ⟨by intro q hq; simp [puresNE] at hq,
     by intro ic hic; simp only [ichainsNE, List.mem_singleton] at hic; subst hic
        exact nestInnerVs nestA1 (Or.inl rfl) _ (fun u => by simpa [methsSteps, methsPE] using methTyped_nil u),
     by intro ic hic; simp [isumsNE] at hic⟩
    rfl

end FaxVerif.C05
