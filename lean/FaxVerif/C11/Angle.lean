/-
C11, Part E — what the supplied code of the BUILT-IN `DeltaR` means.

The property says that a call of a built-in "becomes the supplied code".  For a built-in the
supplied code is part of the package, so it has a meaning of its own:
`DeltaR(eta1, phi1, eta2, phi2)` is the distance of two directions, the azimuth difference being
taken ON THE CIRCLE.  This file is the model and the Spec of that meaning in exact arithmetic.

Angles live on a grid on which the half turn (π) is `h` units, so that a full turn is exactly
`2*h` units and no rounding is involved:

  * `wrap h x`      the canonical representative of `x` in `[-h, h)`          (the reference)
  * `phiMpiPi h x`  ROOT's `TVector2::Phi_mpi_pi` (two `while` loops), the function the built-in
                    code calls and the stand-in header of the harness implements
  * `fmodWrap h x`  the truncating-remainder formula `fmod(x + π, 2π) - π` (C `fmod` keeps the
                    sign of the dividend: `Int.tmod`), a popular wrong replacement
  * `dr2`           DeltaR squared in grid units

`DeltaRGridSpec` is the clause the driver evaluates on a number the compiled code of the
implementation printed for a grid point: only the final scalar formula uses `Float`, the
wrapped azimuth difference is the exact integer `wrap`.

No Mathlib/Batteries import: the driver runs this file.
-/
namespace FaxVerif.C11.Angle

/-- canonical representative of the angle `x` in `[-h, h)`; `%` is `Int.emod` (result `≥ 0`) -/
def wrap (h : Nat) (x : Int) : Int := (x + h) % (2 * (h : Int)) - h

/-- `while (x >= kPI) x -= kTWOPI;` with `n` iterations of fuel -/
def down (h : Nat) : Nat → Int → Int
  | 0, x => x
  | n + 1, x => if (h : Int) ≤ x then down h n (x - 2 * (h : Int)) else x

/-- `while (x < -kPI) x += kTWOPI;` with `n` iterations of fuel -/
def up (h : Nat) : Nat → Int → Int
  | 0, x => x
  | n + 1, x => if x < -(h : Int) then up h n (x + 2 * (h : Int)) else x

/-- ROOT's `TVector2::Phi_mpi_pi`: first the loop that comes down, then the loop that goes up.
`|x| + 1` iterations are more than either loop can use when `h > 0`. -/
def phiMpiPi (h : Nat) (x : Int) : Int := up h (x.natAbs + 1) (down h (x.natAbs + 1) x)

/-- `std::fmod(x + M_PI, 2*M_PI) - M_PI` in exact arithmetic -/
def fmodWrap (h : Nat) (x : Int) : Int := Int.tmod (x + h) (2 * (h : Int)) - h

/-- DeltaR squared of `(e1, p1)` and `(e2, p2)`, azimuths in grid units, pseudorapidities in
the same (arbitrary) unit as the result -/
def dr2 (h : Nat) (e1 p1 e2 p2 : Int) : Int :=
  (e1 - e2) * (e1 - e2) + wrap h (p1 - p2) * wrap h (p1 - p2)

/-- the same with the azimuth difference wrapped by an arbitrary function (`phiMpiPi`, `fmodWrap`) -/
def dr2With (w : Int → Int) (e1 p1 e2 p2 : Int) : Int :=
  (e1 - e2) * (e1 - e2) + w (p1 - p2) * w (p1 - p2)

/-! ## the Spec evaluated on the implementation's output -/

def piF : Float := 3.141592653589793

/-- reference value of `DeltaR(e1/den, k1·π/h, e2/den, k2·π/h)` -/
def deltaRRef (h den : Nat) (e1 k1 e2 k2 : Int) : Float :=
  let de : Float := Float.ofInt (e1 - e2) / Float.ofNat den
  let dp : Float := Float.ofInt (wrap h (k1 - k2)) * piF / Float.ofNat h
  Float.sqrt (de * de + dp * dp)

def closeF (a b : Float) : Bool := Float.abs (a - b) ≤ 1e-9 * (1 + Float.abs b)

/-- **Spec clause (built-in DeltaR).**  The number `obs` the code computed for the grid point
is the distance with the azimuth difference taken on the circle. -/
def DeltaRGridSpec (h den : Nat) (e1 k1 e2 k2 : Int) (obs : Float) : Bool :=
  h != 0 && den != 0 && closeF obs (deltaRRef h den e1 k1 e2 k2)

/-- Spec clause for an angle-wrapping function (the stand-in of `TVector2::Phi_mpi_pi`): `obs`
is `k·π/h` brought into `[-π, π]` — equal to the reference as a point of the circle (at the seam
`-π` and `+π` are the same point, and rounding may put the result on either side). -/
def WrapGridSpec (h : Nat) (k : Int) (obs : Float) : Bool :=
  let r : Float := Float.ofInt (wrap h k) * piF / Float.ofNat h
  h != 0 && Float.abs obs ≤ piF + 1e-9 &&
    (closeF obs r || closeF obs (r + 2 * piF) || closeF obs (r - 2 * piF))

end FaxVerif.C11.Angle
