/-
C11 — the property as decidable predicates over (input, observed output).  The same predicates are
(a) what the theorems state of the model and (b) what the driver evaluates on the
implementation's output (`SubstSpec`, `BuildSpec`, `FinderSpec` pieces, `PipeSpec`).
-/
import FaxVerif.C11.Model
namespace FaxVerif.C11

/-! ## vocabulary -/

/-- every character of `l` is of kind `k` (`true` = word character) -/
def AllW (W : Char → Bool) (k : Bool) (l : Str) : Prop := ∀ c ∈ l, W c = k
/-- `l` is empty or starts with a character of kind `k` -/
def HeadIs (W : Char → Bool) (k : Bool) (l : Str) : Prop := ∀ c, l.head? = some c → W c = k
/-- `l` is empty or ends with a character of kind `k` -/
def LastIs (W : Char → Bool) (k : Bool) (l : Str) : Prop := ∀ c, l.getLast? = some c → W c = k

/-- a token is a non-empty run of characters of its own kind -/
def TokOk (W : Char → Bool) (t : Tok) : Prop := t.text ≠ [] ∧ AllW W t.isWord t.text

/-- neighbouring tokens are of different kinds (the runs are maximal) -/
def Alternating : List Tok → Prop
  | [] => True
  | [_] => True
  | a :: b :: r => a.isWord ≠ b.isWord ∧ Alternating (b :: r)

/-- a non-empty run of word characters: what a formal parameter name has to be -/
def isWordStr (W : Char → Bool) (s : Str) : Bool := !s.isEmpty && s.all W

/-- precondition on a replacement list: every source name is a word -/
def WordNames (W : Char → Bool) (ps : List Binding) : Prop := ∀ p ∈ ps, isWordStr W p.1 = true

instance (W : Char → Bool) (ps : List Binding) : Decidable (WordNames W ps) := by
  unfold WordNames; exact inferInstance

def keys (ps : List Binding) : List Str := ps.map (·.1)

/-! ## Part A — substitution -/

/-- The substitution clause of the property: the observed line is the simultaneous whole-word
substitution of the template line. -/
def SubstSpec (W : Char → Bool) (ps : List Binding) (line out : Str) : Prop :=
  out = substSim W ps line

instance (W : Char → Bool) (ps : List Binding) (line out : Str) : Decidable (SubstSpec W ps line out) := by
  unfold SubstSpec; exact inferInstance

/-! ## Part B — which calls are accepted -/

def isOk {ε α} : Except ε α → Bool
  | .ok _ => true
  | .error _ => false

/-- A handler accepts a call exactly when the number of arguments is the declared one and the
call style is the declared one (function: `f(...)`; method: `r.f(...)`). The built-in
`isNonnull` only counts its arguments; `getAttribute` refuses everything. -/
def handlerAcceptsS (h : Handler) (sh : Shape) (n : Nat) : Bool :=
  match h with
  | .spec s => n == s.args.length &&
      (match sh, s.methodObject with
       | .name _, none => true
       | .attrName _ _, some _ => true
       | _, _ => false)
  | .nonnull => n == 1
  | .refuse => false

def BuildAccepts (spec : FSpec) (f : Expr) (args : List Expr) : Bool :=
  handlerAcceptsS (.spec spec) (shape f) args.length

/-- the receiver binding a successful build records: (method-object word, receiver's Python name) -/
def expectedInstance (spec : FSpec) (f : Expr) : Option (Str × Str) :=
  match shape f, spec.methodObject with
  | .attrName r _, some mo => some (mo, r)
  | _, _ => none

/-! ## Part C — call sites -/

mutual
/-- every call site the finder recognises is accepted by its handler -/
def SitesOk (tbl : Table) : Expr → Bool
  | .name _ => true
  | .const _ => true
  | .opaque _ => true
  | .attr o _ => SitesOk tbl o
  | .binop _ l r => SitesOk tbl l && SitesOk tbl r
  | .cpp _ args => SitesOkList tbl args
  | .call f args => SitesOk tbl f && SitesOkList tbl args &&
      (match (calleeKey f).bind tbl.get? with
       | none => true
       | some h => handlerAcceptsS h (shape f) args.length)
def SitesOkList (tbl : Table) : List Expr → Bool
  | [] => true
  | e :: es => SitesOk tbl e && SitesOkList tbl es
end

mutual
/-- defect exclusion: the built-in `isNonnull` is a function but its handler does not look at the
call style; `StyleStrict` says it is never invoked like a method -/
def StyleStrict (tbl : Table) : Expr → Bool
  | .name _ => true
  | .const _ => true
  | .opaque _ => true
  | .attr o _ => StyleStrict tbl o
  | .binop _ l r => StyleStrict tbl l && StyleStrict tbl r
  | .cpp _ args => StyleStrictList tbl args
  | .call f args => StyleStrict tbl f && StyleStrictList tbl args &&
      (match (calleeKey f).bind tbl.get?, shape f with
       | some .nonnull, .attrName _ _ => false
       | _, _ => true)
def StyleStrictList (tbl : Table) : List Expr → Bool
  | [] => true
  | e :: es => StyleStrict tbl e && StyleStrictList tbl es
end

/-- what the property demands: every recognised call site has the declared arity and the declared
call style — for `isNonnull` too -/
def SitesOkFull (tbl : Table) (e : Expr) : Bool := SitesOk tbl e && StyleStrict tbl e

/-- the name a call is made under, whatever the receiver is (what the property means by "every call") -/
def calleeNameFull (f : Expr) : Option Str :=
  match shape f with
  | .name n => some n
  | .attrName _ a => some a
  | .attrOther a => some a
  | .other => none

mutual
/-- no call to a name of the table is left in the expression -/
def NoPendingFull (tbl : Table) : Expr → Bool
  | .name _ => true
  | .const _ => true
  | .opaque _ => true
  | .attr o _ => NoPendingFull tbl o
  | .binop _ l r => NoPendingFull tbl l && NoPendingFull tbl r
  | .cpp _ args => NoPendingFullList tbl args
  | .call f args => NoPendingFull tbl f && NoPendingFullList tbl args &&
      ((calleeNameFull f).bind tbl.get?).isNone
def NoPendingFullList (tbl : Table) : List Expr → Bool
  | [] => true
  | e :: es => NoPendingFull tbl e && NoPendingFullList tbl es
end

mutual
/-- defect exclusion: no method-style call to a name of the table on a receiver that is not a
plain name -/
def ReceiverPlain (tbl : Table) : Expr → Bool
  | .name _ => true
  | .const _ => true
  | .opaque _ => true
  | .attr o _ => ReceiverPlain tbl o
  | .binop _ l r => ReceiverPlain tbl l && ReceiverPlain tbl r
  | .cpp _ args => ReceiverPlainList tbl args
  | .call f args => ReceiverPlain tbl f && ReceiverPlainList tbl args &&
      (match shape f with
       | .attrOther a => (tbl.get? a).isNone
       | _ => true)
def ReceiverPlainList (tbl : Table) : List Expr → Bool
  | [] => true
  | e :: es => ReceiverPlain tbl e && ReceiverPlainList tbl es
end

/-! ## Part D — the emitted block structure -/

def declName : Item → Option Str
  | .decl _ n => some n
  | _ => none

/-- what the property demands of the lines of the block: each template line with receiver and
parameters substituted simultaneously as whole words -/
def expectedLines (W : Char → Bool) (cv : CodeValue) (recv : Option Str) (texts : List Str) : List Str :=
  cv.code.map (fun l => withSemi (substSim W (replList cv recv texts) l))

mutual
/-- Explain the observed blocks (`bs`, in emission order) by the call tree `e`: arguments first,
left to right, then the call's own block, which must consist of the substituted template lines
followed by the assignment of the result name to a variable that is declared in the enclosing
block (`decls`) with the declared type; the include files must be present (`incl`).
Returns the C++ text `e` stands for and the blocks not yet explained. -/
def check (W : Char → Bool) (env : Env) (decls : List Item) (incl : List Str) :
    Expr → List Item → Option (Str × List Item)
  | .opaque t, bs => some (t, bs)
  | .const t, bs => some (t, bs)
  | .name id, bs =>
    match env.get? id with
    | some t => some (t, bs)
    | none => none
  | .attr _ _, _ => none
  | .call _ _, _ => none
  | .binop _ _ _, _ => none
  | .cpp cv args, bs =>
    match recvOf env cv with
    | none => none
    | some recv =>
      match checkList W env decls incl args bs with
      | none => none
      | some (texts, bs1) =>
        match bs1 with
        | .block lines lhs rhs :: bs2 =>
          if rhs = cv.result ∧ Item.decl (declType cv) lhs ∈ decls ∧
              lines = expectedLines W cv recv texts ∧ (∀ i ∈ cv.includes, i ∈ incl)
          then some (lhs, bs2) else none
        | _ => none
def checkList (W : Char → Bool) (env : Env) (decls : List Item) (incl : List Str) :
    List Expr → List Item → Option (List Str × List Item)
  | [], bs => some ([], bs)
  | e :: es, bs =>
    match check W env decls incl e bs with
    | none => none
    | some (t, bs1) =>
      match checkList W env decls incl es bs1 with
      | none => none
      | some (ts, bs2) => some (t :: ts, bs2)
end

/-- The block-structure clause of the property for a whole list of columns (call trees after
the finder): the statements of the enclosing block are exactly the blocks of the call sites in
evaluation order, each as demanded by `check`; the column texts are the result variables;
the declared names are pairwise distinct (fresh variables). -/
def PipeSpec (W : Char → Bool) (env : Env) (cols : List Expr) (b : Body) : Prop :=
  checkList W env b.decls b.includes cols b.stmts = some (b.cols, []) ∧
  (b.decls.filterMap declName).Nodup

instance (W : Char → Bool) (env : Env) (cols : List Expr) (b : Body) : Decidable (PipeSpec W env cols b) := by
  unfold PipeSpec; exact inferInstance

/-! ### well-formedness of what the finder hands to the emission -/

def cvWellFormed (W : Char → Bool) (cv : CodeValue) : Bool :=
  cv.args.all (isWordStr W) &&
  (match cv.instance_ with
   | some (mo, _) => isWordStr W mo
   | none => true)

/-- defect exclusion for freshness: `unique_name` glues the index to the prefix without a
separator, so a prefix must not end in a digit -/
def noDigitEnd (p : Str) : Bool :=
  match p.getLast? with
  | some c => !c.isDigit
  | none => false

mutual
def WF (W : Char → Bool) : Expr → Bool
  | .name _ => true
  | .const _ => true
  | .opaque _ => true
  | .attr o _ => WF W o
  | .binop _ l r => WF W l && WF W r
  | .call f args => WF W f && WFList W args
  | .cpp cv args => cvWellFormed W cv && WFList W args
def WFList (W : Char → Bool) : List Expr → Bool
  | [] => true
  | e :: es => WF W e && WFList W es
end

mutual
def PrefixOk : Expr → Bool
  | .name _ => true
  | .const _ => true
  | .opaque _ => true
  | .attr o _ => PrefixOk o
  | .binop _ l r => PrefixOk l && PrefixOk r
  | .call f args => PrefixOk f && PrefixOkList args
  | .cpp cv args => noDigitEnd cv.varPrefix && PrefixOkList args
def PrefixOkList : List Expr → Bool
  | [] => true
  | e :: es => PrefixOk e && PrefixOkList es
end

def specWellFormed (W : Char → Bool) (s : FSpec) : Bool :=
  s.args.all (isWordStr W) &&
  (match s.methodObject with
   | some mo => isWordStr W mo
   | none => true)

/-- parameter names (and the method-object word) of whatever the handler injects are words -/
def handlerWF (W : Char → Bool) : Handler → Bool
  | .spec s => specWellFormed W s
  | .nonnull => cvWellFormed W nonnullCodeValue
  | .refuse => true

def handlerPrefixOk : Handler → Bool
  | .spec s => noDigitEnd s.name
  | _ => true

def tableWellFormed (W : Char → Bool) : Table → Bool
  | [] => true
  | (_, h) :: t => handlerWF W h && tableWellFormed W t

def tablePrefixOk : Table → Bool
  | [] => true
  | (_, h) :: t => handlerPrefixOk h && tablePrefixOk t

/-- how a value of the declared type has to be accessed: `->` for a pointer type, `.` otherwise -/
def accessOp (ty : Str) : Str := if ty.getLast? = some '*' then "->".toList else ".".toList

/-- the result (or an element of the resulting collection) is used according to its declared type -/
def AccessSpec (ty op : Str) : Prop := op = accessOp ty

instance (ty op : Str) : Decidable (AccessSpec ty op) := by unfold AccessSpec; exact inferInstance

/-- documented signature of a table entry: (is a method, number of arguments, returns a collection) -/
def sigOf (t : Table) (n : String) : Option (Bool × Nat × Bool) :=
  match t.get? n.toList with
  | some (.spec s) => some (s.methodObject.isSome, s.args.length, s.isCollection)
  | some .nonnull => some (false, 1, false)
  | _ => none

end FaxVerif.C11
