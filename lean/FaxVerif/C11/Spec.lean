/-
C11 — the property as decidable predicates (first version: Part A only; extended below).
-/
import FaxVerif.C11.Model
namespace FaxVerif.C11

/-- a non-empty run of word characters: what a formal parameter name has to be -/
def isWordStr (W : Char → Bool) (s : Str) : Bool := !s.isEmpty && s.all W

/-- precondition on the replacement list: every source name is a word -/
def WordNames (W : Char → Bool) (ps : List Binding) : Prop := ∀ p ∈ ps, isWordStr W p.1 = true

instance (W : Char → Bool) (ps : List Binding) : Decidable (WordNames W ps) := by
  unfold WordNames; exact inferInstance

/-- The substitution clause of the property: the observed line is the simultaneous whole-word
substitution of the template line. -/
def SubstSpec (W : Char → Bool) (ps : List Binding) (line out : Str) : Prop :=
  out = substSim W ps line

instance (W : Char → Bool) (ps : List Binding) (line out : Str) : Decidable (SubstSpec W ps line out) := by
  unfold SubstSpec; exact inferInstance

end FaxVerif.C11
