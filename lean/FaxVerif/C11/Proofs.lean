/-
C11 — helper lemmas. Property theorems are in `Theorems.lean`.
-/
import FaxVerif.C11.Spec
namespace FaxVerif.C11

section PartA
variable (W : Char → Bool)


/-! ### tokenise -/

theorem detok_pushChar (c : Char) (ts : List Tok) : detok (pushChar W c ts) = c :: detok ts := by
  cases ts with
  | nil => simp [pushChar, detok]
  | cons t ts =>
    simp only [pushChar]
    split <;> simp [detok]

theorem detok_tokenise (l : Str) : detok (tokenise W l) = l := by
  induction l with
  | nil => simp [tokenise, detok]
  | cons c cs ih => simp [tokenise, detok_pushChar, ih]

theorem pushChar_head (c : Char) (ts : List Tok) :
    ∃ t ts', pushChar W c ts = t :: ts' ∧ t.isWord = W c := by
  cases ts with
  | nil => exact ⟨_, _, rfl, rfl⟩
  | cons t ts =>
    simp only [pushChar]
    split
    · next h => exact ⟨_, _, rfl, h⟩
    · exact ⟨_, _, rfl, rfl⟩

theorem tokenise_head (c : Char) (cs : Str) :
    ∃ t ts, tokenise W (c :: cs) = t :: ts ∧ t.isWord = W c := by
  simp only [tokenise]; exact pushChar_head W c _

/-- A maximal run in front of the line is the first token. -/
theorem tokenise_run (k : Bool) (x r : Str) (hx : x ≠ []) (hk : AllW W k x) (hr : HeadIs W (!k) r) :
    tokenise W (x ++ r) = ⟨k, x⟩ :: tokenise W r := by
  induction x with
  | nil => exact absurd rfl hx
  | cons c x ih =>
    have hc : W c = k := hk c (by simp)
    cases x with
    | nil =>
      simp only [List.cons_append, List.nil_append, tokenise]
      cases r with
      | nil => simp [tokenise, pushChar, hc]
      | cons d ds =>
        obtain ⟨t, ts, ht, htw⟩ := tokenise_head W d ds
        have hd : W d = !k := hr d (by simp)
        rw [ht]
        simp only [pushChar]
        have : ¬ t.isWord = k := by rw [htw, hd]; cases k <;> simp
        simp [hc, this]
    | cons c' x' =>
      have ih' := ih (by simp) (fun a ha => hk a (by simp [ha]))
      simp only [List.cons_append] at ih' ⊢
      simp only [tokenise] at ih' ⊢
      rw [ih']
      simp [pushChar, hc]

/-! ### `substSim`, left to right -/

theorem substSim_nil (ps : List Binding) : substSim W ps [] = [] := by
  simp [substSim, tokenise]

theorem substSim_run_word (ps : List Binding) (x r : Str) (hx : x ≠ []) (hk : AllW W true x)
    (hr : HeadIs W false r) :
    substSim W ps (x ++ r) = (lookup ps x).getD x ++ substSim W ps r := by
  simp [substSim, tokenise_run W true x r hx hk (by simpa using hr), substTok]

theorem substSim_run_gap (ps : List Binding) (x r : Str) (hx : x ≠ []) (hk : AllW W false x)
    (hr : HeadIs W true r) :
    substSim W ps (x ++ r) = x ++ substSim W ps r := by
  simp [substSim, tokenise_run W false x r hx hk (by simpa using hr), substTok]

theorem flatMap_pushChar_gap (ps : List Binding) (c : Char) (hc : W c = false) (ts : List Tok) :
    (pushChar W c ts).flatMap (substTok ps) = c :: ts.flatMap (substTok ps) := by
  cases ts with
  | nil => simp [pushChar, substTok, hc]
  | cons t ts =>
    simp only [pushChar]
    split
    · next h =>
      have : t.isWord = false := by rw [h, hc]
      simp [substTok, this]
    · simp [substTok, hc]

theorem substSim_cons_gap (ps : List Binding) (c : Char) (hc : W c = false) (cs : Str) :
    substSim W ps (c :: cs) = c :: substSim W ps cs := by
  simp [substSim, tokenise, flatMap_pushChar_gap W ps c hc]

/-- split a line into its leading word characters and the rest -/
theorem word_split (l : Str) : ∃ w r, l = w ++ r ∧ AllW W true w ∧ HeadIs W false r := by
  induction l with
  | nil => exact ⟨[], [], rfl, by simp [AllW], by simp [HeadIs]⟩
  | cons c cs ih =>
    by_cases hc : W c = true
    · obtain ⟨w, r, h, hw, hr⟩ := ih
      refine ⟨c :: w, r, by simp [h], ?_, hr⟩
      intro a ha
      rcases List.mem_cons.1 ha with rfl | ha
      · exact hc
      · exact hw a ha
    · refine ⟨[], c :: cs, rfl, by simp [AllW], ?_⟩
      intro a ha
      simp at ha
      subst ha
      simpa using hc

theorem word_split_cons (c : Char) (cs : Str) (hc : W c = true) :
    ∃ w r, c :: cs = (c :: w) ++ r ∧ AllW W true (c :: w) ∧ HeadIs W false r := by
  obtain ⟨w, r, h, hw, hr⟩ := word_split W (c :: cs)
  cases w with
  | nil =>
    simp at h
    subst h
    have := hr c (by simp)
    simp [hc] at this
  | cons a w =>
    simp at h
    obtain ⟨rfl, rfl⟩ := h
    exact ⟨w, r, by simp, hw, hr⟩


/-! ### the regex scan -/

theorem stripPrefix_eq_some (s r a : Str) : stripPrefix s r = some a ↔ r = s ++ a := by
  induction s generalizing r with
  | nil => simp [stripPrefix, eq_comm]
  | cons x s ih =>
    cases r with
    | nil => simp [stripPrefix]
    | cons y r =>
      simp only [stripPrefix]
      by_cases h : x = y
      · subst h; simp [ih]
      · simp [h]; intro h'; exact absurd h'.symm h

/-- all alternatives are non-empty words -/
def WordAlts (alts : List Binding) : Prop := ∀ a ∈ alts, a.1 ≠ [] ∧ AllW W true a.1

theorem matchesAt_nonword_head (prev : Option Char) (src : Str) (c : Char) (cs : Str)
    (hc : W c = false) (hs : AllW W true src) : matchesAt W prev src (c :: cs) = false := by
  cases src with
  | nil => simp [matchesAt]
  | cons a s =>
    unfold matchesAt
    have ha : W a = true := hs a (by simp)
    have hne : a ≠ c := by intro h; rw [h, hc] at ha; cases ha
    simp [stripPrefix, hne]

theorem matchesAt_inword (p : Char) (src : Str) (c : Char) (cs : Str)
    (hp : W p = true) (hc : W c = true) : matchesAt W (some p) src (c :: cs) = false := by
  unfold matchesAt
  split
  · simp [boundary, isW, hp, hc]
  · rfl

theorem getLast?_mem {α} (l : List α) (a : α) (h : l.getLast? = some a) : a ∈ l := by
  exact List.mem_of_getLast? h

theorem matchesAt_word (prev : Option Char) (src w r : Str) (hp : isW W prev = false)
    (hw : w ≠ []) (hwk : AllW W true w) (hr : HeadIs W false r) (hs : src ≠ [])
    (hsk : AllW W true src) : matchesAt W prev src (w ++ r) = true ↔ src = w := by
  constructor
  · intro h
    unfold matchesAt at h
    split at h
    · next lastc after hl hst =>
      rw [stripPrefix_eq_some] at hst
      simp only [Bool.and_eq_true] at h
      obtain ⟨_, h2⟩ := h
      have hlw : W lastc = true := hsk lastc (List.mem_of_getLast? hl)
      have hafter : HeadIs W false after := by
        intro c hc
        simp [boundary, isW, hlw, hc] at h2
        exact h2
      rcases List.append_eq_append_iff.1 hst with ⟨x, hx1, hx2⟩ | ⟨x, hx1, hx2⟩
      · -- src = w ++ x, r = x ++ after
        cases x with
        | nil => simpa using hx1
        | cons y x =>
          have h1 : W y = false := hr y (by simp [hx2])
          have h2 : W y = true := hsk y (by simp [hx1])
          rw [h1] at h2; cases h2
      · -- w = src ++ x, after = x ++ r
        cases x with
        | nil => simpa using hx1.symm
        | cons y x =>
          have h1 : W y = false := hafter y (by simp [hx2])
          have h2 : W y = true := hwk y (by simp [hx1])
          rw [h1] at h2; cases h2
    · cases h
  · rintro rfl
    unfold matchesAt
    obtain ⟨lastc, hl⟩ : ∃ c, src.getLast? = some c := by
      cases h : src.getLast? with
      | none => simp at h; exact absurd h hs
      | some c => exact ⟨c, rfl⟩
    have hst : stripPrefix src (src ++ r) = some r := (stripPrefix_eq_some _ _ _).2 rfl
    rw [hl, hst]
    have hlw : W lastc = true := hsk lastc (List.mem_of_getLast? hl)
    cases src with
    | nil => exact absurd rfl hs
    | cons a s =>
      have ha : W a = true := hsk a (by simp)
      have hrb : isW W r.head? = false := by
        cases hh : r.head? with
        | none => rfl
        | some c => simpa [isW] using hr c hh
      have h1 : isW W (some a) = true := by simp [isW, ha]
      have h2 : isW W (some lastc) = true := by simp [isW, hlw]
      simp [boundary, hp, hrb, h1, h2]

theorem find?_ext {α} (p q : α → Bool) (l : List α) (h : ∀ a ∈ l, p a = q a) :
    l.find? p = l.find? q := by
  induction l with
  | nil => rfl
  | cons a l ih =>
    simp only [List.find?_cons, h a (by simp)]
    rw [ih (fun b hb => h b (by simp [hb]))]

theorem firstMatch_gap (alts : List Binding) (hA : WordAlts W alts) (prev : Option Char) (c : Char)
    (cs : Str) (hc : W c = false) : firstMatch W alts prev (c :: cs) = none := by
  unfold firstMatch
  rw [List.find?_eq_none]
  intro a ha
  simp [matchesAt_nonword_head W prev a.1 c cs hc (hA a ha).2]

theorem firstMatch_inword (alts : List Binding) (p c : Char) (cs : Str) (hp : W p = true)
    (hc : W c = true) : firstMatch W alts (some p) (c :: cs) = none := by
  unfold firstMatch
  rw [List.find?_eq_none]
  intro a _
  simp [matchesAt_inword W p a.1 c cs hp hc]

theorem firstMatch_word (alts : List Binding) (hA : WordAlts W alts) (prev : Option Char) (w r : Str)
    (hp : isW W prev = false) (hw : w ≠ []) (hwk : AllW W true w) (hr : HeadIs W false r) :
    firstMatch W alts prev (w ++ r) = alts.find? (fun a => decide (a.1 = w)) := by
  unfold firstMatch
  apply find?_ext
  intro a ha
  have := matchesAt_word W prev a.1 w r hp hw hwk hr (hA a ha).1 (hA a ha).2
  by_cases h : a.1 = w
  · rw [this.2 h]; simp [h]
  · simp only [h, decide_false]
    cases hm : matchesAt W prev a.1 (w ++ r) with
    | false => rfl
    | true => exact absurd (this.1 hm) h

theorem scan_gap_cons (alts : List Binding) (hA : WordAlts W alts) (prev : Option Char) (c : Char)
    (cs : Str) (hc : W c = false) :
    scan W alts prev 0 (c :: cs) = c :: scan W alts (some c) 0 cs := by
  simp [scan, firstMatch_gap W alts hA prev c cs hc]

theorem scan_skip (alts : List Binding) (a r : Str) (prev : Option Char) :
    ∃ q, scan W alts prev a.length (a ++ r) = scan W alts q 0 r := by
  induction a generalizing prev with
  | nil => exact ⟨prev, rfl⟩
  | cons c a ih =>
    obtain ⟨q, hq⟩ := ih (some c)
    exact ⟨q, by simpa [scan] using hq⟩

theorem scan_inword_run (alts : List Binding) (x r : Str) (p : Char) (hp : W p = true)
    (hx : AllW W true x) :
    ∃ q, scan W alts (some p) 0 (x ++ r) = x ++ scan W alts q 0 r := by
  induction x generalizing p with
  | nil => exact ⟨some p, rfl⟩
  | cons c x ih =>
    have hc : W c = true := hx c (by simp)
    obtain ⟨q, hq⟩ := ih c hc (fun a ha => hx a (by simp [ha]))
    refine ⟨q, ?_⟩
    simp [scan, firstMatch_inword W alts p c (x ++ r) hp hc, hq]


theorem find_lookup (alts : List Binding) (w : Str) :
    (alts.find? (fun a => decide (a.1 = w))).map (·.2) = lookup alts w := by
  induction alts with
  | nil => rfl
  | cons a alts ih =>
    obtain ⟨s, d⟩ := a
    by_cases h : s = w
    · simp [lookup, h]
    · simp [lookup, h, ih]

/-- The scan started at a position that is not inside a word computes the token map. -/
theorem scan_eq_substSim (alts : List Binding) (hA : WordAlts W alts) :
    ∀ (n : Nat) (l : Str) (prev : Option Char), l.length = n →
      (isW W prev = false ∨ HeadIs W false l) → scan W alts prev 0 l = substSim W alts l := by
  intro n
  induction n using Nat.strongRecOn with
  | _ n ih =>
    intro l prev hn hb
    cases l with
    | nil => simp [scan, substSim_nil]
    | cons c cs =>
      by_cases hc : W c = true
      · -- at the start of a word
        have hp : isW W prev = false := by
          rcases hb with h | h
          · exact h
          · have := h c (by simp); rw [hc] at this; cases this
        obtain ⟨w, r, hl, hw, hr⟩ := word_split_cons W c cs hc
        have hcs : cs = w ++ r := by simpa using hl
        have hfm := firstMatch_word W alts hA prev (c :: w) r hp (by simp) hw hr
        rw [← hl] at hfm
        rw [hl, substSim_run_word W alts (c :: w) r (by simp) hw hr, ← hl]
        have hrlen : r.length < n := by rw [← hn, hcs]; simp; omega
        cases hf : alts.find? (fun a => decide (a.1 = c :: w)) with
        | none =>
          have hlk : lookup alts (c :: w) = none := by rw [← find_lookup, hf]; rfl
          simp only [scan, hfm, hf, hlk, Option.getD_none]
          rw [hcs]
          obtain ⟨q, hq⟩ := scan_inword_run W alts w r c hc (fun a ha => hw a (by simp [ha]))
          rw [hq, ih r.length hrlen r q rfl (Or.inr hr)]
          simp
        | some a =>
          have hlk : lookup alts (c :: w) = some a.2 := by rw [← find_lookup, hf]; rfl
          have ha1 : a.1 = c :: w := by
            have := List.find?_some hf
            simpa using this
          simp only [scan, hfm, hf, hlk, Option.getD_some]
          rw [ha1, hcs]
          obtain ⟨q, hq⟩ := scan_skip W alts w r (some c)
          simp only [List.length_cons, Nat.add_sub_cancel]
          rw [hq, ih r.length hrlen r q rfl (Or.inr hr)]
      · -- a non-word character
        have hc' : W c = false := by simpa using hc
        rw [scan_gap_cons W alts hA prev c cs hc', substSim_cons_gap W alts c hc']
        rw [ih cs.length (by rw [← hn]; simp) cs (some c) rfl (Or.inl (by simp [isW, hc']))]

/-! ### the dictionary and the sort do not change what is looked up -/

theorem lookup_filter_ne (ps : List Binding) (s w : Str) (h : s ≠ w) :
    lookup (ps.filter (fun a => !decide (a.1 = s))) w = lookup ps w := by
  induction ps with
  | nil => rfl
  | cons a ps ih =>
    obtain ⟨s', d⟩ := a
    by_cases h1 : s' = s
    · subst h1
      simp [lookup, h, ih]
    · by_cases h2 : s' = w
      · subst h2
        have : ¬ s' = s := h1
        simp [lookup, this]
      · simp [lookup, h1, h2, ih]

theorem lookup_dedupe (ps : List Binding) (w : Str) : lookup (dedupe ps) w = lookup ps w := by
  induction ps with
  | nil => rfl
  | cons a ps ih =>
    obtain ⟨s, d⟩ := a
    by_cases h : s = w
    · simp [dedupe, lookup, h]
    · simp [dedupe, lookup, h, lookup_filter_ne _ _ _ h, ih]

theorem dedupe_sub (ps : List Binding) : ∀ a ∈ dedupe ps, a ∈ ps := by
  induction ps with
  | nil => simp [dedupe]
  | cons b ps ih =>
    intro a ha
    simp only [dedupe, List.mem_cons, List.mem_filter] at ha
    rcases ha with rfl | ⟨ha, _⟩
    · simp
    · exact List.mem_cons_of_mem _ (ih a ha)

theorem keys_dedupe_nodup (ps : List Binding) : (keys (dedupe ps)).Nodup := by
  induction ps with
  | nil => simp [dedupe, keys]
  | cons b ps ih =>
    simp only [dedupe, keys, List.map_cons, List.nodup_cons]
    constructor
    · intro h
      rcases List.mem_map.1 h with ⟨a, ha, hab⟩
      have := (List.mem_filter.1 ha).2
      simp at this
      exact this hab
    · have : (List.map (·.1) (dedupe ps)).Nodup := ih
      have hs : List.Sublist ((dedupe ps).filter (fun a => !decide (a.1 = b.1))) (dedupe ps) := List.filter_sublist
      exact List.Nodup.sublist (List.Sublist.map _ hs) this

theorem insertByLen_perm (b : Binding) (l : List Binding) : (insertByLen b l).Perm (b :: l) := by
  induction l with
  | nil => simp [insertByLen]
  | cons a l ih =>
    simp only [insertByLen]
    split
    · exact List.Perm.refl _
    · exact (List.Perm.cons a ih).trans (List.Perm.swap b a l)

theorem sort_perm (l : List Binding) : (sortByLenDesc l).Perm l := by
  induction l with
  | nil => simp [sortByLenDesc]
  | cons b l ih =>
    simp only [sortByLenDesc]
    exact (insertByLen_perm b _).trans (List.Perm.cons b ih)

theorem lookup_eq_none_of_not_mem (ps : List Binding) (w : Str) (h : w ∉ keys ps) : lookup ps w = none := by
  induction ps with
  | nil => rfl
  | cons a ps ih =>
    obtain ⟨s, d⟩ := a
    simp only [keys, List.map_cons, List.mem_cons, not_or] at h
    simp only [lookup]
    rw [if_neg (fun e => h.1 e.symm)]
    exact ih h.2

/-- with distinct source names the order of the bindings is irrelevant -/
theorem lookup_perm (ps qs : List Binding) (hp : ps.Perm qs) (hn : (keys ps).Nodup) (w : Str) :
    lookup ps w = lookup qs w := by
  induction hp with
  | nil => rfl
  | cons a _ ih =>
    obtain ⟨s, d⟩ := a
    simp only [keys, List.map_cons, List.nodup_cons] at hn
    simp only [lookup]
    rw [ih hn.2]
  | swap a b l =>
    obtain ⟨s, d⟩ := a
    obtain ⟨s', d'⟩ := b
    simp only [keys, List.map_cons, List.nodup_cons, List.mem_cons, not_or] at hn
    simp only [lookup]
    by_cases h1 : s' = w
    · by_cases h2 : s = w
      · exact absurd (h1.trans h2.symm) hn.1.1
      · simp [h1, h2]
    · simp [h1]
  | trans h1 _ ih1 ih2 =>
    rw [ih1 hn, ih2 ((List.Perm.nodup_iff (List.Perm.map _ h1)).1 hn)]


theorem substSim_congr (ps qs : List Binding) (h : ∀ w, lookup ps w = lookup qs w) (l : Str) :
    substSim W ps l = substSim W qs l := by
  unfold substSim
  congr 1
  funext t
  simp [substTok, h]

theorem substTok_nil (t : Tok) : substTok [] t = t.text := by
  simp [substTok, lookup]

theorem wordAlts_of_wordNames (ps alts : List Binding) (h : WordNames W ps) (hs : ∀ a ∈ alts, a ∈ ps) :
    WordAlts W alts := by
  intro a ha
  have := h a (hs a ha)
  simp only [isWordStr, Bool.and_eq_true, Bool.not_eq_true', List.isEmpty_eq_false_iff, List.all_eq_true] at this
  exact ⟨this.1, this.2⟩

/-- the model of `_replace_whole_words` is the token map, whenever the source names are words -/
theorem replaceWholeWords_eq (ps : List Binding) (h : WordNames W ps) (line : Str) :
    replaceWholeWords W ps line = substSim W ps line := by
  unfold replaceWholeWords
  split
  · next hd =>
    have : ∀ w, lookup ps w = none := by
      intro w; rw [← lookup_dedupe, hd]; rfl
    have hl : substSim W ps line = substSim W [] line := substSim_congr W ps [] (fun w => by rw [this]; rfl) line
    rw [hl]
    simp only [substSim]
    have : (fun t => substTok [] t) = (fun t : Tok => t.text) := by funext t; exact substTok_nil t
    have h2 : (tokenise W line).flatMap (substTok []) = detok (tokenise W line) := by
      simp only [detok]; congr 1
    rw [h2, detok_tokenise]
  · next lk hne =>
    have hperm := sort_perm (dedupe ps)
    have hA : WordAlts W (sortByLenDesc (dedupe ps)) :=
      wordAlts_of_wordNames W ps _ h (fun a ha => dedupe_sub ps a ((List.Perm.mem_iff hperm).1 ha))
    rw [scan_eq_substSim W _ hA line.length line none rfl (Or.inl rfl)]
    apply substSim_congr
    intro w
    rw [← lookup_perm _ _ hperm.symm (keys_dedupe_nodup ps) w, lookup_dedupe]

/-! ### declarative laws of `substSim` -/

/-- cutting the line anywhere but inside a word -/
theorem substSim_append (ps : List Binding) :
    ∀ (n : Nat) (a b : Str), a.length = n → (LastIs W false a ∨ HeadIs W false b) →
      substSim W ps (a ++ b) = substSim W ps a ++ substSim W ps b := by
  intro n
  induction n using Nat.strongRecOn with
  | _ n ih =>
    intro a b hn hb
    cases a with
    | nil => simp [substSim_nil]
    | cons c cs =>
      by_cases hc : W c = true
      · obtain ⟨w, r, hl, hw, hr⟩ := word_split_cons W c cs hc
        cases r with
        | nil =>
          -- `a` is one word: `b` must start with a non-word character
          have hb' : HeadIs W false b := by
            rcases hb with h | h
            · have hne : (c :: cs) ≠ [] := by simp
              obtain ⟨z, hz⟩ : ∃ z, (c :: cs).getLast? = some z := by
                cases hh : (c :: cs).getLast? with
                | none => simp at hh
                | some z => exact ⟨z, rfl⟩
              have h1 := h z hz
              have h2 : W z = true := by
                rw [hl] at hz
                exact hw z (by simpa using List.mem_of_getLast? hz)
              rw [h1] at h2; cases h2
            · exact h
          rw [hl]
          simp only [List.append_nil]
          rw [substSim_run_word W ps (c :: w) b (by simp) hw hb']
          have := substSim_run_word W ps (c :: w) [] (by simp) hw (by simp [HeadIs])
          simp only [List.append_nil] at this
          rw [this, substSim_nil]; simp
        | cons d ds =>
          have hrlen : (d :: ds).length < n := by
            rw [← hn, hl]; simp; omega
          have hr' : HeadIs W false ((d :: ds) ++ b) := by
            intro z hz; exact hr z (by simpa using hz)
          have hlast : LastIs W false (d :: ds) ∨ HeadIs W false b := by
            rcases hb with h | h
            · left
              intro z hz
              apply h z
              rw [hl, List.getLast?_append]
              simp [hz]
            · exact Or.inr h
          rw [hl, List.append_assoc, substSim_run_word W ps (c :: w) _ (by simp) hw hr',
            ih _ hrlen (d :: ds) b rfl hlast, substSim_run_word W ps (c :: w) _ (by simp) hw hr]
          simp
      · have hc' : W c = false := by simpa using hc
        have hlast : LastIs W false cs ∨ HeadIs W false b := by
          rcases hb with h | h
          · cases cs with
            | nil => left; intro z hz; simp at hz
            | cons e es =>
              left; intro z hz; apply h z
              rw [List.getLast?_cons_cons]; exact hz
          · exact Or.inr h
        simp only [List.cons_append]
        rw [substSim_cons_gap W ps c hc', substSim_cons_gap W ps c hc',
          ih cs.length (by rw [← hn]; simp) cs b rfl hlast]
        simp

theorem substSim_word (ps : List Binding) (w : Str) (hw : w ≠ []) (hk : AllW W true w) :
    substSim W ps w = (lookup ps w).getD w := by
  have := substSim_run_word W ps w [] hw hk (by simp [HeadIs])
  simpa [substSim_nil] using this

theorem substSim_gap (ps : List Binding) (g : Str) (hk : AllW W false g) :
    substSim W ps g = g := by
  induction g with
  | nil => exact substSim_nil W ps
  | cons c g ih =>
    rw [substSim_cons_gap W ps c (hk c (by simp)), ih (fun a ha => hk a (by simp [ha]))]


theorem pushChar_ok (c : Char) (ts : List Tok) (h : ∀ t ∈ ts, TokOk W t) :
    ∀ t ∈ pushChar W c ts, TokOk W t := by
  cases ts with
  | nil =>
    intro t ht
    simp only [pushChar, List.mem_singleton] at ht
    subst ht
    exact ⟨by simp, by intro a ha; simp at ha; subst ha; rfl⟩
  | cons u ts =>
    simp only [pushChar]
    split
    · next hu =>
      intro t ht
      rcases List.mem_cons.1 ht with rfl | ht
      · refine ⟨by simp, ?_⟩
        intro a ha
        rcases List.mem_cons.1 ha with rfl | ha
        · exact hu.symm
        · exact (h u (by simp)).2 a ha
      · exact h t (by simp [ht])
    · intro t ht
      rcases List.mem_cons.1 ht with rfl | ht
      · exact ⟨by simp, by intro a ha; simp at ha; subst ha; rfl⟩
      · exact h t ht

theorem tokenise_ok (l : Str) : ∀ t ∈ tokenise W l, TokOk W t := by
  induction l with
  | nil => simp [tokenise]
  | cons c cs ih => exact pushChar_ok W c _ ih

theorem pushChar_alt (c : Char) (ts : List Tok) (h : Alternating ts) : Alternating (pushChar W c ts) := by
  cases ts with
  | nil => simp [pushChar, Alternating]
  | cons u ts =>
    simp only [pushChar]
    split
    · cases ts with
      | nil => simp [Alternating]
      | cons v ts => exact ⟨h.1, h.2⟩
    · next hu => exact ⟨fun e => hu e.symm, h⟩

theorem tokenise_alt (l : Str) : Alternating (tokenise W l) := by
  induction l with
  | nil => simp [tokenise, Alternating]
  | cons c cs ih => exact pushChar_alt W c _ ih

theorem tokenise_unique (ts : List Tok) (hok : ∀ t ∈ ts, TokOk W t) (halt : Alternating ts) :
    tokenise W (detok ts) = ts := by
  induction ts with
  | nil => simp [detok, tokenise]
  | cons t ts ih =>
    have ht := hok t (by simp)
    have hd : detok (t :: ts) = t.text ++ detok ts := by simp [detok]
    rw [hd]
    have hhead : HeadIs W (!t.isWord) (detok ts) := by
      cases ts with
      | nil => simp [detok, HeadIs]
      | cons u ts =>
        have hu := hok u (by simp)
        intro c hc
        have hne : u.isWord = !t.isWord := by
          have := halt.1
          cases h1 : t.isWord <;> cases h2 : u.isWord <;> simp_all
        cases hut : u.text with
        | nil => exact absurd hut hu.1
        | cons a as =>
          simp [detok, hut] at hc
          subst hc
          rw [← hne]
          exact hu.2 a (by simp [hut])
    have halt' : Alternating ts := by
      cases ts with
      | nil => simp [Alternating]
      | cons u ts => exact halt.2
    rw [tokenise_run W t.isWord t.text (detok ts) ht.1 ht.2 hhead,
      ih (fun u hu => hok u (by simp [hu])) halt']

end PartA

/-! ## Part B -/

theorem build_isOk (spec : FSpec) (f : Expr) (args : List Expr) :
    isOk (buildCPPCodeValue spec f args) = BuildAccepts spec f args := by
  unfold buildCPPCodeValue BuildAccepts handlerAcceptsS
  by_cases h : args.length = spec.args.length
  · simp only [h, ne_eq, not_true_eq_false, if_false, beq_self_eq_true, Bool.true_and]
    cases shape f <;> cases spec.methodObject <;> simp [isOk]
  · simp [h, isOk]

theorem build_ok_form (spec : FSpec) (f : Expr) (args : List Expr) (e : Expr)
    (h : buildCPPCodeValue spec f args = .ok e) :
    e = .cpp (spec.toCodeValue (expectedInstance spec f)) args := by
  unfold buildCPPCodeValue at h
  unfold expectedInstance
  split at h
  · cases h
  · cases hs : shape f <;> cases hm : spec.methodObject <;> simp [hs, hm] at h ⊢ <;> exact h.symm

theorem applyHandler_isOk (h : Handler) (f : Expr) (args : List Expr) :
    isOk (applyHandler h f args) = handlerAcceptsS h (shape f) args.length := by
  cases h with
  | spec s => exact build_isOk s f args
  | nonnull =>
    unfold applyHandler handlerAcceptsS
    by_cases h : args.length = 1 <;> simp [h, isOk]
  | refuse => simp [applyHandler, handlerAcceptsS, isOk]

theorem applyHandler_ok_form (h : Handler) (f : Expr) (args : List Expr) (e : Expr)
    (he : applyHandler h f args = .ok e) : ∃ cv, e = .cpp cv args := by
  cases h with
  | spec s => exact ⟨_, build_ok_form s f args e (by simpa [applyHandler] using he)⟩
  | nonnull =>
    simp only [applyHandler] at he
    by_cases hl : args.length = 1
    · simp [hl] at he; exact ⟨_, he.symm⟩
    · simp [hl] at he
  | refuse => simp [applyHandler] at he

/-! ## Part C -/

theorem shape_name_iff (e : Expr) (n : Str) : shape e = .name n ↔ e = .name n := by
  constructor
  · intro h
    cases e with
    | name m => simp [shape] at h; rw [h]
    | attr o a => cases o <;> simp [shape] at h
    | _ => simp [shape] at h
  · rintro rfl; rfl

theorem shape_attr_other (o : Expr) (a : Str) (h : ∀ r, o ≠ .name r) : shape (.attr o a) = .attrOther a := by
  cases o <;> first | rfl | exact absurd rfl (h _)

/-- the shape of `.attr o a` is determined by the shape of `o` -/
theorem shape_attr (o o' : Expr) (a : Str) (h : shape o' = shape o) :
    shape (.attr o' a) = shape (.attr o a) := by
  by_cases hn : ∃ r, o = .name r
  · obtain ⟨r, rfl⟩ := hn
    have := (shape_name_iff o' r).1 (by rw [h]; rfl)
    subst this; rfl
  · have hn' : ∀ r, o' ≠ .name r :=
      fun r e => hn ⟨r, (shape_name_iff o r).1 (by rw [← h, e]; rfl)⟩
    rw [shape_attr_other o a (fun r e => hn ⟨r, e⟩), shape_attr_other o' a hn']

theorem calleeNameFull_of_key (f : Expr) (k : Str) (h : calleeKey f = some k) : calleeNameFull f = some k := by
  unfold calleeKey at h
  unfold calleeNameFull
  cases hs : shape f <;> simp [hs] at h ⊢ <;> exact h

mutual
theorem finder_spec (tbl : Table) : ∀ e : Expr,
    (∀ e', finder tbl e = .ok e' →
        SitesOk tbl e = true ∧ shape e' = shape e ∧
        (ReceiverPlain tbl e = true → NoPendingFull tbl e' = true)) ∧
    (∀ x, finder tbl e = .error x → SitesOk tbl e = false)
  | .name _ => by simp [finder, SitesOk, NoPendingFull]
  | .const _ => by simp [finder, SitesOk, NoPendingFull]
  | .opaque _ => by simp [finder, SitesOk, NoPendingFull]
  | .attr o a => by
    have ih := finder_spec tbl o
    simp only [finder, SitesOk, ReceiverPlain]
    cases h : finder tbl o with
    | error x => simp [ih.2 x h]
    | ok o' =>
      obtain ⟨h1, h2, h3⟩ := ih.1 o' h
      simp only [Except.ok.injEq, forall_eq', reduceCtorEq, false_implies, implies_true, and_true]
      exact ⟨h1, shape_attr o o' a h2, fun hr => by simpa [NoPendingFull] using h3 hr⟩
  | .binop op l r => by
    have ihl := finder_spec tbl l
    have ihr := finder_spec tbl r
    simp only [finder, SitesOk, ReceiverPlain]
    cases hl : finder tbl l with
    | error x => simp [ihl.2 x hl]
    | ok l' =>
      cases hr : finder tbl r with
      | error x => simp [ihr.2 x hr]
      | ok r' =>
        obtain ⟨a1, _, a3⟩ := ihl.1 l' hl
        obtain ⟨b1, _, b3⟩ := ihr.1 r' hr
        simp only [Except.ok.injEq, forall_eq', reduceCtorEq, false_implies, implies_true, and_true]
        refine ⟨by simp [a1, b1], rfl, fun hp => ?_⟩
        simp only [Bool.and_eq_true] at hp
        simp [NoPendingFull, a3 hp.1, b3 hp.2]
  | .cpp cv args => by
    have ih := finderList_spec tbl args
    simp only [finder, SitesOk, ReceiverPlain]
    cases h : finderList tbl args with
    | error x => simp [ih.2 x h]
    | ok args' =>
      obtain ⟨h1, _, h3⟩ := ih.1 args' h
      simp only [Except.ok.injEq, forall_eq', reduceCtorEq, false_implies, implies_true, and_true]
      exact ⟨h1, rfl, fun hp => by simpa [NoPendingFull] using h3 hp⟩
  | .call f args => by
    have ihf := finder_spec tbl f
    have iha := finderList_spec tbl args
    simp only [finder, SitesOk, ReceiverPlain]
    cases hf : finder tbl f with
    | error x => simp [ihf.2 x hf]
    | ok f' =>
      obtain ⟨f1, f2, f3⟩ := ihf.1 f' hf
      cases ha : finderList tbl args with
      | error x => simp [iha.2 x ha]
      | ok args' =>
        obtain ⟨a1, a2, a3⟩ := iha.1 args' ha
        have hkey : calleeKey f' = calleeKey f := by simp [calleeKey, f2]
        simp only [f1, a1, Bool.true_and]
        rw [hkey]
        cases hk : calleeKey f with
        | none =>
          simp only [Option.bind_none, Except.ok.injEq, forall_eq', reduceCtorEq, false_implies,
            implies_true, and_true, true_and]
          refine ⟨rfl, fun hp => ?_⟩
          simp only [Bool.and_eq_true] at hp
          obtain ⟨⟨p1, p2⟩, p3⟩ := hp
          simp only [NoPendingFull, f3 p1, a3 p2, Bool.true_and, calleeNameFull, f2]
          unfold calleeKey at hk
          cases hs : shape f <;> simp [hs] at hk p3 ⊢
          exact p3
        | some k =>
          simp only [Option.bind_some]
          cases hg : tbl.get? k with
          | none =>
            simp only [Except.ok.injEq, forall_eq', reduceCtorEq, false_implies, implies_true,
              and_true, true_and]
            refine ⟨rfl, fun hp => ?_⟩
            simp only [Bool.and_eq_true] at hp
            obtain ⟨⟨p1, p2⟩, _⟩ := hp
            have : calleeNameFull f' = some k := calleeNameFull_of_key f' k (by rw [hkey, hk])
            simp [NoPendingFull, f3 p1, a3 p2, this, hg]
          | some h =>
            have hok := applyHandler_isOk h f' args'
            rw [f2, a2] at hok
            simp only
            cases hh : applyHandler h f' args' with
            | error x =>
              rw [hh] at hok
              simp [isOk] at hok
              simp [hok]
            | ok e' =>
              rw [hh] at hok
              simp only [isOk] at hok
              obtain ⟨cv, rfl⟩ := applyHandler_ok_form h f' args' e' hh
              simp only [Except.ok.injEq, forall_eq', reduceCtorEq, false_implies, implies_true,
                and_true]
              refine ⟨hok.symm, ?_, fun hp => ?_⟩
              · simp [shape]
              · simp only [Bool.and_eq_true] at hp
                simpa [NoPendingFull] using a3 hp.1.2
theorem finderList_spec (tbl : Table) : ∀ es : List Expr,
    (∀ es', finderList tbl es = .ok es' →
        SitesOkList tbl es = true ∧ es'.length = es.length ∧
        (ReceiverPlainList tbl es = true → NoPendingFullList tbl es' = true)) ∧
    (∀ x, finderList tbl es = .error x → SitesOkList tbl es = false)
  | [] => by simp [finderList, SitesOkList, NoPendingFullList]
  | e :: es => by
    have ihe := finder_spec tbl e
    have ihs := finderList_spec tbl es
    simp only [finderList, SitesOkList, ReceiverPlainList]
    cases he : finder tbl e with
    | error x => simp [ihe.2 x he]
    | ok e' =>
      obtain ⟨e1, _, e3⟩ := ihe.1 e' he
      cases hs : finderList tbl es with
      | error x => simp [ihs.2 x hs]
      | ok es' =>
        obtain ⟨s1, s2, s3⟩ := ihs.1 es' hs
        simp only [Except.ok.injEq, forall_eq', reduceCtorEq, false_implies, implies_true, and_true]
        refine ⟨by simp [e1, s1], by simp [s2], fun hp => ?_⟩
        simp only [Bool.and_eq_true] at hp
        simp [NoPendingFullList, e3 hp.1, s3 hp.2]
end


/-! ## Part D -/

theorem addIncludes_sub (acc is : List Str) :
    (∀ i ∈ acc, i ∈ addIncludes acc is) ∧ (∀ i ∈ is, i ∈ addIncludes acc is) := by
  induction is generalizing acc with
  | nil => simp [addIncludes]
  | cons x xs ih =>
    simp only [addIncludes]
    by_cases hx : x ∈ acc
    · simp only [hx, if_true]
      refine ⟨(ih acc).1, ?_⟩
      intro i hi
      rcases List.mem_cons.1 hi with rfl | hi
      · exact (ih acc).1 _ hx
      · exact (ih acc).2 i hi
    · simp only [hx, if_false]
      refine ⟨fun i hi => (ih _).1 i (by simp [hi]), ?_⟩
      intro i hi
      rcases List.mem_cons.1 hi with rfl | hi
      · exact (ih _).1 _ (by simp)
      · exact (ih _).2 i hi

theorem wordNames_replList (W : Char → Bool) (cv : CodeValue) (h : cvWellFormed W cv = true)
    (recv : Option Str) (texts : List Str) : WordNames W (replList cv recv texts) := by
  simp only [cvWellFormed, Bool.and_eq_true, List.all_eq_true] at h
  intro p hp
  simp only [replList, List.mem_append] at hp
  rcases hp with hp | hp
  · cases hi : cv.instance_ with
    | none => simp [hi] at hp
    | some mr =>
      obtain ⟨mo, r⟩ := mr
      cases recv with
      | none => simp [hi] at hp
      | some t =>
        simp [hi] at hp
        subst hp
        have := h.2
        simpa [hi] using this
  · exact h.1 p.1 (List.of_mem_zip hp).1

theorem blockLines_eq (W : Char → Bool) (cv : CodeValue) (h : cvWellFormed W cv = true)
    (recv : Option Str) (texts : List Str) :
    blockLines W cv (replList cv recv texts) = expectedLines W cv recv texts := by
  simp only [blockLines, expectedLines]
  apply List.map_congr_left
  intro l _
  rw [replaceWholeWords_eq W _ (wordNames_replList W cv h recv texts)]

mutual
theorem emit_check (W : Char → Bool) (env : Env) : ∀ (e : Expr) (s : St) (t : Str) (s' : St),
    emit W env e s = .ok (t, s') → WF W e = true →
    ∃ newD newB, s'.decls = s.decls ++ newD ∧ s'.stmts = s.stmts ++ newB ∧
      (∀ i ∈ s.includes, i ∈ s'.includes) ∧
      (∀ D I rest, (∀ d ∈ newD, d ∈ D) → (∀ i ∈ s'.includes, i ∈ I) →
        check W env D I e (newB ++ rest) = some (t, rest))
  | .opaque x, s, t, s', h, _ => by
    simp only [emit, Except.ok.injEq, Prod.mk.injEq] at h
    obtain ⟨rfl, rfl⟩ := h
    exact ⟨[], [], by simp, by simp, fun i hi => hi, fun D I rest _ _ => by simp [check]⟩
  | .const x, s, t, s', h, _ => by
    simp only [emit, Except.ok.injEq, Prod.mk.injEq] at h
    obtain ⟨rfl, rfl⟩ := h
    exact ⟨[], [], by simp, by simp, fun i hi => hi, fun D I rest _ _ => by simp [check]⟩
  | .name id, s, t, s', h, _ => by
    simp only [emit] at h
    cases hg : env.get? id with
    | none => simp [hg] at h
    | some v =>
      simp only [hg, Except.ok.injEq, Prod.mk.injEq] at h
      obtain ⟨rfl, rfl⟩ := h
      exact ⟨[], [], by simp, by simp, fun i hi => hi, fun D I rest _ _ => by simp [check, hg]⟩
  | .attr _ _, s, t, s', h, _ => by simp [emit] at h
  | .call _ _, s, t, s', h, _ => by simp [emit] at h
  | .binop _ _ _, s, t, s', h, _ => by simp [emit] at h
  | .cpp cv args, s, t, s', h, hwf => by
    simp only [WF, Bool.and_eq_true] at hwf
    simp only [emit] at h
    cases hr : recvOf env cv with
    | none => simp [hr] at h
    | some recv =>
      simp only [hr] at h
      cases hl : emitList W env args
          { s with next := s.next + 1,
                   decls := s.decls ++ [.decl (declType cv) (uniqueName cv.varPrefix s.next)],
                   includes := addIncludes s.includes cv.includes } with
      | error x => simp [hl] at h
      | ok r =>
        obtain ⟨texts, s2⟩ := r
        simp only [hl, Except.ok.injEq, Prod.mk.injEq] at h
        obtain ⟨rfl, rfl⟩ := h
        obtain ⟨nd, nb, hd, hb, hi, hc⟩ := emitList_check W env args _ texts s2 hl hwf.2
        refine ⟨.decl (declType cv) (uniqueName cv.varPrefix s.next) :: nd,
          nb ++ [.block (blockLines W cv (replList cv recv texts)) (uniqueName cv.varPrefix s.next) cv.result],
          by simp [hd], by simp [hb], ?_, ?_⟩
        · intro i his
          exact hi i ((addIncludes_sub s.includes cv.includes).1 i his)
        · intro D I rest hD hI
          simp only [check, hr]
          have := hc D I (.block (blockLines W cv (replList cv recv texts)) (uniqueName cv.varPrefix s.next) cv.result :: rest)
            (fun d hd => hD d (by simp [hd])) hI
          simp only [List.append_assoc, List.singleton_append]
          rw [this]
          simp only
          have hdecl : Item.decl (declType cv) (uniqueName cv.varPrefix s.next) ∈ D := hD _ (by simp)
          have hinc : ∀ i ∈ cv.includes, i ∈ I := fun i hic =>
            hI i (hi i ((addIncludes_sub s.includes cv.includes).2 i hic))
          rw [if_pos ⟨trivial, hdecl, blockLines_eq W cv hwf.1 recv texts, hinc⟩]
theorem emitList_check (W : Char → Bool) (env : Env) : ∀ (es : List Expr) (s : St) (ts : List Str) (s' : St),
    emitList W env es s = .ok (ts, s') → WFList W es = true →
    ∃ newD newB, s'.decls = s.decls ++ newD ∧ s'.stmts = s.stmts ++ newB ∧
      (∀ i ∈ s.includes, i ∈ s'.includes) ∧
      (∀ D I rest, (∀ d ∈ newD, d ∈ D) → (∀ i ∈ s'.includes, i ∈ I) →
        checkList W env D I es (newB ++ rest) = some (ts, rest))
  | [], s, ts, s', h, _ => by
    simp only [emitList, Except.ok.injEq, Prod.mk.injEq] at h
    obtain ⟨rfl, rfl⟩ := h
    exact ⟨[], [], by simp, by simp, fun i hi => hi, fun D I rest _ _ => by simp [checkList]⟩
  | e :: es, s, ts, s', h, hwf => by
    simp only [WFList, Bool.and_eq_true] at hwf
    simp only [emitList] at h
    cases he : emit W env e s with
    | error x => simp [he] at h
    | ok r =>
      obtain ⟨t, s1⟩ := r
      simp only [he] at h
      cases hes : emitList W env es s1 with
      | error x => simp [hes] at h
      | ok r2 =>
        obtain ⟨ts2, s2⟩ := r2
        simp only [hes, Except.ok.injEq, Prod.mk.injEq] at h
        obtain ⟨rfl, rfl⟩ := h
        obtain ⟨d1, b1, hd1, hb1, hi1, hc1⟩ := emit_check W env e s t s1 he hwf.1
        obtain ⟨d2, b2, hd2, hb2, hi2, hc2⟩ := emitList_check W env es s1 ts2 s2 hes hwf.2
        refine ⟨d1 ++ d2, b1 ++ b2, by simp [hd2, hd1], by simp [hb2, hb1],
          fun i hi => hi2 i (hi1 i hi), ?_⟩
        intro D I rest hD hI
        simp only [checkList, List.append_assoc]
        rw [hc1 D I (b2 ++ rest) (fun d hd => hD d (by simp [hd])) (fun i hi => hI i (hi2 i hi))]
        simp only
        rw [hc2 D I rest (fun d hd => hD d (by simp [hd])) hI]
end


theorem natStr_digits (n : Nat) : ∀ c ∈ natStr n, c.isDigit = true :=
  fun _ hc => Nat.isDigit_of_mem_toDigits (by decide) (by decide) hc

theorem natStr_ne_nil (n : Nat) : natStr n ≠ [] := Nat.toDigits_ne_nil

theorem natStr_inj (i j : Nat) (h : natStr i = natStr j) : i = j := by
  have hi := @Nat.ofDigitChars_ten_toDigits i
  have hj := @Nat.ofDigitChars_ten_toDigits j
  unfold natStr at h
  rw [h] at hi
  exact hi.symm.trans hj

theorem getLast?_append_ne_nil {α} (a b : List α) (hb : b ≠ []) : (a ++ b).getLast? = b.getLast? := by
  cases b with
  | nil => exact absurd rfl hb
  | cons x xs =>
    rw [List.getLast?_append]
    cases h : (x :: xs).getLast? with
    | none => simp at h
    | some z => rfl

/-- with prefixes that do not end in a digit, the generated name determines the index -/
theorem uniqueName_inj (p q : Str) (i j : Nat) (hp : noDigitEnd p = true) (hq : noDigitEnd q = true)
    (h : uniqueName p i = uniqueName q j) : i = j := by
  unfold uniqueName at h
  have key : ∀ (p q : Str) (i j : Nat), noDigitEnd q = true → ∀ x, q = p ++ x → natStr i = x ++ natStr j → i = j := by
    intro p q i j hq x hx1 hx2
    cases x with
    | nil => exact natStr_inj i j (by simpa using hx2)
    | cons y ys =>
      exfalso
      have hne : (y :: ys) ≠ [] := by simp
      obtain ⟨z, hz⟩ : ∃ z, (y :: ys).getLast? = some z := by
        cases hh : (y :: ys).getLast? with
        | none => simp at hh
        | some z => exact ⟨z, rfl⟩
      have hzq : q.getLast? = some z := by rw [hx1, getLast?_append_ne_nil _ _ hne, hz]
      have hzd : z.isDigit = true := by
        apply natStr_digits i
        rw [hx2]
        exact List.mem_append_left _ (List.mem_of_getLast? hz)
      simp [noDigitEnd, hzq, hzd] at hq
  rcases List.append_eq_append_iff.1 h with ⟨x, hx1, hx2⟩ | ⟨x, hx1, hx2⟩
  · exact key p q i j hq x hx1 hx2
  · exact (key q p j i hp x hx1 hx2).symm

/-- the names declared by a piece of emission: pairwise distinct, each `prefix ++ index` with
an index of the half-open range and a prefix without digit at its end -/
def FreshIn (lo hi : Nat) (ds : List Item) : Prop :=
  (ds.filterMap declName).Nodup ∧
  ∀ n ∈ ds.filterMap declName, ∃ p i, n = uniqueName p i ∧ noDigitEnd p = true ∧ lo ≤ i ∧ i < hi

theorem freshIn_nil (lo hi : Nat) : FreshIn lo hi [] := by simp [FreshIn]

theorem freshIn_mono (lo lo' hi hi' : Nat) (ds : List Item) (h : FreshIn lo hi ds) (h1 : lo' ≤ lo)
    (h2 : hi ≤ hi') : FreshIn lo' hi' ds := by
  refine ⟨h.1, fun n hn => ?_⟩
  obtain ⟨p, i, e, hp, a, b⟩ := h.2 n hn
  exact ⟨p, i, e, hp, by omega, by omega⟩

theorem freshIn_append (lo mid hi : Nat) (a b : List Item) (ha : FreshIn lo mid a) (hb : FreshIn mid hi b)
    (hlm : lo ≤ mid) (hmh : mid ≤ hi) : FreshIn lo hi (a ++ b) := by
  constructor
  · rw [List.filterMap_append, List.nodup_append]
    refine ⟨ha.1, hb.1, ?_⟩
    intro x hx y hy hxy
    obtain ⟨p, i, e1, hp, _, hi1⟩ := ha.2 x hx
    obtain ⟨q, j, e2, hq, hj1, _⟩ := hb.2 y hy
    have := uniqueName_inj p q i j hp hq (by rw [← e1, ← e2, hxy])
    omega
  · intro n hn
    rw [List.filterMap_append, List.mem_append] at hn
    rcases hn with hn | hn
    · obtain ⟨p, i, e, hp, a1, a2⟩ := ha.2 n hn
      exact ⟨p, i, e, hp, a1, by omega⟩
    · obtain ⟨p, i, e, hp, a1, a2⟩ := hb.2 n hn
      exact ⟨p, i, e, hp, by omega, a2⟩

mutual
theorem emit_fresh (W : Char → Bool) (env : Env) : ∀ (e : Expr) (s : St) (t : Str) (s' : St),
    emit W env e s = .ok (t, s') → PrefixOk e = true →
    ∃ newD, s'.decls = s.decls ++ newD ∧ s.next ≤ s'.next ∧ FreshIn s.next s'.next newD
  | .opaque x, s, t, s', h, _ => by
    simp only [emit, Except.ok.injEq, Prod.mk.injEq] at h
    obtain ⟨rfl, rfl⟩ := h
    exact ⟨[], by simp, Nat.le_refl _, freshIn_nil _ _⟩
  | .const x, s, t, s', h, _ => by
    simp only [emit, Except.ok.injEq, Prod.mk.injEq] at h
    obtain ⟨rfl, rfl⟩ := h
    exact ⟨[], by simp, Nat.le_refl _, freshIn_nil _ _⟩
  | .name id, s, t, s', h, _ => by
    simp only [emit] at h
    cases hg : env.get? id with
    | none => simp [hg] at h
    | some v =>
      simp only [hg, Except.ok.injEq, Prod.mk.injEq] at h
      obtain ⟨rfl, rfl⟩ := h
      exact ⟨[], by simp, Nat.le_refl _, freshIn_nil _ _⟩
  | .attr _ _, s, t, s', h, _ => by simp [emit] at h
  | .call _ _, s, t, s', h, _ => by simp [emit] at h
  | .binop _ _ _, s, t, s', h, _ => by simp [emit] at h
  | .cpp cv args, s, t, s', h, hp => by
    simp only [PrefixOk, Bool.and_eq_true] at hp
    simp only [emit] at h
    cases hr : recvOf env cv with
    | none => simp [hr] at h
    | some recv =>
      simp only [hr] at h
      cases hl : emitList W env args
          { s with next := s.next + 1,
                   decls := s.decls ++ [.decl (declType cv) (uniqueName cv.varPrefix s.next)],
                   includes := addIncludes s.includes cv.includes } with
      | error x => simp [hl] at h
      | ok r =>
        obtain ⟨texts, s2⟩ := r
        simp only [hl, Except.ok.injEq, Prod.mk.injEq] at h
        obtain ⟨rfl, rfl⟩ := h
        obtain ⟨nd, hd, hn, hf⟩ := emitList_fresh W env args _ texts s2 hl hp.2
        simp only at hd hn hf
        refine ⟨[.decl (declType cv) (uniqueName cv.varPrefix s.next)] ++ nd, by simp [hd], by simp; omega, ?_⟩
        have h1 : FreshIn s.next (s.next + 1) [.decl (declType cv) (uniqueName cv.varPrefix s.next)] := by
          refine ⟨by simp [declName], ?_⟩
          intro n hn'
          simp [declName] at hn'
          exact ⟨cv.varPrefix, s.next, hn', hp.1, Nat.le_refl _, by omega⟩
        exact freshIn_append _ _ _ _ _ h1 hf (by omega) hn
theorem emitList_fresh (W : Char → Bool) (env : Env) : ∀ (es : List Expr) (s : St) (ts : List Str) (s' : St),
    emitList W env es s = .ok (ts, s') → PrefixOkList es = true →
    ∃ newD, s'.decls = s.decls ++ newD ∧ s.next ≤ s'.next ∧ FreshIn s.next s'.next newD
  | [], s, ts, s', h, _ => by
    simp only [emitList, Except.ok.injEq, Prod.mk.injEq] at h
    obtain ⟨rfl, rfl⟩ := h
    exact ⟨[], by simp, Nat.le_refl _, freshIn_nil _ _⟩
  | e :: es, s, ts, s', h, hp => by
    simp only [PrefixOkList, Bool.and_eq_true] at hp
    simp only [emitList] at h
    cases he : emit W env e s with
    | error x => simp [he] at h
    | ok r =>
      obtain ⟨t, s1⟩ := r
      simp only [he] at h
      cases hes : emitList W env es s1 with
      | error x => simp [hes] at h
      | ok r2 =>
        obtain ⟨ts2, s2⟩ := r2
        simp only [hes, Except.ok.injEq, Prod.mk.injEq] at h
        obtain ⟨rfl, rfl⟩ := h
        obtain ⟨d1, hd1, hn1, hf1⟩ := emit_fresh W env e s t s1 he hp.1
        obtain ⟨d2, hd2, hn2, hf2⟩ := emitList_fresh W env es s1 ts2 s2 hes hp.2
        exact ⟨d1 ++ d2, by simp [hd2, hd1], by omega, freshIn_append _ _ _ _ _ hf1 hf2 hn1 hn2⟩
end


/-! ### what the finder produces is well formed when the table is -/

theorem table_get_wf (W : Char → Bool) (tbl : Table) (h : tableWellFormed W tbl = true) (k : Str) (hd : Handler)
    (hg : tbl.get? k = some hd) : handlerWF W hd = true := by
  induction tbl with
  | nil => simp [Table.get?] at hg
  | cons a tbl ih =>
    obtain ⟨k', h'⟩ := a
    simp only [tableWellFormed, Bool.and_eq_true] at h
    simp only [Table.get?] at hg
    by_cases hk : k' = k
    · simp only [hk, if_true, Option.some.injEq] at hg
      subst hg
      exact h.1
    · simp only [hk, if_false] at hg
      exact ih h.2 hg

theorem table_get_prefix (tbl : Table) (h : tablePrefixOk tbl = true) (k : Str) (hd : Handler)
    (hg : tbl.get? k = some hd) : handlerPrefixOk hd = true := by
  induction tbl with
  | nil => simp [Table.get?] at hg
  | cons a tbl ih =>
    obtain ⟨k', h'⟩ := a
    simp only [tablePrefixOk, Bool.and_eq_true] at h
    simp only [Table.get?] at hg
    by_cases hk : k' = k
    · simp only [hk, if_true, Option.some.injEq] at hg
      subst hg
      exact h.1
    · simp only [hk, if_false] at hg
      exact ih h.2 hg

theorem applyHandler_wf (W : Char → Bool) (hd : Handler) (f : Expr) (args : List Expr) (e : Expr)
    (hw : handlerWF W hd = true)
    (ha : WFList W args = true) (he : applyHandler hd f args = .ok e) : WF W e = true := by
  cases hd with
  | spec s =>
    have := build_ok_form s f args e (by simpa [applyHandler] using he)
    subst this
    simp only [WF, ha, Bool.and_true]
    simp only [handlerWF, specWellFormed, Bool.and_eq_true] at hw
    simp only [cvWellFormed, FSpec.toCodeValue, expectedInstance, Bool.and_eq_true]
    refine ⟨hw.1, ?_⟩
    cases hs : shape f <;> cases hm : s.methodObject <;> simp_all
  | nonnull =>
    simp only [applyHandler] at he
    by_cases hl : args.length = 1
    · simp [hl] at he; subst he
      simp only [handlerWF] at hw
      simp [WF, ha, hw]
    · simp [hl] at he
  | refuse => simp [applyHandler] at he

theorem nonnull_prefix_ok : noDigitEnd nonnullCodeValue.varPrefix = true := by decide

theorem applyHandler_prefix (hd : Handler) (f : Expr) (args : List Expr) (e : Expr)
    (hw : handlerPrefixOk hd = true)
    (ha : PrefixOkList args = true) (he : applyHandler hd f args = .ok e) : PrefixOk e = true := by
  cases hd with
  | spec s =>
    have := build_ok_form s f args e (by simpa [applyHandler] using he)
    subst this
    simp only [handlerPrefixOk] at hw
    simp [PrefixOk, ha, FSpec.toCodeValue, hw]
  | nonnull =>
    simp only [applyHandler] at he
    by_cases hl : args.length = 1
    · simp [hl] at he; subst he; simp [PrefixOk, ha, nonnull_prefix_ok]
    · simp [hl] at he
  | refuse => simp [applyHandler] at he

mutual
theorem finder_wf (W : Char → Bool) (tbl : Table) (ht : tableWellFormed W tbl = true)
    (hp : tablePrefixOk tbl = true) : ∀ (e e' : Expr),
    finder tbl e = .ok e' → (WF W e = true → WF W e' = true) ∧ (PrefixOk e = true → PrefixOk e' = true)
  | .name _, e', h => by simp [finder] at h; subst h; simp
  | .const _, e', h => by simp [finder] at h; subst h; simp
  | .opaque _, e', h => by simp [finder] at h; subst h; simp
  | .attr o a, e', h => by
    simp only [finder] at h
    cases ho : finder tbl o with
    | error x => simp [ho] at h
    | ok o' =>
      simp [ho] at h; subst h
      have ih := finder_wf W tbl ht hp o o' ho
      simpa [WF, PrefixOk] using ih
  | .binop op l r, e', h => by
    simp only [finder] at h
    cases hl : finder tbl l with
    | error x => simp [hl] at h
    | ok l' =>
      cases hr : finder tbl r with
      | error x => simp [hl, hr] at h
      | ok r' =>
        simp [hl, hr] at h; subst h
        have i1 := finder_wf W tbl ht hp l l' hl
        have i2 := finder_wf W tbl ht hp r r' hr
        simp only [WF, PrefixOk, Bool.and_eq_true]
        exact ⟨fun hw => ⟨i1.1 hw.1, i2.1 hw.2⟩, fun hw => ⟨i1.2 hw.1, i2.2 hw.2⟩⟩
  | .cpp cv args, e', h => by
    simp only [finder] at h
    cases ha : finderList tbl args with
    | error x => simp [ha] at h
    | ok args' =>
      simp [ha] at h; subst h
      have ih := finderList_wf W tbl ht hp args args' ha
      simp only [WF, PrefixOk, Bool.and_eq_true]
      exact ⟨fun hw => ⟨hw.1, ih.1 hw.2⟩, fun hw => ⟨hw.1, ih.2 hw.2⟩⟩
  | .call f args, e', h => by
    simp only [finder] at h
    cases hf : finder tbl f with
    | error x => simp [hf] at h
    | ok f' =>
      cases ha : finderList tbl args with
      | error x => simp [hf, ha] at h
      | ok args' =>
        simp only [hf, ha] at h
        have ihf := finder_wf W tbl ht hp f f' hf
        have iha := finderList_wf W tbl ht hp args args' ha
        simp only [WF, PrefixOk, Bool.and_eq_true]
        cases hk : calleeKey f' with
        | none =>
          simp [hk] at h; subst h
          simp only [WF, PrefixOk, Bool.and_eq_true]
          exact ⟨fun hw => ⟨ihf.1 hw.1, iha.1 hw.2⟩, fun hw => ⟨ihf.2 hw.1, iha.2 hw.2⟩⟩
        | some k =>
          simp only [hk] at h
          cases hg : tbl.get? k with
          | none =>
            simp [hg] at h; subst h
            simp only [WF, PrefixOk, Bool.and_eq_true]
            exact ⟨fun hw => ⟨ihf.1 hw.1, iha.1 hw.2⟩, fun hw => ⟨ihf.2 hw.1, iha.2 hw.2⟩⟩
          | some hd =>
            simp only [hg] at h
            exact ⟨fun hw => applyHandler_wf W hd f' args' e' (table_get_wf W tbl ht k hd hg) (iha.1 hw.2) h,
              fun hw => applyHandler_prefix hd f' args' e' (table_get_prefix tbl hp k hd hg) (iha.2 hw.2) h⟩
theorem finderList_wf (W : Char → Bool) (tbl : Table) (ht : tableWellFormed W tbl = true)
    (hp : tablePrefixOk tbl = true) : ∀ (es es' : List Expr),
    finderList tbl es = .ok es' →
      (WFList W es = true → WFList W es' = true) ∧ (PrefixOkList es = true → PrefixOkList es' = true)
  | [], es', h => by simp [finderList] at h; subst h; simp
  | e :: es, es', h => by
    simp only [finderList] at h
    cases he : finder tbl e with
    | error x => simp [he] at h
    | ok e1 =>
      cases hs : finderList tbl es with
      | error x => simp [he, hs] at h
      | ok es1 =>
        simp [he, hs] at h; subst h
        have i1 := finder_wf W tbl ht hp e e1 he
        have i2 := finderList_wf W tbl ht hp es es1 hs
        simp only [WFList, PrefixOkList, Bool.and_eq_true]
        exact ⟨fun hw => ⟨i1.1 hw.1, i2.1 hw.2⟩, fun hw => ⟨i1.2 hw.1, i2.2 hw.2⟩⟩
end


theorem flatMap_congr' {α β} (l : List α) (f g : α → List β) (h : ∀ a ∈ l, f a = g a) :
    l.flatMap f = l.flatMap g := by
  induction l with
  | nil => rfl
  | cons a l ih =>
    simp only [List.flatMap_cons]
    rw [h a (by simp), ih (fun b hb => h b (by simp [hb]))]

mutual
/-- emission only appends to the enclosing block and only adds include files (no hypothesis) -/
theorem emit_grows (W : Char → Bool) (env : Env) : ∀ (e : Expr) (s : St) (t : Str) (s' : St),
    emit W env e s = .ok (t, s') →
    ∃ nd nb, s'.decls = s.decls ++ nd ∧ s'.stmts = s.stmts ++ nb ∧ (∀ i ∈ s.includes, i ∈ s'.includes)
  | .opaque x, s, t, s', h => by
    simp only [emit, Except.ok.injEq, Prod.mk.injEq] at h
    obtain ⟨rfl, rfl⟩ := h
    exact ⟨[], [], by simp, by simp, fun i hi => hi⟩
  | .const x, s, t, s', h => by
    simp only [emit, Except.ok.injEq, Prod.mk.injEq] at h
    obtain ⟨rfl, rfl⟩ := h
    exact ⟨[], [], by simp, by simp, fun i hi => hi⟩
  | .name id, s, t, s', h => by
    simp only [emit] at h
    cases hg : env.get? id with
    | none => simp [hg] at h
    | some v =>
      simp only [hg, Except.ok.injEq, Prod.mk.injEq] at h
      obtain ⟨rfl, rfl⟩ := h
      exact ⟨[], [], by simp, by simp, fun i hi => hi⟩
  | .attr _ _, s, t, s', h => by simp [emit] at h
  | .call _ _, s, t, s', h => by simp [emit] at h
  | .binop _ _ _, s, t, s', h => by simp [emit] at h
  | .cpp cv args, s, t, s', h => by
    simp only [emit] at h
    cases hr : recvOf env cv with
    | none => simp [hr] at h
    | some recv =>
      simp only [hr] at h
      cases hl : emitList W env args
          { s with next := s.next + 1,
                   decls := s.decls ++ [.decl (declType cv) (uniqueName cv.varPrefix s.next)],
                   includes := addIncludes s.includes cv.includes } with
      | error x => simp [hl] at h
      | ok r =>
        obtain ⟨texts, s2⟩ := r
        simp only [hl, Except.ok.injEq, Prod.mk.injEq] at h
        obtain ⟨rfl, rfl⟩ := h
        obtain ⟨nd, nb, hd, hb, _, hi⟩ := emitList_grows W env args _ texts s2 hl
        exact ⟨.decl (declType cv) (uniqueName cv.varPrefix s.next) :: nd,
          nb ++ [.block (blockLines W cv (replList cv recv texts)) (uniqueName cv.varPrefix s.next) cv.result],
          by simp [hd], by simp [hb],
          fun i his => hi i ((addIncludes_sub s.includes cv.includes).1 i his)⟩
theorem emitList_grows (W : Char → Bool) (env : Env) : ∀ (es : List Expr) (s : St) (ts : List Str) (s' : St),
    emitList W env es s = .ok (ts, s') →
    ∃ nd nb, s'.decls = s.decls ++ nd ∧ s'.stmts = s.stmts ++ nb ∧ ts.length = es.length ∧
      (∀ i ∈ s.includes, i ∈ s'.includes)
  | [], s, ts, s', h => by
    simp only [emitList, Except.ok.injEq, Prod.mk.injEq] at h
    obtain ⟨rfl, rfl⟩ := h
    exact ⟨[], [], by simp, by simp, rfl, fun i hi => hi⟩
  | e :: es, s, ts, s', h => by
    simp only [emitList] at h
    cases he : emit W env e s with
    | error x => simp [he] at h
    | ok r =>
      obtain ⟨t, s1⟩ := r
      simp only [he] at h
      cases hes : emitList W env es s1 with
      | error x => simp [hes] at h
      | ok r2 =>
        obtain ⟨ts2, s2⟩ := r2
        simp only [hes, Except.ok.injEq, Prod.mk.injEq] at h
        obtain ⟨rfl, rfl⟩ := h
        obtain ⟨d1, b1, hd1, hb1, hi1⟩ := emit_grows W env e s t s1 he
        obtain ⟨d2, b2, hd2, hb2, hl2, hi2⟩ := emitList_grows W env es s1 ts2 s2 hes
        exact ⟨d1 ++ d2, b1 ++ b2, by simp [hd2, hd1], by simp [hb2, hb1], by simp [hl2],
          fun i hi => hi2 i (hi1 i hi)⟩
end

theorem lookup_append_skip (xs b : List Binding) (s d w : Str) (h : s ≠ w) :
    lookup (xs ++ (s, d) :: b) w = lookup (xs ++ b) w := by
  induction xs with
  | nil => simp [lookup, h]
  | cons x xs ih =>
    obtain ⟨s', d'⟩ := x
    simp only [List.cons_append, lookup, ih]

/-- a later binding of a name already bound is never looked at -/
theorem lookup_append_dup (a b : List Binding) (s d w : Str) (hs : s ∈ keys a) :
    lookup (a ++ (s, d) :: b) w = lookup (a ++ b) w := by
  induction a with
  | nil => simp [keys] at hs
  | cons x xs ih =>
    obtain ⟨s', d'⟩ := x
    simp only [List.cons_append, lookup]
    by_cases hx : s' = w
    · simp [hx]
    · simp only [hx, if_false]
      by_cases hs' : s ∈ keys xs
      · exact ih hs'
      · have : s = s' := by
          simp only [keys, List.map_cons, List.mem_cons] at hs
          rcases hs with hs | hs
          · exact hs
          · exact absurd hs hs'
        subst this
        exact lookup_append_skip xs b s d w hx
end FaxVerif.C11
