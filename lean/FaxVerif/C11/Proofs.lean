/-
C11 — helper lemmas. Property theorems are in `Theorems.lean`.
-/
import FaxVerif.C11.Spec
namespace FaxVerif.C11

section PartA
variable (W : Char → Bool)

/-- every character of `l` is of kind `k` -/
def AllW (k : Bool) (l : Str) : Prop := ∀ c ∈ l, W c = k
/-- `l` is empty or starts with a character of kind `k` -/
def HeadIs (k : Bool) (l : Str) : Prop := ∀ c, l.head? = some c → W c = k

/-! ### tokenise -/

theorem detok_pushChar (c : Char) (ts : List Tok) : detok (pushChar W c ts) = c :: detok ts := by
  cases ts with
  | nil => simp [pushChar, detok]
  | cons t ts =>
    simp only [pushChar]
    split <;> simp [detok]

theorem detok_tokenise (l : Str) : detok (tokenise W l) = l := by
  induction l with
  | nil => simp [tokenise, detok]
  | cons c cs ih => simp [tokenise, detok_pushChar, ih]

theorem pushChar_head (c : Char) (ts : List Tok) :
    ∃ t ts', pushChar W c ts = t :: ts' ∧ t.isWord = W c := by
  cases ts with
  | nil => exact ⟨_, _, rfl, rfl⟩
  | cons t ts =>
    simp only [pushChar]
    split
    · next h => exact ⟨_, _, rfl, h⟩
    · exact ⟨_, _, rfl, rfl⟩

theorem tokenise_head (c : Char) (cs : Str) :
    ∃ t ts, tokenise W (c :: cs) = t :: ts ∧ t.isWord = W c := by
  simp only [tokenise]; exact pushChar_head W c _

/-- A maximal run in front of the line is the first token. -/
theorem tokenise_run (k : Bool) (x r : Str) (hx : x ≠ []) (hk : AllW W k x) (hr : HeadIs W (!k) r) :
    tokenise W (x ++ r) = ⟨k, x⟩ :: tokenise W r := by
  induction x with
  | nil => exact absurd rfl hx
  | cons c x ih =>
    have hc : W c = k := hk c (by simp)
    cases x with
    | nil =>
      simp only [List.cons_append, List.nil_append, tokenise]
      cases r with
      | nil => simp [tokenise, pushChar, hc]
      | cons d ds =>
        obtain ⟨t, ts, ht, htw⟩ := tokenise_head W d ds
        have hd : W d = !k := hr d (by simp)
        rw [ht]
        simp only [pushChar]
        have : ¬ t.isWord = k := by rw [htw, hd]; cases k <;> simp
        simp [hc, this]
    | cons c' x' =>
      have ih' := ih (by simp) (fun a ha => hk a (by simp [ha]))
      simp only [List.cons_append] at ih' ⊢
      simp only [tokenise] at ih' ⊢
      rw [ih']
      simp [pushChar, hc]

/-! ### `substSim`, left to right -/

theorem substSim_nil (ps : List Binding) : substSim W ps [] = [] := by
  simp [substSim, tokenise]

theorem substSim_run_word (ps : List Binding) (x r : Str) (hx : x ≠ []) (hk : AllW W true x)
    (hr : HeadIs W false r) :
    substSim W ps (x ++ r) = (lookup ps x).getD x ++ substSim W ps r := by
  simp [substSim, tokenise_run W true x r hx hk (by simpa using hr), substTok]

theorem substSim_run_gap (ps : List Binding) (x r : Str) (hx : x ≠ []) (hk : AllW W false x)
    (hr : HeadIs W true r) :
    substSim W ps (x ++ r) = x ++ substSim W ps r := by
  simp [substSim, tokenise_run W false x r hx hk (by simpa using hr), substTok]

theorem flatMap_pushChar_gap (ps : List Binding) (c : Char) (hc : W c = false) (ts : List Tok) :
    (pushChar W c ts).flatMap (substTok ps) = c :: ts.flatMap (substTok ps) := by
  cases ts with
  | nil => simp [pushChar, substTok, hc]
  | cons t ts =>
    simp only [pushChar]
    split
    · next h =>
      have : t.isWord = false := by rw [h, hc]
      simp [substTok, this]
    · simp [substTok, hc]

theorem substSim_cons_gap (ps : List Binding) (c : Char) (hc : W c = false) (cs : Str) :
    substSim W ps (c :: cs) = c :: substSim W ps cs := by
  simp [substSim, tokenise, flatMap_pushChar_gap W ps c hc]

/-- split a line into its leading word characters and the rest -/
theorem word_split (l : Str) : ∃ w r, l = w ++ r ∧ AllW W true w ∧ HeadIs W false r := by
  induction l with
  | nil => exact ⟨[], [], rfl, by simp [AllW], by simp [HeadIs]⟩
  | cons c cs ih =>
    by_cases hc : W c = true
    · obtain ⟨w, r, h, hw, hr⟩ := ih
      refine ⟨c :: w, r, by simp [h], ?_, hr⟩
      intro a ha
      rcases List.mem_cons.1 ha with rfl | ha
      · exact hc
      · exact hw a ha
    · refine ⟨[], c :: cs, rfl, by simp [AllW], ?_⟩
      intro a ha
      simp at ha
      subst ha
      simpa using hc

theorem word_split_cons (c : Char) (cs : Str) (hc : W c = true) :
    ∃ w r, c :: cs = (c :: w) ++ r ∧ AllW W true (c :: w) ∧ HeadIs W false r := by
  obtain ⟨w, r, h, hw, hr⟩ := word_split W (c :: cs)
  cases w with
  | nil =>
    simp at h
    subst h
    have := hr c (by simp)
    simp [hc] at this
  | cons a w =>
    simp at h
    obtain ⟨rfl, rfl⟩ := h
    exact ⟨w, r, by simp, hw, hr⟩

end PartA
end FaxVerif.C11
