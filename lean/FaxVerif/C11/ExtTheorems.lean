/-
C11 (extension) — property theorems about
  * the validation of a call site against a specification with ANY subset of the optional keys
    (`spec_call_accepted_iff`, `instance_object_irrelevant`, `no_placeholder_left`,
    `unbound_receiver_counterexample`);
  * receiver and arguments as ONE simultaneous substitution (`subst_receiver_simultaneous`,
    `two_pass_receiver_counterexample`);
  * the registration of the declared functions under their names in `apply_ast_transformations`
    (`registered_get`, `registered_agrees_with_mkTable`, `callback_is_own_spec`,
    `finder_registered`, `late_binding_counterexample`).
Nothing is bounded: specifications, call sites, texts, lists of declarations are arbitrary.
-/
import FaxVerif.C11.Theorems
import FaxVerif.C11.ExtModel
namespace FaxVerif.C11

/-! ## helper lemmas -/

theorem lookup_some_of_mem_keys (ps : List Binding) (w : Str) (h : w ∈ keys ps) :
    ∃ d, lookup ps w = some d := by
  induction ps with
  | nil => simp [keys] at h
  | cons b bs ih =>
    obtain ⟨s, d⟩ := b
    by_cases hs : s = w
    · exact ⟨d, by simp [lookup, hs]⟩
    · have : w ∈ keys bs := by
        simp only [keys, List.map_cons, List.mem_cons] at h
        rcases h with h | h
        · exact absurd h.symm hs
        · exact h
      obtain ⟨d', hd'⟩ := ih this
      exact ⟨d', by simp [lookup, hs, hd']⟩

theorem keys_zip (ks ts : List Str) (h : ks.length ≤ ts.length) : keys (ks.zip ts) = ks := by
  induction ks generalizing ts with
  | nil => simp [keys]
  | cons k ks ih =>
    cases ts with
    | nil => simp at h
    | cons t ts =>
      have := ih ts (by simpa using h)
      simp only [keys] at this
      simp [keys, this]

/-! ## the validation step -/

/-- **Which calls are accepted.**  For every specification — whatever subset of the optional keys
`method_object` / `instance_object` it carries — and every call site: `build_CPPCodeValue`
accepts exactly when the number of arguments is the declared one and the call is written
`f(...)` for a specification without `method_object`, `r.f(...)` on a plain name for one with
it.  (`instance_object` is not consulted: `instance_object_irrelevant`.) -/
theorem spec_call_accepted_iff (s : FSpec) (c : CallSite) :
    (∃ e, buildCPPCodeValue s c.f c.args = .ok e) ↔ SpecCallAccepted s c := by
  unfold SpecCallAccepted buildCPPCodeValue
  by_cases hl : c.args.length = s.args.length
  · simp only [hl, ne_eq, not_true_eq_false, if_false, true_and]
    cases hs : shape c.f <;> cases hm : s.methodObject <;> simp
  · simp [hl]

/-- non-vacuity: both directions occur for each of the four subsets of optional keys -/
example :
    let mk (mo io : Option Str) : FSpec :=
      { name := "f".toList, includes := [], args := ["x".toList], code := ["auto result = o->g(x);".toList],
        result := "result".toList, retType := "double".toList, isCollection := false, methodObject := mo, instanceObject := io }
    let meth : CallSite := ⟨.attr (.name "j".toList) "f".toList, [.const "1".toList]⟩
    let func : CallSite := ⟨.name "f".toList, [.const "1".toList]⟩
    (decide (SpecCallAccepted (mk none none) func) ∧ ¬ decide (SpecCallAccepted (mk none none) meth) ∧
     decide (SpecCallAccepted (mk none (some "T".toList)) func) ∧ ¬ decide (SpecCallAccepted (mk none (some "T".toList)) meth) ∧
     decide (SpecCallAccepted (mk (some "o".toList) none) meth) ∧ ¬ decide (SpecCallAccepted (mk (some "o".toList) none) func) ∧
     decide (SpecCallAccepted (mk (some "o".toList) (some "T".toList)) meth) ∧
     ¬ decide (SpecCallAccepted (mk (some "o".toList) (some "T".toList)) func)) := by decide

/-- The optional key `instance_object` changes nothing: same verdict, same injected value. -/
theorem instance_object_irrelevant (s : FSpec) (io : Option Str) (f : Expr) (args : List Expr) :
    buildCPPCodeValue { s with instanceObject := io } f args = buildCPPCodeValue s f args := rfl

/-- **No placeholder is left.**  When a call is accepted, every placeholder of the code template —
the method-object word (receiver) and every formal parameter — is bound in the replacement list
`process_ast_node` builds, for every receiver text and every list of argument texts (one per
argument); hence every whole-word occurrence of a placeholder in every template line is replaced by
the text bound to it (`substTok` is what `subst_sim` proves the code computes per word). -/
theorem no_placeholder_left (W : Char → Bool) (s : FSpec) (c : CallSite) (e : Expr)
    (h : buildCPPCodeValue s c.f c.args = .ok e) :
    ∃ cv, e = .cpp cv c.args ∧ cv.code = s.code ∧
      ∀ (recvText : Str) (texts : List Str), texts.length = c.args.length →
        (∀ p ∈ placeholders s, ∃ d, lookup (replList cv (recvFor cv recvText) texts) p = some d) ∧
        (∀ line ∈ cv.code, ∀ t ∈ tokenise W line, t.isWord = true → t.text ∈ placeholders s →
          ∃ d, lookup (replList cv (recvFor cv recvText) texts) t.text = some d ∧
               substTok (replList cv (recvFor cv recvText) texts) t = d) := by
  have hacc := (spec_call_accepted_iff s c).1 ⟨e, h⟩
  have hform := build_ok_form s c.f c.args e h
  refine ⟨_, hform, rfl, ?_⟩
  intro recvText texts hlen
  have hbound : ∀ p ∈ placeholders s, ∃ d,
      lookup (replList (s.toCodeValue (expectedInstance s c.f)) (recvFor (s.toCodeValue (expectedInstance s c.f)) recvText) texts) p = some d := by
    intro p hp
    apply lookup_some_of_mem_keys
    obtain ⟨hl, hstyle⟩ := hacc
    have hz : keys (s.args.zip texts) = s.args := keys_zip s.args texts (by omega)
    rcases hstyle with ⟨hm, n, hn⟩ | ⟨hm, r, a, hr⟩
    · have hp' : p ∈ s.args := by simpa [placeholders, hm] using hp
      simp only [keys] at hz
      simp [replList, recvFor, FSpec.toCodeValue, expectedInstance, hn, hm, keys, hz, hp']
    · cases hmo : s.methodObject with
      | none => exact absurd hmo hm
      | some m =>
        have hp' : p = m ∨ p ∈ s.args := by simpa [placeholders, hmo] using hp
        simp only [keys] at hz
        simp [replList, recvFor, FSpec.toCodeValue, expectedInstance, hr, hmo, keys, hz, hp']
  refine ⟨hbound, ?_⟩
  intro line _ t _ hw hp
  obtain ⟨d, hd⟩ := hbound t.text hp
  exact ⟨d, hd, by simp [substTok, hw, hd]⟩

/-- Why a method must not be accepted when it is invoked like a function (and why the receiver
binding must be recorded for every accepted method call): with a method specification that
gives `method_object` but not the optional `instance_object`, the function-style call is refused —
were it accepted (the injected value without receiver binding), the generated line would keep
the placeholder `the_jet`. -/
theorem unbound_receiver_counterexample :
    let s : FSpec :=
      { name := "scaledPt".toList, includes := ["scaled.h".toList], args := ["factor".toList],
        code := ["auto result = the_jet->pt() * factor;".toList], result := "result".toList,
        retType := "double".toList, isCollection := false, methodObject := some "the_jet".toList, instanceObject := none }
    isOk (buildCPPCodeValue s (.name "scaledPt".toList) [.const "2.5".toList]) = false ∧
    blockLines asciiWord (s.toCodeValue none) (replList (s.toCodeValue none) none ["2.5".toList]) =
      ["auto result = the_jet->pt() * 2.5;".toList] ∧
    blockLines asciiWord (s.toCodeValue (some ("the_jet".toList, "j".toList)))
        (replList (s.toCodeValue (some ("the_jet".toList, "j".toList))) (some "i_obj1".toList) ["2.5".toList]) =
      ["auto result = i_obj1->pt() * 2.5;".toList] := by
  decide

/-! ## receiver and arguments are substituted simultaneously -/

/-- **Receiver + arguments: one substitution.**  For a method call the lines of the injected
block are the template lines under the simultaneous whole-word substitution of the list
`(method-object word ↦ receiver text) :: (formal ↦ argument text)…`; in particular every
whole-word occurrence of the method-object word becomes the receiver's C++ text VERBATIM — the
receiver's text is never scanned for formal parameter names, whatever it contains. -/
theorem subst_receiver_simultaneous (W : Char → Bool) (cv : CodeValue) (mo r recvText : Str)
    (texts : List Str) (hwf : cvWellFormed W cv = true) (h : cv.instance_ = some (mo, r)) :
    blockLines W cv (replList cv (some recvText) texts) =
      cv.code.map (fun l => withSemi (substSim W ((mo, recvText) :: cv.args.zip texts) l)) ∧
    ∀ a b : Str, LastIs W false a → HeadIs W false b →
      replaceWholeWords W (replList cv (some recvText) texts) (a ++ mo ++ b) =
        replaceWholeWords W (replList cv (some recvText) texts) a ++ recvText ++
          replaceWholeWords W (replList cv (some recvText) texts) b := by
  constructor
  · rw [blockLines_eq W cv hwf (some recvText) texts]
    simp [expectedLines, replList, h]
  · intro a b ha hb
    have hmo : isWordStr W mo = true := by
      have := hwf
      simp only [cvWellFormed, Bool.and_eq_true, h] at this
      exact this.2
    have hmo' : mo ≠ [] ∧ AllW W true mo := by simpa [isWordStr, AllW] using hmo
    have := occurrence_replaced W (replList cv (some recvText) texts)
      (wordNames_replList W cv hwf (some recvText) texts) a mo b hmo'.1 hmo'.2 ha hb
    rw [this, receiver_bound cv mo r recvText texts h]
    rfl

/-- non-vacuity, and the case the property is about: the receiver's text `i_obj->parent()`
contains the formal parameter name `parent` -/
example :
    let cv : CodeValue :=
      { varPrefix := "dist".toList, includes := [], args := ["parent".toList],
        code := ["auto result = me->distanceTo(parent) + parent;".toList], result := "result".toList,
        retType := "double".toList, isCollection := false, instance_ := some ("me".toList, "p".toList) }
    cvWellFormed asciiWord cv = true ∧
    blockLines asciiWord cv (replList cv (some "i_obj->parent()".toList) ["1.5".toList]) =
      ["auto result = i_obj->parent()->distanceTo(1.5) + 1.5;".toList] := by decide

/-- The two-pass variant (receiver into the template first, arguments into the result) violates
the substitution clause on exactly that input: the argument is substituted INTO the receiver. -/
theorem two_pass_receiver_counterexample :
    let line := "auto result = me->distanceTo(parent) + parent;".toList
    let recvB : Binding := ("me".toList, "i_obj->parent()".toList)
    let argBs : List Binding := [("parent".toList, "1.5".toList)]
    substTwoPass asciiWord recvB argBs line = "auto result = i_obj->1.5()->distanceTo(1.5) + 1.5;".toList ∧
    ¬ SubstSpec asciiWord (recvB :: argBs) line (substTwoPass asciiWord recvB argBs line) := by
  decide

/-! ## registration of the declared functions -/

theorem get_dictSet (t : Table) (k : Str) (h : Handler) (n : Str) :
    (dictSet t k h).get? n = if k = n then some h else t.get? n := by
  induction t with
  | nil => simp [dictSet, Table.get?]
  | cons e t ih =>
    obtain ⟨k', h'⟩ := e
    by_cases hk : k' = k
    · subst hk
      by_cases hn : k' = n <;> simp [dictSet, Table.get?, hn]
    · by_cases hn : k' = n
      · subst hn
        have hk2 : ¬ k = k' := fun h' => hk h'.symm
        simp [dictSet, Table.get?, hk, hk2]
      · simp [dictSet, Table.get?, hk, hn, ih]

theorem get_none_of_not_mem (t : Table) (n : Str) (h : n ∉ t.map (·.1)) : t.get? n = none := by
  induction t with
  | nil => rfl
  | cons e t ih =>
    obtain ⟨k, hd⟩ := e
    simp only [List.map_cons, List.mem_cons, not_or] at h
    have hk : k ≠ n := fun h' => h.1 h'.symm
    simp [Table.get?, hk, ih h.2]

theorem keys_dictSet (t : Table) (k : Str) (h : Handler) :
    (dictSet t k h).map (·.1) = if k ∈ t.map (·.1) then t.map (·.1) else t.map (·.1) ++ [k] := by
  induction t with
  | nil => simp [dictSet]
  | cons e t ih =>
    obtain ⟨k', h'⟩ := e
    by_cases hk : k' = k
    · subst hk; simp [dictSet]
    · have hk' : ¬ k = k' := fun h => hk h.symm
      by_cases hm : k ∈ t.map (·.1)
      · simp [dictSet, hk, ih, hm]
      · simp [dictSet, hk, ih, hm, hk']

theorem nodup_dictSet (t : Table) (k : Str) (h : Handler) (hn : (t.map (·.1)).Nodup) :
    ((dictSet t k h).map (·.1)).Nodup := by
  rw [keys_dictSet]
  by_cases hm : k ∈ t.map (·.1)
  · simpa [hm] using hn
  · simp only [hm, if_false]
    rw [List.nodup_append]
    refine ⟨hn, by simp, ?_⟩
    intro a ha b hb
    simp only [List.mem_singleton] at hb
    subst hb
    exact fun hab => hm (hab ▸ ha)

theorem get_dictUpdate (d o : Table) (hn : (o.map (·.1)).Nodup) (n : Str) :
    (dictUpdate d o).get? n = match o.get? n with
      | some h => some h
      | none => d.get? n := by
  induction o generalizing d with
  | nil => simp [dictUpdate, Table.get?]
  | cons e o ih =>
    obtain ⟨k, h⟩ := e
    simp only [List.map_cons, List.nodup_cons] at hn
    rw [dictUpdate, ih _ hn.2, get_dictSet]
    by_cases hk : k = n
    · subst hk
      simp [Table.get?, get_none_of_not_mem o k hn.1]
    · simp [Table.get?, hk]

theorem callbackDict_fold (specs : List FSpec) (d : Table) (n : Str) :
    (specs.foldl (fun d s => dictSet d s.name (Handler.spec s)) d).get? n =
      match lastNamed n specs with
      | some s => some (.spec s)
      | none => d.get? n := by
  induction specs generalizing d with
  | nil => simp [lastNamed]
  | cons s r ih =>
    rw [List.foldl_cons, ih, get_dictSet]
    simp only [lastNamed]
    cases lastNamed n r with
    | some s' => rfl
    | none => by_cases hs : s.name = n <;> simp [hs]

theorem callbackDict_nodup (specs : List FSpec) (d : Table) (hd : (d.map (·.1)).Nodup) :
    ((specs.foldl (fun d s => dictSet d s.name (Handler.spec s)) d).map (·.1)).Nodup := by
  induction specs generalizing d with
  | nil => simpa using hd
  | cons s r ih => exact ih _ (nodup_dictSet d s.name _ hd)

/-- **What is registered under a name**: the callback of the LAST function declared under that
name (a later `add_cpp_function` replaces an earlier one of the same name and a built-in of that
name), the built-in otherwise — for every list of metadata entries, any number of functions. -/
theorem registered_get (builtins : Table) (mds : List Md) (n : Str) :
    (registered builtins mds).get? n =
      match lastNamed n (funcsOf mds) with
      | some s => some (.spec s)
      | none => builtins.get? n := by
  unfold registered callbackDict
  rw [get_dictUpdate _ _ (callbackDict_nodup _ [] (by simp)), callbackDict_fold]
  cases lastNamed n (funcsOf mds) <;> simp [Table.get?]

theorem get_mkTable (builtins : Table) (specs : List FSpec) (n : Str) :
    (mkTable builtins specs).get? n =
      match lastNamed n specs with
      | some s => some (.spec s)
      | none => builtins.get? n := by
  induction specs generalizing builtins with
  | nil => simp [mkTable, lastNamed]
  | cons s r ih =>
    have : mkTable builtins (s :: r) = mkTable ((s.name, Handler.spec s) :: builtins) r := by
      simp [mkTable]
    rw [this, ih]
    simp only [lastNamed]
    cases lastNamed n r with
    | some s' => rfl
    | none => by_cases hs : s.name = n <;> simp [Table.get?, hs]

/-- The registration as the code performs it (dict copy, comprehension, `update`) and the table
the query model `runQuery` uses (`mkTable`) bind every name to the same handler. -/
theorem registered_agrees_with_mkTable (builtins : Table) (mds : List Md) (n : Str) :
    (registered builtins mds).get? n = (mkTable builtins (funcsOf mds)).get? n := by
  rw [registered_get, get_mkTable]

theorem lastNamed_sound (n : Str) (l : List FSpec) (s : FSpec) (h : lastNamed n l = some s) :
    s ∈ l ∧ s.name = n := by
  induction l with
  | nil => simp [lastNamed] at h
  | cons a r ih =>
    simp only [lastNamed] at h
    cases hr : lastNamed n r with
    | some s' =>
      simp only [hr, Option.some.injEq] at h
      subst h
      exact ⟨List.mem_cons_of_mem _ (ih hr).1, (ih hr).2⟩
    | none =>
      simp only [hr] at h
      by_cases ha : a.name = n
      · simp only [ha, if_true, Option.some.injEq] at h
        subst h
        exact ⟨List.mem_cons_self, ha⟩
      · simp [ha] at h

theorem lastNamed_complete (l : List FSpec) (s : FSpec) (h : s ∈ l) : ∃ s', lastNamed s.name l = some s' := by
  induction l with
  | nil => simp at h
  | cons a r ih =>
    simp only [lastNamed]
    cases hr : lastNamed s.name r with
    | some s' => exact ⟨s', rfl⟩
    | none =>
      rcases List.mem_cons.1 h with h | h
      · subst h; exact ⟨s, by simp⟩
      · obtain ⟨s', hs'⟩ := ih h
        rw [hr] at hs'
        cases hs'

/-- **Each declared function's callback is its own specification.**  In a query that declares
any number of functions, a function whose name is declared once is found under its name with a
callback that builds from ITS OWN specification (not from that of a function declared before or
after it): calling the registered callback is `build_CPPCodeValue` of that specification. -/
theorem callback_is_own_spec (builtins : Table) (mds : List Md) (s : FSpec) (hs : s ∈ funcsOf mds)
    (huniq : ∀ s' ∈ funcsOf mds, s'.name = s.name → s' = s) :
    (registered builtins mds).get? s.name = some (.spec s) ∧
    ∀ f args, ((registered builtins mds).get? s.name).map (fun h => applyHandler h f args) =
      some (buildCPPCodeValue s f args) := by
  have hget : (registered builtins mds).get? s.name = some (.spec s) := by
    rw [registered_get]
    obtain ⟨s', hs'⟩ := lastNamed_complete _ s hs
    have := lastNamed_sound _ _ _ hs'
    rw [hs', huniq s' this.1 this.2]
  exact ⟨hget, fun f args => by rw [hget]; rfl⟩

mutual
theorem finder_congr (t t' : Table) (h : ∀ n, t.get? n = t'.get? n) : ∀ e : Expr, finder t e = finder t' e
  | .name _ => by simp [finder]
  | .const _ => by simp [finder]
  | .opaque _ => by simp [finder]
  | .attr o a => by simp only [finder, finder_congr t t' h o]
  | .binop op l r => by simp only [finder, finder_congr t t' h l, finder_congr t t' h r]
  | .cpp cv args => by simp only [finder, finderList_congr t t' h args]
  | .call f args => by simp only [finder, finder_congr t t' h f, finderList_congr t t' h args, h]
theorem finderList_congr (t t' : Table) (h : ∀ n, t.get? n = t'.get? n) :
    ∀ es : List Expr, finderList t es = finderList t' es
  | [] => by simp [finderList]
  | e :: es => by simp only [finderList, finder_congr t t' h e, finderList_congr t t' h es]
end

/-- **Call sites are discovered through the registered table.**  The finder run with the table
`apply_ast_transformations` registers (dict copy, comprehension over the metadata, `update`) rewrites
every expression exactly as the query model does with `mkTable` — so `query_sound_partial`,
`call_sites_found_partial`, `finder_rejects_iff` speak about the registration path of the code. -/
theorem finder_registered (builtins : Table) (mds : List Md) (es : List Expr) :
    finderList (registered builtins mds) es = finderList (mkTable builtins (funcsOf mds)) es :=
  finderList_congr _ _ (registered_agrees_with_mkTable builtins mds) es

/-- A recognised call of a function declared once becomes the injected code of ITS OWN
specification: `f(args)` (or `r.f(args)`) under the registered table is `build_CPPCodeValue` of
that function's specification on the rewritten arguments. -/
theorem call_site_uses_own_spec (builtins : Table) (mds : List Md) (s : FSpec) (hs : s ∈ funcsOf mds)
    (huniq : ∀ s' ∈ funcsOf mds, s'.name = s.name → s' = s) (f : Expr) (args args' : List Expr)
    (hf : f = .name s.name ∨ ∃ r, f = .attr (.name r) s.name)
    (ha : finderList (registered builtins mds) args = .ok args') :
    finder (registered builtins mds) (.call f args) = buildCPPCodeValue s f args' := by
  have hget := (callback_is_own_spec builtins mds s hs huniq).1
  rcases hf with rfl | ⟨r, rfl⟩
  · simp [finder, ha, calleeKey, shape, hget, applyHandler]
  · simp [finder, ha, calleeKey, shape, hget, applyHandler]

/-- non-vacuity: three functions, two with the same arity; each is its own callback -/
example :
    let mk (n a : String) : FSpec :=
      { name := n.toList, includes := [(n ++ ".h").toList], args := [a.toList],
        code := [("auto result = compute_" ++ n ++ "(" ++ a ++ ");").toList], result := "result".toList,
        retType := "double".toList, isCollection := false, methodObject := none }
    let mds := [Md.func (mk "tagA" "x"), .other, .func (mk "tagB" "y"), .func (mk "tagC" "u")]
    (registered [] mds).get? "tagA".toList = some (.spec (mk "tagA" "x")) ∧
    (registered [] mds).get? "tagB".toList = some (.spec (mk "tagB" "y")) ∧
    (registered [] mds).get? "tagC".toList = some (.spec (mk "tagC" "u")) := by decide

/-- Callbacks that close over the loop variable instead (every callback is the LAST
specification) break it: the first of two declared functions is found under its name with the
second one's specification. -/
theorem late_binding_counterexample :
    let mk (n a : String) : FSpec :=
      { name := n.toList, includes := [(n ++ ".h").toList], args := [a.toList],
        code := [("auto result = compute_" ++ n ++ "(" ++ a ++ ");").toList], result := "result".toList,
        retType := "double".toList, isCollection := false, methodObject := none }
    let mds := [Md.func (mk "tagA" "x"), .func (mk "tagB" "y")]
    (registeredLate [] mds).get? "tagA".toList = some (.spec (mk "tagB" "y")) ∧
    (registered [] mds).get? "tagA".toList = some (.spec (mk "tagA" "x")) := by decide

end FaxVerif.C11
