/-
C11, Part E — helper lemmas about angles on a grid. Property theorems are in `Theorems.lean`.
-/
import FaxVerif.C11.Angle
namespace FaxVerif.C11.Angle

theorem wrap_lower (h : Nat) (hh : 0 < h) (x : Int) : -(h : Int) ≤ wrap h x := by
  unfold wrap
  have := Int.emod_nonneg (x + h) (b := 2 * (h : Int)) (by omega)
  omega

theorem wrap_upper (h : Nat) (hh : 0 < h) (x : Int) : wrap h x < h := by
  unfold wrap
  have := Int.emod_lt_of_pos (x + h) (b := 2 * (h : Int)) (by omega)
  omega

theorem wrap_congr (h : Nat) (x : Int) : ∃ k : Int, wrap h x = x + 2 * (h : Int) * k := by
  refine ⟨-((x + h) / (2 * (h : Int))), ?_⟩
  unfold wrap
  have := Int.emod_add_mul_ediv (x + h) (2 * (h : Int))
  rw [Int.mul_neg]
  omega

theorem wrap_of_range (h : Nat) (r : Int) (h1 : -(h : Int) ≤ r) (h2 : r < h) : wrap h r = r := by
  unfold wrap
  rw [Int.emod_eq_of_lt (by omega) (by omega)]
  omega

theorem wrap_add_turns (h : Nat) (x k : Int) : wrap h (x + 2 * (h : Int) * k) = wrap h x := by
  unfold wrap
  have : x + 2 * (h : Int) * k + h = (x + h) + 2 * (h : Int) * k := by omega
  rw [this, Int.add_mul_emod_self_left]

theorem wrap_unique' (h : Nat) (x r k : Int) (h1 : -(h : Int) ≤ r) (h2 : r < h)
    (hk : r = x + 2 * (h : Int) * k) : r = wrap h x := by
  rw [← wrap_of_range h r h1 h2, hk, wrap_add_turns]

/-! ### ROOT's two loops -/

theorem wrap_down (h : Nat) : ∀ (n : Nat) (x : Int), wrap h (down h n x) = wrap h x
  | 0, x => rfl
  | n + 1, x => by
    simp only [down]
    split
    · rw [wrap_down h n]
      have : x - 2 * (h : Int) = x + 2 * (h : Int) * (-1) := by omega
      rw [this, wrap_add_turns]
    · rfl

theorem wrap_up (h : Nat) : ∀ (n : Nat) (x : Int), wrap h (up h n x) = wrap h x
  | 0, x => rfl
  | n + 1, x => by
    simp only [up]
    split
    · rw [wrap_up h n]
      have : x + 2 * (h : Int) = x + 2 * (h : Int) * 1 := by omega
      rw [this, wrap_add_turns]
    · rfl

/-- with enough fuel the first loop ends below the half turn (`2h ≥ 2` per iteration) -/
theorem down_lt (h : Nat) (hh : 0 < h) : ∀ (n : Nat) (x : Int), x < (h : Int) + 2 * (n : Int) → down h n x < h
  | 0, x, hx => by simp only [down]; omega
  | n + 1, x, hx => by
    simp only [down]
    split
    · exact down_lt h hh n _ (by omega)
    · omega

/-- the first loop never goes below a bound that is below the start and below `-h` -/
theorem down_lower (h : Nat) (b : Int) (hb : b ≤ -(h : Int)) : ∀ (n : Nat) (x : Int), b ≤ x → b ≤ down h n x
  | 0, x, hx => hx
  | n + 1, x, hx => by
    simp only [down]
    split
    · exact down_lower h b hb n _ (by omega)
    · exact hx

theorem up_lt (h : Nat) (hh : 0 < h) : ∀ (n : Nat) (y : Int), y < h → up h n y < h
  | 0, y, hy => hy
  | n + 1, y, hy => by
    simp only [up]
    split
    · exact up_lt h hh n _ (by omega)
    · exact hy

theorem up_ge (h : Nat) (hh : 0 < h) : ∀ (n : Nat) (y : Int), -(h : Int) - 2 * (n : Int) ≤ y → -(h : Int) ≤ up h n y
  | 0, y, hy => by simp only [up]; omega
  | n + 1, y, hy => by
    simp only [up]
    split
    · exact up_ge h hh n _ (by omega)
    · omega

theorem phiMpiPi_eq_wrap (h : Nat) (hh : 0 < h) (x : Int) : phiMpiPi h x = wrap h x := by
  unfold phiMpiPi
  have d1 := down_lt h hh (x.natAbs + 1) x (by omega)
  have d2 := down_lower h (-(h : Int) - x.natAbs) (by omega) (x.natAbs + 1) x (by omega)
  have u1 := up_lt h hh (x.natAbs + 1) _ d1
  have u2 := up_ge h hh (x.natAbs + 1) (down h (x.natAbs + 1) x) (by omega)
  rw [← wrap_of_range h _ u2 u1, wrap_up, wrap_down]

/-! ### symmetry -/

theorem wrap_neg_sq (h : Nat) (hh : 0 < h) (d : Int) : wrap h (-d) * wrap h (-d) = wrap h d * wrap h d := by
  obtain ⟨k, hk⟩ := wrap_congr h d
  have l := wrap_lower h hh d
  have u := wrap_upper h hh d
  by_cases hw : wrap h d = -(h : Int)
  · -- the seam: both differences are the half turn
    have e : -d = -(h : Int) + 2 * (h : Int) * (k + 1) := by
      rw [Int.mul_add]; omega
    have : wrap h (-d) = -(h : Int) := by
      rw [e, wrap_add_turns, wrap_of_range h _ (by omega) (by omega)]
    rw [this, hw]
  · have e : -d = -(wrap h d) + 2 * (h : Int) * k := by omega
    have : wrap h (-d) = -(wrap h d) := by
      rw [e, wrap_add_turns, wrap_of_range h _ (by omega) (by omega)]
    rw [this, Int.neg_mul_neg]

end FaxVerif.C11.Angle
