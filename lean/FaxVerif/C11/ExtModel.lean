/-
C11 (extension) — three more pieces of the code as it is, as executable definitions:

  * the VALIDATION step of `build_CPPCodeValue` seen from the metadata: a specification is any choice of
    the optional keys (`method_object`, `instance_object`; `FSpec.instanceObject` is carried and read by
    nothing) and a call site is a callee shape plus a number of arguments — `placeholders` are the
    words of the code template that stand for something at the call site (the method-object word and
    the formal parameters);
  * the substitution of `process_ast_node` as ONE replacement list (receiver first, then formals) and,
    for contrast, the two-pass variant (receiver substituted into the template first, the arguments
    into the result) that the property forbids: `substTwoPass`;
  * the REGISTRATION of the declared functions in `executor.apply_ast_transformations`:
        method_names = dict(self._method_names)
        method_names.update({md.name: (lambda call_node, md=md: build_CPPCodeValue(md, call_node)) for md in cpp_functions if …})
    as Python-dict operations on an association list (`dictSet`: assignment to an existing key keeps
    the key's position, a new key is appended), `registered`; and the late-binding variant (every
    callback closes over the loop variable, i.e. is the LAST specification) `registeredLate`.

No Mathlib/Batteries import.
-/
import FaxVerif.C11.Spec
namespace FaxVerif.C11

/-! ## validation of a call site against a specification -/

/-- the words of the code template that are bound at a call site: the method-object word (the
receiver's placeholder), when the specification has one, and the formal parameters -/
def placeholders (s : FSpec) : List Str := s.methodObject.toList ++ s.args

/-- what `build_CPPCodeValue` looks at in a call site -/
structure CallSite where
  f : Expr
  args : List Expr

/-- the exact acceptance condition, spelled out: declared number of arguments, and
`f(...)` for a specification without `method_object` / `r.f(...)` on a plain name for one with it.
`instance_object` does not occur. -/
def SpecCallAccepted (s : FSpec) (c : CallSite) : Prop :=
  c.args.length = s.args.length ∧
  ((s.methodObject = none ∧ ∃ n, shape c.f = .name n) ∨
   (s.methodObject ≠ none ∧ ∃ r a, shape c.f = .attrName r a))

instance (s : FSpec) (c : CallSite) : Decidable (SpecCallAccepted s c) := by
  unfold SpecCallAccepted
  have d1 : Decidable (∃ n, shape c.f = .name n) := by
    cases h : shape c.f with
    | name n => exact isTrue ⟨n, rfl⟩
    | attrName r a => exact isFalse (by intro ⟨n, hn⟩; cases hn)
    | attrOther a => exact isFalse (by intro ⟨n, hn⟩; cases hn)
    | other => exact isFalse (by intro ⟨n, hn⟩; cases hn)
  have d2 : Decidable (∃ r a, shape c.f = .attrName r a) := by
    cases h : shape c.f with
    | name n => exact isFalse (by intro ⟨r, a, hn⟩; cases hn)
    | attrName r a => exact isTrue ⟨r, a, rfl⟩
    | attrOther a => exact isFalse (by intro ⟨r, a, hn⟩; cases hn)
    | other => exact isFalse (by intro ⟨r, a, hn⟩; cases hn)
  exact inferInstance

/-- the receiver's C++ text as `process_ast_node` needs it: present exactly when the accepted call
recorded a receiver binding -/
def recvFor (cv : CodeValue) (recvText : Str) : Option Str :=
  match cv.instance_ with
  | some _ => some recvText
  | none => none

/-! ## receiver and arguments: one substitution, not two -/

/-- The forbidden variant: the receiver is substituted into the template in a first pass and the
arguments into the RESULT of that pass, so the receiver's own C++ text is scanned for formal
parameter names. -/
def substTwoPass (W : Char → Bool) (recvB : Binding) (argBs : List Binding) (line : Str) : Str :=
  replaceWholeWords W argBs (replaceWholeWords W [recvB] line)

/-! ## registration of the declared functions under their names -/

/-- one entry of `cpp_functions` (what `process_metadata` returns): a function specification, or
something the comprehension skips (inject blocks, job scripts, …; event-collection specifications
are registered in the same dictionary with a collection callback — property C06) -/
inductive Md where
  | func (s : FSpec)
  | other
deriving Repr, DecidableEq

def funcsOf : List Md → List FSpec
  | [] => []
  | .func s :: r => s :: funcsOf r
  | .other :: r => funcsOf r

/-- `d[k] = h` on a Python dict kept as an association list in insertion order -/
def dictSet : Table → Str → Handler → Table
  | [], k, h => [(k, h)]
  | (k', h') :: t, k, h => if k' = k then (k', h) :: t else (k', h') :: dictSet t k h

/-- `d.update(other)` -/
def dictUpdate : Table → Table → Table
  | d, [] => d
  | d, (k, h) :: r => dictUpdate (dictSet d k h) r

/-- `{md.name: (lambda call_node, md=md: build_CPPCodeValue(md, call_node)) for md in …}`: the
default argument `md=md` freezes THIS specification in the callback; the comprehension is a
left-to-right sequence of dict assignments -/
def callbackDict (specs : List FSpec) : Table :=
  specs.foldl (fun d s => dictSet d s.name (Handler.spec s)) []

/-- `method_names` after `apply_ast_transformations` has registered the declared functions -/
def registered (builtins : Table) (mds : List Md) : Table :=
  dictUpdate builtins (callbackDict (funcsOf mds))

/-- the late-binding variant: `lambda call_node: build_CPPCodeValue(spec, call_node)` created in a
loop — every callback sees the loop variable's FINAL value -/
def callbackDictLate (specs : List FSpec) : Table :=
  match specs.getLast? with
  | none => []
  | some last => specs.foldl (fun d s => dictSet d s.name (Handler.spec last)) []

def registeredLate (builtins : Table) (mds : List Md) : Table :=
  dictUpdate builtins (callbackDictLate (funcsOf mds))

/-- what the harness can observe of a registered callback: its behaviour on probe calls determines
the specification up to the key nothing reads -/
def Handler.observable : Handler → Handler
  | .spec s => .spec { s with instanceObject := none }
  | h => h

/-- The registration clause as a decidable predicate over (built-ins, declared metadata, observed
table entries `(name, what is registered under it)`): under every observed name the code registered
what `registered` says. -/
def RegistrationSpec (builtins : Table) (mds : List Md) (obs : List (Str × Option Handler)) : Prop :=
  ∀ p ∈ obs, ((registered builtins mds).get? p.1).map Handler.observable = p.2.map Handler.observable

instance (builtins : Table) (mds : List Md) (obs : List (Str × Option Handler)) :
    Decidable (RegistrationSpec builtins mds obs) := by
  unfold RegistrationSpec; exact inferInstance

/-- the last specification declared under a name -/
def lastNamed (n : Str) : List FSpec → Option FSpec
  | [] => none
  | s :: r =>
    match lastNamed n r with
    | some s' => some s'
    | none => if s.name = n then some s else none

end FaxVerif.C11
