/-
C11 — property theorems.  Injected C++ functions are applied hygienically at every call site.

Every statement quantifies over all specifications / lines / argument texts / call trees; nothing
is bounded.  `W` is the class of word characters: all of Part A holds for *every* `W`, the
instance used for ASCII text is `asciiWord` = `[A-Za-z0-9_]`.  Helper lemmas are in `Proofs.lean`.

Where the full statement is false of the code there is a `_counterexample` on a literal and the
proved statement is named `_partial` with the excluded inputs as a decidable hypothesis:
  * method-style call of an injected function on a receiver that is not a plain name
    (`ReceiverPlain`; `receiver_not_name_counterexample`);
  * result-variable names glue a counter to the function name without separator, so names
    ending in a digit can collide (`PrefixOk`; `fresh_counterexample`);
  * parameter names that are not words of the regex class (`WordNames`/`WF`; outside ASCII the
    regex class `\w` and the identifier class differ: `nonword_name_counterexample`).
-/
import FaxVerif.C11.Proofs
import FaxVerif.C11.AngleProofs
import FaxVerif.Generated.C11Builtins
namespace FaxVerif.C11

/-! ## Part A — substitution of the arguments (`_replace_whole_words`) -/

/-- What "whole word" means: `tokenise` cuts the line into non-empty runs, each of word
characters only or of non-word characters only, neighbouring runs of different kind (so the
runs are maximal), and nothing is lost. -/
theorem tokenise_spec (W : Char → Bool) (l : Str) :
    detok (tokenise W l) = l ∧ (∀ t ∈ tokenise W l, TokOk W t) ∧ Alternating (tokenise W l) :=
  ⟨detok_tokenise W l, tokenise_ok W l, tokenise_alt W l⟩

/-- …and that decomposition is the only one with these properties. -/
theorem tokenise_is_unique (W : Char → Bool) (ts : List Tok) (hok : ∀ t ∈ ts, TokOk W t)
    (halt : Alternating ts) : tokenise W (detok ts) = ts :=
  tokenise_unique W ts hok halt

/-- **Simultaneous whole-word substitution.**  The code (dict with first binding winning,
alternatives sorted by length, one combined regex `\bs1\b|\bs2\b|…`, `re.sub` with a function
replacement) computes exactly the map over word / non-word runs that replaces each word run
that is a parameter by that parameter's argument text — for every line, every list of
bindings whose source names are words, every replacement text (which is never inspected). -/
theorem subst_sim (W : Char → Bool) (ps : List Binding) (h : WordNames W ps) (line : Str) :
    SubstSpec W ps line (replaceWholeWords W ps line) :=
  replaceWholeWords_eq W ps h line

/-- Only whole words, and every whole word: the output is the concatenation of one piece per
run of the line; the piece of a word run that is a parameter is the text bound to it (first
binding), the piece of every other run — non-word text, words that are not parameters, in
particular longer words that merely contain a parameter name — is the run itself. -/
theorem only_whole_words (W : Char → Bool) (ps : List Binding) (h : WordNames W ps) (line : Str) :
    ∃ piece : Tok → Str,
      (∀ t, (t.isWord = true ∧ lookup ps t.text = some (piece t)) ∨
            ((t.isWord = false ∨ lookup ps t.text = none) ∧ piece t = t.text)) ∧
      replaceWholeWords W ps line = (tokenise W line).flatMap piece := by
  refine ⟨substTok ps, ?_, ?_⟩
  · intro t
    unfold substTok
    cases hw : t.isWord with
    | false => simp
    | true =>
      cases hl : lookup ps t.text with
      | none => simp
      | some d => simp
  · rw [replaceWholeWords_eq W ps h line, substSim]

/-- Cutting the line at a whole-word occurrence `w` (text before does not end in a word
character, text after does not start with one): the occurrence is replaced by *its own*
argument text `d`, put in verbatim whatever it contains (it is never scanned again, so an
argument mentioning another parameter is not captured), and the rest of the line is treated
independently of it. If `w` is not a parameter it is kept. -/
theorem occurrence_replaced (W : Char → Bool) (ps : List Binding) (h : WordNames W ps)
    (a w b : Str) (hw : w ≠ []) (hwk : AllW W true w) (ha : LastIs W false a) (hb : HeadIs W false b) :
    replaceWholeWords W ps (a ++ w ++ b) =
      replaceWholeWords W ps a ++ (lookup ps w).getD w ++ replaceWholeWords W ps b := by
  simp only [replaceWholeWords_eq W ps h]
  rw [List.append_assoc, substSim_append W ps a.length a (w ++ b) rfl (Or.inl ha),
    substSim_run_word W ps w b hw hwk hb, List.append_assoc]

/-- Text outside words is never touched and separates what is on its two sides. -/
theorem gap_untouched (W : Char → Bool) (ps : List Binding) (h : WordNames W ps)
    (a g b : Str) (hg : g ≠ []) (hgk : AllW W false g) :
    replaceWholeWords W ps (a ++ g ++ b) = replaceWholeWords W ps a ++ g ++ replaceWholeWords W ps b := by
  simp only [replaceWholeWords_eq W ps h]
  have hh : HeadIs W false (g ++ b) := by
    intro c hc
    cases g with
    | nil => exact absurd rfl hg
    | cons x xs => simp at hc; subst hc; exact hgk _ (by simp)
  have hl : LastIs W false g := fun c hc => hgk c (List.mem_of_getLast? hc)
  rw [List.append_assoc, substSim_append W ps a.length a (g ++ b) rfl (Or.inr hh),
    substSim_append W ps g.length g b rfl (Or.inl hl), substSim_gap W ps g hgk, List.append_assoc]

/-- A line in which no parameter occurs as a whole word is emitted unchanged. -/
theorem identity_no_param (W : Char → Bool) (ps : List Binding) (h : WordNames W ps) (line : Str)
    (hno : ∀ t ∈ tokenise W line, t.isWord = true → t.text ∉ keys ps) :
    replaceWholeWords W ps line = line := by
  rw [replaceWholeWords_eq W ps h]
  have : (tokenise W line).flatMap (substTok ps) = detok (tokenise W line) := by
    unfold detok
    apply flatMap_congr'
    intro t ht
    unfold substTok
    cases hw : t.isWord with
    | false => simp
    | true => simp [lookup_eq_none_of_not_mem ps t.text (hno t ht hw)]
  rw [substSim, this, detok_tokenise]

/-- Hygiene / composition law: with distinct parameter names the result does not depend on the
order in which the bindings are listed (so it cannot depend on a substitution order). -/
theorem order_irrelevant (W : Char → Bool) (ps qs : List Binding) (h : WordNames W ps)
    (hn : (keys ps).Nodup) (hp : ps.Perm qs) (line : Str) :
    replaceWholeWords W ps line = replaceWholeWords W qs line := by
  have hq : WordNames W qs := fun p hp' => h p ((List.Perm.mem_iff hp).2 hp')
  rw [replaceWholeWords_eq W ps h, replaceWholeWords_eq W qs hq]
  exact substSim_congr W ps qs (lookup_perm ps qs hp hn) line

/-- A second binding of a name that is already bound is ignored (first binding wins). -/
theorem first_binding_wins (W : Char → Bool) (a b : List Binding) (s d : Str)
    (h : WordNames W (a ++ (s, d) :: b)) (hs : s ∈ keys a) (line : Str) :
    replaceWholeWords W (a ++ (s, d) :: b) line = replaceWholeWords W (a ++ b) line := by
  have h' : WordNames W (a ++ b) := fun p hp => h p (by
    rcases List.mem_append.1 hp with hp | hp
    · exact List.mem_append_left _ hp
    · exact List.mem_append_right _ (List.mem_cons_of_mem _ hp))
  rw [replaceWholeWords_eq W _ h, replaceWholeWords_eq W _ h']
  exact substSim_congr W _ _ (fun w => lookup_append_dup a b s d w hs) line

/-- No capture, in the form the defect had: two parameters whose argument texts mention each
other's names (any texts at all) end up exchanged, not nested. -/
theorem no_capture (W : Char → Bool) (p q dp dq g : Str) (hp : isWordStr W p = true)
    (hq : isWordStr W q = true) (hpq : p ≠ q) (hg : g ≠ []) (hgk : AllW W false g) :
    replaceWholeWords W [(p, dp), (q, dq)] (p ++ g ++ q) = dp ++ g ++ dq := by
  have hwn : WordNames W [(p, dp), (q, dq)] := by
    intro x hx
    simp only [List.mem_cons, List.not_mem_nil, or_false] at hx
    rcases hx with rfl | rfl
    · exact hp
    · exact hq
  have hp' : p ≠ [] ∧ AllW W true p := by
    simpa [isWordStr, AllW] using hp
  have hq' : q ≠ [] ∧ AllW W true q := by
    simpa [isWordStr, AllW] using hq
  rw [replaceWholeWords_eq W _ hwn]
  have hhead : HeadIs W false (g ++ q) := by
    intro c hc
    cases g with
    | nil => exact absurd rfl hg
    | cons x xs => simp at hc; subst hc; exact hgk _ (by simp)
  have hq2 : HeadIs W true q := by
    intro c hc
    cases q with
    | nil => simp at hc
    | cons x xs => simp at hc; subst hc; exact hq'.2 _ (by simp)
  rw [List.append_assoc, substSim_run_word W _ p (g ++ q) hp'.1 hp'.2 hhead,
    substSim_run_gap W _ g q hg hgk hq2, substSim_word W _ q hq'.1 hq'.2]
  simp [lookup, hpq]

example : replaceWholeWords asciiWord [("pt".toList, "j.eta()".toList), ("eta".toList, "j.pt()".toList)]
    "pt + eta".toList = "j.eta() + j.pt()".toList := by decide

/-- The algorithm before the fix (one `re.sub` per parameter, each looking at what the previous
one inserted) violates the specification on the input that is replayed as a regression test:
parameters `(pt, eta)` called with `(j.eta(), j.pt())`. -/
theorem seq_capture_counterexample :
    ¬ SubstSpec asciiWord [("pt".toList, "j.eta()".toList), ("eta".toList, "j.pt()".toList)]
        "pt + eta".toList
        (substSeq asciiWord [("pt".toList, "j.eta()".toList), ("eta".toList, "j.pt()".toList)] "pt + eta".toList) := by
  decide

/-- Why `WordNames` is needed: a parameter name that ends in a character the regex does not
class as a word character (here `x` followed by U+0302 COMBINING CIRCUMFLEX, a legal Python and
C++ identifier) is never replaced, because `\b` cannot hold after it. `regexW` is the class the
regex uses for the two characters, `identW` the identifier class. -/
def regexW (c : Char) : Bool := asciiWord c
def identW (c : Char) : Bool := asciiWord c || c == '̂'

theorem nonword_name_counterexample :
    replaceWholeWords regexW [(['x', '̂'], ['A'])] ['x', '̂', ' ', '+', ' ', 'x'] =
      ['x', '̂', ' ', '+', ' ', 'x'] ∧
    ¬ SubstSpec identW [(['x', '̂'], ['A'])] ['x', '̂', ' ', '+', ' ', 'x']
        (replaceWholeWords regexW [(['x', '̂'], ['A'])] ['x', '̂', ' ', '+', ' ', 'x']) := by
  decide

/-! ## Part B — arity and call style (`build_CPPCodeValue`) -/

/-- A call with the wrong number of arguments is rejected, whatever else is true of it. -/
theorem arity (spec : FSpec) (f : Expr) (args : List Expr) (h : args.length ≠ spec.args.length) :
    buildCPPCodeValue spec f args = .error .arity := by
  simp [buildCPPCodeValue, h]

/-- A function invoked like a method and a method invoked like a function are rejected. -/
theorem call_style (spec : FSpec) (f : Expr) (args : List Expr) (h : args.length = spec.args.length) :
    (spec.methodObject = none → (∃ r a, shape f = .attrName r a) ∨ (∃ a, shape f = .attrOther a) →
        buildCPPCodeValue spec f args = .error .functionAsMethod) ∧
    (spec.methodObject ≠ none → (∃ n, shape f = .name n) →
        buildCPPCodeValue spec f args = .error .methodAsFunction) := by
  constructor
  · intro hm hs
    rcases hs with ⟨r, a, hs⟩ | ⟨a, hs⟩ <;> simp [buildCPPCodeValue, h, hm, hs]
  · intro hm ⟨n, hs⟩
    cases hmo : spec.methodObject with
    | none => exact absurd hmo hm
    | some mo => simp [buildCPPCodeValue, h, hmo, hs]

/-- Exactly the calls with the declared arity and the declared style are accepted; the accepted
call carries the specification unchanged and, for a method, binds the method-object word to
the receiver's name. -/
theorem build_accepts_iff (spec : FSpec) (f : Expr) (args : List Expr) :
    isOk (buildCPPCodeValue spec f args) = BuildAccepts spec f args ∧
    ∀ e, buildCPPCodeValue spec f args = .ok e →
      e = .cpp (spec.toCodeValue (expectedInstance spec f)) args :=
  ⟨build_isOk spec f args, build_ok_form spec f args⟩

/-! ## Part C — call sites (`cpp_ast_finder`) -/

/-- A query is refused exactly when one of the call sites the finder recognises — anywhere in
the expression, nested or repeated — is refused by its handler (wrong arity, wrong style,
`getAttribute`). -/
theorem finder_rejects_iff (tbl : Table) (e : Expr) : isOk (finder tbl e) = SitesOk tbl e := by
  cases h : finder tbl e with
  | ok e' => simp [isOk, ((finder_spec tbl e).1 e' h).1]
  | error x => simp [isOk, (finder_spec tbl e).2 x h]

/-
Full statement (false of the code, see `nonnull_style_counterexample`):
  isOk (finder tbl e) = SitesOkFull tbl e
-/
/-- The same with the call style demanded of *every* injected function, `isNonnull` included
(`SitesOkFull`), provided `isNonnull` is not invoked like a method (`StyleStrict`, defect
exclusion: its handler only counts the arguments). -/
theorem finder_rejects_full_partial (tbl : Table) (e : Expr) (h : StyleStrict tbl e = true) :
    isOk (finder tbl e) = SitesOkFull tbl e := by
  simp [SitesOkFull, h, finder_rejects_iff]

/-- `m.isNonnull(x)` — a function invoked like a method — is accepted and the receiver dropped. -/
theorem nonnull_style_counterexample :
    let tbl : Table := [("isNonnull".toList, .nonnull)]
    let e : Expr := .call (.attr (.name "m".toList) "isNonnull".toList) [.opaque "x".toList]
    isOk (finder tbl e) = true ∧ SitesOkFull tbl e = false := by
  decide

/-
Full statement (false of the code, see `receiver_not_name_counterexample`):
  finder tbl e = .ok e' → NoPendingFull tbl e' = true
-/
/-- Every call of a name of the table — at any depth, any number of times — has been turned
into injected code, provided no method-style call of such a name has a receiver other than a
plain name (`ReceiverPlain`, the defect exclusion). -/
theorem call_sites_found_partial (tbl : Table) (e e' : Expr) (h : finder tbl e = .ok e')
    (hr : ReceiverPlain tbl e = true) : NoPendingFull tbl e' = true :=
  ((finder_spec tbl e).1 e' h).2.2 hr

/-- non-vacuity: a nested and repeated use satisfies the hypothesis and is rewritten -/
example :
    let s : FSpec := ⟨"f".toList, [], ["x".toList], ["auto result = x;".toList], "result".toList, "double".toList, false, none, none⟩
    let tbl : Table := [("f".toList, .spec s)]
    let e : Expr := .call (.name "f".toList) [.call (.name "f".toList) [.call (.attr (.name "j".toList) "pt".toList) []]]
    ReceiverPlain tbl e = true ∧ isOk (finder tbl e) = true := by decide

def jetTable : Table :=
  [("getAttributeFloat".toList, .spec ⟨"getAttributeFloat".toList, ["vector".toList], ["moment_name".toList],
      ["auto result = obj_j->getAttribute<float>(moment_name);".toList], "result".toList, "float".toList, false,
      some "obj_j".toList, some "xAOD::Jet_v1".toList⟩)]

/-- The receiver restriction is real: `First(Jets).getAttributeFloat("emf")` is left as an
ordinary method call (and then emitted as a call of a method the jet class does not have). -/
theorem receiver_not_name_counterexample :
    let e : Expr := .call (.attr (.call (.name "First".toList) [.opaque "jets".toList]) "getAttributeFloat".toList)
                      [.const "\"emf\"".toList]
    isOk (finder jetTable e) = true ∧
    (match finder jetTable e with
     | .ok e' => NoPendingFull jetTable e'
     | .error _ => true) = false := by
  decide

/-! ## Part D — the emitted block (`process_ast_node`) -/

/-- The method object is bound to the receiver, first: whatever the parameters are called, the
method-object word is looked up to the receiver's C++ text (and then, by
`occurrence_replaced`, every whole-word occurrence of it in the code is that text). -/
theorem receiver_bound (cv : CodeValue) (mo r t : Str) (texts : List Str)
    (h : cv.instance_ = some (mo, r)) : lookup (replList cv (some t) texts) mo = some t := by
  simp [replList, h, lookup]

/-- Result variable, own block, assignment last, declared type.  One call site, in any state
of the enclosing block: the declarations and statements already there are kept; the first new
declaration is the result variable `v` with the declared type (`std::vector<T>` for a
collection) — in the *enclosing* block, so visible after the injected block; the last new
statement is one block whose lines are the substituted template lines and whose final
statement assigns the result name to `v`; everything the arguments emit comes before it. -/
theorem result_visible (W : Char → Bool) (env : Env) (cv : CodeValue) (args : List Expr) (s s' : St) (v : Str)
    (h : emit W env (.cpp cv args) s = .ok (v, s')) (hwf : cvWellFormed W cv = true) :
    ∃ recv texts moreD moreB,
      recvOf env cv = some recv ∧
      v = uniqueName cv.varPrefix s.next ∧
      s'.decls = s.decls ++ .decl (declType cv) v :: moreD ∧
      s'.stmts = s.stmts ++ moreB ++ [.block (expectedLines W cv recv texts) v cv.result] ∧
      texts.length = args.length := by
  simp only [emit] at h
  cases hr : recvOf env cv with
  | none => simp [hr] at h
  | some recv =>
    simp only [hr] at h
    cases hl : emitList W env args
        { s with next := s.next + 1,
                 decls := s.decls ++ [.decl (declType cv) (uniqueName cv.varPrefix s.next)],
                 includes := addIncludes s.includes cv.includes } with
    | error x => simp [hl] at h
    | ok r =>
      obtain ⟨texts, s2⟩ := r
      simp only [hl, Except.ok.injEq, Prod.mk.injEq] at h
      obtain ⟨rfl, rfl⟩ := h
      obtain ⟨nd, nb, hd, hb, hlen, _⟩ := emitList_grows W env args _ texts s2 hl
      refine ⟨recv, texts, nd, nb, rfl, rfl, ?_, ?_, hlen⟩
      · simp [hd]
      · simp [hb, blockLines_eq W cv hwf recv texts]

/-- The include files of the specification are among the include files of the generated code. -/
theorem includes_added (W : Char → Bool) (env : Env) (cv : CodeValue) (args : List Expr) (s s' : St) (v : Str)
    (h : emit W env (.cpp cv args) s = .ok (v, s')) : ∀ i ∈ cv.includes, i ∈ s'.includes := by
  simp only [emit] at h
  cases hr : recvOf env cv with
  | none => simp [hr] at h
  | some recv =>
    simp only [hr] at h
    cases hl : emitList W env args
        { s with next := s.next + 1,
                 decls := s.decls ++ [.decl (declType cv) (uniqueName cv.varPrefix s.next)],
                 includes := addIncludes s.includes cv.includes } with
    | error x => simp [hl] at h
    | ok r =>
      obtain ⟨texts, s2⟩ := r
      simp only [hl, Except.ok.injEq, Prod.mk.injEq] at h
      obtain ⟨rfl, rfl⟩ := h
      obtain ⟨_, _, _, _, _, hi⟩ := emitList_grows W env args _ texts s2 hl
      intro i hic
      exact hi i ((addIncludes_sub s.includes cv.includes).2 i hic)

/-
Full statement (false of the code, see `fresh_counterexample`): the same without `PrefixOkList`.
-/
/-- **All call sites of a query.**  For any list of columns (call trees, nested and repeated
to any depth) emitted into an empty enclosing block: the blocks are exactly those of the call
sites in evaluation order (arguments before the call that uses them), each one the substituted
template followed by the assignment to a variable declared in the enclosing block with the
declared type; an argument that is itself an injected call is passed as its result variable;
include files are present; the declared variables are pairwise distinct.
Hypotheses: parameter names are words (`WFList`), function names do not end in a digit
(`PrefixOkList`, defect exclusion for the freshness clause only). -/
theorem pipeline_sound_partial (W : Char → Bool) (env : Env) (cols : List Expr) (start : Nat)
    (texts : List Str) (s : St)
    (h : emitList W env cols ⟨start, [], [], []⟩ = .ok (texts, s))
    (hwf : WFList W cols = true) (hp : PrefixOkList cols = true) :
    PipeSpec W env cols ⟨s.decls, s.stmts, texts, s.includes⟩ := by
  obtain ⟨nd, nb, hd, hb, _, hc⟩ := emitList_check W env cols _ texts s h hwf
  obtain ⟨nd', hd', _, hf⟩ := emitList_fresh W env cols _ texts s h hp
  simp only [List.nil_append] at hd hb hd'
  constructor
  · have := hc s.decls s.includes [] (by rw [hd]; exact fun d hd => hd) (fun i hi => hi)
    simpa [hb] using this
  · rw [hd']; exact hf.1

/-- The same from the query as written: metadata specifications and built-ins make the table,
the finder rewrites the columns, the emission produces the body.  A query that is not refused
yields a body satisfying `PipeSpec` for the rewritten columns. -/
theorem query_sound_partial (W : Char → Bool) (builtins : Table) (specs : List FSpec) (env : Env)
    (cols : List Expr) (start : Nat) (body : Body)
    (h : runQuery W builtins specs env cols start = .ok body)
    (ht : tableWellFormed W (mkTable builtins specs) = true)
    (hp : tablePrefixOk (mkTable builtins specs) = true)
    (hc : WFList W cols = true) (hcp : PrefixOkList cols = true) :
    ∃ cols', finderList (mkTable builtins specs) cols = .ok cols' ∧ PipeSpec W env cols' body := by
  unfold runQuery at h
  cases hf : finderList (mkTable builtins specs) cols with
  | error x => simp [hf] at h
  | ok cols' =>
    simp only [hf] at h
    cases he : emitList W env cols' ⟨start, [], [], []⟩ with
    | error x => simp [he] at h
    | ok r =>
      obtain ⟨texts, s⟩ := r
      simp only [he, Except.ok.injEq] at h
      subst h
      have hw := finderList_wf W _ ht hp cols cols' hf
      exact ⟨cols', rfl, pipeline_sound_partial W env cols' start texts s he (hw.1 hc) (hw.2 hcp)⟩

/-- With function names that do not end in a digit the generated name determines the counter
value, so different call sites get different variables. -/
theorem unique_name_injective_partial (p q : Str) (i j : Nat) (hp : noDigitEnd p = true)
    (hq : noDigitEnd q = true) (h : uniqueName p i = uniqueName q j) : i = j :=
  uniqueName_inj p q i j hp hq h

/-- Without that restriction two different call sites can get the same "fresh" variable:
function `f1` at counter 2 and function `f` at counter 12 are both `f12`
(reproduced on the real code: two declarations `double f12;` in one block). -/
theorem fresh_counterexample : uniqueName "f1".toList 2 = uniqueName "f".toList 12 := by decide

/-- non-vacuity of `pipeline_sound_partial` / `query_sound_partial`: a nested call whose inner
argument text mentions the outer parameter names is emitted and satisfies the specification -/
example :
    let s : FSpec := ⟨"myf".toList, ["a.h".toList], ["pt".toList, "eta".toList], ["auto result = pt + eta;".toList],
      "result".toList, "double".toList, false, none, none⟩
    let cols : List Expr := [.call (.name "myf".toList)
        [.opaque "i_obj1->eta()".toList, .call (.name "myf".toList) [.opaque "i_obj1->pt()".toList, .opaque "1.0".toList]]]
    (match runQuery asciiWord [] [s] [] cols 2 with
     | .ok b => b.stmts.length == 2 && b.cols == ["myf2".toList]
     | .error _ => false) = true := by decide

/-! ## the built-in injected functions, as re-extracted from the source on this run -/

/-- The built-in functions of the three back ends (`DeltaR`, `getAttributeFloat`,
`getAttributeVectorFloat`, `isNonnull`; `getAttribute` refuses) satisfy the hypotheses of
`query_sound_partial`: parameter names and method-object words are words, names do not end in a
digit. -/
theorem builtins_satisfy_hypotheses :
    (tableWellFormed asciiWord Gen.atlasBuiltins && tablePrefixOk Gen.atlasBuiltins &&
     tableWellFormed asciiWord Gen.cms_aodBuiltins && tablePrefixOk Gen.cms_aodBuiltins &&
     tableWellFormed asciiWord Gen.cms_miniaodBuiltins && tablePrefixOk Gen.cms_miniaodBuiltins) = true := by
  decide

/-- The built-ins have their documented signatures (README "getAttributeFloat or
getAttributeVectorFloat"; `DeltaR(eta1, phi1, eta2, phi2)`; `isNonnull(object)`; `getAttribute`
refuses): style, number of arguments, value or collection. -/
theorem builtins_signatures :
    (sigOf Gen.atlasBuiltins "DeltaR" = some (false, 4, false) ∧
     sigOf Gen.atlasBuiltins "getAttributeFloat" = some (true, 1, false) ∧
     sigOf Gen.atlasBuiltins "getAttributeVectorFloat" = some (true, 1, true) ∧
     Gen.atlasBuiltins.get? "getAttribute".toList = some .refuse ∧
     sigOf Gen.cms_aodBuiltins "DeltaR" = some (false, 4, false) ∧
     sigOf Gen.cms_aodBuiltins "isNonnull" = some (false, 1, false) ∧
     sigOf Gen.cms_miniaodBuiltins "DeltaR" = some (false, 4, false) ∧
     sigOf Gen.cms_miniaodBuiltins "isNonnull" = some (false, 1, false)) := by
  decide

/-- What `isNonnull` injects on both CMS back ends is what the model's `Handler.nonnull` injects,
and there is one such handler per CMS back end. -/
theorem nonnull_is_modelled :
    Gen.arityOnlyValues = [nonnullCodeValue, nonnullCodeValue] := by
  decide

/-! ## Part E — what the supplied code of the built-in `DeltaR` means

A call of a built-in "becomes the supplied code", and for a built-in that code belongs to the
package: `DeltaR(eta1, phi1, eta2, phi2)` is the distance of two directions with the azimuth
difference taken on the circle.  Angles are on a grid on which the half turn is `h` units, so the
statements are exact; the harness compiles the code lines extracted from the source against a
stand-in of `TVector2::Phi_mpi_pi` (the two loops of `Angle.phiMpiPi`) and the driver evaluates
`Angle.DeltaRGridSpec` / `Angle.WrapGridSpec` on what the compiled code printed. -/

open Angle in
/-- `wrap h x` is THE representative of the angle `x` in `[-h, h)`: it is in that range, it
differs from `x` by whole turns, and it is the only such number. -/
theorem wrap_is_canonical (h : Nat) (hh : 0 < h) (x : Int) :
    (-(h : Int) ≤ wrap h x ∧ wrap h x < h) ∧ (∃ k : Int, wrap h x = x + 2 * (h : Int) * k) ∧
    (∀ r k : Int, -(h : Int) ≤ r → r < h → r = x + 2 * (h : Int) * k → r = wrap h x) :=
  ⟨⟨wrap_lower h hh x, wrap_upper h hh x⟩, wrap_congr h x, fun r k h1 h2 hk => wrap_unique' h x r k h1 h2 hk⟩

open Angle in
/-- ROOT's `TVector2::Phi_mpi_pi` (`while (x >= π) x -= 2π; while (x < -π) x += 2π;`) — the
function the built-in code calls and the harness's stand-in header implements — computes the
canonical representative, for every angle, however many turns away. -/
theorem root_phi_mpi_pi_is_wrap (h : Nat) (hh : 0 < h) (x : Int) : phiMpiPi h x = wrap h x :=
  phiMpiPi_eq_wrap h hh x

open Angle in
/-- Hence the built-in code (`d_phi = Phi_mpi_pi(phi1-phi2)`, `d_eta*d_eta + d_phi*d_phi`) has
the reference meaning at every point. -/
theorem deltaR_builtin_meaning (h : Nat) (hh : 0 < h) (e1 p1 e2 p2 : Int) :
    dr2With (phiMpiPi h) e1 p1 e2 p2 = dr2 h e1 p1 e2 p2 := by
  unfold dr2With dr2
  rw [phiMpiPi_eq_wrap h hh]

open Angle in
/-- **The argument order does not matter**: `DeltaR(a, b) = DeltaR(b, a)`, also across the
seam `phi = ±π` (where the two wrapped differences are both the half turn, not opposite). -/
theorem deltaR_order_irrelevant (h : Nat) (hh : 0 < h) (e1 p1 e2 p2 : Int) :
    dr2 h e1 p1 e2 p2 = dr2 h e2 p2 e1 p1 := by
  unfold dr2
  have a : e2 - e1 = -(e1 - e2) := by omega
  have b : p2 - p1 = -(p1 - p2) := by omega
  rw [a, b, Int.neg_mul_neg, wrap_neg_sq h hh]

open Angle in
/-- Whole turns added to either azimuth do not change the result (both conventions,
`[-π, π)` and `[0, 2π)`, denote the same directions). -/
theorem deltaR_periodic (h : Nat) (e1 p1 e2 p2 k1 k2 : Int) :
    dr2 h e1 (p1 + 2 * (h : Int) * k1) e2 (p2 + 2 * (h : Int) * k2) = dr2 h e1 p1 e2 p2 := by
  unfold dr2
  have : p1 + 2 * (h : Int) * k1 - (p2 + 2 * (h : Int) * k2) = (p1 - p2) + 2 * (h : Int) * (k1 - k2) := by
    rw [Int.mul_sub]; omega
  rw [this, wrap_add_turns]

open Angle in
/-- The azimuth part never exceeds the half turn. -/
theorem deltaR_azimuth_bounded (h : Nat) (hh : 0 < h) (d : Int) :
    wrap h d * wrap h d ≤ (h : Int) * h := by
  have l := wrap_lower h hh d
  have u := wrap_upper h hh d
  by_cases s : 0 ≤ wrap h d
  · exact Int.mul_le_mul (by omega) (by omega) s (by omega)
  · have h1 : -(wrap h d) ≤ (h : Int) := by omega
    have h3 : 0 ≤ -(wrap h d) := by omega
    have := Int.mul_le_mul h1 h1 h3 (by omega)
    rwa [Int.neg_mul_neg] at this

open Angle in
/-- The truncating-remainder formula `fmod(x + π, 2π) - π` (C's `fmod` keeps the sign of the
dividend) is the canonical representative exactly when `x + π ≥ 0` or `x + π` is a whole number
of turns; everywhere else — every difference below `-π` — it is one full turn too low, outside
`[-π, π)`. -/
theorem fmod_wrap_characterised (h : Nat) (x : Int) :
    fmodWrap h x = wrap h x - (if 0 ≤ x + h ∨ 2 * (h : Int) ∣ x + h then 0 else 2 * (h : Int)) := by
  unfold fmodWrap wrap
  rw [Int.tmod_eq_emod]
  split <;> omega

open Angle in
/-- A code that wraps with the truncating remainder is right in one argument order and wrong in
the other, across the seam: jet at `-15π/16`, electron at `+15π/16` (`π/8` apart). -/
theorem fmod_wrap_counterexample :
    dr2 16 0 (-15) 0 15 = 4 ∧ dr2With (fmodWrap 16) 0 15 0 (-15) = 4 ∧ dr2With (fmodWrap 16) 0 (-15) 0 15 = 900 := by
  decide

/-- non-vacuity of the grid statements: the seam itself -/
example : Angle.wrap 16 16 = -16 ∧ Angle.wrap 16 (-16) = -16 ∧ Angle.phiMpiPi 16 48 = -16 ∧ Angle.dr2 16 3 16 3 (-16) = 0 := by decide

end FaxVerif.C11
