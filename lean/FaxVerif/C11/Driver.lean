/-
C11 driver: one JSON request per line on stdin, one JSON answer per line on stdout.

  {"op":"subst","reW":s,"idW":s,"repl":[[src,dest],..],"line":s,"out":s?}
      -> {"model":s,"sim":s,"wordNames":b,"holds":b}        (holds = SubstSpec idW repl line out)
  {"op":"access","ty":s,"opr":s} -> {"holds":b,"want":s}      (AccessSpec: `->` iff the declared type is a pointer)
  {"op":"build","spec":FSPEC,"func":EXPR,"args":[EXPR..],"obs":{"ok":CV}|{"err":cls}?}
      -> {"ok":CV}|{"err":kind}, "accepts":b, "holds":b
  {"op":"find","table":[[name,HANDLER]..],"expr":EXPR}
      -> {"ok":EXPR}|{"err":kind}, "sitesOk":b (SitesOkFull),"receiverPlain":b,"styleStrict":b,"noPendingFull":b,"inputNoPendingFull":b
  {"op":"query","reW":s,"idW":s,"builtins":TABLE,"specs":[FSPEC..],"env":[[k,v]..],"cols":[EXPR..],"start":n,
   "obs":{"decls":[[ty,name]..],"blocks":[{"lines":[..],"lhs":s,"rhs":s}..],"cols":[..],"includes":[..]}|{"err":cls}?}
      -> {"ok":BODY}|{"err":kind}, "sitesOk":b,"receiverPlain":b,"wf":b,"prefixOk":b,"holds":b,"why":s
  {"op":"deltar","h":n,"den":n,"e1":i,"k1":i,"e2":i,"k2":i,"obs":x}
      -> {"w":i,"ref":x,"holds":b}   (Angle.DeltaRGridSpec: obs = DeltaR(e1/den, k1·π/h, e2/den, k2·π/h); w = wrap h (k1-k2))
  {"op":"wrapgrid","h":n,"k":i,"obs":x} -> {"w":i,"holds":b}   (Angle.WrapGridSpec: obs is k·π/h brought into [-π, π])

reW / idW: the non-ASCII characters of the case that Python's `re` classes as `\w` / that may
occur in an identifier; on ASCII both classes are `[A-Za-z0-9_]`.
Run: lake env lean --run FaxVerif/C11/Driver.lean
-/
import Lean.Data.Json
import FaxVerif.C11.Spec
import FaxVerif.C11.ExtModel
import FaxVerif.C11.Angle
open Lean FaxVerif.C11

def S (s : String) : Str := s.toList
def U (s : Str) : String := String.ofList s

def mkW (extra : String) : Char → Bool :=
  let l := extra.toList
  fun c => asciiWord c || (c.toNat ≥ 128 && l.contains c)

def getStrD (j : Json) (k : String) (d : String) : String :=
  match j.getObjVal? k with
  | .ok v => (v.getStr?).toOption.getD d
  | .error _ => d

def strList (j : Json) : Except String (List Str) := do
  let a ← j.getArr?
  a.toList.mapM (fun x => do pure (S (← x.getStr?)))

def jstrs (l : List Str) : Json := Json.arr (l.map (fun s => Json.str (U s))).toArray

def parseRepl (j : Json) : Except String (List Binding) := do
  let a ← j.getArr?
  a.toList.mapM fun p => do
    let q ← p.getArr?
    if q.size != 2 then throw "binding must be a pair"
    pure (S (← q[0]!.getStr?), S (← q[1]!.getStr?))

def parseSpec (j : Json) : Except String FSpec := do
  let mo : Option Str :=
    match j.getObjVal? "methodObject" with
    | .ok (Json.str s) => some (S s)
    | _ => none
  let io : Option Str :=
    match j.getObjVal? "instanceObject" with
    | .ok (Json.str s) => some (S s)
    | _ => none
  pure {
    name := S (← (← j.getObjVal? "name").getStr?),
    includes := ← strList (← j.getObjVal? "includes"),
    args := ← strList (← j.getObjVal? "args"),
    code := ← strList (← j.getObjVal? "code"),
    result := S (← (← j.getObjVal? "result").getStr?),
    retType := S (← (← j.getObjVal? "retType").getStr?),
    isCollection := ← (← j.getObjVal? "isCollection").getBool?,
    methodObject := mo,
    instanceObject := io }

def parseCV (j : Json) : Except String CodeValue := do
  let inst : Option (Str × Str) ←
    match j.getObjVal? "instance" with
    | .ok (Json.arr a) =>
      if a.size == 2 then pure (some (S (← a[0]!.getStr?), S (← a[1]!.getStr?))) else throw "instance must be a pair"
    | _ => pure none
  pure {
    varPrefix := S (← (← j.getObjVal? "varPrefix").getStr?),
    includes := ← strList (← j.getObjVal? "includes"),
    args := ← strList (← j.getObjVal? "args"),
    code := ← strList (← j.getObjVal? "code"),
    result := S (← (← j.getObjVal? "result").getStr?),
    retType := S (← (← j.getObjVal? "retType").getStr?),
    isCollection := ← (← j.getObjVal? "isCollection").getBool?,
    instance_ := inst }

def cvJson (cv : CodeValue) : Json :=
  Json.mkObj [("varPrefix", Json.str (U cv.varPrefix)), ("includes", jstrs cv.includes), ("args", jstrs cv.args),
    ("code", jstrs cv.code), ("result", Json.str (U cv.result)), ("retType", Json.str (U cv.retType)),
    ("isCollection", Json.bool cv.isCollection),
    ("instance", match cv.instance_ with
      | some (a, b) => Json.arr #[Json.str (U a), Json.str (U b)]
      | none => Json.null)]

partial def parseExpr (j : Json) : Except String Expr := do
  if let .ok v := j.getObjVal? "name" then return .name (S (← v.getStr?))
  if let .ok v := j.getObjVal? "const" then return .const (S (← v.getStr?))
  if let .ok v := j.getObjVal? "opaque" then return .opaque (S (← v.getStr?))
  if let .ok v := j.getObjVal? "attr" then
    let a ← v.getArr?
    return .attr (← parseExpr a[0]!) (S (← a[1]!.getStr?))
  if let .ok v := j.getObjVal? "call" then
    let a ← v.getArr?
    let args ← (← a[1]!.getArr?).toList.mapM parseExpr
    return .call (← parseExpr a[0]!) args
  if let .ok v := j.getObjVal? "binop" then
    let a ← v.getArr?
    return .binop (S (← a[0]!.getStr?)) (← parseExpr a[1]!) (← parseExpr a[2]!)
  if let .ok v := j.getObjVal? "cpp" then
    let a ← v.getArr?
    let args ← (← a[1]!.getArr?).toList.mapM parseExpr
    return .cpp (← parseCV a[0]!) args
  throw s!"unknown expression {j.compress}"

partial def exprJson : Expr → Json
  | .name n => Json.mkObj [("name", Json.str (U n))]
  | .const t => Json.mkObj [("const", Json.str (U t))]
  | .opaque t => Json.mkObj [("opaque", Json.str (U t))]
  | .attr o a => Json.mkObj [("attr", Json.arr #[exprJson o, Json.str (U a)])]
  | .call f args => Json.mkObj [("call", Json.arr #[exprJson f, Json.arr (args.map exprJson).toArray])]
  | .binop op l r => Json.mkObj [("binop", Json.arr #[Json.str (U op), exprJson l, exprJson r])]
  | .cpp cv args => Json.mkObj [("cpp", Json.arr #[cvJson cv, Json.arr (args.map exprJson).toArray])]

def parseHandler (j : Json) : Except String Handler := do
  match j with
  | Json.str "nonnull" => pure .nonnull
  | Json.str "refuse" => pure .refuse
  | _ => pure (.spec (← parseSpec (← j.getObjVal? "spec")))

def parseTable (j : Json) : Except String Table := do
  let a ← j.getArr?
  a.toList.mapM fun p => do
    let q ← p.getArr?
    pure (S (← q[0]!.getStr?), ← parseHandler q[1]!)

def errKind : Err → String
  | .arity => "arity" | .functionAsMethod => "functionAsMethod" | .methodAsFunction => "methodAsFunction"
  | .refused => "refused" | .badCallee => "badCallee" | .unbound _ => "unbound" | .unsupported => "unsupported"

/-- exception class the code raises for a model error -/
def errClass : Err → String
  | .arity | .functionAsMethod | .methodAsFunction => "ValueError"
  | .refused => "RuntimeError"
  | .badCallee => "AttributeError"
  | .unbound _ => "unbound"
  | .unsupported => "unsupported"

def itemDeclJson : Item → Option Json
  | .decl ty n => some (Json.arr #[Json.str (U ty), Json.str (U n)])
  | _ => none

def itemBlockJson : Item → Option Json
  | .block lines lhs rhs => some (Json.mkObj [("lines", jstrs lines), ("lhs", Json.str (U lhs)), ("rhs", Json.str (U rhs))])
  | _ => none

def bodyJson (b : Body) : Json :=
  Json.mkObj [("decls", Json.arr (b.decls.filterMap itemDeclJson).toArray),
    ("blocks", Json.arr (b.stmts.filterMap itemBlockJson).toArray),
    ("cols", jstrs b.cols), ("includes", jstrs b.includes)]

def parseBody (j : Json) : Except String Body := do
  let decls ← (← (← j.getObjVal? "decls").getArr?).toList.mapM fun d => do
    let a ← d.getArr?
    pure (Item.decl (S (← a[0]!.getStr?)) (S (← a[1]!.getStr?)))
  let blocks ← (← (← j.getObjVal? "blocks").getArr?).toList.mapM fun b => do
    pure (Item.block (← strList (← b.getObjVal? "lines")) (S (← (← b.getObjVal? "lhs").getStr?))
      (S (← (← b.getObjVal? "rhs").getStr?)))
  pure { decls := decls, stmts := blocks, cols := ← strList (← j.getObjVal? "cols"),
         includes := ← strList (← j.getObjVal? "includes") }

def parseEnv (j : Json) : Except String Env := do
  let a ← j.getArr?
  a.toList.mapM fun p => do
    let q ← p.getArr?
    pure (S (← q[0]!.getStr?), S (← q[1]!.getStr?))


/-- not part of the Spec: the first clause of `check` that fails, for the replay message -/
partial def diagnose (W : Char → Bool) (env : Env) (decls : List Item) (incl : List Str) :
    Expr → List Item → Except String (Str × List Item)
  | .opaque t, bs => .ok (t, bs)
  | .const t, bs => .ok (t, bs)
  | .name id, bs =>
    match env.get? id with
    | some t => .ok (t, bs)
    | none => .error s!"the name {U id} has no representation"
  | .cpp cv args, bs => do
    let recv ← match recvOf env cv with
      | some r => pure r
      | none => throw "receiver without representation"
    let mut texts : List Str := []
    let mut rest := bs
    for a in args do
      let (t, r) ← diagnose W env decls incl a rest
      texts := texts ++ [t]
      rest := r
    match rest with
    | .block lines lhs rhs :: bs2 =>
      let fn := U cv.varPrefix
      if rhs ≠ cv.result then throw s!"call of {fn}: the block's last statement assigns '{U rhs}', not the result name '{U cv.result}'"
      if !(decls.contains (Item.decl (declType cv) lhs)) then
        throw s!"call of {fn}: the result variable {U lhs} is not declared in the enclosing block with type '{U (declType cv)}' (declared there: {decls.filterMap (fun d => match d with | .decl t n => some (U t ++ " " ++ U n) | _ => none)})"
      let want := expectedLines W cv recv texts
      if lines ≠ want then
        throw s!"call of {fn}: the block's lines are {lines.map U}, the simultaneous whole-word substitution of the template with {(replList cv recv texts).map (fun p => (U p.1, U p.2))} is {want.map U}"
      match cv.includes.find? (fun i => !incl.contains i) with
      | some i => throw s!"call of {fn}: include file {U i} is missing"
      | none => pure (lhs, bs2)
    | _ => throw s!"call of {U cv.varPrefix}: no block left for this call site ({bs.length} blocks remain before its arguments)"
  | _, _ => .error "unsupported expression"

def diagnoseAll (W : Char → Bool) (env : Env) (b : Body) (cols : List Expr) : String := Id.run do
  let mut rest := b.stmts
  let mut texts : List Str := []
  for c in cols do
    match diagnose W env b.decls b.includes c rest with
    | .ok (t, r) => texts := texts ++ [t]; rest := r
    | .error e => return e
  if !rest.isEmpty then return s!"{rest.length} more plain blocks in the enclosing scope than call sites"
  if texts ≠ b.cols then return s!"the columns are {b.cols.map U}, the result variables of the call sites are {texts.map U}"
  return "the declared result variables are not pairwise distinct (not fresh): " ++ toString ((b.decls.filterMap declName).map U)

def opSubst (j : Json) : Except String Json := do
  let reW := mkW (getStrD j "reW" "")
  let idW := mkW (getStrD j "idW" "")
  let repl ← parseRepl (← j.getObjVal? "repl")
  let line := S (← (← j.getObjVal? "line").getStr?)
  let model := replaceWholeWords reW repl line
  let sim := substSim idW repl line
  let holds : Bool :=
    match j.getObjVal? "out" with
    | .ok (Json.str o) => decide (SubstSpec idW repl line (S o))
    | _ => true
  pure (Json.mkObj [("model", Json.str (U model)), ("sim", Json.str (U sim)),
    ("wordNames", Json.bool (decide (WordNames idW repl))), ("holds", Json.bool holds)])

def opBuild (j : Json) : Except String Json := do
  let spec ← parseSpec (← j.getObjVal? "spec")
  let f ← parseExpr (← j.getObjVal? "func")
  let args ← (← (← j.getObjVal? "args").getArr?).toList.mapM parseExpr
  let accepts := BuildAccepts spec f args
  let res := buildCPPCodeValue spec f args
  -- the Spec on the observed outcome: accepted ⇔ declared arity and style; the accepted call
  -- carries the specification and the receiver binding
  let holds : Bool :=
    match j.getObjVal? "obs" with
    | .ok o =>
      match o.getObjVal? "ok" with
      | .ok cvj =>
        match parseCV cvj with
        | .ok cv => accepts && decide (cv = spec.toCodeValue (expectedInstance spec f)) &&
            (getStrD cvj "declType" (U (declType cv)) == U (declType cv))
        | .error _ => false
      | .error _ => !accepts && (getStrD o "err" "" == "ValueError")
    | .error _ => true
  let out : List (String × Json) :=
    match res with
    | .ok (.cpp cv _) => [("ok", cvJson cv), ("declType", Json.str (U (declType cv)))]
    | .ok _ => [("err", Json.str "not-cpp")]
    | .error e => [("err", Json.str (errKind e)), ("cls", Json.str (errClass e))]
  pure (Json.mkObj (out ++ [("accepts", Json.bool accepts), ("holds", Json.bool holds)]))

def opFind (j : Json) : Except String Json := do
  let tbl ← parseTable (← j.getObjVal? "table")
  let e ← parseExpr (← j.getObjVal? "expr")
  let res := finder tbl e
  let out : List (String × Json) :=
    match res with
    | .ok e' => [("ok", exprJson e'), ("noPendingFull", Json.bool (NoPendingFull tbl e'))]
    | .error x => [("err", Json.str (errKind x)), ("cls", Json.str (errClass x))]
  pure (Json.mkObj (out ++ [("sitesOk", Json.bool (SitesOkFull tbl e)), ("receiverPlain", Json.bool (ReceiverPlain tbl e)),
    ("styleStrict", Json.bool (StyleStrict tbl e)), ("inputNoPendingFull", Json.bool (NoPendingFull tbl e))]))

def opQuery (j : Json) : Except String Json := do
  let reW := mkW (getStrD j "reW" "")
  let idW := mkW (getStrD j "idW" "")
  let builtins ← parseTable (← j.getObjVal? "builtins")
  let specs ← (← (← j.getObjVal? "specs").getArr?).toList.mapM parseSpec
  let env ← parseEnv (← j.getObjVal? "env")
  let cols ← (← (← j.getObjVal? "cols").getArr?).toList.mapM parseExpr
  let start ← (← j.getObjVal? "start").getNat?
  let tbl := mkTable builtins specs
  let styleStrict := StyleStrictList tbl cols
  let sitesOk := SitesOkList tbl cols && styleStrict
  let found := finderList tbl cols
  let model := runQuery reW builtins specs env cols start
  let (wf, prefixOk) : Bool × Bool :=
    match found with
    | .ok cols' => (WFList idW cols', PrefixOkList cols')
    | .error _ => (true, true)
  let (holds, why) : Bool × String :=
    match j.getObjVal? "obs" with
    | .error _ => (true, "")
    | .ok o =>
      match o.getObjVal? "err" with
      | .ok (Json.str cls) =>
        if sitesOk then (false, s!"raised {cls} although every call site has the declared arity and style")
        else if cls == "ValueError" || cls == "RuntimeError" then (true, "")
        else (false, s!"a call site with wrong arity / style must be refused with ValueError (RuntimeError for getAttribute), got {cls}")
      | _ =>
        if !sitesOk then (false, "translated although a call site has the wrong arity or call style")
        else
          match found, parseBody o with
          | .ok cols', .ok b =>
            if decide (PipeSpec idW env cols' b) then (true, "")
            else
              (false, diagnoseAll idW env b cols')
          | _, _ => (false, "observation could not be read")
  let out : List (String × Json) :=
    match model with
    | .ok b => [("ok", bodyJson b)]
    | .error e => [("err", Json.str (errKind e)), ("cls", Json.str (errClass e))]
  pure (Json.mkObj (out ++ [("sitesOk", Json.bool sitesOk), ("receiverPlain", Json.bool (ReceiverPlainList tbl cols)),
    ("wf", Json.bool wf), ("prefixOk", Json.bool prefixOk), ("styleStrict", Json.bool styleStrict), ("holds", Json.bool holds), ("why", Json.str why)]))

def specJson (s : FSpec) : Json :=
  Json.mkObj [("name", Json.str (U s.name)), ("includes", jstrs s.includes), ("args", jstrs s.args),
    ("code", jstrs s.code), ("result", Json.str (U s.result)), ("retType", Json.str (U s.retType)),
    ("isCollection", Json.bool s.isCollection),
    ("methodObject", match s.methodObject with | some m => Json.str (U m) | none => Json.null)]

def handlerJson : Handler → Json
  | .spec s => Json.mkObj [("spec", specJson s)]
  | .nonnull => Json.str "nonnull"
  | .refuse => Json.str "refuse"

/-- {"op":"register","builtins":TABLE,"specs":[FSPEC..] (in `cpp_functions` order),"obs":[[name, HANDLER|null]..]}
    -> {"model":[[name, HANDLER|null]..],"holds":b,"wrong":[name..]}   (RegistrationSpec) -/
def opRegister (j : Json) : Except String Json := do
  let builtins ← parseTable (← j.getObjVal? "builtins")
  let specs ← (← (← j.getObjVal? "specs").getArr?).toList.mapM parseSpec
  let mds := specs.map Md.func
  let obs ← (← (← j.getObjVal? "obs").getArr?).toList.mapM fun p => do
    let q ← p.getArr?
    let h : Option Handler ← match q[1]! with
      | Json.null => pure none
      | x => pure (some (← parseHandler x))
    pure (S (← q[0]!.getStr?), h)
  let tbl := registered builtins mds
  let model := obs.map fun p => Json.arr #[Json.str (U p.1), match (tbl.get? p.1).map Handler.observable with
    | some h => handlerJson h | none => Json.null]
  let wrong := obs.filter fun p => !decide (RegistrationSpec builtins mds [p])
  pure (Json.mkObj [("model", Json.arr model.toArray), ("holds", Json.bool (decide (RegistrationSpec builtins mds obs))),
    ("wrong", jstrs (wrong.map (·.1)))])

def floatJson (f : Float) : Json :=
  match JsonNumber.fromFloat? f with
  | .inr n => Json.num n
  | .inl t => Json.str t

def getFloat (j : Json) (k : String) : Except String Float := do
  pure (← (← j.getObjVal? k).getNum?).toFloat

def opDeltaR (j : Json) : Except String Json := do
  let h ← (← j.getObjVal? "h").getNat?
  let den ← (← j.getObjVal? "den").getNat?
  let e1 ← (← j.getObjVal? "e1").getInt?
  let k1 ← (← j.getObjVal? "k1").getInt?
  let e2 ← (← j.getObjVal? "e2").getInt?
  let k2 ← (← j.getObjVal? "k2").getInt?
  let obs ← getFloat j "obs"
  pure (Json.mkObj [("w", Json.num (JsonNumber.fromInt (Angle.wrap h (k1 - k2)))),
    ("ref", floatJson (Angle.deltaRRef h den e1 k1 e2 k2)),
    ("holds", Json.bool (Angle.DeltaRGridSpec h den e1 k1 e2 k2 obs))])

def opWrapGrid (j : Json) : Except String Json := do
  let h ← (← j.getObjVal? "h").getNat?
  let k ← (← j.getObjVal? "k").getInt?
  let obs ← getFloat j "obs"
  pure (Json.mkObj [("w", Json.num (JsonNumber.fromInt (Angle.wrap h k))),
    ("holds", Json.bool (Angle.WrapGridSpec h k obs))])

def handle (line : String) : String :=
  match Json.parse line with
  | .error e => (Json.mkObj [("bad", Json.str e)]).compress
  | .ok j =>
    let r : Except String Json := do
      let op ← (← j.getObjVal? "op").getStr?
      if op == "access" then
        let ty := S (← (← j.getObjVal? "ty").getStr?)
        let o := S (← (← j.getObjVal? "opr").getStr?)
        pure (Json.mkObj [("holds", Json.bool (decide (AccessSpec ty o))), ("want", Json.str (U (accessOp ty)))])
      else if op == "subst" then opSubst j
      else if op == "build" then opBuild j
      else if op == "find" then opFind j
      else if op == "query" then opQuery j
      else if op == "register" then opRegister j
      else if op == "deltar" then opDeltaR j
      else if op == "wrapgrid" then opWrapGrid j
      else throw s!"unknown op {op}"
    match r with
    | .ok j => j.compress
    | .error e => (Json.mkObj [("bad", Json.str e)]).compress

partial def loopIO (h : IO.FS.Stream) (out : IO.FS.Stream) : IO Unit := do
  let line ← h.getLine
  if line.isEmpty then return ()
  let t := line.trimAscii.toString
  if !t.isEmpty then out.putStrLn (handle t)
  loopIO h out

def main : IO Unit := do
  let out ← IO.getStdout
  loopIO (← IO.getStdin) out
  out.flush
